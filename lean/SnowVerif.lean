import SnowVerif.Model.Builder
import SnowVerif.Crypto.Toy
