/-
  The generic "xor with a keystream, MAC over the ciphertext" AEAD construction.
  Definitions only (core Lean, linked into the driver executable); the laws are proved in
  `SnowVerif/Lemmas/C18StreamMac.lean`.  Used by `Toy`-style AEADs in the theorems and by the
  wrappers of the real AEADs in `SnowVerif/Crypto/Real.lean`.
-/
import SnowVerif.Bytes

namespace SnowVerif.C18
open SnowVerif Bytes

/-- Encrypt: xor the plaintext with `len(pt)` keystream bytes, append the MAC of
    (key, nonce, ad, ciphertext body). Same shape as `Toy.enc`, and as ChaCha20-Poly1305 /
    AES-GCM (counter-mode keystream, one-time or GHASH MAC). -/
def smEnc (ks : Bytes → UInt64 → Nat → Bytes) (mac : Bytes → UInt64 → Bytes → Bytes → Bytes)
    (key : Bytes) (n : UInt64) (ad pt : Bytes) : Bytes :=
  let ct := xor pt (ks key n pt.length)
  ct ++ mac key n ad ct

/-- Decrypt: split off the last 16 bytes, recompute the MAC over the body, compare, and only
    then apply the keystream. Same shape as `Toy.dec`. -/
def smDec (ks : Bytes → UInt64 → Nat → Bytes) (mac : Bytes → UInt64 → Bytes → Bytes → Bytes)
    (key : Bytes) (n : UInt64) (ad c : Bytes) : Option Bytes :=
  if c.length < 16 then none
  else
    let body := c.take (c.length - 16)
    let t := c.drop (c.length - 16)
    if t == mac key n ad body then some (xor body (ks key n body.length))
    else none

end SnowVerif.C18
