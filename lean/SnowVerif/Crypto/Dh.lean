/-
Executable reference implementations of
  * X25519 (RFC 7748), and
  * P-256 (secp256r1) ECDH with uncompressed SEC1 public keys,
written against core Lean only (no Mathlib, no `partial`, no `unsafe`).
All arithmetic is on `Nat` with explicit reduction modulo the field prime.
-/
namespace SnowVerif.Crypto.Dh

/-! ## Byte strings and naturals -/

/-- Little-endian bytes to a natural number. -/
def leToNat : List UInt8 → Nat
  | [] => 0
  | b :: bs => b.toNat + 256 * leToNat bs

/-- Big-endian bytes to a natural number. -/
def beToNat (bs : List UInt8) : Nat :=
  bs.foldl (fun acc b => acc * 256 + b.toNat) 0

/-- The `len` low-order bytes of `n`, little-endian. -/
def natToLe : Nat → Nat → List UInt8
  | 0, _ => []
  | len + 1, n => UInt8.ofNat (n % 256) :: natToLe len (n / 256)

/-- The `len` low-order bytes of `n`, big-endian. -/
def natToBe (len n : Nat) : List UInt8 :=
  (natToLe len n).reverse

/-! ## Modular arithmetic -/

/-- Square-and-multiply, least significant bit first; `fuel` bounds the number of exponent bits
consumed. Invariant: the result is `acc * b ^ e % m` whenever `e < 2 ^ fuel`. -/
def powModAux (m : Nat) : Nat → Nat → Nat → Nat → Nat
  | 0, _, _, acc => acc
  | fuel + 1, b, e, acc =>
    if e = 0 then acc
    else powModAux m fuel (b * b % m) (e / 2) (if e % 2 = 1 then acc * b % m else acc)

/-- `b ^ e mod m`. -/
def powMod (m b e : Nat) : Nat :=
  powModAux m (e.log2 + 1) (b % m) e (1 % m)

/-- `(a - b) mod m` for `a, b < m`. -/
def subMod (m a b : Nat) : Nat :=
  (a + m - b) % m

/-- Modular inverse modulo a prime `m` by Fermat's little theorem (`0` maps to `0`). -/
def invMod (m a : Nat) : Nat :=
  powMod m a (m - 2)

/-! ## X25519 (RFC 7748) -/

/-- The field prime `2^255 - 19`. -/
def p25519 : Nat := 2 ^ 255 - 19

/-- `(486662 - 2) / 4`. -/
def a24 : Nat := 121665

/-- RFC 7748 `decodeScalar25519`: clear bits 0, 1, 2 and 255, set bit 254. -/
def clamp25519 (k : Nat) : Nat :=
  k % 2 ^ 254 - k % 8 + 2 ^ 254

/-- RFC 7748 `decodeUCoordinate` for 255 bits followed by reduction modulo `p`:
the top bit is masked and non-canonical values are accepted. -/
def decodeU25519 (u : List UInt8) : Nat :=
  leToNat (u.take 32) % 2 ^ 255 % p25519

/-- State of the Montgomery ladder: `x_2, z_2, x_3, z_3` and the pending `swap` bit. -/
structure Ladder where
  x2 : Nat
  z2 : Nat
  x3 : Nat
  z3 : Nat
  swap : Bool

/-- One iteration of the RFC 7748 ladder loop for scalar bit `kt`. -/
def ladderStep (x1 : Nat) (kt : Bool) (s : Ladder) : Ladder :=
  let p := p25519
  let sw := s.swap != kt
  let x2 := if sw then s.x3 else s.x2
  let x3 := if sw then s.x2 else s.x3
  let z2 := if sw then s.z3 else s.z2
  let z3 := if sw then s.z2 else s.z3
  let a := (x2 + z2) % p
  let aa := a * a % p
  let b := subMod p x2 z2
  let bb := b * b % p
  let e := subMod p aa bb
  let c := (x3 + z3) % p
  let d := subMod p x3 z3
  let da := d * a % p
  let cb := c * b % p
  let t1 := (da + cb) % p
  let t2 := subMod p da cb
  { x3 := t1 * t1 % p
    z3 := x1 * (t2 * t2 % p) % p
    x2 := aa * bb % p
    z2 := e * ((aa + a24 * e) % p) % p
    swap := kt }

/-- Run the ladder over bits `t - 1, ..., 0` of `k`. -/
def ladderLoop (x1 k : Nat) : Nat → Ladder → Ladder
  | 0, s => s
  | t + 1, s => ladderLoop x1 k t (ladderStep x1 (k.testBit t) s)

/-- The X25519 function on decoded integers: `k` already clamped, `u < p`. -/
def x25519Nat (k u : Nat) : Nat :=
  let p := p25519
  let s := ladderLoop u k 255 { x2 := 1, z2 := 0, x3 := u, z3 := 1, swap := false }
  let x2 := if s.swap then s.x3 else s.x2
  let z2 := if s.swap then s.z3 else s.z2
  x2 * invMod p z2 % p

/-- RFC 7748 X25519(k, u): both 32 bytes (the scalar is clamped inside, the top bit of u is masked, non-canonical u is reduced mod p); result 32 bytes. -/
def x25519 (scalar u : List UInt8) : List UInt8 :=
  natToLe 32 (x25519Nat (clamp25519 (leToNat (scalar.take 32))) (decodeU25519 u))

/-- The base point `u = 9`, encoded. -/
def basePoint25519 : List UInt8 := natToLe 32 9

/-- X25519(k, 9): the public key of a 32-byte private key. -/
def x25519Base (scalar : List UInt8) : List UInt8 :=
  x25519 scalar basePoint25519

/-! ## P-256 (secp256r1, NIST FIPS 186-4 D.1.2.3 / SEC 2) -/

/-- The field prime `2^256 - 2^224 + 2^192 + 2^96 - 1`. -/
def p256P : Nat := 0xffffffff00000001000000000000000000000000ffffffffffffffffffffffff
/-- The (prime) group order. -/
def p256N : Nat := 0xffffffff00000000ffffffffffffffffbce6faada7179e84f3b9cac2fc632551
/-- Curve coefficient `a = -3 mod p`. -/
def p256A : Nat := p256P - 3
/-- Curve coefficient `b`. -/
def p256B : Nat := 0x5ac635d8aa3a93e7b3ebbd55769886bc651d06b0cc53b0f63bce3c3e27d2604b
/-- Generator, x-coordinate. -/
def p256Gx : Nat := 0x6b17d1f2e12c4247f8bce6e563a440f277037d812deb33a0f4a13945d898c296
/-- Generator, y-coordinate. -/
def p256Gy : Nat := 0x4fe342e2fe1a7f9b8ee7eb4a7c0f9e162bce33576b315ececbb6406837bf51f5

/-- A point in Jacobian coordinates: `(X, Y, Z)` stands for the affine point `(X / Z^2, Y / Z^3)`;
`Z = 0` is the point at infinity. All components are kept reduced modulo `p`. -/
structure JPoint where
  x : Nat
  y : Nat
  z : Nat

/-- The point at infinity. -/
def JPoint.infinity : JPoint := { x := 1, y := 1, z := 0 }

/-- The affine point `(x, y)` in Jacobian form. -/
def JPoint.ofAffine (x y : Nat) : JPoint := { x := x, y := y, z := 1 }

/-- Does the affine pair `(x, y)`, with `x, y < p`, satisfy `y^2 = x^3 + a x + b`? -/
def p256OnCurve (x y : Nat) : Bool :=
  let p := p256P
  y * y % p == (x * x % p * x + p256A * x + p256B) % p

/-- Point doubling. -/
def p256Double (q : JPoint) : JPoint :=
  let p := p256P
  if q.z = 0 ∨ q.y = 0 then JPoint.infinity
  else
    let yy := q.y * q.y % p
    let s := 4 * q.x * yy % p
    let zz := q.z * q.z % p
    let m := (3 * (q.x * q.x % p) + p256A * (zz * zz % p)) % p
    let x' := subMod p (m * m % p) (2 * s % p)
    let y' := subMod p (m * subMod p s x' % p) (8 * (yy * yy % p) % p)
    let z' := 2 * q.y * q.z % p
    { x := x', y := y', z := z' }

/-- General point addition (handles infinity, doubling and inverse points). -/
def p256Add (q r : JPoint) : JPoint :=
  let p := p256P
  if q.z = 0 then r
  else if r.z = 0 then q
  else
    let z1z1 := q.z * q.z % p
    let z2z2 := r.z * r.z % p
    let u1 := q.x * z2z2 % p
    let u2 := r.x * z1z1 % p
    let s1 := q.y * (z2z2 * r.z % p) % p
    let s2 := r.y * (z1z1 * q.z % p) % p
    if u1 = u2 then
      if s1 = s2 then p256Double q else JPoint.infinity
    else
      let h := subMod p u2 u1
      let rr := subMod p s2 s1
      let hh := h * h % p
      let hhh := hh * h % p
      let v := u1 * hh % p
      let x3 := subMod p (subMod p (rr * rr % p) hhh) (2 * v % p)
      let y3 := subMod p (rr * subMod p v x3 % p) (s1 * hhh % p)
      let z3 := h * (q.z * r.z % p) % p
      { x := x3, y := y3, z := z3 }

/-- Double-and-add over bits `i - 1, ..., 0` of `k`, most significant first. -/
def p256MulLoop (k : Nat) (q : JPoint) : Nat → JPoint → JPoint
  | 0, acc => acc
  | i + 1, acc =>
    let d := p256Double acc
    p256MulLoop k q i (if k.testBit i then p256Add d q else d)

/-- Scalar multiplication `k * q` for `k < 2^256`. -/
def p256Mul (k : Nat) (q : JPoint) : JPoint :=
  p256MulLoop k q 256 JPoint.infinity

/-- Affine coordinates of a Jacobian point; `none` for the point at infinity. -/
def p256ToAffine (q : JPoint) : Option (Nat × Nat) :=
  let p := p256P
  if q.z = 0 then none
  else
    let zi := invMod p q.z
    let zi2 := zi * zi % p
    some (q.x * zi2 % p, q.y * (zi2 * zi % p) % p)

/-- The generator. -/
def p256G : JPoint := JPoint.ofAffine p256Gx p256Gy

/-- P-256: is the 32-byte big-endian string a valid secret scalar, i.e. in [1, n-1]? -/
def p256ValidScalar (k : List UInt8) : Bool :=
  k.length == 32 && (let n := beToNat k; 0 < n && n < p256N)

/-- Uncompressed SEC1 encoding `0x04 || X || Y` (the point at infinity is mapped to `X = Y = 0`;
this only arises for invalid scalars). -/
def p256EncodePoint (q : JPoint) : List UInt8 :=
  match p256ToAffine q with
  | some (x, y) => 4 :: (natToBe 32 x ++ natToBe 32 y)
  | none => 4 :: (natToBe 32 0 ++ natToBe 32 0)

/-- Decode exactly 65 bytes `0x04 || X || Y` with `X, Y < p` on the curve. -/
def p256DecodePoint (pub : List UInt8) : Option JPoint :=
  match pub with
  | tag :: rest =>
    if tag == 4 && rest.length == 64 then
      let x := beToNat (rest.take 32)
      let y := beToNat (rest.drop 32)
      if x < p256P && y < p256P && p256OnCurve x y then some (JPoint.ofAffine x y) else none
    else none
  | [] => none

/-- P-256 public key of a valid 32-byte big-endian scalar, as the 65-byte uncompressed SEC1 encoding 0x04 || X || Y. (Any value for invalid scalars.) -/
def p256Base (k : List UInt8) : List UInt8 :=
  p256EncodePoint (p256Mul (beToNat (k.take 32)) p256G)

/-- P-256 ECDH: `pub` must be exactly a 65-byte uncompressed SEC1 point (0x04 || X || Y) with X, Y < p lying on the curve (compressed / hybrid / identity encodings may also be accepted by the Rust crate: mirror what the `p256` crate's `PublicKey::from_sec1_bytes` accepts for 65-byte inputs — for a 65-byte input only tag 0x04 can be valid); returns the 32-byte big-endian x-coordinate of k*P, or none if the scalar or the point is invalid. -/
def p256Dh (k pub : List UInt8) : Option (List UInt8) :=
  if p256ValidScalar k then
    match p256DecodePoint pub with
    | some q =>
      match p256ToAffine (p256Mul (beToNat k) q) with
      | some (x, _) => some (natToBe 32 x)
      | none => none  -- unreachable: the group order is prime and 0 < k < n
    | none => none
  else none

/-! ## Known-answer tests -/

/-- Value of a hexadecimal digit (`0` for any other character). -/
def hexDigit (c : Char) : Nat :=
  if '0' ≤ c ∧ c ≤ '9' then c.toNat - '0'.toNat
  else if 'a' ≤ c ∧ c ≤ 'f' then c.toNat - 'a'.toNat + 10
  else if 'A' ≤ c ∧ c ≤ 'F' then c.toNat - 'A'.toNat + 10
  else 0

/-- Decode pairs of hexadecimal digits (a trailing odd digit is dropped). -/
def hexToBytesAux : List Char → List UInt8
  | a :: b :: rest => UInt8.ofNat (16 * hexDigit a + hexDigit b) :: hexToBytesAux rest
  | _ => []

/-- Decode a hexadecimal string. -/
def hexToBytes (s : String) : List UInt8 :=
  hexToBytesAux s.toList

/-- `n`-fold iteration `(k, u) ↦ (X25519(k, u), k)` of RFC 7748 section 5.2, returning the final `k`. -/
def x25519Iter : Nat → List UInt8 → List UInt8 → List UInt8
  | 0, k, _ => k
  | n + 1, k, u => x25519Iter n (x25519 k u) k

/-- RFC 7748 known answers. -/
def selfTestX25519 : Bool :=
  let h := hexToBytes
  -- section 5.2, test vectors 1 and 2
  x25519 (h "a546e36bf0527c9d3b16154b82465edd62144c0ac1fc5a18506a2244ba449ac4")
         (h "e6db6867583030db3594c1a424b15f7c726624ec26b3353b10a903a6d0ab1c4c")
    == h "c3da55379de9c6908e94ea4df28d084f32eccf03491c71f754b4075577a28552"
  && x25519 (h "4b66e9d4d1b4673c5ad22691957d6af5c11b6421e0ea01d42ca4169e7918ba0d")
            (h "e5210f12786811d3f4b7959d0538ae2c31dbe7106fc03c3efc4cd549c715a493")
    == h "95cbde9476e8907d7aade45cb4b873f88b595a68799fa152e6f8f7647aac7957"
  -- section 5.2, one iteration of the iterated test
  && x25519Iter 1 basePoint25519 basePoint25519
    == h "422c8e7a6227d7bca1350b3e2bb7279f7897b87bb6854b783c60e80311ae3079"
  -- section 6.1, Alice and Bob
  && (let a := h "77076d0a7318a57d3c16c17251b26645df4c2f87ebc0992ab177fba51db92c2a"
      let aPub := h "8520f0098930a754748b7ddcb43ef75a0dbf3a0d26381af4eba4a98eaa9b4e6a"
      let b := h "5dab087e624a8a4b79e17f8b83800ee66f3bb1292618b6fd1c2f8b27ff88e0eb"
      let bPub := h "de9edb7d7b7dc1b4d35b61c2ece435373f8343c85b78674dadfc7e146f882b4f"
      let k := h "4a5d9d5ba4ce2de1728e3bf480350f25e07e21c947d19e3376f09b3c1e161742"
      x25519Base a == aPub && x25519Base b == bPub
      && x25519 a bPub == k && x25519 b aPub == k)

/-- P-256 known answers and consistency checks. -/
def selfTestP256 : Bool :=
  let h := hexToBytes
  let g := h ("04" ++ "6b17d1f2e12c4247f8bce6e563a440f277037d812deb33a0f4a13945d898c296"
                   ++ "4fe342e2fe1a7f9b8ee7eb4a7c0f9e162bce33576b315ececbb6406837bf51f5")
  let g2 := h ("04" ++ "7cf27b188d034f7e8a52380304b51ac3c08969e277f21b35a60b48fc47669978"
                    ++ "07775510db8ed040293d9ac69f7430dbba7dade63ce982299e04b79d227873d1")
  let one := natToBe 32 1
  let two := natToBe 32 2
  let nm1 := natToBe 32 (p256N - 1)
  let k1 := h "c9afa9d845ba75166b5c215767b1d6934e50c3db36e89b127b8a622b120f6721"
  let k2 := h "0f56db78ca460b055c500064824bed999a25aaf48ebb519ac201537b85479813"
  let k3 := h "00000000000000000000000000000000ffffffffffffffffffffffffffffffff"
  p256OnCurve p256Gx p256Gy
  && p256Base one == g
  && p256Base two == g2
  -- (n - 1) G = -G, and n G is the point at infinity
  && p256Base nm1 == 4 :: (natToBe 32 p256Gx ++ natToBe 32 (p256P - p256Gy))
  && (p256ToAffine (p256Mul p256N p256G)).isNone
  -- scalar range
  && !p256ValidScalar (natToBe 32 0) && p256ValidScalar one && p256ValidScalar nm1
  && !p256ValidScalar (natToBe 32 p256N) && !p256ValidScalar (natToBe 31 1)
  -- DH with the generator reproduces the public key's x-coordinate
  && p256Dh two g == some ((g2.drop 1).take 32)
  && p256Dh one g2 == some ((g2.drop 1).take 32)
  -- commutativity
  && (let dh := fun (a b : List UInt8) => p256Dh a (p256Base b)
      (dh k1 k2).isSome && dh k1 k2 == dh k2 k1
      && (dh k1 k3).isSome && dh k1 k3 == dh k3 k1
      && (dh k2 k3).isSome && dh k2 k3 == dh k3 k2
      && dh nm1 k1 == dh k1 nm1 && dh k1 one == some (((p256Base k1).drop 1).take 32))
  -- rejected encodings
  && p256Dh k1 (2 :: g.drop 1) == none
  && p256Dh k1 (g.take 64) == none
  && p256Dh k1 (g ++ [0]) == none
  && p256Dh k1 (4 :: (natToBe 32 p256Gx ++ natToBe 32 (p256Gy + 1))) == none
  && p256Dh k1 (List.replicate 65 0) == none
  && p256Dh (natToBe 32 0) g == none
  && p256Dh (natToBe 32 p256N) g == none

/-- true iff built-in known-answer tests pass (RFC 7748 section 5.2 vectors and the section 6.1 Alice/Bob example; for P-256 the generator's own coordinates for k = 1 and k = 2 and DH commutativity on a few fixed scalars). -/
def selfTest : Bool :=
  selfTestX25519 && selfTestP256

end SnowVerif.Crypto.Dh
