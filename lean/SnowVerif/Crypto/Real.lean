/-
  Suites built from the Lean reference primitives, with snow's wrapper
  conventions (`resolvers/default.rs`, `resolvers/ring.rs`): nonce layouts,
  key handling, what a decrypt leaves in the output buffer.
-/
import SnowVerif.Suite
import SnowVerif.Crypto.Sha2
import SnowVerif.Crypto.Blake2
import SnowVerif.Crypto.ChaChaPoly
import SnowVerif.Crypto.AesGcm
import SnowVerif.Crypto.Dh
import SnowVerif.Crypto.Toy

namespace SnowVerif
namespace Real
open Bytes

/-- ChaChaPoly nonce: 4 zero bytes then the counter little-endian. -/
def nonceChaCha (n : UInt64) : Bytes := zeros 4 ++ le64 n
/-- AES-GCM nonce: 4 zero bytes then the counter big-endian. -/
def nonceGcm (n : UInt64) : Bytes := zeros 4 ++ be64 n
/-- XChaChaPoly nonce (snow's extension): 16 zero bytes then the counter little-endian. -/
def nonceXChaCha (n : UInt64) : Bytes := zeros 16 ++ le64 n

inductive Backend | toy | default | ring
  deriving DecidableEq, Repr

/-- What is left in `out` after a failed decrypt.
    default (RustCrypto): the ciphertext body was copied to `out` and is not touched when
    the tag does not verify. ring: when `out` holds the whole ciphertext it is copied there
    and `open_in_place` zeroes the body; otherwise a temporary vector is used. -/
def failBuf (b : Backend) (ct : Bytes) (cap : Nat) : Bytes :=
  match b with
  | .ring => if cap ≥ ct.length then zeros (ct.length - 16) ++ ct.drop (ct.length - 16) else []
  | _ => ct.take (ct.length - 16)

def okBuf (b : Backend) (ct p : Bytes) (cap : Nat) : Bytes :=
  match b with
  | .ring => if cap ≥ ct.length then p ++ ct.drop (ct.length - 16) else p
  | _ => p

structure CipherImpl where
  name : String
  enc : Bytes → UInt64 → Bytes → Bytes → Bytes
  dec : Bytes → UInt64 → Bytes → Bytes → Option Bytes

/-- `sel`: 0 ChaChaPoly, 1 XChaChaPoly, 2 AESGCM. -/
def cipherImpl (b : Backend) (sel : Nat) : CipherImpl :=
  match b with
  | .toy =>
    let s := Toy.suite 0 sel 0
    { name := s.cipherName, enc := s.enc, dec := s.dec }
  | _ =>
    match sel with
    | 0 => { name := "ChaChaPoly"
             enc := fun k n ad p => Crypto.ChaChaPoly.aeadEncrypt k (nonceChaCha n) ad p
             dec := fun k n ad c => Crypto.ChaChaPoly.aeadDecrypt k (nonceChaCha n) ad c }
    | 1 => { name := "XChaChaPoly"
             enc := fun k n ad p => Crypto.ChaChaPoly.xaeadEncrypt k (nonceXChaCha n) ad p
             dec := fun k n ad c => Crypto.ChaChaPoly.xaeadDecrypt k (nonceXChaCha n) ad c }
    | _ => { name := "AESGCM"
             enc := fun k n ad p => Crypto.AesGcm.gcmEncrypt k (nonceGcm n) ad p
             dec := fun k n ad c => Crypto.AesGcm.gcmDecrypt k (nonceGcm n) ad c }

structure HashImpl where
  name : String
  hashLen : Nat
  blockLen : Nat
  hash : Bytes → Bytes

/-- `sel`: 0 SHA256, 1 SHA512, 2 BLAKE2s, 3 BLAKE2b. -/
def hashImpl (b : Backend) (sel : Nat) : HashImpl :=
  match b with
  | .toy =>
    let s := Toy.suite 0 0 sel
    { name := s.hashName, hashLen := s.hashLen, blockLen := s.blockLen, hash := s.hash }
  | _ =>
    match sel with
    | 0 => { name := "SHA256", hashLen := 32, blockLen := 64, hash := Crypto.Sha2.sha256 }
    | 1 => { name := "SHA512", hashLen := 64, blockLen := 128, hash := Crypto.Sha2.sha512 }
    | 2 => { name := "BLAKE2s", hashLen := 32, blockLen := 64, hash := Crypto.Blake2.blake2s }
    | _ => { name := "BLAKE2b", hashLen := 64, blockLen := 128, hash := Crypto.Blake2.blake2b }

structure DhImpl where
  name : String
  pubLen : Nat
  privLen : Nat
  dhLen : Nat
  validPriv : Bytes → Bool
  pubOf : Bytes → Bytes
  dh : Bytes → Bytes → Option Bytes

/-- `sel`: 0 25519, 1 448 (toy only), 2 P256. -/
def dhImpl (b : Backend) (sel : Nat) : DhImpl :=
  match b, sel with
  | .default, 0 =>
    { name := "25519", pubLen := 32, privLen := 32, dhLen := 32
      validPriv := fun _ => true
      pubOf := fun k => Crypto.Dh.x25519Base (fit 32 k)
      dh := fun k p => some (Crypto.Dh.x25519 (fit 32 k) (p.take 32)) }
  | .default, 2 =>
    { name := "P256", pubLen := 65, privLen := 32, dhLen := 32
      validPriv := fun k => Crypto.Dh.p256ValidScalar (fit 32 k)
      pubOf := fun k => Crypto.Dh.p256Base (fit 32 k)
      dh := fun k p => Crypto.Dh.p256Dh (fit 32 k) p }
  | _, _ =>
    let s := Toy.suite sel 0 0
    { name := s.dhName, pubLen := s.pubLen, privLen := s.privLen, dhLen := s.dhLen
      validPriv := s.validPriv, pubOf := s.pubOf, dh := s.dh }

def mkSuite (d : DhImpl) (cb : Backend) (c : CipherImpl) (h : HashImpl) : Suite :=
  { hashLen := h.hashLen, blockLen := h.blockLen, hash := h.hash
    pubLen := d.pubLen, privLen := d.privLen, dhLen := d.dhLen
    validPriv := d.validPriv, pubOf := d.pubOf, dh := d.dh
    enc := c.enc, dec := c.dec
    decFailBuf := failBuf cb, decOkBuf := okBuf cb
    dhName := d.name, cipherName := c.name, hashName := h.name }

def selfTest : Bool :=
  Crypto.Sha2.selfTest && Crypto.Blake2.selfTest && Crypto.ChaChaPoly.selfTest
    && Crypto.AesGcm.selfTest && Crypto.Dh.selfTest

end Real
end SnowVerif
