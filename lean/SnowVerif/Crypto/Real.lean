/-
  Suites built from the Lean reference primitives, with snow's wrapper
  conventions (`resolvers/default.rs`, `resolvers/ring.rs`): nonce layouts,
  key handling, what a decrypt leaves in the output buffer.

  The wrappers are written so that the *length and shape* laws of `Suite` hold by construction,
  whatever the reference bodies compute (`Theorems/C18Real.lean`):
   * hashes and DH outputs go through `Bytes.fit n` (truncate / zero-pad to exactly `n` bytes:
     the fixed-size output array of the Rust trait methods); on a correct reference it is the
     identity;
   * the AEADs are assembled with the generic stream+MAC construction `C18.smEnc` / `C18.smDec`
     from the reference *keystream* (the reference cipher applied to zeros: ChaCha20 with block
     counter 1, GCM's GCTR) and the reference *tag* function over `(ad, ciphertext)`. This is
     what RFC 8439 section 2.8 and SP 800-38D section 7 say, and it computes the same bytes as
     the references' own `aeadEncrypt`/`aeadDecrypt`/`gcmEncrypt`/`gcmDecrypt` (known-answer
     tests in `selfTest` below, and the byte-for-byte comparison with the Rust crates on every
     check run).
-/
import SnowVerif.Suite
import SnowVerif.Crypto.StreamMac
import SnowVerif.Crypto.Sha2
import SnowVerif.Crypto.Blake2
import SnowVerif.Crypto.ChaChaPoly
import SnowVerif.Crypto.AesGcm
import SnowVerif.Crypto.Dh
import SnowVerif.Crypto.Toy

namespace SnowVerif
namespace Real
open Bytes

/-- ChaChaPoly nonce: 4 zero bytes then the counter little-endian. -/
def nonceChaCha (n : UInt64) : Bytes := zeros 4 ++ le64 n
/-- AES-GCM nonce: 4 zero bytes then the counter big-endian. -/
def nonceGcm (n : UInt64) : Bytes := zeros 4 ++ be64 n
/-- XChaChaPoly nonce (snow's extension): 16 zero bytes then the counter little-endian. -/
def nonceXChaCha (n : UInt64) : Bytes := zeros 16 ++ le64 n

inductive Backend | toy | default | ring
  deriving DecidableEq, Repr

/-- What is left in `out` after a failed decrypt.
    default (RustCrypto): the ciphertext body was copied to `out` and is not touched when
    the tag does not verify. ring: when `out` holds the whole ciphertext it is copied there
    and `open_in_place` zeroes the body; otherwise a temporary vector is used. -/
def failBuf (b : Backend) (ct : Bytes) (cap : Nat) : Bytes :=
  match b with
  | .ring => if cap ≥ ct.length then zeros (ct.length - 16) ++ ct.drop (ct.length - 16) else []
  | _ => ct.take (ct.length - 16)

def okBuf (b : Backend) (ct p : Bytes) (cap : Nat) : Bytes :=
  match b with
  | .ring => if cap ≥ ct.length then p ++ ct.drop (ct.length - 16) else p
  | _ => p

structure CipherImpl where
  name : String
  enc : Bytes → UInt64 → Bytes → Bytes → Bytes
  dec : Bytes → UInt64 → Bytes → Bytes → Option Bytes

/-! ### Keystream and tag functions of the real AEADs (from the reference implementations)

  `ks key n len`: `len` keystream bytes = the reference stream cipher applied to `len` zero bytes.
  `mac key n ad ct`: the 16-byte reference tag over `(ad, ct)`.
  The `fit`s are the identity on the references (their outputs have exactly that length); they
  make the length laws independent of the reference bodies. -/

/-- ChaCha20 keystream from block counter 1 (RFC 8439 section 2.8). The reference reads missing
    key bytes as 0 and ignores surplus ones (snow always passes a `[u8; 32]`). -/
def ksChaCha (key : Bytes) (n : UInt64) (len : Nat) : Bytes :=
  fit len (Crypto.ChaChaPoly.chacha20Xor key (nonceChaCha n) 1 (zeros len))

/-- Poly1305 tag under the one-time key of block 0, over `ad ‖ pad ‖ ct ‖ pad ‖ lengths`. -/
def macChaCha (key : Bytes) (n : UInt64) (ad ct : Bytes) : Bytes :=
  open Crypto.ChaChaPoly in
  fit 16 (toList (aeadTagBA (ofList key) (ofList (nonceChaCha n)) (ofList ad) (ofList ct)))

/-- XChaCha20: subkey = HChaCha20(key, nonce[0..16]). -/
def xSubkey (key : Bytes) (n : UInt64) : ByteArray :=
  open Crypto.ChaChaPoly in
  hchacha20BA (ofList key) ((ofList (nonceXChaCha n)).extract 0 16)

/-- XChaCha20: the inner 12-byte nonce `00 00 00 00 ‖ nonce[16..24]`. -/
def xInnerNonce (n : UInt64) : ByteArray :=
  Crypto.ChaChaPoly.xnonce (Crypto.ChaChaPoly.ofList (nonceXChaCha n))

def ksXChaCha (key : Bytes) (n : UInt64) (len : Nat) : Bytes :=
  open Crypto.ChaChaPoly in
  fit len (toList (chacha20XorBA (xSubkey key n) (xInnerNonce n) 1 (ofList (zeros len))))

def macXChaCha (key : Bytes) (n : UInt64) (ad ct : Bytes) : Bytes :=
  open Crypto.ChaChaPoly in
  fit 16 (toList (aeadTagBA (xSubkey key n) (xInnerNonce n) (ofList ad) (ofList ct)))

/-- AES-256 round keys. The key is a `[u8; 32]` in snow; `fit 32` is that array. -/
def gcmRoundKeys (key : Bytes) : ByteArray := Crypto.AesGcm.expandKey ⟨(fit 32 key).toArray⟩

/-- GCTR keystream from counter block `IV ‖ 2` (SP 800-38D section 7.1). -/
def ksGcm (key : Bytes) (n : UInt64) (len : Nat) : Bytes :=
  fit len (Crypto.AesGcm.gctr (gcmRoundKeys key) ⟨(nonceGcm n).toArray⟩ ⟨(zeros len).toArray⟩).data.toList

/-- `GHASH_H(ad, ct) xor E_K(IV ‖ 1)`. -/
def macGcm (key : Bytes) (n : UInt64) (ad ct : Bytes) : Bytes :=
  fit 16 (Crypto.AesGcm.computeTag (gcmRoundKeys key) ⟨(nonceGcm n).toArray⟩ ⟨ad.toArray⟩ ⟨ct.toArray⟩).data.toList

/-- `sel`: 0 ChaChaPoly, 1 XChaChaPoly, 2 AESGCM. -/
def cipherImpl (b : Backend) (sel : Nat) : CipherImpl :=
  match b with
  | .toy =>
    let s := Toy.suite 0 sel 0
    { name := s.cipherName, enc := s.enc, dec := s.dec }
  | _ =>
    match sel with
    | 0 => { name := "ChaChaPoly", enc := C18.smEnc ksChaCha macChaCha, dec := C18.smDec ksChaCha macChaCha }
    | 1 => { name := "XChaChaPoly", enc := C18.smEnc ksXChaCha macXChaCha, dec := C18.smDec ksXChaCha macXChaCha }
    | _ => { name := "AESGCM", enc := C18.smEnc ksGcm macGcm, dec := C18.smDec ksGcm macGcm }

structure HashImpl where
  name : String
  hashLen : Nat
  blockLen : Nat
  hash : Bytes → Bytes

/-- `sel`: 0 SHA256, 1 SHA512, 2 BLAKE2s, 3 BLAKE2b. -/
def hashImpl (b : Backend) (sel : Nat) : HashImpl :=
  match b with
  | .toy =>
    let s := Toy.suite 0 0 sel
    { name := s.hashName, hashLen := s.hashLen, blockLen := s.blockLen, hash := s.hash }
  | _ =>
    match sel with
    | 0 => { name := "SHA256", hashLen := 32, blockLen := 64, hash := fun d => fit 32 (Crypto.Sha2.sha256 d) }
    | 1 => { name := "SHA512", hashLen := 64, blockLen := 128, hash := fun d => fit 64 (Crypto.Sha2.sha512 d) }
    | 2 => { name := "BLAKE2s", hashLen := 32, blockLen := 64, hash := fun d => fit 32 (Crypto.Blake2.blake2s d) }
    | _ => { name := "BLAKE2b", hashLen := 64, blockLen := 128, hash := fun d => fit 64 (Crypto.Blake2.blake2b d) }

structure DhImpl where
  name : String
  pubLen : Nat
  privLen : Nat
  dhLen : Nat
  validPriv : Bytes → Bool
  pubOf : Bytes → Bytes
  dh : Bytes → Bytes → Option Bytes

/-- `sel`: 0 25519, 1 448 (toy only), 2 P256. -/
def dhImpl (b : Backend) (sel : Nat) : DhImpl :=
  match b, sel with
  | .default, 0 =>
    { name := "25519", pubLen := 32, privLen := 32, dhLen := 32
      validPriv := fun _ => true
      pubOf := fun k => fit 32 (Crypto.Dh.x25519Base (fit 32 k))
      dh := fun k p => some (fit 32 (Crypto.Dh.x25519 (fit 32 k) (p.take 32))) }
  | .default, 2 =>
    { name := "P256", pubLen := 65, privLen := 32, dhLen := 32
      validPriv := fun k => Crypto.Dh.p256ValidScalar (fit 32 k)
      pubOf := fun k => fit 65 (Crypto.Dh.p256Base (fit 32 k))
      dh := fun k p => (Crypto.Dh.p256Dh (fit 32 k) p).map (fit 32) }
  | _, _ =>
    let s := Toy.suite sel 0 0
    { name := s.dhName, pubLen := s.pubLen, privLen := s.privLen, dhLen := s.dhLen
      validPriv := s.validPriv, pubOf := s.pubOf, dh := s.dh }

def mkSuite (d : DhImpl) (cb : Backend) (c : CipherImpl) (h : HashImpl) : Suite :=
  { hashLen := h.hashLen, blockLen := h.blockLen, hash := h.hash
    pubLen := d.pubLen, privLen := d.privLen, dhLen := d.dhLen
    validPriv := d.validPriv, pubOf := d.pubOf, dh := d.dh
    enc := c.enc, dec := c.dec
    decFailBuf := failBuf cb, decOkBuf := okBuf cb
    dhName := d.name, cipherName := c.name, hashName := h.name }

/-- The stream+MAC wrappers compute the same bytes as the references' own AEAD functions:
    plaintext lengths around the ChaCha (64) and AES (16) block boundaries, with and without AD,
    round trip, and rejection of a flipped body byte, a flipped tag byte and a wrong AD. -/
def wrapperSelfTest : Bool :=
  let key : Bytes := (List.range 32).map fun i => (7 * i + 3).toUInt8
  let lens : List Nat := [0, 1, 15, 16, 17, 63, 64, 65, 128, 200]
  let refs : List ((Bytes → UInt64 → Bytes → Bytes → Bytes) × (Bytes → UInt64 → Bytes → Bytes → Option Bytes)) :=
    [ (fun k n ad p => Crypto.ChaChaPoly.aeadEncrypt k (nonceChaCha n) ad p,
       fun k n ad c => Crypto.ChaChaPoly.aeadDecrypt k (nonceChaCha n) ad c),
      (fun k n ad p => Crypto.ChaChaPoly.xaeadEncrypt k (nonceXChaCha n) ad p,
       fun k n ad c => Crypto.ChaChaPoly.xaeadDecrypt k (nonceXChaCha n) ad c),
      (fun k n ad p => Crypto.AesGcm.gcmEncrypt k (nonceGcm n) ad p,
       fun k n ad c => Crypto.AesGcm.gcmDecrypt k (nonceGcm n) ad c) ]
  (List.range 3).all fun sel =>
    let c := cipherImpl .default sel
    match refs[sel]? with
    | none => false
    | some (renc, rdec) =>
      lens.all fun len =>
        let p : Bytes := (List.range len).map fun i => (i * i + 11 * i + 5).toUInt8
        [([] : Bytes), [1, 2, 3]].all fun ad =>
          [(0 : UInt64), 0x0102030405060708].all fun n =>
            let ct := c.enc key n ad p
            ct == renc key n ad p
              && c.dec key n ad ct == some p && rdec key n ad ct == some p
              && c.dec key n ad (ct.set (ct.length - 1) (ct.getD (ct.length - 1) 0 ^^^ 1)) == none
              && c.dec key n (9 :: ad) ct == none
              && (len == 0 || (c.dec key n ad (ct.set 0 (ct.getD 0 0 ^^^ 0x80)) == none
                               && rdec key n ad (ct.set 0 (ct.getD 0 0 ^^^ 0x80)) == none))
              && c.dec key n ad (ct.take 15) == none

def selfTest : Bool :=
  Crypto.Sha2.selfTest && Crypto.Blake2.selfTest && Crypto.ChaChaPoly.selfTest
    && Crypto.AesGcm.selfTest && Crypto.Dh.selfTest && wrapperSelfTest

end Real
end SnowVerif
