/-
  The toy suite (DESIGN.md section 3.4): a cheap hash, an xor "DH" and a
  keystream+MAC AEAD, implemented identically here and as a `CryptoResolver`
  in the Rust harness.  It has no security; its purpose is to drive the state
  machine *logic* through both the model and the implementation at high speed,
  and to evaluate concrete examples.  It satisfies `EncLen`, `DecEnc`,
  `DecSound`, `DhComm` (proved in `Lemmas/Toy.lean`).
-/
import SnowVerif.Suite

namespace SnowVerif
namespace Toy
open Bytes

def mix (z0 : UInt64) : UInt64 :=
  let z1 := (z0 ^^^ (z0 >>> 30)) * 0xbf58476d1ce4e5b9
  let z2 := (z1 ^^^ (z1 >>> 27)) * 0x94d049bb133111eb
  z2 ^^^ (z2 >>> 31)

def initLanes (tag : UInt8) (nl : Nat) : List UInt64 :=
  (List.range nl).map fun i => mix (0x9e3779b97f4a7c15 * (i.toUInt64 + 1) + tag.toUInt64)

def absorb (nl : Nat) : List UInt64 → Nat → Bytes → List UInt64
  | lanes, _, [] => lanes
  | lanes, j, b :: rest =>
    let i := j % nl
    let v := mix (lanes.getD i 0 ^^^ b.toUInt64 ^^^ (j.toUInt64 <<< 8))
    absorb nl (lanes.set i v) (j + 1) rest

/-- `toy_hash(tag, out_len, data)`; `outLen` is 32 or 64. -/
def hash (tag : UInt8) (outLen : Nat) (data : Bytes) : Bytes :=
  let nl := outLen / 8
  let lanes := absorb nl (initLanes tag nl) 0 data
  let acc0 := mix (data.length.toUInt64 ^^^ 0xa5a5a5a5a5a5a5a5)
  let acc := lanes.foldl (fun a l => mix (a ^^^ l)) acc0
  (List.range nl).flatMap fun i => le64 (mix (acc ^^^ lanes.getD i 0 ^^^ i.toUInt64))

/-! #### DH -/

def dhConst (tag : UInt8) : Bytes :=
  (List.range 32).map fun i => (0x3C : UInt8) ^^^ (UInt8.ofNat (i * 7) + tag)

def dhTail (n : Nat) : Bytes := (List.range n).map fun j => (0x50 : UInt8) + UInt8.ofNat j

def pubOf (tag : UInt8) (pubLen : Nat) (priv : Bytes) : Bytes :=
  xor (fit 32 priv) (dhConst tag) ++ dhTail (pubLen - 32)

def dh (tag : UInt8) (pubLen dhLen : Nat) (priv pub : Bytes) : Option Bytes :=
  if pub.length < pubLen then none
  else if pubLen > 32 && pub.getD 32 0 == 0xFF then none
  else
    let o := xor (fit 32 priv) (xor (pub.take 32) (dhConst tag))
    some (o ++ o.take (dhLen - 32))

/-! #### AEAD -/

def ksBlock (tag : UInt8) (key : Bytes) (n : UInt64) (i : Nat) : Bytes :=
  hash tag 32 (key ++ le64 n ++ natLe64 i ++ [0x4B])

def keystream (tag : UInt8) (key : Bytes) (n : UInt64) (len : Nat) : Bytes :=
  ((List.range ((len + 31) / 32)).flatMap fun i => ksBlock tag key n i).take len

def mac (tag : UInt8) (key : Bytes) (n : UInt64) (ad ct : Bytes) : Bytes :=
  (hash tag 32 (key ++ le64 n ++ natLe64 ad.length ++ ad ++ ct ++ [0x54])).take 16

def enc (tag : UInt8) (key : Bytes) (n : UInt64) (ad pt : Bytes) : Bytes :=
  let ct := xor pt (keystream tag key n pt.length)
  ct ++ mac tag key n ad ct

def dec (tag : UInt8) (key : Bytes) (n : UInt64) (ad c : Bytes) : Option Bytes :=
  if c.length < 16 then none
  else
    let body := c.take (c.length - 16)
    let t := c.drop (c.length - 16)
    if t == mac tag key n ad body then some (xor body (keystream tag key n body.length))
    else none

/-- Toy suite for the given choices. `dhSel`: 0 = "25519" (32/32), 1 = "448" (56/56),
    2 = "P256" (65/32). `cipherSel`: 0 ChaChaPoly, 1 XChaChaPoly, 2 AESGCM.
    `hashSel`: 0 SHA256, 1 SHA512, 2 BLAKE2s, 3 BLAKE2b. -/
def suite (dhSel cipherSel hashSel : Nat) : Suite :=
  let pubLen := match dhSel with | 0 => 32 | 1 => 56 | _ => 65
  let dhLen := match dhSel with | 0 => 32 | 1 => 56 | _ => 32
  let dtag : UInt8 := UInt8.ofNat (0x10 + dhSel)
  let ctag : UInt8 := UInt8.ofNat (0x20 + cipherSel)
  let htag : UInt8 := UInt8.ofNat (0x30 + hashSel)
  let hl := match hashSel with | 0 => 32 | 1 => 64 | 2 => 32 | _ => 64
  { hashLen := hl
    blockLen := 2 * hl
    hash := hash htag hl
    pubLen := pubLen
    privLen := 32
    dhLen := dhLen
    validPriv := fun _ => true
    pubOf := pubOf dtag pubLen
    dh := dh dtag pubLen dhLen
    enc := enc ctag
    dec := dec ctag
    decFailBuf := fun c _ => c.take (c.length - 16)
    decOkBuf := fun _ p _ => p
    dhName := match dhSel with | 0 => "25519" | 1 => "448" | _ => "P256"
    cipherName := match cipherSel with | 0 => "ChaChaPoly" | 1 => "XChaChaPoly" | _ => "AESGCM"
    hashName := match hashSel with | 0 => "SHA256" | 1 => "SHA512" | 2 => "BLAKE2s" | _ => "BLAKE2b" }

end Toy
end SnowVerif
