/-
Executable reference implementation of AES-256-GCM
(FIPS 197 + NIST SP 800-38D, 96-bit IV, 128-bit tag).

Self-contained: imports nothing outside core Lean.
-/

namespace SnowVerif.Crypto.AesGcm

/-! ## GF(2^8) arithmetic and the S-box (FIPS 197 §4, §5.1.1) -/

/-- Multiplication by `x` in GF(2^8) modulo `x^8 + x^4 + x^3 + x + 1`. -/
def xtime (b : UInt8) : UInt8 :=
  (b <<< 1) ^^^ (if b &&& 0x80 != 0 then 0x1b else 0)

/-- Multiplication in GF(2^8) (shift-and-add). -/
def gf8Mul (a b : UInt8) : UInt8 := Id.run do
  let mut p : UInt8 := 0
  let mut a := a
  let mut b := b
  for _ in [0:8] do
    if b &&& 1 != 0 then p := p ^^^ a
    a := xtime a
    b := b >>> 1
  return p

/-- Multiplicative inverse in GF(2^8) as `a^254` (so `0 ↦ 0`). -/
def gf8Inv (a : UInt8) : UInt8 := Id.run do
  let mut r : UInt8 := 1
  for _ in [0:254] do
    r := gf8Mul r a
  return r

/-- Rotate a byte left by `n` bits, `0 < n < 8`. -/
def rotl8 (x n : UInt8) : UInt8 := (x <<< n) ||| (x >>> (8 - n))

/-- S-box value: inverse in GF(2^8) followed by the affine transformation. -/
def sboxByte (a : UInt8) : UInt8 :=
  let b := gf8Inv a
  b ^^^ rotl8 b 1 ^^^ rotl8 b 2 ^^^ rotl8 b 3 ^^^ rotl8 b 4 ^^^ 0x63

/-- The AES S-box, computed once. -/
def sbox : ByteArray := Id.run do
  let mut t := ByteArray.emptyWithCapacity 256
  for i in [0:256] do
    t := t.push (sboxByte i.toUInt8)
  return t

@[inline] def subByte (b : UInt8) : UInt8 := sbox[b.toNat]!

/-! ## AES-256 key expansion and block encryption (FIPS 197 §5.1, §5.2) -/

/-- Number of rounds for AES-256. -/
def nr : Nat := 14

/-- Key expansion for a 32-byte key: 60 words = 240 bytes (15 round keys),
stored as consecutive big-endian words exactly as in FIPS 197. -/
def expandKey (key : ByteArray) : ByteArray := Id.run do
  let mut w := key
  let mut rcon : UInt8 := 1
  for i in [8:4 * (nr + 1)] do
    let t0 := w[4 * i - 4]!
    let t1 := w[4 * i - 3]!
    let t2 := w[4 * i - 2]!
    let t3 := w[4 * i - 1]!
    let mut u0 := t0
    let mut u1 := t1
    let mut u2 := t2
    let mut u3 := t3
    if i % 8 == 0 then
      -- SubWord (RotWord temp) xor Rcon[i/8]
      u0 := subByte t1 ^^^ rcon
      u1 := subByte t2
      u2 := subByte t3
      u3 := subByte t0
      rcon := xtime rcon
    else if i % 8 == 4 then
      -- SubWord temp
      u0 := subByte t0
      u1 := subByte t1
      u2 := subByte t2
      u3 := subByte t3
    w := w.push (w[4 * i - 32]! ^^^ u0)
    w := w.push (w[4 * i - 31]! ^^^ u1)
    w := w.push (w[4 * i - 30]! ^^^ u2)
    w := w.push (w[4 * i - 29]! ^^^ u3)
  return w

/-- AddRoundKey with round key number `round`. The state is 16 bytes,
column-major: byte `r + 4*c` is row `r`, column `c`. -/
def addRoundKey (rk : ByteArray) (round : Nat) (s : ByteArray) : ByteArray := Id.run do
  let mut out := ByteArray.emptyWithCapacity 16
  for i in [0:16] do
    out := out.push (s[i]! ^^^ rk[16 * round + i]!)
  return out

/-- SubBytes followed by ShiftRows: row `r` is rotated left by `r` columns. -/
def subBytesShiftRows (s : ByteArray) : ByteArray := Id.run do
  let mut out := ByteArray.emptyWithCapacity 16
  for c in [0:4] do
    for r in [0:4] do
      out := out.push (subByte s[r + 4 * ((c + r) % 4)]!)
  return out

/-- MixColumns: each column is multiplied by `{03}x^3 + {01}x^2 + {01}x + {02}`. -/
def mixColumns (s : ByteArray) : ByteArray := Id.run do
  let mut out := ByteArray.emptyWithCapacity 16
  for c in [0:4] do
    let a0 := s[4 * c]!
    let a1 := s[4 * c + 1]!
    let a2 := s[4 * c + 2]!
    let a3 := s[4 * c + 3]!
    out := out.push (xtime a0 ^^^ (xtime a1 ^^^ a1) ^^^ a2 ^^^ a3)
    out := out.push (a0 ^^^ xtime a1 ^^^ (xtime a2 ^^^ a2) ^^^ a3)
    out := out.push (a0 ^^^ a1 ^^^ xtime a2 ^^^ (xtime a3 ^^^ a3))
    out := out.push ((xtime a0 ^^^ a0) ^^^ a1 ^^^ a2 ^^^ xtime a3)
  return out

/-- The AES-256 cipher on one 16-byte block, given the 240-byte expanded key. -/
def encryptBlock (rk : ByteArray) (block : ByteArray) : ByteArray := Id.run do
  let mut s := addRoundKey rk 0 block
  for round in [1:nr] do
    s := addRoundKey rk round (mixColumns (subBytesShiftRows s))
  return addRoundKey rk nr (subBytesShiftRows s)

/-- AES-256 encryption of one 16-byte block under a 32-byte key.
Returns `[]` if the key is not 32 bytes or the block is not 16 bytes. -/
def aes256EncryptBlock (key block : List UInt8) : List UInt8 :=
  if key.length != 32 || block.length != 16 then []
  else (encryptBlock (expandKey ⟨key.toArray⟩) ⟨block.toArray⟩).data.toList

/-! ## GHASH (SP 800-38D §6.3, §6.4) -/

/-- A 128-bit block as two big-endian 64-bit halves: `hi` holds bytes 0..7.
In GCM's bit order, bit 0 of the block (coefficient of `x^0`) is the most
significant bit of `hi`; bit 127 is the least significant bit of `lo`. -/
structure Block128 where
  hi : UInt64
  lo : UInt64
deriving BEq, Inhabited

def Block128.zero : Block128 := ⟨0, 0⟩

def Block128.xor (a b : Block128) : Block128 := ⟨a.hi ^^^ b.hi, a.lo ^^^ b.lo⟩

/-- Byte `i` of `b`, or 0 beyond the end (implicit zero padding). -/
@[inline] def byteOrZero (b : ByteArray) (i : Nat) : UInt8 :=
  if h : i < b.size then b[i] else 0

/-- Big-endian 64-bit load of bytes `off .. off+7`, zero-padded past the end. -/
def loadBE64 (b : ByteArray) (off : Nat) : UInt64 := Id.run do
  let mut r : UInt64 := 0
  for i in [0:8] do
    r := (r <<< 8) ||| (byteOrZero b (off + i)).toUInt64
  return r

/-- 16-byte block starting at `off`, zero-padded past the end. -/
def loadBlock (b : ByteArray) (off : Nat) : Block128 :=
  ⟨loadBE64 b off, loadBE64 b (off + 8)⟩

/-- Append the 8 big-endian bytes of `x`. -/
def pushBE64 (out : ByteArray) (x : UInt64) : ByteArray := Id.run do
  let mut out := out
  for i in [0:8] do
    out := out.push (x >>> (8 * (7 - i)).toUInt64).toUInt8
  return out

def Block128.toBytes (a : Block128) : ByteArray :=
  pushBE64 (pushBE64 (ByteArray.emptyWithCapacity 16) a.hi) a.lo

/-- Multiplication in GF(2^128) modulo `x^128 + x^7 + x^2 + x + 1`
with GCM's reflected bit order (SP 800-38D Algorithm 1). -/
def gf128Mul (x y : Block128) : Block128 := Id.run do
  let mut zh : UInt64 := 0
  let mut zl : UInt64 := 0
  let mut vh := y.hi
  let mut vl := y.lo
  for i in [0:128] do
    let xi :=
      if i < 64 then (x.hi >>> (63 - i).toUInt64) &&& 1
      else (x.lo >>> (127 - i).toUInt64) &&& 1
    if xi != 0 then
      zh := zh ^^^ vh
      zl := zl ^^^ vl
    let lsb := vl &&& 1
    vl := (vl >>> 1) ||| (vh <<< 63)
    vh := vh >>> 1
    if lsb != 0 then
      vh := vh ^^^ 0xe100000000000000
  return ⟨zh, zl⟩

/-- Absorb `data`, zero-padded to a multiple of 16 bytes, into the GHASH state `y`. -/
def ghashAbsorb (h : Block128) (y : Block128) (data : ByteArray) : Block128 := Id.run do
  let mut y := y
  for j in [0:(data.size + 15) / 16] do
    y := gf128Mul (y.xor (loadBlock data (16 * j))) h
  return y

/-- `GHASH_H (A ‖ 0* ‖ C ‖ 0* ‖ [len A]_64 ‖ [len C]_64)`. -/
def ghash (h : Block128) (ad ct : ByteArray) : Block128 :=
  let y := ghashAbsorb h Block128.zero ad
  let y := ghashAbsorb h y ct
  let lens : Block128 := ⟨(8 * ad.size).toUInt64, (8 * ct.size).toUInt64⟩
  gf128Mul (y.xor lens) h

/-! ## GCTR and the authenticated encryption functions (SP 800-38D §6.5, §7) -/

/-- Counter block `IV ‖ [ctr]_32` for a 12-byte IV. -/
def counterBlock (iv : ByteArray) (ctr : UInt32) : ByteArray :=
  (((iv.push (ctr >>> 24).toUInt8).push (ctr >>> 16).toUInt8).push (ctr >>> 8).toUInt8).push
    ctr.toUInt8

/-- GCTR with initial counter block `inc32 J0 = IV ‖ 2`; the 32-bit counter wraps. -/
def gctr (rk iv data : ByteArray) : ByteArray := Id.run do
  let mut out := ByteArray.emptyWithCapacity data.size
  for j in [0:(data.size + 15) / 16] do
    let ks := encryptBlock rk (counterBlock iv (j + 2).toUInt32)
    for i in [0:16] do
      let idx := 16 * j + i
      if h : idx < data.size then
        out := out.push (data[idx] ^^^ ks[i]!)
  return out

/-- Authentication tag: `GHASH_H(A, C) xor E_K(J0)`, with `J0 = IV ‖ 1`. -/
def computeTag (rk iv ad ct : ByteArray) : ByteArray :=
  let h := loadBlock (encryptBlock rk ⟨Array.replicate 16 0⟩) 0
  let s := ghash h ad ct
  let ekj0 := loadBlock (encryptBlock rk (counterBlock iv 1)) 0
  (s.xor ekj0).toBytes

/-- AES-256-GCM with a 12-byte IV: returns ciphertext ++ 16-byte tag.
Returns `[]` (never a valid output) if the key is not 32 bytes or the IV is not 12 bytes. -/
def gcmEncrypt (key iv ad pt : List UInt8) : List UInt8 :=
  if key.length != 32 || iv.length != 12 then []
  else
    let rk := expandKey ⟨key.toArray⟩
    let iv : ByteArray := ⟨iv.toArray⟩
    let c := gctr rk iv ⟨pt.toArray⟩
    let t := computeTag rk iv ⟨ad.toArray⟩ c
    (c ++ t).data.toList

/-- Inverse; input is ciphertext ++ tag; none when shorter than 16 bytes or when the tag does not
verify (also none if the key is not 32 bytes or the IV is not 12 bytes). -/
def gcmDecrypt (key iv ad ct : List UInt8) : Option (List UInt8) :=
  if key.length != 32 || iv.length != 12 || ct.length < 16 then none
  else
    let rk := expandKey ⟨key.toArray⟩
    let iv : ByteArray := ⟨iv.toArray⟩
    let n := ct.length - 16
    let c : ByteArray := ⟨(ct.take n).toArray⟩
    let t := computeTag rk iv ⟨ad.toArray⟩ c
    if t.data.toList == ct.drop n then some (gctr rk iv c).data.toList
    else none

/-! ## Known-answer tests -/

/-- Value of one hexadecimal digit (0 for anything else). -/
def hexDigit (c : Char) : UInt8 :=
  if '0' ≤ c && c ≤ '9' then (c.toNat - '0'.toNat).toUInt8
  else if 'a' ≤ c && c ≤ 'f' then (c.toNat - 'a'.toNat + 10).toUInt8
  else if 'A' ≤ c && c ≤ 'F' then (c.toNat - 'A'.toNat + 10).toUInt8
  else 0

/-- Decode a hexadecimal string (an odd trailing digit is ignored). -/
def hex (s : String) : List UInt8 :=
  let rec go : List Char → List UInt8
    | a :: b :: rest => ((hexDigit a <<< 4) ||| hexDigit b) :: go rest
    | _ => []
  go s.toList

/-- One GCM known-answer test: encryption matches and decryption inverts. -/
def gcmKat (key iv ad pt ct tag : String) : Bool :=
  let out := hex ct ++ hex tag
  gcmEncrypt (hex key) (hex iv) (hex ad) (hex pt) == out
    && gcmDecrypt (hex key) (hex iv) (hex ad) out == some (hex pt)

/-- true iff built-in known-answer tests pass: S-box spot checks, the FIPS 197 appendix C.3
AES-256 block vector, and AES-256 test cases 13-16 of the GCM specification
(McGrew & Viega), plus basic rejection checks. -/
def selfTest : Bool :=
  let zeroKey := "0000000000000000000000000000000000000000000000000000000000000000"
  let zeroIv := "000000000000000000000000"
  let k := "feffe9928665731c6d6a8f9467308308feffe9928665731c6d6a8f9467308308"
  let iv := "cafebabefacedbaddecaf888"
  let p15 := "d9313225f88406e5a55909c5aff5269a86a7a9531534f7da2e4c303d8a318a72" ++
             "1c3c0c95956809532fcf0e2449a6b525b16aedf5aa0de657ba637b391aafd255"
  let c15 := "522dc1f099567d07f47f37a32a84427d643a8cdcbfe5c0c97598a2bd2555d1aa" ++
             "8cb08e48590dbb3da7b08b1056828838c5f61e6393ba7a0abcc9f662898015ad"
  let p16 := "d9313225f88406e5a55909c5aff5269a86a7a9531534f7da2e4c303d8a318a72" ++
             "1c3c0c95956809532fcf0e2449a6b525b16aedf5aa0de657ba637b39"
  let c16 := "522dc1f099567d07f47f37a32a84427d643a8cdcbfe5c0c97598a2bd2555d1aa" ++
             "8cb08e48590dbb3da7b08b1056828838c5f61e6393ba7a0abcc9f662"
  let a16 := "feedfacedeadbeeffeedfacedeadbeefabaddad2"
  -- S-box spot checks (FIPS 197 Figure 7)
  sbox.size == 256 && sbox[0x00]! == 0x63 && sbox[0x01]! == 0x7c && sbox[0x53]! == 0xed
    && sbox[0xff]! == 0x16
  -- FIPS 197 appendix C.3
  && aes256EncryptBlock (hex "000102030405060708090a0b0c0d0e0f101112131415161718191a1b1c1d1e1f")
        (hex "00112233445566778899aabbccddeeff") == hex "8ea2b7ca516745bfeafc49904b496089"
  -- GCM spec test case 13 (also checks H = E_K(0^128))
  && aes256EncryptBlock (hex zeroKey) (hex "00000000000000000000000000000000")
        == hex "dc95c078a2408989ad48a21492842087"
  && gcmKat zeroKey zeroIv "" "" "" "530f8afbc74536b9a963b4f1c4cb738b"
  -- test case 14
  && gcmKat zeroKey zeroIv "" "00000000000000000000000000000000"
        "cea7403d4d606b6e074ec5d3baf39d18" "d0d1c8a799996bf0265b98b5d48ab919"
  -- test case 15
  && gcmKat k iv "" p15 c15 "b094dac5d93471bdec1a502270e3cc6c"
  -- test case 16
  && gcmKat k iv a16 p16 c16 "76fc6ece0f4e1768cddf8853bb2d551b"
  -- rejection: wrong tag, wrong associated data, too short
  && gcmDecrypt (hex k) (hex iv) (hex a16) (hex c16 ++ hex "76fc6ece0f4e1768cddf8853bb2d551a")
        == none
  && gcmDecrypt (hex k) (hex iv) [] (hex c16 ++ hex "76fc6ece0f4e1768cddf8853bb2d551b") == none
  && gcmDecrypt (hex k) (hex iv) [] (hex "530f8afbc74536b9a963b4f1c4cb73") == none

end SnowVerif.Crypto.AesGcm
