/-
  Executable reference implementation of SHA-256 and SHA-512
  (FIPS 180-4, RFC 6234).  Core Lean only: no Mathlib, no `partial`,
  no `unsafe`, no `implemented_by`, no axioms.

  The public API works on `List UInt8`; internally the message is padded into a
  `ByteArray` and processed block by block with `Array UInt32` / `Array UInt64`
  message schedules.  The 64 / 80 rounds are a structural recursion over a
  round counter whose working variables are plain machine words, so compiled
  code does not allocate inside the round loop.

  The round constants and initial hash values below were copied mechanically
  from the Rust `sha2` 0.10.9 crate (`src/consts.rs`), and the whole file was
  tested differentially against that crate on several hundred inputs.
-/

namespace SnowVerif.Crypto.Sha2

/-! ## Helpers shared by both hash functions -/

/-- Big-endian encoding of the low `n` bytes of the natural number `v`, appended to `out`. -/
def pushNatBE (out : ByteArray) (v : Nat) (n : Nat) : ByteArray := Id.run do
  let mut out := out
  for i in [0:n] do
    out := out.push ((v >>> (8 * (n - 1 - i))) % 256).toUInt8
  return out

/-- Merkle–Damgård padding (FIPS 180-4 §5.1): `data ‖ 0x80 ‖ 0x00* ‖ bitlen`, where the
block is `blockLen` bytes and the bit length is encoded big-endian in `lenLen` bytes.
The result has a length that is a positive multiple of `blockLen`. -/
def pad (data : List UInt8) (blockLen lenLen : Nat) : ByteArray := Id.run do
  let msg : ByteArray := ⟨data.toArray⟩
  let len := msg.size
  -- smallest k ≥ 0 with (len + 1 + k + lenLen) % blockLen = 0
  let k := (2 * blockLen - 1 - lenLen - len % blockLen) % blockLen
  let mut out := msg.push 0x80
  for _ in [0:k] do
    out := out.push 0x00
  return pushNatBE out ((8 * len) % 2 ^ (8 * lenLen)) lenLen

/-! ## SHA-256 (FIPS 180-4 §4.1.2, §4.2.2, §5.3.3, §6.2) -/

/-- The 64 round constants `K⁽²⁵⁶⁾`. -/
def K256 : Array UInt32 := #[
  0x428a2f98, 0x71374491, 0xb5c0fbcf, 0xe9b5dba5, 0x3956c25b, 0x59f111f1, 0x923f82a4, 0xab1c5ed5,
  0xd807aa98, 0x12835b01, 0x243185be, 0x550c7dc3, 0x72be5d74, 0x80deb1fe, 0x9bdc06a7, 0xc19bf174,
  0xe49b69c1, 0xefbe4786, 0x0fc19dc6, 0x240ca1cc, 0x2de92c6f, 0x4a7484aa, 0x5cb0a9dc, 0x76f988da,
  0x983e5152, 0xa831c66d, 0xb00327c8, 0xbf597fc7, 0xc6e00bf3, 0xd5a79147, 0x06ca6351, 0x14292967,
  0x27b70a85, 0x2e1b2138, 0x4d2c6dfc, 0x53380d13, 0x650a7354, 0x766a0abb, 0x81c2c92e, 0x92722c85,
  0xa2bfe8a1, 0xa81a664b, 0xc24b8b70, 0xc76c51a3, 0xd192e819, 0xd6990624, 0xf40e3585, 0x106aa070,
  0x19a4c116, 0x1e376c08, 0x2748774c, 0x34b0bcb5, 0x391c0cb3, 0x4ed8aa4a, 0x5b9cca4f, 0x682e6ff3,
  0x748f82ee, 0x78a5636f, 0x84c87814, 0x8cc70208, 0x90befffa, 0xa4506ceb, 0xbef9a3f7, 0xc67178f2
]

/-- The initial hash value `H⁽⁰⁾` of SHA-256. -/
def H256 : Array UInt32 := #[
  0x6a09e667, 0xbb67ae85, 0x3c6ef372, 0xa54ff53a,
  0x510e527f, 0x9b05688c, 0x1f83d9ab, 0x5be0cd19
]

@[inline] def rotr32 (x : UInt32) (n : UInt32) : UInt32 := (x >>> n) ||| (x <<< (32 - n))
@[inline] def ch32 (x y z : UInt32) : UInt32 := (x &&& y) ^^^ (~~~x &&& z)
@[inline] def maj32 (x y z : UInt32) : UInt32 := (x &&& y) ^^^ (x &&& z) ^^^ (y &&& z)
@[inline] def bsig0_32 (x : UInt32) : UInt32 := rotr32 x 2 ^^^ rotr32 x 13 ^^^ rotr32 x 22
@[inline] def bsig1_32 (x : UInt32) : UInt32 := rotr32 x 6 ^^^ rotr32 x 11 ^^^ rotr32 x 25
@[inline] def ssig0_32 (x : UInt32) : UInt32 := rotr32 x 7 ^^^ rotr32 x 18 ^^^ (x >>> 3)
@[inline] def ssig1_32 (x : UInt32) : UInt32 := rotr32 x 17 ^^^ rotr32 x 19 ^^^ (x >>> 10)

/-- Big-endian 32-bit word at byte offset `off` of `buf`. -/
@[inline] def be32 (buf : ByteArray) (off : Nat) : UInt32 :=
  (buf[off]!.toUInt32 <<< 24) ||| (buf[off + 1]!.toUInt32 <<< 16) |||
  (buf[off + 2]!.toUInt32 <<< 8) ||| buf[off + 3]!.toUInt32

/-- Message schedule `W₀ … W₆₃` for the 64-byte block of `buf` starting at `off`. -/
def schedule256 (buf : ByteArray) (off : Nat) : Array UInt32 := Id.run do
  let mut w : Array UInt32 := Array.emptyWithCapacity 64
  for t in [0:16] do
    w := w.push (be32 buf (off + 4 * t))
  for t in [16:64] do
    w := w.push (ssig1_32 w[t - 2]! + w[t - 7]! + ssig0_32 w[t - 15]! + w[t - 16]!)
  return w

/-- The eight working variables `a … h` of SHA-256. -/
structure Vars32 where
  a : UInt32
  b : UInt32
  c : UInt32
  d : UInt32
  e : UInt32
  f : UInt32
  g : UInt32
  h : UInt32

/-- Rounds `t, t+1, …, t+n-1` of the SHA-256 compression function. -/
def rounds256 (w : Array UInt32) : (n t : Nat) → (a b c d e f g h : UInt32) → Vars32
  | 0, _, a, b, c, d, e, f, g, h => ⟨a, b, c, d, e, f, g, h⟩
  | n + 1, t, a, b, c, d, e, f, g, h =>
    let t1 := h + bsig1_32 e + ch32 e f g + K256[t]! + w[t]!
    let t2 := bsig0_32 a + maj32 a b c
    rounds256 w n (t + 1) (t1 + t2) a b c (d + t1) e f g

/-- One application of the SHA-256 compression function to the block of `buf` at `off`. -/
def compress256 (st : Array UInt32) (buf : ByteArray) (off : Nat) : Array UInt32 :=
  let w := schedule256 buf off
  let a := st[0]!; let b := st[1]!; let c := st[2]!; let d := st[3]!
  let e := st[4]!; let f := st[5]!; let g := st[6]!; let h := st[7]!
  let v := rounds256 w 64 0 a b c d e f g h
  #[a + v.a, b + v.b, c + v.c, d + v.d, e + v.e, f + v.f, g + v.g, h + v.h]

/-- SHA-256 of a byte string. -/
def sha256 (data : List UInt8) : List UInt8 := Id.run do
  let buf := pad data 64 8
  let mut st := H256
  for i in [0:buf.size / 64] do
    st := compress256 st buf (64 * i)
  let mut out := ByteArray.emptyWithCapacity 32
  for x in st do
    out := pushNatBE out x.toNat 4
  return out.toList

/-! ## SHA-512 (FIPS 180-4 §4.1.3, §4.2.3, §5.3.5, §6.4) -/

/-- The 80 round constants `K⁽⁵¹²⁾`. -/
def K512 : Array UInt64 := #[
  0x428a2f98d728ae22, 0x7137449123ef65cd, 0xb5c0fbcfec4d3b2f, 0xe9b5dba58189dbbc,
  0x3956c25bf348b538, 0x59f111f1b605d019, 0x923f82a4af194f9b, 0xab1c5ed5da6d8118,
  0xd807aa98a3030242, 0x12835b0145706fbe, 0x243185be4ee4b28c, 0x550c7dc3d5ffb4e2,
  0x72be5d74f27b896f, 0x80deb1fe3b1696b1, 0x9bdc06a725c71235, 0xc19bf174cf692694,
  0xe49b69c19ef14ad2, 0xefbe4786384f25e3, 0x0fc19dc68b8cd5b5, 0x240ca1cc77ac9c65,
  0x2de92c6f592b0275, 0x4a7484aa6ea6e483, 0x5cb0a9dcbd41fbd4, 0x76f988da831153b5,
  0x983e5152ee66dfab, 0xa831c66d2db43210, 0xb00327c898fb213f, 0xbf597fc7beef0ee4,
  0xc6e00bf33da88fc2, 0xd5a79147930aa725, 0x06ca6351e003826f, 0x142929670a0e6e70,
  0x27b70a8546d22ffc, 0x2e1b21385c26c926, 0x4d2c6dfc5ac42aed, 0x53380d139d95b3df,
  0x650a73548baf63de, 0x766a0abb3c77b2a8, 0x81c2c92e47edaee6, 0x92722c851482353b,
  0xa2bfe8a14cf10364, 0xa81a664bbc423001, 0xc24b8b70d0f89791, 0xc76c51a30654be30,
  0xd192e819d6ef5218, 0xd69906245565a910, 0xf40e35855771202a, 0x106aa07032bbd1b8,
  0x19a4c116b8d2d0c8, 0x1e376c085141ab53, 0x2748774cdf8eeb99, 0x34b0bcb5e19b48a8,
  0x391c0cb3c5c95a63, 0x4ed8aa4ae3418acb, 0x5b9cca4f7763e373, 0x682e6ff3d6b2b8a3,
  0x748f82ee5defb2fc, 0x78a5636f43172f60, 0x84c87814a1f0ab72, 0x8cc702081a6439ec,
  0x90befffa23631e28, 0xa4506cebde82bde9, 0xbef9a3f7b2c67915, 0xc67178f2e372532b,
  0xca273eceea26619c, 0xd186b8c721c0c207, 0xeada7dd6cde0eb1e, 0xf57d4f7fee6ed178,
  0x06f067aa72176fba, 0x0a637dc5a2c898a6, 0x113f9804bef90dae, 0x1b710b35131c471b,
  0x28db77f523047d84, 0x32caab7b40c72493, 0x3c9ebe0a15c9bebc, 0x431d67c49c100d4c,
  0x4cc5d4becb3e42b6, 0x597f299cfc657e2a, 0x5fcb6fab3ad6faec, 0x6c44198c4a475817
]

/-- The initial hash value `H⁽⁰⁾` of SHA-512. -/
def H512 : Array UInt64 := #[
  0x6a09e667f3bcc908, 0xbb67ae8584caa73b, 0x3c6ef372fe94f82b, 0xa54ff53a5f1d36f1,
  0x510e527fade682d1, 0x9b05688c2b3e6c1f, 0x1f83d9abfb41bd6b, 0x5be0cd19137e2179
]

@[inline] def rotr64 (x : UInt64) (n : UInt64) : UInt64 := (x >>> n) ||| (x <<< (64 - n))
@[inline] def ch64 (x y z : UInt64) : UInt64 := (x &&& y) ^^^ (~~~x &&& z)
@[inline] def maj64 (x y z : UInt64) : UInt64 := (x &&& y) ^^^ (x &&& z) ^^^ (y &&& z)
@[inline] def bsig0_64 (x : UInt64) : UInt64 := rotr64 x 28 ^^^ rotr64 x 34 ^^^ rotr64 x 39
@[inline] def bsig1_64 (x : UInt64) : UInt64 := rotr64 x 14 ^^^ rotr64 x 18 ^^^ rotr64 x 41
@[inline] def ssig0_64 (x : UInt64) : UInt64 := rotr64 x 1 ^^^ rotr64 x 8 ^^^ (x >>> 7)
@[inline] def ssig1_64 (x : UInt64) : UInt64 := rotr64 x 19 ^^^ rotr64 x 61 ^^^ (x >>> 6)

/-- Big-endian 64-bit word at byte offset `off` of `buf`. -/
@[inline] def be64 (buf : ByteArray) (off : Nat) : UInt64 :=
  (buf[off]!.toUInt64 <<< 56) ||| (buf[off + 1]!.toUInt64 <<< 48) |||
  (buf[off + 2]!.toUInt64 <<< 40) ||| (buf[off + 3]!.toUInt64 <<< 32) |||
  (buf[off + 4]!.toUInt64 <<< 24) ||| (buf[off + 5]!.toUInt64 <<< 16) |||
  (buf[off + 6]!.toUInt64 <<< 8) ||| buf[off + 7]!.toUInt64

/-- Message schedule `W₀ … W₇₉` for the 128-byte block of `buf` starting at `off`. -/
def schedule512 (buf : ByteArray) (off : Nat) : Array UInt64 := Id.run do
  let mut w : Array UInt64 := Array.emptyWithCapacity 80
  for t in [0:16] do
    w := w.push (be64 buf (off + 8 * t))
  for t in [16:80] do
    w := w.push (ssig1_64 w[t - 2]! + w[t - 7]! + ssig0_64 w[t - 15]! + w[t - 16]!)
  return w

/-- The eight working variables `a … h` of SHA-512. -/
structure Vars64 where
  a : UInt64
  b : UInt64
  c : UInt64
  d : UInt64
  e : UInt64
  f : UInt64
  g : UInt64
  h : UInt64

/-- Rounds `t, t+1, …, t+n-1` of the SHA-512 compression function. -/
def rounds512 (w : Array UInt64) : (n t : Nat) → (a b c d e f g h : UInt64) → Vars64
  | 0, _, a, b, c, d, e, f, g, h => ⟨a, b, c, d, e, f, g, h⟩
  | n + 1, t, a, b, c, d, e, f, g, h =>
    let t1 := h + bsig1_64 e + ch64 e f g + K512[t]! + w[t]!
    let t2 := bsig0_64 a + maj64 a b c
    rounds512 w n (t + 1) (t1 + t2) a b c (d + t1) e f g

/-- One application of the SHA-512 compression function to the block of `buf` at `off`. -/
def compress512 (st : Array UInt64) (buf : ByteArray) (off : Nat) : Array UInt64 :=
  let w := schedule512 buf off
  let a := st[0]!; let b := st[1]!; let c := st[2]!; let d := st[3]!
  let e := st[4]!; let f := st[5]!; let g := st[6]!; let h := st[7]!
  let v := rounds512 w 80 0 a b c d e f g h
  #[a + v.a, b + v.b, c + v.c, d + v.d, e + v.e, f + v.f, g + v.g, h + v.h]

/-- SHA-512 of a byte string. -/
def sha512 (data : List UInt8) : List UInt8 := Id.run do
  let buf := pad data 128 16
  let mut st := H512
  for i in [0:buf.size / 128] do
    st := compress512 st buf (128 * i)
  let mut out := ByteArray.emptyWithCapacity 64
  for x in st do
    out := pushNatBE out x.toNat 8
  return out.toList

/-! ## Known-answer tests (RFC 6234 §8.5 / NIST CAVP example vectors) -/

/-- Lower-case hexadecimal encoding. -/
def toHex (bs : List UInt8) : String :=
  let digit (n : UInt8) : Char := "0123456789abcdef".toList.getD n.toNat '?'
  String.ofList (bs.flatMap fun (b : UInt8) => [digit (b >>> 4), digit (b &&& 0x0f)])

/-- `(message, SHA-256 digest, SHA-512 digest)` triples: the empty string, `"abc"`, the
448-bit message and the 896-bit message. -/
def knownAnswers : List (String × String × String) := [
  ("",
   "e3b0c44298fc1c149afbf4c8996fb92427ae41e4649b934ca495991b7852b855",
   "cf83e1357eefb8bdf1542850d66d8007d620e4050b5715dc83f4a921d36ce9ce" ++
   "47d0d13c5d85f2b0ff8318d2877eec2f63b931bd47417a81a538327af927da3e"),
  ("abc",
   "ba7816bf8f01cfea414140de5dae2223b00361a396177a9cb410ff61f20015ad",
   "ddaf35a193617abacc417349ae20413112e6fa4e89a97ea20a9eeee64b55d39a" ++
   "2192992a274fc1a836ba3c23a3feebbd454d4423643ce80e2a9ac94fa54ca49f"),
  ("abcdbcdecdefdefgefghfghighijhijkijkljklmklmnlmnomnopnopq",
   "248d6a61d20638b8e5c026930c3e6039a33ce45964ff2167f6ecedd419db06c1",
   "204a8fc6dda82f0a0ced7beb8e08a41657c16ef468b228a8279be331a703c335" ++
   "96fd15c13b1b07f9aa1d3bea57789ca031ad85c7a71dd70354ec631238ca3445"),
  ("abcdefghbcdefghicdefghijdefghijkefghijklfghijklmghijklmnhijklmno" ++
   "ijklmnopjklmnopqklmnopqrlmnopqrsmnopqrstnopqrstu",
   "cf5b16a778af8380036ce59e7b0492370b249b11e8f07a51afac45037afee9d1",
   "8e959b75dae313da8cf4f72814fc143f8f7779c6eb9f7fa17299aeadb6889018" ++
   "501d289e4900f7e4331b99dec4b5433ac7d329eeb6dd26545e96e55b874be909")
]

/-- true iff the built-in known-answer tests pass (RFC 6234 / NIST vectors: "", "abc", the 448-bit and 896-bit messages, one million 'a' is optional). -/
def selfTest : Bool :=
  knownAnswers.all fun (msg, h256, h512) =>
    let data := msg.toUTF8.toList
    toHex (sha256 data) == h256 && toHex (sha512 data) == h512

end SnowVerif.Crypto.Sha2
