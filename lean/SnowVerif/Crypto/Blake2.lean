/-
Executable reference implementation of unkeyed BLAKE2s-256 and BLAKE2b-512 (RFC 7693).

Self-contained: imports nothing outside core Lean.  No `partial`, `unsafe`,
`implemented_by`, `sorry` or axioms; all recursion is via bounded `for` loops.
-/
namespace SnowVerif.Crypto.Blake2

/-- Message word schedule SIGMA (RFC 7693 section 2.7), flattened: row `r`, column `i`
is at index `16 * r + i`.  Rounds 10 and 11 of BLAKE2b reuse rows 0 and 1. -/
def sigma : Array Nat := #[
   0,  1,  2,  3,  4,  5,  6,  7,  8,  9, 10, 11, 12, 13, 14, 15,
  14, 10,  4,  8,  9, 15, 13,  6,  1, 12,  0,  2, 11,  7,  5,  3,
  11,  8, 12,  0,  5,  2, 15, 13, 10, 14,  3,  6,  7,  1,  9,  4,
   7,  9,  3,  1, 13, 12, 11, 14,  2,  6,  5, 10,  4,  0, 15,  8,
   9,  0,  5,  7,  2,  4, 10, 15, 14,  1, 11, 12,  6,  8,  3, 13,
   2, 12,  6, 10,  0, 11,  8,  3,  4, 13,  7,  5, 15, 14,  1,  9,
  12,  5,  1, 15, 14, 13,  4, 10,  0,  7,  6,  3,  9,  2,  8, 11,
  13, 11,  7, 14, 12,  1,  3,  9,  5,  0, 15,  4,  8,  6,  2, 10,
   6, 15, 14,  9, 11,  3,  0,  8, 12,  2, 13,  7,  1,  4, 10,  5,
  10,  2,  8,  4,  7,  6,  1,  5, 15, 11,  9, 14,  3, 12, 13,  0]

/-- Byte `i` of `data`, or `0` past the end (this realises the zero padding of the last block). -/
@[inline] def byteAt (data : ByteArray) (i : Nat) : UInt8 :=
  if h : i < data.size then data[i] else 0

/-- Number of compression-function calls for an unkeyed input of `n` bytes with block size `bs`:
the empty input is one (all-zero) block; otherwise `ceil (n / bs)`, so an input whose length is a
non-zero multiple of `bs` gets no extra empty block. -/
@[inline] def numBlocks (n bs : Nat) : Nat :=
  if n == 0 then 1 else (n + (bs - 1)) / bs

/-! ## BLAKE2s (32-bit words, 64-byte blocks, 10 rounds) -/

def iv32 : Array UInt32 := #[
  0x6A09E667, 0xBB67AE85, 0x3C6EF372, 0xA54FF53A,
  0x510E527F, 0x9B05688C, 0x1F83D9AB, 0x5BE0CD19]

@[inline] def rotr32 (x : UInt32) (n : UInt32) : UInt32 :=
  (x >>> n) ||| (x <<< (32 - n))

/-- The mixing function G for BLAKE2s (rotations 16, 12, 8, 7). -/
@[inline] def g32 (v : Array UInt32) (a b c d : Nat) (x y : UInt32) : Array UInt32 :=
  let va := v[a]!
  let vb := v[b]!
  let vc := v[c]!
  let vd := v[d]!
  let va := va + vb + x
  let vd := rotr32 (vd ^^^ va) 16
  let vc := vc + vd
  let vb := rotr32 (vb ^^^ vc) 12
  let va := va + vb + y
  let vd := rotr32 (vd ^^^ va) 8
  let vc := vc + vd
  let vb := rotr32 (vb ^^^ vc) 7
  (((v.set! a va).set! b vb).set! c vc).set! d vd

/-- Little-endian 32-bit word at byte offset `off` (bytes past the end read as zero). -/
@[inline] def loadLE32 (data : ByteArray) (off : Nat) : UInt32 :=
  (byteAt data off).toUInt32
    ||| ((byteAt data (off + 1)).toUInt32 <<< 8)
    ||| ((byteAt data (off + 2)).toUInt32 <<< 16)
    ||| ((byteAt data (off + 3)).toUInt32 <<< 24)

/-- The 16 message words of the 64-byte block starting at byte offset `off`, zero padded. -/
def loadBlock32 (data : ByteArray) (off : Nat) : Array UInt32 := Id.run do
  let mut m : Array UInt32 := Array.mkEmpty 16
  for i in [0:16] do
    m := m.push (loadLE32 data (off + 4 * i))
  return m

/-- BLAKE2s compression function F.  `t` is the 64-bit byte counter (as a natural number),
`last` the finalisation flag. -/
def compress32 (h : Array UInt32) (m : Array UInt32) (t : Nat) (last : Bool) : Array UInt32 :=
  Id.run do
    let t0 : UInt32 := (t % 4294967296).toUInt32
    let t1 : UInt32 := ((t / 4294967296) % 4294967296).toUInt32
    let mut v : Array UInt32 := h ++ iv32
    v := v.set! 12 (v[12]! ^^^ t0)
    v := v.set! 13 (v[13]! ^^^ t1)
    if last then
      v := v.set! 14 (v[14]! ^^^ 0xFFFFFFFF)
    for r in [0:10] do
      let base := 16 * r
      v := g32 v 0 4  8 12 m[sigma[base +  0]!]! m[sigma[base +  1]!]!
      v := g32 v 1 5  9 13 m[sigma[base +  2]!]! m[sigma[base +  3]!]!
      v := g32 v 2 6 10 14 m[sigma[base +  4]!]! m[sigma[base +  5]!]!
      v := g32 v 3 7 11 15 m[sigma[base +  6]!]! m[sigma[base +  7]!]!
      v := g32 v 0 5 10 15 m[sigma[base +  8]!]! m[sigma[base +  9]!]!
      v := g32 v 1 6 11 12 m[sigma[base + 10]!]! m[sigma[base + 11]!]!
      v := g32 v 2 7  8 13 m[sigma[base + 12]!]! m[sigma[base + 13]!]!
      v := g32 v 3 4  9 14 m[sigma[base + 14]!]! m[sigma[base + 15]!]!
    let mut h' : Array UInt32 := Array.mkEmpty 8
    for i in [0:8] do
      h' := h'.push (h[i]! ^^^ v[i]! ^^^ v[i + 8]!)
    return h'

/-- BLAKE2s-256, unkeyed, on a `ByteArray`; returns the 32-byte digest. -/
def blake2sBytes (data : ByteArray) : ByteArray := Id.run do
  let n := data.size
  let nb := numBlocks n 64
  -- parameter block word 0: digest length 32, key length 0, fanout 1, depth 1
  let mut h : Array UInt32 := iv32.set! 0 (iv32[0]! ^^^ 0x01010020)
  for i in [0:nb] do
    let last := i + 1 == nb
    let t := if last then n else 64 * (i + 1)
    h := compress32 h (loadBlock32 data (64 * i)) t last
  let mut out : ByteArray := ByteArray.emptyWithCapacity 32
  for i in [0:8] do
    let w := h[i]!
    out := out.push w.toUInt8
    out := out.push (w >>> 8).toUInt8
    out := out.push (w >>> 16).toUInt8
    out := out.push (w >>> 24).toUInt8
  return out

/-! ## BLAKE2b (64-bit words, 128-byte blocks, 12 rounds) -/

def iv64 : Array UInt64 := #[
  0x6A09E667F3BCC908, 0xBB67AE8584CAA73B, 0x3C6EF372FE94F82B, 0xA54FF53A5F1D36F1,
  0x510E527FADE682D1, 0x9B05688C2B3E6C1F, 0x1F83D9ABFB41BD6B, 0x5BE0CD19137E2179]

@[inline] def rotr64 (x : UInt64) (n : UInt64) : UInt64 :=
  (x >>> n) ||| (x <<< (64 - n))

/-- The mixing function G for BLAKE2b (rotations 32, 24, 16, 63). -/
@[inline] def g64 (v : Array UInt64) (a b c d : Nat) (x y : UInt64) : Array UInt64 :=
  let va := v[a]!
  let vb := v[b]!
  let vc := v[c]!
  let vd := v[d]!
  let va := va + vb + x
  let vd := rotr64 (vd ^^^ va) 32
  let vc := vc + vd
  let vb := rotr64 (vb ^^^ vc) 24
  let va := va + vb + y
  let vd := rotr64 (vd ^^^ va) 16
  let vc := vc + vd
  let vb := rotr64 (vb ^^^ vc) 63
  (((v.set! a va).set! b vb).set! c vc).set! d vd

/-- Little-endian 64-bit word at byte offset `off` (bytes past the end read as zero). -/
@[inline] def loadLE64 (data : ByteArray) (off : Nat) : UInt64 :=
  (byteAt data off).toUInt64
    ||| ((byteAt data (off + 1)).toUInt64 <<< 8)
    ||| ((byteAt data (off + 2)).toUInt64 <<< 16)
    ||| ((byteAt data (off + 3)).toUInt64 <<< 24)
    ||| ((byteAt data (off + 4)).toUInt64 <<< 32)
    ||| ((byteAt data (off + 5)).toUInt64 <<< 40)
    ||| ((byteAt data (off + 6)).toUInt64 <<< 48)
    ||| ((byteAt data (off + 7)).toUInt64 <<< 56)

/-- The 16 message words of the 128-byte block starting at byte offset `off`, zero padded. -/
def loadBlock64 (data : ByteArray) (off : Nat) : Array UInt64 := Id.run do
  let mut m : Array UInt64 := Array.mkEmpty 16
  for i in [0:16] do
    m := m.push (loadLE64 data (off + 8 * i))
  return m

/-- BLAKE2b compression function F.  `t` is the 128-bit byte counter (as a natural number),
`last` the finalisation flag. -/
def compress64 (h : Array UInt64) (m : Array UInt64) (t : Nat) (last : Bool) : Array UInt64 :=
  Id.run do
    let t0 : UInt64 := (t % 18446744073709551616).toUInt64
    let t1 : UInt64 := ((t / 18446744073709551616) % 18446744073709551616).toUInt64
    let mut v : Array UInt64 := h ++ iv64
    v := v.set! 12 (v[12]! ^^^ t0)
    v := v.set! 13 (v[13]! ^^^ t1)
    if last then
      v := v.set! 14 (v[14]! ^^^ 0xFFFFFFFFFFFFFFFF)
    for r in [0:12] do
      let base := 16 * (r % 10)
      v := g64 v 0 4  8 12 m[sigma[base +  0]!]! m[sigma[base +  1]!]!
      v := g64 v 1 5  9 13 m[sigma[base +  2]!]! m[sigma[base +  3]!]!
      v := g64 v 2 6 10 14 m[sigma[base +  4]!]! m[sigma[base +  5]!]!
      v := g64 v 3 7 11 15 m[sigma[base +  6]!]! m[sigma[base +  7]!]!
      v := g64 v 0 5 10 15 m[sigma[base +  8]!]! m[sigma[base +  9]!]!
      v := g64 v 1 6 11 12 m[sigma[base + 10]!]! m[sigma[base + 11]!]!
      v := g64 v 2 7  8 13 m[sigma[base + 12]!]! m[sigma[base + 13]!]!
      v := g64 v 3 4  9 14 m[sigma[base + 14]!]! m[sigma[base + 15]!]!
    let mut h' : Array UInt64 := Array.mkEmpty 8
    for i in [0:8] do
      h' := h'.push (h[i]! ^^^ v[i]! ^^^ v[i + 8]!)
    return h'

/-- BLAKE2b-512, unkeyed, on a `ByteArray`; returns the 64-byte digest. -/
def blake2bBytes (data : ByteArray) : ByteArray := Id.run do
  let n := data.size
  let nb := numBlocks n 128
  -- parameter block word 0: digest length 64, key length 0, fanout 1, depth 1
  let mut h : Array UInt64 := iv64.set! 0 (iv64[0]! ^^^ 0x01010040)
  for i in [0:nb] do
    let last := i + 1 == nb
    let t := if last then n else 128 * (i + 1)
    h := compress64 h (loadBlock64 data (128 * i)) t last
  let mut out : ByteArray := ByteArray.emptyWithCapacity 64
  for i in [0:8] do
    let w := h[i]!
    out := out.push w.toUInt8
    out := out.push (w >>> 8).toUInt8
    out := out.push (w >>> 16).toUInt8
    out := out.push (w >>> 24).toUInt8
    out := out.push (w >>> 32).toUInt8
    out := out.push (w >>> 40).toUInt8
    out := out.push (w >>> 48).toUInt8
    out := out.push (w >>> 56).toUInt8
  return out

/-! ## Public API -/

/-- BLAKE2s with 32-byte digest, no key. -/
def blake2s (data : List UInt8) : List UInt8 :=
  (blake2sBytes (ByteArray.mk data.toArray)).data.toList

/-- BLAKE2b with 64-byte digest, no key. -/
def blake2b (data : List UInt8) : List UInt8 :=
  (blake2bBytes (ByteArray.mk data.toArray)).data.toList

/-! ## Known-answer tests -/

/-- Lower-case hex rendering of a byte string. -/
def toHex (bs : List UInt8) : String :=
  let digit (n : UInt8) : Char :=
    if n < 10 then Char.ofNat (48 + n.toNat) else Char.ofNat (87 + n.toNat)
  String.ofList (bs.flatMap fun (b : UInt8) => [digit (b >>> 4), digit (b &&& 0x0F)])

/-- true iff built-in known-answer tests pass (RFC 7693 appendix: "abc" for both, and the empty string). -/
def selfTest : Bool :=
  let abc : List UInt8 := [0x61, 0x62, 0x63]
  toHex (blake2s abc) ==
      "508c5e8c327c14e2e1a72ba34eeb452f37458b209ed63a294d999b4c86675982"
    && toHex (blake2b abc) ==
      "ba80a53f981c4d0d6a2797b69f12f6e94c212f14685ac4b74b12bb6fdbffa2d1" ++
      "7d87c5392aab792dc252d5de4533cc9518d38aa8dbf1925ab92386edd4009923"
    && toHex (blake2s []) ==
      "69217a3079908094e11121d042354a7c1f55b6482ca1a51e1b250dfd1ed0eef9"
    && toHex (blake2b []) ==
      "786a02f742015903c6c6fd852552d272912f4740e15847618a86e217f71f5419" ++
      "d25e1031afee585313896444934eb04b903a685b1448b755d56f701afe9be2ce"

end SnowVerif.Crypto.Blake2
