/-
Executable reference implementation of

* ChaCha20 and Poly1305 and AEAD_CHACHA20_POLY1305 (RFC 8439, 96-bit nonce), and
* HChaCha20 and XChaCha20-Poly1305 (draft-irtf-cfrg-xchacha, 192-bit nonce).

Only core Lean is used.  The public API works on `List UInt8`; the internals use
`ByteArray` / `Array UInt32` / `Nat` (Poly1305 is computed modulo `2^130 - 5` on `Nat`).

All functions are total.  Inputs of the wrong length are not rejected: missing
key / nonce bytes are read as `0` and surplus bytes are ignored, so callers are
expected to pass 32-byte keys and 12- (resp. 16-, 24-) byte nonces.
-/

namespace SnowVerif.Crypto.ChaChaPoly

/-! ## Byte helpers -/

/-- Byte `i` of `b`, or `0` when out of range. -/
@[inline] def byteAt (b : ByteArray) (i : Nat) : UInt8 :=
  if h : i < b.size then b[i] else 0

/-- Little-endian 32-bit load at byte offset `off` (bytes past the end read as `0`). -/
@[inline] def le32 (b : ByteArray) (off : Nat) : UInt32 :=
  (byteAt b off).toUInt32
    ||| ((byteAt b (off + 1)).toUInt32 <<< 8)
    ||| ((byteAt b (off + 2)).toUInt32 <<< 16)
    ||| ((byteAt b (off + 3)).toUInt32 <<< 24)

/-- Little-endian 64-bit load at byte offset `off` (bytes past the end read as `0`). -/
@[inline] def le64 (b : ByteArray) (off : Nat) : UInt64 :=
  (le32 b off).toUInt64 ||| ((le32 b (off + 4)).toUInt64 <<< 32)

/-- Append the 4 little-endian bytes of `w`. -/
@[inline] def pushLE32 (out : ByteArray) (w : UInt32) : ByteArray :=
  (((out.push w.toUInt8).push (w >>> 8).toUInt8).push (w >>> 16).toUInt8).push (w >>> 24).toUInt8

/-- Append the 8 little-endian bytes of `w`. -/
@[inline] def pushLE64 (out : ByteArray) (w : UInt64) : ByteArray :=
  pushLE32 (pushLE32 out w.toUInt32) (w >>> 32).toUInt32

/-- `ByteArray` of a byte list. -/
@[inline] def ofList (l : List UInt8) : ByteArray := ⟨l.toArray⟩

/-- Byte list of a `ByteArray`. -/
@[inline] def toList (b : ByteArray) : List UInt8 := b.data.toList

/-! ## ChaCha20 (RFC 8439 section 2.1 - 2.4) -/

/-- 32-bit left rotation by `n` (`0 < n < 32`). -/
@[inline] def rotl (x n : UInt32) : UInt32 := (x <<< n) ||| (x >>> (32 - n))

/-- The ChaCha quarter round applied to the words at indices `a b c d` of the state. -/
@[inline] def quarterRound (s : Array UInt32) (a b c d : Nat) : Array UInt32 := Id.run do
  let mut s := s
  s := s.set! a (s[a]! + s[b]!)
  s := s.set! d (rotl (s[d]! ^^^ s[a]!) 16)
  s := s.set! c (s[c]! + s[d]!)
  s := s.set! b (rotl (s[b]! ^^^ s[c]!) 12)
  s := s.set! a (s[a]! + s[b]!)
  s := s.set! d (rotl (s[d]! ^^^ s[a]!) 8)
  s := s.set! c (s[c]! + s[d]!)
  s := s.set! b (rotl (s[b]! ^^^ s[c]!) 7)
  return s

/-- One column round followed by one diagonal round. -/
def doubleRound (s : Array UInt32) : Array UInt32 :=
  let s := quarterRound s 0 4 8 12
  let s := quarterRound s 1 5 9 13
  let s := quarterRound s 2 6 10 14
  let s := quarterRound s 3 7 11 15
  let s := quarterRound s 0 5 10 15
  let s := quarterRound s 1 6 11 12
  let s := quarterRound s 2 7 8 13
  quarterRound s 3 4 9 14

/-- The 20-round ChaCha permutation (10 double rounds), without the feed-forward addition. -/
def rounds20 (s : Array UInt32) : Array UInt32 := Id.run do
  let mut s := s
  for _ in [0:10] do
    s := doubleRound s
  return s

/-- 16-word state: the 4 "expand 32-byte k" constants, the 8 key words, and 4 further words. -/
def mkState (key : ByteArray) (w12 w13 w14 w15 : UInt32) : Array UInt32 :=
  #[0x61707865, 0x3320646e, 0x79622d32, 0x6b206574,
    le32 key 0, le32 key 4, le32 key 8, le32 key 12,
    le32 key 16, le32 key 20, le32 key 24, le32 key 28,
    w12, w13, w14, w15]

/-- The ChaCha20 block function: 16 keystream words for `(key, counter, nonce)`. -/
def chacha20Block (key nonce : ByteArray) (counter : UInt32) : Array UInt32 := Id.run do
  let init := mkState key counter (le32 nonce 0) (le32 nonce 4) (le32 nonce 8)
  let mut s := rounds20 init
  for i in [0:16] do
    s := s.set! i (s[i]! + init[i]!)
  return s

/-- Byte `i` (`i < 64`) of the little-endian serialisation of a 16-word block. -/
@[inline] def blockByte (ks : Array UInt32) (i : Nat) : UInt8 :=
  (ks[i / 4]! >>> (8 * (i % 4)).toUInt32).toUInt8

/-- ChaCha20 encryption on `ByteArray`s; the block counter wraps modulo `2^32`. -/
def chacha20XorBA (key nonce : ByteArray) (counter : UInt32) (data : ByteArray) : ByteArray :=
  Id.run do
    let mut out := ByteArray.emptyWithCapacity data.size
    let mut ctr := counter
    for j in [0:(data.size + 63) / 64] do
      let ks := chacha20Block key nonce ctr
      let base := j * 64
      for i in [0:min 64 (data.size - base)] do
        out := out.push (byteAt data (base + i) ^^^ blockByte ks i)
      ctr := ctr + 1
    return out

/-- ChaCha20 keystream xor: key 32 bytes, nonce 12 bytes, initial block counter. -/
def chacha20Xor (key nonce : List UInt8) (counter : UInt32) (data : List UInt8) : List UInt8 :=
  toList (chacha20XorBA (ofList key) (ofList nonce) counter (ofList data))

/-! ## Poly1305 (RFC 8439 section 2.5) -/

/-- The prime `2^130 - 5`. -/
def p1305 : Nat := (1 <<< 130) - 5

/-- Clamp mask for `r`. -/
def clampMask : Nat := 0x0ffffffc0ffffffc0ffffffc0fffffff

/-- Little-endian 128-bit load at `off` (bytes past the end read as `0`). -/
@[inline] def le128 (b : ByteArray) (off : Nat) : Nat :=
  (le64 b off).toNat ||| ((le64 b (off + 8)).toNat <<< 64)

/-- Poly1305 on `ByteArray`s. -/
def poly1305BA (key msg : ByteArray) : ByteArray := Id.run do
  let r := le128 key 0 &&& clampMask
  let s := le128 key 16
  let mut acc : Nat := 0
  for j in [0:(msg.size + 15) / 16] do
    let off := j * 16
    let len := min 16 (msg.size - off)
    -- the block, zero padded (`le128` reads `0` past the end), with the extra high bit
    let n := le128 msg off ||| (1 <<< (8 * len))
    acc := ((acc + n) * r) % p1305
  let tag := acc + s
  return pushLE64 (pushLE64 (ByteArray.emptyWithCapacity 16) tag.toUInt64) (tag >>> 64).toUInt64

/-- Poly1305 one-time MAC: 32-byte key, 16-byte tag. -/
def poly1305 (key msg : List UInt8) : List UInt8 :=
  toList (poly1305BA (ofList key) (ofList msg))

/-! ## AEAD_CHACHA20_POLY1305 (RFC 8439 section 2.6, 2.8) -/

/-- One-time Poly1305 key: the first 32 bytes of the ChaCha20 block with counter `0`. -/
def poly1305KeyGen (key nonce : ByteArray) : ByteArray := Id.run do
  let ks := chacha20Block key nonce 0
  let mut out := ByteArray.emptyWithCapacity 32
  for i in [0:8] do
    out := pushLE32 out ks[i]!
  return out

/-- Append `n` zero bytes. -/
def pushZeros (out : ByteArray) (n : Nat) : ByteArray := Id.run do
  let mut out := out
  for _ in [0:n] do
    out := out.push 0
  return out

/-- Number of zero bytes that pad a string of length `n` to a multiple of 16. -/
@[inline] def pad16 (n : Nat) : Nat := (16 - n % 16) % 16

/-- `ad ‖ pad16(ad) ‖ ct ‖ pad16(ct) ‖ le64(|ad|) ‖ le64(|ct|)`. -/
def macData (ad ct : ByteArray) : ByteArray :=
  let out := ByteArray.emptyWithCapacity (ad.size + ct.size + 48)
  let out := pushZeros (out ++ ad) (pad16 ad.size)
  let out := pushZeros (out ++ ct) (pad16 ct.size)
  pushLE64 (pushLE64 out ad.size.toUInt64) ct.size.toUInt64

/-- The AEAD tag over `(ad, ct)`. -/
def aeadTagBA (key nonce ad ct : ByteArray) : ByteArray :=
  poly1305BA (poly1305KeyGen key nonce) (macData ad ct)

/-- AEAD encryption on `ByteArray`s: `ciphertext ++ tag`. -/
def aeadEncryptBA (key nonce ad pt : ByteArray) : ByteArray :=
  let ct := chacha20XorBA key nonce 1 pt
  ct ++ aeadTagBA key nonce ad ct

/-- AEAD decryption on `ByteArray`s. -/
def aeadDecryptBA (key nonce ad ct : ByteArray) : Option ByteArray :=
  if ct.size < 16 then none
  else
    let body := ct.extract 0 (ct.size - 16)
    let tag := ct.extract (ct.size - 16) ct.size
    if (aeadTagBA key nonce ad body).data == tag.data then
      some (chacha20XorBA key nonce 1 body)
    else none

/-- RFC 8439 AEAD_CHACHA20_POLY1305: returns ciphertext ++ 16-byte tag. key 32 bytes, nonce 12 bytes. -/
def aeadEncrypt (key nonce ad pt : List UInt8) : List UInt8 :=
  toList (aeadEncryptBA (ofList key) (ofList nonce) (ofList ad) (ofList pt))

/-- Inverse; input is ciphertext ++ tag; none when shorter than 16 bytes or when the tag does not verify. -/
def aeadDecrypt (key nonce ad ct : List UInt8) : Option (List UInt8) :=
  (aeadDecryptBA (ofList key) (ofList nonce) (ofList ad) (ofList ct)).map toList

/-! ## HChaCha20 and XChaCha20-Poly1305 (draft-irtf-cfrg-xchacha) -/

/-- HChaCha20 on `ByteArray`s: words 0..3 and 12..15 of the permuted state (no feed-forward). -/
def hchacha20BA (key nonce16 : ByteArray) : ByteArray := Id.run do
  let s := rounds20 (mkState key (le32 nonce16 0) (le32 nonce16 4) (le32 nonce16 8) (le32 nonce16 12))
  let mut out := ByteArray.emptyWithCapacity 32
  for i in [0:4] do
    out := pushLE32 out s[i]!
  for i in [12:16] do
    out := pushLE32 out s[i]!
  return out

/-- HChaCha20(key, 16-byte nonce) -> 32-byte subkey. -/
def hchacha20 (key nonce16 : List UInt8) : List UInt8 :=
  toList (hchacha20BA (ofList key) (ofList nonce16))

/-- The 12-byte ChaCha20 nonce `00 00 00 00 ‖ nonce24[16..24]`. -/
def xnonce (nonce24 : ByteArray) : ByteArray :=
  pushZeros (ByteArray.emptyWithCapacity 12) 4 ++ nonce24.extract 16 24

/-- XChaCha20-Poly1305 encryption on `ByteArray`s. -/
def xaeadEncryptBA (key nonce24 ad pt : ByteArray) : ByteArray :=
  aeadEncryptBA (hchacha20BA key (nonce24.extract 0 16)) (xnonce nonce24) ad pt

/-- XChaCha20-Poly1305 decryption on `ByteArray`s. -/
def xaeadDecryptBA (key nonce24 ad ct : ByteArray) : Option ByteArray :=
  aeadDecryptBA (hchacha20BA key (nonce24.extract 0 16)) (xnonce nonce24) ad ct

/-- XChaCha20-Poly1305 with a 24-byte nonce: subkey = HChaCha20(key, nonce[0..16]); then AEAD_CHACHA20_POLY1305(subkey, 0x00000000 ++ nonce[16..24]). -/
def xaeadEncrypt (key nonce24 ad pt : List UInt8) : List UInt8 :=
  toList (xaeadEncryptBA (ofList key) (ofList nonce24) (ofList ad) (ofList pt))

def xaeadDecrypt (key nonce24 ad ct : List UInt8) : Option (List UInt8) :=
  (xaeadDecryptBA (ofList key) (ofList nonce24) (ofList ad) (ofList ct)).map toList

/-! ## Known-answer tests -/

/-- Value of a hex digit (`0` for any other character). -/
def hexVal (c : Char) : UInt8 :=
  if '0' ≤ c ∧ c ≤ '9' then (c.toNat - '0'.toNat).toUInt8
  else if 'a' ≤ c ∧ c ≤ 'f' then (c.toNat - 'a'.toNat + 10).toUInt8
  else if 'A' ≤ c ∧ c ≤ 'F' then (c.toNat - 'A'.toNat + 10).toUInt8
  else 0

/-- Pair up nibbles. -/
def pairNibbles : List UInt8 → List UInt8
  | hi :: lo :: rest => ((hi <<< 4) ||| lo) :: pairNibbles rest
  | _ => []

/-- Decode a hex string; whitespace and other non-hex characters are skipped. -/
def hex (s : String) : List UInt8 :=
  pairNibbles ((s.toList.filter fun c =>
    ('0' ≤ c ∧ c ≤ '9') ∨ ('a' ≤ c ∧ c ≤ 'f') ∨ ('A' ≤ c ∧ c ≤ 'F')).map hexVal)

/-- "Ladies and Gentlemen of the class of '99: If I could offer you only one tip for the future,
sunscreen would be it." (114 bytes). -/
def katSunscreen : List UInt8 := hex
  "4c616469657320616e642047656e746c656d656e206f662074686520636c6173
   73206f66202739393a204966204920636f756c64206f6666657220796f75206f
   6e6c79206f6e652074697020666f7220746865206675747572652c2073756e73
   637265656e20776f756c642062652069742e"

/-- RFC 8439 section 2.4.2: ChaCha20 encryption, counter 1. -/
def katChaCha20 : Bool :=
  chacha20Xor
    (hex "000102030405060708090a0b0c0d0e0f101112131415161718191a1b1c1d1e1f")
    (hex "000000000000004a00000000") 1 katSunscreen
  == hex
    "6e2e359a2568f98041ba0728dd0d6981e97e7aec1d4360c20a27afccfd9fae0b
     f91b65c5524733ab8f593dabcd62b3571639d624e65152ab8f530c359f0861d8
     07ca0dbf500d6a6156a38e088a22b65e52bc514d16ccf806818ce91ab7793736
     5af90bbf74a35be6b40b8eedf2785e42874d"

/-- RFC 8439 section 2.5.2: Poly1305 of "Cryptographic Forum Research Group". -/
def katPoly1305 : Bool :=
  poly1305
    (hex "85d6be7857556d337f4452fe42d506a80103808afb0db2fd4abff6af4149f51b")
    "Cryptographic Forum Research Group".toUTF8.data.toList
  == hex "a8061dc1305136c6c22b8baf0c0127a9"

/-- Key and AAD shared by RFC 8439 section 2.8.2 and the XChaCha draft's appendix A.1 (A.3.1). -/
def katKey : List UInt8 := hex "808182838485868788898a8b8c8d8e8f909192939495969798999a9b9c9d9e9f"
def katAad : List UInt8 := hex "50515253c0c1c2c3c4c5c6c7"

/-- RFC 8439 section 2.8.2: AEAD_CHACHA20_POLY1305 (encrypt, decrypt, and a rejected forgery). -/
def katAead : Bool :=
  let nonce := hex "070000004041424344454647"
  let expected := hex
    "d31a8d34648e60db7b86afbc53ef7ec2a4aded51296e08fea9e2b5a736ee62d6
     3dbea45e8ca9671282fafb69da92728b1a71de0a9e060b2905d6a5b67ecd3b36
     92ddbd7f2d778b8c9803aee328091b58fab324e4fad675945585808b4831d7bc
     3ff4def08e4b7a9de576d26586cec64b6116
     1ae10b594f09e26a7e902ecbd0600691"
  aeadEncrypt katKey nonce katAad katSunscreen == expected
    && aeadDecrypt katKey nonce katAad expected == some katSunscreen
    && aeadDecrypt katKey nonce katAad (expected.set 0 0x00) == none
    && aeadDecrypt katKey nonce [] expected == none
    && aeadDecrypt katKey nonce katAad (expected.take 15) == none

/-- RFC 8439 section 2.6.2: Poly1305 key generation. -/
def katKeyGen : Bool :=
  toList (poly1305KeyGen (ofList katKey) (ofList (hex "000000000001020304050607")))
  == hex "8ad5a08b905f81cc815040274ab29471a833b637e3fd0da508dbb8e2fdd1a646"

/-- draft-irtf-cfrg-xchacha section 2.2.1: HChaCha20. -/
def katHChaCha20 : Bool :=
  hchacha20
    (hex "000102030405060708090a0b0c0d0e0f101112131415161718191a1b1c1d1e1f")
    (hex "000000090000004a0000000031415927")
  == hex "82413b4227b27bfed30e42508a877d73a0f9e4d58a74a853c12ec41326d3ecdc"

/-- draft-irtf-cfrg-xchacha appendix A.3.1: XChaCha20-Poly1305. -/
def katXAead : Bool :=
  let nonce := hex "404142434445464748494a4b4c4d4e4f5051525354555657"
  let expected := hex
    "bd6d179d3e83d43b9576579493c0e939572a1700252bfaccbed2902c21396cbb
     731c7f1b0b4aa6440bf3a82f4eda7e39ae64c6708c54c216cb96b72e1213b452
     2f8c9ba40db5d945b11b69b982c1bb9e3f3fac2bc369488f76b2383565d3fff9
     21f9664c97637da9768812f615c68b13b52e
     c0875924c1c7987947deafd8780acf49"
  xaeadEncrypt katKey nonce katAad katSunscreen == expected
    && xaeadDecrypt katKey nonce katAad expected == some katSunscreen
    && xaeadDecrypt katKey nonce katAad (expected.set 129 0x00) == none

/-- true iff the built-in known-answer tests pass (RFC 8439 sections 2.4.2, 2.5.2, 2.6.2, 2.8.2;
draft-irtf-cfrg-xchacha section 2.2.1 and appendix A.3.1). -/
def selfTest : Bool :=
  katChaCha20 && katPoly1305 && katKeyGen && katAead && katHChaCha20 && katXAead

end SnowVerif.Crypto.ChaChaPoly
