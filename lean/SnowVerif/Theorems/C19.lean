/-
  C19  A rejected message never leaks decrypted plaintext to the caller.

  In the model a read returns, besides the outcome, the prefix of the caller's
  output buffer that was overwritten.  The theorems show that after ANY error
  from any of the three read paths this prefix is either empty or
  `S.decFailBuf ct cap` for a ciphertext `ct` that is part of the received
  message: a function of the ciphertext and the buffer size in which neither the
  key nor the plaintext occurs.  `Real.failBuf` then says what that function is
  for the built-in backends (ciphertext body for RustCrypto, zeros ++ tag or
  nothing for ring).  That the external crates really leave the buffer like this
  is an assumption compared on every run (prim/hs/transport streams).
-/
import SnowVerif.Lemmas.Handshake
import SnowVerif.Lemmas.Transport
import SnowVerif.Crypto.Real

namespace SnowVerif.Theorems.C19
open SnowVerif SnowVerif.Model
set_option linter.unusedVariables false
set_option linter.unusedSimpArgs false

/-- What a failed `decrypt_ad` leaves in `out`: nothing, or the suite's failure image of the
    ciphertext. No other possibility, for every key, nonce, ad, ciphertext, capacity. -/
theorem decryptAd_err_buffer (S : Suite) (cs : CipherState) (ad ct : Bytes) (cap : Nat) (e : Err)
    (cs' : CipherState) (buf : Bytes) (ev : List Event)
    (h : cs.decryptAd S ad ct cap = (.err e, cs', buf, ev)) :
    buf = [] ∨ (buf = S.decFailBuf ct cap ∧ S.dec cs.key cs.n ad ct = none) := by
  have := (CipherState.decryptAd_err h).2
  rcases this with ⟨_, _, hb, _⟩ | ⟨_, _, hb, _⟩ | ⟨_, _, hb, _⟩ | ⟨_, _, _, _, _, hd, hb, _⟩
  · left; exact hb
  · left; exact hb
  · left; exact hb
  · right; exact ⟨hb, hd⟩

/-- `decrypt_and_mix_hash`: on error the overwritten prefix is empty or the failure image. -/
theorem decryptAndMixHash_err_buffer (S : Suite) (st : Sym) (data : Bytes) (cap : Nat) (e : Err)
    (h : (st.decryptAndMixHash S data cap).1 = .err e) :
    (st.decryptAndMixHash S data cap).2.2.1 = [] ∨ (st.decryptAndMixHash S data cap).2.2.1 = S.decFailBuf data cap := by
  unfold Sym.decryptAndMixHash at h ⊢
  split
  · rename_i hk
    simp only [hk, ↓reduceIte] at h
    cases hr : st.cs.decryptAd S st.h data cap with
    | mk r rest =>
      obtain ⟨cs', buf, ev⟩ := rest
      rw [hr] at h
      simp only at h
      subst h
      simp only
      rcases decryptAd_err_buffer S st.cs st.h data cap e cs' buf ev hr with hb | hb
      · left; exact hb
      · right; exact hb.1
  · split
    · left; rfl
    · rename_i hk hc
      simp [hk, hc] at h

/-- Stateful transport read. -/
theorem transport_read_err_buffer (S : Suite) (ts : TS) (m : Bytes) (cap : Nat) (e : Err) (ts' : TS)
    (buf : Bytes) (ev : List Event) (h : ts.readMessage S m cap = (.err e, ts', buf, ev)) :
    buf = [] ∨ buf = S.decFailBuf m cap := by
  rw [TS.readMessage_eq] at h
  repeat' split at h
  all_goals (simp only [Prod.mk.injEq, reduceCtorEq, false_and] at h)
  · left; exact h.2.2.1.symm
  · left; exact h.2.2.1.symm
  · obtain ⟨h1, _, rfl, rfl⟩ := h
    have := decryptAd_err_buffer S ts.recvCs [] m cap e _ _ _
      (show ts.recvCs.decryptAd S [] m cap = (.err e, (ts.recvCs.decryptAd S [] m cap).2.1,
        (ts.recvCs.decryptAd S [] m cap).2.2.1, (ts.recvCs.decryptAd S [] m cap).2.2.2) by rw [← h1])
    rcases this with hb | hb
    · left; exact hb
    · right; exact hb.1

/-- Stateless transport read. -/
theorem stateless_read_err_buffer (S : Suite) (ts : TS) (n : UInt64) (m : Bytes) (cap : Nat) (e : Err)
    (buf : Bytes) (ev : List Event) (h : ts.stRead S n m cap = (.err e, buf, ev)) :
    buf = [] ∨ buf = S.decFailBuf m cap := by
  unfold TS.stRead TS.stDecrypt at h
  repeat' split at h
  all_goals (simp only [Prod.mk.injEq, reduceCtorEq, false_and] at h)
  all_goals first
    | (left; exact h.2.1.symm)
    | (right; exact h.2.1.symm)

theorem readTok_ptr_suffix (S : Suite) (r : RS) (t : Tok) : (HS.readTok S r t).2.ptr <:+ r.ptr := by
  unfold HS.readTok
  cases t <;> simp only <;> (repeat' split) <;>
    first | exact List.suffix_refl _ | exact List.drop_suffix _ _

theorem readToks_ptr_suffix (S : Suite) (ts : List Tok) (r : RS) : (HS.readToks S ts r).2.ptr <:+ r.ptr := by
  induction ts generalizing r with
  | nil => exact List.suffix_refl _
  | cons t ts ih =>
    unfold HS.readToks
    have h1 := readTok_ptr_suffix S r t
    split
    · exact (ih _).trans h1
    · exact h1

/-- `_read_message`: if it does not succeed, the caller's buffer holds nothing or the failure image
    of the payload ciphertext (a suffix of the message). -/
theorem readInner_buffer (S : Suite) (hs : HS) (m : Bytes) (cap : Nat) :
    (∃ p, (HS.readInner S hs m cap).1 = .ok p) ∨ (HS.readInner S hs m cap).2.2.1 = [] ∨
    ∃ ptr, ptr <:+ m ∧ (HS.readInner S hs m cap).2.2.1 = S.decFailBuf ptr cap := by
  have hsuf := readToks_ptr_suffix S (hs.msgs.getD hs.pos []) { hs := hs, ptr := m, ev := [] }
  unfold HS.readInner
  simp only
  split
  · right; left; rfl
  · split
    · right; left; rfl
    · split
      · right; left; rfl
      · cases ht : (HS.readToks S (hs.msgs.getD hs.pos []) { hs := hs, ptr := m, ev := [] }).1 with
        | err x => right; left; rfl
        | panic x => right; left; rfl
        | ok u =>
          simp only
          cases hd : ((HS.readToks S (hs.msgs.getD hs.pos []) { hs := hs, ptr := m, ev := [] }).2.hs.sym.decryptAndMixHash S
              (HS.readToks S (hs.msgs.getD hs.pos []) { hs := hs, ptr := m, ev := [] }).2.ptr cap).1 with
          | ok p => left; exact ⟨_, rfl⟩
          | panic x =>
            exfalso
            unfold Sym.decryptAndMixHash at hd
            split at hd
            · simp only at hd
              cases hq : CipherState.decryptAd S (HS.readToks S (hs.msgs.getD hs.pos []) { hs := hs, ptr := m, ev := [] }).2.hs.sym.cs
                  (HS.readToks S (hs.msgs.getD hs.pos []) { hs := hs, ptr := m, ev := [] }).2.hs.sym.h
                  (HS.readToks S (hs.msgs.getD hs.pos []) { hs := hs, ptr := m, ev := [] }).2.ptr cap with
              | mk r rest =>
                obtain ⟨a, b, c⟩ := rest
                rw [hq] at hd
                simp only at hd
                subst hd
                exact CipherState.decryptAd_not_panic hq
            · split at hd <;> simp at hd
          | err x =>
            simp only
            rcases decryptAndMixHash_err_buffer S _ _ cap x hd with hb | hb
            · right; left; exact hb
            · right; right; exact ⟨_, hsuf, hb⟩

/-- Handshake read: the caller's payload buffer is touched only by the final
    `decrypt_and_mix_hash(ptr, payload)`; on any error it holds nothing or the failure image of
    the payload ciphertext `ptr` (a suffix of the received message). The static-key field is
    decrypted into the internal `rs` buffer, never into the caller's buffer. -/
theorem handshake_read_err_buffer (S : Suite) (hs : HS) (m : Bytes) (cap : Nat) (e : Err) (hs' : HS)
    (buf : Bytes) (ev : List Event) (h : hs.readMessage S m cap = (.err e, hs', buf, ev)) :
    buf = [] ∨ ∃ ptr, ptr <:+ m ∧ buf = S.decFailBuf ptr cap := by
  unfold HS.readMessage at h
  simp only at h
  cases hr : (HS.readInner S hs m cap).1 with
  | ok p => simp [hr] at h
  | panic q => simp [hr] at h
  | err e' =>
    simp only [hr, Prod.mk.injEq] at h
    obtain ⟨_, _, rfl, _⟩ := h
    rcases readInner_buffer S hs m cap with ⟨p, hp⟩ | hb
    · rw [hr] at hp; simp at hp
    · exact hb

/-- What the failure image is for the built-in backends: RustCrypto (default resolver) leaves the
    ciphertext body, ring leaves zeros followed by the tag (or nothing when it used a temporary
    buffer). In neither does the key or the plaintext occur. -/
theorem failBuf_default (ct : Bytes) (cap : Nat) : Real.failBuf .default ct cap = ct.take (ct.length - 16) := rfl

theorem failBuf_ring (ct : Bytes) (cap : Nat) :
    Real.failBuf .ring ct cap = [] ∨ Real.failBuf .ring ct cap = Bytes.zeros (ct.length - 16) ++ ct.drop (ct.length - 16) := by
  unfold Real.failBuf; simp only; split
  · right; rfl
  · left; rfl

end SnowVerif.Theorems.C19
