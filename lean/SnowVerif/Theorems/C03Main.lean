/-
  C03  Handshake transcript integrity, end to end, on the model of snow.

  `C03_main`: for every pattern of the table and every modifier list snow accepts, every pair of
  sessions `Builder::build` returns for it (one initiator, one responder; whatever their keys,
  prologues, psks), every plan of payloads and buffer sizes: if any handshake message but the
  last is replaced in transit by ANY other bytes (and the last one is delivered as sent), then not
  every `write_message` / `read_message` call of the two parties up to the end of the handshake
  returns `ok` -- or the run exhibits a hash collision, a KDF coincidence, or an AEAD ciphertext
  valid in two contexts (explicit witnesses, `Spec.Integrity.Coll` / `AeadCollision`).

  `C03_hash`: if any message (the last included) is replaced and all calls return `ok`, the two
  parties end with different handshake hashes -- or the run exhibits a hash collision.

  The theorems are obtained from the specification-level theorems (`Spec.Integrity`:
  `integrity_main`, `altered_hash_differs`) through the C01 refinement: a successful run of the
  model (`C03Run.altRun`) is a successful run of the specification on the abstract states
  (`C03Run.altRun_spec`), and the abstractions of built states satisfy the hypotheses `Pre` and
  `LastKeyed` (`C03Run.pre_built`, `C03Run.lastKeyed_built`).
-/
import SnowVerif.Lemmas.C03RunPre
import SnowVerif.Lemmas.IntegrityMain

namespace SnowVerif.Theorems.C03Main
open SnowVerif SnowVerif.Model SnowVerif.Model.HS SnowVerif.Bytes SnowVerif.C01 SnowVerif.C03Run
open SnowVerif.Spec.Integrity
set_option linter.unusedVariables false
set_option linter.unusedSimpArgs false

/-- The general form, for any two states satisfying the run invariant `Good` (every state
    `Builder::build` returns, and every state reached from one by any panic-free history of calls:
    `good_built`, `good_reachable`) whose abstractions satisfy `Pre` and `LastKeyed`: if all the
    remaining handshake messages are exchanged with every call returning `ok`, one of them other
    than the last altered and the last delivered as sent, a witness is exhibited. -/
theorem C03_main_states (S : Suite) (hL : S.HashLen) (hS : S.Sizes) (hE : S.EncLen) (hD : S.DecSound) (hpl : S.PubLen)
    (ini : Bool) (A B : HS) (gA : Good S A) (gB : Good S B)
    (hpre : Pre S (absHS A) (absHS B)) (hk : LastKeyed (absHS A))
    (steps : List MStep) (hlen : steps.length = A.msgs.length - A.pos)
    (A' B' : HS) (tr : List Sent)
    (h : altRun S ini A B steps = some (A', B', tr))
    (halt : ∃ i x, i + 1 < tr.length ∧ tr[i]? = some x ∧ x.altered)
    (hlast : ∀ x, tr.getLast? = some x → ¬ x.altered) :
    Coll S ∨ AeadCollision S := by
  obtain ⟨steps', h1, _, _, h4, h5, _, _⟩ :=
    altRun_spec S hL hS (Suite.decLen_of_sound S hD hE) hpl steps ini A B gA gB A' B' tr h
  exact integrity_main S hL hE hD ini (absHS A) (absHS B) (absHS A') (absHS B') steps' tr hpre hk
    (by rw [h1, hlen]; show _ = (A.msgs.drop A.pos).length; rw [List.length_drop]) h4 h5 halt hlast

/-- **C03_main.** For every suite with the stated laws, every table pattern and accepted modifier
    list, every pair of sessions built for it (initiator `A` from `cI`, responder `B` from `cR`;
    keys, prologues, psks, protocol-name strings arbitrary and possibly different), every plan
    `steps` of payloads, buffer sizes and deliveries covering the whole handshake: if every call of
    both parties returned `ok` (`altRun ... = some _`) although some message other than the last
    was altered in transit (`halt`: transcript entry `i`, not the last, has delivered ≠ genuine)
    and the last message was delivered as sent (`hlast`), then the run exhibits a hash collision
    or a KDF coincidence (`Coll`) or an AEAD ciphertext valid in two contexts (`AeadCollision`).
    (The role hypotheses are not used by the proof: with other roles the first call fails.) -/
theorem C03_main (S : Suite) (hL : S.HashLen) (hS : S.Sizes) (hE : S.EncLen) (hD : S.DecSound) (hpl : S.PubLen)
    (av : Avail) (cI cR : BuildCfg) (A B : HS)
    (hA : build S av cI = .ok A) (hB : build S av cR = .ok B)
    (hi : cI.initiator = true) (hr : cR.initiator = false)
    (hp : cI.pattern = cR.pattern) (hm : cI.mods = cR.mods)
    (steps : List MStep) (hlen : steps.length = A.msgs.length)
    (A' B' : HS) (tr : List Sent)
    (h : altRun S true A B steps = some (A', B', tr))
    (halt : ∃ i x, i + 1 < tr.length ∧ tr[i]? = some x ∧ x.altered)
    (hlast : ∀ x, tr.getLast? = some x → ¬ x.altered) :
    Coll S ∨ AeadCollision S := by
  have gA := good_built S hL hpl av cI A hA
  have gB := good_built S hL hpl av cR B hB
  obtain ⟨steps', h1, _, _, h4, h5, _, _⟩ :=
    altRun_spec S hL hS (Suite.decLen_of_sound S hD hE) hpl steps true A B gA gB A' B' tr h
  exact integrity_main S hL hE hD true (absHS A) (absHS B) (absHS A') (absHS B') steps' tr
    (pre_built S hL hpl av cI cR A B hA hB hp hm) (lastKeyed_built S hL hpl av cI A hA)
    (by rw [h1, hlen, (msgs_built S av cI A hA).1]) h4 h5 halt hlast

/-- `C03_main` with the condition on the last message stated on the plan: the last step has
    `deliver = none`. -/
theorem C03_main_plan (S : Suite) (hL : S.HashLen) (hS : S.Sizes) (hE : S.EncLen) (hD : S.DecSound) (hpl : S.PubLen)
    (av : Avail) (cI cR : BuildCfg) (A B : HS)
    (hA : build S av cI = .ok A) (hB : build S av cR = .ok B)
    (hi : cI.initiator = true) (hr : cR.initiator = false)
    (hp : cI.pattern = cR.pattern) (hm : cI.mods = cR.mods)
    (steps : List MStep) (hlen : steps.length = A.msgs.length)
    (A' B' : HS) (tr : List Sent)
    (h : altRun S true A B steps = some (A', B', tr))
    (halt : ∃ i x, i + 1 < tr.length ∧ tr[i]? = some x ∧ x.altered)
    (hlast : ∀ st, steps.getLast? = some st → st.deliver = none) :
    Coll S ∨ AeadCollision S :=
  C03_main S hL hS hE hD hpl av cI cR A B hA hB hi hr hp hm steps hlen A' B' tr h halt
    (last_unaltered S steps true A B A' B' tr h hlast)

/-- **C03_hash.** In the same setting, for a plan of any length (the whole handshake or a part of
    it): if ANY message -- the last included -- was altered in transit and every call of both
    parties returned `ok`, then the handshake hashes the two parties report afterwards
    (`get_handshake_hash`) differ, or the run exhibits a hash collision. -/
theorem C03_hash (S : Suite) (hL : S.HashLen) (hS : S.Sizes) (hE : S.EncLen) (hD : S.DecSound) (hpl : S.PubLen)
    (av : Avail) (cI cR : BuildCfg) (A B : HS)
    (hA : build S av cI = .ok A) (hB : build S av cR = .ok B)
    (hi : cI.initiator = true) (hr : cR.initiator = false)
    (hp : cI.pattern = cR.pattern) (hm : cI.mods = cR.mods)
    (steps : List MStep) (A' B' : HS) (tr : List Sent)
    (h : altRun S true A B steps = some (A', B', tr))
    (halt : ∃ x ∈ tr, x.altered) :
    A'.getHandshakeHash ≠ B'.getHandshakeHash ∨ HashCollision S := by
  have gA := good_built S hL hpl av cI A hA
  have gB := good_built S hL hpl av cR B hB
  obtain ⟨steps', h1, _, _, h4, h5, _, _⟩ :=
    altRun_spec S hL hS (Suite.decLen_of_sound S hD hE) hpl steps true A B gA gB A' B' tr h
  exact altered_hash_differs S hL hE true (absHS A) (absHS B) (absHS A') (absHS B') steps' tr
    (pre_built S hL hpl av cI cR A B hA hB hp hm) h4 h5 halt

/-- **The last message** (in particular the only message of a one-way pattern `N`, `K`, `X`,
    to which `C03_main` does not speak): if the last message of a complete handshake is altered
    and both parties nevertheless finish without an error, their handshake hashes -- the channel
    binding value -- differ, or the run exhibits a hash collision. (Nothing stronger can hold: in
    `N`, anybody can produce a fresh valid message.) -/
theorem C03_last (S : Suite) (hL : S.HashLen) (hS : S.Sizes) (hE : S.EncLen) (hD : S.DecSound) (hpl : S.PubLen)
    (av : Avail) (cI cR : BuildCfg) (A B : HS)
    (hA : build S av cI = .ok A) (hB : build S av cR = .ok B)
    (hi : cI.initiator = true) (hr : cR.initiator = false)
    (hp : cI.pattern = cR.pattern) (hm : cI.mods = cR.mods)
    (steps : List MStep) (hlen : steps.length = A.msgs.length)
    (A' B' : HS) (tr : List Sent)
    (h : altRun S true A B steps = some (A', B', tr))
    (halt : ∃ x, tr.getLast? = some x ∧ x.altered) :
    (A'.isHandshakeFinished = true ∧ B'.isHandshakeFinished = true) ∧
    (A'.getHandshakeHash ≠ B'.getHandshakeHash ∨ HashCollision S) := by
  obtain ⟨x, hx, ha⟩ := halt
  refine ⟨?_, C03_hash S hL hS hE hD hpl av cI cR A B hA hB hi hr hp hm steps A' B' tr h
    ⟨x, List.mem_of_getLast? hx, ha⟩⟩
  have gA := good_built S hL hpl av cI A hA
  have gB := good_built S hL hpl av cR B hB
  obtain ⟨steps', h1, _, _, h4, h5, gA', gB'⟩ :=
    altRun_spec S hL hS (Suite.decLen_of_sound S hD hE) hpl steps true A B gA gB A' B' tr h
  have hpre := pre_built S hL hpl av cI cR A B hA hB hp hm
  obtain ⟨hpre', _, hm'⟩ := run_pre S hL hE true (absHS A) (absHS B) (absHS A') (absHS B') steps' tr hpre h4 h5
  have hmA : (absHS A').msgs = [] := by
    rw [hm', h1, hlen, (msgs_built S av cI A hA).1]; simp
  have hmB : (absHS B').msgs = [] := by rw [← hpre'.msgs]; exact hmA
  have fin : ∀ X : HS, X.pos ≤ X.msgs.length → (absHS X).msgs = [] → X.isHandshakeFinished = true :=
    fun X hX h0 => ((C01.getters_abs X hX).2.2).mpr h0
  exact ⟨fin A' gA'.turn.1 hmA, fin B' gB'.turn.1 hmB⟩

/-! ## Non-vacuity: concrete runs with the toy suite -/

namespace Ex
open SnowVerif.Theorems.C14.Ex SnowVerif.Theorems.C01.Ex

/-- The XX responder matching C01's example initiator configuration `cfgI`; `build` returns
    C14's example states `i0` / `r0` for the two. -/
def cfgR : BuildCfg :=
  { cfgI with initiator := false, s := some (List.replicate 32 2), rng := List.replicate 32 9 }

def avAll : Avail := ⟨true, true, true, true⟩

theorem build_r0 : build S0 avAll cfgR = .ok r0 := by decide +kernel

/-- Message 1 of XX (`-> e`, payload `[1, 2, 3]`) replaced in transit by another ephemeral key
    with the same payload; messages 2 and 3 delivered as sent. -/
def bad1 : Bytes := List.replicate 32 5 ++ [1, 2, 3]
def st1 : MStep := ⟨[1, 2, 3], 1000, 1000, some bad1⟩
def st2 : MStep := ⟨[4], 1000, 1000, none⟩
def st3 : MStep := ⟨[], 1000, 1000, none⟩

/-- The alteration of the cleartext field is accepted at first: both calls of message 1 return
    `ok`, and the transcript records an altered message. -/
example : ((altRun S0 true i0 r0 [st1]).map fun r => r.2.2.map fun x => decide (x.delivered ≠ x.genuine)) =
    some [true] := by decide +kernel

/-- ... but the handshake does not complete: some later call fails (here the initiator's read of
    message 2), as `C03_main` says it must (short of a collision). -/
example : altRun S0 true i0 r0 [st1, st2, st3] = none := by decide +kernel

/-- Without the alteration the same plan runs to the end (so `altRun ... = some _` is not
    unsatisfiable for the built states, and the failure above is due to the alteration). -/
example : (altRun S0 true i0 r0 [{ st1 with deliver := none }, st2, st3]).isSome = true := by decide +kernel

/-- The hypotheses of the specification-level theorems hold of these built states. -/
example : Pre S0 (absHS i0) (absHS r0) :=
  pre_built S0 (C18.toy_suite_hashLen 0 0 0) (C14Toy.toy_pubLen 0 0 0) avAll cfgI cfgR i0 r0 build_i0 build_r0 rfl rfl

example : LastKeyed (absHS i0) :=
  lastKeyed_built S0 (C18.toy_suite_hashLen 0 0 0) (C14Toy.toy_pubLen 0 0 0) avAll cfgI i0 build_i0

example : [st1, st2, st3].length = i0.msgs.length := by decide

/-- The hypotheses of `C03_hash` hold of the one-message run above (an altered message, all calls
    `ok`), and its conclusion is visible: the handshake hashes differ. -/
example : ((altRun S0 true i0 r0 [st1]).map fun r => decide (r.1.getHandshakeHash ≠ r.2.1.getHandshakeHash)) =
    some true := by decide +kernel

/-- A one-way pattern, `N` (one message `-> e, es`): its only message is the last one, so
    `C03_main` is silent and `C03_last` applies. With the toy suite an altered ephemeral key makes
    the responder reject the message; delivered as sent it is accepted and both parties finish. -/
def cfgNI : BuildCfg :=
  { pattern := .pN, mods := [], name := [78], initiator := true, s := none, eFixed := none,
    rs := some (S0.pubOf (List.replicate 32 2)), psks := List.replicate 10 none, prologue := [],
    rng := List.replicate 32 7 }
def cfgNR : BuildCfg := { cfgNI with initiator := false, s := some (List.replicate 32 2), rs := none }

example : (build S0 avAll cfgNI).isOk = true ∧ (build S0 avAll cfgNR).isOk = true := by decide +kernel

example : altRun S0 true (Lemmas.C12.builtState S0 cfgNI) (Lemmas.C12.builtState S0 cfgNR) [st1] = none ∧
    ((altRun S0 true (Lemmas.C12.builtState S0 cfgNI) (Lemmas.C12.builtState S0 cfgNR)
      [{ st1 with deliver := none }]).map fun r => (r.1.isHandshakeFinished, r.2.1.isHandshakeFinished)) =
      some (true, true) := by decide +kernel

end Ex

end SnowVerif.Theorems.C03Main
