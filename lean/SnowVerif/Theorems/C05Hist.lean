/-
  C05 (continued)  In order, exactly once, over whole delivery histories.

  The sender's messages are `m i = enc key i [] (pl i)` (message number `i` carries payload `pl i`:
  `C04.t_write_bytes`). The network may deliver them in any order, any number of times, drop them, and
  hand the reader any payload-buffer size -- but (this file's setting) it delivers only bytes the sender
  produced. Then for EVERY finite delivery history to a receiver at counter `n`:

  * `accepted_in_order_exactly_once`: the list of payloads the receiver accepted is exactly
    `pl n, pl (n+1), ..., pl (n+k-1)` -- the sender's stream from the receiver's counter on, in order,
    no message twice, none skipped -- where `k` is the number of accepted deliveries;
  * `receiver_counter_counts`: the receiver's counter at the end is `n + k` as natural numbers (no wrap);
  * the same for the model of `TransportState::read_message` (`ts_in_order_exactly_once`), through the
    refinement `C05.t_read_refines_receiver`.

  The cryptographic residue is explicit: `NoCross` says that a sender's message is not also a valid
  encryption under a different counter of the same key (it is what AEAD integrity gives and what no
  computation can prove: for the stream+MAC constructions it is a tag collision).
  Without the hypothesis that deliveries are the sender's (forgeries), `accepted_are_encryptions` still
  says that the k-th accepted delivery is an encryption under counter `n + k` of the payload returned.
-/
import SnowVerif.Theorems.C05
import SnowVerif.Theorems.C18

namespace SnowVerif.Theorems.C05
open SnowVerif SnowVerif.Model SnowVerif.Model.TS
set_option linter.unusedVariables false
set_option linter.unusedSimpArgs false

/-- A delivery history: the bytes and the capacity of the reader's payload buffer. -/
abbrev Deliveries := List (Bytes × Nat)

def toOps (ds : Deliveries) : List Op := ds.map fun d => Op.deliver d.1 d.2

/-- The payloads accepted, in the order of acceptance. -/
def accepted (rs : List (Option Bytes)) : List Bytes := rs.filterMap id

/-- The sender's stream from counter `n` on: `k` payloads. -/
def stream (pl : UInt64 → Bytes) : UInt64 → Nat → List Bytes
  | _, 0 => []
  | n, k + 1 => pl n :: stream pl (n + 1) k

/-- A sender's message is not also an encryption (of anything) under another counter. -/
def NoCross (S : Suite) (key : Bytes) (pl : UInt64 → Bytes) : Prop :=
  ∀ i j q, S.enc key i [] (pl i) = S.enc key j [] q → i = j

theorem deliver_key (S : Suite) (r : Recv) (d : Bytes) (cap : Nat) : (r.deliver S d cap).2.key = r.key := by
  unfold Recv.deliver; split
  · split <;> rfl
  · rfl

theorem deliver_none (S : Suite) (r : Recv) (d : Bytes) (cap : Nat) (h : (r.deliver S d cap).1 = none) :
    (r.deliver S d cap).2 = r := by
  unfold Recv.deliver at h ⊢
  by_cases g : RGuards r d cap
  · simp only [g, ↓reduceIte] at h ⊢
    cases hdec : S.dec r.key r.next [] d with
    | none => rfl
    | some q => simp [hdec] at h
  · simp [g]

private theorem succ_toNat (n : UInt64) (h : n ≠ MAXN) : (n + 1).toNat = n.toNat + 1 := by
  have : n.toNat < 2 ^ 64 - 1 := by
    have h1 : n.toNat < 2 ^ 64 := n.toNat_lt
    have h2 : n.toNat ≠ 2 ^ 64 - 1 := by
      intro hc; apply h; apply UInt64.toNat_inj.mp; simpa [MAXN, CipherState.nonceMax] using hc
    omega
  rw [UInt64.toNat_add]; simp; omega

/-- **The receiver's counter counts the accepted deliveries** (and never wraps). -/
theorem receiver_counter_counts (S : Suite) (ds : Deliveries) : ∀ r : Recv,
    (runRecv S r (toOps ds)).2.next.toNat = r.next.toNat + (accepted (runRecv S r (toOps ds)).1).length ∧
    (runRecv S r (toOps ds)).2.key = r.key := by
  induction ds with
  | nil => intro r; simp [toOps, runRecv, accepted]
  | cons d ds ih =>
    intro r
    simp only [toOps, List.map_cons, runRecv, Recv.step]
    have ih' := ih (r.deliver S d.1 d.2).2
    simp only [toOps] at ih'
    cases hd : (r.deliver S d.1 d.2).1 with
    | none =>
      have := deliver_none S r d.1 d.2 hd
      rw [this] at ih' ⊢
      simpa [accepted] using ih'
    | some p =>
      have hk := deliver_key S r d.1 d.2
      -- the counter moved by one, and was not the reserved value
      have hn : (r.deliver S d.1 d.2).2.next = r.next + 1 ∧ r.next ≠ MAXN := by
        unfold Recv.deliver at hd ⊢
        by_cases g : RGuards r d.1 d.2
        · simp only [g, ↓reduceIte] at hd ⊢
          cases hdec : S.dec r.key r.next [] d.1 with
          | none => simp [hdec] at hd
          | some q => exact ⟨rfl, g.2.2.2⟩
        · simp [g] at hd
      rw [ih'.1, ih'.2, hk, hn.1, succ_toNat _ hn.2]
      simp [accepted]; omega

/-- Whatever is delivered (forgeries included): under a sound AEAD the accepted deliveries are
    encryptions under consecutive counters -- stated as a recursion over the history. -/
def AcceptedAt (S : Suite) (key : Bytes) : UInt64 → List ((Bytes × Nat) × Option Bytes) → Prop
  | _, [] => True
  | n, (d, some p) :: r => d.1 = S.enc key n [] p ∧ AcceptedAt S key (n + 1) r
  | n, (_, none) :: r => AcceptedAt S key n r

theorem accepted_are_encryptions (S : Suite) (hs : S.DecSound) (ds : Deliveries) : ∀ r : Recv,
    AcceptedAt S r.key r.next (ds.zip (runRecv S r (toOps ds)).1) := by
  induction ds with
  | nil => intro r; simp [toOps, runRecv, AcceptedAt]
  | cons d ds ih =>
    intro r
    simp only [toOps, List.map_cons, runRecv, Recv.step, List.zip_cons_cons]
    have ih' := ih (r.deliver S d.1 d.2).2
    simp only [toOps] at ih'
    cases hd : (r.deliver S d.1 d.2).1 with
    | none =>
      rw [deliver_none S r d.1 d.2 hd] at ih' ⊢
      simpa [AcceptedAt] using ih'
    | some p =>
      obtain ⟨h1, h2, _⟩ := accept_only_encryption S hs r d.1 d.2 p hd
      rw [deliver_key, h2] at ih'
      exact ⟨h1, ih'⟩

/-- **In order, exactly once.** Deliveries drawn in any order and multiplicity from the sender's
    messages: what the receiver accepts is the sender's stream from its counter on. -/
theorem accepted_in_order_exactly_once (S : Suite) (hs : S.DecSound) (hde : S.DecEnc)
    (pl : UInt64 → Bytes) (ds : Deliveries) : ∀ r : Recv,
    NoCross S r.key pl →
    (∀ d ∈ ds, ∃ i, d.1 = S.enc r.key i [] (pl i)) →
    accepted (runRecv S r (toOps ds)).1 = stream pl r.next (accepted (runRecv S r (toOps ds)).1).length := by
  induction ds with
  | nil => intro r _ _; simp [toOps, runRecv, accepted, stream]
  | cons d ds ih =>
    intro r hnc hsrc
    simp only [toOps, List.map_cons, runRecv, Recv.step]
    have hk := deliver_key S r d.1 d.2
    have ih' := ih (r.deliver S d.1 d.2).2 (by rw [hk]; exact hnc)
      (by intro x hx; rw [hk]; exact hsrc x (List.mem_cons_of_mem _ hx))
    simp only [toOps] at ih'
    cases hd : (r.deliver S d.1 d.2).1 with
    | none =>
      rw [deliver_none S r d.1 d.2 hd] at ih' ⊢
      simpa [accepted] using ih'
    | some p =>
      obtain ⟨h1, h2, _⟩ := accept_only_encryption S hs r d.1 d.2 p hd
      obtain ⟨i, hi⟩ := hsrc d (List.mem_cons_self ..)
      have hij : i = r.next := hnc i r.next p (by rw [← hi, h1])
      subst hij
      -- the payload returned is the sender's: decrypt both sides
      have hp : p = pl r.next := by
        have e1 := hde r.key r.next [] p
        rw [← h1, hi, hde] at e1
        exact (Option.some.inj e1).symm
      rw [h2] at ih'
      simp only [accepted, List.filterMap_cons, id, List.length_cons, stream] at ih' ⊢
      rw [← hp, ← ih']

/-- The same for the model of `TransportState::read_message`, through the refinement. -/
def runReads (S : Suite) (ts : TS) (ds : Deliveries) : List (Option Bytes) × TS := runTs S ts (toOps ds)

theorem ts_in_order_exactly_once (S : Suite) (hs : S.DecSound) (hde : S.DecEnc) (ts : TS) (h : CanRecv ts)
    (pl : UInt64 → Bytes) (ds : Deliveries) (hnc : NoCross S ts.recvCs.key pl)
    (hsrc : ∀ d ∈ ds, ∃ i, d.1 = S.enc ts.recvCs.key i [] (pl i)) :
    accepted (runReads S ts ds).1 = stream pl ts.receivingNonce (accepted (runReads S ts ds).1).length ∧
    (runReads S ts ds).2.receivingNonce.toNat = ts.receivingNonce.toNat + (accepted (runReads S ts ds).1).length ∧
    (runReads S ts ds).2.sendCs = ts.sendCs := by
  obtain ⟨r1, r2, r3⟩ := t_read_refines_receiver S ts (toOps ds) h
  have a := accepted_in_order_exactly_once S hs hde pl ds (abs ts) hnc hsrc
  have b := receiver_counter_counts S ds (abs ts)
  have rn : ∀ t : TS, t.receivingNonce = t.recvCs.n := by
    intro t; unfold receivingNonce recvCs; cases t.initiator <;> rfl
  unfold runReads
  rw [r1, rn, rn]
  refine ⟨a, ?_, r3⟩
  have : (runTs S ts (toOps ds)).2.recvCs.n = (abs (runTs S ts (toOps ds)).2).next := rfl
  rw [this, r2]
  exact b.1

/-- Forgeries included: the k-th accepted delivery is an encryption under counter `n + k`. -/
theorem ts_accepted_are_encryptions (S : Suite) (hs : S.DecSound) (ts : TS) (h : CanRecv ts) (ds : Deliveries) :
    AcceptedAt S ts.recvCs.key ts.recvCs.n (ds.zip (runReads S ts ds).1) := by
  obtain ⟨r1, _, _⟩ := t_read_refines_receiver S ts (toOps ds) h
  unfold runReads; rw [r1]
  exact accepted_are_encryptions S hs ds (abs ts)

/-! ### Non-vacuity (toy suite): messages 0,1,2 delivered as 1, 0, 0, 1, (1 into a short buffer), 2, 2 -/
namespace ExHist
def S0 : Suite := Toy.suite 0 0 0
def key : Bytes := List.replicate 32 5
def pl (i : UInt64) : Bytes := [i.toUInt8, 7, 7]
def m (i : UInt64) : Bytes := S0.enc key i [] (pl i)
def r0 : Recv := { key := key, next := 0 }
def ds : Deliveries := [(m 1, 100), (m 0, 100), (m 0, 100), (m 1, 2), (m 1, 3), (m 2, 64), (m 2, 64)]
/-- A test of the definitions on one history (reordered, duplicated, one undersized buffer). -/
example : accepted (runRecv S0 r0 (toOps ds)).1 = [pl 0, pl 1, pl 2] ∧ stream pl 0 3 = [pl 0, pl 1, pl 2] ∧
    (runRecv S0 r0 (toOps ds)).1 = [none, some (pl 0), none, none, some (pl 1), some (pl 2), none] := by decide +kernel
/-- The hypotheses about the source of the deliveries are met by this history. -/
example : ∀ d ∈ ds, ∃ i, d.1 = S0.enc r0.key i [] (pl i) := by
  intro d hd
  simp only [ds, List.mem_cons, List.not_mem_nil, or_false] at hd
  rcases hd with rfl | rfl | rfl | rfl | rfl | rfl | rfl
  · exact ⟨1, rfl⟩
  · exact ⟨0, rfl⟩
  · exact ⟨0, rfl⟩
  · exact ⟨1, rfl⟩
  · exact ⟨1, rfl⟩
  · exact ⟨2, rfl⟩
  · exact ⟨2, rfl⟩
example : S0.DecSound ∧ S0.DecEnc := ⟨C18.toy_suite_decSound 0 0 0, C18.toy_suite_decEnc 0 0 0⟩
end ExHist

end SnowVerif.Theorems.C05
