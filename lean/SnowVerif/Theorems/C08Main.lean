/-
  C08  Agreement on the session context, end to end, on the model of snow: a handshake between
  two parties that do not agree on everything that enters the session (prologue, pre-shared
  static keys, pre-shared symmetric keys) does not complete, even when every message is delivered
  unmodified.

  `C08_main`: for every table pattern and accepted modifier list and every pair of sessions
  `Builder::build` returns for it whose abstract states have diverged (`Div`: transcript hashes
  differ) or disagree on a psk that a `psk` token uses (`PskMismatch`): not every call of the
  honest, unmodified exchange of all handshake messages returns `ok` -- or the run exhibits a
  hash collision, a KDF coincidence or an AEAD ciphertext valid in two contexts.

  `C08_prologue`, `C08_psk` (`C08_psk_mod`), `C08_static`: the hypothesis discharged for
  different prologues, a different psk in a used slot, a different pre-shared static public key.

  Obtained from `Spec.Integrity.agreement_main` through the C01 refinement (`C03Run.altRun_spec`).
-/
import SnowVerif.Lemmas.C03RunDiv
import SnowVerif.Lemmas.IntegrityMain
import SnowVerif.Theorems.C03Main

namespace SnowVerif.Theorems.C08Main
open SnowVerif SnowVerif.Model SnowVerif.Model.HS SnowVerif.Bytes SnowVerif.C01 SnowVerif.C03Run
open SnowVerif.Spec.Integrity
set_option linter.unusedVariables false
set_option linter.unusedSimpArgs false

/-- **C08_main.** For every suite with the stated laws, every table pattern and accepted modifier
    list, every initiator session `A` and responder session `B` built for it: if the abstract
    states have diverged or disagree on a used psk, then the exchange of all handshake messages,
    every one delivered unmodified (`hun`), with any payloads and buffer sizes, does not consist
    of successful calls only (`altRun ... = some r` is impossible) -- or the run exhibits a hash
    collision or a KDF coincidence (`Coll`) or an AEAD ciphertext valid in two contexts. -/
theorem C08_main (S : Suite) (hL : S.HashLen) (hS : S.Sizes) (hE : S.EncLen) (hD : S.DecSound) (hpl : S.PubLen)
    (av : Avail) (cI cR : BuildCfg) (A B : HS)
    (hA : build S av cI = .ok A) (hB : build S av cR = .ok B)
    (hi : cI.initiator = true) (hr : cR.initiator = false)
    (hp : cI.pattern = cR.pattern) (hm : cI.mods = cR.mods)
    (steps : List MStep) (hlen : steps.length = A.msgs.length)
    (hun : ∀ st ∈ steps, st.deliver = none)
    (hd : Div (absHS A) (absHS B) ∨ PskMismatch (absHS A) (absHS B))
    (r : HS × HS × List Sent) (h : altRun S true A B steps = some r) :
    Coll S ∨ AeadCollision S := by
  obtain ⟨A', B', tr⟩ := r
  have gA := good_built S hL hpl av cI A hA
  have gB := good_built S hL hpl av cR B hB
  obtain ⟨steps', h1, _, h3, h4, h5, _, _⟩ :=
    altRun_spec S hL hS (Suite.decLen_of_sound S hD hE) hpl steps true A B gA gB A' B' tr h
  have hm0 := msgs_built S av cI A hA
  have hun' : ∀ st ∈ steps', st.deliver = none := by
    intro st hst
    have : st.deliver ∈ steps'.map (·.deliver) := List.mem_map_of_mem hst
    rw [h3] at this
    obtain ⟨st0, hst0, he⟩ := List.mem_map.mp this
    rw [← he]; exact hun st0 hst0
  exact agreement_main S hL hE hD true (absHS A) (absHS B) steps' (absHS A', absHS B', tr)
    (pre_built S hL hpl av cI cR A B hA hB hp hm) (lastKeyed_built S hL hpl av cI A hA)
    (by rw [hm0.1]; exact hm0.2) (by rw [h1, hlen, hm0.1]) h4 hun' hd h5

/-- **Different prologues.** Two parties configured with different prologues (everything else
    arbitrary) cannot complete an unmodified handshake with all calls returning `ok`, or a
    witness is exhibited. -/
theorem C08_prologue (S : Suite) (hL : S.HashLen) (hS : S.Sizes) (hE : S.EncLen) (hD : S.DecSound) (hpl : S.PubLen)
    (av : Avail) (cI cR : BuildCfg) (A B : HS)
    (hA : build S av cI = .ok A) (hB : build S av cR = .ok B)
    (hi : cI.initiator = true) (hr : cR.initiator = false)
    (hp : cI.pattern = cR.pattern) (hm : cI.mods = cR.mods)
    (hne : cI.prologue ≠ cR.prologue)
    (steps : List MStep) (hlen : steps.length = A.msgs.length)
    (hun : ∀ st ∈ steps, st.deliver = none)
    (r : HS × HS × List Sent) (h : altRun S true A B steps = some r) :
    Coll S ∨ AeadCollision S := by
  rcases div_built S hL av cI cR A B hA hB hi hr hp (Or.inl hne) with hd | hc
  · exact C08_main S hL hS hE hD hpl av cI cR A B hA hB hi hr hp hm steps hlen hun (Or.inl hd) r h
  · exact Or.inl (Or.inl hc)

/-- **Different protocol names.** `NoiseParams.name` is what gets hashed into the handshake and it
    is a public, free-form field: two parties can run the same pattern, modifiers and primitives
    under different name strings (the spellings `psk01` / `psk1`, or a name replaced after
    parsing). If the two names differ and are both longer than the digest (hashed), or both at most
    the digest length and equally long (zero-padded) -- every pair of valid Noise names of one
    instance and suite except spellings of different length that are both at most `HASHLEN` bytes
    long, see `C08_name_short_len` -- the unmodified handshake cannot complete with all calls
    returning `ok`, or a witness is exhibited. -/
theorem C08_name (S : Suite) (hL : S.HashLen) (hS : S.Sizes) (hE : S.EncLen) (hD : S.DecSound) (hpl : S.PubLen)
    (av : Avail) (cI cR : BuildCfg) (A B : HS)
    (hA : build S av cI = .ok A) (hB : build S av cR = .ok B)
    (hi : cI.initiator = true) (hr : cR.initiator = false)
    (hp : cI.pattern = cR.pattern) (hm : cI.mods = cR.mods)
    (hne : cI.name ≠ cR.name)
    (hc : (¬ cI.name.length ≤ S.hashLen ∧ ¬ cR.name.length ≤ S.hashLen) ∨
          (cI.name.length ≤ S.hashLen ∧ cR.name.length ≤ S.hashLen ∧ cI.name.length = cR.name.length))
    (steps : List MStep) (hlen : steps.length = A.msgs.length)
    (hun : ∀ st ∈ steps, st.deliver = none)
    (r : HS × HS × List Sent) (h : altRun S true A B steps = some r) :
    Coll S ∨ AeadCollision S := by
  have hn : (Sym.init S cI.name).h ≠ (Sym.init S cR.name).h ∨ HashCollision S := by
    rcases hc with ⟨h1, h2⟩ | ⟨h1, h2, h3⟩
    · unfold Sym.init
      simp only [h1, h2, ↓reduceIte]
      by_cases heq : S.hash cI.name = S.hash cR.name
      · right; exact ⟨cI.name, cR.name, hne, heq⟩
      · left; exact heq
    · left
      unfold Sym.init Bytes.padTo
      simp only [h1, h2, ↓reduceIte]
      intro heq
      exact hne (List.append_inj_left heq h3)
  rcases hn with hn | hcoll
  · rcases div_built_name S hL av cI cR A B hA hB hi hr hp hn with hd | hc'
    · exact C08_main S hL hS hE hD hpl av cI cR A B hA hB hi hr hp hm steps hlen hun (Or.inl hd) r h
    · exact Or.inl (Or.inl hc')
  · exact Or.inl (Or.inl hcoll)

/-- Short names of DIFFERENT length (both at most `HASHLEN` bytes): zero padding maps them to
    different blocks as soon as the longer one has a non-zero byte beyond the shorter one's end
    (true of every valid Noise name: names contain no NUL byte). -/
theorem C08_name_short_len (S : Suite) (hL : S.HashLen) (hS : S.Sizes) (hE : S.EncLen) (hD : S.DecSound) (hpl : S.PubLen)
    (av : Avail) (cI cR : BuildCfg) (A B : HS)
    (hA : build S av cI = .ok A) (hB : build S av cR = .ok B)
    (hi : cI.initiator = true) (hr : cR.initiator = false)
    (hp : cI.pattern = cR.pattern) (hm : cI.mods = cR.mods)
    (h1 : cI.name.length ≤ S.hashLen) (h2 : cR.name.length ≤ S.hashLen)
    (hpad : Bytes.padTo S.hashLen cI.name ≠ Bytes.padTo S.hashLen cR.name)
    (steps : List MStep) (hlen : steps.length = A.msgs.length)
    (hun : ∀ st ∈ steps, st.deliver = none)
    (r : HS × HS × List Sent) (h : altRun S true A B steps = some r) :
    Coll S ∨ AeadCollision S := by
  have hn : (Sym.init S cI.name).h ≠ (Sym.init S cR.name).h := by
    unfold Sym.init
    simp only [h1, h2, ↓reduceIte]
    exact hpad
  rcases div_built_name S hL av cI cR A B hA hB hi hr hp hn with hd | hc'
  · exact C08_main S hL hS hE hD hpl av cI cR A B hA hB hi hr hp hm steps hlen hun (Or.inl hd) r h
  · exact Or.inl (Or.inl hc')

/-- **A different psk in a used slot.** If some `psk n` token of the instance uses a slot on
    which the two configurations differ (a different key, or a key on one side only), the
    unmodified handshake cannot complete with all calls returning `ok`, or a witness is
    exhibited. -/
theorem C08_psk (S : Suite) (hL : S.HashLen) (hS : S.Sizes) (hE : S.EncLen) (hD : S.DecSound) (hpl : S.PubLen)
    (av : Avail) (cI cR : BuildCfg) (A B : HS)
    (hA : build S av cI = .ok A) (hB : build S av cR = .ok B)
    (hi : cI.initiator = true) (hr : cR.initiator = false)
    (hp : cI.pattern = cR.pattern) (hm : cI.mods = cR.mods)
    (m : List Tok) (hmem : m ∈ A.msgs) (n : Nat) (hn : Tok.psk n ∈ m)
    (hne : cI.psks.getD n none ≠ cR.psks.getD n none)
    (steps : List MStep) (hlen : steps.length = A.msgs.length)
    (hun : ∀ st ∈ steps, st.deliver = none)
    (r : HS × HS × List Sent) (h : altRun S true A B steps = some r) :
    Coll S ∨ AeadCollision S :=
  C08_main S hL hS hE hD hpl av cI cR A B hA hB hi hr hp hm steps hlen hun
    (Or.inr (pskMismatch_built S hL hpl av cI cR A B hA hB m hmem n hn hne)) r h

/-- The same with the slot named by a modifier of the protocol name: for a `pskN` modifier of the
    handshake and different keys in slot `N`. -/
theorem C08_psk_mod (S : Suite) (hL : S.HashLen) (hS : S.Sizes) (hE : S.EncLen) (hD : S.DecSound) (hpl : S.PubLen)
    (av : Avail) (cI cR : BuildCfg) (A B : HS)
    (hA : build S av cI = .ok A) (hB : build S av cR = .ok B)
    (hi : cI.initiator = true) (hr : cR.initiator = false)
    (hp : cI.pattern = cR.pattern) (hm : cI.mods = cR.mods)
    (n : Nat) (hn : Modifier.psk n ∈ cI.mods)
    (hne : cI.psks.getD n none ≠ cR.psks.getD n none)
    (steps : List MStep) (hlen : steps.length = A.msgs.length)
    (hun : ∀ st ∈ steps, st.deliver = none)
    (r : HS × HS × List Sent) (h : altRun S true A B steps = some r) :
    Coll S ∨ AeadCollision S := by
  obtain ⟨a1, _, _, _, _, _, a7⟩ := built_abs_facts S hL hpl av cI A hA
  obtain ⟨m, hmem, hn'⟩ := psk_tok_of_mod cI.pattern cI.mods _ a7 n hn
  rw [← a1, (msgs_built S av cI A hA).1] at hmem
  exact C08_psk S hL hS hE hD hpl av cI cR A B hA hB hi hr hp hm m hmem n hn' hne steps hlen hun r h

/-- **A different pre-shared static public key.** If the pattern has the initiator's static key
    in a pre-message (`K*` patterns) and the responder's configured remote static key `v` is not
    the public key of the initiator's static private key `k` -- or the pattern has the
    responder's static key in a pre-message (`*K`, `N`, `X` ... patterns) and the initiator's
    configured remote static key is not the responder's public key -- the unmodified handshake
    cannot complete with all calls returning `ok`, or a witness is exhibited. -/
theorem C08_static (S : Suite) (hL : S.HashLen) (hS : S.Sizes) (hE : S.EncLen) (hD : S.DecSound) (hpl : S.PubLen)
    (av : Avail) (cI cR : BuildCfg) (A B : HS)
    (hA : build S av cI = .ok A) (hB : build S av cR = .ok B)
    (hi : cI.initiator = true) (hr : cR.initiator = false)
    (hp : cI.pattern = cR.pattern) (hm : cI.mods = cR.mods)
    (k v : Bytes)
    (hne : (cI.pattern.tokens.preI ≠ [] ∧ cI.s = some k ∧ cR.rs = some v ∧ v ≠ S.pubOf k) ∨
           (cI.pattern.tokens.preR ≠ [] ∧ cR.s = some k ∧ cI.rs = some v ∧ v ≠ S.pubOf k))
    (steps : List MStep) (hlen : steps.length = A.msgs.length)
    (hun : ∀ st ∈ steps, st.deliver = none)
    (r : HS × HS × List Sent) (h : altRun S true A B steps = some r) :
    Coll S ∨ AeadCollision S := by
  have hd : cI.prologue ≠ cR.prologue ∨
      (cI.pattern.tokens.preI ≠ [] ∧ ownPub S cI ≠ peerPub S cR) ∨
      (cI.pattern.tokens.preR ≠ [] ∧ peerPub S cI ≠ ownPub S cR) := by
    rcases hne with ⟨h1, h2, h3, h4⟩ | ⟨h1, h2, h3, h4⟩
    · right; left
      refine ⟨h1, ?_⟩
      rw [ownPub_eq S cI k h2, peerPub_eq S av cR B hB v h3]
      exact fun e => h4 e.symm
    · right; right
      refine ⟨h1, ?_⟩
      rw [ownPub_eq S cR k h2, peerPub_eq S av cI A hA v h3]
      exact h4
  rcases div_built S hL av cI cR A B hA hB hi hr hp hd with hd | hc
  · exact C08_main S hL hS hE hD hpl av cI cR A B hA hB hi hr hp hm steps hlen hun (Or.inl hd) r h
  · exact Or.inl (Or.inl hc)

/-! ## Non-vacuity: concrete runs with the toy suite -/

namespace Ex
open SnowVerif.Theorems.C14.Ex SnowVerif.Theorems.C01.Ex SnowVerif.Theorems.C03Main.Ex

/-- The XX responder of `C03Main.Ex`, configured with a different prologue. -/
def cfgRp : BuildCfg := { cfgR with prologue := [1] }
def r0p : HS := { r0 with sym := (Sym.init S0 cfgR.name).mixHash S0 [1] }

theorem build_r0p : build S0 avAll cfgRp = .ok r0p := by decide +kernel

def u1 : MStep := ⟨[1, 2, 3], 1000, 1000, none⟩
def u2 : MStep := ⟨[4], 1000, 1000, none⟩
def u3 : MStep := ⟨[], 1000, 1000, none⟩

/-- The hypothesis of `C08_main` holds: the transcript hashes of the built states differ. -/
example : Div (absHS i0) (absHS r0p) := by
  left
  show i0.sym.h ≠ r0p.sym.h
  decide +kernel

/-- The first message (no encrypted field yet) is exchanged successfully ... -/
example : (altRun S0 true i0 r0p [u1]).isSome = true := by decide +kernel

/-- ... but the unmodified handshake does not complete, as `C08_prologue` says it must (short of
    a collision); with equal prologues it does. -/
example : altRun S0 true i0 r0p [u1, u2, u3] = none := by decide +kernel
example : (altRun S0 true i0 r0 [u1, u2, u3]).isSome = true := by decide +kernel

/-- A psk handshake (`NNpsk0`) whose parties hold different keys in slot 0: `PskMismatch`, and
    already the first message (encrypted payload) is rejected. -/
def cfgPI : BuildCfg :=
  { pattern := .pNN, mods := [.psk 0], name := [78], initiator := true, s := none, eFixed := none, rs := none,
    psks := (List.replicate 10 none).set 0 (some (List.replicate 32 5)), prologue := [], rng := List.replicate 32 7 }
def cfgPR : BuildCfg :=
  { cfgPI with initiator := false, psks := (List.replicate 10 none).set 0 (some (List.replicate 32 6)),
               rng := List.replicate 32 9 }

theorem builds_psk : (build S0 avAll cfgPI).isOk = true ∧ (build S0 avAll cfgPR).isOk = true := by decide +kernel

example : Modifier.psk 0 ∈ cfgPI.mods ∧ cfgPI.psks.getD 0 none ≠ cfgPR.psks.getD 0 none := by decide

example : ∀ A B, build S0 avAll cfgPI = .ok A → build S0 avAll cfgPR = .ok B →
    altRun S0 true A B [u1, u3] = none := by
  intro A B hA hB
  have e1 : A = Lemmas.C12.builtState S0 cfgPI := Lemmas.C12.build_ok_state S0 avAll cfgPI A hA
  have e2 : B = Lemmas.C12.builtState S0 cfgPR := Lemmas.C12.build_ok_state S0 avAll cfgPR B hB
  subst e1 e2
  decide +kernel

/-- `C08_name`: the XX responder of `C03Main.Ex` under a protocol name of the same length that
    differs in one byte. The hypotheses hold (both names are short and equally long), the
    transcript hashes differ from the start, the first message still goes through and the
    unmodified handshake does not complete. -/
def cfgRn : BuildCfg := { cfgR with name := [78, 111, 105, 115, 102] }

example : cfgI.name ≠ cfgRn.name ∧ cfgI.name.length ≤ S0.hashLen ∧ cfgRn.name.length ≤ S0.hashLen ∧
    cfgI.name.length = cfgRn.name.length := by decide

example : ∀ B, build S0 avAll cfgRn = .ok B →
    (altRun S0 true i0 B [u1]).isSome = true ∧ altRun S0 true i0 B [u1, u2, u3] = none := by
  intro B hB
  have e2 : B = Lemmas.C12.builtState S0 cfgRn := Lemmas.C12.build_ok_state S0 avAll cfgRn B hB
  subst e2
  decide +kernel

example : (build S0 avAll cfgRn).isOk = true := by decide +kernel

end Ex

end SnowVerif.Theorems.C08Main
