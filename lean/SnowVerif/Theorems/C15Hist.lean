/-
  C15 (continued)  Whole histories: any interleaving of messages and synchronised rekeys, in both
  directions, any number of each.

  The two transport states of one session are run against the specification's channel
  (`Chan`: one (key, counter) pair per direction, `REKEY` on a rekey, counter + 1 on a message):

  * `sync_history`: for EVERY finite sequence of operations drawn from
      { a sends p, b sends p, (a rekeys outgoing & b rekeys incoming), (b rekeys outgoing & a rekeys incoming) }
    -- in any order, any number of times -- every message is written successfully, is byte for byte
    `ENCRYPT(REKEY^j(k), n, "", p)` as the channel defines it (j = rekeys of that direction so far,
    n = messages of that direction so far), and is delivered to the peer with exactly the payload;
    rekeys leave both counters untouched (they are the channel's, which only messages move).
    Hypotheses: legal payload sizes, and the counters do not reach 2^64-1 within the history.
  * `oneway_history`: the same for one-way sessions (initiator to responder only).
  * `desync_history`: after the sender alone rekeys a direction (or the sides install different
    keys), as long as the keys of that direction differ, every later message in that direction is
    rejected by the read itself with no effect on the receiver -- or a ciphertext valid under two
    different keys is exhibited.
-/
import SnowVerif.Theorems.C15
import SnowVerif.Theorems.C05
import SnowVerif.Theorems.C10
import SnowVerif.Crypto.Toy

namespace SnowVerif.Theorems.C15
open SnowVerif SnowVerif.Model SnowVerif.Model.TS SnowVerif.Theorems.C04
set_option linter.unusedVariables false
set_option linter.unusedSimpArgs false

/-- Operations of a two-party transport history. `a` and `b` are the two ends of one session. -/
inductive Op where
  | sendAB (p : Bytes)      -- a writes p, the message is delivered to b
  | sendBA (p : Bytes)      -- b writes p, the message is delivered to a
  | rekeyAB                 -- a.rekey_outgoing and b.rekey_incoming (same message boundary)
  | rekeyBA                 -- b.rekey_outgoing and a.rekey_incoming
  deriving DecidableEq, Repr

/-- The specification's view: per direction a key and a counter. -/
structure Chan where
  kAB : Bytes
  nAB : UInt64
  kBA : Bytes
  nBA : UInt64
  deriving DecidableEq, Repr

/-- What an operation yields: for a message, (the bytes on the wire, the payload delivered). -/
abbrev Obs := Option (Res Bytes × Res Bytes)

def Chan.step (S : Suite) (c : Chan) : Op → Chan × Obs
  | .sendAB p => ({ c with nAB := c.nAB + 1 }, some (.ok (S.enc c.kAB c.nAB [] p), .ok p))
  | .sendBA p => ({ c with nBA := c.nBA + 1 }, some (.ok (S.enc c.kBA c.nBA [] p), .ok p))
  | .rekeyAB  => ({ c with kAB := Spec.rekey S c.kAB }, none)
  | .rekeyBA  => ({ c with kBA := Spec.rekey S c.kBA }, none)

def Chan.run (S : Suite) : Chan → List Op → List Obs
  | _, [] => []
  | c, o :: os => (c.step S o).2 :: Chan.run S (c.step S o).1 os

/-- One write delivered to the peer: (sender', receiver', (write result, read result)); a failed
    write delivers nothing (the read result then repeats the write's error). -/
def deliver (S : Suite) (w r : TS) (p : Bytes) : TS × TS × Obs :=
  match (w.writeMessage S p (p.length + 16)).1 with
  | .ok c => ((w.writeMessage S p (p.length + 16)).2.1, (r.readMessage S c p.length).2.1,
              some (.ok c, (r.readMessage S c p.length).1))
  | e => ((w.writeMessage S p (p.length + 16)).2.1, r, some (e, e))

/-- The implementation model's step on the pair of transport states. -/
def sysStep (S : Suite) (a b : TS) : Op → TS × TS × Obs
  | .sendAB p => deliver S a b p
  | .sendBA p => ((deliver S b a p).2.1, (deliver S b a p).1, (deliver S b a p).2.2)
  | .rekeyAB  => ((a.rekeyOutgoing S).1, (b.rekeyIncoming S).1, none)
  | .rekeyBA  => ((a.rekeyIncoming S).1, (b.rekeyOutgoing S).1, none)

def sysRun (S : Suite) : TS → TS → List Op → List Obs
  | _, _, [] => []
  | a, b, o :: os => (sysStep S a b o).2.2 :: sysRun S (sysStep S a b o).1 (sysStep S a b o).2.1 os

/-- One direction `w → r` of the session is in step with a (key, counter) pair. -/
def DirRel (w r : TS) (k : Bytes) (n : UInt64) : Prop :=
  w.sendCs.key = k ∧ r.recvCs.key = k ∧ w.sendCs.n = n ∧ r.recvCs.n = n ∧ CanSend w ∧ CanRecv r

theorem deliver_ok (S : Suite) (hde : S.DecEnc) (hel : S.EncLen) (w r : TS) (k : Bytes) (n : UInt64)
    (h : DirRel w r k n) (p : Bytes) (hl : p.length + 16 ≤ 65535) (hn : n ≠ MAXN) :
    deliver S w r p =
      (w.withSend { w.sendCs with n := n + 1 }, r.withRecv { r.recvCs with n := n + 1 },
       some (.ok (S.enc k n [] p), .ok p)) := by
  obtain ⟨h1, h2, h3, h4, h5, h6⟩ := h
  have g : WGuards w p (p.length + 16) := ⟨hl, Nat.le_refl _, by rw [h3]; exact hn⟩
  have hw := write_guards_ok S w p (p.length + 16) h5 g
  have hlen := hel k n [] p
  have gg : Guards r (S.enc k n [] p) p.length := by
    unfold Guards; rw [hlen, h4]; exact ⟨hl, by omega, by omega, hn⟩
  have hr := read_guards_ok S r (S.enc k n [] p) p.length h6 gg
  rw [h2, h4, hde] at hr
  unfold deliver
  rw [hw]
  simp only [h1, h3]
  rw [hr]

/-- Frame: what a delivery in direction `w → r` leaves of the opposite direction `r → w`. -/
theorem dirRel_after_deliver_same (w r : TS) (k : Bytes) (n : UInt64) (h : DirRel w r k n) :
    DirRel (w.withSend { w.sendCs with n := n + 1 }) (r.withRecv { r.recvCs with n := n + 1 }) k (n + 1) := by
  obtain ⟨h1, h2, h3, h4, h5, h6⟩ := h
  unfold DirRel CanSend CanRecv at *
  simp only [sendCs_withSend, recvCs_withRecv, initiator_withSend, oneway_withSend, initiator_withRecv, oneway_withRecv]
  exact ⟨h1, h2, trivial, trivial, ⟨h5.1, h5.2⟩, ⟨h6.1, h6.2⟩⟩

theorem dirRel_after_deliver_other (w r : TS) (k' : Bytes) (n' m : UInt64) (cw cr : CipherState)
    (h : DirRel r w k' n') (hw : cw.key = w.sendCs.key ∧ cw.hasKey = w.sendCs.hasKey)
    (hr : cr.key = r.recvCs.key ∧ cr.hasKey = r.recvCs.hasKey) :
    DirRel (r.withRecv cr) (w.withSend cw) k' n' := by
  obtain ⟨h1, h2, h3, h4, h5, h6⟩ := h
  unfold DirRel CanSend CanRecv at *
  simp only [sendCs_withRecv, recvCs_withSend, initiator_withSend, oneway_withSend, initiator_withRecv, oneway_withRecv]
  exact ⟨h1, h2, h3, h4, h5, h6⟩

/-- The session and the channel agree on both directions. -/
def Rel (a b : TS) (c : Chan) : Prop := DirRel a b c.kAB c.nAB ∧ DirRel b a c.kBA c.nBA

def countAB : List Op → Nat
  | [] => 0
  | .sendAB _ :: os => countAB os + 1
  | _ :: os => countAB os
def countBA : List Op → Nat
  | [] => 0
  | .sendBA _ :: os => countBA os + 1
  | _ :: os => countBA os

def Legal : List Op → Prop
  | [] => True
  | .sendAB p :: os => p.length + 16 ≤ 65535 ∧ Legal os
  | .sendBA p :: os => p.length + 16 ≤ 65535 ∧ Legal os
  | _ :: os => Legal os

private theorem toNat_succ' (n : UInt64) (h : n ≠ MAXN) : (n + 1).toNat = n.toNat + 1 := by
  have : n.toNat < 2 ^ 64 - 1 := by
    have h1 : n.toNat < 2 ^ 64 := n.toNat_lt
    have h2 : n.toNat ≠ 2 ^ 64 - 1 := by
      intro hc; apply h; apply UInt64.toNat_inj.mp; simpa [MAXN, CipherState.nonceMax] using hc
    omega
  rw [UInt64.toNat_add]; simp; omega

private theorem ne_max_of_budget (n : UInt64) (k : Nat) (h : n.toNat + (k + 1) ≤ 2 ^ 64 - 1) : n ≠ MAXN := by
  intro hc; rw [hc] at h; simp [MAXN, CipherState.nonceMax] at h; omega

theorem rel_rekeyAB (S : Suite) (a b : TS) (c : Chan) (h : Rel a b c) :
    Rel (a.rekeyOutgoing S).1 (b.rekeyIncoming S).1 { c with kAB := Spec.rekey S c.kAB } := by
  obtain ⟨⟨h1, h2, h3, h4, h5, h6⟩, ⟨g1, g2, g3, g4, g5, g6⟩⟩ := h
  obtain ⟨o1, o2, o3, o4, o5, o6⟩ := rekey_outgoing_spec S a
  obtain ⟨i1, i2, i3, i4, i5, i6⟩ := rekey_incoming_spec S b
  unfold Rel DirRel CanSend CanRecv at *
  refine ⟨⟨?_, ?_, ?_, ?_, ?_, ?_⟩, ⟨?_, ?_, ?_, ?_, ?_, ?_⟩⟩
  · rw [o1, h1]
  · rw [i1, h2]
  · rw [o2, h3]
  · rw [i2, h4]
  · rw [o6, o4, o5]; exact h5
  · rw [i6, i4, i5]; exact h6
  · rw [i3]; exact g1
  · rw [o3]; exact g2
  · rw [i3]; exact g3
  · rw [o3]; exact g4
  · rw [i3, i4, i5]; exact g5
  · rw [o3, o4, o5]; exact g6

theorem rel_rekeyBA (S : Suite) (a b : TS) (c : Chan) (h : Rel a b c) :
    Rel (a.rekeyIncoming S).1 (b.rekeyOutgoing S).1 { c with kBA := Spec.rekey S c.kBA } := by
  obtain ⟨⟨h1, h2, h3, h4, h5, h6⟩, ⟨g1, g2, g3, g4, g5, g6⟩⟩ := h
  obtain ⟨o1, o2, o3, o4, o5, o6⟩ := rekey_outgoing_spec S b
  obtain ⟨i1, i2, i3, i4, i5, i6⟩ := rekey_incoming_spec S a
  unfold Rel DirRel CanSend CanRecv at *
  refine ⟨⟨?_, ?_, ?_, ?_, ?_, ?_⟩, ⟨?_, ?_, ?_, ?_, ?_, ?_⟩⟩
  · rw [i3]; exact h1
  · rw [o3]; exact h2
  · rw [i3]; exact h3
  · rw [o3]; exact h4
  · rw [i3, i4, i5]; exact h5
  · rw [o3, o4, o5]; exact h6
  · rw [o1, g1]
  · rw [i1, g2]
  · rw [o2, g3]
  · rw [i2, g4]
  · rw [o6, o4, o5]; exact g5
  · rw [i6, i4, i5]; exact g6

/-- **Any interleaving of messages and synchronised rekeys.** The observable behaviour of the two
    transport states (every message's bytes, every delivered payload) over the whole history is
    the channel's. -/
theorem sync_history (S : Suite) (hde : S.DecEnc) (hel : S.EncLen) (ops : List Op) :
    ∀ (a b : TS) (c : Chan), Rel a b c → Legal ops →
      c.nAB.toNat + countAB ops ≤ 2 ^ 64 - 1 → c.nBA.toNat + countBA ops ≤ 2 ^ 64 - 1 →
      sysRun S a b ops = Chan.run S c ops := by
  induction ops with
  | nil => intros; rfl
  | cons o os ih =>
    intro a b c hrel hleg hbA hbB
    cases o with
    | sendAB p =>
      obtain ⟨hl, hleg'⟩ := hleg
      have hn : c.nAB ≠ MAXN := ne_max_of_budget _ _ (by simpa [countAB] using hbA)
      have hd := deliver_ok S hde hel a b c.kAB c.nAB hrel.1 p hl hn
      unfold sysRun Chan.run
      simp only [sysStep, Chan.step, hd]
      congr 1
      apply ih _ _ _ ?_ hleg' ?_ ?_
      · refine ⟨dirRel_after_deliver_same a b _ _ hrel.1, ?_⟩
        exact dirRel_after_deliver_other a b _ _ 0 _ _ hrel.2 ⟨rfl, rfl⟩ ⟨rfl, rfl⟩
      · simp only; rw [toNat_succ' _ hn]; simp [countAB] at hbA; omega
      · simpa [countBA] using hbB
    | sendBA p =>
      obtain ⟨hl, hleg'⟩ := hleg
      have hn : c.nBA ≠ MAXN := ne_max_of_budget _ _ (by simpa [countBA] using hbB)
      have hd := deliver_ok S hde hel b a c.kBA c.nBA hrel.2 p hl hn
      unfold sysRun Chan.run
      simp only [sysStep, Chan.step, hd]
      congr 1
      apply ih _ _ _ ?_ hleg' ?_ ?_
      · refine ⟨?_, dirRel_after_deliver_same b a _ _ hrel.2⟩
        exact dirRel_after_deliver_other b a _ _ 0 _ _ hrel.1 ⟨rfl, rfl⟩ ⟨rfl, rfl⟩
      · simpa [countAB] using hbA
      · simp only; rw [toNat_succ' _ hn]; simp [countBA] at hbB; omega
    | rekeyAB =>
      unfold sysRun Chan.run
      simp only [sysStep, Chan.step]
      congr 1
      exact ih _ _ _ (rel_rekeyAB S a b c hrel) hleg (by simpa [countAB] using hbA) (by simpa [countBA] using hbB)
    | rekeyBA =>
      unfold sysRun Chan.run
      simp only [sysStep, Chan.step]
      congr 1
      exact ih _ _ _ (rel_rekeyBA S a b c hrel) hleg (by simpa [countAB] using hbA) (by simpa [countBA] using hbB)

/-- The channel's counters are moved by messages only and its keys by rekeys only: after any
    history the counter of a direction is the number of its messages, the key is `REKEY` iterated
    as often as the direction was rekeyed. -/
def rekeysAB : List Op → Nat
  | [] => 0
  | .rekeyAB :: os => rekeysAB os + 1
  | _ :: os => rekeysAB os

def Chan.after (S : Suite) : Chan → List Op → Chan
  | c, [] => c
  | c, o :: os => Chan.after S (c.step S o).1 os

theorem chan_after_AB (S : Suite) (ops : List Op) : ∀ (c : Chan),
    (Chan.after S c ops).kAB = iter (Spec.rekey S) (rekeysAB ops) c.kAB ∧
    (Chan.after S c ops).nAB = c.nAB + UInt64.ofNat (countAB ops) := by
  induction ops with
  | nil => intro c; simp [Chan.after, rekeysAB, countAB, iter]
  | cons o os ih =>
    intro c
    cases o <;> simp only [Chan.after, Chan.step, rekeysAB, countAB, iter] <;> rw [(ih _).1, (ih _).2] <;> simp
    · rw [UInt64.add_assoc]; congr 1
      apply UInt64.toNat_inj.mp
      simp [UInt64.toNat_add, UInt64.toNat_ofNat']
      omega

/-- Paired fresh transport states (both counters 0, two-way pattern) are related to the channel of
    their two keys. -/
theorem rel_of_paired (a b : TS) (hp : Paired a b) (ha : CanSend a ∧ CanRecv a) (hb : CanSend b ∧ CanRecv b)
    (hn : a.sendCs.n = 0 ∧ a.recvCs.n = 0 ∧ b.sendCs.n = 0 ∧ b.recvCs.n = 0) :
    Rel a b { kAB := a.sendCs.key, nAB := 0, kBA := b.sendCs.key, nBA := 0 } := by
  obtain ⟨k1, k2⟩ := paired_keys a b hp
  exact ⟨⟨rfl, k1.symm, hn.1, hn.2.2.2, ha.1, hb.2⟩, ⟨rfl, k2, hn.2.2.1, hn.2.1, hb.1, ha.2⟩⟩

/-! ### One-way sessions: initiator to responder only -/

def OnlyAB : List Op → Prop
  | [] => True
  | .sendAB _ :: os => OnlyAB os
  | .rekeyAB :: os => OnlyAB os
  | _ :: _ => False

theorem oneway_history (S : Suite) (hde : S.DecEnc) (hel : S.EncLen) (ops : List Op) :
    ∀ (a b : TS) (c : Chan), DirRel a b c.kAB c.nAB → OnlyAB ops → Legal ops →
      c.nAB.toNat + countAB ops ≤ 2 ^ 64 - 1 →
      sysRun S a b ops = Chan.run S c ops := by
  induction ops with
  | nil => intros; rfl
  | cons o os ih =>
    intro a b c hrel honly hleg hbA
    cases o with
    | sendAB p =>
      obtain ⟨hl, hleg'⟩ := hleg
      have hn : c.nAB ≠ MAXN := ne_max_of_budget _ _ (by simpa [countAB] using hbA)
      have hd := deliver_ok S hde hel a b c.kAB c.nAB hrel p hl hn
      unfold sysRun Chan.run
      simp only [sysStep, Chan.step, hd]
      congr 1
      apply ih _ _ _ (dirRel_after_deliver_same a b _ _ hrel) honly hleg' ?_
      simp only; rw [toNat_succ' _ hn]; simp [countAB] at hbA; omega
    | sendBA p => exact absurd honly (by simp [OnlyAB])
    | rekeyAB =>
      unfold sysRun Chan.run
      simp only [sysStep, Chan.step]
      congr 1
      apply ih _ _ _ ?_ honly hleg (by simpa [countAB] using hbA)
      obtain ⟨h1, h2, h3, h4, h5, h6⟩ := hrel
      obtain ⟨o1, o2, o3, o4, o5, o6⟩ := rekey_outgoing_spec S a
      obtain ⟨i1, i2, i3, i4, i5, i6⟩ := rekey_incoming_spec S b
      unfold DirRel CanSend CanRecv at *
      exact ⟨by rw [o1, h1], by rw [i1, h2], by rw [o2, h3], by rw [i2, h4], by rw [o6, o4, o5]; exact h5,
             by rw [i6, i4, i5]; exact h6⟩
    | rekeyBA => exact absurd honly (by simp [OnlyAB])

/-! ### Out of sync: every later message of the direction is rejected, with no effect -/

/-- As long as the sender's and the receiver's key for a direction differ (one-sided rekey,
    different manual keys), each message the sender writes is rejected by the receiving read,
    which leaves the receiver unchanged -- or the message is a ciphertext valid under two
    different keys. Holds at every point of any history (it assumes nothing about how the
    states were reached), in particular after any number of further messages and rekeys that
    keep the keys different. -/
theorem desync_history (S : Suite) (hs : S.DecSound) (a b : TS) (hb : CanRecv b)
    (hne : a.sendCs.key ≠ b.recvCs.key) (n : UInt64) (p : Bytes) (capr : Nat) :
    (∃ e, (b.readMessage S (S.enc a.sendCs.key n [] p) capr).1 = .err e ∧
      (b.readMessage S (S.enc a.sendCs.key n [] p) capr).2.1 = b) ∨
    ∃ q, S.enc a.sendCs.key n [] p = S.enc b.recvCs.key b.recvCs.n [] q := by
  cases hr : b.readMessage S (S.enc a.sendCs.key n [] p) capr with
  | mk r rest =>
    obtain ⟨b', buf, ev⟩ := rest
    cases r with
    | ok q =>
      right
      have := (t_read_ok_iff S b hb _ capr q).mp ⟨_, _, _, hr⟩
      exact ⟨q, hs _ _ _ _ _ this.2⟩
    | err e =>
      left
      exact ⟨e, rfl, C05.t_read_err_noop S b _ capr e b' buf ev hr⟩
    | panic z =>
      have := C10.t_read_total S b (S.enc a.sendCs.key n [] p) capr
      rw [hr] at this
      simp [Res.isPanic] at this

/-! ### Non-vacuity: a concrete session of the toy suite -/
namespace ExHist
def S0 : Suite := Toy.suite 0 0 0
def k1 : Bytes := List.replicate 32 1
def k2 : Bytes := List.replicate 32 2
def a0 : TS := { cs1 := { key := k1, n := 0, hasKey := true }, cs2 := { key := k2, n := 0, hasKey := true },
                 oneway := false, pubLen := 32, rs := { val := [], on := false }, initiator := true }
def b0 : TS := { a0 with initiator := false }
def c0 : Chan := { kAB := k1, nAB := 0, kBA := k2, nBA := 0 }
def ops0 : List Op := [.sendAB [1], .rekeyAB, .sendBA [2, 3], .sendAB [], .rekeyBA, .rekeyAB, .sendBA [4], .sendAB [5]]

/-- The hypotheses of `sync_history` hold for this pair ... -/
example : Rel a0 b0 c0 := by unfold Rel DirRel CanSend CanRecv; decide
example : Legal ops0 := by simp [Legal, ops0]
/-- ... and (a test, not the theorem) the two runs really coincide and deliver five messages. -/
example : sysRun S0 a0 b0 ops0 = Chan.run S0 c0 ops0 ∧ ((sysRun S0 a0 b0 ops0).filter Option.isSome).length = 5 := by
  decide +kernel
/-- A one-sided rekey: the next message of that direction is rejected and the receiver is unchanged
    (the left branch of `desync_history` is the one that happens). -/
example : (b0.readMessage S0 (S0.enc ((a0.rekeyOutgoing S0).1.sendCs.key) 0 [] [9]) 1).1 = .err .decrypt ∧
          (b0.readMessage S0 (S0.enc ((a0.rekeyOutgoing S0).1.sendCs.key) 0 [] [9]) 1).2.1 = b0 := by
  decide +kernel
end ExHist

end SnowVerif.Theorems.C15
