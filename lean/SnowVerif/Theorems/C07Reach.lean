/-
  C07 for every history from every built state, without side conditions.

  `Theorems/C07.lean` proves "a failed handshake call is a no-op" and "deleting the failed calls of
  a history changes nothing" under two side conditions: `SymInv` at the start and `NoReE` ("the
  current message does not generate a live ephemeral a second time") in EVERY state the history
  passes through.  `NoReE` is false in perfectly ordinary states: after an XX initiator has written
  message 1 its `e` is on, and the next message (which it READS) contains the responder's `e`
  token.  Nothing can go wrong there: a `write_message` call in that state is rejected by the turn
  check before anything happens.

  This file
   1. replaces `NoReE` by `NoReW` (the condition only in states in which it is this party's turn to
      write): `hs_write_err_noop'`, `exec_failed_noop'`, `failed_calls_deletable'`;
   2. shows that `NoReW` and `SymInv` hold in every state of every panic-free history that starts
      in ANY state `Builder::build` returns (`einv_built`, `noReW_along_built`): the invariant is
      "if `e` is on and not fixed, none of the messages this party still has to write contains an
      `e` token"; it rests on the table fact `table_once` (no party writes `e` twice; `decide` over
      all rows of the generated table, both roles) lifted to all modifier lists (psk modifiers add
      only `psk` tokens);
   3. concludes `failed_calls_deletable_built` (no hypothesis besides `build = ok` and "no call of
      the history panics"), the single-call corollaries `write_err_noop_built`,
      `read_err_noop_built`, and `failed_calls_deletable_built_total` where "no call panics" is
      discharged by C10 under the suite laws `PubLen`, `PrivTotal`;
   4. gives a concrete XX initiator without fixed ephemeral: after message 1 `NoReE` is false and
      `NoReW` holds; a history with four failing calls evaluated in the kernel.

  Why panics are excluded: a call that panics (`Dh::generate` rejecting a drawn key, P-256 only, see
  C10) is not rolled back by `write_message`, so the state it leaves is outside the scope of C07.
-/
import SnowVerif.Lemmas.C07ReachInv
import SnowVerif.Lemmas.C07ReachTotal
import SnowVerif.Theorems.C14

namespace SnowVerif.Theorems.C07Reach
open SnowVerif SnowVerif.Model SnowVerif.Model.HS SnowVerif.Generated
open SnowVerif.Theorems.C07
open SnowVerif.Lemmas.C07Reach
set_option autoImplicit false
set_option linter.unusedVariables false
set_option linter.unusedSimpArgs false

/-! ## 1. The failed-call theorems under `NoReW`

  `NoReW hs := hs.myTurn = true → NoReE hs` (defined in `Lemmas/C07ReachNoop.lean`). -/

example (hs : HS) : NoReW hs ↔ (hs.myTurn = true → hs.e.on = true →
    hs.fixedE = true ∨ Tok.e ∉ hs.msgs.getD hs.pos []) := Iff.rfl

/-- **A failed handshake write is a no-op** (`Equiv`: every field equal except the read position of
    the random source, a disabled non-fixed ephemeral's contents, and an unkeyed cipher's
    key/nonce), demanding "no second `e`" only when it is this party's turn to write: off turn,
    `write_message` returns `State(NotTurnToWrite)` without touching the state. -/
theorem hs_write_err_noop' (S : Suite) (hs : HS) (inv : SymInv hs.sym) (hne : NoReW hs)
    (p : Bytes) (cap : Nat) (e : Err) (hs' : HS) (acc : Bytes) (ev : List Event)
    (h : hs.writeMessage S p cap = (.err e, hs', acc, ev)) : Equiv hs hs' :=
  Lemmas.C07Reach.hs_write_err_noop' S hs inv hne p cap e hs' acc ev h

/-- A failed call (write, read or `set_psk`, any arguments) leaves an equivalent state. -/
theorem exec_failed_noop' (S : Suite) (hs : HS) (op : Op) (inv : SymInv hs.sym) (hne : NoReW hs)
    (hf : (exec S hs op).1.failed = true) : Equiv hs (exec S hs op).2 :=
  Lemmas.C07Reach.exec_failed_noop' S hs op inv hne hf

/-- **For every history, deleting the failed calls changes nothing** (same results for all
    surviving calls, equivalent final states), with `NoReW` along the history instead of `NoReE`. -/
theorem failed_calls_deletable' (S : Suite) (ops : List Op) (a b : HS) (h : Equiv a b)
    (ia : SymInv a.sym) (ib : SymInv b.sym) (hne : Along NoReW S a ops) :
    (run S b (survivors S a ops)).1 = ((run S a ops).1.filter fun o => !o.failed) ∧
    Equiv (run S a ops).2 (run S b (survivors S a ops)).2 :=
  Lemmas.C07Reach.failed_calls_deletable' S ops a b h ia ib hne

/-- The old side condition implies the new one (so `C07.failed_calls_deletable` is an instance). -/
theorem along_NoReW_of_NoReE (S : Suite) (ops : List Op) (hs : HS) (h : Along NoReE S hs ops) :
    Along NoReW S hs ops :=
  Along.mono (fun _ h => NoReW_of_NoReE h) S ops hs h

/-! ## 2. Reachability: the side conditions hold from every built state

  `NoPanics S hs ops := ∀ o ∈ (run S hs ops).1, o.panicked = false`: no call of the history
  returned a Rust panic (`Lemmas/C07ReachInv.lean`). -/

example (S : Suite) (hs : HS) (ops : List Op) :
    NoPanics S hs ops ↔ ∀ o ∈ (run S hs ops).1, Obs.panicked o = false := Iff.rfl

/-- No party writes `e` twice: for every row of the generated table, both roles, and every list
    of modifiers `HandshakeTokens::try_from` accepts. -/
theorem no_party_writes_e_twice (p : Pattern) (mods : List Modifier) (inst : Inst)
    (h : handshakeTokens p mods = .ok inst) (mine : Bool) : onceE mine (eFlags inst.msgs) = true :=
  handshakeTokens_once h mine

/-- Every state `Builder::build` returns — any suite (no law needed), any resolver availability,
    any configuration — satisfies the invariant `EInv`; in particular `SymInv` and `NoReW`. -/
theorem einv_built (S : Suite) (av : Avail) (c : BuildCfg) (hs0 : HS) (hb : build S av c = .ok hs0) :
    EInv hs0 ∧ SymInv hs0.sym ∧ NoReW hs0 :=
  have h := einv_build hb
  ⟨h, h.sym, h.noReW⟩

/-- **Both side conditions of the failed-call theorems hold in every state of every panic-free
    history from every built state** (calls with any arguments, failures and retries included). -/
theorem noReW_along_built (S : Suite) (av : Avail) (c : BuildCfg) (hs0 : HS)
    (hb : build S av c = .ok hs0) (ops : List Op) (np : NoPanics S hs0 ops) :
    Along NoReW S hs0 ops ∧ Along (fun hs => SymInv hs.sym) S hs0 ops := by
  have h := einv_along S ops hs0 (einv_build hb) np
  exact ⟨Along.mono (fun _ h => h.noReW) S ops hs0 h, Along.mono (fun _ h => h.sym) S ops hs0 h⟩

/-- The state after any panic-free history from a built state satisfies the invariant. -/
theorem einv_reached (S : Suite) (av : Avail) (c : BuildCfg) (hs0 : HS)
    (hb : build S av c = .ok hs0) (ops : List Op) (np : NoPanics S hs0 ops) :
    EInv (run S hs0 ops).2 :=
  Along.last S ops hs0 (einv_along S ops hs0 (einv_build hb) np)

/-! ## 3. C07 from built states, without side conditions -/

/-- **MAIN THEOREM.** For every state `hs0` that `Builder::build` returns (any pattern, modifiers,
    role, keys, psks, prologue, fixed ephemeral or not; any suite, no law assumed) and every history
    `ops` of `write_message` / `read_message` / `set_psk` calls with any arguments and any random
    streams in which no call panics: running the whole history and running only the calls that did
    not fail give the same results for the surviving calls (outcomes, output bytes, cipher calls,
    random draws) and equivalent final states — same handshake hash, same transport keys. -/
theorem failed_calls_deletable_built (S : Suite) (av : Avail) (c : BuildCfg) (hs0 : HS)
    (hb : build S av c = .ok hs0) (ops : List Op) (np : NoPanics S hs0 ops) :
    (run S hs0 (survivors S hs0 ops)).1 = ((run S hs0 ops).1.filter fun o => !o.failed) ∧
    Equiv (run S hs0 ops).2 (run S hs0 (survivors S hs0 ops)).2 := by
  have h0 := einv_build hb
  exact failed_calls_deletable' S ops hs0 hs0 (Equiv.refl _) h0.sym h0.sym
    (noReW_along_built S av c hs0 hb ops np).1

/-- ... and everything a caller can observe of the two final states coincides, including the
    transport state they convert to. -/
theorem failed_calls_deletable_built_observables (S : Suite) (av : Avail) (c : BuildCfg) (hs0 : HS)
    (hb : build S av c = .ok hs0) (ops : List Op) (np : NoPanics S hs0 ops) :
    (run S hs0 ops).2.getHandshakeHash = (run S hs0 (survivors S hs0 ops)).2.getHandshakeHash ∧
    (run S hs0 ops).2.isMyTurn = (run S hs0 (survivors S hs0 ops)).2.isMyTurn ∧
    (run S hs0 ops).2.isHandshakeFinished = (run S hs0 (survivors S hs0 ops)).2.isHandshakeFinished ∧
    (run S hs0 ops).2.getRemoteStatic S = (run S hs0 (survivors S hs0 ops)).2.getRemoteStatic S ∧
    TS.ofHandshake S (run S hs0 ops).2 = TS.ofHandshake S (run S hs0 (survivors S hs0 ops)).2 := by
  have h := equiv_observables S (failed_calls_deletable_built S av c hs0 hb ops np).2
  exact ⟨h.2.2.2.2.1, h.1, h.2.1, h.2.2.2.2.2.1, h.2.2.2.2.2.2⟩

/-- **A failed `write_message` in any state reached from a built one is a no-op.** -/
theorem write_err_noop_built (S : Suite) (av : Avail) (c : BuildCfg) (hs0 : HS)
    (hb : build S av c = .ok hs0) (ops : List Op) (np : NoPanics S hs0 ops)
    (p : Bytes) (cap : Nat) (e : Err) (hs' : HS) (acc : Bytes) (ev : List Event)
    (h : (run S hs0 ops).2.writeMessage S p cap = (.err e, hs', acc, ev)) :
    Equiv (run S hs0 ops).2 hs' := by
  have hi := einv_reached S av c hs0 hb ops np
  exact hs_write_err_noop' S _ hi.sym hi.noReW p cap e hs' acc ev h

/-- **A failed `read_message` in any state reached from a built one is a no-op**; the random
    source, the local ephemeral and `rs`/`re` are restored bit for bit. -/
theorem read_err_noop_built (S : Suite) (av : Avail) (c : BuildCfg) (hs0 : HS)
    (hb : build S av c = .ok hs0) (ops : List Op) (np : NoPanics S hs0 ops)
    (m : Bytes) (cap : Nat) (e : Err) (hs' : HS) (buf : Bytes) (ev : List Event)
    (h : (run S hs0 ops).2.readMessage S m cap = (.err e, hs', buf, ev)) :
    Equiv (run S hs0 ops).2 hs' ∧ hs'.rng = (run S hs0 ops).2.rng ∧ hs'.e = (run S hs0 ops).2.e ∧
    hs'.rs = (run S hs0 ops).2.rs ∧ hs'.re = (run S hs0 ops).2.re := by
  have hi := einv_reached S av c hs0 hb ops np
  exact hs_read_err_noop S _ hi.sym m cap e hs' buf ev h

/-- The retry after a failed write in a reached state behaves as if the failed call had never been
    made (any later arguments, any future random stream). -/
theorem retry_after_failed_write_built (S : Suite) (av : Avail) (c : BuildCfg) (hs0 : HS)
    (hb : build S av c = .ok hs0) (ops : List Op) (np : NoPanics S hs0 ops)
    (p : Bytes) (cap : Nat) (e : Err) (hs' : HS) (acc : Bytes) (ev : List Event)
    (h : (run S hs0 ops).2.writeMessage S p cap = (.err e, hs', acc, ev)) (R p2 : Bytes) (cap2 : Nat) :
    (({ (run S hs0 ops).2 with rng := R } : HS).writeMessage S p2 cap2).1 =
      (({ hs' with rng := R } : HS).writeMessage S p2 cap2).1 ∧
    (({ (run S hs0 ops).2 with rng := R } : HS).writeMessage S p2 cap2).2.2 =
      (({ hs' with rng := R } : HS).writeMessage S p2 cap2).2.2 ∧
    Equiv (({ (run S hs0 ops).2 with rng := R } : HS).writeMessage S p2 cap2).2.1
      (({ hs' with rng := R } : HS).writeMessage S p2 cap2).2.1 := by
  have hi := einv_reached S av c hs0 hb ops np
  have hE := Equiv_withRng (write_err_noop_built S av c hs0 hb ops np p cap e hs' acc ev h) R
  have hinv' : SymInv hs'.sym := by
    have := writeMessage_inv S (run S hs0 ops).2 p cap hi.sym
    rw [h] at this; exact this
  have := writeMessage_equiv S hE rfl hi.sym hinv' p2 cap2
  exact ⟨this.1, this.2.2.2, this.2.1⟩

/-! ### Without the no-panic hypothesis (C10) -/

/-- Under the suite laws of C10 (`PubLen`: derived public keys have the advertised length;
    `PrivTotal`: every drawn private key is accepted — true for 25519, false for P-256) and the
    builder's 10 psk slots, no call of any history from a built state panics. -/
theorem noPanics_built (S : Suite) (av : Avail) (c : BuildCfg) (hs0 : HS) (hpl : S.PubLen)
    (hpt : S.PrivTotal) (hpsk : c.psks.length = 10) (hb : build S av c = .ok hs0) (ops : List Op) :
    NoPanics S hs0 ops :=
  noPanics_of_inv S ops hs0 hpl hpt (Theorems.C10.inv_build S av c hs0 hpl hpsk hb)

/-- **C07 for every history from every built state, no side condition at all** (suite laws
    `PubLen`, `PrivTotal`). -/
theorem failed_calls_deletable_built_total (S : Suite) (av : Avail) (c : BuildCfg) (hs0 : HS)
    (hpl : S.PubLen) (hpt : S.PrivTotal) (hpsk : c.psks.length = 10)
    (hb : build S av c = .ok hs0) (ops : List Op) :
    (run S hs0 (survivors S hs0 ops)).1 = ((run S hs0 ops).1.filter fun o => !o.failed) ∧
    Equiv (run S hs0 ops).2 (run S hs0 (survivors S hs0 ops)).2 :=
  failed_calls_deletable_built S av c hs0 hb ops (noPanics_built S av c hs0 hpl hpt hpsk hb ops)

/-- With a fixed ephemeral (`fixed_ephemeral_key_for_testing_only`) `PrivTotal` is not needed:
    nothing is ever drawn. -/
theorem noPanics_built_fixed (S : Suite) (av : Avail) (c : BuildCfg) (hs0 : HS) (hpl : S.PubLen)
    (hfix : c.eFixed.isSome = true) (hpsk : c.psks.length = 10) (hb : build S av c = .ok hs0)
    (ops : List Op) : NoPanics S hs0 ops := by
  have hi0 := Theorems.C10.inv_build S av c hs0 hpl hpsk hb
  have hf0 : hs0.fixedE = true := by
    obtain ⟨inst, sym, _, _, rfl⟩ := Lemmas.C10.build_ok hb
    exact hfix
  clear hb
  induction ops generalizing hs0 with
  | nil => intro o ho; simp [run] at ho
  | cons op ops ih =>
    have hstep : Lemmas.C10.Inv S (exec S hs0 op).2 := c10inv_exec S hs0 op hpl hi0
    have hfx : (exec S hs0 op).2.fixedE = true := by
      have hE : (exec S hs0 op).2.fixedE = hs0.fixedE := by
        cases op with
        | write R p cap =>
          have hf := writeInner_frame S ({ hs0 with rng := R } : HS) p cap
          simp only at hf
          simp only [exec]
          unfold writeMessage
          simp only
          repeat' split
          all_goals exact hf.2.2.2.2.2.2.2.1
        | read m cap =>
          have hf := readInner_frame S hs0 m cap
          simp only at hf
          simp only [exec]
          unfold readMessage
          simp only
          repeat' split
          all_goals exact hf.2.2.2.2.2.2.2.1
        | setPsk loc key =>
          simp only [exec, HS.setPsk]
          split <;> rfl
      rw [hE]; exact hf0
    intro o ho
    simp only [run, List.mem_cons] at ho
    rcases ho with rfl | ho
    · cases op with
      | write R p cap =>
        exact Theorems.C10.hs_write_total_fixed S _ p cap (c10inv_withRng hi0 R) hf0
      | read m cap => exact Theorems.C10.hs_read_total S hs0 m cap hi0
      | setPsk loc key => exact (Theorems.C10.set_psk_total hs0 loc key).2
    · exact ih _ hstep hfx o ho

/-! ## 4. Non-vacuity: a built XX initiator WITHOUT fixed ephemeral (toy suite `Toy.suite 0 0 0`) -/

namespace Ex
open SnowVerif.Theorems.C14.Ex

deriving instance DecidableEq for SnowVerif.Theorems.C07.Op

def av : Avail := ⟨true, true, true, true⟩

/-- `Noise_XX`, initiator, static key, no fixed ephemeral: the ephemeral is drawn from `rng`. -/
def cfg : BuildCfg :=
  { pattern := .pXX, mods := [], name := [78, 111, 105, 115, 101], initiator := true,
    s := some (List.replicate 32 1), eFixed := none, rs := none, psks := List.replicate 10 none,
    prologue := [], rng := List.replicate 32 7 }

/-- `C14.Ex.i0` is the state `Builder::build` returns for `cfg`. -/
theorem build_i0 : build S0 av cfg = .ok i0 := by decide +kernel

def R7 : Bytes := List.replicate 32 7

/-- The initiator after it has written message 1 (`-> e`). -/
def j1 : HS := (run S0 i0 [.write R7 [] 1000]).2

theorem j1_facts :
    (exec S0 i0 (.write R7 [] 1000)).1.failed = false ∧ (exec S0 i0 (.write R7 [] 1000)).1.panicked = false ∧
    j1.e.on = true ∧ j1.fixedE = false ∧ j1.myTurn = false ∧ j1.msgs.getD j1.pos [] = [.e, .ee, .s, .es] := by
  decide +kernel

/-- In that (reachable) state the old side condition `NoReE` is FALSE: the ephemeral is on, not
    fixed, and the current message (message 2, which this party reads) contains an `e` token ... -/
theorem j1_not_NoReE : ¬ NoReE j1 := by
  intro h
  rcases h j1_facts.2.2.1 with h | h
  · rw [j1_facts.2.2.2.1] at h; cases h
  · rw [j1_facts.2.2.2.2.2] at h; exact h (by decide)

/-- ... while `NoReW` holds (it is not this party's turn), as `einv_reached` says it must. -/
theorem j1_NoReW : NoReW j1 := fun h => by rw [j1_facts.2.2.2.2.1] at h; cases h

theorem j1_np : NoPanics S0 i0 [.write R7 [] 1000] := by
  intro o ho
  simp only [run, List.mem_cons, List.not_mem_nil, or_false] at ho
  rw [ho]; exact j1_facts.2.1

example : NoReW j1 := (einv_reached S0 av cfg i0 build_i0 _ j1_np).noReW

/-- A `write_message` in that state fails (`NotTurnToWrite`); `write_err_noop_built` applies to it
    although `C07.hs_write_err_noop` does not. -/
example : (j1.writeMessage S0 [1] 1000).1 = .err (.state .notTurnToWrite) := by decide +kernel
example (e : Err) (hs' : HS) (acc : Bytes) (ev : List Event)
    (h : j1.writeMessage S0 [1] 1000 = (.err e, hs', acc, ev)) : Equiv j1 hs' :=
  write_err_noop_built S0 av cfg i0 build_i0 _ j1_np [1] 1000 e hs' acc ev h

/-- Message 2 as the responder `C14.Ex.r0` wrote it in reply to the initiator's message 1. -/
def msg2 : Bytes := (w2 1000).2.2.1

/-- A history of the built initiator with four failing calls: message 1; a write out of turn (in
    the state `j1` where `NoReE` is false); a truncated message 2 (fails after the peer's `e` was
    stored and a key installed); the genuine message 2; message 3 into a 60-byte buffer (fails
    with `Input` after encrypting `s`); a `set_psk` with a bad key; the retry of message 3. -/
def ops : List Op :=
  [.write R7 [] 1000, .write [5, 5] [1] 1000, .read (msg2.take 50) 1000, .read msg2 1000,
   .write [] [1, 2, 3] 60, .setPsk 0 [], .write [] [9, 9] 1000]

/-- One kernel evaluation of the scenario: which calls fail; the surviving calls; the conclusion
    of `failed_calls_deletable_built` computed directly (same observations, same handshake hash,
    handshake finished in both runs); no call panics. -/
theorem scenario :
    (run S0 i0 ops).1.map Obs.failed = [false, true, true, false, true, true, false] ∧
    survivors S0 i0 ops = [.write R7 [] 1000, .read msg2 1000, .write [] [9, 9] 1000] ∧
    (run S0 i0 (survivors S0 i0 ops)).1 = ((run S0 i0 ops).1.filter fun o => !o.failed) ∧
    (run S0 i0 ops).2.getHandshakeHash = (run S0 i0 (survivors S0 i0 ops)).2.getHandshakeHash ∧
    (run S0 i0 ops).2.isHandshakeFinished = true ∧
    (run S0 i0 ops).1.all (fun o => !o.panicked) = true := by decide +kernel

theorem ops_np : NoPanics S0 i0 ops := by
  intro o ho
  have := List.all_eq_true.mp scenario.2.2.2.2.2 o ho
  simpa using this

/-- The main theorem applied to this history (its hypotheses are satisfiable with failing calls in
    a state where `NoReE` is false), and without the no-panic hypothesis via C10. -/
example :
    (run S0 i0 (survivors S0 i0 ops)).1 = ((run S0 i0 ops).1.filter fun o => !o.failed) ∧
    Equiv (run S0 i0 ops).2 (run S0 i0 (survivors S0 i0 ops)).2 :=
  failed_calls_deletable_built S0 av cfg i0 build_i0 ops ops_np

example (ops' : List Op) :
    (run S0 i0 (survivors S0 i0 ops')).1 = ((run S0 i0 ops').1.filter fun o => !o.failed) ∧
    Equiv (run S0 i0 ops').2 (run S0 i0 (survivors S0 i0 ops')).2 :=
  failed_calls_deletable_built_total S0 av cfg i0 Theorems.C10.toy_pubLen Theorems.C10.toy_privTotal
    (by decide) build_i0 ops'

/-- The old theorem's hypothesis fails on this history (so it did not cover it). -/
example : ¬ Along NoReE S0 i0 ops := fun h => j1_not_NoReE h.2.1

/-- With a fixed ephemeral no suite law about private keys is needed (`noPanics_built_fixed`):
    every history from this built state satisfies the conclusion. -/
example (ops' : List Op) : ∃ hs0, build S0 av { cfg with eFixed := some (List.replicate 32 3) } = .ok hs0 ∧
    (run S0 hs0 (survivors S0 hs0 ops')).1 = ((run S0 hs0 ops').1.filter fun o => !o.failed) ∧
    Equiv (run S0 hs0 ops').2 (run S0 hs0 (survivors S0 hs0 ops')).2 := by
  obtain ⟨hs0, h⟩ := Theorems.C10.isOk_exists
    (r := build S0 av { cfg with eFixed := some (List.replicate 32 3) }) (by decide +kernel)
  exact ⟨hs0, h, failed_calls_deletable_built S0 av _ hs0 h ops'
    (noPanics_built_fixed S0 av _ hs0 Theorems.C10.toy_pubLen rfl (by decide) h ops')⟩

end Ex

end SnowVerif.Theorems.C07Reach
