/-
  C02 with the EXACT size conditions (audit finding F3).

  `C02.honest_handshake` / `C02Build.honest_handshake_built` / `_of_build` are stated for plans
  satisfying `PlanOk`, which charges EVERY token `pubLen + 16` bytes although `ee/es/se/ss/psk`
  put nothing on the wire; payload sizes next to the 65535-byte limit were therefore outside the
  theorems (XX message 2 with 25519: real overhead 96, charged 208: payloads 65328..65439).

  Here the same theorems are proved for every plan satisfying `PlanOkExact`: per message
    * the message snow produces (`Framing.msgLen`) is at most 65535 bytes,
    * the writer's buffer holds the fixed fields (`Framing.fieldsLen`), the payload and 16 bytes,
    * the reader's buffer holds the payload,
  with `has_key` threaded from message to message (`Framing.keyedAfter`).  These are exactly the
  size checks snow makes (`C14.write_len`, `C14.write_too_big`, `C01Complete.write_ok_iff`,
  `read_ok_iff`), so no payload length that snow accepts in an honest run is left out:
  `exchange_planOkExact` shows that each clause is necessary for the honest exchange to succeed, and
  `honest_exchange_of_build_iff` states the equivalence for built sessions.
  The old theorems are instances (`planOkExact_of_planOk`, `honest_handshake_of_planOk`).
-/
import SnowVerif.Lemmas.HonestExactExch
import SnowVerif.Lemmas.HonestExactNec
import SnowVerif.Theorems.C02Build
import SnowVerif.Theorems.C14

namespace SnowVerif.Theorems.C02Exact
open SnowVerif SnowVerif.Model SnowVerif.Model.HS SnowVerif.Model.TS SnowVerif.Generated SnowVerif.Bytes
open SnowVerif.Framing SnowVerif.Theorems.C04 SnowVerif.Theorems.C02 SnowVerif.Theorems.C02Build
set_option linter.unusedVariables false
set_option linter.unusedSimpArgs false

/-- **Honest exchange, exact sizes** (restatement of `HS.honest_exchange_exact` in this namespace):
    from any pair of honest parties in lockstep, for every suite with the stated laws and every
    remaining message list the validity rules accept, every plan satisfying the exact size
    conditions is exchanged successfully: each write returns the message length, each read
    returns the written payload, and the parties stay in lockstep. -/
theorem honest_exchange_exact (S : Suite) (hEL : S.EncLen) (hDE : S.DecEnc) (hPL : S.PubLen) (hPT : S.PrivTotal)
    (hDC : S.DhComm) (hDT : S.DhTotal) (rem : List (List Tok))
    (ini : Bool) (k kf : Spec.Keys) (A B : HS) (plan : List (Bytes × Nat × Nat))
    (hsync : Sync S k A B) (hctl : Ctl A B) (okA : PartyOk S A) (okB : PartyOk S B)
    (htA : A.myTurn = ini) (htB : B.myTurn = !ini) (hpos : A.pos ≤ A.msgs.length)
    (hrem : A.msgs.drop A.pos = rem)
    (hk : Spec.Keys.runMsgs ini k rem = some kf)
    (hst : StaticsOk ini rem A.s.on B.s.on)
    (hpsk : ∀ n m, m ∈ rem → Tok.psk n ∈ m → n < 10 ∧ ∃ key, A.psks.getD n none = some key)
    (hn : A.sym.cs.n.toNat + totalFields rem < 2 ^ 64 - 1)
    (hplan : PlanOkExact S A.isPsk A.sym.hasKey rem plan) :
    ∃ A' B', exchange S ini A B plan = some (A', B') ∧ Sync S kf A' B' ∧ Ctl A' B' ∧
      A'.pos = A.msgs.length ∧ A'.msgs = A.msgs ∧ PartyOk S A' ∧ PartyOk S B' ∧
      A'.s = A.s ∧ B'.s = B.s ∧
      (rem ≠ [] → A'.cs1 = (A'.sym.split S).1 ∧ A'.cs2 = (A'.sym.split S).2) :=
  HS.honest_exchange_exact S hEL hDE hPL hPT hDC hDT rem ini k kf A B plan hsync hctl okA okB htA htB hpos
    hrem hk hst hpsk hn hplan

/-- **Honest handshake, exact sizes.**  Statement of `C02.honest_handshake` with `PlanOkExact`
    (threaded from the initiator's `is_psk` and `has_key`) in place of `PlanOk`: for every pattern
    instance the validity rules accept, every suite with the stated laws, consistent parties and
    every payload/buffer plan that passes the size checks snow really makes, every write and read
    of the honest exchange returns `ok`, each read returns the written payload, both sides finish,
    report the same handshake hash and convert to transport states holding the same pair of keys
    with counters 0.  In particular the payload of each message may be as long as the 65535-byte
    limit on the message allows. -/
theorem honest_handshake_exact (S : Suite) (hEL : S.EncLen) (hDE : S.DecEnc) (hPL : S.PubLen) (hPT : S.PrivTotal)
    (hDC : S.DhComm) (hDT : S.DhTotal)
    (inst : Inst) (hv : Spec.valid inst = true) (k0 : Spec.Keys) (hk0 : preKeys inst = some k0)
    (A B : HS) (hc : Consistent S inst k0 A B) (hsmall : totalFields inst.msgs < 2 ^ 64 - 1)
    (plan : List (Bytes × Nat × Nat)) (hplan : PlanOkExact S A.isPsk A.sym.hasKey inst.msgs plan) :
    ∃ A' B' kf, exchange S true A B plan = some (A', B') ∧ Sync S kf A' B' ∧
      A'.isHandshakeFinished = true ∧ B'.isHandshakeFinished = true ∧
      A'.getHandshakeHash = B'.getHandshakeHash ∧
      ∃ ta tb, TS.ofHandshake S A' = .ok ta ∧ TS.ofHandshake S B' = .ok tb ∧ Paired ta tb ∧
        ta.sendCs.hasKey = true ∧ ta.recvCs.hasKey = true ∧ tb.sendCs.hasKey = true ∧ tb.recvCs.hasKey = true ∧
        ta.sendCs.n = 0 ∧ ta.recvCs.n = 0 ∧ tb.sendCs.n = 0 ∧ tb.recvCs.n = 0 ∧
        ta.initiator = true ∧ tb.initiator = false := by
  obtain ⟨kf, hkf, hlen⟩ := valid_runMsgs inst hv k0 hk0
  have hdrop : A.msgs.drop A.pos = inst.msgs := by rw [hc.pos0, hc.msgs]; rfl
  have hn0 : A.sym.cs.n.toNat + totalFields inst.msgs < 2 ^ 64 - 1 := by rw [hc.n0]; simpa using hsmall
  obtain ⟨A', B', hex, hs', hc', hp', hm', hoA, hoB, _, _, hcs⟩ :=
    HS.honest_exchange_exact S hEL hDE hPL hPT hDC hDT inst.msgs true k0 kf A B plan hc.sync hc.ctl hc.okA hc.okB
      hc.turnA (by rw [hc.turnB]; rfl) (by rw [hc.pos0]; omega) hdrop hkf hc.statics hc.psks hn0 hplan
  have hne : inst.msgs ≠ [] := by intro h; rw [h] at hlen; simp at hlen
  obtain ⟨hcs1, hcs2⟩ := hcs hne
  have hfinA : A'.isHandshakeFinished = true := by simp [HS.isHandshakeFinished, hp', hm']
  have hfinB : B'.isHandshakeFinished = true := by
    simp [HS.isHandshakeFinished, ← hc'.pos, ← hc'.msgs, hp', hm']
  have hsp := split_installed S A'.sym
  refine ⟨A', B', kf, hex, hs', hfinA, hfinB, by simp [HS.getHandshakeHash, hs'.sym], ?_⟩
  refine ⟨{ cs1 := A'.cs1, cs2 := A'.cs2, oneway := A'.oneway, pubLen := S.pubLen, rs := A'.rs, initiator := A'.initiator },
          { cs1 := B'.cs1, cs2 := B'.cs2, oneway := B'.oneway, pubLen := S.pubLen, rs := B'.rs, initiator := B'.initiator },
          by simp [TS.ofHandshake, hfinA], by simp [TS.ofHandshake, hfinB], ?_, ?_⟩
  · exact ⟨by simp [hs'.ia, hs'.ib], by simp [hc'.cs1], by simp [hc'.cs2]⟩
  · simp only [sendCs, recvCs, hs'.ia, hs'.ib, ↓reduceIte, Bool.false_eq_true, ← hc'.cs1, ← hc'.cs2, hcs1, hcs2]
    exact ⟨hsp.1, hsp.2.1, hsp.2.1, hsp.1, hsp.2.2.1, hsp.2.2.2, hsp.2.2.2, hsp.2.2.1, trivial, trivial⟩

/-- A state returned by `Builder::build` has no cipher key yet, and its `is_psk` flag is
    `HandshakeChoice::is_psk` of the modifier list. -/
theorem built_keyed (S : Suite) (av : Avail) (c : BuildCfg) (hs : HS) (h : build S av c = .ok hs) :
    hs.sym.hasKey = false ∧ hs.isPsk = isPskMods c.mods := by
  obtain ⟨_, _, _, _, _, _, _, _, _, _, _, _, _, _, _, _, _, _, hk, _⟩ := C12.build_initial_state S av c hs h
  obtain ⟨rfl, _, _⟩ := Lemmas.C02Build.build_ok_facts S av c _ h
  exact ⟨hk, rfl⟩

/-- **Honest sessions built by the `Builder` complete, exact sizes.**  Statement of
    `C02Build.honest_handshake_built` with the exact size conditions: the plan has to satisfy
    `PlanOkExact` for the psk mode of the modifier list, starting un-keyed (what `build` returns).
    For every suite with the stated laws, every table pattern and modifier list, every pair of
    matching configurations on which `build` succeeds and every such plan: each write returns the
    message length, each read returns the written payload, both parties finish, report the same
    handshake hash and convert to transport states with the same keys and counters 0. -/
theorem honest_handshake_built_exact (S : Suite) (hEL : S.EncLen) (hDE : S.DecEnc) (hPL : S.PubLen)
    (hPT : S.PrivTotal) (hDC : S.DhComm) (hDT : S.DhTotal)
    (av : Avail) (cI cR : BuildCfg) (hm : Matching S cI cR)
    (A B : HS) (hA : build S av cI = .ok A) (hB : build S av cR = .ok B)
    (hmods : cI.mods.length < 2 ^ 64 - 29)
    (inst : Inst) (hi : handshakeTokens cI.pattern cI.mods = .ok inst)
    (plan : List (Bytes × Nat × Nat)) (hplan : PlanOkExact S (isPskMods cI.mods) false inst.msgs plan) :
    ∃ A' B' kf, exchange S true A B plan = some (A', B') ∧ Sync S kf A' B' ∧
      A'.isHandshakeFinished = true ∧ B'.isHandshakeFinished = true ∧
      A'.getHandshakeHash = B'.getHandshakeHash ∧
      ∃ ta tb, TS.ofHandshake S A' = .ok ta ∧ TS.ofHandshake S B' = .ok tb ∧ Paired ta tb ∧
        ta.sendCs.hasKey = true ∧ ta.recvCs.hasKey = true ∧ tb.sendCs.hasKey = true ∧ tb.recvCs.hasKey = true ∧
        ta.sendCs.n = 0 ∧ ta.recvCs.n = 0 ∧ tb.sendCs.n = 0 ∧ tb.recvCs.n = 0 ∧
        ta.initiator = true ∧ tb.initiator = false := by
  obtain ⟨k0, hk0, hc⟩ := build_consistent S hPL av cI cR hm inst hi A B hA hB
  have hv := C01Patterns.valid_psk _ _ inst hi
  have hsmall : totalFields inst.msgs < 2 ^ 64 - 1 := by
    have := (Lemmas.C02Build.totalFields_inst _ _ inst hi).2
    omega
  obtain ⟨hk, hp⟩ := built_keyed S av cI A hA
  exact honest_handshake_exact S hEL hDE hPL hPT hDC hDT inst hv k0 hk0 A B hc hsmall plan
    (by rw [hk, hp]; exact hplan)

/-- The same with the instance eliminated (statement of `C02Build.honest_handshake_of_build` with
    the exact size conditions): everything is stated on the two configurations and the two built
    states; the plan has to satisfy the exact conditions for the built state's message patterns
    and `is_psk` flag, starting un-keyed. -/
theorem honest_handshake_of_build_exact (S : Suite) (hEL : S.EncLen) (hDE : S.DecEnc) (hPL : S.PubLen)
    (hPT : S.PrivTotal) (hDC : S.DhComm) (hDT : S.DhTotal)
    (av : Avail) (cI cR : BuildCfg) (hm : Matching S cI cR)
    (A B : HS) (hA : build S av cI = .ok A) (hB : build S av cR = .ok B)
    (hmods : cI.mods.length < 2 ^ 64 - 29)
    (plan : List (Bytes × Nat × Nat)) (hplan : PlanOkExact S A.isPsk false A.msgs plan) :
    ∃ A' B' kf, exchange S true A B plan = some (A', B') ∧ Sync S kf A' B' ∧
      A'.isHandshakeFinished = true ∧ B'.isHandshakeFinished = true ∧
      A'.getHandshakeHash = B'.getHandshakeHash ∧
      ∃ ta tb, TS.ofHandshake S A' = .ok ta ∧ TS.ofHandshake S B' = .ok tb ∧ Paired ta tb ∧
        ta.sendCs.hasKey = true ∧ ta.recvCs.hasKey = true ∧ tb.sendCs.hasKey = true ∧ tb.recvCs.hasKey = true ∧
        ta.sendCs.n = 0 ∧ ta.recvCs.n = 0 ∧ tb.sendCs.n = 0 ∧ tb.recvCs.n = 0 ∧
        ta.initiator = true ∧ tb.initiator = false := by
  obtain ⟨inst, hi, hmsgs⟩ := built_inst S av cI A hA
  exact honest_handshake_built_exact S hEL hDE hPL hPT hDC hDT av cI cR hm A B hA hB hmods inst hi plan
    (by rw [hmsgs, ← (built_keyed S av cI A hA).2]; exact hplan)

/-! ## The old theorems are instances -/

/-- `PlanOk` (every token charged `pubLen + 16` bytes) implies the exact conditions, for every psk
    mode and every keyedness at the start. -/
theorem planOkExact_of_planOk (S : Suite) (isPsk k : Bool) (msgs : List (List Tok))
    (plan : List (Bytes × Nat × Nat)) (h : PlanOk S msgs plan) : PlanOkExact S isPsk k msgs plan :=
  HS.planOkExact_of_planOk S isPsk msgs k plan h

/-- `C02.honest_handshake` (same statement) obtained from `honest_handshake_exact`. -/
theorem honest_handshake_of_planOk (S : Suite) (hEL : S.EncLen) (hDE : S.DecEnc) (hPL : S.PubLen) (hPT : S.PrivTotal)
    (hDC : S.DhComm) (hDT : S.DhTotal)
    (inst : Inst) (hv : Spec.valid inst = true) (k0 : Spec.Keys) (hk0 : preKeys inst = some k0)
    (A B : HS) (hc : Consistent S inst k0 A B) (hsmall : totalFields inst.msgs < 2 ^ 64 - 1)
    (plan : List (Bytes × Nat × Nat)) (hplan : PlanOk S inst.msgs plan) :
    ∃ A' B' kf, exchange S true A B plan = some (A', B') ∧ Sync S kf A' B' ∧
      A'.isHandshakeFinished = true ∧ B'.isHandshakeFinished = true ∧
      A'.getHandshakeHash = B'.getHandshakeHash ∧
      ∃ ta tb, TS.ofHandshake S A' = .ok ta ∧ TS.ofHandshake S B' = .ok tb ∧ Paired ta tb ∧
        ta.sendCs.hasKey = true ∧ ta.recvCs.hasKey = true ∧ tb.sendCs.hasKey = true ∧ tb.recvCs.hasKey = true ∧
        ta.sendCs.n = 0 ∧ ta.recvCs.n = 0 ∧ tb.sendCs.n = 0 ∧ tb.recvCs.n = 0 ∧
        ta.initiator = true ∧ tb.initiator = false :=
  honest_handshake_exact S hEL hDE hPL hPT hDC hDT inst hv k0 hk0 A B hc hsmall plan
    (planOkExact_of_planOk S _ _ _ plan hplan)

/-- `C02Build.honest_handshake_of_build` (same statement) obtained from the exact theorem. -/
theorem honest_handshake_of_build_of_planOk (S : Suite) (hEL : S.EncLen) (hDE : S.DecEnc) (hPL : S.PubLen)
    (hPT : S.PrivTotal) (hDC : S.DhComm) (hDT : S.DhTotal)
    (av : Avail) (cI cR : BuildCfg) (hm : Matching S cI cR)
    (A B : HS) (hA : build S av cI = .ok A) (hB : build S av cR = .ok B)
    (hmods : cI.mods.length < 2 ^ 64 - 29)
    (plan : List (Bytes × Nat × Nat)) (hplan : PlanOk S A.msgs plan) :
    ∃ A' B' kf, exchange S true A B plan = some (A', B') ∧ Sync S kf A' B' ∧
      A'.isHandshakeFinished = true ∧ B'.isHandshakeFinished = true ∧
      A'.getHandshakeHash = B'.getHandshakeHash ∧
      ∃ ta tb, TS.ofHandshake S A' = .ok ta ∧ TS.ofHandshake S B' = .ok tb ∧ Paired ta tb ∧
        ta.sendCs.hasKey = true ∧ ta.recvCs.hasKey = true ∧ tb.sendCs.hasKey = true ∧ tb.recvCs.hasKey = true ∧
        ta.sendCs.n = 0 ∧ ta.recvCs.n = 0 ∧ tb.sendCs.n = 0 ∧ tb.recvCs.n = 0 ∧
        ta.initiator = true ∧ tb.initiator = false :=
  honest_handshake_of_build_exact S hEL hDE hPL hPT hDC hDT av cI cR hm A B hA hB hmods plan
    (planOkExact_of_planOk S _ _ _ plan hplan)

/-! ## The exact conditions are necessary -/

/-- **Necessity.**  Two parties at the same position of the same message list, in the same psk
    mode and keyedness, with local public keys of the right length: if the exchange of a plan
    covering all remaining messages succeeds, the plan satisfies `PlanOkExact`. -/
theorem exchange_planOkExact (S : Suite) (hE : S.EncLen) (hP : S.PubLen) (plan : List (Bytes × Nat × Nat))
    (ini : Bool) (A B A' B' : HS)
    (hmsgs : A.msgs = B.msgs) (hpos : A.pos = B.pos) (hpsk : A.isPsk = B.isPsk)
    (hkey : A.sym.hasKey = B.sym.hasKey) (wfA : KeysWf S A) (wfB : KeysWf S B)
    (hex : exchange S ini A B plan = some (A', B'))
    (hlen : plan.length = (A.msgs.drop A.pos).length) :
    PlanOkExact S A.isPsk A.sym.hasKey (A.msgs.drop A.pos) plan :=
  HS.exchange_some_planOkExact S hE hP plan ini A B A' B' hmsgs hpos hpsk hkey wfA wfB hex hlen

/-- **For sessions built by the `Builder` the exact conditions are exactly right.**  For every
    suite with the stated laws and every pair of matching configurations on which `build`
    succeeds: the honest exchange of a plan with one entry per handshake message succeeds (every
    write returns `ok`, every read returns the written payload) IF AND ONLY IF the plan satisfies
    `PlanOkExact` (psk mode of the built state, starting un-keyed).  So `PlanOkExact` leaves out no
    payload length and no buffer size that snow accepts. -/
theorem honest_exchange_of_build_iff (S : Suite) (hEL : S.EncLen) (hDE : S.DecEnc) (hPL : S.PubLen)
    (hPT : S.PrivTotal) (hDC : S.DhComm) (hDT : S.DhTotal)
    (av : Avail) (cI cR : BuildCfg) (hm : Matching S cI cR)
    (A B : HS) (hA : build S av cI = .ok A) (hB : build S av cR = .ok B)
    (hmods : cI.mods.length < 2 ^ 64 - 29)
    (plan : List (Bytes × Nat × Nat)) :
    ((∃ A' B', exchange S true A B plan = some (A', B')) ∧ plan.length = A.msgs.length) ↔
      PlanOkExact S A.isPsk false A.msgs plan := by
  constructor
  · rintro ⟨⟨A', B', hex⟩, hlen⟩
    obtain ⟨inst, hi, hmsgs⟩ := built_inst S av cI A hA
    obtain ⟨k0, _, hc⟩ := build_consistent S hPL av cI cR hm inst hi A B hA hB
    have hkA := (built_keyed S av cI A hA).1
    have hkB := (built_keyed S av cR B hB).1
    have hp0 : A.pos = 0 := hc.pos0
    have h := exchange_planOkExact S hEL hPL plan true A B A' B' hc.ctl.msgs hc.ctl.pos hc.sync.isPsk
      (by rw [hkA, hkB]) (C14.build_ready S hPL av cI A hA).2.2 (C14.build_ready S hPL av cR B hB).2.2 hex
      (by rw [hp0]; exact hlen)
    rw [hp0, hkA] at h
    exact h
  · intro h
    obtain ⟨A', B', _, hex, _⟩ :=
      honest_handshake_of_build_exact S hEL hDE hPL hPT hDC hDT av cI cR hm A B hA hB hmods plan h
    exact ⟨⟨A', B', hex⟩, HS.planOkExact_length S _ _ _ plan h⟩

/-! ## Non-vacuity: payloads next to the 65535-byte limit (toy suite `Toy.suite 0 0 0`, 32-byte keys) -/

section Examples

/-- The messages of `XX`. -/
def xxMsgs : List (List Tok) := [[.e], [.e, .ee, .s, .es], [.s, .se]]

/-- A plan for `XX` whose second message carries `n` zero bytes (message 2 of `XX`: `e` 32 bytes,
    `s` 32 + 16, payload tag 16: overhead 96).  The buffers are as big as the OLD condition wants
    them (48 bytes per token + payload + 16), so that only the 65535 limit separates the two
    conditions. -/
def xxPlan (n : Nat) : List (Bytes × Nat × Nat) :=
  [([], 64, 0), (List.replicate n 0, n + 208, n), ([], 112, 0)]

theorem exSuite_pubLen : exSuite.pubLen = 32 := rfl

/-- The exact conditions hold for `xxPlan n` exactly up to the payload that makes message 2
    65535 bytes long ... -/
theorem xxPlan_exact_iff (n : Nat) : PlanOkExact exSuite false false xxMsgs (xxPlan n) ↔ n ≤ 65439 := by
  simp only [PlanOkExact, xxMsgs, xxPlan, msgLen, fieldsLen, tokLen, tokKeyed, keyedAfter, exSuite_pubLen,
    List.length_replicate, List.length_nil, Bool.or_false, Bool.false_eq_true, ↓reduceIte, and_true]
  omega

/-- ... whereas the old condition `PlanOk` (208 bytes charged for message 2) stops at 65327. -/
theorem xxPlan_old_iff (n : Nat) : PlanOk exSuite xxMsgs (xxPlan n) ↔ n ≤ 65327 := by
  simp only [PlanOk, xxMsgs, xxPlan, exSuite_pubLen, List.length_replicate, List.length_nil, List.length_cons,
    and_true]
  omega

/-- Hence every payload length 65328..65439 satisfies `PlanOkExact` but not `PlanOk`. -/
theorem xxPlan_gap (n : Nat) (h1 : 65327 < n) (h2 : n ≤ 65439) :
    PlanOkExact exSuite false false xxMsgs (xxPlan n) ∧ ¬ PlanOk exSuite xxMsgs (xxPlan n) := by
  rw [xxPlan_exact_iff, xxPlan_old_iff]; omega

example : PlanOkExact exSuite false false xxMsgs (xxPlan 65439) ∧ ¬ PlanOk exSuite xxMsgs (xxPlan 65439) :=
  xxPlan_gap 65439 (by decide) (by decide)

/-- A plan for `XX` with payloads of `a`, `b`, `c` zero bytes in buffers of exactly the size snow
    demands (fixed fields + payload + 16). -/
def xxTight (a b c : Nat) : List (Bytes × Nat × Nat) :=
  [(List.replicate a 0, a + 48, a), (List.replicate b 0, b + 96, b), (List.replicate c 0, c + 64, c)]

/-- With tight buffers the exact conditions reduce to the three 65535-byte limits
    (overheads 32, 96, 64). -/
theorem xxTight_iff (a b c : Nat) :
    PlanOkExact exSuite false false xxMsgs (xxTight a b c) ↔ a ≤ 65503 ∧ b ≤ 65439 ∧ c ≤ 65471 := by
  simp only [PlanOkExact, xxMsgs, xxTight, msgLen, fieldsLen, tokLen, tokKeyed, keyedAfter, exSuite_pubLen,
    List.length_replicate, Bool.or_false, Bool.false_eq_true, ↓reduceIte, and_true]
  omega

/-- All three payloads at their maximum at once: three messages of exactly 65535 bytes. (The
    writer's buffer of message 1 then has 65551 bytes: snow demands 16 spare bytes even when the
    payload is not encrypted.) -/
example : PlanOkExact exSuite false false xxMsgs (xxTight 65503 65439 65471) :=
  (xxTight_iff _ _ _).mpr (by decide)

/-- `honest_handshake_built_exact` applied at the boundary: the built `XX` pair of
    `C02Build` completes the handshake when message 2 carries 65439 bytes (a 65535-byte
    message), which `C02Build.honest_handshake_built` does not cover.  (Nothing of this size is
    evaluated: the instance follows from the theorem.) -/
example : ∃ A B A' B', build exSuite exAv xxI = .ok A ∧ build exSuite exAv xxR = .ok B ∧
    exchange exSuite true A B (xxPlan 65439) = some (A', B') ∧
    A'.isHandshakeFinished = true ∧ B'.isHandshakeFinished = true ∧
    A'.getHandshakeHash = B'.getHandshakeHash := by
  obtain ⟨A, hA⟩ := ok_of_isOk xxI_builds
  obtain ⟨B, hB⟩ := ok_of_isOk xxR_builds
  obtain ⟨A', B', _, hex, _, h1, h2, h3, _⟩ :=
    honest_handshake_built_exact exSuite (C18.toy_suite_encLen 0 0 0) (C18.toy_suite_decEnc 0 0 0)
      (C18.toy_suite_pubLen 0 0 0) (C18.toy_suite_privTotal 0 0 0) (C18.toy_suite_dhComm 0 0 0)
      (C18.toy_suite_dhTotal 0 0 0) exAv xxI xxR xx_matching A B hA hB (by decide)
      { preI := [], preR := [], msgs := xxMsgs } (by decide)
      (xxPlan 65439) ((xxPlan_exact_iff 65439).mpr (by decide))
  exact ⟨A, B, A', B', hA, hB, hex, h1, h2, h3⟩

/-- ... and one byte more is refused by snow (the equivalence, used in the other direction): with
    65440 bytes in message 2 the honest exchange of the built `XX` pair does NOT succeed. -/
example : ∀ A B, build exSuite exAv xxI = .ok A → build exSuite exAv xxR = .ok B →
    ¬ ∃ A' B', exchange exSuite true A B (xxPlan 65440) = some (A', B') := by
  intro A B hA hB hex
  obtain ⟨inst, hi, hmsgs⟩ := built_inst exSuite exAv xxI A hA
  have hi' : handshakeTokens xxI.pattern xxI.mods = .ok { preI := [], preR := [], msgs := xxMsgs } := by decide
  rw [hi'] at hi
  have hm : A.msgs = xxMsgs := by rw [← hmsgs, ← Res.ok.inj hi]
  have hp : A.isPsk = false := (built_keyed exSuite exAv xxI A hA).2
  have h := (honest_exchange_of_build_iff exSuite (C18.toy_suite_encLen 0 0 0) (C18.toy_suite_decEnc 0 0 0)
      (C18.toy_suite_pubLen 0 0 0) (C18.toy_suite_privTotal 0 0 0) (C18.toy_suite_dhComm 0 0 0)
      (C18.toy_suite_dhTotal 0 0 0) exAv xxI xxR xx_matching A B hA hB (by decide) (xxPlan 65440)).mp
      ⟨hex, by rw [hm]; rfl⟩
  rw [hm, hp, xxPlan_exact_iff] at h
  omega

/-- The messages of `NKpsk0`. -/
def nkMsgs : List (List Tok) := [[.psk 0, .e, .es], [.e, .ee]]

/-- A psk pattern (`NKpsk0`): the `psk` token costs nothing and `e` keys the cipher in psk mode, so
    both messages carry 32 + 16 bytes of overhead; with tight buffers the exact conditions are the
    two 65535-byte limits ... -/
theorem nkTight_iff (a b : Nat) :
    PlanOkExact exSuite true false nkMsgs [(List.replicate a 0, a + 48, a), (List.replicate b 0, b + 48, b)] ↔
      a ≤ 65487 ∧ b ≤ 65487 := by
  simp only [PlanOkExact, nkMsgs, msgLen, fieldsLen, tokLen, tokKeyed, keyedAfter, exSuite_pubLen,
    List.length_replicate, Bool.or_true, Bool.or_false, Bool.false_eq_true, ↓reduceIte, and_true]
  omega

/-- ... whereas the old condition allows at most 65375 and 65423 bytes, whatever the buffers. -/
theorem nk_old (a b capa capb : Nat) :
    PlanOk exSuite nkMsgs [(List.replicate a 0, capa, a), (List.replicate b 0, capb, b)] →
      a ≤ 65375 ∧ b ≤ 65423 := by
  simp only [PlanOk, nkMsgs, exSuite_pubLen, List.length_replicate, List.length_cons, List.length_nil, and_true]
  omega

end Examples

end SnowVerif.Theorems.C02Exact
