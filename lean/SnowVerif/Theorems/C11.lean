/-
  C11  Handshake/transport state machine enforces turn, phase and one-way rules.

  Refinement to the automaton  hs(pos, len, role) -> transport(role, oneway).
  Interpretation (DESIGN.md): a call that is both out of phase and carries an
  over-long message (> 65535 bytes) returns `Input`, because that guard comes
  first in the code; the state errors are stated for messages of legal length.
-/
import SnowVerif.Lemmas.Handshake
import SnowVerif.Lemmas.Transport

namespace SnowVerif.Theorems.C11
open SnowVerif SnowVerif.Model SnowVerif.Model.HS
set_option linter.unusedVariables false
set_option linter.unusedSimpArgs false

/-- Restoring the checkpoint just taken and re-disabling an already disabled ephemeral is the
    identity: what `write_message` does on an early error. -/
theorem restore_e_noop (hs : HS) (h : SymInv hs.sym) :
    (if !hs.e.on then
      { ({ hs with sym := hs.sym.restore hs.sym.checkpoint } : HS) with
          e := { hs.e with on := false } }
     else { hs with sym := hs.sym.restore hs.sym.checkpoint }) = hs := by
  rw [Sym.restore_checkpoint hs.sym h]
  cases hs with
  | mk sym cs1 cs2 s e fixedE rs re initiator isPsk oneway psks myTurn msgs pos rng =>
    cases e with
    | mk val on => cases on <;> simp

theorem restore_r_noop (hs : HS) (h : SymInv hs.sym) :
    ({ hs with sym := hs.sym.restore hs.sym.checkpoint, rs := hs.rs, re := hs.re } : HS) = hs := by
  rw [Sym.restore_checkpoint hs.sym h]

/-- Writing when it is not this party's turn: the documented state error, no effect, no bytes,
    no cipher call, no randomness drawn. -/
theorem write_off_turn (S : Suite) (hs : HS) (p : Bytes) (cap : Nat) (inv : SymInv hs.sym) (h : hs.myTurn = false) :
    hs.writeMessage S p cap = (.err (.state .notTurnToWrite), hs, [], []) := by
  have hi : writeInner S hs p cap = (.err (.state .notTurnToWrite), { hs := hs, acc := [], ev := [] }) := by
    unfold writeInner; simp [h]
  unfold writeMessage
  simp only [hi]
  rw [restore_e_noop hs inv]

/-- Writing after the pattern's last message. -/
theorem write_after_finish (S : Suite) (hs : HS) (p : Bytes) (cap : Nat) (inv : SymInv hs.sym)
    (h : hs.myTurn = true) (hp : hs.pos ≥ hs.msgs.length) :
    hs.writeMessage S p cap = (.err (.state .handshakeAlreadyFinished), hs, [], []) := by
  have hi : writeInner S hs p cap = (.err (.state .handshakeAlreadyFinished), { hs := hs, acc := [], ev := [] }) := by
    unfold writeInner; simp [h, hp]
  unfold writeMessage
  simp only [hi]
  rw [restore_e_noop hs inv]

/-- Reading when it is this party's turn to write. -/
theorem read_on_turn (S : Suite) (hs : HS) (m : Bytes) (cap : Nat) (inv : SymInv hs.sym)
    (hl : m.length ≤ 65535) (h : hs.myTurn = true) :
    hs.readMessage S m cap = (.err (.state .notTurnToRead), hs, [], []) := by
  have h0 : ¬ m.length > 65535 := by omega
  have hi : readInner S hs m cap = (.err (.state .notTurnToRead), hs, [], []) := by
    unfold readInner; simp [h0, h]
  unfold readMessage
  simp only [hi]
  rw [restore_r_noop hs inv]

/-- Reading after the pattern's last message. -/
theorem read_after_finish (S : Suite) (hs : HS) (m : Bytes) (cap : Nat) (inv : SymInv hs.sym)
    (hl : m.length ≤ 65535) (h : hs.myTurn = false) (hp : hs.pos ≥ hs.msgs.length) :
    hs.readMessage S m cap = (.err (.state .handshakeAlreadyFinished), hs, [], []) := by
  have h0 : ¬ m.length > 65535 := by omega
  have hi : readInner S hs m cap = (.err (.state .handshakeAlreadyFinished), hs, [], []) := by
    unfold readInner; simp [h0, h, hp]
  unfold readMessage
  simp only [hi]
  rw [restore_r_noop hs inv]

/-- A message longer than 65535 bytes is refused with `Input` before anything else, no effect. -/
theorem read_oversize (S : Suite) (hs : HS) (m : Bytes) (cap : Nat) (inv : SymInv hs.sym) (hl : m.length > 65535) :
    hs.readMessage S m cap = (.err .input, hs, [], []) := by
  have hi : readInner S hs m cap = (.err .input, hs, [], []) := by
    unfold readInner; simp [hl]
  unfold readMessage
  simp only [hi]
  rw [restore_r_noop hs inv]

/-- A successful write happened on this party's turn, before the end, and advances the position
    by exactly one and passes the turn; role and pattern are untouched. -/
theorem write_ok_ctl (S : Suite) (hs : HS) (p : Bytes) (cap : Nat) (n : Nat) (hs' : HS) (acc : Bytes) (ev : List Event)
    (h : hs.writeMessage S p cap = (.ok n, hs', acc, ev)) :
    hs.myTurn = true ∧ hs.pos < hs.msgs.length ∧ hs'.pos = hs.pos + 1 ∧ hs'.myTurn = false ∧
    hs'.initiator = hs.initiator ∧ hs'.msgs = hs.msgs ∧ hs'.oneway = hs.oneway := by
  have hf := writeInner_frame S hs p cap
  simp only at hf
  unfold writeMessage at h
  simp only at h
  cases hr : (writeInner S hs p cap).1 with
  | ok k =>
    simp only [hr, Prod.mk.injEq] at h
    obtain ⟨_, rfl, _, _⟩ := h
    have ht1 : hs.myTurn = true := by
      cases ht : hs.myTurn with
      | true => rfl
      | false => unfold writeInner at hr; simp [ht] at hr
    have ht2 : hs.pos < hs.msgs.length := by
      apply Classical.byContradiction
      intro hge
      have hge' : hs.pos ≥ hs.msgs.length := by omega
      unfold writeInner at hr; simp [ht1, hge'] at hr
    simp only
    exact ⟨ht1, ht2, by rw [hf.2.2.2.2.2.2.1], trivial, hf.1, hf.2.2.2.2.2.1, hf.2.2.1⟩
  | err e => simp [hr] at h
  | panic q => simp [hr] at h

/-- A failed write leaves position, turn, role and pattern as they were. -/
theorem write_err_ctl (S : Suite) (hs : HS) (p : Bytes) (cap : Nat) (e : Err) (hs' : HS) (acc : Bytes) (ev : List Event)
    (h : hs.writeMessage S p cap = (.err e, hs', acc, ev)) :
    hs'.pos = hs.pos ∧ hs'.myTurn = hs.myTurn ∧ hs'.initiator = hs.initiator ∧ hs'.msgs = hs.msgs ∧
    hs'.oneway = hs.oneway := by
  have hf := writeInner_frame S hs p cap
  simp only at hf
  unfold writeMessage at h
  simp only at h
  cases hr : (writeInner S hs p cap).1 with
  | ok k => simp [hr] at h
  | err e' =>
    simp only [hr, Prod.mk.injEq] at h
    obtain ⟨_, rfl, _, _⟩ := h
    split <;> exact ⟨hf.2.2.2.2.2.2.1, hf.2.2.2.2.1, hf.1, hf.2.2.2.2.2.1, hf.2.2.1⟩
  | panic q => simp [hr] at h

/-- A successful read happened off turn, before the end; position +1, turn taken. -/
theorem read_ok_ctl (S : Suite) (hs : HS) (m : Bytes) (cap : Nat) (pl : Bytes) (hs' : HS) (buf : Bytes) (ev : List Event)
    (h : hs.readMessage S m cap = (.ok pl, hs', buf, ev)) :
    hs.myTurn = false ∧ hs.pos < hs.msgs.length ∧ m.length ≤ 65535 ∧ hs'.pos = hs.pos + 1 ∧ hs'.myTurn = true ∧
    hs'.initiator = hs.initiator ∧ hs'.msgs = hs.msgs ∧ hs'.oneway = hs.oneway := by
  have hf := readInner_frame S hs m cap
  simp only at hf
  unfold readMessage at h
  simp only at h
  cases hr : (readInner S hs m cap).1 with
  | ok k =>
    simp only [hr, Prod.mk.injEq] at h
    obtain ⟨_, rfl, _, _⟩ := h
    have ht0 : m.length ≤ 65535 := by
      apply Classical.byContradiction
      intro hgt
      have hgt' : m.length > 65535 := by omega
      unfold readInner at hr; simp [hgt'] at hr
    have h0 : ¬ m.length > 65535 := by omega
    have ht1 : hs.myTurn = false := by
      cases ht : hs.myTurn with
      | false => rfl
      | true => unfold readInner at hr; simp [h0, ht] at hr
    have ht2 : hs.pos < hs.msgs.length := by
      apply Classical.byContradiction
      intro hge
      have hge' : hs.pos ≥ hs.msgs.length := by omega
      unfold readInner at hr; simp [h0, ht1, hge'] at hr
    simp only
    exact ⟨ht1, ht2, ht0, by rw [hf.2.2.2.2.2.2.1], trivial, hf.1, hf.2.2.2.2.2.1, hf.2.2.1⟩
  | err e => simp [hr] at h
  | panic q => simp [hr] at h

/-- A failed read leaves position, turn, role and pattern as they were. -/
theorem read_err_ctl (S : Suite) (hs : HS) (m : Bytes) (cap : Nat) (e : Err) (hs' : HS) (buf : Bytes) (ev : List Event)
    (h : hs.readMessage S m cap = (.err e, hs', buf, ev)) :
    hs'.pos = hs.pos ∧ hs'.myTurn = hs.myTurn ∧ hs'.initiator = hs.initiator ∧ hs'.msgs = hs.msgs ∧
    hs'.oneway = hs.oneway := by
  have hf := readInner_frame S hs m cap
  simp only at hf
  unfold readMessage at h
  simp only at h
  cases hr : (readInner S hs m cap).1 with
  | ok k => simp [hr] at h
  | err e' =>
    simp only [hr, Prod.mk.injEq] at h
    obtain ⟨_, rfl, _, _⟩ := h
    exact ⟨hf.2.2.2.2.2.2.1, hf.2.2.2.2.1, hf.1, hf.2.2.2.2.2.1, hf.2.2.1⟩
  | panic q => simp [hr] at h

/-! ### The indicators always equal those implied by the pattern and the messages processed -/

/-- The automaton invariant: position within the pattern, and the turn indicator is a function of
    role and position (also after the last message). -/
def TurnInv (hs : HS) : Prop :=
  hs.pos ≤ hs.msgs.length ∧ hs.myTurn = (hs.initiator == (hs.pos % 2 == 0))

/-- Every public handshake operation, with any arguments. -/
inductive Op
  | write (p : Bytes) (cap : Nat)
  | read (m : Bytes) (cap : Nat)
  | setPsk (loc : Nat) (key : Bytes)

def step (S : Suite) (hs : HS) : Op → HS
  | .write p cap => (hs.writeMessage S p cap).2.1
  | .read m cap => (hs.readMessage S m cap).2.1
  | .setPsk loc key => (hs.setPsk loc key).2

def run (S : Suite) : HS → List Op → HS
  | hs, [] => hs
  | hs, op :: ops => run S (step S hs op) ops

/-- Outcomes that are not a Rust panic (C10 shows panics do not occur). -/
def NoPanic (S : Suite) (hs : HS) : Op → Prop
  | .write p cap => (hs.writeMessage S p cap).1.isPanic = false
  | .read m cap => (hs.readMessage S m cap).1.isPanic = false
  | .setPsk _ _ => True

theorem parity (n : Nat) (b : Bool) : (b == ((n + 1) % 2 == 0)) = !(b == (n % 2 == 0)) := by
  rcases Nat.mod_two_eq_zero_or_one n with h | h
  · have h' : (n + 1) % 2 = 1 := by omega
    cases b <;> simp [h, h']
  · have h' : (n + 1) % 2 = 0 := by omega
    cases b <;> simp [h, h']

theorem turnInv_step (S : Suite) (hs : HS) (op : Op) (h : TurnInv hs) (np : NoPanic S hs op) :
    TurnInv (step S hs op) := by
  obtain ⟨hp, ht⟩ := h
  cases op with
  | write p cap =>
    simp only [step]
    cases hr : hs.writeMessage S p cap with
    | mk r rest =>
      obtain ⟨hs', acc, ev⟩ := rest
      cases r with
      | ok n =>
        obtain ⟨t1, t2, t3, t4, t5, t6, _⟩ := write_ok_ctl S hs p cap n hs' acc ev hr
        simp only [TurnInv, t3, t4, t5, t6]
        refine ⟨by omega, ?_⟩
        rw [parity, ← ht, t1]; rfl
      | err e =>
        obtain ⟨t1, t2, t3, t4, _⟩ := write_err_ctl S hs p cap e hs' acc ev hr
        simp only [TurnInv, t1, t2, t3, t4]; exact ⟨hp, ht⟩
      | panic q => simp [NoPanic, hr, Res.isPanic] at np
  | read m cap =>
    simp only [step]
    cases hr : hs.readMessage S m cap with
    | mk r rest =>
      obtain ⟨hs', buf, ev⟩ := rest
      cases r with
      | ok pl =>
        obtain ⟨t1, t2, _, t3, t4, t5, t6, _⟩ := read_ok_ctl S hs m cap pl hs' buf ev hr
        simp only [TurnInv, t3, t4, t5, t6]
        refine ⟨by omega, ?_⟩
        rw [parity, ← ht, t1]; rfl
      | err e =>
        obtain ⟨t1, t2, t3, t4, _⟩ := read_err_ctl S hs m cap e hs' buf ev hr
        simp only [TurnInv, t1, t2, t3, t4]; exact ⟨hp, ht⟩
      | panic q => simp [NoPanic, hr, Res.isPanic] at np
  | setPsk loc key =>
    simp only [step, HS.setPsk]
    split <;> exact ⟨hp, ht⟩

/-- For every history of operations (any arguments, failures and retries included):
    `is_my_turn = (initiator ↔ position even)` and `position ≤ #messages`, so
    `is_handshake_finished` (position = #messages) is exactly "all messages processed". -/
theorem indicators_always (S : Suite) (hs : HS) (ops : List Op) (h : TurnInv hs)
    (np : ∀ (pre : List Op) (op : Op) (post : List Op), ops = pre ++ op :: post → NoPanic S (run S hs pre) op) :
    TurnInv (run S hs ops) := by
  induction ops generalizing hs with
  | nil => exact h
  | cons op ops ih =>
    simp only [run]
    apply ih
    · exact turnInv_step S hs op h (np [] op ops rfl)
    · intro pre o post hpost
      have := np (op :: pre) o post (by simp [hpost])
      simpa [run] using this

/-- A freshly built state satisfies the invariant (position 0, turn = initiator). -/
theorem turnInv_initial (hs : HS) (h0 : hs.pos = 0) (ht : hs.myTurn = hs.initiator) : TurnInv hs := by
  unfold TurnInv; rw [h0, ht]; cases hs.initiator <;> simp

theorem finished_iff (hs : HS) : hs.isHandshakeFinished = true ↔ hs.pos = hs.msgs.length := by
  simp [HS.isHandshakeFinished]

/-- Conversion to (stateful or stateless) transport mode succeeds iff the handshake is finished;
    before that it returns `State(HandshakeNotFinished)`. -/
theorem convert_iff (S : Suite) (hs : HS) :
    (hs.pos = hs.msgs.length → ∃ ts, TS.ofHandshake S hs = .ok ts ∧ ts.initiator = hs.initiator ∧ ts.oneway = hs.oneway) ∧
    (hs.pos ≠ hs.msgs.length → TS.ofHandshake S hs = .err (.state .handshakeNotFinished)) := by
  unfold TS.ofHandshake HS.isHandshakeFinished
  constructor
  · intro h; simp [h]
  · intro h; simp [h]

/-- One-way patterns in transport mode: the responder cannot write, the initiator cannot read;
    the documented `OneWay` state error, no effect (stateful and stateless). -/
theorem oneway_responder_write (S : Suite) (ts : TS) (p : Bytes) (cap : Nat) (h1 : ts.initiator = false) (h2 : ts.oneway = true) :
    ts.writeMessage S p cap = (.err (.state .oneWay), ts, []) ∧
    ∀ n, ts.stWrite S n p cap = (.err (.state .oneWay), []) := by
  unfold TS.writeMessage TS.stWrite; simp [h1, h2]

theorem oneway_initiator_read (S : Suite) (ts : TS) (m : Bytes) (cap : Nat) (h1 : ts.initiator = true) (h2 : ts.oneway = true)
    (hl : m.length ≤ 65535) :
    ts.readMessage S m cap = (.err (.state .oneWay), ts, [], []) ∧
    ∀ n, ts.stRead S n m cap = (.err (.state .oneWay), [], []) := by
  have h0 : ¬ m.length > 65535 := by omega
  unfold TS.readMessage TS.stRead; simp [h1, h2, h0]

end SnowVerif.Theorems.C11
