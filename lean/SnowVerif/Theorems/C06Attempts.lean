/-
  C06, both endpoints in ONE statement, with failing calls and retries ("exchange with attempts").

  `Theorems/C06Hist.lean` proves the no-reuse property for every history of ONE endpoint (failing
  calls and retries included); `Lemmas/C06HistExchFull.lean` proves it for the merged log of BOTH
  endpoints, but only for an honest lockstep exchange in which no call fails.  This file closes the
  gap (DESIGN.md 10.4 item 1): both endpoints, merged, with arbitrary failing calls of both
  endpoints interleaved with the calls of the plan.

  The run (Lemmas/C06AttemptsFail.lean): `rounds : List Round`, one `Round` per handshake message,
  in order.  In a round with writer `w` and reader `!w`
    1. `pre`: any finite list of calls `(side, op)`, `side = true` on the first endpoint `A` (the
       initiator), `side = false` on the second endpoint `B`; `op` a `write_message`,
       `read_message` (or `set_psk`) call with ARBITRARY arguments: the writer's failing write
       attempts (any payload, any buffer size), reads of arbitrary bytes by the reader, writes
       attempted out of turn by the reader, reads attempted by the writer, in any interleaving;
    2. the writer's `write_message(p, cap)` of the plan;
    3. `mid`: again any finite list of calls on either endpoint with arbitrary arguments, e.g. the
       reader's reads of arbitrary byte strings (or of the genuine message into a buffer that is too
       small) before
    4. the reader's `read_message` of the genuine message into a `capr`-byte buffer.
  Hypothesis `AttFails`: every call of every `pre` and `mid` list returns an ERROR (not `Ok`, not a
  panic).  That the calls 2 and 4 succeed is a CONCLUSION (`attempts_complete`), not a hypothesis.
  The requested shape "the writer first makes failing writes, then the successful one; the reader
  first makes failing reads, then reads the genuine message" is the special case `simpleRound`.

  The merged logs (Lemmas/C06AttemptsLog.lean): `mhistEv S (A, B) ops` is the concatenation, in that
  real-time order, of the event lists all these calls returned, failed calls included;
  `mhistG S (A, B) ops` is the merged history log: per call a `callStart` mark, the call's ghost log
  (`writeG` / `readG`: events, and `install key 0` after every `mix_key` / `mix_key_and_hash`), and
  a `restore key n` mark when the call returned an error.  `mhist_erase`: erasing the marks of the
  latter gives the former.

  Theorems
   1. `attempts_complete`: all calls of the plan succeed whatever failed before, and the final
      states are `Equiv` (C07) to a pair in lockstep: same handshake hash.
   2. `attempts_no_reuse_log` / `attempts_no_reuse`: two `enc` events of the merged log at
      positions i < j with the same key and nonce have the same (associated data, plaintext), or
      the merged history log contains a KDF installation of that very key (`install key 0`,
      `IsKdfKey`) at a position m before j and at or after the `callStart` of the call that made
      the first encryption: the same conclusion as `history_no_reuse_log` (one endpoint) and
      `exchange_no_reuse` (lockstep).  A `restore` never counts as an installation.
      `attempts_no_reuse_without_reinstall`: if the key is never installed by a KDF in the run,
      equal (key, nonce) implies equal data.
   3. `built_attempts_no_reuse`: the same for every matching pair `Builder::build` returns, no
      side condition but the size plan and `AttFails`.
   4. Non-vacuity: the built XX pair of `Theorems/C02Build.lean`, with a failing message-3 write
      (fails AFTER the `s` field was encrypted), an out-of-turn write of the responder, the retry,
      and a garbage read before the genuine read; evaluated in the kernel.

  Proof (Lemmas/C06Attempts*.lean): failed calls leave the state `Equiv` (C07), so the successful
  calls behave as in the honest exchange (`att_run`, by the C07 bisimulation from a pair of clean
  states in `Sync`); the single-endpoint step lemmas (`step_first`, `step_rel`, `step_event`) are
  chained along the merged history by following the *leader* (the endpoint that made the last
  successful call): the other endpoint is off turn, so it encrypts nothing, and when its read of
  the genuine message succeeds it takes over the leader's symmetric state (`mhist_no_reuse_log`).
-/
import SnowVerif.Lemmas.C06AttemptsRun
import SnowVerif.Lemmas.C06HistExchFull
import SnowVerif.Theorems.C06Hist
import SnowVerif.Theorems.C07Reach

namespace SnowVerif.Theorems.C06Attempts
open SnowVerif SnowVerif.Model SnowVerif.Model.HS SnowVerif.C06 SnowVerif.Generated
open SnowVerif.Theorems.C11 (Op step run NoPanic)
open SnowVerif.Lemmas.C07Reach (EInv)
set_option linter.unusedVariables false
set_option linter.unusedSimpArgs false

/-! ## 0. The requested special shape of a round -/

/-- The round "the writer `w` first makes the failing `write_message` calls `fw` (payload, buffer
    size), then the successful write `(p, cap)`; the reader first makes the failing `read_message`
    calls `fr` (bytes, buffer size), then reads the genuine message into a `capr`-byte buffer". -/
def simpleRound (w : Bool) (fw : List (Bytes × Nat)) (p : Bytes) (cap : Nat) (fr : List (Bytes × Nat)) (capr : Nat) :
    Round :=
  { pre := fw.map fun x => (w, Op.write x.1 x.2), p := p, cap := cap,
    mid := fr.map fun x => (!w, Op.read x.1 x.2), capr := capr }

/-! ## 1. The plan's calls succeed whatever failed before -/

theorem pairOk_mk {A B : HS} (eA : EInv A) (eB : EInv B) (iA : InstOk A) (iB : InstOk B) : PairOk (A, B) := by
  intro s
  cases s
  · exact ⟨eB, iB⟩
  · exact ⟨eA, iA⟩

/-- **An exchange with attempts completes.** For every suite with the stated laws and two parties
    in lockstep (`Sync`, `Ctl`, `PartyOk`: the hypotheses of `honest_exchange` / `exchange_no_reuse`)
    that satisfy the reachable-state invariants `EInv` (C07) and `InstOk` (C06), every instance
    whose remaining messages the validity rules accept, every exchange with attempts `rounds` whose
    plan fits and whose extra calls all return errors: every `write_message` of the plan returns
    `Ok(length of the message)`, every `read_message` of the genuine message returns
    `Ok(the payload)`, and the two final states are `Equiv` to a pair in lockstep at the final
    key record; in particular they have the same handshake hash. -/
theorem attempts_complete (S : Suite) (hEL : S.EncLen) (hDE : S.DecEnc) (hPL : S.PubLen) (hPT : S.PrivTotal)
    (hDC : S.DhComm) (hDT : S.DhTotal) (rem : List (List Tok))
    (ini : Bool) (k kf : Spec.Keys) (A B : HS) (rounds : List Round)
    (hsync : Sync S k A B) (hctl : Ctl A B) (okA : PartyOk S A) (okB : PartyOk S B)
    (ht1 : A.myTurn = ini) (ht2 : B.myTurn = !ini) (hple : A.pos ≤ A.msgs.length)
    (hrem : A.msgs.drop A.pos = rem) (hk : Spec.Keys.runMsgs ini k rem = some kf)
    (hst : StaticsOk ini rem A.s.on B.s.on)
    (hpsk : ∀ n m, m ∈ rem → Tok.psk n ∈ m → n < 10 ∧ ∃ key, A.psks.getD n none = some key)
    (hn : A.sym.cs.n.toNat + totalFields rem < 2 ^ 64 - 1) (hplan : PlanOk S rem (planOf rounds))
    (eA : EInv A) (eB : EInv B) (iA : InstOk A) (iB : InstOk B)
    (hf : AttFails S ini (A, B) rounds) :
    AttDelivered S ini (A, B) rounds ∧
    (∃ A' B', Sync S kf A' B' ∧ Ctl A' B' ∧
      Equiv A' (mrun S (A, B) (attOps S ini (A, B) rounds)).1 ∧
      Equiv B' (mrun S (A, B) (attOps S ini (A, B) rounds)).2) ∧
    (mrun S (A, B) (attOps S ini (A, B) rounds)).1.getHandshakeHash =
      (mrun S (A, B) (attOps S ini (A, B) rounds)).2.getHandshakeHash := by
  obtain ⟨_, hd, C', h1, h2, h3⟩ := att_run S hEL hDE hPL hPT hDC hDT rem ini k kf (A, B) (A, B) rounds
    hsync hctl okA okB ht1 ht2 hple hrem hk hst hpsk hn hplan (PEq.refl _) (pairOk_mk eA eB iA iB) hf
  refine ⟨hd, ⟨C'.1, C'.2, h1, h2, h3 true, h3 false⟩, ?_⟩
  have e1 : C'.1.sym.h = (mrun S (A, B) (attOps S ini (A, B) rounds)).1.sym.h := (h3 true).sym.1
  have e2 : C'.2.sym.h = (mrun S (A, B) (attOps S ini (A, B) rounds)).2.sym.h := (h3 false).sym.1
  unfold getHandshakeHash
  rw [← e1, ← e2, h1.sym]

/-! ## 2. No (key, nonce) reuse on different data, merged over both endpoints, with attempts -/

/-- **The main theorem, on the merged history log.** Same hypotheses.  If two `enc` entries of the
    merged history log (the calls of both endpoints in real-time order, failed calls included) at
    positions `i < j` carry the same key and nonce, then they encrypt the same (associated data,
    plaintext), OR a KDF installation of that very key (`install key 0`, an HKDF output) occurs in
    the merged log at a position `m` with `c ≤ m < j`, where `c` is the `callStart` of the call
    containing `i`.  A `restore` (what a failed call leaves) does not count. -/
theorem attempts_no_reuse_log (S : Suite) (hEL : S.EncLen) (hDE : S.DecEnc) (hPL : S.PubLen) (hPT : S.PrivTotal)
    (hDC : S.DhComm) (hDT : S.DhTotal) (rem : List (List Tok))
    (ini : Bool) (k kf : Spec.Keys) (A B : HS) (rounds : List Round)
    (hsync : Sync S k A B) (hctl : Ctl A B) (okA : PartyOk S A) (okB : PartyOk S B)
    (ht1 : A.myTurn = ini) (ht2 : B.myTurn = !ini) (hple : A.pos ≤ A.msgs.length)
    (hrem : A.msgs.drop A.pos = rem) (hk : Spec.Keys.runMsgs ini k rem = some kf)
    (hst : StaticsOk ini rem A.s.on B.s.on)
    (hpsk : ∀ n m, m ∈ rem → Tok.psk n ∈ m → n < 10 ∧ ∃ key, A.psks.getD n none = some key)
    (hn : A.sym.cs.n.toNat + totalFields rem < 2 ^ 64 - 1) (hplan : PlanOk S rem (planOf rounds))
    (eA : EInv A) (eB : EInv B) (iA : InstOk A) (iB : InstOk B)
    (hf : AttFails S ini (A, B) rounds)
    (i j : Nat) (hij : i < j) (key : Bytes) (n : UInt64) (a1 p1 a2 p2 : Bytes)
    (hi : (mhistG S (A, B) (attOps S ini (A, B) rounds))[i]? = some (HEv.g (.ev (.enc key n a1 p1))))
    (hj : (mhistG S (A, B) (attOps S ini (A, B) rounds))[j]? = some (HEv.g (.ev (.enc key n a2 p2)))) :
    (a1 = a2 ∧ p1 = p2) ∨
    ∃ (c m : Nat) (ck : Bytes), c ≤ i ∧
      (mhistG S (A, B) (attOps S ini (A, B) rounds))[c]? = some HEv.callStart ∧
      (∀ c' : Nat, c < c' → c' ≤ i → (mhistG S (A, B) (attOps S ini (A, B) rounds))[c']? ≠ some HEv.callStart) ∧
      c ≤ m ∧ m < j ∧ (mhistG S (A, B) (attOps S ini (A, B) rounds))[m]? = some (HEv.g (.install key 0)) ∧
      IsKdfKey S ck key := by
  obtain ⟨hmok, _, _⟩ := att_run S hEL hDE hPL hPT hDC hDT rem ini k kf (A, B) (A, B) rounds
    hsync hctl okA okB ht1 ht2 hple hrem hk hst hpsk hn hplan (PEq.refl _) (pairOk_mk eA eB iA iB) hf
  rcases mhist_no_reuse_log S _ (A, B) ini eA.sym eB.sym hmok i j hij key n a1 p1 a2 p2 hi hj with
    hl | ⟨c, m, h1, h2, h3, h4, h5, h6⟩
  · exact Or.inl hl
  · obtain ⟨_, ck, hck⟩ := mhistG_install S (A, B) _ key 0 (List.mem_of_getElem? h6)
    exact Or.inr ⟨c, m, ck, h1, h2, h3, h4, h5, h6, hck⟩

/-- **The main theorem, on the real merged log.** Same hypotheses.  If the concatenated event
    lists of all calls of both endpoints (in real-time order, failed calls included) contain, at
    positions `i < j`, two encryptions under the same key with the same nonce, then they encrypt
    the same (associated data, plaintext), or the merged history log exhibits a KDF installation
    of that very key at or after the start of the call that made the first encryption and before
    the second one. -/
theorem attempts_no_reuse (S : Suite) (hEL : S.EncLen) (hDE : S.DecEnc) (hPL : S.PubLen) (hPT : S.PrivTotal)
    (hDC : S.DhComm) (hDT : S.DhTotal) (rem : List (List Tok))
    (ini : Bool) (k kf : Spec.Keys) (A B : HS) (rounds : List Round)
    (hsync : Sync S k A B) (hctl : Ctl A B) (okA : PartyOk S A) (okB : PartyOk S B)
    (ht1 : A.myTurn = ini) (ht2 : B.myTurn = !ini) (hple : A.pos ≤ A.msgs.length)
    (hrem : A.msgs.drop A.pos = rem) (hk : Spec.Keys.runMsgs ini k rem = some kf)
    (hst : StaticsOk ini rem A.s.on B.s.on)
    (hpsk : ∀ n m, m ∈ rem → Tok.psk n ∈ m → n < 10 ∧ ∃ key, A.psks.getD n none = some key)
    (hn : A.sym.cs.n.toNat + totalFields rem < 2 ^ 64 - 1) (hplan : PlanOk S rem (planOf rounds))
    (eA : EInv A) (eB : EInv B) (iA : InstOk A) (iB : InstOk B)
    (hf : AttFails S ini (A, B) rounds)
    (i j : Nat) (hij : i < j) (key : Bytes) (n : UInt64) (a1 p1 a2 p2 : Bytes)
    (hi : (mhistEv S (A, B) (attOps S ini (A, B) rounds))[i]? = some (.enc key n a1 p1))
    (hj : (mhistEv S (A, B) (attOps S ini (A, B) rounds))[j]? = some (.enc key n a2 p2)) :
    (a1 = a2 ∧ p1 = p2) ∨
    ∃ (i' j' c m : Nat) (ck : Bytes), i' < j' ∧
      (mhistG S (A, B) (attOps S ini (A, B) rounds))[i']? = some (HEv.g (.ev (.enc key n a1 p1))) ∧
      (mhistG S (A, B) (attOps S ini (A, B) rounds))[j']? = some (HEv.g (.ev (.enc key n a2 p2))) ∧
      c ≤ i' ∧ (mhistG S (A, B) (attOps S ini (A, B) rounds))[c]? = some HEv.callStart ∧
      (∀ c' : Nat, c < c' → c' ≤ i' → (mhistG S (A, B) (attOps S ini (A, B) rounds))[c']? ≠ some HEv.callStart) ∧
      c ≤ m ∧ m < j' ∧ (mhistG S (A, B) (attOps S ini (A, B) rounds))[m]? = some (HEv.g (.install key 0)) ∧
      IsKdfKey S ck key := by
  rw [← mhist_erase] at hi hj
  obtain ⟨i', j', hij', h1, h2⟩ := herase_index2 _ i j hij _ _ hi hj
  rcases attempts_no_reuse_log S hEL hDE hPL hPT hDC hDT rem ini k kf A B rounds hsync hctl okA okB ht1 ht2 hple
    hrem hk hst hpsk hn hplan eA eB iA iB hf i' j' hij' key n a1 p1 a2 p2 h1 h2 with
    hl | ⟨c, m, ck, g1, g2, g3, g4, g5, g6, g7⟩
  · exact Or.inl hl
  · exact Or.inr ⟨i', j', c, m, ck, hij', h1, h2, g1, g2, g3, g4, g5, g6, g7⟩

/-- **Restores alone never cause a reuse, merged over both endpoints.** Same hypotheses; if the
    key of two encryptions of the merged log with equal (key, nonce) is never installed by a KDF
    anywhere in the run (it came back only through `restore`s of failed calls), the two encrypt
    the same data. -/
theorem attempts_no_reuse_without_reinstall (S : Suite) (hEL : S.EncLen) (hDE : S.DecEnc) (hPL : S.PubLen)
    (hPT : S.PrivTotal) (hDC : S.DhComm) (hDT : S.DhTotal) (rem : List (List Tok))
    (ini : Bool) (k kf : Spec.Keys) (A B : HS) (rounds : List Round)
    (hsync : Sync S k A B) (hctl : Ctl A B) (okA : PartyOk S A) (okB : PartyOk S B)
    (ht1 : A.myTurn = ini) (ht2 : B.myTurn = !ini) (hple : A.pos ≤ A.msgs.length)
    (hrem : A.msgs.drop A.pos = rem) (hk : Spec.Keys.runMsgs ini k rem = some kf)
    (hst : StaticsOk ini rem A.s.on B.s.on)
    (hpsk : ∀ n m, m ∈ rem → Tok.psk n ∈ m → n < 10 ∧ ∃ key, A.psks.getD n none = some key)
    (hn : A.sym.cs.n.toNat + totalFields rem < 2 ^ 64 - 1) (hplan : PlanOk S rem (planOf rounds))
    (eA : EInv A) (eB : EInv B) (iA : InstOk A) (iB : InstOk B)
    (hf : AttFails S ini (A, B) rounds)
    (i j : Nat) (hij : i < j) (key : Bytes) (n : UInt64) (a1 p1 a2 p2 : Bytes)
    (hi : (mhistEv S (A, B) (attOps S ini (A, B) rounds))[i]? = some (.enc key n a1 p1))
    (hj : (mhistEv S (A, B) (attOps S ini (A, B) rounds))[j]? = some (.enc key n a2 p2))
    (hno : ∀ nn, HEv.g (GEv.install key nn) ∉ mhistG S (A, B) (attOps S ini (A, B) rounds)) :
    a1 = a2 ∧ p1 = p2 := by
  rcases attempts_no_reuse S hEL hDE hPL hPT hDC hDT rem ini k kf A B rounds hsync hctl okA okB ht1 ht2 hple
    hrem hk hst hpsk hn hplan eA eB iA iB hf i j hij key n a1 p1 a2 p2 hi hj with
    hl | ⟨_, _, _, m, _, _, _, _, _, _, _, _, _, h6, _⟩
  · exact hl
  · exact absurd (List.mem_of_getElem? h6) (hno 0)

/-! ## 3. Sessions built by the `Builder` -/

/-- Every state `Builder::build` returns passes the Stage 2 scan (`InstOk`); no law but `PubLen`. -/
theorem built_instOk' (S : Suite) (hpl : S.PubLen) (av : Avail) (c : BuildCfg) (hs : HS)
    (h : build S av c = .ok hs) : InstOk hs := by
  obtain ⟨_, hpos, hkey, _⟩ := Framing.build_facts S hpl av c hs h
  obtain ⟨inst, sym, hinst, _, heq⟩ := Lemmas.C10.build_ok h
  have hpskm : hs.isPsk = isPskMods c.mods := by rw [heq]
  have hmsgs : hs.msgs = inst.msgs := by rw [heq]
  refine ⟨?_, ?_⟩
  · rw [hpskm, hmsgs]; exact handshakeTokens_encAfterE _ _ _ hinst
  · rw [hkey, hpos]; rfl

/-- **Sessions built by the `Builder`, with attempts.** For every suite with the stated laws, every
    table pattern and modifier list, every pair of matching configurations on which `build`
    succeeds, and every exchange with attempts `rounds` whose plan fits the messages and whose
    extra calls (any calls of either endpoint, any arguments, before each write and before each
    read of the plan) all return errors:
    * every call of the plan succeeds, and the two final states have the same handshake hash;
    * the merged history log erases to the merged real log;
    * two encryptions of the whole run, whichever endpoints made them, in failed or successful
      calls, under the same (key, nonce) encrypt the same data, or a KDF installed that very key
      again from the start of the first one's call on and before the second. -/
theorem built_attempts_no_reuse (S : Suite) (hEL : S.EncLen) (hDE : S.DecEnc) (hPL : S.PubLen)
    (hPT : S.PrivTotal) (hDC : S.DhComm) (hDT : S.DhTotal)
    (av : Avail) (cI cR : BuildCfg) (hm : Theorems.C02Build.Matching S cI cR)
    (A B : HS) (hA : build S av cI = .ok A) (hB : build S av cR = .ok B)
    (hmods : cI.mods.length < 2 ^ 64 - 29)
    (inst : Inst) (hi : handshakeTokens cI.pattern cI.mods = .ok inst)
    (rounds : List Round) (hplan : PlanOk S inst.msgs (planOf rounds))
    (hf : AttFails S true (A, B) rounds) :
    AttDelivered S true (A, B) rounds ∧
    (mrun S (A, B) (attOps S true (A, B) rounds)).1.getHandshakeHash =
      (mrun S (A, B) (attOps S true (A, B) rounds)).2.getHandshakeHash ∧
    herase (mhistG S (A, B) (attOps S true (A, B) rounds)) = mhistEv S (A, B) (attOps S true (A, B) rounds) ∧
    ∀ (i j : Nat), i < j → ∀ (key : Bytes) (n : UInt64) (a1 p1 a2 p2 : Bytes),
      (mhistEv S (A, B) (attOps S true (A, B) rounds))[i]? = some (.enc key n a1 p1) →
      (mhistEv S (A, B) (attOps S true (A, B) rounds))[j]? = some (.enc key n a2 p2) →
      (a1 = a2 ∧ p1 = p2) ∨
      ∃ (i' j' c m : Nat) (ck : Bytes), i' < j' ∧
        (mhistG S (A, B) (attOps S true (A, B) rounds))[i']? = some (HEv.g (.ev (.enc key n a1 p1))) ∧
        (mhistG S (A, B) (attOps S true (A, B) rounds))[j']? = some (HEv.g (.ev (.enc key n a2 p2))) ∧
        c ≤ i' ∧ (mhistG S (A, B) (attOps S true (A, B) rounds))[c]? = some HEv.callStart ∧
        (∀ c' : Nat, c < c' → c' ≤ i' → (mhistG S (A, B) (attOps S true (A, B) rounds))[c']? ≠ some HEv.callStart) ∧
        c ≤ m ∧ m < j' ∧ (mhistG S (A, B) (attOps S true (A, B) rounds))[m]? = some (HEv.g (.install key 0)) ∧
        IsKdfKey S ck key := by
  obtain ⟨k0, hk0, hc⟩ := Theorems.C02Build.build_consistent S hPL av cI cR hm inst hi A B hA hB
  have hv := Theorems.C01Patterns.valid_psk _ _ inst hi
  have hsmall : totalFields inst.msgs < 2 ^ 64 - 1 := by
    have := (Lemmas.C02Build.totalFields_inst _ _ inst hi).2
    omega
  obtain ⟨kf, hkf, _⟩ := Theorems.C02.valid_runMsgs inst hv k0 hk0
  have hdrop : A.msgs.drop A.pos = inst.msgs := by rw [hc.pos0, hc.msgs]; rfl
  have hn0 : A.sym.cs.n.toNat + totalFields inst.msgs < 2 ^ 64 - 1 := by rw [hc.n0]; simpa using hsmall
  have eA : EInv A := Lemmas.C07Reach.einv_build hA
  have eB : EInv B := Lemmas.C07Reach.einv_build hB
  have iA : InstOk A := built_instOk' S hPL av cI A hA
  have iB : InstOk B := built_instOk' S hPL av cR B hB
  obtain ⟨hd, _, hh⟩ := attempts_complete S hEL hDE hPL hPT hDC hDT inst.msgs true k0 kf A B rounds
    hc.sync hc.ctl hc.okA hc.okB hc.turnA (by rw [hc.turnB]; rfl) (by rw [hc.pos0]; omega) hdrop hkf hc.statics
    hc.psks hn0 hplan eA eB iA iB hf
  refine ⟨hd, hh, mhist_erase S _ _, ?_⟩
  intro i j hij key n a1 p1 a2 p2 h1 h2
  exact attempts_no_reuse S hEL hDE hPL hPT hDC hDT inst.msgs true k0 kf A B rounds
    hc.sync hc.ctl hc.okA hc.okB hc.turnA (by rw [hc.turnB]; rfl) (by rw [hc.pos0]; omega) hdrop hkf hc.statics
    hc.psks hn0 hplan eA eB iA iB hf i j hij key n a1 p1 a2 p2 h1 h2

/-! ## 4. Non-vacuity: the built XX pair of `Theorems/C02Build.lean` (toy suite `Toy.suite 0 0 0`) -/

namespace Ex
open SnowVerif.Theorems.C02Build
open SnowVerif.Theorems.C06Hist.Ex (hshape installsKey encParts)

/-- Executable check of `AllFail`. -/
def allFailB (S : Suite) : HS × HS → List MOp → Bool
  | _, [] => true
  | P, o :: ops => callErr S (pget P o.1) o.2 && allFailB S (mstep S P o) ops

/-- Executable check of `AttFails`. -/
def attFailsB (S : Suite) : Bool → HS × HS → List Round → Bool
  | _, _, [] => true
  | w, P, r :: rs =>
    allFailB S P r.pre && allFailB S (afterSend S w P r) r.mid && attFailsB S (!w) (afterRound S w P r) rs

theorem allFail_of_check (S : Suite) (ops : List MOp) : ∀ P, allFailB S P ops = true → AllFail S P ops := by
  induction ops with
  | nil => intro P _; trivial
  | cons o ops ih =>
    intro P h
    simp only [allFailB, Bool.and_eq_true] at h
    exact ⟨h.1, ih _ h.2⟩

theorem attFails_of_check (S : Suite) (rs : List Round) :
    ∀ w P, attFailsB S w P rs = true → AttFails S w P rs := by
  induction rs with
  | nil => intro w P _; trivial
  | cons r rs ih =>
    intro w P h
    simp only [attFailsB, Bool.and_eq_true] at h
    exact ⟨allFail_of_check S _ _ h.1.1, allFail_of_check S _ _ h.1.2, ih _ _ h.2⟩

/-- Only used to name the value of a `build` that succeeds. -/
def dummyHS : HS :=
  { sym := Sym.init exSuite [], cs1 := .new, cs2 := .new, s := ⟨⟨[], []⟩, false⟩, e := ⟨⟨[], []⟩, false⟩,
    fixedE := false, rs := ⟨[], false⟩, re := ⟨[], false⟩, initiator := true, isPsk := false, oneway := false,
    psks := [], myTurn := false, msgs := [], pos := 0, rng := [] }

def resGet (r : Res HS) : HS :=
  match r with
  | .ok a => a
  | _ => dummyHS

/-- The XX initiator and responder `Builder::build` returns for `C02Build.xxI` / `xxR`. -/
def exA : HS := resGet (build exSuite exAv xxI)
def exB : HS := resGet (build exSuite exAv xxR)

theorem build_exA : build exSuite exAv xxI = .ok exA := by decide +kernel
theorem build_exB : build exSuite exAv xxR = .ok exB := by decide +kernel

/-- 70 zero bytes: long enough for the `s` field of message 3, so the reader decrypts (and rejects). -/
def garbage : Bytes := List.replicate 70 0

/-- The exchange with attempts: message 1 and message 2 without extra calls (`simpleRound`);
    for message 3 (`s, se`) the initiator first writes into a 60-byte buffer, which fails with `Input`
    AFTER the `s` field was encrypted and the `se` key installed; the responder attempts a write out
    of turn; the initiator retries with a 200-byte buffer; the responder reads 70 zero bytes (a
    decryption is attempted and fails) and then the genuine message. -/
def exRounds : List Round :=
  [ simpleRound true [] [1] 100 [] 10,
    simpleRound false [] [] 300 [] 0,
    { pre := [(true, .write [2, 3] 60), (false, .write [5] 100)], p := [2, 3], cap := 200,
      mid := [(false, .read garbage 100)], capr := 5 } ]

/-- Kernel evaluation 1: every extra call of the run returns an error (`AttFails`). -/
theorem scenario_fails : attFailsB exSuite true (exA, exB) exRounds = true := by decide +kernel

/-- Kernel evaluation 2 (the merged history log has 31 entries; the first 14 are messages 1 and 2
    and their reads).  Entries 14..26, the calls around message 3, have the shape (1 call start,
    100+n KDF installation at nonce n, 200+n encryption at nonce n, 300+n restore to nonce n, 400+n
    decryption at nonce n): the failing message 3 (`enc` at nonce 1, installation of the `se` key,
    `restore` to nonce 1); the responder's out-of-turn write (`restore`); the retry (`enc` at nonce
    1 again, installation, payload at nonce 0); the garbage read (a rejected `dec` at nonce 1,
    `restore`).  The entries at positions 15 (failed write) and 21 (retry) are the same `enc`
    event; no KDF installation of that key lies between them (the one at position 16 installs
    another key); on the merged real log these are positions 6 and 7: an encryption under
    (key, nonce 1), twice, of the same data. -/
theorem scenario2 :
    (((mhistG exSuite (exA, exB) (attOps exSuite true (exA, exB) exRounds)).take 27).drop 14).map hshape =
      [1, 201, 100, 301, 1, 301, 1, 201, 100, 200, 1, 401, 301] ∧
    (mhistG exSuite (exA, exB) (attOps exSuite true (exA, exB) exRounds))[15]? =
      (mhistG exSuite (exA, exB) (attOps exSuite true (exA, exB) exRounds))[21]? ∧
    (((mhistG exSuite (exA, exB) (attOps exSuite true (exA, exB) exRounds)).take 21).drop 15).any
      (installsKey (encParts ((mhistEv exSuite (exA, exB) (attOps exSuite true (exA, exB) exRounds))[6]?)).1) = false ∧
    (mhistEv exSuite (exA, exB) (attOps exSuite true (exA, exB) exRounds))[6]? =
      (mhistEv exSuite (exA, exB) (attOps exSuite true (exA, exB) exRounds))[7]? ∧
    (mhistEv exSuite (exA, exB) (attOps exSuite true (exA, exB) exRounds))[6]? =
      some (.enc (encParts ((mhistEv exSuite (exA, exB) (attOps exSuite true (exA, exB) exRounds))[6]?)).1 1
        (encParts ((mhistEv exSuite (exA, exB) (attOps exSuite true (exA, exB) exRounds))[6]?)).2.2.1
        (encParts ((mhistEv exSuite (exA, exB) (attOps exSuite true (exA, exB) exRounds))[6]?)).2.2.2) := by
  decide +kernel

theorem ex_plan : PlanOk exSuite [[.e], [.e, .ee, .s, .es], [.s, .se]] (planOf exRounds) := by
  show PlanOk exSuite _ [([1], 100, 10), ([], 300, 0), ([2, 3], 200, 5)]
  simp only [PlanOk]; decide

/-- `built_attempts_no_reuse` applies to this run (its hypotheses hold: a matching built pair, a
    plan that fits, every extra call fails): all three messages are delivered although message 3
    first failed and garbage was read, both parties end with the same handshake hash, and the
    conclusion holds at the two encryptions of the `s` field of message 3, positions 6 and 7 of the
    merged real log. -/
example : AttDelivered exSuite true (exA, exB) exRounds ∧
    (mrun exSuite (exA, exB) (attOps exSuite true (exA, exB) exRounds)).1.getHandshakeHash =
      (mrun exSuite (exA, exB) (attOps exSuite true (exA, exB) exRounds)).2.getHandshakeHash ∧
    ∀ (k : Bytes) (n : UInt64) (a1 p1 a2 p2 : Bytes),
      (mhistEv exSuite (exA, exB) (attOps exSuite true (exA, exB) exRounds))[6]? = some (.enc k n a1 p1) →
      (mhistEv exSuite (exA, exB) (attOps exSuite true (exA, exB) exRounds))[7]? = some (.enc k n a2 p2) →
      (a1 = a2 ∧ p1 = p2) ∨
      ∃ (i' j' c m : Nat) (ck : Bytes), i' < j' ∧
        (mhistG exSuite (exA, exB) (attOps exSuite true (exA, exB) exRounds))[i']? = some (HEv.g (.ev (.enc k n a1 p1))) ∧
        (mhistG exSuite (exA, exB) (attOps exSuite true (exA, exB) exRounds))[j']? = some (HEv.g (.ev (.enc k n a2 p2))) ∧
        c ≤ i' ∧ (mhistG exSuite (exA, exB) (attOps exSuite true (exA, exB) exRounds))[c]? = some HEv.callStart ∧
        (∀ c' : Nat, c < c' → c' ≤ i' →
          (mhistG exSuite (exA, exB) (attOps exSuite true (exA, exB) exRounds))[c']? ≠ some HEv.callStart) ∧
        c ≤ m ∧ m < j' ∧
        (mhistG exSuite (exA, exB) (attOps exSuite true (exA, exB) exRounds))[m]? = some (HEv.g (.install k 0)) ∧
        IsKdfKey exSuite ck k := by
  obtain ⟨h1, h2, _, h4⟩ :=
    built_attempts_no_reuse exSuite (Theorems.C18.toy_suite_encLen 0 0 0) (Theorems.C18.toy_suite_decEnc 0 0 0)
      (Theorems.C18.toy_suite_pubLen 0 0 0) (Theorems.C18.toy_suite_privTotal 0 0 0) (Theorems.C18.toy_suite_dhComm 0 0 0)
      (Theorems.C18.toy_suite_dhTotal 0 0 0) exAv xxI xxR xx_matching exA exB build_exA build_exB (by decide)
      { preI := [], preR := [], msgs := [[.e], [.e, .ee, .s, .es], [.s, .se]] } (by decide)
      exRounds ex_plan (attFails_of_check _ _ _ _ scenario_fails)
  exact ⟨h1, h2, fun k n a1 p1 a2 p2 hi hj => h4 6 7 (by omega) k n a1 p1 a2 p2 hi hj⟩

end Ex

end SnowVerif.Theorems.C06Attempts
