/-
  C09 (continued)  Counter accounting over whole histories of one stateful transport state.

  For EVERY finite sequence of operations -- writes and reads with any arguments, explicit
  receiving-nonce settings, rekeys of either direction, manual rekeys -- on any transport state:

  * `send_nonce_counts`: the sending counter at the end is the counter at the start plus the number
    of successful writes, as natural numbers (so it never wraps) -- "increases by exactly one per
    successfully written message and never otherwise";
  * `recv_nonce_counts`: the receiving counter at the end is `recvAcc` of the history: the last
    explicitly set value (or the initial one) plus the number of successful reads since;
  * `history_reserved_never_used`: every AEAD call made by a read or a write anywhere in the history
    has a nonce other than 2^64-1; the calls with nonce 2^64-1 are the rekeys' (empty associated
    data, 32 zero bytes);
  * `fresh_counts`: from a freshly converted state (both counters 0) the counters are exactly the
    numbers of successful writes / reads (without explicit settings).
-/
import SnowVerif.Theorems.C09
import SnowVerif.Theorems.C15
import SnowVerif.Theorems.C10

namespace SnowVerif.Theorems.C09
open SnowVerif SnowVerif.Model SnowVerif.Model.TS
set_option linter.unusedVariables false
set_option linter.unusedSimpArgs false

inductive TOp where
  | write (p : Bytes) (cap : Nat)
  | read (m : Bytes) (cap : Nat)
  | setRecv (v : UInt64)
  | rekeyOut
  | rekeyIn
  | rekeyMan (ki kr : Option Bytes)
  deriving DecidableEq, Repr

/-- One operation: (did a message operation succeed?, successor state, ghost events). -/
def tStep (S : Suite) (ts : TS) : TOp → Bool × TS × List Event
  | .write p cap => ((ts.writeMessage S p cap).1.isOk, (ts.writeMessage S p cap).2.1, (ts.writeMessage S p cap).2.2)
  | .read m cap => ((ts.readMessage S m cap).1.isOk, (ts.readMessage S m cap).2.1, (ts.readMessage S m cap).2.2.2)
  | .setRecv v => (false, ts.setReceivingNonce v, [])
  | .rekeyOut => (false, (ts.rekeyOutgoing S).1, (ts.rekeyOutgoing S).2)
  | .rekeyIn => (false, (ts.rekeyIncoming S).1, (ts.rekeyIncoming S).2)
  | .rekeyMan ki kr => (false, ts.rekeyManually ki kr, [])

/-- Running a history: the per-operation outcomes (operation, success flag, events) and the final state. -/
def tRun (S : Suite) : TS → List TOp → List (TOp × Bool × List Event) × TS
  | ts, [] => ([], ts)
  | ts, o :: os =>
    ((o, (tStep S ts o).1, (tStep S ts o).2.2) :: (tRun S (tStep S ts o).2.1 os).1, (tRun S (tStep S ts o).2.1 os).2)

def okWrites : List (TOp × Bool × List Event) → Nat
  | [] => 0
  | (.write _ _, true, _) :: r => okWrites r + 1
  | _ :: r => okWrites r

/-- The receiving counter the history accounts for, starting from `n0`: an explicit setting
    replaces it, a successful read adds one. -/
def recvAcc : Nat → List (TOp × Bool × List Event) → Nat
  | n, [] => n
  | _, (.setRecv v, _, _) :: r => recvAcc v.toNat r
  | n, (.read _ _, true, _) :: r => recvAcc (n + 1) r
  | n, _ :: r => recvAcc n r

private theorem succ_toNat (n : UInt64) (h : n ≠ MAXN) : (n + 1).toNat = n.toNat + 1 := by
  have : n.toNat < 2 ^ 64 - 1 := by
    have h1 : n.toNat < 2 ^ 64 := n.toNat_lt
    have h2 : n.toNat ≠ 2 ^ 64 - 1 := by
      intro hc; apply h; apply UInt64.toNat_inj.mp; simpa [MAXN, CipherState.nonceMax] using hc
    omega
  rw [UInt64.toNat_add]; simp; omega

theorem sendingNonce_eq (ts : TS) : ts.sendingNonce = ts.sendCs.n := by
  unfold sendingNonce sendCs; cases ts.initiator <;> rfl
theorem receivingNonce_eq (ts : TS) : ts.receivingNonce = ts.recvCs.n := by
  unfold receivingNonce recvCs; cases ts.initiator <;> rfl

/-- The effect of one operation on the two counters. -/
theorem tStep_counters (S : Suite) (ts : TS) (o : TOp) :
    ((tStep S ts o).2.1.sendingNonce.toNat =
        ts.sendingNonce.toNat + (match o, (tStep S ts o).1 with | .write _ _, true => 1 | _, _ => 0)) ∧
    ((tStep S ts o).2.1.receivingNonce.toNat =
        (match o, (tStep S ts o).1 with
         | .setRecv v, _ => v.toNat
         | .read _ _, true => ts.receivingNonce.toNat + 1
         | _, _ => ts.receivingNonce.toNat)) := by
  cases o with
  | write p cap =>
    simp only [tStep]
    cases hr : ts.writeMessage S p cap with
    | mk r rest =>
      obtain ⟨ts', ev⟩ := rest
      cases r with
      | ok c =>
        obtain ⟨h1, h2, h3, _⟩ := t_write_ok S ts p cap c ts' ev hr
        simp only [Res.isOk]
        rw [h2, h3, succ_toNat _ h1]; simp
      | err e =>
        obtain ⟨h1, _⟩ := t_write_err S ts p cap e ts' ev hr
        simp [Res.isOk, h1]
      | panic z =>
        have := C10.t_write_total S ts p cap
        rw [hr] at this; simp [Res.isPanic] at this
  | read m cap =>
    simp only [tStep]
    cases hr : ts.readMessage S m cap with
    | mk r rest =>
      obtain ⟨ts', buf, ev⟩ := rest
      cases r with
      | ok p =>
        obtain ⟨h1, h2, h3, _⟩ := t_read_ok S ts m cap p ts' buf ev hr
        simp only [Res.isOk]
        rw [h2, h3, succ_toNat _ h1]; simp
      | err e =>
        have h1 := t_read_err S ts m cap e ts' buf ev hr
        simp [Res.isOk, h1]
      | panic z =>
        have := C10.t_read_total S ts m cap
        rw [hr] at this; simp [Res.isPanic] at this
  | setRecv v =>
    obtain ⟨h1, h2, _⟩ := set_receiving_nonce ts v
    simp only [tStep]
    rw [h1, sendingNonce_eq, sendingNonce_eq, h2]; simp
  | rekeyOut =>
    obtain ⟨_, o2, o3, _⟩ := C15.rekey_outgoing_spec S ts
    simp only [tStep]
    rw [sendingNonce_eq, sendingNonce_eq, receivingNonce_eq, receivingNonce_eq, o2, o3]; simp
  | rekeyIn =>
    obtain ⟨_, i2, i3, _⟩ := C15.rekey_incoming_spec S ts
    simp only [tStep]
    rw [sendingNonce_eq, sendingNonce_eq, receivingNonce_eq, receivingNonce_eq, i2, i3]; simp
  | rekeyMan ki kr =>
    obtain ⟨_, _, m3, m4, m5⟩ := C15.rekey_manually_spec ts ki kr
    simp only [tStep]
    unfold sendingNonce receivingNonce
    rw [m5, m3, m4]; simp

/-- **The sending counter counts the successful writes, and nothing else.** -/
theorem send_nonce_counts (S : Suite) (ops : List TOp) : ∀ ts : TS,
    (tRun S ts ops).2.sendingNonce.toNat = ts.sendingNonce.toNat + okWrites (tRun S ts ops).1 := by
  induction ops with
  | nil => intro ts; simp [tRun, okWrites]
  | cons o os ih =>
    intro ts
    simp only [tRun]
    rw [ih, (tStep_counters S ts o).1]
    cases o <;> cases hb : (tStep S ts _).1 <;> simp [okWrites, hb] <;> omega

/-- **The receiving counter is the last explicitly set value plus the successful reads since.** -/
theorem recv_nonce_counts (S : Suite) (ops : List TOp) : ∀ ts : TS,
    (tRun S ts ops).2.receivingNonce.toNat = recvAcc ts.receivingNonce.toNat (tRun S ts ops).1 := by
  induction ops with
  | nil => intro ts; simp [tRun, recvAcc]
  | cons o os ih =>
    intro ts
    simp only [tRun]
    rw [ih, (tStep_counters S ts o).2]
    cases o <;> cases hb : (tStep S ts _).1 <;> simp [recvAcc, hb]

/-- From a freshly converted state the counters are the numbers of successful messages. -/
theorem fresh_counts (S : Suite) (ts : TS) (h0 : ts.sendingNonce = 0 ∧ ts.receivingNonce = 0) (ops : List TOp) :
    (tRun S ts ops).2.sendingNonce.toNat = okWrites (tRun S ts ops).1 ∧
    (tRun S ts ops).2.receivingNonce.toNat = recvAcc 0 (tRun S ts ops).1 := by
  have a := send_nonce_counts S ops ts
  have b := recv_nonce_counts S ops ts
  rw [h0.1] at a; rw [h0.2] at b
  constructor
  · rw [a]; simp
  · rw [b]; simp

/-- In particular the sending counter never exceeds 2^64-1 and never decreases. -/
theorem send_nonce_monotone (S : Suite) (ops : List TOp) (ts : TS) :
    ts.sendingNonce.toNat ≤ (tRun S ts ops).2.sendingNonce.toNat := by
  rw [send_nonce_counts]; omega

/-- Which events of a history were produced by message operations. -/
def msgEvents : List (TOp × Bool × List Event) → List Event
  | [] => []
  | (.write _ _, _, ev) :: r => ev ++ msgEvents r
  | (.read _ _, _, ev) :: r => ev ++ msgEvents r
  | _ :: r => msgEvents r

/-- **The reserved nonce over whole histories**: no AEAD call made by any read or write of any
    history uses nonce 2^64-1. -/
theorem history_reserved_never_used (S : Suite) (ops : List TOp) : ∀ ts : TS,
    ∀ e ∈ msgEvents (tRun S ts ops).1, EventNonceOk e := by
  induction ops with
  | nil => intro ts e he; simp [tRun, msgEvents] at he
  | cons o os ih =>
    intro ts e he
    simp only [tRun] at he
    cases o with
    | write p cap =>
      simp only [msgEvents, List.mem_append, tStep] at he
      rcases he with he | he
      · exact reserved_never_used_write S ts p cap e he
      · exact ih _ e he
    | read m cap =>
      simp only [msgEvents, List.mem_append, tStep] at he
      rcases he with he | he
      · exact reserved_never_used_read S ts m cap e he
      · exact ih _ e he
    | setRecv v => exact ih _ e (by simpa [msgEvents] using he)
    | rekeyOut => exact ih _ e (by simpa [msgEvents] using he)
    | rekeyIn => exact ih _ e (by simpa [msgEvents] using he)
    | rekeyMan ki kr => exact ih _ e (by simpa [msgEvents] using he)

/-! ### Non-vacuity (toy suite): a history with a refused write at the boundary -/
namespace ExHist
def S0 : Suite := Toy.suite 0 0 0
def t0 : TS := { cs1 := { key := List.replicate 32 1, n := 0, hasKey := true }, cs2 := { key := List.replicate 32 2, n := 0, hasKey := true },
                 oneway := false, pubLen := 32, rs := { val := [], on := false }, initiator := true }
def h0 : List TOp := [.write [1] 17, .write [2] 3, .rekeyOut, .write [] 16, .setRecv 7, .read [0] 0, .rekeyMan none (some (List.replicate 32 9)), .write [3, 4] 40]
/-- Three of the four writes succeed (one has too small a buffer), the explicit setting stands
    (the garbage read is rejected): a test of the definitions, not the theorem. -/
example : okWrites (tRun S0 t0 h0).1 = 3 ∧ (tRun S0 t0 h0).2.sendingNonce = 3 ∧ (tRun S0 t0 h0).2.receivingNonce = 7 ∧
    recvAcc 0 (tRun S0 t0 h0).1 = 7 := by decide +kernel
end ExHist

end SnowVerif.Theorems.C09
