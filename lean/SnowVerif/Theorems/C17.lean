/-
  C17  The reported remote static key is the peer's true, complete public key.

  The honest-run invariant `Sync S k A B` (Lemmas/Honest.lean; established by `build` for
  consistent parties and preserved by every honest message, C02) records in `k` which static keys
  have been conveyed so far (pre-shared, or sent in a message that has been read successfully).
  * conveyed  -> `get_remote_static()` is `Some(peer's full public key)` (all `pubLen` bytes);
  * not yet conveyed -> `None`;
  * conversion to stateful / stateless transport mode preserves the value exactly
    (this is the clause the unrepaired code violated for P-256: D6 in DESIGN.md).
  A failed read does not change the reported value (C07 `hs_read_err_noop`: `rs` is restored).
-/
import SnowVerif.Lemmas.Honest3
import SnowVerif.Theorems.C07

namespace SnowVerif.Theorems.C17
open SnowVerif SnowVerif.Model SnowVerif.Model.HS
set_option linter.unusedVariables false
set_option linter.unusedSimpArgs false

theorem keyOk_reported (S : Suite) (hPL : S.PubLen) (kp : Toggle KeyPair) (peer : Toggle Bytes) (h : KeyOk S kp peer) :
    (if peer.on then some (peer.val.take S.pubLen) else none) = some kp.val.pub ∧ kp.val.pub.length = S.pubLen := by
  have hl : kp.val.pub.length = S.pubLen := by rw [h.pub]; exact hPL _
  rw [h.peerOn, h.val]
  simp only [↓reduceIte]
  exact ⟨by rw [← hl, List.take_length], hl⟩

/-- The initiator's view: as soon as the responder's static key has been conveyed it is reported
    completely; before that (and if the pattern never conveys it) nothing is reported. -/
theorem initiator_remote_static (S : Suite) (hPL : S.PubLen) {k : Spec.Keys} {A B : HS} (h : Sync S k A B) :
    (k.rS = true → A.getRemoteStatic S = some B.s.val.pub ∧ B.s.val.pub.length = S.pubLen) ∧
    (k.rS = false → A.getRemoteStatic S = none) := by
  unfold HS.getRemoteStatic
  constructor
  · intro hk; exact keyOk_reported S hPL _ _ (h.rS hk)
  · intro hk; rw [h.nrS hk]; rfl

/-- The responder's view, symmetrically. -/
theorem responder_remote_static (S : Suite) (hPL : S.PubLen) {k : Spec.Keys} {A B : HS} (h : Sync S k A B) :
    (k.iS = true → B.getRemoteStatic S = some A.s.val.pub ∧ A.s.val.pub.length = S.pubLen) ∧
    (k.iS = false → B.getRemoteStatic S = none) := by
  unfold HS.getRemoteStatic
  constructor
  · intro hk; exact keyOk_reported S hPL _ _ (h.iS hk)
  · intro hk; rw [h.niS hk]; rfl

/-- The record `k` says "conveyed" exactly when an `s` token of that party has been processed
    (pre-message or message): the only token that sets `iS` / `rS`. -/
theorem conveyed_only_by_s (ini : Bool) (k k' : Spec.Keys) (t : Tok) (h : k.step ini t = some k') (ht : t ≠ .s) :
    k'.iS = k.iS ∧ k'.rS = k.rS := by
  cases t <;> simp only [Spec.Keys.step] at h <;> (try exact absurd rfl ht) <;>
    (repeat' split at h) <;> simp at h <;> (try subst h) <;> first | exact ⟨rfl, rfl⟩ | (obtain ⟨_, rfl⟩ := h; exact ⟨rfl, rfl⟩)

theorem conveyed_by_s (ini : Bool) (k k' : Spec.Keys) (h : k.step ini .s = some k') :
    (ini = true → k'.iS = true ∧ k'.rS = k.rS) ∧ (ini = false → k'.rS = true ∧ k'.iS = k.iS) := by
  simp only [Spec.Keys.step] at h
  repeat' split at h
  all_goals simp at h
  all_goals (try (obtain ⟨_, rfl⟩ := h))
  all_goals simp_all

/-- **Conversion preserves the reported key**, for both transport modes (they share the model type),
    for every suite — in particular when `pubLen ≠ dhLen` (P-256: 65 vs 32). -/
theorem conversion_preserves (S : Suite) (hs : HS) (ts : TS) (h : TS.ofHandshake S hs = .ok ts) :
    ts.getRemoteStatic = hs.getRemoteStatic S := by
  unfold TS.ofHandshake at h
  split at h
  · simp at h
  · simp at h; subst h; rfl

/-- A failed handshake read does not change the reported key. -/
theorem failed_read_keeps_reported (S : Suite) (hs : HS) (inv : SymInv hs.sym) (m : Bytes) (cap : Nat)
    (e : Err) (hs' : HS) (buf : Bytes) (ev : List Event) (h : hs.readMessage S m cap = (.err e, hs', buf, ev)) :
    hs'.getRemoteStatic S = hs.getRemoteStatic S := by
  have := (C07.hs_read_err_noop S hs inv m cap e hs' buf ev h).2.2.2.1
  unfold HS.getRemoteStatic; rw [this]

/-- A failed handshake write does not change it either. -/
theorem failed_write_keeps_reported (S : Suite) (hs : HS) (p : Bytes) (cap : Nat)
    (e : Err) (hs' : HS) (acc : Bytes) (ev : List Event) (h : hs.writeMessage S p cap = (.err e, hs', acc, ev)) :
    hs'.getRemoteStatic S = hs.getRemoteStatic S := by
  have hf := writeInner_frame S hs p cap
  simp only at hf
  unfold writeMessage at h
  simp only at h
  cases hr : (writeInner S hs p cap).1 with
  | ok n => simp [hr] at h
  | panic q => simp [hr] at h
  | err e' =>
    simp only [hr, Prod.mk.injEq] at h
    obtain ⟨_, rfl, _, _⟩ := h
    unfold HS.getRemoteStatic
    split <;> simp only [hf.2.2.2.2.2.2.2.2.2.1]

end SnowVerif.Theorems.C17
