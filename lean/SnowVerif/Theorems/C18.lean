/-
  C18  Built-in primitives match their standards for all inputs -- the part that is snow's
  own code.

  * `types.rs`: the default `Hash::hmac`, `Hash::hkdf` and `Cipher::rekey` methods equal
    RFC 2104 HMAC, the Noise `HKDF` (section 4.3) and the Noise `REKEY` (section 4.2) over
    the same hash / AEAD, for every hash and AEAD, all keys, all data.
  * wrapper conventions (`resolvers/default.rs`, `resolvers/ring.rs`): the three nonce layouts
    have the right length, the right zero prefix, and are injective in the 64-bit counter.
  * the algebra of AEADs of the shape "xor with a keystream, MAC over the ciphertext":
    `EncLen`, `DecEnc`, `DecSound`; the toy suite is an instance and satisfies every law of
    `Suite` for all selector values.

  NOT covered here (parameters of the model, compared with Lean references by the differential
  test): the bodies of sha2, blake2, chacha20poly1305, aes-gcm, curve25519-dalek, p256, ring.
-/
import SnowVerif.Lemmas.C18Toy

namespace SnowVerif.Theorems.C18
open SnowVerif SnowVerif.Bytes SnowVerif.C18
set_option linter.unusedVariables false
set_option linter.unusedSimpArgs false

/-! ## 1. HMAC -/

/-- snow's `Hash::hmac` (fill two 128-byte arrays with `0x36` / `0x5c`, xor the key into their
    first bytes, hash `ipad[..block_len] ++ data`, then `opad[..block_len] ++ inner`) computes
    RFC 2104 HMAC (zero-pad the key to the block length, xor with ipad / opad) for every hash
    function, every key not longer than a block (longer keys hit the `assert!` in snow and are
    never produced by it) and all data. -/
theorem hmac_eq_rfc2104 (S : Suite) (key data : Bytes) (h : key.length ≤ S.blockLen) :
    Model.hmac S key data = Spec.hmac S key data :=
  hmac_eq_rfc S key data h

/-- Appending zero bytes to an HMAC key (staying within one block) does not change the result.
    This is why it is harmless that `hkdf` passes the whole 64-byte `temp_key` array, not its
    first `hash_len` bytes, as the HMAC key. (In the model the size hypothesis is not even needed,
    see `C18.hmac_append_zeros`: the model reads key bytes with default `0`. It is kept because
    outside it the Rust code panics on its `assert!` and the model says nothing.) -/
theorem hmac_key_zero_extend (S : Suite) (key : Bytes) (k : Nat) (data : Bytes)
    (h : key.length + k ≤ S.blockLen) :
    Model.hmac S (key ++ zeros k) data = Model.hmac S key data :=
  hmac_append_zeros S key k data

/-- The same fact on the specification side (RFC 2104 itself): zero-extending a key within the
    block gives the same MAC. -/
theorem spec_hmac_key_zero_extend (S : Suite) (key : Bytes) (k : Nat) (data : Bytes)
    (h : key.length + k ≤ S.blockLen) :
    Spec.hmac S (key ++ zeros k) data = Spec.hmac S key data := by
  rw [← hmac_eq_rfc S _ _ (by simp only [List.length_append, length_zeros]; exact h),
    ← hmac_eq_rfc S _ _ (by omega)]
  exact hmac_append_zeros S key k data

/-! ## 2. HKDF -/

/-- The HMAC key of the 2nd, 3rd and 4th HMAC call inside `hkdf` is the whole `temp_key` array:
    always exactly 64 bytes. Hence the `assert!(key.len() <= block_len)` in `hmac` holds inside
    `hkdf` iff `64 ≤ block_len`: for a hash with a smaller block snow's `hkdf` panics. -/
theorem hkdf_temp_key_length (S : Suite) (ck ikm : Bytes) :
    (Model.hkdfTemp S ck ikm).length = 64 ∧
      ((Model.hkdfTemp S ck ikm).length ≤ S.blockLen ↔ 64 ≤ S.blockLen) := by
  rw [length_hkdfTemp]
  exact ⟨rfl, Iff.rfl⟩

/-- Sharp form: snow's three-output `hkdf` equals the Noise `HKDF` whenever the hash returns
    `hashLen` bytes, `hashLen ≤ 64` (the output fits the `temp_key` array) and
    `hashLen ≤ blockLen` (RFC 2104 without hashing of long keys), for every chaining key of at
    most one block and every input key material. These are the only size conditions used;
    `32 ≤ hashLen` and `blockLen ≤ 128` are not needed, and `64 ≤ blockLen` enters only through
    `hashLen ≤ blockLen` (see `hkdf_temp_key_length` for what it means for the Rust code). -/
theorem hkdf3_eq_spec_sharp (S : Suite) (hL : S.HashLen) (h64 : S.hashLen ≤ 64)
    (hb : S.hashLen ≤ S.blockLen) (ck ikm : Bytes) (hck : ck.length ≤ S.blockLen) :
    Model.hkdf3 S ck ikm = Spec.hkdf S ck ikm := by
  unfold Model.hkdf3 Spec.hkdf
  simp only [hmac_hkdfTemp S hL h64 hb ck ikm _ hck]

/-- Sharp form for two outputs (`MixKey`, `Split`). -/
theorem hkdf2_eq_spec_sharp (S : Suite) (hL : S.HashLen) (h64 : S.hashLen ≤ 64)
    (hb : S.hashLen ≤ S.blockLen) (ck ikm : Bytes) (hck : ck.length ≤ S.blockLen) :
    Model.hkdf2 S ck ikm = ((Spec.hkdf S ck ikm).1, (Spec.hkdf S ck ikm).2.1) := by
  unfold Model.hkdf2 Spec.hkdf
  simp only [hmac_hkdfTemp S hL h64 hb ck ikm _ hck]

/-- snow's `Hash::hkdf` with three outputs equals the Noise specification's
    `HKDF(chaining_key, input_key_material, 3)` for every hash satisfying snow's size
    constraints (32 ≤ hashLen ≤ 64 ≤ blockLen ≤ 128: all of SHA-256, SHA-512, BLAKE2s, BLAKE2b),
    all chaining keys of at most one block and all input key material. -/
theorem hkdf_eq_spec (S : Suite) (hL : S.HashLen) (hS : S.Sizes) (ck ikm : Bytes)
    (hck : ck.length ≤ S.blockLen) :
    Model.hkdf3 S ck ikm = Spec.hkdf S ck ikm :=
  hkdf3_eq_spec_sharp S hL hS.2.1 (Nat.le_trans hS.2.1 hS.2.2.1) ck ikm hck

/-- The two-output form used by `MixKey` and `Split` returns the first two outputs of the
    specification's HKDF. -/
theorem hkdf2_eq_spec (S : Suite) (hL : S.HashLen) (hS : S.Sizes) (ck ikm : Bytes)
    (hck : ck.length ≤ S.blockLen) :
    Model.hkdf2 S ck ikm = ((Spec.hkdf S ck ikm).1, (Spec.hkdf S ck ikm).2.1) :=
  hkdf2_eq_spec_sharp S hL hS.2.1 (Nat.le_trans hS.2.1 hS.2.2.1) ck ikm hck

/-- In the handshake the chaining key is always a hash output, so the side condition on `ck`
    holds: `hashLen ≤ blockLen`. -/
theorem hkdf_eq_spec_ck (S : Suite) (hL : S.HashLen) (hS : S.Sizes) (ck ikm : Bytes)
    (hck : ck.length = S.hashLen) :
    Model.hkdf3 S ck ikm = Spec.hkdf S ck ikm ∧
      Model.hkdf2 S ck ikm = ((Spec.hkdf S ck ikm).1, (Spec.hkdf S ck ikm).2.1) := by
  have : ck.length ≤ S.blockLen := by
    rw [hck]; exact Nat.le_trans hS.2.1 hS.2.2.1
  exact ⟨hkdf_eq_spec S hL hS ck ikm this, hkdf2_eq_spec S hL hS ck ikm this⟩

/-! ### The size conditions cannot simply be dropped

  Two fake "hashes" that return the last (reversed) resp. first `hashLen` bytes of their input,
  zero-padded.
  `badBlock`: `hashLen = 64`, `blockLen = 32 < 64`; it satisfies `HashLen` and every conjunct of
  `Sizes` except `64 ≤ blockLen`, and the (total) model of `hkdf` differs from the specification.
  The real code does not even get that far: it panics on `assert!(key.len() <= block_len)`.
  `badHash`: `hashLen = 96 > 64 = MAXHASHLEN`, `blockLen = 128`; `temp_key` would be truncated
  (the real code panics on `inner_output[..hash_len]`). -/

def badBlock : Suite :=
  { Toy.suite 0 0 0 with hashLen := 64, blockLen := 32, hash := fun d => fit 64 d.reverse }

def badHash : Suite :=
  { Toy.suite 0 0 0 with hashLen := 96, blockLen := 128, hash := fun d => fit 96 d }

theorem badBlock_hashLen : badBlock.HashLen := fun d => length_fit 64 d.reverse
theorem badBlock_sizes_but_one :
    32 ≤ badBlock.hashLen ∧ badBlock.hashLen ≤ 64 ∧ badBlock.blockLen < 64 ∧ badBlock.blockLen ≤ 128 := by
  decide

/-- Without `64 ≤ blockLen` (more precisely without `hashLen ≤ blockLen`) `hkdf_eq_spec` is false. -/
theorem hkdf_ne_spec_small_block : Model.hkdf3 badBlock [] [] ≠ Spec.hkdf badBlock [] [] := by
  decide +kernel

theorem badHash_hashLen : badHash.HashLen := fun d => length_fit 96 d

/-- Without `hashLen ≤ 64` `hkdf_eq_spec` is false as well. -/
theorem hkdf_ne_spec_long_hash : Model.hkdf3 badHash [] [] ≠ Spec.hkdf badHash [] [] := by
  decide +kernel

/-! ## 3. Cipher key extraction and REKEY -/

/-- `cipher_key.copy_from_slice(&out[..CIPHERKEYLEN])`: when the HKDF output has at least 32
    bytes, the installed cipher key is its first 32 bytes, which is the specification's
    "truncate to 32 bytes". -/
theorem key32_eq_take (b : Bytes) (h : 32 ≤ b.length) : Model.key32 b = b.take 32 :=
  fit_eq_take 32 b h

/-- For every suite with `32 ≤ hashLen` the key taken from any HMAC/HKDF output is its 32-byte
    prefix, and it is 32 bytes long. -/
theorem key32_hmac (S : Suite) (hL : S.HashLen) (hS : S.Sizes) (key data : Bytes) :
    Model.key32 (Model.hmac S key data) = (Model.hmac S key data).take 32
      ∧ (Model.key32 (Model.hmac S key data)).length = 32 := by
  refine ⟨key32_eq_take _ (by rw [length_hmac S hL]; exact hS.1), length_fit 32 _⟩

/-- snow's default `Cipher::rekey` is the specification's `REKEY(k)`: the first 32 bytes of
    `ENCRYPT(k, 2^64-1, "", 0^32)`, for every AEAD and every key. -/
theorem rekey_eq_spec (S : Suite) (k : Bytes) : Model.rekeyKey S k = Spec.rekey S k := rfl

/-- With an AEAD that returns `len + 16` bytes the rekeyed key is 32 bytes long (the
    `assert_eq!(ciphertext_len, 48)` in `rekey` holds). -/
theorem rekey_length (S : Suite) (hE : S.EncLen) (k : Bytes) :
    (S.enc k 0xFFFFFFFFFFFFFFFF [] (zeros 32)).length = 48 ∧ (Model.rekeyKey S k).length = 32 := by
  have h := hE k 0xFFFFFFFFFFFFFFFF [] (zeros 32)
  rw [length_zeros] at h
  refine ⟨h, ?_⟩
  unfold Model.rekeyKey
  rw [List.length_take, h]
  rfl

/-! ## 4. Nonce layouts of the AEAD wrappers -/

/-- `u64::to_le_bytes` is injective, with left inverse `u64::from_le_bytes`. -/
theorem le64_left_inverse (n : UInt64) : unLe64 (le64 n) = n := unLe64_le64 n

/-- `u64::to_be_bytes` is injective, with left inverse `u64::from_be_bytes`. -/
theorem be64_left_inverse (n : UInt64) : unBe64 (be64 n) = n := unBe64_be64 n

/-- ChaCha20-Poly1305 wrapper: the 96-bit nonce is 4 zero bytes followed by the counter in
    little-endian order (Noise section 12.3); 12 bytes for every counter value. -/
theorem nonce_layout_chacha (n : UInt64) :
    (Real.nonceChaCha n).length = 12 ∧ (Real.nonceChaCha n).take 4 = [0, 0, 0, 0]
      ∧ (Real.nonceChaCha n).drop 4 = le64 n := by
  unfold Real.nonceChaCha
  refine ⟨by rw [List.length_append, length_zeros, length_le64], ?_, ?_⟩
  · exact List.take_left' (length_zeros 4)
  · exact List.drop_left' (length_zeros 4)

/-- AES-256-GCM wrapper: 4 zero bytes followed by the counter in big-endian order
    (Noise section 12.4). -/
theorem nonce_layout_gcm (n : UInt64) :
    (Real.nonceGcm n).length = 12 ∧ (Real.nonceGcm n).take 4 = [0, 0, 0, 0]
      ∧ (Real.nonceGcm n).drop 4 = be64 n := by
  unfold Real.nonceGcm
  refine ⟨by rw [List.length_append, length_zeros, length_be64], ?_, ?_⟩
  · exact List.take_left' (length_zeros 4)
  · exact List.drop_left' (length_zeros 4)

/-- XChaCha20-Poly1305 wrapper (snow's extension): the 192-bit nonce is 16 zero bytes followed by
    the counter in little-endian order. -/
theorem nonce_layout_xchacha (n : UInt64) :
    (Real.nonceXChaCha n).length = 24 ∧ (Real.nonceXChaCha n).take 16 = zeros 16
      ∧ (Real.nonceXChaCha n).drop 16 = le64 n := by
  unfold Real.nonceXChaCha
  refine ⟨by rw [List.length_append, length_zeros, length_le64], ?_, ?_⟩
  · exact List.take_left' (length_zeros 16)
  · exact List.drop_left' (length_zeros 16)

/-- Different counters give different ChaCha20-Poly1305 nonces, over all of `u64` (including
    values with high bytes set). -/
theorem nonceChaCha_injective {a b : UInt64} (h : Real.nonceChaCha a = Real.nonceChaCha b) : a = b :=
  le64_injective (List.append_cancel_left h)

/-- Different counters give different AES-GCM nonces. -/
theorem nonceGcm_injective {a b : UInt64} (h : Real.nonceGcm a = Real.nonceGcm b) : a = b :=
  be64_injective (List.append_cancel_left h)

/-- Different counters give different XChaCha20-Poly1305 nonces. -/
theorem nonceXChaCha_injective {a b : UInt64} (h : Real.nonceXChaCha a = Real.nonceXChaCha b) :
    a = b :=
  le64_injective (List.append_cancel_left h)

/-- The AEAD wrappers of the default and ring resolvers are the stream+MAC construction over the
    reference keystream and the reference tag function, and those are called with exactly
    `(key, layout n, ...)`: the reference stream cipher on `len` zero bytes (ChaCha20 from block
    counter 1, AES-256 GCTR from counter block `IV ‖ 2`) and the reference tag over `(ad, ct)`;
    `fit` only fixes the output length. ring and default use the same functions.
    (In the Lean suite this is by definition; the tie to the Rust wrappers, and to the
    references' own one-piece `aeadEncrypt`/`gcmEncrypt`, is the differential test and
    `Real.wrapperSelfTest`. The laws these wrappers satisfy are in `Theorems/C18Real.lean`.) -/
theorem wrapper_enc_dec (k : Bytes) (n : UInt64) (ad d : Bytes) (len : Nat) :
    ((Real.cipherImpl .default 0).enc k n ad d = smEnc Real.ksChaCha Real.macChaCha k n ad d
      ∧ (Real.cipherImpl .default 0).dec k n ad d = smDec Real.ksChaCha Real.macChaCha k n ad d)
    ∧ ((Real.cipherImpl .default 1).enc k n ad d = smEnc Real.ksXChaCha Real.macXChaCha k n ad d
      ∧ (Real.cipherImpl .default 1).dec k n ad d = smDec Real.ksXChaCha Real.macXChaCha k n ad d)
    ∧ ((Real.cipherImpl .default 2).enc k n ad d = smEnc Real.ksGcm Real.macGcm k n ad d
      ∧ (Real.cipherImpl .default 2).dec k n ad d = smDec Real.ksGcm Real.macGcm k n ad d)
    ∧ ((Real.cipherImpl .ring 0).enc k n ad d = smEnc Real.ksChaCha Real.macChaCha k n ad d
      ∧ (Real.cipherImpl .ring 0).dec k n ad d = smDec Real.ksChaCha Real.macChaCha k n ad d)
    ∧ ((Real.cipherImpl .ring 2).enc k n ad d = smEnc Real.ksGcm Real.macGcm k n ad d
      ∧ (Real.cipherImpl .ring 2).dec k n ad d = smDec Real.ksGcm Real.macGcm k n ad d)
    ∧ Real.ksChaCha k n len
        = fit len (Crypto.ChaChaPoly.chacha20Xor k (Real.nonceChaCha n) 1 (zeros len))
    ∧ Real.macChaCha k n ad d
        = fit 16 (Crypto.ChaChaPoly.toList (Crypto.ChaChaPoly.aeadTagBA (Crypto.ChaChaPoly.ofList k)
            (Crypto.ChaChaPoly.ofList (Real.nonceChaCha n)) (Crypto.ChaChaPoly.ofList ad)
            (Crypto.ChaChaPoly.ofList d)))
    ∧ Real.ksGcm k n len
        = fit len (Crypto.AesGcm.gctr (Crypto.AesGcm.expandKey ⟨(fit 32 k).toArray⟩)
            ⟨(Real.nonceGcm n).toArray⟩ ⟨(zeros len).toArray⟩).data.toList
    ∧ Real.macGcm k n ad d
        = fit 16 (Crypto.AesGcm.computeTag (Crypto.AesGcm.expandKey ⟨(fit 32 k).toArray⟩)
            ⟨(Real.nonceGcm n).toArray⟩ ⟨ad.toArray⟩ ⟨d.toArray⟩).data.toList :=
  ⟨⟨rfl, rfl⟩, ⟨rfl, rfl⟩, ⟨rfl, rfl⟩, ⟨rfl, rfl⟩, ⟨rfl, rfl⟩, rfl, rfl, rfl, rfl⟩

/-! ## 5. AEADs of the shape "keystream xor, then MAC over the ciphertext" -/

/-- A stream+MAC AEAD: any keystream function returning the requested number of bytes and any
    MAC function returning 16 bytes. -/
structure StreamMac where
  ks  : Bytes → UInt64 → Nat → Bytes
  mac : Bytes → UInt64 → Bytes → Bytes → Bytes
  ks_len  : ∀ k n len, (ks k n len).length = len
  mac_len : ∀ k n ad c, (mac k n ad c).length = 16

def StreamMac.enc (A : StreamMac) := smEnc A.ks A.mac
def StreamMac.dec (A : StreamMac) := smDec A.ks A.mac

/-- Ciphertext length = plaintext length + 16, for every stream+MAC AEAD. -/
theorem streamMac_encLen (A : StreamMac) (k : Bytes) (n : UInt64) (ad p : Bytes) :
    (A.enc k n ad p).length = p.length + 16 :=
  sm_encLen A.ks_len A.mac_len k n ad p

/-- Decryption inverts encryption, for every stream+MAC AEAD, all keys, nonces, AD, plaintexts. -/
theorem streamMac_decEnc (A : StreamMac) (k : Bytes) (n : UInt64) (ad p : Bytes) :
    A.dec k n ad (A.enc k n ad p) = some p :=
  sm_decEnc A.ks_len A.mac_len k n ad p

/-- ... and it rejects everything else: whatever is accepted is the encryption of the plaintext
    returned (under the same key, nonce and AD). -/
theorem streamMac_decSound (A : StreamMac) (k : Bytes) (n : UInt64) (ad c p : Bytes)
    (h : A.dec k n ad c = some p) : c = A.enc k n ad p :=
  sm_decSound A.ks_len k n ad c p h

/-- Consequently for fixed `(k, n, ad)` encryption is injective and a ciphertext has at most one
    plaintext. -/
theorem streamMac_enc_injective (A : StreamMac) (k : Bytes) (n : UInt64) (ad p q : Bytes)
    (h : A.enc k n ad p = A.enc k n ad q) : p = q := by
  have h1 := streamMac_decEnc A k n ad p
  rw [h, streamMac_decEnc] at h1
  exact (Option.some.inj h1).symm

/-- The toy AEAD with any tag byte is a stream+MAC AEAD. -/
def toyStreamMac (tag : UInt8) : StreamMac :=
  { ks := Toy.keystream tag, mac := Toy.mac tag
    ks_len := toy_keystream_length tag, mac_len := toy_mac_length tag }

theorem toy_is_streamMac (tag : UInt8) :
    Toy.enc tag = (toyStreamMac tag).enc ∧ Toy.dec tag = (toyStreamMac tag).dec := ⟨rfl, rfl⟩

/-! ## 6. The toy suite satisfies every law, for all selector values -/

theorem toy_suite_encLen (d c h : Nat) : (Toy.suite d c h).EncLen :=
  fun k n ad p => toy_encLen _ k n ad p

theorem toy_suite_decEnc (d c h : Nat) : (Toy.suite d c h).DecEnc :=
  fun k n ad p => toy_decEnc _ k n ad p

theorem toy_suite_decSound (d c h : Nat) : (Toy.suite d c h).DecSound :=
  fun k n ad ct p hd => toy_decSound _ k n ad ct p hd

theorem toy_suite_pubLen_ge (d c h : Nat) : 32 ≤ (Toy.suite d c h).pubLen := by
  show 32 ≤ (match d with | 0 => 32 | 1 => 56 | _ => 65)
  split <;> decide

theorem toy_suite_dhLen_bounds (d c h : Nat) :
    32 ≤ (Toy.suite d c h).dhLen ∧ (Toy.suite d c h).dhLen ≤ 64 := by
  show 32 ≤ (match d with | 0 => 32 | 1 => 56 | _ => 32) ∧ (match d with | 0 => 32 | 1 => 56 | _ => 32) ≤ 64
  split <;> decide

/-- The xor "DH" commutes: both sides derive the same shared secret. -/
theorem toy_suite_dhComm (d c h : Nat) : (Toy.suite d c h).DhComm :=
  fun a b => toy_dhComm _ _ _ a b (toy_suite_pubLen_ge d c h)

theorem toy_suite_dhTotal (d c h : Nat) : (Toy.suite d c h).DhTotal := by
  intro a b
  show (Toy.dh _ (Toy.suite d c h).pubLen _ a (Toy.pubOf _ (Toy.suite d c h).pubLen b)).isSome
  rw [toy_dh_pubOf _ _ _ _ _ (toy_suite_pubLen_ge d c h)]
  rfl

theorem toy_suite_pubLen (d c h : Nat) : (Toy.suite d c h).PubLen :=
  fun a => toy_pubOf_length _ _ a (toy_suite_pubLen_ge d c h)

theorem toy_suite_dhLen (d c h : Nat) : (Toy.suite d c h).DhLen :=
  fun a p r hr => toy_dh_length _ _ _ a p r (toy_suite_pubLen_ge d c h) (toy_suite_dhLen_bounds d c h) hr

theorem toy_suite_privTotal (d c h : Nat) : (Toy.suite d c h).PrivTotal := fun _ => rfl

theorem toy_suite_okBufPrefix (d c h : Nat) : (Toy.suite d c h).OkBufPrefix :=
  fun _ p _ => List.prefix_refl p

theorem toy_suite_hashLen_cases (d c h : Nat) :
    (Toy.suite d c h).hashLen = 32 ∨ (Toy.suite d c h).hashLen = 64 := by
  show (match h with | 0 => 32 | 1 => 64 | 2 => 32 | _ => 64) = 32
    ∨ (match h with | 0 => 32 | 1 => 64 | 2 => 32 | _ => 64) = 64
  split <;> simp

/-- The toy hash returns `hashLen` bytes (32 or 64) on every input. -/
theorem toy_suite_hashLen (d c h : Nat) : (Toy.suite d c h).HashLen := by
  intro data
  show (Toy.hash _ (Toy.suite d c h).hashLen data).length = (Toy.suite d c h).hashLen
  rw [toy_hash_length]
  rcases toy_suite_hashLen_cases d c h with e | e <;> rw [e]

/-- The toy hash sizes satisfy snow's array constraints. -/
theorem toy_suite_sizes (d c h : Nat) : (Toy.suite d c h).Sizes := by
  have hb : (Toy.suite d c h).blockLen = 2 * (Toy.suite d c h).hashLen := rfl
  unfold Suite.Sizes
  rw [hb]
  rcases toy_suite_hashLen_cases d c h with e | e <;> rw [e] <;> decide

/-! ## 7. Non-vacuity -/

/-- The hypotheses of `hkdf_eq_spec` are satisfiable (toy suite, any selectors), so HKDF of the
    model and of the specification agree there on all inputs ... -/
example (d c h : Nat) (ikm : Bytes) :
    Model.hkdf3 (Toy.suite d c h) (zeros 32) ikm = Spec.hkdf (Toy.suite d c h) (zeros 32) ikm :=
  hkdf_eq_spec _ (toy_suite_hashLen d c h) (toy_suite_sizes d c h) _ _ (by
    have := (toy_suite_sizes d c h).2.2.1
    rw [length_zeros]; omega)

/-- ... and the sizes of the four real hashes satisfy `Sizes` as well. -/
example (b : Real.Backend) (sel : Nat) (hb : b ≠ .toy) :
    32 ≤ (Real.hashImpl b sel).hashLen ∧ (Real.hashImpl b sel).hashLen ≤ 64
      ∧ 64 ≤ (Real.hashImpl b sel).blockLen ∧ (Real.hashImpl b sel).blockLen ≤ 128 := by
  cases b
  · exact absurd rfl hb
  all_goals
    unfold Real.hashImpl
    simp only
    split <;> decide

/-- `hmac_eq_rfc2104` on a concrete instance where the padding matters (3-byte key, toy hash):
    both sides evaluate to the same 32 bytes, and a different key gives a different MAC (so the
    equality is not between constants). -/
example : Model.hmac (Toy.suite 0 0 0) [1, 2, 3] [9] = Spec.hmac (Toy.suite 0 0 0) [1, 2, 3] [9]
    ∧ Model.hmac (Toy.suite 0 0 0) [1, 2, 3] [9] ≠ Model.hmac (Toy.suite 0 0 0) [1, 2, 4] [9]
    ∧ (Model.hmac (Toy.suite 0 0 0) [1, 2, 3] [9]).length = 32 := by
  refine ⟨hmac_eq_rfc2104 _ _ _ (by decide), by decide +kernel, toy_suite_hashLen 0 0 0 _⟩

/-- `hmac_key_zero_extend` is not about a constant function either: appending a *non-zero* byte
    changes the MAC. -/
example : Model.hmac (Toy.suite 0 0 0) ([1, 2, 3] ++ [0, 0]) [9] = Model.hmac (Toy.suite 0 0 0) [1, 2, 3] [9]
    ∧ Model.hmac (Toy.suite 0 0 0) ([1, 2, 3] ++ [0, 7]) [9] ≠ Model.hmac (Toy.suite 0 0 0) [1, 2, 3] [9] := by
  refine ⟨hmac_key_zero_extend _ [1, 2, 3] 2 [9] (by decide), by decide +kernel⟩

/-- `key32_eq_take` on a 64-byte value: truncation really happens. -/
example : Model.key32 ((List.range 64).map Nat.toUInt8) = (List.range 32).map Nat.toUInt8 := by
  decide +kernel

/-- Nonce layouts on a counter with all high bytes set. -/
example : Real.nonceChaCha 0x0102030405060708 = [0, 0, 0, 0, 8, 7, 6, 5, 4, 3, 2, 1]
    ∧ Real.nonceGcm 0x0102030405060708 = [0, 0, 0, 0, 1, 2, 3, 4, 5, 6, 7, 8]
    ∧ Real.nonceXChaCha 0xFFFFFFFFFFFFFFFF =
        [0, 0, 0, 0, 0, 0, 0, 0, 0, 0, 0, 0, 0, 0, 0, 0, 255, 255, 255, 255, 255, 255, 255, 255] := by
  decide +kernel

/-- Stream+MAC on a concrete toy instance: decrypt accepts the encryption, and rejects it with
    one byte flipped (so `DecSound`'s hypothesis is neither always true nor always false). -/
example :
    Toy.dec 0x20 (zeros 32) 5 [1] (Toy.enc 0x20 (zeros 32) 5 [1] [10, 20, 30]) = some [10, 20, 30]
    ∧ (Toy.enc 0x20 (zeros 32) 5 [1] [10, 20, 30]).length = 19
    ∧ Toy.dec 0x20 (zeros 32) 5 [1]
        ((Toy.enc 0x20 (zeros 32) 5 [1] [10, 20, 30]).set 0 0) = none := by
  decide +kernel

/-- Toy DH on concrete keys: a shared secret exists, both sides agree, it depends on the keys. -/
example :
    (Toy.suite 2 0 0).dh [1, 2, 3] ((Toy.suite 2 0 0).pubOf [4, 5, 6])
      = (Toy.suite 2 0 0).dh [4, 5, 6] ((Toy.suite 2 0 0).pubOf [1, 2, 3])
    ∧ ((Toy.suite 2 0 0).dh [1, 2, 3] ((Toy.suite 2 0 0).pubOf [4, 5, 6])).isSome
    ∧ (Toy.suite 2 0 0).dh [1, 2, 3] ((Toy.suite 2 0 0).pubOf [4, 5, 6])
      ≠ (Toy.suite 2 0 0).dh [1, 2, 3] ((Toy.suite 2 0 0).pubOf [4, 5, 7]) := by
  decide +kernel

end SnowVerif.Theorems.C18
