/-
  C12  The Builder accepts exactly the configurations the pattern needs.

  * the two hand-written prerequisite tables of `params/patterns.rs` coincide with what the
    token table says (complete enumeration of the regenerated tables);
  * the modifier loop accepts exactly the lists of `psk n` with `n ≤ #messages`, and its
    result / error is described explicitly;
  * `build` succeeds iff keys, primitives, key lengths and modifiers are as required, the
    error it returns otherwise is determined (in the code's order), it panics only in
    `Dh::set` on an invalid scalar (P-256), and the state it returns is explicit;
  * a missing PSK is `State(MissingPsk)` at the token that needs it, with no state change.

  ("A successfully built pair never fails later for missing key material" is a corollary of
  the honest-run invariant and is not proved here.)
-/
import SnowVerif.Lemmas.C12Props
import SnowVerif.Crypto.Toy

namespace SnowVerif.Theorems.C12
open SnowVerif SnowVerif.Model SnowVerif.Generated SnowVerif.Bytes SnowVerif.Lemmas.C12
set_option linter.unusedVariables false
set_option linter.unusedSimpArgs false

/-! ## 1-2. The tables -/

/-- `SUPPORTED_HANDSHAKE_PATTERNS` contains every pattern, so facts checked over the list hold
    for every pattern. -/
theorem allPatterns_complete : ∀ p : Pattern, p ∈ allPatterns :=
  Lemmas.C12.allPatterns_complete

/-- **The prerequisite tables are the token table.**  For all 38 patterns and both roles,
    `needs_local_static_key(role)` is true exactly when `s` occurs in the role's own pre-message or
    in a message the role writes, and `need_known_remote_pubkey(role)` is true exactly when `s`
    occurs in the peer's pre-message.  (No deviating pattern was found.) -/
theorem prereq_tables_eq_derived (p : Pattern) (initiator : Bool) :
    needsLocalStatic p initiator = derivedNeedsLocalStatic p initiator ∧
    needKnownRemote p initiator = derivedNeedKnownRemote p initiator :=
  Lemmas.C12.prereq_tables_eq_derived p initiator

/-- The same in words: the builder demands a local static key iff the role's static key occurs in
    the pattern. -/
theorem needsLocalStatic_iff_occurs (p : Pattern) (initiator : Bool) :
    needsLocalStatic p initiator = true ↔
      Tok.s ∈ ownPre p.tokens initiator ∨
      ∃ i, ∃ h : i < p.tokens.msgs.length,
        (i % 2 = 0 ↔ initiator = true) ∧ Tok.s ∈ p.tokens.msgs[i] := by
  rw [(prereq_tables_eq_derived p initiator).1, derivedNeedsLocalStatic_iff]

/-- The builder demands the remote static key iff the pattern pre-shares the peer's static key. -/
theorem needKnownRemote_iff_preshared (p : Pattern) (initiator : Bool) :
    needKnownRemote p initiator = true ↔ Tok.s ∈ peerPre p.tokens initiator := by
  rw [(prereq_tables_eq_derived p initiator).2, derivedNeedKnownRemote_iff]

/-- Shape of the base table: pre-messages contain only `s`; 1 to 4 messages; no `psk` token. -/
theorem base_shape (p : Pattern) :
    (∀ t ∈ p.tokens.preI, t = Tok.s) ∧ (∀ t ∈ p.tokens.preR, t = Tok.s) ∧
    1 ≤ p.tokens.msgs.length ∧ p.tokens.msgs.length ≤ 4 ∧
    (∀ m ∈ p.tokens.msgs, ∀ n, Tok.psk n ∉ m) :=
  Lemmas.C12.base_shape p

/-! ## 3. The modifier loop -/

/-- **Exact outcome of the modifier loop** of `HandshakeTokens::try_from`, for every instance and
    every modifier list: the first modifier that is not a `psk n` with `n.saturating_sub(1) <
    #messages` decides the error (`InvalidPsk` for a `psk`, `UnsupportedModifier` for `fallback`);
    if there is none, the result is `withPsks inst mods`. -/
theorem applyModifiers_outcome (inst : Inst) (mods : List Modifier) :
    applyModifiers inst mods =
      match mods.find? (fun m => !modFits inst.msgs.length m) with
      | none => .ok (withPsks inst mods)
      | some m => .err (modsError m) :=
  applyModifiers_eq inst mods

/-- The successful result, explicitly: pre-messages unchanged, same number of messages, and
    message `i` (0-based) is the original with one `psk0` in front per `psk0` modifier (first
    message only) and one `psk(i+1)` appended per `psk(i+1)` modifier. -/
theorem withPsks_spec (inst : Inst) (mods : List Modifier) :
    (withPsks inst mods).preI = inst.preI ∧ (withPsks inst mods).preR = inst.preR ∧
    (withPsks inst mods).msgs.length = inst.msgs.length ∧
    ∀ i (h : i < inst.msgs.length),
      (withPsks inst mods).msgs[i]'(by simpa using h) =
        (if i = 0 then List.replicate (mods.count (.psk 0)) (Tok.psk 0) else []) ++ inst.msgs[i] ++
        List.replicate (mods.count (.psk (i + 1))) (Tok.psk (i + 1)) :=
  ⟨rfl, rfl, withPsks_length inst mods, fun i h => withPsks_getElem inst mods i h⟩

/-- **The loop succeeds iff every modifier is `psk n` with `n ≤ #messages`** (for an instance
    with at least one message, as all table rows are), and then returns `withPsks`. -/
theorem applyModifiers_ok_iff (inst inst' : Inst) (mods : List Modifier) (h : 0 < inst.msgs.length) :
    applyModifiers inst mods = .ok inst' ↔
      (∀ m ∈ mods, ∃ n, m = .psk n ∧ n ≤ inst.msgs.length) ∧ inst' = withPsks inst mods := by
  rw [applyModifiers_eq]
  have := find_none_iff inst.msgs.length mods h
  unfold ModsFit ModOk at this
  rw [← this]
  split
  · rename_i hf; simp only [Res.ok.injEq, hf, true_and]; exact eq_comm
  · rename_i m hf; simp [hf]

/-- The same for an arbitrary instance: the fitting condition is `n.saturating_sub(1) < #messages`
    (for an instance without messages no `psk` fits, not even `psk0`). -/
theorem applyModifiers_ok_iff_general (inst inst' : Inst) (mods : List Modifier) :
    applyModifiers inst mods = .ok inst' ↔
      (∀ m ∈ mods, ∃ n, m = .psk n ∧ n - 1 < inst.msgs.length) ∧ inst' = withPsks inst mods := by
  rw [applyModifiers_eq]
  have : mods.find? (fun m => !modFits inst.msgs.length m) = none ↔
      ∀ m ∈ mods, ∃ n, m = .psk n ∧ n - 1 < inst.msgs.length := by
    simp only [List.find?_eq_none, Bool.not_eq_true', Bool.not_eq_false]
    constructor
    · intro h m hm
      have := h m hm
      cases m with
      | psk n => exact ⟨n, rfl, by simpa [modFits] using this⟩
      | fallback => simp [modFits] at this
    · intro h m hm
      obtain ⟨n, rfl, hn⟩ := h m hm
      simpa [modFits] using hn
  rw [← this]
  split
  · rename_i hf; simp only [Res.ok.injEq, hf, true_and]; exact eq_comm
  · rename_i m hf; simp [hf]

/-- **Which error**: the loop fails with `e` iff the list is `pre ++ m :: post` where everything in
    `pre` fits, `m` does not, and `e` is `Pattern(InvalidPsk)` if `m` is a `psk`, or
    `Pattern(UnsupportedModifier)` if `m` is `fallback` -- whichever comes first in the list. -/
theorem applyModifiers_err_iff (inst : Inst) (mods : List Modifier) (e : Err)
    (h : 0 < inst.msgs.length) :
    applyModifiers inst mods = .err e ↔
      ∃ pre m post, mods = pre ++ m :: post ∧
        (∀ x ∈ pre, ∃ n, x = .psk n ∧ n ≤ inst.msgs.length) ∧
        (¬ ∃ n, m = .psk n ∧ n ≤ inst.msgs.length) ∧
        e = (match m with
             | .psk _ => Err.pattern .invalidPsk
             | .fallback => Err.pattern .unsupportedModifier) := by
  rw [applyModifiers_eq]
  have hmE : ∀ m : Modifier, (match m with
             | .psk _ => Err.pattern .invalidPsk
             | .fallback => Err.pattern .unsupportedModifier) = modsError m := by
    intro m; cases m <;> rfl
  simp only [hmE]
  split
  · rename_i hf
    constructor
    · intro h; cases h
    · rintro ⟨pre, m, post, hmods, hpre, hm, _⟩
      have : FirstMisfit inst.msgs.length mods m := ⟨pre, post, hmods, hpre, hm⟩
      rw [← find_some_iff _ _ _ h, hf] at this
      simp at this
  · rename_i m hf
    obtain ⟨pre, post, hmods, hpre, hm⟩ := (find_some_iff _ _ _ h).mp hf
    simp only [Res.err.injEq]
    constructor
    · intro he; exact ⟨pre, m, post, hmods, hpre, hm, he.symm⟩
    · rintro ⟨pre', m', post', hmods', hpre', hm', rfl⟩
      rw [firstMisfit_unique _ _ _ _ h ⟨pre, post, hmods, hpre, hm⟩ ⟨pre', post', hmods', hpre', hm'⟩]

/-- The modifier loop has no panic site. -/
theorem applyModifiers_never_panics (inst : Inst) (mods : List Modifier) (site : String) :
    applyModifiers inst mods ≠ .panic site := by
  rw [applyModifiers_eq]; split <;> simp

/-- The only errors of the loop are the two `PatternProblem`s. -/
theorem applyModifiers_err_kinds (inst : Inst) (mods : List Modifier) (e : Err)
    (h : applyModifiers inst mods = .err e) :
    e = .pattern .invalidPsk ∨ e = .pattern .unsupportedModifier := by
  rw [applyModifiers_eq] at h
  split at h
  · simp at h
  · rename_i m _
    simp only [Res.err.injEq] at h
    subst h; cases m <;> simp [modsError]

/-- **Every `psk n` token of a pattern's token lists is in range**: `n ≤ #messages ≤ 4 < 10`, so
    the `psks[n]` index of the `Token::Psk(n)` arm is never out of bounds. -/
theorem psk_tokens_bounded (p : Pattern) (mods : List Modifier) (inst : Inst)
    (h : handshakeTokens p mods = .ok inst) :
    inst.msgs.length = p.tokens.msgs.length ∧ 1 ≤ inst.msgs.length ∧ inst.msgs.length ≤ 4 ∧
    ∀ m ∈ inst.msgs, ∀ n, Tok.psk n ∈ m → n ≤ inst.msgs.length ∧ n < 10 := by
  obtain ⟨_, _, h1, h4, hno⟩ := base_shape p
  unfold handshakeTokens at h
  obtain ⟨_, rfl⟩ := (applyModifiers_ok_iff _ _ _ (by omega)).mp h
  refine ⟨withPsks_length _ _, by simpa using h1, by simpa using h4, ?_⟩
  intro m hm n hn
  have := psk_mem_withPsks p.tokens mods
    (fun m hm n hn => absurd hn (hno m hm n)) m hm n hn
  rw [withPsks_length]
  omega

/-! ## 4. `build` succeeds iff ... -/

/-- **`build_ok_iff`.**  For a suite whose `Dh::set` accepts every scalar (25519; false for P-256,
    see `build_panics_iff`) and whose public keys fit the `MAXDHLEN` arrays: building succeeds iff
    the local static key is supplied or not demanded, the remote static key is supplied or not
    demanded, the resolver provides rng, cipher, hash and dh, the supplied keys have the lengths
    the DH states (`s`, fixed `e`: `priv_len`; `rs`: `pub_len`), and every modifier is `psk n` with
    `n ≤ #messages`. -/
theorem build_ok_iff (S : Suite) (av : Avail) (c : BuildCfg)
    (hP : S.PrivTotal) (hL : S.pubLen ≤ MAXDHLEN) :
    (∃ hs, build S av c = .ok hs) ↔
      (needsLocalStatic c.pattern c.initiator = true → c.s.isSome = true) ∧
      (needKnownRemote c.pattern c.initiator = true → c.rs.isSome = true) ∧
      (av.rng = true ∧ av.cipher = true ∧ av.hash = true ∧ av.dh = true) ∧
      ((∀ k, c.s = some k → k.length = S.privLen) ∧
       (∀ k, c.eFixed = some k → k.length = S.privLen) ∧
       (∀ k, c.rs = some k → k.length = S.pubLen)) ∧
      (∀ m ∈ c.mods, ∃ n, m = .psk n ∧ n ≤ c.pattern.tokens.msgs.length) := by
  have hpv := privsValid_of_total S c hP
  have hnl : ¬ (c.rs.isSome = true ∧ S.pubLen > MAXDHLEN) := by omega
  change _ ↔ LocalKeyOk c ∧ RemoteKeyOk c ∧ Resolved av ∧ LensOk S c ∧ ModsFit _ _
  rcases build_classify S av c with h | h | h | h | h | h | h | h | h | h
  all_goals simp_all [Resolved, buildTail_ok_iff]

/-- The same with "demanded" spelled out on the token table (by `prereq_tables_eq_derived`): a
    local static key iff the role's static key occurs in the pattern, a remote static key iff the
    pattern pre-shares the peer's static key. -/
theorem build_ok_iff_tokens (S : Suite) (av : Avail) (c : BuildCfg)
    (hP : S.PrivTotal) (hL : S.pubLen ≤ MAXDHLEN) :
    (∃ hs, build S av c = .ok hs) ↔
      ((Tok.s ∈ ownPre c.pattern.tokens c.initiator ∨
        ∃ i, ∃ h : i < c.pattern.tokens.msgs.length,
          (i % 2 = 0 ↔ c.initiator = true) ∧ Tok.s ∈ c.pattern.tokens.msgs[i]) → c.s.isSome = true) ∧
      (Tok.s ∈ peerPre c.pattern.tokens c.initiator → c.rs.isSome = true) ∧
      (av.rng = true ∧ av.cipher = true ∧ av.hash = true ∧ av.dh = true) ∧
      ((∀ k, c.s = some k → k.length = S.privLen) ∧
       (∀ k, c.eFixed = some k → k.length = S.privLen) ∧
       (∀ k, c.rs = some k → k.length = S.pubLen)) ∧
      (∀ m ∈ c.mods, ∃ n, m = .psk n ∧ n ≤ c.pattern.tokens.msgs.length) := by
  rw [build_ok_iff S av c hP hL, ← localKeyOk_iff_tokens, ← remoteKeyOk_iff_tokens]
  rfl

/-! ## 5. Which error; panics -/

/-- **`build` as a decision list**, for every suite, resolver answer and configuration (no
    assumption on the suite): the checks in the code's order, then the modifier loop, then the
    explicit state.  `HandshakeState::new`'s own `ValidateKeyLengths` check and its
    `MissingKeyMaterial` exits are unreachable from the builder. -/
theorem build_decision_list (S : Suite) (av : Avail) (c : BuildCfg) :
    build S av c =
      if ¬ LocalKeyOk c then .err (.prereq .localPrivateKey)
      else if ¬ RemoteKeyOk c then .err (.prereq .remotePublicKey)
      else if av.rng = false then .err (.init .getRngImpl)
      else if av.cipher = false then .err (.init .getCipherImpl)
      else if av.hash = false then .err (.init .getHashImpl)
      else if av.dh = false then .err (.init .getDhImpl)
      else if ¬ LensOk S c then .err (.init .validateKeyLengths)
      else if ¬ PrivsValid S c then .panic "Dh::set: invalid private key"
      else if c.rs.isSome = true ∧ S.pubLen > MAXDHLEN then .panic "rs_buf[..v.len()]"
      else match c.mods.find? (fun m => !modFits c.pattern.tokens.msgs.length m) with
        | some m => .err (modsError m)
        | none => .ok (builtState S c) :=
  build_eq_prop S av c

/-- **`build_err_kind`**: the exact condition for each error `build` can return, in the code's
    order (each condition includes "no earlier check failed").  Holds for every suite. -/
theorem build_err_kind (S : Suite) (av : Avail) (c : BuildCfg) :
    (build S av c = .err (.prereq .localPrivateKey) ↔ ¬ LocalKeyOk c) ∧
    (build S av c = .err (.prereq .remotePublicKey) ↔ LocalKeyOk c ∧ ¬ RemoteKeyOk c) ∧
    (build S av c = .err (.init .getRngImpl) ↔ LocalKeyOk c ∧ RemoteKeyOk c ∧ av.rng = false) ∧
    (build S av c = .err (.init .getCipherImpl) ↔
      LocalKeyOk c ∧ RemoteKeyOk c ∧ av.rng = true ∧ av.cipher = false) ∧
    (build S av c = .err (.init .getHashImpl) ↔
      LocalKeyOk c ∧ RemoteKeyOk c ∧ av.rng = true ∧ av.cipher = true ∧ av.hash = false) ∧
    (build S av c = .err (.init .getDhImpl) ↔
      LocalKeyOk c ∧ RemoteKeyOk c ∧ av.rng = true ∧ av.cipher = true ∧ av.hash = true ∧
      av.dh = false) ∧
    (build S av c = .err (.init .validateKeyLengths) ↔
      LocalKeyOk c ∧ RemoteKeyOk c ∧ Resolved av ∧ ¬ LensOk S c) ∧
    (∀ pp, build S av c = .err (.pattern pp) ↔
      LocalKeyOk c ∧ RemoteKeyOk c ∧ Resolved av ∧ LensOk S c ∧ PrivsValid S c ∧
      ¬ (c.rs.isSome = true ∧ S.pubLen > MAXDHLEN) ∧
      ∃ m, FirstMisfit c.pattern.tokens.msgs.length c.mods m ∧ Err.pattern pp = modsError m) := by
  refine ⟨?_, ?_, ?_, ?_, ?_, ?_, ?_, ?_⟩
  · rcases build_classify S av c with h | h | h | h | h | h | h | h | h | h
    all_goals simp_all [Resolved, buildTail_err_iff]
  · rcases build_classify S av c with h | h | h | h | h | h | h | h | h | h
    all_goals simp_all [Resolved, buildTail_err_iff]
  · rcases build_classify S av c with h | h | h | h | h | h | h | h | h | h
    all_goals simp_all [Resolved, buildTail_err_iff]
  · rcases build_classify S av c with h | h | h | h | h | h | h | h | h | h
    all_goals simp_all [Resolved, buildTail_err_iff]
  · rcases build_classify S av c with h | h | h | h | h | h | h | h | h | h
    all_goals simp_all [Resolved, buildTail_err_iff]
  · rcases build_classify S av c with h | h | h | h | h | h | h | h | h | h
    all_goals simp_all [Resolved, buildTail_err_iff]
  · rcases build_classify S av c with h | h | h | h | h | h | h | h | h | h
    all_goals simp_all [Resolved, buildTail_err_iff]
  · intro pp
    rcases build_classify S av c with h | h | h | h | h | h | h | h | h | h
    all_goals simp_all [Resolved, buildTail_err_iff]

/-- The same as one table: for every suite, resolver answer and configuration exactly one of
    these ten rows applies (conditions in the code's order, each row with its outcome). -/
theorem build_outcome_table (S : Suite) (av : Avail) (c : BuildCfg) :
    (¬ LocalKeyOk c ∧ build S av c = .err (.prereq .localPrivateKey)) ∨
    (LocalKeyOk c ∧ ¬ RemoteKeyOk c ∧ build S av c = .err (.prereq .remotePublicKey)) ∨
    (LocalKeyOk c ∧ RemoteKeyOk c ∧ av.rng = false ∧ build S av c = .err (.init .getRngImpl)) ∨
    (LocalKeyOk c ∧ RemoteKeyOk c ∧ av.rng = true ∧ av.cipher = false ∧
      build S av c = .err (.init .getCipherImpl)) ∨
    (LocalKeyOk c ∧ RemoteKeyOk c ∧ av.rng = true ∧ av.cipher = true ∧ av.hash = false ∧
      build S av c = .err (.init .getHashImpl)) ∨
    (LocalKeyOk c ∧ RemoteKeyOk c ∧ av.rng = true ∧ av.cipher = true ∧ av.hash = true ∧
      av.dh = false ∧ build S av c = .err (.init .getDhImpl)) ∨
    (LocalKeyOk c ∧ RemoteKeyOk c ∧ Resolved av ∧ ¬ LensOk S c ∧
      build S av c = .err (.init .validateKeyLengths)) ∨
    (LocalKeyOk c ∧ RemoteKeyOk c ∧ Resolved av ∧ LensOk S c ∧ ¬ PrivsValid S c ∧
      build S av c = .panic "Dh::set: invalid private key") ∨
    (LocalKeyOk c ∧ RemoteKeyOk c ∧ Resolved av ∧ LensOk S c ∧ PrivsValid S c ∧
      (c.rs.isSome = true ∧ S.pubLen > MAXDHLEN) ∧ build S av c = .panic "rs_buf[..v.len()]") ∨
    (LocalKeyOk c ∧ RemoteKeyOk c ∧ Resolved av ∧ LensOk S c ∧ PrivsValid S c ∧
      ¬ (c.rs.isSome = true ∧ S.pubLen > MAXDHLEN) ∧
      build S av c =
        match c.mods.find? (fun m => !modFits c.pattern.tokens.msgs.length m) with
        | some m => .err (modsError m)
        | none => .ok (builtState S c)) :=
  build_classify S av c

/-- The `Pattern(..)` errors of `build`, spelled out: `InvalidPsk` iff all earlier checks pass and
    the first unacceptable modifier is a `psk n` with `n > #messages`; `UnsupportedModifier` iff
    it is `fallback`; no other `PatternProblem` is ever returned by `build`. -/
theorem build_pattern_err (S : Suite) (av : Avail) (c : BuildCfg)
    (hP : S.PrivTotal) (hL : S.pubLen ≤ MAXDHLEN) :
    (build S av c = .err (.pattern .invalidPsk) ↔
      LocalKeyOk c ∧ RemoteKeyOk c ∧ Resolved av ∧ LensOk S c ∧
      ∃ pre n post, c.mods = pre ++ .psk n :: post ∧
        ModsFit c.pattern.tokens.msgs.length pre ∧ c.pattern.tokens.msgs.length < n) ∧
    (build S av c = .err (.pattern .unsupportedModifier) ↔
      LocalKeyOk c ∧ RemoteKeyOk c ∧ Resolved av ∧ LensOk S c ∧
      ∃ pre post, c.mods = pre ++ .fallback :: post ∧ ModsFit c.pattern.tokens.msgs.length pre) ∧
    (∀ pp, build S av c = .err (.pattern pp) → pp = .invalidPsk ∨ pp = .unsupportedModifier) := by
  have hpv := privsValid_of_total S c hP
  have hnl : ¬ (c.rs.isSome = true ∧ S.pubLen > MAXDHLEN) := by omega
  have hk := (build_err_kind S av c).2.2.2.2.2.2.2
  refine ⟨?_, ?_, ?_⟩
  · rw [hk, firstMisfit_invalidPsk_iff]
    constructor
    · rintro ⟨h1, h2, h3, h4, _, _, h7⟩; exact ⟨h1, h2, h3, h4, h7⟩
    · rintro ⟨h1, h2, h3, h4, h7⟩; exact ⟨h1, h2, h3, h4, hpv, hnl, h7⟩
  · rw [hk, firstMisfit_unsupported_iff]
    constructor
    · rintro ⟨h1, h2, h3, h4, _, _, h7⟩; exact ⟨h1, h2, h3, h4, h7⟩
    · rintro ⟨h1, h2, h3, h4, h7⟩; exact ⟨h1, h2, h3, h4, hpv, hnl, h7⟩
  · intro pp h
    obtain ⟨_, _, _, _, _, _, m, _, hm⟩ := (hk pp).mp h
    cases m <;> simp_all [modsError]

/-- Every error `build` can return is one of the nine listed (a "descriptive error at build
    time"); in particular never `State(MissingKeyMaterial)`. -/
theorem build_err_is_listed (S : Suite) (av : Avail) (c : BuildCfg) (e : Err)
    (h : build S av c = .err e) :
    e = .prereq .localPrivateKey ∨ e = .prereq .remotePublicKey ∨ e = .init .getRngImpl ∨
    e = .init .getCipherImpl ∨ e = .init .getHashImpl ∨ e = .init .getDhImpl ∨
    e = .init .validateKeyLengths ∨ e = .pattern .invalidPsk ∨ e = .pattern .unsupportedModifier := by
  rcases build_classify S av c with h' | h' | h' | h' | h' | h' | h' | h' | h' | h'
  all_goals (try (simp_all; done))
  obtain ⟨_, _, _, _, _, _, h'⟩ := h'
  rw [h'] at h
  obtain ⟨m, _, rfl⟩ := (buildTail_err_iff S c e).mp h
  cases m <;> simp [modsError]

/-- **`build` never panics** when `Dh::set` accepts every scalar and public keys fit the
    `MAXDHLEN` arrays. -/
theorem build_never_panics (S : Suite) (av : Avail) (c : BuildCfg)
    (hP : S.PrivTotal) (hL : S.pubLen ≤ MAXDHLEN) (site : String) :
    build S av c ≠ .panic site := by
  have hpv := privsValid_of_total S c hP
  have hnl : ¬ (c.rs.isSome = true ∧ S.pubLen > MAXDHLEN) := by omega
  have ht := buildTail_not_panic S c site
  rcases build_classify S av c with h | h | h | h | h | h | h | h | h | h
  all_goals simp_all

/-- **The P-256 finding.**  For suites whose `Dh::set` rejects some scalars (with public keys that
    fit): `build` panics iff all earlier checks passed -- so the supplied keys have the right
    lengths -- and a supplied `s` or fixed `e` is not a valid private key; the panic is the one in
    `Dh::set`. -/
theorem build_panics_iff (S : Suite) (av : Avail) (c : BuildCfg) (hL : S.pubLen ≤ MAXDHLEN) :
    (∃ site, build S av c = .panic site) ↔
      LocalKeyOk c ∧ RemoteKeyOk c ∧ Resolved av ∧ LensOk S c ∧
      ((∃ k, c.s = some k ∧ S.validPriv k = false) ∨
       (∃ k, c.eFixed = some k ∧ S.validPriv k = false)) := by
  have hnl : ¬ (c.rs.isSome = true ∧ S.pubLen > MAXDHLEN) := by omega
  have ht := buildTail_not_panic S c
  have hpv : ¬ PrivsValid S c ↔ ((∃ k, c.s = some k ∧ S.validPriv k = false) ∨
       (∃ k, c.eFixed = some k ∧ S.validPriv k = false)) := by
    unfold PrivsValid
    cases c.s <;> cases c.eFixed <;> simp
    rename_i a b; cases S.validPriv a <;> simp
  rw [← hpv]
  clear hpv
  rcases build_classify S av c with h | h | h | h | h | h | h | h | h | h
  all_goals simp_all [Resolved]

/-- ... and then the panic site is `Dh::set`. -/
theorem build_panic_site (S : Suite) (av : Avail) (c : BuildCfg) (hL : S.pubLen ≤ MAXDHLEN)
    (site : String) (h : build S av c = .panic site) : site = "Dh::set: invalid private key" := by
  have hnl : ¬ (c.rs.isSome = true ∧ S.pubLen > MAXDHLEN) := by omega
  have ht := buildTail_not_panic S c site
  rcases build_classify S av c with h' | h' | h' | h' | h' | h' | h' | h' | h' | h'
  all_goals simp_all

/-! ## 6. The state `build` returns -/

/-- **`build_initial_state`**: what a successfully built `HandshakeState` contains. -/
theorem build_initial_state (S : Suite) (av : Avail) (c : BuildCfg) (hs : HS)
    (h : build S av c = .ok hs) :
    hs.pos = 0 ∧ hs.myTurn = c.initiator ∧ hs.initiator = c.initiator ∧
    handshakeTokens c.pattern c.mods = .ok { preI := c.pattern.tokens.preI,
                                             preR := c.pattern.tokens.preR, msgs := hs.msgs } ∧
    hs.msgs = (withPsks c.pattern.tokens c.mods).msgs ∧
    hs.psks = c.psks ∧ hs.fixedE = c.eFixed.isSome ∧ hs.rng = c.rng ∧
    hs.e.on = false ∧ hs.re.on = false ∧
    hs.s.on = c.s.isSome ∧ hs.rs.on = c.rs.isSome ∧
    (∀ k, c.s = some k → hs.s.val = { priv := k, pub := S.pubOf k }) ∧
    (∀ k, c.eFixed = some k → hs.e.val = { priv := k, pub := S.pubOf k }) ∧
    (∀ v, c.rs = some v → hs.rs.val = v) ∧
    hs.cs1 = CipherState.new ∧ hs.cs2 = CipherState.new ∧
    hs.sym = builtSym S c ∧
    hs.sym.hasKey = false ∧ hs.sym.k = none ∧ hs.sym.cs = CipherState.new ∧
    hs.sym.ck = (Sym.init S c.name).ck ∧
    hs.oneway = c.pattern.isOneway ∧
    (hs.isPsk = true ↔ ∃ n, Modifier.psk n ∈ c.mods) := by
  have hst := build_ok_state S av c hs h
  have hfit : ModsFit c.pattern.tokens.msgs.length c.mods := by
    rcases build_classify S av c with h' | h' | h' | h' | h' | h' | h' | h' | h' | h'
    all_goals simp_all [buildTail_ok_iff]
  have htok : handshakeTokens c.pattern c.mods = .ok (withPsks c.pattern.tokens c.mods) := by
    unfold handshakeTokens
    rw [applyModifiers_ok_iff _ _ _ (base_shape c.pattern).2.2.1]
    exact ⟨hfit, rfl⟩
  obtain ⟨f1, f2, f3, f4⟩ := premixBoth_fields S c (builtS S c).val.pub ((builtRs S c).val.take S.pubLen)
  subst hst
  refine ⟨rfl, rfl, rfl, htok, rfl, rfl, rfl, rfl, ?_, rfl, ?_, ?_, ?_, ?_, ?_, rfl, rfl, rfl,
    f3, f4, f1, f2, rfl, isPskMods_iff c.mods⟩
  · simp only [builtState, hsState, builtE]; cases c.eFixed <;> rfl
  · simp only [builtState, hsState, builtS]; cases c.s <;> rfl
  · simp only [builtState, hsState, builtRs]; cases c.rs <;> rfl
  · intro k hk; simp only [builtState, hsState, builtS, hk]
  · intro k hk; simp only [builtState, hsState, builtE, hk]
  · intro k hk; simp only [builtState, hsState, builtRs, hk]

/-- Consequently every `psk n` token a built handshake will ever process has `n ≤ #messages ≤ 4`,
    so the `Token::Psk(n)` arm never indexes `psks` out of range. -/
theorem built_psk_tokens_in_range (S : Suite) (av : Avail) (c : BuildCfg) (hs : HS)
    (h : build S av c = .ok hs) :
    1 ≤ hs.msgs.length ∧ hs.msgs.length ≤ 4 ∧
    ∀ m ∈ hs.msgs, ∀ n, Tok.psk n ∈ m → n ≤ hs.msgs.length ∧ n < 10 := by
  obtain ⟨_, _, _, htok, _⟩ := build_initial_state S av c hs h
  obtain ⟨_, h1, h2, h3⟩ := psk_tokens_bounded _ _ _ htok
  exact ⟨h1, h2, h3⟩

/-! ## 7. A PSK that was not supplied -/

/-- **`missing_psk`**: processing `psk n` with slot `n` empty returns `State(MissingPsk)` and
    leaves the whole handshake state as it was -- no key is derived from a default value. -/
theorem missing_psk (S : Suite) (hs : HS) (n : Nat) (hn : n < 10)
    (h : hs.psks.getD n none = none) :
    HS.pskStep S hs n = (.err (.state .missingPsk), hs) := by
  simp only [HS.pskStep, hn, ↓reduceIte, h]

/-- With slot `n` filled, `psk n` mixes exactly that key (`MixKeyAndHash(psk)`). -/
theorem psk_present (S : Suite) (hs : HS) (n : Nat) (psk : Bytes) (hn : n < 10)
    (h : hs.psks.getD n none = some psk) :
    HS.pskStep S hs n = (.ok (), { hs with sym := hs.sym.mixKeyAndHash S psk }) := by
  simp only [HS.pskStep, hn, ↓reduceIte, h]

/-- The error surfaces at the message that needs the PSK: the `psk n` token of `_write_message`
    fails with `State(MissingPsk)` and changes nothing (state, bytes written, events). -/
theorem writeTok_missing_psk (S : Suite) (cap : Nat) (w : WS) (n : Nat) (hn : n < 10)
    (h : w.hs.psks.getD n none = none) :
    HS.writeTok S cap w (.psk n) = (.err (.state .missingPsk), w) := by
  simp only [HS.writeTok, missing_psk S w.hs n hn h]

/-- The same for `_read_message`. -/
theorem readTok_missing_psk (S : Suite) (r : RS) (n : Nat) (hn : n < 10)
    (h : r.hs.psks.getD n none = none) :
    HS.readTok S r (.psk n) = (.err (.state .missingPsk), r) := by
  simp only [HS.readTok, missing_psk S r.hs n hn h]

/-- `set_psk(location, key)` with a 32-byte key and a valid location fills exactly that slot. -/
theorem setPsk_ok (hs : HS) (loc : Nat) (key : Bytes) (hk : key.length = 32)
    (hl : loc < hs.psks.length) :
    hs.setPsk loc key = (.ok (), { hs with psks := hs.psks.set loc (some key) }) ∧
    (hs.setPsk loc key).2.psks.length = hs.psks.length ∧
    (hs.setPsk loc key).2.psks.getD loc none = some key ∧
    ∀ j, j ≠ loc → (hs.setPsk loc key).2.psks.getD j none = hs.psks.getD j none := by
  have h1 : hs.setPsk loc key = (.ok (), { hs with psks := hs.psks.set loc (some key) }) := by
    unfold HS.setPsk
    rw [if_neg]
    simp only [hk, bne_self_eq_false, Bool.false_or, decide_eq_true_eq]
    omega
  rw [h1]
  refine ⟨rfl, by simp, ?_, ?_⟩
  · simp [List.getD, hl]
  · intro j hj
    simp only [List.getD, List.getElem?_set]
    rw [if_neg (fun h => hj h.symm)]

/-- Otherwise `set_psk` returns `Input` and changes nothing. -/
theorem setPsk_err (hs : HS) (loc : Nat) (key : Bytes)
    (h : key.length ≠ 32 ∨ hs.psks.length ≤ loc) :
    hs.setPsk loc key = (.err .input, hs) := by
  unfold HS.setPsk
  rw [if_pos]
  simp only [bne_iff_ne, ne_eq, Bool.or_eq_true, decide_eq_true_eq]
  exact h

/-- After `set_psk(n, key)` the retry of the `psk n` token succeeds and mixes `key`. -/
theorem psk_retry_after_set (S : Suite) (hs : HS) (n : Nat) (key : Bytes) (hn : n < 10)
    (hk : key.length = 32) (hl : n < hs.psks.length) :
    HS.pskStep S (hs.setPsk n key).2 n =
      (.ok (), { (hs.setPsk n key).2 with sym := hs.sym.mixKeyAndHash S key }) := by
  obtain ⟨h1, _, h3, _⟩ := setPsk_ok hs n key hk hl
  rw [psk_present S _ n key hn h3, h1]

/-! ## 8. Non-vacuity: concrete configurations (toy suite `Toy.suite 0 0 0`: 32/32-byte DH) -/

section Examples

def exAv : Avail := { rng := true, dh := true, cipher := true, hash := true }
def exSuite : Suite := Toy.suite 0 0 0
def exKey (b : UInt8) : Bytes := List.replicate 32 b

/-- `XXpsk3`, initiator, with a local static key. -/
def exXX : BuildCfg :=
  { pattern := .pXX, mods := [.psk 3], name := [1, 2, 3], initiator := true, s := some (exKey 7),
    eFixed := none, rs := none, psks := List.replicate 10 none, prologue := [], rng := [] }

/-- `IK`, initiator, with both keys. -/
def exIK : BuildCfg :=
  { pattern := .pIK, mods := [], name := [1, 2, 3], initiator := true, s := some (exKey 7),
    eFixed := none, rs := some (exKey 9), psks := List.replicate 10 none, prologue := [5], rng := [] }

/-- The hypotheses of `build_ok_iff` / `build_never_panics` hold for the toy suite (and for 25519). -/
example : exSuite.PrivTotal ∧ exSuite.pubLen ≤ MAXDHLEN := ⟨fun _ => rfl, by decide⟩

-- success, evaluated on the model
example : (build exSuite exAv exXX).isOk = true := by decide +kernel
example : (build exSuite exAv exIK).isOk = true := by decide +kernel
-- ... and through the theorem
example : ∃ hs, build exSuite exAv exIK = .ok hs :=
  (build_ok_iff exSuite exAv exIK (fun _ => rfl) (by decide)).mpr
    ⟨by decide, by decide, by decide,
     ⟨fun k h => by simp only [exIK, Option.some.injEq] at h; subst h; decide,
      fun k h => by simp [exIK] at h,
      fun k h => by simp only [exIK, Option.some.injEq] at h; subst h; decide⟩,
     fun m hm => by simp [exIK] at hm⟩
-- the message patterns of the built state carry the psk token at the end of message 3
example : (build exSuite exAv exXX).map (·.msgs) =
    .ok [[.e], [.e, .ee, .s, .es], [.s, .se, .psk 3]] := by decide +kernel
example : (build exSuite exAv { exXX with mods := [.psk 0, .psk 1] }).map (·.msgs) =
    .ok [[.psk 0, .e, .psk 1], [.e, .ee, .s, .es], [.s, .se]] := by decide +kernel

-- each error, in the code's order
example : build exSuite exAv { exXX with s := none } = .err (.prereq .localPrivateKey) := by
  decide +kernel
example : build exSuite exAv { exIK with rs := none } = .err (.prereq .remotePublicKey) := by
  decide +kernel
example : build exSuite exAv { exIK with s := none, rs := none } = .err (.prereq .localPrivateKey) := by
  decide +kernel
example : build exSuite { exAv with rng := false, hash := false } exXX = .err (.init .getRngImpl) := by
  decide +kernel
example : build exSuite { exAv with cipher := false, dh := false } exXX = .err (.init .getCipherImpl) := by
  decide +kernel
example : build exSuite { exAv with hash := false } exXX = .err (.init .getHashImpl) := by
  decide +kernel
example : build exSuite { exAv with dh := false } exXX = .err (.init .getDhImpl) := by
  decide +kernel
example : build exSuite exAv { exXX with s := some [1, 2, 3] } = .err (.init .validateKeyLengths) := by
  decide +kernel
example : build exSuite exAv { exIK with rs := some (exKey 9 ++ [0]) } =
    .err (.init .validateKeyLengths) := by decide +kernel
example : build exSuite exAv { exXX with mods := [.psk 2, .psk 4, .fallback] } =
    .err (.pattern .invalidPsk) := by decide +kernel
example : build exSuite exAv { exXX with mods := [.psk 2, .fallback, .psk 4] } =
    .err (.pattern .unsupportedModifier) := by decide +kernel
-- a responder of `KN` needs the initiator's static key but none of its own
example : (build exSuite exAv
    { pattern := .pKN, mods := [], name := [], initiator := false, s := none, eFixed := none,
      rs := some (exKey 1), psks := [], prologue := [], rng := [] }).isOk = true := by decide +kernel

/-- The P-256 finding on a toy suite whose `Dh::set` rejects the all-zero scalar. -/
example : build { exSuite with validPriv := (fun k => k != exKey 0) } exAv { exXX with s := some (exKey 0) } =
    .panic "Dh::set: invalid private key" := by decide +kernel

/-- `missing_psk` applies to the built `XXpsk3` state (no PSK was supplied): processing `psk3`
    fails with `MissingPsk` and changes nothing. -/
example (hs : HS) (h : build exSuite exAv exXX = .ok hs) :
    HS.pskStep exSuite hs 3 = (.err (.state .missingPsk), hs) := by
  obtain ⟨_, _, _, _, _, hp, _⟩ := build_initial_state _ _ _ hs h
  exact missing_psk _ hs 3 (by decide) (by rw [hp]; decide)

/-- Instances of the table theorem: `K1X` and `I1K1`. -/
example : needsLocalStatic .pK1X false = true ∧ needKnownRemote .pK1X false = true ∧
    needsLocalStatic .pI1K1 true = true ∧ needKnownRemote .pI1K1 false = false := by decide

end Examples

end SnowVerif.Theorems.C12
