/-
  C06  No AEAD (key, nonce) pair is ever used to encrypt two different inputs; every ephemeral
       key placed in a handshake message is drawn from the random source during that very write.

  The statements are over the ghost log of the model (`Event.enc key nonce ad pt` for every AEAD
  encryption, `Event.rng d` for every draw). Taken literally over all byte strings the property
  cannot hold unconditionally (two different HKDF inputs may give the same 32-byte key), so the
  key-dependent results are *reductions with an explicit witness* (DESIGN.md 3.3): either the
  conclusion holds, or the run itself exhibits a key that was in use and was then installed again
  by a later HKDF application (a "KDF coincidence").

  A *ghost log* (`List GEv`, Lemmas/C06Log.lean) is the event list of a run interleaved with a
  marker `install key n` wherever the run installs a key in the cipher concerned (`set` by
  `mix_key` / `mix_key_and_hash`, rekey, manual rekey). `Discipline` is the invariant "every `enc`
  uses the key installed last; between installations the nonces strictly increase; 2^64-1 is
  only used by rekey on its fixed input".

  1. Cipher-state level: `cs_run_disciplined`, `cs_nonces_increase`, `failed_encrypt_noop`, `cs_no_reuse`.
  2. One handshake write: `write_call_disciplined`, `write_call_order` (2'), `write_call_no_reuse` (2),
     `write_call_installs_are_kdf`.
  3. The repaired-code core: `write_err_no_payload_encrypted` (a), `write_err_restores_cipher` (b),
     `retry_same_prefix`, `retry_same_prefix_no_draw` (c); `hs_read_no_enc`.
  4. Transport: `transport_nonces_increase`, `transport_no_reuse`, `transport_one_key_between_rekeys`,
     `rekey_nonce_reserved`.
  5. `ephemeral_fresh`, `ephemeral_first_on_wire`(`_take`), `fixed_ephemeral_draws_nothing`.
  6. Non-vacuity examples on the toy suite (the failing write of D3 and its retry).

  The unrepaired upstream code violated (3): the 65535-byte check came after the payload
  encryption and the cipher key/nonce were not restored (D1, D3 in DESIGN.md section 1). The
  model follows the repaired code.
-/
import SnowVerif.Lemmas.C06Eph
import SnowVerif.Lemmas.C06Transport
import SnowVerif.Lemmas.C06Read
import SnowVerif.Theorems.C07
import SnowVerif.Theorems.C14

namespace SnowVerif.Theorems.C06
open SnowVerif SnowVerif.Model SnowVerif.Model.HS SnowVerif.C06
set_option linter.unusedVariables false
set_option linter.unusedSimpArgs false

/-! ## 1. One cipher state, any sequence of operations -/

/-- **Every run of one `CipherState` is disciplined**: for any sequence of encryptions,
    decryptions (with arbitrary arguments and outcomes), `set`s, rekeys and manual rekeys, every
    `enc` event uses the key installed last and, between two installations, a nonce strictly above
    all earlier ones. -/
theorem cs_run_disciplined (S : Suite) (cs : CipherState) (ops : List CsOp) :
    Discipline cs.key cs.n.toNat (csRun S cs ops).2 (csRun S cs ops).1.key (csRun S cs ops).1.n.toNat :=
  csRun_discipline S cs ops

/-- **Between two key installations the nonces strictly increase under one key.** In a run of
    encryptions and decryptions only (no installation), any two logged `enc` events use the
    cipher's key, and the later one a strictly larger nonce (as numbers: the counter cannot wrap
    because 2^64-1 is refused before use). -/
theorem cs_nonces_increase (S : Suite) (cs : CipherState) (ops : List CsOp)
    (hno : ∀ op ∈ ops, op.installs = false) (i j : Nat) (hij : i < j)
    (k1 k2 : Bytes) (n1 n2 : UInt64) (a1 p1 a2 p2 : Bytes)
    (hi : (erase (csRun S cs ops).2)[i]? = some (.enc k1 n1 a1 p1))
    (hj : (erase (csRun S cs ops).2)[j]? = some (.enc k2 n2 a2 p2)) :
    k1 = cs.key ∧ k2 = cs.key ∧ cs.n.toNat ≤ n1.toNat ∧ n1.toNat < n2.toNat := by
  have hd := csRun_discipline S cs ops
  obtain ⟨hni, hnm⟩ := csRun_plain S cs ops hno
  obtain ⟨i', j', hij', h1, h2⟩ := erase_index2 _ i j hij _ _ hi hj
  have m1 : n1 ≠ MAXN := by
    intro hc; subst hc; exact hnm k1 a1 p1 (List.mem_of_getElem? h1)
  have m2 : n2 ≠ MAXN := by
    intro hc; subst hc; exact hnm k2 a2 p2 (List.mem_of_getElem? h2)
  have hk1 : k1 = cs.key ∧ cs.n.toNat ≤ n1.toNat := by
    rcases hd.key_at i' k1 n1 a1 p1 h1 with ⟨m, nn, _, hm⟩ | ⟨hk, hr⟩
    · exact absurd (List.mem_of_getElem? hm) (hni k1 nn)
    · rcases hr with hr | hr
      · exact absurd hr m1
      · exact ⟨hk, hr⟩
  have hk2 : k2 = cs.key := by
    rcases hd.key_at j' k2 n2 a2 p2 h2 with ⟨m, nn, _, hm⟩ | ⟨hk, _⟩
    · exact absurd (List.mem_of_getElem? hm) (hni k2 nn)
    · exact hk
  refine ⟨hk1.1, hk2, hk1.2, ?_⟩
  rcases hd.order i' j' hij' k1 k2 n1 n2 a1 p1 a2 p2 h1 h2 with ⟨m, nn, _, _, hm⟩ | ⟨_, hr⟩
  · exact absurd (List.mem_of_getElem? hm) (hni k2 nn)
  · rcases hr with hr | hr | hr
    · exact absurd hr m1
    · exact absurd hr m2
    · exact hr

/-- **A failed encryption logs nothing and does not move the counter** (missing key, exhausted
    nonce, or the out-of-range panic site). -/
theorem failed_encrypt_noop (S : Suite) (cs : CipherState) (ad pt : Bytes) (cap : Nat)
    (h : ∀ c, (cs.encryptAd S ad pt cap).1 ≠ .ok c) :
    (cs.encryptAd S ad pt cap).2.1 = cs ∧ (cs.encryptAd S ad pt cap).2.2 = [] :=
  encryptAd_fail_noop S cs ad pt cap h

/-- **One cipher state never uses a (key, nonce) pair on two different inputs, up to
    re-installation of that key**: in any run, two `enc` events with equal key and nonce encrypt
    the same (associated data, plaintext), or the ghost log shows that very key being installed
    again between the two (by a `set`, a rekey whose output equals its input, or a manual rekey). -/
theorem cs_no_reuse (S : Suite) (cs : CipherState) (ops : List CsOp) (i j : Nat) (hij : i < j)
    (k1 : Bytes) (n1 : UInt64) (a1 p1 a2 p2 : Bytes)
    (hi : (erase (csRun S cs ops).2)[i]? = some (.enc k1 n1 a1 p1))
    (hj : (erase (csRun S cs ops).2)[j]? = some (.enc k1 n1 a2 p2)) :
    (a1 = a2 ∧ p1 = p2) ∨
    (∃ (i' m j' : Nat) (nn : UInt64), i' < m ∧ m < j' ∧
      (csRun S cs ops).2[i']? = some (GEv.ev (.enc k1 n1 a1 p1)) ∧
      (csRun S cs ops).2[m]? = some (GEv.install k1 nn) ∧
      (csRun S cs ops).2[j']? = some (GEv.ev (.enc k1 n1 a2 p2))) :=
  (csRun_discipline S cs ops).no_reuse_events i j hij k1 n1 a1 p1 a2 p2 hi hj

/-! ## 2. One handshake `write_message` call -/

/-- The ghost log of one `write_message` call erases to exactly the events the call returns
    (whatever its outcome), and it is disciplined from the handshake cipher's (key, nonce) before
    the call. Its installation markers are placed after, and only after, a successful DH token,
    `psk` token, or `e` token in psk mode (`installsTok`). -/
theorem write_call_disciplined (S : Suite) (hs : HS) (p : Bytes) (cap : Nat) :
    erase (writeG S hs p cap) = (hs.writeMessage S p cap).2.2.2 ∧
    Discipline hs.sym.cs.key hs.sym.cs.n.toNat (writeG S hs p cap)
      (writeInner S hs p cap).2.hs.sym.cs.key (writeInner S hs p cap).2.hs.sym.cs.n.toNat := by
  obtain ⟨h1, h2⟩ := writeInner_G S hs p cap
  exact ⟨by rw [writeMessage_ev, h1], h2⟩

/-- Every installation marker of the call stands for a real `mix_key` / `mix_key_and_hash`: the key
    is an HKDF output (from some chaining key and input key material) and it is installed with
    nonce 0. -/
theorem write_call_installs_are_kdf (S : Suite) (hs : HS) (p : Bytes) (cap : Nat) (key : Bytes) (nn : UInt64)
    (h : GEv.install key nn ∈ writeG S hs p cap) : nn = 0 ∧ ∃ ck, IsKdfKey S ck key :=
  writeG_install S hs p cap key nn h

/-- **(2') Within one call: between two encryptions either the key was re-installed or the nonce
    went up under the same key.** For any two `enc` entries of the call's ghost log, either an
    installation of the later one's key lies strictly between them, or both use the same key and
    the later one a strictly larger nonce. (Handshake writes never use the reserved nonce.) -/
theorem write_call_order (S : Suite) (hs : HS) (p : Bytes) (cap : Nat) (i j : Nat) (hij : i < j)
    (k1 k2 : Bytes) (n1 n2 : UInt64) (a1 p1 a2 p2 : Bytes)
    (hi : (writeG S hs p cap)[i]? = some (GEv.ev (.enc k1 n1 a1 p1)))
    (hj : (writeG S hs p cap)[j]? = some (GEv.ev (.enc k2 n2 a2 p2))) :
    (∃ m nn, i < m ∧ m < j ∧ (writeG S hs p cap)[m]? = some (GEv.install k2 nn)) ∨
    (k1 = k2 ∧ (n1 = MAXN ∨ n2 = MAXN ∨ n1.toNat < n2.toNat)) :=
  (writeInner_G S hs p cap).2.order i j hij k1 k2 n1 n2 a1 p1 a2 p2 hi hj

/-- **(2) One call never uses a (key, nonce) pair on two different inputs, up to a KDF
    coincidence.** If two `enc` events returned by one `write_message` call (any state, any
    arguments, any outcome) have the same key and nonce, then they encrypt the same (associated
    data, plaintext), or the call's ghost log exhibits the witness: that key was in use at the
    first event and a later `mix_key` / `mix_key_and_hash` of the same call, before the second
    event, derived the very same key again. -/
theorem write_call_no_reuse (S : Suite) (hs : HS) (p : Bytes) (cap : Nat) (i j : Nat) (hij : i < j)
    (k1 : Bytes) (n1 : UInt64) (a1 p1 a2 p2 : Bytes)
    (hi : (hs.writeMessage S p cap).2.2.2[i]? = some (.enc k1 n1 a1 p1))
    (hj : (hs.writeMessage S p cap).2.2.2[j]? = some (.enc k1 n1 a2 p2)) :
    (a1 = a2 ∧ p1 = p2) ∨
    (∃ (i' m j' : Nat) (ck : Bytes), i' < m ∧ m < j' ∧
      (writeG S hs p cap)[i']? = some (GEv.ev (.enc k1 n1 a1 p1)) ∧
      (writeG S hs p cap)[m]? = some (GEv.install k1 0) ∧ IsKdfKey S ck k1 ∧
      (writeG S hs p cap)[j']? = some (GEv.ev (.enc k1 n1 a2 p2))) := by
  obtain ⟨he, hd⟩ := write_call_disciplined S hs p cap
  rw [← he] at hi hj
  rcases hd.no_reuse_events i j hij k1 n1 a1 p1 a2 p2 hi hj with hl | ⟨i', m, j', nn, h1, h2, g1, g2, g3⟩
  · exact Or.inl hl
  · obtain ⟨hz, ck, hk⟩ := writeG_install S hs p cap k1 nn (List.mem_of_getElem? g2)
    subst hz
    exact Or.inr ⟨i', m, j', ck, h1, h2, g1, g2, hk, g3⟩

/-! ## 3. The repaired-code core: a failing write and its retry -/

theorem writeMessage_res (S : Suite) (hs : HS) (p : Bytes) (cap : Nat) :
    (hs.writeMessage S p cap).1 = (writeInner S hs p cap).1 := by
  unfold writeMessage
  simp only
  cases (writeInner S hs p cap).1 <;> rfl

/-- **(a) A `write_message` that fails has not encrypted the payload.** Its event list is the
    token loop's (or empty): every `enc` in it is the encryption of the local static public key by
    an `s` token of the current message, and there are at most as many as the message has `s`
    tokens. (All size checks precede the payload's `encrypt_and_mix_hash`, whose own failures
    log nothing.) -/
theorem write_err_no_payload_encrypted (S : Suite) (hs : HS) (p : Bytes) (cap : Nat) (e : Err) (hs' : HS)
    (acc : Bytes) (ev : List Event) (h : hs.writeMessage S p cap = (.err e, hs', acc, ev)) :
    (ev = [] ∨ ev = (loopOf S hs cap).2.ev) ∧
    (∀ kk nn a pt, Event.enc kk nn a pt ∈ ev → pt = hs.s.val.pub ∧ Tok.s ∈ curToks hs) ∧
    encCount ev ≤ (curToks hs).count .s := by
  have hres := writeMessage_res S hs p cap
  have hev := writeMessage_ev S hs p cap
  rw [h] at hres hev
  simp only at hres hev
  have hno : ∀ n, (writeInner S hs p cap).1 ≠ .ok n := by
    intro n hc; rw [← hres] at hc; cases hc
  have := writeInner_notok_no_payload S hs p cap hno
  rw [← hev] at this
  exact this

/-- What `restore(checkpoint())` of an invariant state gives, into whatever state it is restored. -/
theorem restore_facts (st c : Sym) (inv : SymInv c) :
    (st.restore c.checkpoint).h = c.h ∧ (st.restore c.checkpoint).ck = c.ck ∧
    (st.restore c.checkpoint).hasKey = c.hasKey ∧ (st.restore c.checkpoint).k = c.k ∧
    (∀ key, c.k = some key → (st.restore c.checkpoint).cs = c.cs) ∧
    (c.k = none → (st.restore c.checkpoint).hasKey = false) := by
  simp only [Sym.restore, Sym.checkpoint]
  refine ⟨rt, rt, rt, rt, ?_, ?_⟩
  · intro key hk
    obtain ⟨h1, h2⟩ := inv.1 key hk
    simp only [hk, CipherState.set]
    cases hc : c.cs with
    | mk ckey n hkey => rw [hc] at h1 h2; simp at h1 h2; simp [h1, h2]
  · intro hk
    cases hh : c.hasKey with
    | false => rfl
    | true => have := inv.2 hh; rw [hk] at this; simp at this

/-- **(b) A failed `write_message` restores the handshake cipher.** From a state satisfying the
    reachable-state invariant `SymInv`: the hash, chaining key, `has_key` and tracked key are those
    before the call, and if a key was installed before the call the cipher state (key, nonce and
    all) is exactly what it was; if none was, `has_key` is false and the cipher is not used before
    the next installation. -/
theorem write_err_restores_cipher (S : Suite) (hs : HS) (inv : SymInv hs.sym) (p : Bytes) (cap : Nat) (e : Err)
    (hs' : HS) (acc : Bytes) (ev : List Event) (h : hs.writeMessage S p cap = (.err e, hs', acc, ev)) :
    hs'.sym.h = hs.sym.h ∧ hs'.sym.ck = hs.sym.ck ∧ hs'.sym.hasKey = hs.sym.hasKey ∧ hs'.sym.k = hs.sym.k ∧
    (∀ key, hs.sym.k = some key → hs'.sym.cs = hs.sym.cs) ∧
    (hs.sym.k = none → hs'.sym.hasKey = false) := by
  have hsym : hs'.sym = (writeInner S hs p cap).2.hs.sym.restore hs.sym.checkpoint := by
    unfold writeMessage at h
    simp only at h
    cases hr : (writeInner S hs p cap).1 with
    | ok n => simp [hr] at h
    | panic q => simp [hr] at h
    | err e' =>
      simp only [hr, Prod.mk.injEq] at h
      obtain ⟨_, rfl, _, _⟩ := h
      cases hon : hs.e.on <;> rfl
  rw [hsym]
  exact restore_facts _ hs.sym inv

/-- **(c) The retry re-encrypts the same data under the same (key, nonce).** After a failed
    `write_message` (reachable-state invariant `SymInv`, and `NoReE`: a live ephemeral is not
    regenerated), consider any later `write_message` from the resulting state (any payload, any
    buffer size) that receives the same future random stream as the failed call did. Then the two
    event lists are compatible: wherever both have an event it is the same event, so every `s`
    field encrypted by the failed call is re-encrypted by the retry with identical key, nonce,
    associated data and plaintext; and if the retry succeeds, its log extends the failed call's. -/
theorem retry_same_prefix (S : Suite) (hs : HS) (inv : SymInv hs.sym) (hne : C07.NoReE hs)
    (p : Bytes) (cap : Nat) (e : Err) (hs' : HS) (acc : Bytes) (ev1 : List Event)
    (h : hs.writeMessage S p cap = (.err e, hs', acc, ev1)) (p2 : Bytes) (cap2 : Nat) :
    Compat ev1 (({ hs' with rng := hs.rng } : HS).writeMessage S p2 cap2).2.2.2 ∧
    (∀ (i : Nat) (x y : Event), ev1[i]? = some x → (({ hs' with rng := hs.rng } : HS).writeMessage S p2 cap2).2.2.2[i]? = some y → x = y) ∧
    ((∃ n, (({ hs' with rng := hs.rng } : HS).writeMessage S p2 cap2).1 = .ok n) →
      ev1 <+: (({ hs' with rng := hs.rng } : HS).writeMessage S p2 cap2).2.2.2) := by
  have hE := C07.hs_write_err_noop S hs inv hne p cap e hs' acc ev1 h
  have inv' : SymInv hs'.sym := by
    have := writeMessage_inv S hs p cap inv
    rw [h] at this; exact this
  have hE' := C07.Equiv_withRng hE hs.rng
  have hself : ({ hs with rng := hs.rng } : HS) = hs := by cases hs; rfl
  rw [hself] at hE'
  have hb := writeMessage_equiv S hE' rfl inv inv' p2 cap2
  have e2 : (({ hs' with rng := hs.rng } : HS).writeMessage S p2 cap2).2.2.2 = (writeInner S hs p2 cap2).2.ev := by
    rw [← writeMessage_ev, hb.2.2.2]
  have r2 : (({ hs' with rng := hs.rng } : HS).writeMessage S p2 cap2).1 = (writeInner S hs p2 cap2).1 := by
    rw [← writeMessage_res, hb.1]
  have hres := writeMessage_res S hs p cap
  have hev := writeMessage_ev S hs p cap
  rw [h] at hres hev
  simp only at hres hev
  have hno : ∀ n, (writeInner S hs p cap).1 ≠ .ok n := by
    intro n hc; rw [← hres] at hc; cases hc
  obtain ⟨c1, c2⟩ := writeInner_compat S hs p cap p2 cap2 hno
  rw [e2, r2, hev]
  exact ⟨c1, fun i x y hx hy => c1.agree i x y hx hy, c2⟩

/-- **(c) without any assumption on randomness, for messages that draw none.** If the current
    message has no `e` token (e.g. the third message `s, se` of XX: the case in which the unrepaired
    code reused a (key, nonce) pair), or the fixed testing ephemeral is set, the failed call has not
    touched the random stream, so the conclusions of `retry_same_prefix` hold for every later
    `write_message` made directly on the state the failed call left. -/
theorem retry_same_prefix_no_draw (S : Suite) (hs : HS) (inv : SymInv hs.sym) (hne : C07.NoReE hs)
    (p : Bytes) (cap : Nat) (e : Err) (hs' : HS) (acc : Bytes) (ev1 : List Event)
    (h : hs.writeMessage S p cap = (.err e, hs', acc, ev1))
    (hnd : hs.fixedE = true ∨ Tok.e ∉ curToks hs) (p2 : Bytes) (cap2 : Nat) :
    hs'.rng = hs.rng ∧
    Compat ev1 (hs'.writeMessage S p2 cap2).2.2.2 ∧
    (∀ (i : Nat) (x y : Event), ev1[i]? = some x → (hs'.writeMessage S p2 cap2).2.2.2[i]? = some y → x = y) ∧
    ((∃ n, (hs'.writeMessage S p2 cap2).1 = .ok n) → ev1 <+: (hs'.writeMessage S p2 cap2).2.2.2) := by
  have hr : hs'.rng = hs.rng := by
    have := writeMessage_rng_nodraw S hs p cap hnd
    rw [h] at this; exact this
  have hself : ({ hs' with rng := hs.rng } : HS) = hs' := by rw [← hr]
  have := retry_same_prefix S hs inv hne p cap e hs' acc ev1 h p2 cap2
  rw [hself] at this
  exact ⟨hr, this⟩

/-- **A handshake read never encrypts**: whatever the message and the outcome, the log of
    `read_message` contains no `enc` event, so reads (and failing reads) cannot contribute to a
    (key, nonce) reuse on the encrypting side. -/
theorem hs_read_no_enc (S : Suite) (hs : HS) (m : Bytes) (cap : Nat) (kk : Bytes) (nn : UInt64) (a p : Bytes) :
    Event.enc kk nn a p ∉ (hs.readMessage S m cap).2.2.2 :=
  readMessage_no_enc S hs m cap kk nn a p

/-! ## 4. Transport mode -/

/-- **Message nonces strictly increase along every transport history.** For any sequence of
    writes, reads, rekeys (either direction, either API), manual rekeys and `set_receiving_nonce`
    on one endpoint — including failing calls — of any two encryptions in the log the later one
    uses a strictly larger nonce, unless one of them is a rekey's encryption on 2^64-1. -/
theorem transport_nonces_increase (S : Suite) (ts : TS) (ops : List TOp) (i j : Nat) (hij : i < j)
    (k1 k2 : Bytes) (n1 n2 : UInt64) (a1 p1 a2 p2 : Bytes)
    (hi : (trun S ts ops).2[i]? = some (.enc k1 n1 a1 p1)) (hj : (trun S ts ops).2[j]? = some (.enc k2 n2 a2 p2)) :
    n1 = MAXN ∨ n2 = MAXN ∨ n1.toNat < n2.toNat :=
  (trun_mono S ts ops).2.order i j hij k1 k2 n1 n2 a1 p1 a2 p2 hi hj

/-- **Transport: no nonce, hence no (key, nonce) pair, is used on two different inputs** —
    unconditionally, whatever keys rekeys and manual rekeys install: two encryptions in the log of
    one endpoint with the same nonce have the same (associated data, plaintext). -/
theorem transport_no_reuse (S : Suite) (ts : TS) (ops : List TOp) (i j : Nat) (hij : i < j)
    (k1 k2 : Bytes) (n1 : UInt64) (a1 p1 a2 p2 : Bytes)
    (hi : (trun S ts ops).2[i]? = some (.enc k1 n1 a1 p1)) (hj : (trun S ts ops).2[j]? = some (.enc k2 n1 a2 p2)) :
    a1 = a2 ∧ p1 = p2 :=
  (trun_mono S ts ops).2.no_reuse i j hij k1 k2 n1 a1 p1 a2 p2 hi hj

/-- **The reserved nonce 2^64-1 is only used by rekey**: every encryption in a transport history
    on that nonce has empty associated data and 32 zero bytes as plaintext; every other one
    (every message) uses a nonce at least the sending counter the history started from. -/
theorem rekey_nonce_reserved (S : Suite) (ts : TS) (ops : List TOp) (j : Nat) (k : Bytes) (n : UInt64) (a p : Bytes)
    (hj : (trun S ts ops).2[j]? = some (.enc k n a p)) :
    (n = MAXN ∧ a = [] ∧ p = Bytes.zeros 32) ∨ (n ≠ MAXN ∧ ts.sendCs.n.toNat ≤ n.toNat) :=
  (trun_mono S ts ops).2.lower j k n a p hj

/-- **Between two rekeys of the sending direction all messages are encrypted under one key**:
    in a history without `rekey_outgoing` / the matching `rekey_initiator`/`rekey_responder` /
    a manual rekey of the sending key, every message encryption uses the sending key the endpoint
    started with (and by `transport_nonces_increase` strictly increasing nonces). -/
theorem transport_one_key_between_rekeys (S : Suite) (ts : TS) (ops : List TOp)
    (hno : ∀ op ∈ ops, op.rekeysSend ts.initiator = false) :
    (trun S ts ops).1.sendCs.key = ts.sendCs.key ∧
    ∀ kk nn a p, Event.enc kk nn a p ∈ (trun S ts ops).2 → nn ≠ MAXN → kk = ts.sendCs.key :=
  trun_key S ts ops hno

/-! ## 5. Ephemeral keys are fresh -/

theorem writeMessage_ok_parts (S : Suite) (hs : HS) (p : Bytes) (cap : Nat) (n : Nat) (hs' : HS) (acc : Bytes)
    (ev : List Event) (h : hs.writeMessage S p cap = (.ok n, hs', acc, ev)) :
    (writeInner S hs p cap).1 = .ok n ∧ hs'.rng = (writeInner S hs p cap).2.hs.rng ∧
    hs'.e = (writeInner S hs p cap).2.hs.e ∧
    acc = (writeInner S hs p cap).2.acc ∧ ev = (writeInner S hs p cap).2.ev := by
  unfold writeMessage at h
  simp only at h
  cases hr : (writeInner S hs p cap).1 with
  | err e => simp [hr] at h
  | panic q => simp [hr] at h
  | ok n' =>
    simp only [hr, Prod.mk.injEq, Res.ok.injEq] at h
    obtain ⟨rfl, rfl, rfl, rfl⟩ := h
    exact ⟨rfl, rfl, rfl, rfl, rfl⟩

/-- **Every ephemeral key placed in a handshake message is drawn from the random source during
    that very write.** For a successful `write_message` without the testing-only fixed ephemeral:
    * the call drew exactly one `priv_len`-byte block per `e` token of the message, consecutive
      blocks of the random stream in order, and logged each of them (`rngOf ev`);
    * the stream is left advanced past all of them, so no block is ever used by two calls;
    * for every `e` token of the message (`pre` = the tokens before it), `rng d` is in the call's
      log and the message bytes contain `pubOf d` at the offset the message had reached, where `d`
      is the block drawn for that token. -/
theorem ephemeral_fresh (S : Suite) (hs : HS) (p : Bytes) (cap : Nat) (n : Nat) (hs' : HS) (acc : Bytes)
    (ev : List Event) (h : hs.writeMessage S p cap = (.ok n, hs', acc, ev)) (hf : hs.fixedE = false) :
    hs'.rng = hs.rng.drop (S.privLen * (curToks hs).count .e) ∧
    rngOf ev = draws S.privLen hs.rng ((curToks hs).count .e) ∧
    ∀ pre post, curToks hs = pre ++ .e :: post →
      Event.rng (Bytes.fit S.privLen (hs.rng.drop (S.privLen * pre.count .e))) ∈ ev ∧
      ∃ rest, acc = (writeToks S cap pre (w0 hs)).2.acc ++
        S.pubOf (Bytes.fit S.privLen (hs.rng.drop (S.privLen * pre.count .e))) ++ rest := by
  obtain ⟨hok, hrng, _, hacc, hev⟩ := writeMessage_ok_parts S hs p cap n hs' acc ev h
  obtain ⟨_, t2, _, _, t5⟩ := writeInner_struct S hs p cap
  obtain ⟨hready, hloop⟩ := t5 n hok
  obtain ⟨⟨ct, hct⟩, s2, _⟩ := writeInner_ok_shape S hs p cap n hok
  have hL := writeToks_rng S cap (curToks hs) (w0 hs) hf hloop
  have hLev := writeToks_ev S cap (curToks hs) (w0 hs)
  simp only [List.nil_append] at hLev
  refine ⟨by rw [hrng, s2]; exact hL.1, ?_, ?_⟩
  · rw [hev, t2 hready, rngOf_append, payloadEv_rng, List.append_nil, hLev]
    exact hL.2
  · intro pre post hsplit
    have hloop' : (writeToks S cap (pre ++ .e :: post) (w0 hs)).1 = .ok () := by rw [← hsplit]; exact hloop
    obtain ⟨rest, hr1, hr2⟩ := writeToks_e_on_wire S cap pre post (w0 hs) hf hloop'
    rw [← hsplit] at hr1 hr2
    refine ⟨?_, rest ++ ct, ?_⟩
    · rw [hev, t2 hready]
      exact List.mem_append_left _ hr2
    · rw [hacc, hct, hr1, List.append_assoc]

/-- For a message whose first token is `e` (all first messages of the two-way fundamental
    patterns), or `psk` then `e` (the `psk0` patterns): the message starts with `pubOf d`, `d` being
    the first block of the random stream at the time of the call, logged as drawn by this call. -/
theorem ephemeral_first_on_wire (S : Suite) (hs : HS) (p : Bytes) (cap : Nat) (n : Nat) (hs' : HS) (acc : Bytes)
    (ev : List Event) (h : hs.writeMessage S p cap = (.ok n, hs', acc, ev)) (hf : hs.fixedE = false)
    (post : List Tok) (k : Nat) (ht : curToks hs = .e :: post ∨ curToks hs = .psk k :: .e :: post) :
    Event.rng (Bytes.fit S.privLen hs.rng) ∈ ev ∧ ∃ rest, acc = S.pubOf (Bytes.fit S.privLen hs.rng) ++ rest := by
  have hfr := (ephemeral_fresh S hs p cap n hs' acc ev h hf).2.2
  rcases ht with ht | ht
  · obtain ⟨h1, rest, h2⟩ := hfr [] post (by rw [ht]; rfl)
    simp only [List.count_nil, Nat.mul_zero, List.drop_zero, writeToks, List.nil_append] at h1 h2
    exact ⟨h1, rest, h2⟩
  · obtain ⟨h1, rest, h2⟩ := hfr [.psk k] post (by rw [ht]; rfl)
    have hc : ([Tok.psk k] : List Tok).count .e = 0 := by simp
    have hacc : (writeToks S cap [.psk k] (w0 hs)).2.acc = [] := by
      by_cases a : (writeTok S cap (w0 hs) (.psk k)).1 = .ok ()
      · rw [writeToks_cons_ok S cap _ _ _ a, writeToks, writeTok_psk_eq]
      · rw [writeToks_cons_fail S cap _ _ _ a, writeTok_psk_eq]
    rw [hc, hacc] at h2
    rw [hc] at h1
    simp only [Nat.mul_zero, List.drop_zero, List.nil_append] at h1 h2
    exact ⟨h1, rest, h2⟩

/-- The same with the `PubLen` law of the suite (public keys have `pub_len` bytes): the first
    `pub_len` bytes of the message are `pubOf d`. -/
theorem ephemeral_first_on_wire_take (S : Suite) (hP : S.PubLen) (hs : HS) (p : Bytes) (cap : Nat) (n : Nat)
    (hs' : HS) (acc : Bytes) (ev : List Event) (h : hs.writeMessage S p cap = (.ok n, hs', acc, ev))
    (hf : hs.fixedE = false) (post : List Tok) (k : Nat)
    (ht : curToks hs = .e :: post ∨ curToks hs = .psk k :: .e :: post) :
    Event.rng (Bytes.fit S.privLen hs.rng) ∈ ev ∧ acc.take S.pubLen = S.pubOf (Bytes.fit S.privLen hs.rng) := by
  obtain ⟨h1, rest, h2⟩ := ephemeral_first_on_wire S hs p cap n hs' acc ev h hf post k ht
  exact ⟨h1, by rw [h2]; exact List.take_left' (hP _)⟩

/-- With the testing-only fixed ephemeral a write draws nothing from the random source. -/
theorem fixed_ephemeral_draws_nothing (S : Suite) (hs : HS) (p : Bytes) (cap : Nat) (hf : hs.fixedE = true) :
    rngOf (hs.writeMessage S p cap).2.2.2 = [] := by
  rw [writeMessage_ev]
  obtain ⟨t1, t2, _⟩ := writeInner_struct S hs p cap
  by_cases hr : Ready hs
  · have hLev := writeToks_ev S cap (curToks hs) (w0 hs)
    simp only [List.nil_append] at hLev
    rw [t2 hr, rngOf_append, payloadEv_rng, List.append_nil, hLev]
    exact (writeToks_rng_fixed S cap (curToks hs) (w0 hs) hf).2
  · rw [t1 hr]; rfl

/-! ## The history-level statements

The property over every history of one endpoint, and merged over both endpoints, is proved in
`Theorems/C06Hist.lean` (`history_no_reuse`, `history_no_reuse_built(_total)`,
`history_no_reuse_without_reinstall`, `endpoint_no_reuse`, `chain_no_reuse`,
`transport_cross_no_reuse`) and `Lemmas/C06HistExchFull.lean` (`exchange_no_reuse`,
`built_exchange_no_reuse`), on top of the components of this file: the per-cipher discipline (1),
the per-call reduction (2), the three facts that make a failed write harmless (3 a, b, c), reads
never encrypt, the transport statement (4) and freshness of ephemerals (5); plus a ghost log for
`read_message`, the table fact that no encryption follows an `e` token before the next key
installation (`instance_enc_after_e`), and restore markers.
One residual case is real and recorded as known finding KF3: a retry that draws a fresh ephemeral
re-derives the same key when the DH output does not depend on it (`dh e1 re = dh e2 re`, e.g. a
low-order X25519 point sent by the peer); the `s` field is then encrypted under the same
(key, nonce 0) with a different handshake hash. In the theorems this is the "KDF installation of
that very key" disjunct.
-/

/-! ## 6. Non-vacuity: concrete runs on the toy suite -/

namespace Ex
open SnowVerif.Theorems.C14.Ex SnowVerif.C14Toy

/-- (key, nonce) of the `enc` events of a log. -/
def encKN : Event → Option (Bytes × UInt64)
  | .enc k n _ _ => some (k, n)
  | _ => none

/-- Executable check of `SymInv` (for concrete states). -/
def symInvB (sym : Sym) : Bool :=
  (match sym.k with
   | some key => sym.cs.key == key && sym.cs.hasKey
   | none => true) && (!sym.hasKey || sym.k.isSome)

theorem symInv_of_check (sym : Sym) (h : symInvB sym = true) : SymInv sym := by
  unfold symInvB at h
  unfold SymInv
  cases hk : sym.k with
  | none => simp [hk] at h ⊢; simpa using h
  | some key =>
    simp [hk] at h ⊢
    first | exact h | exact ⟨h.1, h.2⟩

theorem eta4 {α β γ δ : Type} (x : α × β × γ × δ) (a : α) (h : x.1 = a) : x = (a, x.2.1, x.2.2.1, x.2.2.2) := by
  subst h; rfl

/-- The XX initiator after reading message 2 (a reachable state: built by `Builder::build`, one
    write, one read): a key is installed and the handshake nonce is 1. -/
def i2 : HS := (rd2 99).2.1
/-- Message 3 (`-> s, se`) with payload `p` into a `cap`-byte buffer. -/
def w3 (p : Bytes) (cap : Nat) := i2.writeMessage S0 p cap
/-- The state a failing message 3 leaves (the D3 scenario: the `s` field fits a 60-byte buffer and
    is encrypted, then the payload does not fit). -/
def i2' : HS := (w3 [1, 2, 3] 60).2.1
/-- The retry (other payload, other buffer), with the same future random stream. -/
def w3' := ({ i2' with rng := i2.rng } : HS).writeMessage S0 [9, 9] 1000

/-- One evaluation of the whole scenario (the kernel shares the work between the conjuncts):
    * `i2` satisfies the invariant, its current message is `s, se`, a key is installed, nonce 1;
    * the 60-byte write fails with `Input` *after* its first AEAD operation: it has logged exactly
      one encryption, under the installed key at nonce 1;
    * the state it leaves has key and nonce 1 again;
    * the retry succeeds (66 bytes), its log starts with the failed call's log; its two
      encryptions are at (installed key, 1) and (a different key, 0). -/
theorem scenario :
    symInvB i2.sym = true ∧ curToks i2 = [.s, .se] ∧ (w3 [1, 2, 3] 60).1 = .err .input ∧
    i2.sym.k = some i2.sym.cs.key ∧ i2.sym.cs.n = 1 ∧ encCount (w3 [1, 2, 3] 60).2.2.2 = 1 ∧
    (w3 [1, 2, 3] 60).2.2.2.filterMap encKN = [(i2.sym.cs.key, 1)] ∧
    i2'.sym.cs.n = 1 ∧ i2'.sym.cs.key = i2.sym.cs.key ∧
    w3'.1 = .ok 66 ∧ w3'.2.2.2.take 1 = (w3 [1, 2, 3] 60).2.2.2 ∧
    (w3'.2.2.2.filterMap encKN).map (·.2) = [1, 0] ∧
    ((w3'.2.2.2.filterMap encKN)[0]?.map (·.1)) = some i2.sym.cs.key ∧
    ((w3'.2.2.2.filterMap encKN)[1]?.map (·.1)) ≠ some i2.sym.cs.key := by decide +kernel

theorem i2_inv : SymInv i2.sym := symInv_of_check _ scenario.1
theorem i2_noReE : C07.NoReE i2 := by
  intro _
  right
  show Tok.e ∉ curToks i2
  rw [scenario.2.1]; decide
theorem w3_fails : i2.writeMessage S0 [1, 2, 3] 60 = (.err .input, i2', (w3 [1, 2, 3] 60).2.2.1, (w3 [1, 2, 3] 60).2.2.2) :=
  eta4 (w3 [1, 2, 3] 60) _ scenario.2.2.1

/-- (a) applies to a call that fails after its first AEAD operation (the case the unrepaired code
    got wrong): the one encryption is that of the static key. -/
example : ∀ kk nn a pt, Event.enc kk nn a pt ∈ (w3 [1, 2, 3] 60).2.2.2 → pt = i2.s.val.pub ∧ Tok.s ∈ curToks i2 :=
  (write_err_no_payload_encrypted S0 i2 _ _ _ _ _ _ w3_fails).2.1

/-- (b) on this run: the cipher state is back, key and nonce 1. -/
example : i2'.sym.cs = i2.sym.cs :=
  (write_err_restores_cipher S0 i2 i2_inv _ _ _ _ _ _ w3_fails).2.2.2.2.1 _ scenario.2.2.2.1

theorem w3'_eq : w3' = ({ i2' with rng := i2.rng } : HS).writeMessage S0 [9, 9] 1000 := rfl
/-- (c) on this run: the retry's log extends the failed call's: the `s` field is re-encrypted
    under the same (key, nonce 1) with the same data. -/
example : (w3 [1, 2, 3] 60).2.2.2 <+: w3'.2.2.2 := by
  have h := (retry_same_prefix S0 i2 i2_inv i2_noReE [1, 2, 3] 60 .input i2' (w3 [1, 2, 3] 60).2.2.1
    (w3 [1, 2, 3] 60).2.2.2 w3_fails [9, 9] 1000).2.2
  have hok : w3'.1 = .ok 66 := scenario.2.2.2.2.2.2.2.2.2.1
  rw [w3'_eq] at hok ⊢
  dsimp only at hok ⊢
  exact h ⟨66, hok⟩

/-- `retry_same_prefix_no_draw` applies to this run (message 3 has no `e` token): the retry made
    directly on the state the failed call left, whatever randomness it is given. -/
example : i2'.rng = i2.rng ∧ Compat (w3 [1, 2, 3] 60).2.2.2 (i2'.writeMessage S0 [9, 9] 1000).2.2.2 :=
  let t := retry_same_prefix_no_draw S0 i2 i2_inv i2_noReE [1, 2, 3] 60 .input i2' (w3 [1, 2, 3] 60).2.2.1
    (w3 [1, 2, 3] 60).2.2.2 w3_fails (Or.inr (by rw [scenario.2.1]; decide)) [9, 9] 1000
  ⟨t.1, t.2.1⟩

/-- Shape of a ghost log: 100+n an installation at nonce n, 200+n an encryption at nonce n, 0 other. -/
def gshape : GEv → Nat
  | .install _ n => 100 + n.toNat
  | .ev (.enc _ n _ _) => 200 + n.toNat
  | .ev _ => 0

/-- (2) on a run with two installations: message 2 of XX (`<- e, ee, s, es`) encrypts the `s`
    field and the payload both at nonce 0, under different keys; the ghost log has the draw, the
    `ee` installation, the `s` encryption, the `es` installation, the payload encryption. -/
example : ((w2 1000).2.2.2.filterMap encKN).map (·.2) = [0, 0] ∧
    ((w2 1000).2.2.2.filterMap encKN)[0]?.map (·.1) ≠ ((w2 1000).2.2.2.filterMap encKN)[1]?.map (·.1) ∧
    (writeG S0 r1.2.1 [0xAA, 0xBB, 0xCC] 1000).map gshape = [0, 100, 200, 100, 200] := by
  decide +kernel

/-- (5) on message 1 of XX: the 32 bytes on the wire are `pubOf` of the block drawn by this call,
    and the stream is advanced past it; also as an instance of `ephemeral_first_on_wire`. -/
theorem w1_facts : w1.1 = .ok 32 ∧ curToks i0 = [.e] ∧ w1.2.2.2 = [.rng (List.replicate 32 7)] ∧
    w1.2.2.1.take 32 = S0.pubOf (List.replicate 32 7) ∧ w1.2.1.rng = [] := by decide +kernel
example : ∃ rest, w1.2.2.1 = S0.pubOf (Bytes.fit S0.privLen i0.rng) ++ rest :=
  (ephemeral_first_on_wire S0 i0 _ _ _ _ _ _ (eta4 w1 (.ok 32) w1_facts.1) (by decide) [] 0 (Or.inl w1_facts.2.1)).2

/-- (4) A transport history with a failing write, a rekey and a manual rekey to the *same* key:
    the message nonces are 5, 6, 7 and the only other encryption is the rekey's on 2^64-1. -/
def tops : List TOp :=
  [.write [1] 100, .write [2] 3, .rekeyOutgoing, .write [3] 100, .rekeyManually (some (Bytes.zeros 32)) none, .write [4] 100]
example : ((trun S0 ts0 tops).2.filterMap encKN).map (·.2) = [5, MAXN, 6, 7] := by decide +kernel

/-- (1) One cipher state: a failing encryption (buffer too small) in the middle changes nothing. -/
example : (erase (csRun S0 { key := Bytes.zeros 32, n := 3, hasKey := true }
      [.enc [] [1] 100, .enc [] [2] 1, .dec [] [] 0, .enc [] [3] 100]).2).filterMap encKN =
    [(Bytes.zeros 32, 3), (Bytes.zeros 32, 4)] := by decide +kernel

end Ex

end SnowVerif.Theorems.C06
