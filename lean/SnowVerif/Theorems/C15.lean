/-
  C15  Rekey follows the specification and keeps or breaks sync as expected.
-/
import SnowVerif.Lemmas.Transport
import SnowVerif.Theorems.C04
import SnowVerif.Spec.Crypto

namespace SnowVerif.Theorems.C15
open SnowVerif SnowVerif.Model SnowVerif.Model.TS SnowVerif.Theorems.C04
set_option linter.unusedVariables false
set_option linter.unusedSimpArgs false

/-- The key a rekey installs is the specification's `REKEY(k)`. -/
theorem rekey_eq_spec (S : Suite) (cs : CipherState) :
    (cs.rekey S).1.key = Spec.rekey S cs.key ∧ (cs.rekey S).1.n = cs.n ∧ (cs.rekey S).1.hasKey = cs.hasKey := by
  simp [CipherState.rekey, rekeyKey, Spec.rekey]

/-- `rekey_outgoing`: the sending key becomes `REKEY(old)`; both nonces and the receiving key
    are untouched. Same data in stateful and stateless mode (the model type is shared). -/
theorem rekey_outgoing_spec (S : Suite) (ts : TS) :
    (ts.rekeyOutgoing S).1.sendCs.key = Spec.rekey S ts.sendCs.key ∧
    (ts.rekeyOutgoing S).1.sendCs.n = ts.sendCs.n ∧
    (ts.rekeyOutgoing S).1.recvCs = ts.recvCs ∧
    (ts.rekeyOutgoing S).1.initiator = ts.initiator ∧ (ts.rekeyOutgoing S).1.oneway = ts.oneway ∧
    (ts.rekeyOutgoing S).1.sendCs.hasKey = ts.sendCs.hasKey := by
  unfold rekeyOutgoing rekeyInitiator rekeyResponder sendCs recvCs
  cases h : ts.initiator <;> simp [h, CipherState.rekey, rekeyKey, Spec.rekey]

theorem rekey_incoming_spec (S : Suite) (ts : TS) :
    (ts.rekeyIncoming S).1.recvCs.key = Spec.rekey S ts.recvCs.key ∧
    (ts.rekeyIncoming S).1.recvCs.n = ts.recvCs.n ∧
    (ts.rekeyIncoming S).1.sendCs = ts.sendCs ∧
    (ts.rekeyIncoming S).1.initiator = ts.initiator ∧ (ts.rekeyIncoming S).1.oneway = ts.oneway ∧
    (ts.rekeyIncoming S).1.recvCs.hasKey = ts.recvCs.hasKey := by
  unfold rekeyIncoming rekeyInitiator rekeyResponder sendCs recvCs
  cases h : ts.initiator <;> simp [h, CipherState.rekey, rekeyKey, Spec.rekey]

/-- Manual rekey installs exactly the given bytes for the named direction(s), nothing else. -/
theorem rekey_manually_spec (ts : TS) (ki kr : Option Bytes) :
    (ts.rekeyManually ki kr).cs1.key = ki.getD ts.cs1.key ∧ (ts.rekeyManually ki kr).cs2.key = kr.getD ts.cs2.key ∧
    (ts.rekeyManually ki kr).cs1.n = ts.cs1.n ∧ (ts.rekeyManually ki kr).cs2.n = ts.cs2.n ∧
    (ts.rekeyManually ki kr).initiator = ts.initiator := by
  unfold rekeyManually
  cases ki <;> cases kr <;> simp [CipherState.rekeyManually]

/-- Directional key agreement: what the sender sends with equals what the receiver receives with. -/
def DirSync (a b : TS) : Prop := a.sendCs.key = b.recvCs.key

/-- **Synchronised rekey keeps the direction in sync**: one side rekeys outgoing, the other
    incoming; the keys of that direction agree again (and are `REKEY` of the old ones). -/
theorem rekey_sync (S : Suite) (a b : TS) (h : DirSync a b) :
    DirSync (a.rekeyOutgoing S).1 (b.rekeyIncoming S).1 := by
  unfold DirSync at *
  rw [(rekey_outgoing_spec S a).1, (rekey_incoming_spec S b).1, h]

def iter {α : Type} (f : α → α) : Nat → α → α
  | 0, x => x
  | k + 1, x => iter f k (f x)

/-- ... any number of times. -/
theorem rekey_sync_iter (S : Suite) (k : Nat) (a b : TS) (h : DirSync a b) :
    DirSync (iter (fun t => (t.rekeyOutgoing S).1) k a) (iter (fun t => (t.rekeyIncoming S).1) k b) := by
  induction k generalizing a b with
  | zero => exact h
  | succ k ih => exact ih _ _ (rekey_sync S a b h)

/-- After synchronised rekeys every later message is delivered and equals, byte for byte,
    `ENCRYPT(REKEY^j(k), n, "", payload)`: sender output ... -/
theorem message_after_rekey (S : Suite) (a : TS) (ha : CanSend a) (p : Bytes) (cap : Nat)
    (g : WGuards (a.rekeyOutgoing S).1 p cap) :
    ((a.rekeyOutgoing S).1.writeMessage S p cap).1 = .ok (S.enc (Spec.rekey S a.sendCs.key) a.sendCs.n [] p) := by
  have hs := rekey_outgoing_spec S a
  have ha' : CanSend (a.rekeyOutgoing S).1 := by
    unfold CanSend at *; rw [hs.2.2.2.2.2, hs.2.2.2.1, hs.2.2.2.2.1]; exact ha
  rw [write_guards_ok S _ p cap ha' g, hs.1, hs.2.1]

/-- ... and receiver acceptance (via C04's `genuine_accepted` shape, restated for a direction). -/
theorem delivered_when_in_sync (S : Suite) (hde : S.DecEnc) (hel : S.EncLen) (a b : TS) (h : DirSync a b)
    (ha : CanSend a) (hb : CanRecv b) (hn : b.recvCs.n = a.sendCs.n) (p : Bytes) (cap capr : Nat)
    (g : WGuards a p cap) (hc : p.length ≤ capr) :
    ∃ b' buf ev, b.readMessage S (S.enc a.sendCs.key a.sendCs.n [] p) capr = (.ok p, b', buf, ev) := by
  have hlen := hel a.sendCs.key a.sendCs.n [] p
  have gg : Guards b (S.enc a.sendCs.key a.sendCs.n [] p) capr := by
    unfold Guards; rw [hlen, hn]; exact ⟨g.1, by omega, by omega, g.2.2⟩
  rw [read_guards_ok S b _ capr hb gg, ← h, hn, hde]
  exact ⟨_, _, _, rfl⟩

/-- **Desynchronised keys**: if the sender's key for a direction differs from the receiver's
    (one-sided rekey, different manual keys), a message of the sender is rejected, or the run
    exhibits one ciphertext valid under two different keys (AEAD context collision). -/
theorem rejected_when_out_of_sync (S : Suite) (hs : S.DecSound) (a b : TS) (hb : CanRecv b)
    (hne : a.sendCs.key ≠ b.recvCs.key) (n : UInt64) (p : Bytes) (capr : Nat) :
    ¬ (b.readMessage S (S.enc a.sendCs.key n [] p) capr).1.isOk ∨
    ∃ q, a.sendCs.key ≠ b.recvCs.key ∧ S.enc a.sendCs.key n [] p = S.enc b.recvCs.key b.recvCs.n [] q := by
  cases hr : b.readMessage S (S.enc a.sendCs.key n [] p) capr with
  | mk r rest =>
    obtain ⟨b', buf, ev⟩ := rest
    cases r with
    | ok q =>
      right
      have := (t_read_ok_iff S b hb _ capr q).mp ⟨_, _, _, hr⟩
      exact ⟨q, hne, hs _ _ _ _ _ this.2⟩
    | err e => left; simp [Res.isOk]
    | panic z => left; simp [Res.isOk]

/-- One-sided rekey desynchronises unless `REKEY(k) = k` (a KDF coincidence witness). -/
theorem one_sided_rekey_desync (S : Suite) (a b : TS) (h : DirSync a b) :
    ¬ DirSync (a.rekeyOutgoing S).1 b ∨ Spec.rekey S a.sendCs.key = a.sendCs.key := by
  unfold DirSync at *
  rw [(rekey_outgoing_spec S a).1]
  by_cases hk : Spec.rekey S a.sendCs.key = a.sendCs.key
  · right; exact hk
  · left; rw [← h]; exact hk

end SnowVerif.Theorems.C15
