/-
  C13  The protocol-name parser accepts exactly the Noise name grammar.

  `Model.parse` mirrors `NoiseParams::from_str` (five-way split on `_`, longest-prefix split of
  pattern and modifiers, `+` split of the modifier list, duplicate check).  The grammar
  (`Lemmas/C13Grammar.lean`: `Grammar`, `HandshakeGrammar`, `Item`, `DhName`, ...) is declarative: it
  only says how a grammatical name is *written*.  `parse_ok_iff` says the two coincide for every
  byte string and every build (`Features`).

  Two things the property's prose leaves open are made explicit here and are not violations:
  leading zeros in `psk` indices (`psk01` denotes `psk1`, and therefore `psk1+psk01` is a
  duplicate), and names whose primitives parse although no resolver provides them (`448`).
  Whether a modifier fits the pattern (`XXfallback`, `NNpsk9`) is decided when the handshake is
  built (C12), not by the parser.
-/
import SnowVerif.Lemmas.C13

namespace SnowVerif.Theorems.C13
open SnowVerif SnowVerif.Model SnowVerif.Lemmas.C13
open SnowVerif.Generated (Pattern allPatterns)
set_option linter.unusedVariables false
set_option linter.unusedSimpArgs false

/-! ## Table theorem -/

/-- Table check, re-evaluated whenever the generated pattern table changes: every table pattern's
    name has 1 to 4 bytes, consists only of the characters `N K X I 1`, and looking the name up in
    the table gives that pattern back (so no two patterns share a name). -/
theorem names_unambiguous : ∀ p ∈ allPatterns,
    (1 ≤ (str p.name).length ∧ (str p.name).length ≤ 4) ∧
    (∀ b ∈ str p.name, b ∈ patternAlphabet) ∧
    parsePattern (str p.name) = some p ∧
    parsePatternAndModifier (str p.name) = .ok (p, []) := by
  decide +kernel

/-- The table lists every pattern. -/
theorem table_complete (p : Pattern) : p ∈ allPatterns := by cases p <;> decide

/-- Different patterns have different names. -/
theorem pattern_names_distinct (p q : Pattern) (h : str p.name = str q.name) : p = q :=
  name_injective p q h

/-! ## The longest-prefix rule cannot mis-split a grammatical name -/

/-- For every table pattern `p` and every non-empty list of well-formed modifier items, no table
    pattern with a *longer* name is a prefix of `name(p) ++ items`: modifier strings start with a
    lowercase `p` or `f`, pattern names contain only `N K X I 1`.  Hence trying prefixes of length
    4, 3, 2, 1 in that order finds `p` and nothing else (e.g. `Xpsk1` is never read as `XK..`,
    `X1X1` is never cut after `X1X`). -/
theorem longest_prefix_unambiguous (p q : Pattern) (items : List (Bytes × Modifier))
    (hne : items ≠ []) (hit : ∀ it ∈ items, Item it.1 it.2)
    (hlen : (str p.name).length < (str q.name).length) :
    ¬ (str q.name <+: str p.name ++ modifierString items) := by
  obtain ⟨c, t, hh, hc⟩ := modifierString_head items hne hit
  rw [hh]
  exact no_longer_prefix p q c t (modStart_ok c hc).1 hlen

/-- The parser's split, stated on the parser: a table name followed by a non-empty modifier string
    is split exactly after the table name. -/
theorem split_after_pattern (p : Pattern) (items : List (Bytes × Modifier))
    (hne : items ≠ []) (hit : ∀ it ∈ items, Item it.1 it.2) :
    parsePatternAndModifier (str p.name ++ modifierString items) = .ok (p, modifierString items) := by
  obtain ⟨c, t, hh, hc⟩ := modifierString_head items hne hit
  rw [hh]
  exact parsePatternAndModifier_split p c t (modStart_ok c hc).1 (modStart_ok c hc).2

/-! ## Main theorem -/

/-- `HandshakeChoice::from_str` accepts exactly `<pattern><items joined by +>`. -/
theorem parseHandshake_ok_iff (s : Bytes) (p : Pattern) (ms : List Modifier) :
    parseHandshake s = .ok (p, ms) ↔ HandshakeGrammar s p ms :=
  Lemmas.C13.parseHandshake_ok_iff s p ms

/-- **C13.** For every build `f` and every byte string: parsing succeeds with value `r` if and only
    if the string has the form `Noise_<pattern><modifiers>_<dh>_<cipher>_<hash>` with a table
    pattern, `+`-separated well-formed modifier items no two of which denote the same modifier, and
    primitive names known to the build, and `r` names exactly those components and keeps the string
    verbatim. -/
theorem parse_ok_iff (f : Features) (bytes : Bytes) (r : Params) :
    parse f bytes = .ok r ↔ Grammar f bytes r := by
  rw [parse_ok_unfold]
  constructor
  · rintro ⟨p1, p2, p3, p4, hs, h1, h2, h3, h4, h5⟩
    refine ⟨p1, p2, p3, p4, ?_, (Lemmas.C13.parseHandshake_ok_iff _ _ _).mp h1,
      (parseDh_ok_iff _ _ _).mp h2, (parseCipher_ok_iff _ _ _).mp h3, (parseHash_ok_iff _ _).mp h4, h5⟩
    have := join_splitBy 95 bytes
    rw [hs] at this
    rw [← this]
    simp [joinWith, str_Noise, str_Noise_, str_us]
  · rintro ⟨hsN, dhN, ciN, haN, hb, hh, hd, hc, hha, hn⟩
    refine ⟨hsN, dhN, ciN, haN, ?_, (Lemmas.C13.parseHandshake_ok_iff _ _ _).mpr hh,
      (parseDh_ok_iff _ _ _).mpr hd, (parseCipher_ok_iff _ _ _).mpr hc, (parseHash_ok_iff _ _).mpr hha, hn⟩
    rw [hb]
    exact grammar_split f hsN dhN ciN haN _ _ _ _ _ hh hd hc hha

/-- The grammar is unambiguous: a string is a grammatical name in at most one way, i.e. it
    determines pattern, modifiers and primitives. -/
theorem grammar_functional (f : Features) (bytes : Bytes) (r r' : Params)
    (h : Grammar f bytes r) (h' : Grammar f bytes r') : r = r' := by
  have h1 := (parse_ok_iff f bytes r).mpr h
  have h2 := (parse_ok_iff f bytes r').mpr h'
  rw [h1] at h2
  exact Res.ok.inj h2

/-! ## Rejection: always a pattern error, never a panic -/

/-- Every string is either accepted or rejected with an error of kind `Pattern`. -/
theorem parse_ok_or_pattern (f : Features) (bytes : Bytes) :
    (∃ r, parse f bytes = .ok r) ∨ (∃ e, parse f bytes = .err (.pattern e)) :=
  parse_okp f bytes

/-- Whenever the parser does not accept, the result is `Err(Error::Pattern(_))`: no other error
    kind and no panic. -/
theorem parse_err_is_pattern (f : Features) (bytes : Bytes) (h : ∀ r, parse f bytes ≠ .ok r) :
    ∃ e, parse f bytes = .err (.pattern e) := by
  rcases parse_okp f bytes with ⟨r, hr⟩ | he
  · exact absurd hr (h r)
  · exact he

/-- Every string outside the grammar is rejected with a pattern error. -/
theorem not_grammar_rejected (f : Features) (bytes : Bytes) (h : ∀ r, ¬ Grammar f bytes r) :
    ∃ e, parse f bytes = .err (.pattern e) :=
  parse_err_is_pattern f bytes fun r hr => h r ((parse_ok_iff f bytes r).mp hr)

/-- The parser never panics, on any byte string (C10 for `NoiseParams::from_str`): all slicing is
    guarded by the length and char-boundary checks. -/
theorem parse_never_panics (f : Features) (bytes : Bytes) (site : String) :
    parse f bytes ≠ .panic site :=
  (parse_okp f bytes).not_panic

/-! ## The name is kept verbatim -/

/-- The parsed value stores the input string unchanged (this is what gets hashed into `h`). -/
theorem parse_name_verbatim (f : Features) (bytes : Bytes) (r : Params) (h : parse f bytes = .ok r) :
    r.name = bytes := by
  obtain ⟨_, _, _, _, _, _, _, _, _, hn⟩ := (parse_ok_iff f bytes r).mp h
  exact hn

/-! ## Non-ASCII input -/

/-- Accepted names are pure ASCII. -/
theorem parse_ok_ascii (f : Features) (bytes : Bytes) (r : Params) (h : parse f bytes = .ok r) :
    ∀ b ∈ bytes, b < 128 := by
  obtain ⟨hsN, dhN, ciN, haN, rfl, hh, hd, hc, hha, _⟩ := (parse_ok_iff f bytes r).mp h
  intro b hb
  simp only [List.mem_append, str_Noise_, str_us] at hb
  rcases hb with (((((((hb | hb) | hb) | hb) | hb) | hb) | hb) | hb)
  · revert b; decide
  · exact (hh.bytes b hb).2
  · revert b; decide
  · exact (hd.bytes b hb).2
  · revert b; decide
  · exact (hc.bytes b hb).2
  · revert b; decide
  · exact (hha.bytes b hb).2

/-- A string containing any byte `≥ 0x80` (any non-ASCII character, wherever it sits and however
    the char-boundary test of the prefix loop comes out) is rejected with a pattern error. -/
theorem parse_nonascii_rejected (f : Features) (bytes : Bytes) (b : UInt8) (hb : b ∈ bytes)
    (h : 128 ≤ b) : ∃ e, parse f bytes = .err (.pattern e) := by
  apply parse_err_is_pattern
  intro r hr
  have := parse_ok_ascii f bytes r hr b hb
  rw [UInt8.lt_iff_toNat_lt] at this
  rw [UInt8.le_iff_toNat_le] at h
  omega

/-! ## Consequences made explicit -/

/-- Leading zeros are accepted and do not change the denoted modifier: if `psk<ds>` is an item then
    so is `psk0<ds>`, denoting the same `psk` index (`psk01` is `psk1`; there is no bound on the
    number of zeros). -/
theorem psk_leading_zero (ds : Bytes) (hne : ds ≠ []) (hdig : ∀ d ∈ ds, IsAsciiDigit d)
    (hval : decVal ds ≤ 255) : Item (str "psk" ++ 48 :: ds) (.psk (decVal ds)) := by
  have hv : decVal (48 :: ds) = decVal ds := by simp [decVal]
  have := Item.psk (48 :: ds) (by simp)
    (by intro d hd
        simp only [List.mem_cons] at hd
        rcases hd with rfl | hd
        · unfold IsAsciiDigit; decide
        · exact hdig d hd)
    (by rw [hv]; exact hval)
  rwa [hv] at this

/-- `psk01` parses, to the modifier `psk1` (in every build). -/
theorem parse_psk01 (f : Features) :
    parse f (str "Noise_XXpsk01_25519_ChaChaPoly_SHA256") =
      .ok { name := str "Noise_XXpsk01_25519_ChaChaPoly_SHA256", pattern := .pXX, mods := [.psk 1],
            dh := .c25519, cipher := .chachaPoly, hash := .sha256 } := by
  rcases f with ⟨a, b⟩; cases a <;> cases b <;> decide +kernel

/-- ... and consequently `psk1+psk01` is a duplicate modifier. -/
theorem parse_psk1_psk01_duplicate (f : Features) :
    parse f (str "Noise_XXpsk1+psk01_25519_ChaChaPoly_SHA256") = .err (.pattern .duplicateModifier) := by
  rcases f with ⟨a, b⟩; cases a <;> cases b <;> decide +kernel

/-- `448` is a DH name of the grammar in every build, although no resolver provides Curve448:
    the name parses and the failure comes later, from the builder (`Init(GetDhImpl)`). -/
theorem parse_448 (f : Features) :
    parse f (str "Noise_NN_448_AESGCM_SHA512") =
      .ok { name := str "Noise_NN_448_AESGCM_SHA512", pattern := .pNN, mods := [],
            dh := .c448, cipher := .aesGcm, hash := .sha512 } := by
  rcases f with ⟨a, b⟩; cases a <;> cases b <;> decide +kernel

/-- `fallback` is accepted after any pattern: whether the modifier fits the pattern is decided when
    the handshake is built, not by the name parser. -/
theorem parse_XXfallback (f : Features) :
    parse f (str "Noise_XXfallback_25519_AESGCM_SHA256") =
      .ok { name := str "Noise_XXfallback_25519_AESGCM_SHA256", pattern := .pXX, mods := [.fallback],
            dh := .c25519, cipher := .aesGcm, hash := .sha256 } := by
  rcases f with ⟨a, b⟩; cases a <;> cases b <;> decide +kernel

/-- Likewise a `psk` index that no pattern has room for (`NNpsk9`, even `psk255`) parses. -/
theorem parse_NNpsk255 (f : Features) :
    parse f (str "Noise_NNpsk255_25519_AESGCM_SHA256") =
      .ok { name := str "Noise_NNpsk255_25519_AESGCM_SHA256", pattern := .pNN, mods := [.psk 255],
            dh := .c25519, cipher := .aesGcm, hash := .sha256 } := by
  rcases f with ⟨a, b⟩; cases a <;> cases b <;> decide +kernel

/-- The optional names are in the grammar exactly when the build has the feature. -/
theorem parse_P256 (f : Features) :
    parse f (str "Noise_XX_P256_AESGCM_SHA256") =
      if f.p256 then
        .ok { name := str "Noise_XX_P256_AESGCM_SHA256", pattern := .pXX, mods := [],
              dh := .p256, cipher := .aesGcm, hash := .sha256 }
      else .err (.pattern .unsupportedDhType) := by
  rcases f with ⟨a, b⟩; cases a <;> cases b <;> decide +kernel

theorem parse_XChaChaPoly (f : Features) :
    parse f (str "Noise_XX_25519_XChaChaPoly_SHA256") =
      if f.xchacha then
        .ok { name := str "Noise_XX_25519_XChaChaPoly_SHA256", pattern := .pXX, mods := [],
              dh := .c25519, cipher := .xchachaPoly, hash := .sha256 }
      else .err (.pattern .unsupportedCipherType) := by
  rcases f with ⟨a, b⟩; cases a <;> cases b <;> decide +kernel

/-! ## Non-vacuity: concrete names, accepted and rejected -/

section Examples
/-- Build with both optional features. -/
abbrev fAll : Features := ⟨true, true⟩
/-- Build with no optional feature. -/
abbrev fNone : Features := ⟨false, false⟩

/-- A name with two modifiers parses to the expected value. -/
theorem parse_example (f : Features) :
    parse f (str "Noise_XXpsk0+psk3_25519_ChaChaPoly_BLAKE2s") =
      .ok { name := str "Noise_XXpsk0+psk3_25519_ChaChaPoly_BLAKE2s", pattern := .pXX,
            mods := [.psk 0, .psk 3], dh := .c25519, cipher := .chachaPoly, hash := .blake2s } := by
  rcases f with ⟨a, b⟩; cases a <;> cases b <;> decide +kernel

/-- The same fact seen from the grammar side (so `Grammar` is inhabited and both directions of
    `parse_ok_iff` have instances). -/
example (f : Features) : Grammar f (str "Noise_XXpsk0+psk3_25519_ChaChaPoly_BLAKE2s")
    { name := str "Noise_XXpsk0+psk3_25519_ChaChaPoly_BLAKE2s", pattern := .pXX,
      mods := [.psk 0, .psk 3], dh := .c25519, cipher := .chachaPoly, hash := .blake2s } :=
  (parse_ok_iff f _ _).mp (parse_example f)

/-- A grammar derivation built by hand (not through the parser), and what the theorem makes of it. -/
example : parse fNone (str "Noise_" ++ (str "IK" ++ modifierString [(str "psk" ++ [50], .psk 2)]) ++
      str "_" ++ str "25519" ++ str "_" ++ str "AESGCM" ++ str "_" ++ str "SHA256") =
    .ok { name := str "Noise_" ++ (str "IK" ++ modifierString [(str "psk" ++ [50], .psk 2)]) ++
            str "_" ++ str "25519" ++ str "_" ++ str "AESGCM" ++ str "_" ++ str "SHA256",
          pattern := .pIK, mods := [.psk 2], dh := .c25519, cipher := .aesGcm, hash := .sha256 } := by
  apply (parse_ok_iff _ _ _).mpr
  refine ⟨_, _, _, _, rfl, ⟨[(str "psk" ++ [50], .psk 2)], rfl, ?_, rfl, by simp⟩,
    DhName.c25519, CipherName.aesGcm, HashName.sha256, rfl⟩
  intro it hit
  simp only [List.mem_singleton] at hit
  subst hit
  exact Item.psk [50] (by simp) (by unfold IsAsciiDigit; decide) (by decide)

-- longest-prefix splitting: `X` + `psk1`, not `XK..`; `X1X1`, not `X1X` + `1`; `NK1` + `fallback`.
example : (parse fAll (str "Noise_Xpsk1_25519_ChaChaPoly_SHA256")).map (fun r => (r.pattern, r.mods)) =
    .ok (.pX, [.psk 1]) := by decide +kernel
example : (parse fAll (str "Noise_X1X1_25519_ChaChaPoly_SHA256")).map (fun r => (r.pattern, r.mods)) =
    .ok (.pX1X1, []) := by decide +kernel
example : (parse fAll (str "Noise_NK1fallback+psk0_25519_ChaChaPoly_SHA256")).map
    (fun r => (r.pattern, r.mods)) = .ok (.pNK1, [.fallback, .psk 0]) := by decide +kernel
example : (parse fAll (str "Noise_X1X1psk0001_448_XChaChaPoly_BLAKE2b")).map
    (fun r => (r.pattern, r.mods, r.dh, r.cipher, r.hash)) =
    .ok (.pX1X1, [.psk 1], .c448, .xchachaPoly, .blake2b) := by decide +kernel

-- rejected strings and their errors
example : parse fAll (str "") = .err (.pattern .unsupportedBaseType) := by decide +kernel
example : parse fAll (str "Noise") = .err (.pattern .tooFewParameters) := by decide +kernel
example : parse fAll (str "noise_XX_25519_AESGCM_SHA256") = .err (.pattern .unsupportedBaseType) := by
  decide +kernel
example : parse fAll (str "Noise_XX_25519_AESGCM") = .err (.pattern .tooFewParameters) := by decide +kernel
example : parse fAll (str "Noise_XXpsk0_25519_AESGCM_SHA256_HackThePlanet") =
    .err (.pattern .tooManyParameters) := by decide +kernel
example : parse fAll (str "Noise_XX_25519_AESGCM_SHA256_") = .err (.pattern .tooManyParameters) := by
  decide +kernel
example : parse fAll (str "Noise__25519_AESGCM_SHA256") = .err (.pattern .unsupportedHandshakeType) := by
  decide +kernel
example : parse fAll (str "Noise_xx_25519_AESGCM_SHA256") = .err (.pattern .unsupportedHandshakeType) := by
  decide +kernel
example : parse fAll (str "Noise_XY_25519_AESGCM_SHA256") = .err (.pattern .unsupportedModifier) := by
  decide +kernel  -- read as pattern `X` followed by the unknown modifier `Y`
example : parse fAll (str "Noise_XXfallback+fallback_25519_AESGCM_SHA256") =
    .err (.pattern .duplicateModifier) := by decide +kernel
example : parse fAll (str "Noise_XXpsk1+psk1_25519_AESGCM_SHA256") = .err (.pattern .duplicateModifier) := by
  decide +kernel
example : parse fAll (str "Noise_XXpsk256_25519_AESGCM_SHA256") = .err (.pattern .invalidPsk) := by
  decide +kernel
example : parse fAll (str "Noise_XXpsk_25519_AESGCM_SHA256") = .err (.pattern .invalidPsk) := by
  decide +kernel
example : parse fAll (str "Noise_XXpsk-1_25519_AESGCM_SHA256") = .err (.pattern .invalidPsk) := by
  decide +kernel
example : parse fAll (str "Noise_XXpsk0+_25519_AESGCM_SHA256") = .err (.pattern .unsupportedModifier) := by
  decide +kernel
example : parse fAll (str "Noise_XX+psk0_25519_AESGCM_SHA256") = .err (.pattern .unsupportedModifier) := by
  decide +kernel
example : parse fAll (str "Noise_XXFallback_25519_AESGCM_SHA256") = .err (.pattern .unsupportedModifier) := by
  decide +kernel
example : parse fAll (str "Noise_XX_25519_AESGCM_Blake2s") = .err (.pattern .unsupportedHashType) := by
  decide +kernel
example : parse fAll (str "Noise_XX_Curve25519_AESGCM_SHA256") = .err (.pattern .unsupportedDhType) := by
  decide +kernel
example : parse fNone (str "Noise_XX_P256_AESGCM_SHA256") = .err (.pattern .unsupportedDhType) := by
  decide +kernel
example : parse fNone (str "Noise_XX_25519_XChaChaPoly_SHA256") = .err (.pattern .unsupportedCipherType) := by
  decide +kernel
-- non-ASCII: `é` is two bytes (C3 A9); prefix length 3 is not a char boundary, length 2 gives `XX`,
-- and the rest is no modifier.  `XXé` has 4 bytes but is no pattern.
example : parse fAll (str "Noise_XXé_25519_AESGCM_SHA256") = .err (.pattern .unsupportedModifier) := by
  decide +kernel
example : parse fAll (str "Noise_Xé_25519_AESGCM_SHA256") = .err (.pattern .unsupportedModifier) := by
  decide +kernel
example : parse fAll (str "Noise_é_25519_AESGCM_SHA256") = .err (.pattern .unsupportedHandshakeType) := by
  decide +kernel
example : ∃ e, parse fAll (str "Noise_XX_25519_AESGCM_SHA256é") = .err (.pattern e) :=
  parse_nonascii_rejected _ _ 0xC3 (by decide +kernel) (by decide)

end Examples

/-- The standalone `FromStr` of a modifier (which inherits `u8::from_str`'s optional `+` sign)
    coincides with the name parser's modifier function on every string without a `+`: in
    particular on every item of a protocol name's modifier list, which is what lies between the
    `+` separators. -/
theorem parseU8Signed_eq (t : Bytes) (h : (43 : UInt8) ∉ t) : parseU8Signed t = parseU8 t := by
  unfold parseU8Signed
  split
  · rename_i rest
    exact absurd List.mem_cons_self h
  · rfl

theorem parseModifierDirect_eq (s : Bytes) (h : (43 : UInt8) ∉ s) : parseModifierDirect s = parseModifier s := by
  unfold parseModifierDirect parseModifier
  rw [parseU8Signed_eq (s.drop 3) (fun hc => h (List.mem_of_mem_drop hc))]

/-- ... and it differs exactly there: `psk+1` is accepted by the standalone parser only. -/
example : parseModifierDirect [112, 115, 107, 43, 49] = .ok (.psk 1) ∧
    parseModifier [112, 115, 107, 43, 49] = .err (.pattern .invalidPsk) := by
  decide +kernel

end SnowVerif.Theorems.C13
