/-
  C16 (continued)  Schedules, orders, repetitions, and "the n-th message of a stateful sender".

  * A concurrent execution is modelled at the granularity of whole calls: a *schedule* is the
    list of (thread, call) pairs in the order in which the calls take effect on the shared
    session.  Because `stWrite` / `stRead` return no state, running a schedule is a `map`; what a
    thread observes is a function of its own calls only, whatever the other threads do and in
    whatever order (`sched_thread_results`, `sched_independent`, `sched_alone`).
    What this cannot exhibit is an interleaving *inside* one call (a data race on interior
    mutability).  That part is carried by the types of the Rust code (`&self`, no `unsafe`, no
    interior mutability in `src/`: scanned by `check` on every run) and by the thread stress of the
    correspondence check (exploration).
  * `roundtrip_any_order`: every message written under a nonce below 2^64-1 is read back under
    that nonce to the original payload, for any list of reads over the written set (any order,
    any repetition).
  * `stateful_nth`: the k-th message a stateful sender produces from a fresh transport state
    (counter 0) for the payload sequence `ps` is byte for byte `stWrite k ps[k]`.
-/
import SnowVerif.Theorems.C16

namespace SnowVerif.Theorems.C16
open SnowVerif SnowVerif.Model SnowVerif.Model.TS SnowVerif.Theorems.C04
set_option linter.unusedVariables false
set_option linter.unusedSimpArgs false

/-- One stateless call with all its arguments. -/
inductive StCall where
  | write (n : UInt64) (p : Bytes) (cap : Nat)
  | read  (n : UInt64) (m : Bytes) (cap : Nat)
  deriving DecidableEq, Repr

/-- Everything the caller of a stateless call can observe: the result, what is left in the
    caller's buffer (reads), and the ghost AEAD events of the call. -/
inductive StObs where
  | wrote (r : Res Bytes) (ev : List Event)
  | got   (r : Res Bytes) (buf : Bytes) (ev : List Event)
  deriving DecidableEq, Repr

/-- Running one call on the shared, read-only session value. -/
def StCall.run (S : Suite) (ts : TS) : StCall → StObs
  | .write n p cap => .wrote (ts.stWrite S n p cap).1 (ts.stWrite S n p cap).2
  | .read n m cap  => .got (ts.stRead S n m cap).1 (ts.stRead S n m cap).2.1 (ts.stRead S n m cap).2.2

/-- A schedule of calls issued by threads (identified by numbers) against ONE shared session,
    in the order in which they take effect.  The session is not threaded through: there is no
    successor state to thread. -/
def runSched (S : Suite) (ts : TS) (sched : List (Nat × StCall)) : List (Nat × StObs) :=
  sched.map (fun x => (x.1, x.2.run S ts))

/-- What thread `t` contributes to / sees of a tagged list. -/
def thread {α : Type} (t : Nat) (l : List (Nat × α)) : List α :=
  (l.filter (fun x => x.1 == t)).map (·.2)

theorem thread_map {α β : Type} (t : Nat) (f : α → β) (l : List (Nat × α)) :
    thread t (l.map (fun x => (x.1, f x.2))) = (thread t l).map f := by
  induction l with
  | nil => rfl
  | cons x xs ih =>
    unfold thread at *
    by_cases h : x.1 == t
    · simp [List.filter, h, ih]
    · simp [List.filter, h, ih]

/-- What a thread observes in ANY schedule is its own program run alone on the session. -/
theorem sched_thread_results (S : Suite) (ts : TS) (sched : List (Nat × StCall)) (t : Nat) :
    thread t (runSched S ts sched) = (thread t sched).map (StCall.run S ts) := by
  unfold runSched
  exact thread_map t (StCall.run S ts) sched

/-- Two interleavings of the same per-thread programs give every thread the same observations. -/
theorem sched_independent (S : Suite) (ts : TS) (s1 s2 : List (Nat × StCall))
    (h : ∀ t, thread t s1 = thread t s2) (t : Nat) :
    thread t (runSched S ts s1) = thread t (runSched S ts s2) := by
  rw [sched_thread_results, sched_thread_results, h t]

/-- In particular: the observations of thread `t` in a schedule equal those of the schedule in
    which every other thread's calls are deleted. -/
theorem sched_alone (S : Suite) (ts : TS) (sched : List (Nat × StCall)) (t : Nat) :
    thread t (runSched S ts sched) = thread t (runSched S ts (sched.filter (fun x => x.1 == t))) := by
  rw [sched_thread_results, sched_thread_results]
  congr 1
  unfold thread
  rw [List.filter_filter]
  simp

/-- Position-wise form: the observation at position `i` of a schedule depends on the call at that
    position only, not on what was scheduled before it. -/
theorem sched_pointwise (S : Suite) (ts : TS) (pre pre' post post' : List (Nat × StCall)) (x : Nat × StCall) :
    (runSched S ts (pre ++ x :: post))[pre.length]? = (runSched S ts (pre' ++ x :: post'))[pre'.length]? := by
  unfold runSched
  simp

/-- Any order, any repetition: whatever list of (nonce, payload) pairs the sender has written
    (nonces below 2^64-1, legal sizes), every read of one of those messages under its nonce, at any
    time and any number of times, returns the payload (`DecEnc`, `EncLen`). -/
theorem roundtrip_any_order (S : Suite) (hde : S.DecEnc) (hel : S.EncLen) (a b : TS) (hp : Paired a b)
    (ha : CanSend a) (hb : CanRecv b)
    (written : List (UInt64 × Bytes))
    (hw : ∀ x ∈ written, x.1 ≠ MAXN ∧ x.2.length + 16 ≤ 65535)
    (reads : List (UInt64 × Bytes)) (hr : ∀ x ∈ reads, x ∈ written) :
    ∀ x ∈ reads, ∃ c ev, a.stWrite S x.1 x.2 (x.2.length + 16) = (.ok c, ev) ∧
      ∃ buf ev', b.stRead S x.1 c x.2.length = (.ok x.2, buf, ev') := by
  intro x hx
  obtain ⟨hn, hl⟩ := hw x (hr x hx)
  exact st_roundtrip S hde hel a b hp ha hb x.1 x.2 _ _ hn hl (Nat.le_refl _) (Nat.le_refl _)

/-! ### The n-th message of a stateful sender -/

/-- The messages a stateful sender produces for the payloads `ps`, one after the other (results
    only), starting from `ts`. -/
def statefulWrites (S : Suite) : TS → List Bytes → List (Res Bytes)
  | _, [] => []
  | ts, p :: ps => (ts.writeMessage S p (p.length + 16)).1 :: statefulWrites S (ts.writeMessage S p (p.length + 16)).2.1 ps

/-- The same payloads written by the stateless sender under the nonces `n0, n0+1, ...`. -/
def statelessWrites (S : Suite) (ts : TS) : UInt64 → List Bytes → List (Res Bytes)
  | _, [] => []
  | n, p :: ps => (ts.stWrite S n p (p.length + 16)).1 :: statelessWrites S ts (n + 1) ps

private theorem toNat_succ (n : UInt64) (h : n ≠ MAXN) : (n + 1).toNat = n.toNat + 1 := by
  have : n.toNat < 2 ^ 64 - 1 := by
    have h1 : n.toNat < 2 ^ 64 := n.toNat_lt
    have h2 : n.toNat ≠ 2 ^ 64 - 1 := by
      intro hc; apply h; apply UInt64.toNat_inj.mp; simpa [MAXN, CipherState.nonceMax] using hc
    omega
  rw [UInt64.toNat_add]; simp; omega

/-- The stateless write reads the sending key only: the value of the (stateful) counter stored in
    the state is irrelevant to it. -/
theorem stWrite_withSend_n (S : Suite) (ts : TS) (m k : UInt64) (q : Bytes) (cap : Nat) :
    (ts.withSend { ts.sendCs with n := m }).stWrite S k q cap = ts.stWrite S k q cap := by
  unfold stWrite
  rw [initiator_withSend, oneway_withSend]
  have h1 : (if ts.initiator then (ts.withSend { ts.sendCs with n := m }).cs1
             else (ts.withSend { ts.sendCs with n := m }).cs2) = { ts.sendCs with n := m } := by
    have := sendCs_withSend ts { ts.sendCs with n := m }
    unfold sendCs at this; rw [initiator_withSend] at this; exact this
  have h2 : (if ts.initiator then ts.cs1 else ts.cs2) = ts.sendCs := by unfold sendCs; rfl
  rw [h1, h2]
  unfold stEncrypt
  rfl

theorem statelessWrites_withSend_n (S : Suite) (ts : TS) (m : UInt64) (ps : List Bytes) :
    ∀ k : UInt64, statelessWrites S (ts.withSend { ts.sendCs with n := m }) k ps = statelessWrites S ts k ps := by
  induction ps with
  | nil => intro k; rfl
  | cons q qs ih =>
    intro k
    unfold statelessWrites
    rw [stWrite_withSend_n, ih]

/-- From a state whose sending counter is `n0`: as long as the counter stays below 2^64-1 and the
    payloads are legal, the stateful sender's messages are exactly the stateless sender's messages
    under `n0, n0+1, ...` with the same key. -/
theorem stateful_eq_stateless_from (S : Suite) (ps : List Bytes) :
    ∀ (ts : TS), CanSend ts → ts.sendCs.n.toNat + ps.length ≤ 2 ^ 64 - 1 →
      (∀ p ∈ ps, p.length + 16 ≤ 65535) →
      statefulWrites S ts ps = statelessWrites S ts ts.sendCs.n ps := by
  induction ps with
  | nil => intros; rfl
  | cons p ps ih =>
    intro ts hc hb hl
    have hn : ts.sendCs.n ≠ MAXN := by
      intro h; rw [h] at hb; simp [MAXN, CipherState.nonceMax] at hb; omega
    have hlp : p.length + 16 ≤ 65535 := hl p (by simp)
    have g : WGuards ts p (p.length + 16) := ⟨hlp, Nat.le_refl _, hn⟩
    have hw := write_guards_ok S ts p (p.length + 16) hc g
    have hs := st_write_eval S ts hc ts.sendCs.n p (p.length + 16) hn hlp (Nat.le_refl _)
    unfold statefulWrites statelessWrites
    rw [hw, hs]
    simp only
    congr 1
    -- the successor state: same key, counter + 1, still able to send
    have hc' : CanSend (ts.withSend { ts.sendCs with n := ts.sendCs.n + 1 }) := by
      unfold CanSend at *; rw [sendCs_withSend, initiator_withSend, oneway_withSend]; exact ⟨hc.1, hc.2⟩
    have hb' : (ts.withSend { ts.sendCs with n := ts.sendCs.n + 1 }).sendCs.n.toNat + ps.length ≤ 2 ^ 64 - 1 := by
      rw [sendCs_withSend]; simp only; rw [toNat_succ _ hn]; simp at hb; omega
    rw [ih _ hc' hb' (fun q hq => hl q (by simp [hq])), sendCs_withSend]
    exact statelessWrites_withSend_n S ts _ ps _

/-- **The n-th message.**  A stateful sender that starts with its counter at 0 (every freshly
    converted transport state) produces, as its k-th message for the payload sequence `ps`,
    exactly the bytes the stateless sender of the same session writes under nonce `k`. -/
theorem stateful_nth (S : Suite) (ts : TS) (hc : CanSend ts) (h0 : ts.sendCs.n = 0) (ps : List Bytes)
    (hlen : ps.length ≤ 2 ^ 64 - 1) (hl : ∀ p ∈ ps, p.length + 16 ≤ 65535) :
    statefulWrites S ts ps = statelessWrites S ts 0 ps := by
  have := stateful_eq_stateless_from S ps ts hc (by rw [h0]; simpa using hlen) hl
  rw [this, h0]

/-- Position-wise reading of `statelessWrites`: entry `k` is the stateless write under `n0 + k`. -/
theorem statelessWrites_get (S : Suite) (ts : TS) (ps : List Bytes) :
    ∀ (n0 : UInt64) (k : Nat) (hk : k < ps.length),
      (statelessWrites S ts n0 ps)[k]? = some (ts.stWrite S (n0 + UInt64.ofNat k) ps[k] (ps[k].length + 16)).1 := by
  induction ps with
  | nil => intro _ k hk; simp at hk
  | cons p ps ih =>
    intro n0 k hk
    cases k with
    | zero => simp [statelessWrites]
    | succ k =>
      simp only [statelessWrites, List.getElem?_cons_succ, List.getElem_cons_succ]
      rw [ih (n0 + 1) k (by simpa using hk)]
      congr 3
      · rw [UInt64.add_assoc]; congr 1
        apply UInt64.toNat_inj.mp
        simp [UInt64.toNat_add, UInt64.toNat_ofNat']
        omega

/-- Non-vacuity of `stateful_nth` / the schedule theorems: a concrete sending state with its
    counter at 0, and two different interleavings of the same two thread programs. -/
example : ∃ ts : TS, CanSend ts ∧ ts.sendCs.n = 0 :=
  ⟨{ cs1 := { key := Bytes.zeros 32, n := 0, hasKey := true }, cs2 := { key := Bytes.zeros 32, n := 0, hasKey := true },
     oneway := false, pubLen := 32, rs := { val := [], on := false }, initiator := true }, by unfold CanSend; decide⟩

example :
    let s1 : List (Nat × StCall) := [(0, .write 5 [1] 17), (1, .read 5 [2] 0), (0, .write 6 [3] 17)]
    let s2 : List (Nat × StCall) := [(1, .read 5 [2] 0), (0, .write 5 [1] 17), (0, .write 6 [3] 17)]
    s1 ≠ s2 ∧ ∀ t, t < 3 → thread t s1 = thread t s2 := by decide

end SnowVerif.Theorems.C16
