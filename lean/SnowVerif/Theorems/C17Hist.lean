/-
  C17 (continued)  In transport mode the reported remote static key never changes.

  `transport_history_keeps_rs`: for EVERY finite history of a stateful transport state -- writes and
  reads with any arguments (successful, rejected, refused at the end of the counter range),
  explicit receiving-nonce settings, rekeys of either direction, manual rekeys of one or both
  directions -- `get_remote_static()` at the end is what it was at the start (hence, by
  `conversion_preserves`, what the handshake reported). Stateless mode: its only state-changing
  operations are the rekeys (`stateless_rekeys_keep_rs`); reads and writes return no state.
-/
import SnowVerif.Theorems.C17
import SnowVerif.Theorems.C09Hist

namespace SnowVerif.Theorems.C17
open SnowVerif SnowVerif.Model SnowVerif.Model.TS SnowVerif.Theorems.C09
set_option linter.unusedVariables false
set_option linter.unusedSimpArgs false

/-- What `get_remote_static` reads. -/
def RsView (ts : TS) : Toggle Bytes × Nat := (ts.rs, ts.pubLen)

theorem getRemoteStatic_of_view (a b : TS) (h : RsView a = RsView b) : a.getRemoteStatic = b.getRemoteStatic := by
  unfold RsView at h
  unfold getRemoteStatic
  rw [(Prod.mk.inj h).1, (Prod.mk.inj h).2]

theorem withSend_view (ts : TS) (cs : CipherState) : RsView (ts.withSend cs) = RsView ts := by
  unfold RsView withSend; cases ts.initiator <;> rfl
theorem withRecv_view (ts : TS) (cs : CipherState) : RsView (ts.withRecv cs) = RsView ts := by
  unfold RsView withRecv; cases ts.initiator <;> rfl

/-- One operation of a stateful transport state leaves the view untouched. -/
theorem tStep_view (S : Suite) (ts : TS) (o : TOp) : RsView (tStep S ts o).2.1 = RsView ts := by
  cases o with
  | write p cap =>
    simp only [tStep]
    rw [writeMessage_eq]
    repeat' split
    all_goals first | rfl | exact withSend_view ts _
  | read m cap =>
    simp only [tStep]
    rw [readMessage_eq]
    repeat' split
    all_goals first | rfl | exact withRecv_view ts _
  | setRecv v =>
    simp only [tStep]; rw [setReceivingNonce_eq]; exact withRecv_view ts _
  | rekeyOut =>
    simp only [tStep]
    unfold rekeyOutgoing rekeyInitiator rekeyResponder RsView
    cases ts.initiator <;> rfl
  | rekeyIn =>
    simp only [tStep]
    unfold rekeyIncoming rekeyInitiator rekeyResponder RsView
    cases ts.initiator <;> rfl
  | rekeyMan ki kr =>
    simp only [tStep]
    unfold rekeyManually RsView
    cases ki <;> cases kr <;> rfl

/-- **Every transport history keeps the reported remote static key.** -/
theorem transport_history_keeps_rs (S : Suite) (ops : List TOp) : ∀ ts : TS,
    (tRun S ts ops).2.getRemoteStatic = ts.getRemoteStatic := by
  induction ops with
  | nil => intro ts; rfl
  | cons o os ih =>
    intro ts
    simp only [tRun]
    rw [ih]
    exact getRemoteStatic_of_view _ _ (tStep_view S ts o)

/-- From the handshake to the end of any transport history: the key reported at the end is the key
    the handshake state reported when it was converted. -/
theorem reported_from_handshake_to_end (S : Suite) (hs : HS) (ts : TS) (h : TS.ofHandshake S hs = .ok ts)
    (ops : List TOp) :
    (tRun S ts ops).2.getRemoteStatic = hs.getRemoteStatic S := by
  rw [transport_history_keeps_rs]
  unfold TS.ofHandshake at h
  split at h
  · cases h
  · cases h
    unfold getRemoteStatic HS.getRemoteStatic
    rfl

/-- Stateless mode: the rekeys (its only state-changing operations) keep it as well. -/
theorem stateless_rekeys_keep_rs (S : Suite) (ts : TS) (ki kr : Option Bytes) :
    (ts.rekeyOutgoing S).1.getRemoteStatic = ts.getRemoteStatic ∧
    (ts.rekeyIncoming S).1.getRemoteStatic = ts.getRemoteStatic ∧
    (ts.rekeyManually ki kr).getRemoteStatic = ts.getRemoteStatic :=
  ⟨getRemoteStatic_of_view _ _ (tStep_view S ts .rekeyOut), getRemoteStatic_of_view _ _ (tStep_view S ts .rekeyIn),
   getRemoteStatic_of_view _ _ (tStep_view S ts (.rekeyMan ki kr))⟩

/-- Non-vacuity: a state that reports a key, and a history with refused and successful calls. -/
example :
    let ts : TS := { cs1 := { key := List.replicate 32 1, n := 0, hasKey := true }, cs2 := { key := List.replicate 32 2, n := 0, hasKey := true },
                     oneway := false, pubLen := 32, rs := { val := List.replicate 32 7, on := true }, initiator := true }
    ts.getRemoteStatic = some (List.replicate 32 7) ∧
    (tRun (Toy.suite 0 0 0) ts [.setRecv 0xFFFFFFFFFFFFFFFF, .read [0] 5, .rekeyMan (some (List.replicate 32 3)) (some (List.replicate 32 4)), .write [1] 17]).2.getRemoteStatic
      = some (List.replicate 32 7) := by decide +kernel

end SnowVerif.Theorems.C17
