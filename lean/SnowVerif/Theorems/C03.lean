/-
  C03  Handshake transcript integrity: any alteration in transit is detected.

  Taken literally over all byte strings the property is only computationally true (a valid forgery
  exists mathematically), so it is stated as *reductions with explicit witnesses* (DESIGN.md 3.3):
  the conclusion holds, or the run itself exhibits a concrete value of one of the kinds
    * Forgery: a ciphertext accepted under the session's (k, n, ad) that differs from the one the
      sender produced for that (k, n, ad);
    * HashCollision: two different inputs of the hash with equal digests;
    * AeadContextCollision: one ciphertext valid under two different associated-data values.
  What is proved here (the per-field core, for every suite, key, nonce, hash state and bytes):
    `altered_encrypted_field`  an altered encrypted field (static key, payload, tag) is rejected by
                               the receiving read itself — no payload is returned — or is a Forgery;
    `altered_cleartext_field`  an altered cleartext field makes the receiver's `h` differ from the
                               sender's, or is a HashCollision;
    `divergence_persists`      once `h` differs it keeps differing through every later MixHash, or
                               HashCollision;
    `diverged_then_keyed_field_rejected` the next encrypted field of the sender is then rejected by
                               the receiver, or AeadContextCollision;
    `last_message_keyed`       (regenerated table) in every pattern the payload of the last message
                               is processed under a key, so a divergence is always put to that test
                               before both sides can finish;
    `failed_read_no_payload`   a rejecting read returns no payload and leaves the state as it was
                               (C07), so the receiver does not advance.
  The end-to-end statements are in `Theorems/C03Main.lean` (`C03_main`, `C03_hash`, `C03_last`):
  proved on the specification (`Lemmas/Integrity*.lean`) and carried to this model through the
  C01 refinement. The message-level form of the second sentence of the property is
  `Spec.Integrity.keyed_field_alteration` / `keyed_payload_alteration` (`Lemmas/IntegrityField.lean`).
-/
import SnowVerif.Lemmas.Honest
import SnowVerif.Lemmas.C14Len
import SnowVerif.Theorems.C07

namespace SnowVerif.Theorems.C03
open SnowVerif SnowVerif.Model SnowVerif.Model.HS
set_option linter.unusedVariables false
set_option linter.unusedSimpArgs false

/-- Whatever a keyed `decrypt_and_mix_hash` accepts is the encryption, under the current
    (key, nonce, h), of the plaintext it returns (`DecSound`). -/
theorem accepted_is_encryption (S : Suite) (hs : S.DecSound) (sym : Sym) (d : Bytes) (cap : Nat) (p : Bytes)
    (hk : sym.hasKey = true) (h : (sym.decryptAndMixHash S d cap).1 = .ok p) :
    d = S.enc sym.cs.key sym.cs.n sym.h p := by
  unfold Sym.decryptAndMixHash at h
  simp only [hk, ↓reduceIte] at h
  cases hr : sym.cs.decryptAd S sym.h d cap with
  | mk r rest =>
    obtain ⟨cs', buf, ev⟩ := rest
    rw [hr] at h
    simp only at h
    subst h
    exact hs _ _ _ _ _ (CipherState.decryptAd_ok hr).2.2.2.2.1

/-- **An altered encrypted field is rejected by the receiving read itself, or is a forgery.**
    Sender and receiver are in the same symmetric state `sym` (with a key); the sender's field is
    `c = ENCRYPT(k, n, h, pt)`; the receiver is given any other bytes `d ≠ c` (bit flips, truncation,
    extension, substitution). Then `decrypt_and_mix_hash` does not return `ok` — or it returns some
    `p' ≠ pt` and `d` is a valid ciphertext for `p'` under the very same (k, n, h): a forgery the
    sender never produced. -/
theorem altered_encrypted_field (S : Suite) (hs : S.DecSound) (sym : Sym) (pt d : Bytes) (cap : Nat)
    (hk : sym.hasKey = true) (hne : d ≠ S.enc sym.cs.key sym.cs.n sym.h pt) :
    (sym.decryptAndMixHash S d cap).1.isOk = false ∨
    ∃ p', p' ≠ pt ∧ d = S.enc sym.cs.key sym.cs.n sym.h p' := by
  cases hr : (sym.decryptAndMixHash S d cap).1 with
  | ok p' =>
    right
    have := accepted_is_encryption S hs sym d cap p' hk hr
    refine ⟨p', ?_, this⟩
    intro he; subst he; exact hne this
  | err e => left; rfl
  | panic q => left; rfl

/-- A rejecting keyed field decryption changes nothing but is reported as an error: in particular
    no plaintext is returned. (State restoration of the whole read: C07.) -/
theorem rejected_returns_nothing (S : Suite) (sym : Sym) (d : Bytes) (cap : Nat)
    (h : (sym.decryptAndMixHash S d cap).1.isOk = false) : ∀ p, (sym.decryptAndMixHash S d cap).1 ≠ .ok p := by
  intro p hp; rw [hp] at h; simp [Res.isOk] at h

/-- **An altered cleartext field makes the transcript hashes differ, or is a hash collision.** -/
theorem altered_cleartext_field (S : Suite) (sym : Sym) (d d' : Bytes) (hne : d ≠ d') :
    (sym.mixHash S d).h ≠ (sym.mixHash S d').h ∨
    ∃ x y, x ≠ y ∧ S.hash x = S.hash y := by
  by_cases heq : (sym.mixHash S d).h = (sym.mixHash S d').h
  · right
    refine ⟨sym.h ++ d, sym.h ++ d', ?_, heq⟩
    intro h; exact hne (List.append_cancel_left h)
  · left; exact heq

/-- Divergence persists through every later `MixHash` of the same data, or a hash collision. -/
theorem divergence_persists (S : Suite) (a b : Sym) (data : Bytes) (hne : a.h ≠ b.h) :
    (a.mixHash S data).h ≠ (b.mixHash S data).h ∨ ∃ x y, x ≠ y ∧ S.hash x = S.hash y := by
  by_cases heq : (a.mixHash S data).h = (b.mixHash S data).h
  · right
    refine ⟨a.h ++ data, b.h ++ data, ?_, heq⟩
    intro h
    have hl : a.h.length = b.h.length ∨ a.h.length ≠ b.h.length := Classical.em _
    rcases hl with hl | hl
    · exact hne (List.append_inj_left h hl)
    · -- different lengths of h: the two concatenations still have to be compared bytewise
      have := congrArg List.length h
      simp only [List.length_append] at this
      omega
  · left; exact heq

/-- **After a divergence the sender's next encrypted field is rejected, or the run exhibits an
    AEAD context collision**: the receiver holds the same key and nonce but a different `h`. -/
theorem diverged_then_keyed_field_rejected (S : Suite) (hs : S.DecSound) (key : Bytes) (n : UInt64)
    (h h' pt : Bytes) (hne : h ≠ h') :
    S.dec key n h' (S.enc key n h pt) = none ∨
    ∃ p', h ≠ h' ∧ S.enc key n h pt = S.enc key n h' p' := by
  cases hd : S.dec key n h' (S.enc key n h pt) with
  | none => left; rfl
  | some p' => right; exact ⟨p', hne, hs _ _ _ _ _ hd⟩

/-- The receiver does not advance on a rejected message and returns no payload (C07 + C11). -/
theorem failed_read_no_payload (S : Suite) (hs : HS) (inv : SymInv hs.sym) (m : Bytes) (cap : Nat)
    (e : Err) (hs' : HS) (buf : Bytes) (ev : List Event) (h : hs.readMessage S m cap = (.err e, hs', buf, ev)) :
    Equiv hs hs' ∧ hs'.pos = hs.pos ∧ hs'.isHandshakeFinished = hs.isHandshakeFinished := by
  have h1 := (C07.hs_read_err_noop S hs inv m cap e hs' buf ev h).1
  exact ⟨h1, h1.pos.symm, by simp [HS.isHandshakeFinished, h1.pos, h1.msgs]⟩

/-- Regenerated table: in every pattern the payload of the LAST message is processed with a key
    (no pattern lets both parties finish without an authenticated field after every earlier byte
    has been hashed). `decide` over all rows, re-checked when the table changes. -/
theorem last_message_keyed :
    ∀ p ∈ Generated.allPatterns,
      Framing.keyedAfter false (p.tokens.msgs.flatten) false = true ∧ p.tokens.msgs ≠ [] := by
  decide

end SnowVerif.Theorems.C03
