/-
  C01, the converse direction of the refinement ("completeness"): snow rejects nothing the Noise
  specification accepts, except for the reasons listed here.

  `Theorems/C01.lean` proves: whenever the model of snow's `write_message` / `read_message`
  returns `ok`, the specification's `WriteMessage` / `ReadMessage` (`Spec/Handshake.lean`) on the
  abstract state `absHS hs` is defined and returns the same bytes / payload / successor.
  This file proves the converse and combines the two into exact characterisations
  (`read_ok_iff`, `write_ok_iff`):

    snow returns ok  ⇔  the specification accepts  ∧  snow's additional checks pass.

  ## snow's additional checks (the complete list)

  `read_message(message, payload_buf)`:
    1. it is this party's turn to read            `hs.myTurn = false`
    2. `message.len() <= 65535`
    3. the payload fits the buffer                `pl.length ≤ cap`  (sharp: stated on the payload
       the specification returns; snow tests `cap < rest.len() - TAGLEN` when keyed and
       `cap < rest.len()` otherwise, which is the same number)
    4. the nonce guard                            `NonceOk ...` : no AEAD operation of the message
       (an `s` token met keyed, the payload if keyed) finds `n = 2^64 - 1`; `nonceOk_of_bound`:
       implied by `n + (number of s tokens) + 1 < 2^64`; `nonceOk_reachable`: ALWAYS true in a
       state reachable from `Builder::build` (the nonce of the handshake cipher never exceeds 8),
       so the headline theorems `read_ok_iff_reachable` / `write_ok_iff_reachable` do not mention
       it.
  `write_message(payload, message_buf)`:
    1. it is this party's turn to write           `hs.myTurn = true`
    2. the specification's message is at most 65535 bytes   `buf.length ≤ 65535` (its length is
       C14's `Framing.msgLen`: fixed fields + payload + tag if keyed)
    3. the buffer holds the fixed fields, the payload and 16 more bytes, WHETHER OR NOT the
       payload is encrypted                       `fieldsLen.1 + p.length + 16 ≤ cap`
       (snow's guard `byte_index + payload.len() + TAGLEN > message.len()`; `write_cap_condition`:
       that is `|buf| ≤ cap` for an encrypted payload and `|buf| + 16 ≤ cap` for an unencrypted
       one, 16 bytes more than the specification's message needs)
    4. the nonce guard                            `NonceOk ...` as above
    5. `Dh::generate` accepts the private key it draws, if the pattern has an `e` token
                                                  `GenOk S hs` (always true for 25519; otherwise
       snow PANICS, the finding of C10).
  Not on the list because the specification's acceptance already implies them
  (`spec_read_implies`, `spec_write_implies`): the handshake is not finished, every `psk n` token
  of the message has its key set, the static key is present when an `s` token is written, both DH
  operands are present and the DH function does not fail, the message does not end inside a
  field, every decryption authenticates.

  ## Hypotheses on the state (all hold in every state reachable from `Builder::build`)

  `Refines S hs sp` (`sp = absHS hs`, `|ck| = hash_len`) and `SideOk hs` as in C01;
  `SymInv hs.sym` (C10: `has_key` implies a key is installed in the cipher; without it snow
  answers `MissingKeyMaterial` where the specification encrypts); `hs.psks.length ≤ 10` (the
  array type; without it `psks[n]` could be out of range where the specification finds a key);
  for writes `KeysWf S hs` (C14: the local public keys have `pub_len` bytes; otherwise the
  buffer guards, which count `pub_len`, do not describe what is written).
  Suite laws: `HashLen`, `Sizes` as in C01; `DecTag` (an accepted ciphertext is exactly 16 bytes
  longer than its plaintext: from `DecSound` + `EncLen`; C01's `DecLen` is too weak here: it
  allows the AEAD to accept a ciphertext shorter than a tag, which snow rejects before calling
  it); for writes `EncLen`, `PubLen`.
-/
import SnowVerif.Lemmas.C01CompleteNonce
import SnowVerif.Theorems.C01
import SnowVerif.Theorems.C10

namespace SnowVerif.Theorems.C01Complete
open SnowVerif SnowVerif.Model SnowVerif.Model.HS SnowVerif.Bytes SnowVerif.Framing SnowVerif.C01
set_option linter.unusedVariables false
set_option linter.unusedSimpArgs false

/-! ## 1. The vocabulary -/

/-- The law on the AEAD the converse direction needs, and where it comes from. -/
theorem decTag_def (S : Suite) :
    (S.DecTag ↔ ∀ k n ad c p, S.dec k n ad c = some p → c.length = p.length + 16) ∧
    (S.DecSound → S.EncLen → S.DecTag) ∧ (S.DecTag → S.DecLen) :=
  ⟨Iff.rfl, S.decTag_of_sound, S.decLen_of_tag⟩

/-- **snow's nonce guard along a message pattern**, spelled out: started with `has_key = k` and
    nonce `n`, an `s` token needs `n ≠ 2^64-1` if keyed, then the walk continues with the
    keyedness `tokKeyed` (C14) and the nonce `nonceStep` (reset to 0 by `mix_key` /
    `mix_key_and_hash`, incremented by an encryption); at the end the payload needs the same. -/
theorem nonceOk_def (isPsk : Bool) (k : Bool) (n : UInt64) :
    (NonceOk isPsk [] k n = (!k || n != CipherState.nonceMax)) ∧
    (∀ t ts, NonceOk isPsk (t :: ts) k n =
      ((match t with
        | .s => !k || n != CipherState.nonceMax
        | _ => true) && NonceOk isPsk ts (tokKeyed isPsk t k) (nonceStep isPsk t k n))) ∧
    (∀ t, nonceStep isPsk t k n =
      match t with
      | .e => if isPsk then 0 else n
      | .s => if k then n + 1 else n
      | _ => 0) :=
  ⟨rfl, fun _ _ => rfl, fun _ => rfl⟩

/-- The nonce guard cannot fire while the nonce is at least `count s + 1` steps from the end
    (a message performs at most that many AEAD operations). For built sessions see
    `nonceOk_reachable`. -/
theorem nonceOk_of_bound (isPsk : Bool) (ts : List Tok) (k : Bool) (n : UInt64)
    (h : n.toNat + ts.count .s + 1 < 2 ^ 64) : NonceOk isPsk ts k n = true :=
  C01.nonceOk_of_bound isPsk ts k n h

/-- The ephemeral key pair the specification's `GENERATE_KEYPAIR()` is instantiated with: the
    one the `e` token of `_write_message` is about to use in state `hs`; and `GenOk`, "the DH
    implementation accepts the drawn private key", the negation of C10's `GenFail`. -/
theorem ephOf_def (S : Suite) (hs : HS) :
    (ephOf S hs = if hs.fixedE then ⟨hs.e.val.priv, hs.e.val.pub⟩
      else ⟨(rngDraw hs.rng S.privLen).1, S.pubOf (rngDraw hs.rng S.privLen).1⟩) ∧
    (GenOk S hs ↔ (hs.fixedE = true ∨ S.validPriv (rngDraw hs.rng S.privLen).1 = true)) ∧
    (GenOk S hs ↔ ¬ Lemmas.C10.GenFail S hs) ∧ (S.PrivTotal → GenOk S hs) :=
  ⟨rfl, Iff.rfl, genOk_iff_not_genFail S hs, fun h => Or.inr (h _)⟩

/-! ## 2. What the specification's acceptance already implies -/

/-- If the specification's `ReadMessage` accepts on the abstract state, the handshake is not
    finished and every `psk n` token of the current message pattern has its key set: these are
    not additional conditions of snow. -/
theorem spec_read_implies (S : Suite) (hs : HS) (m pl : Bytes) (sp' : Spec.HandshakeState)
    (spl : Option (Spec.CipherState × Spec.CipherState))
    (h : Spec.HandshakeState.readMessage S (absHS hs) m = some (pl, sp', spl)) :
    hs.pos < hs.msgs.length ∧
    ∀ n, Tok.psk n ∈ hs.msgs.getD hs.pos [] → (hs.psks.getD n none).isSome = true := by
  obtain ⟨hp, hs1, rem, ss', ht, _⟩ := spec_read_shape S hs m pl sp' spl h
  exact ⟨hp, (spec_readToks_psks S _ _ _ _ _ ht).2⟩

/-- If the specification's `WriteMessage` is defined on the abstract state, the handshake is not
    finished, every `psk n` token of the current message pattern has its key set, and the local
    static key is present if the pattern has an `s` token. -/
theorem spec_write_implies (S : Suite) (hs : HS) (p : Bytes) (eph : Spec.KeyPair) (buf : Bytes)
    (sp' : Spec.HandshakeState) (spl : Option (Spec.CipherState × Spec.CipherState))
    (h : Spec.HandshakeState.writeMessage S (absHS hs) p eph = some (buf, sp', spl)) :
    hs.pos < hs.msgs.length ∧
    (∀ n, Tok.psk n ∈ hs.msgs.getD hs.pos [] → (hs.psks.getD n none).isSome = true) ∧
    (Tok.s ∈ hs.msgs.getD hs.pos [] → hs.s.on = true) := by
  obtain ⟨hp, bs, hs1, ht, _⟩ := spec_write_shape S hs p eph buf sp' spl h
  obtain ⟨_, _, a, b⟩ := spec_writeToks_psks S eph _ _ _ _ ht
  refine ⟨hp, a, fun hm => ?_⟩
  have := b hm
  have e : (absHS hs).s = absTK hs.s := rfl
  rw [e] at this
  unfold absTK at this
  cases hon : hs.s.on with
  | true => rfl
  | false => rw [hon] at this; cases this

/-! ## 3. Completeness -/

/-- **read_complete.** For every state `hs` of snow related to a specification state `sp`
    (with the side condition of C01 and the model invariants), every message `m` and buffer
    capacity `cap`: if the specification's `ReadMessage(m)` on `sp` accepts and returns the
    payload `pl`, and snow's four additional checks pass (turn, `|m| ≤ 65535`, `|pl| ≤ cap`,
    nonce guard), then snow's `read_message` returns `Ok` with exactly `pl`; the specification's
    successor is the abstraction of snow's, and `Split()`'s pair is returned exactly when snow
    reports the handshake finished, snow's transport cipher states being that pair. -/
theorem read_complete (S : Suite) (hL : S.HashLen) (hS : S.Sizes) (hT : S.DecTag) (hs : HS)
    (sp : Spec.HandshakeState) (hrel : Refines S hs sp) (hside : SideOk hs)
    (hinv : SymInv hs.sym) (hpsk : hs.psks.length ≤ 10)
    (m : Bytes) (cap : Nat) (pl : Bytes) (sp' : Spec.HandshakeState)
    (spl : Option (Spec.CipherState × Spec.CipherState))
    (hsp : Spec.HandshakeState.readMessage S sp m = some (pl, sp', spl))
    (hturn : hs.myTurn = false) (hlen : m.length ≤ 65535) (hcap : pl.length ≤ cap)
    (hn : NonceOk hs.isPsk (hs.msgs.getD hs.pos []) hs.sym.hasKey hs.sym.cs.n = true) :
    (hs.readMessage S m cap).1 = .ok pl ∧
    Refines S (hs.readMessage S m cap).2.1 sp' ∧
    spl = (if (hs.readMessage S m cap).2.1.isHandshakeFinished then
             some (absCS (hs.readMessage S m cap).2.1.cs1, absCS (hs.readMessage S m cap).2.1.cs2)
           else none) := by
  obtain ⟨rfl, hck⟩ := hrel
  have h1 : (hs.readMessage S m cap).1 = .ok pl := by
    rw [readMessage_fst]
    exact readInner_complete S hL hS hT hs m cap pl sp' spl hck hside.1 hinv hpsk hturn hlen hcap hn hsp
  have hx : hs.readMessage S m cap = (.ok pl, (hs.readMessage S m cap).2.1, (hs.readMessage S m cap).2.2.1,
      (hs.readMessage S m cap).2.2.2) := by rw [← h1]
  obtain ⟨sp'', a, b, _⟩ := Theorems.C01.read_refines_spec S hL hS (S.decLen_of_tag hT) hs _ ⟨rfl, hck⟩ hside m cap pl _ _ _ hx
  rw [hsp] at a
  simp only [Option.some.injEq, Prod.mk.injEq, true_and] at a
  obtain ⟨rfl, rfl⟩ := a
  exact ⟨h1, b, rfl⟩

/-- **write_complete.** For every state `hs` of snow related to a specification state `sp`,
    every payload `p` and buffer capacity `cap`: if the specification's `WriteMessage(p)` on
    `sp`, with `GENERATE_KEYPAIR()` returning the key pair snow is about to draw (or has fixed),
    is defined and yields the message `buf`, and snow's five additional checks pass (turn,
    `|buf| ≤ 65535`, buffer ≥ fixed fields + payload + 16, nonce guard, `Dh::generate`
    accepts its draw), then snow's `write_message` returns `Ok(|buf|)` having written exactly
    `buf`; the specification's successor is the abstraction of snow's, `Split()`'s pair is
    returned exactly when snow reports the handshake finished, and `|buf|` is C14's `msgLen`. -/
theorem write_complete (S : Suite) (hL : S.HashLen) (hS : S.Sizes) (hE : S.EncLen) (hP : S.PubLen) (hs : HS)
    (sp : Spec.HandshakeState) (hrel : Refines S hs sp) (hside : SideOk hs)
    (hinv : SymInv hs.sym) (hpsk : hs.psks.length ≤ 10) (hw : KeysWf S hs)
    (p : Bytes) (cap : Nat) (buf : Bytes) (sp' : Spec.HandshakeState)
    (spl : Option (Spec.CipherState × Spec.CipherState))
    (hsp : Spec.HandshakeState.writeMessage S sp p (ephOf S hs) = some (buf, sp', spl))
    (hturn : hs.myTurn = true) (h65 : buf.length ≤ 65535)
    (hcap : (fieldsLen S hs.isPsk (hs.msgs.getD hs.pos []) hs.sym.hasKey).1 + p.length + 16 ≤ cap)
    (hn : NonceOk hs.isPsk (hs.msgs.getD hs.pos []) hs.sym.hasKey hs.sym.cs.n = true)
    (hgen : Tok.e ∈ hs.msgs.getD hs.pos [] → GenOk S hs) :
    (hs.writeMessage S p cap).1 = .ok buf.length ∧
    (hs.writeMessage S p cap).2.2.1 = buf ∧
    Refines S (hs.writeMessage S p cap).2.1 sp' ∧
    spl = (if (hs.writeMessage S p cap).2.1.isHandshakeFinished then
             some (absCS (hs.writeMessage S p cap).2.1.cs1, absCS (hs.writeMessage S p cap).2.1.cs2)
           else none) ∧
    buf.length = msgLen S hs.isPsk (hs.msgs.getD hs.pos []) hs.sym.hasKey p.length := by
  obtain ⟨rfl, hck⟩ := hrel
  obtain ⟨hi1, hi2, hi3⟩ := writeInner_complete S hL hS hE hP hs p cap buf sp' spl hck hside.1 hside.2 hinv hpsk hw
    hturn hgen h65 hcap hn hsp
  have h1 : (hs.writeMessage S p cap).1 = .ok buf.length := by rw [writeMessage_fst]; exact hi1
  have h2 : (hs.writeMessage S p cap).2.2.1 = buf := by rw [writeMessage_ok_acc S hs p cap _ hi1]; exact hi2
  have hx : hs.writeMessage S p cap = (.ok buf.length, (hs.writeMessage S p cap).2.1, (hs.writeMessage S p cap).2.2.1,
      (hs.writeMessage S p cap).2.2.2) := by rw [← h1]
  obtain ⟨sp'', a, b, _⟩ := Theorems.C01.write_refines_spec S hL hS hs _ ⟨rfl, hck⟩ hside p cap _ _ _ _ hx
  rw [(spec_writeMessage_eph S hs p cap _ _ _ _ hside.2 hx).1, hsp] at a
  simp only [Option.some.injEq, Prod.mk.injEq] at a
  obtain ⟨_, rfl, rfl⟩ := a
  exact ⟨h1, h2, b, rfl, hi3⟩

/-! ## 4. The exact characterisations -/

/-- snow's buffer guard for a write, restated on the length `msgLen` of the specification's
    message: the buffer must hold the message if the payload is encrypted, the message plus 16
    spare bytes if it is not. -/
theorem write_cap_condition (S : Suite) (isPsk : Bool) (ts : List Tok) (k : Bool) (pl cap : Nat) :
    (fieldsLen S isPsk ts k).1 + pl + 16 ≤ cap ↔
      msgLen S isPsk ts k pl + (if (fieldsLen S isPsk ts k).2 then 0 else 16) ≤ cap := by
  unfold msgLen
  cases (fieldsLen S isPsk ts k).2 <;> simp only [↓reduceIte, Bool.false_eq_true] <;> omega

/-- **read_ok_iff.** snow's `read_message` returns `Ok(pl)` if and only if the specification's
    `ReadMessage` accepts the message on the abstract state with payload `pl` AND it is this
    party's turn to read AND the message is at most 65535 bytes AND the payload fits the buffer
    AND the nonce guard does not fire. Nothing else makes snow reject. -/
theorem read_ok_iff (S : Suite) (hL : S.HashLen) (hS : S.Sizes) (hT : S.DecTag) (hs : HS)
    (sp : Spec.HandshakeState) (hrel : Refines S hs sp) (hside : SideOk hs)
    (hinv : SymInv hs.sym) (hpsk : hs.psks.length ≤ 10) (m : Bytes) (cap : Nat) (pl : Bytes) :
    (hs.readMessage S m cap).1 = .ok pl ↔
      ((∃ sp' spl, Spec.HandshakeState.readMessage S sp m = some (pl, sp', spl)) ∧
       hs.myTurn = false ∧ m.length ≤ 65535 ∧ pl.length ≤ cap ∧
       NonceOk hs.isPsk (hs.msgs.getD hs.pos []) hs.sym.hasKey hs.sym.cs.n = true) := by
  constructor
  · intro h1
    have hx : hs.readMessage S m cap = (.ok pl, (hs.readMessage S m cap).2.1, (hs.readMessage S m cap).2.2.1,
        (hs.readMessage S m cap).2.2.2) := by rw [← h1]
    obtain ⟨sp', a, _⟩ := Theorems.C01.read_refines_spec S hL hS (S.decLen_of_tag hT) hs sp hrel hside m cap pl _ _ _ hx
    obtain ⟨c1, _, c3, _⟩ := C11.read_ok_ctl S hs m cap pl _ _ _ hx
    exact ⟨⟨sp', _, a⟩, c1, c3, (C14.read_len S hs m cap pl _ _ _ hx).2.2.2.1, read_ok_nonceOk S hs m cap pl h1⟩
  · rintro ⟨⟨sp', spl, hsp⟩, hturn, hlen, hcap, hn⟩
    exact (read_complete S hL hS hT hs sp hrel hside hinv hpsk m cap pl sp' spl hsp hturn hlen hcap hn).1

/-- **write_ok_iff.** snow's `write_message` returns `Ok(n)` if and only if the specification's
    `WriteMessage` is defined on the abstract state (with the ephemeral snow is about to use) and
    produces a message of `n` bytes AND it is this party's turn to write AND that length is at
    most 65535 AND the buffer holds the fixed fields, the payload and 16 more bytes AND the nonce
    guard does not fire AND `Dh::generate` accepts its draw if the pattern has an `e`. Nothing
    else makes snow fail. -/
theorem write_ok_iff (S : Suite) (hL : S.HashLen) (hS : S.Sizes) (hE : S.EncLen) (hP : S.PubLen) (hs : HS)
    (sp : Spec.HandshakeState) (hrel : Refines S hs sp) (hside : SideOk hs)
    (hinv : SymInv hs.sym) (hpsk : hs.psks.length ≤ 10) (hw : KeysWf S hs)
    (p : Bytes) (cap : Nat) (n : Nat) :
    (hs.writeMessage S p cap).1 = .ok n ↔
      ((∃ buf sp' spl, Spec.HandshakeState.writeMessage S sp p (ephOf S hs) = some (buf, sp', spl) ∧
          buf.length = n) ∧
       hs.myTurn = true ∧ n ≤ 65535 ∧
       (fieldsLen S hs.isPsk (hs.msgs.getD hs.pos []) hs.sym.hasKey).1 + p.length + 16 ≤ cap ∧
       NonceOk hs.isPsk (hs.msgs.getD hs.pos []) hs.sym.hasKey hs.sym.cs.n = true ∧
       (Tok.e ∈ hs.msgs.getD hs.pos [] → GenOk S hs)) := by
  constructor
  · intro h1
    have hx : hs.writeMessage S p cap = (.ok n, (hs.writeMessage S p cap).2.1, (hs.writeMessage S p cap).2.2.1,
        (hs.writeMessage S p cap).2.2.2) := by rw [← h1]
    obtain ⟨sp', a, _, c, _⟩ := Theorems.C01.write_refines_spec S hL hS hs sp hrel hside p cap n _ _ _ hx
    obtain ⟨rfl, _⟩ := hrel
    rw [(spec_writeMessage_eph S hs p cap _ _ _ _ hside.2 hx).1] at a
    obtain ⟨c1, _⟩ := C11.write_ok_ctl S hs p cap n _ _ _ hx
    obtain ⟨_, d2, d3, _, d5, _⟩ := C14.write_len S hE hP hs p cap n _ _ _ hw hx
    obtain ⟨e1, e2⟩ := write_ok_nonceOk S hs p cap n hside.2 h1
    refine ⟨⟨_, sp', _, a, c.symm⟩, c1, d3, ?_, e1, e2⟩
    rw [write_cap_condition, ← d2]
    exact d5
  · rintro ⟨⟨buf, sp', spl, hsp, rfl⟩, hturn, h65, hcap, hn, hgen⟩
    exact (write_complete S hL hS hE hP hs sp hrel hside hinv hpsk hw p cap buf sp' spl hsp hturn h65 hcap hn hgen).1

/-- `read_ok_iff` for every state satisfying the model invariant `Inv` of C10. -/
theorem read_ok_iff_inv (S : Suite) (hL : S.HashLen) (hS : S.Sizes) (hT : S.DecTag) (hs : HS)
    (hck : hs.sym.ck.length = S.hashLen) (hside : SideOk hs) (hi : Lemmas.C10.Inv S hs)
    (m : Bytes) (cap : Nat) (pl : Bytes) :
    (hs.readMessage S m cap).1 = .ok pl ↔
      ((∃ sp' spl, Spec.HandshakeState.readMessage S (absHS hs) m = some (pl, sp', spl)) ∧
       hs.myTurn = false ∧ m.length ≤ 65535 ∧ pl.length ≤ cap ∧
       NonceOk hs.isPsk (hs.msgs.getD hs.pos []) hs.sym.hasKey hs.sym.cs.n = true) :=
  read_ok_iff S hL hS hT hs _ ⟨rfl, hck⟩ hside hi.sym (by rw [hi.psks]; exact Nat.le_refl _) m cap pl

/-- `write_ok_iff` for every state satisfying the model invariant `Inv` of C10. -/
theorem write_ok_iff_inv (S : Suite) (hL : S.HashLen) (hS : S.Sizes) (hE : S.EncLen) (hP : S.PubLen) (hs : HS)
    (hck : hs.sym.ck.length = S.hashLen) (hside : SideOk hs) (hi : Lemmas.C10.Inv S hs)
    (p : Bytes) (cap : Nat) (n : Nat) :
    (hs.writeMessage S p cap).1 = .ok n ↔
      ((∃ buf sp' spl, Spec.HandshakeState.writeMessage S (absHS hs) p (ephOf S hs) = some (buf, sp', spl) ∧
          buf.length = n) ∧
       hs.myTurn = true ∧ n ≤ 65535 ∧
       (fieldsLen S hs.isPsk (hs.msgs.getD hs.pos []) hs.sym.hasKey).1 + p.length + 16 ≤ cap ∧
       NonceOk hs.isPsk (hs.msgs.getD hs.pos []) hs.sym.hasKey hs.sym.cs.n = true ∧
       (Tok.e ∈ hs.msgs.getD hs.pos [] → GenOk S hs)) :=
  write_ok_iff S hL hS hE hP hs _ ⟨rfl, hck⟩ hside hi.sym (by rw [hi.psks]; exact Nat.le_refl _)
    ⟨hi.sPub, fun _ => hi.ePub⟩ p cap n

/-! ## 5. In every reachable state -/

/-- **The nonce guard never fires in a handshake.** From any state returned by `Builder::build`,
    after any history of handshake calls (arbitrary arguments, failed calls and retries
    included), the handshake-long invariant `NonceSmall` holds (while `has_key` is set, the nonce
    of the handshake cipher is at most the number of AEAD operations of the messages processed
    so far: `mix_key` resets it, a failed call restores it), every table pattern performs at
    most 8 such operations, hence `NonceOk` holds for the current message. So condition 4 of
    both lists is vacuous for built sessions; it remains in `read_ok_iff` / `write_ok_iff`, which
    speak about arbitrary states. -/
theorem nonceOk_reachable (S : Suite) (hP : S.PubLen) (av : Avail) (c : BuildCfg) (hs0 : HS)
    (hc : c.psks.length = 10) (hb : build S av c = .ok hs0) (ops : List C11.Op)
    (np : ∀ (pre : List C11.Op) (op : C11.Op) (post : List C11.Op), ops = pre ++ op :: post →
      C11.NoPanic S (C11.run S hs0 pre) op)
    (hp : (C11.run S hs0 ops).pos < (C11.run S hs0 ops).msgs.length) :
    NonceOk (C11.run S hs0 ops).isPsk ((C11.run S hs0 ops).msgs.getD (C11.run S hs0 ops).pos [])
      (C11.run S hs0 ops).sym.hasKey (C11.run S hs0 ops).sym.cs.n = true := by
  have hi := C12.build_initial_state S av c hs0 hb
  have hk0 : hs0.sym.hasKey = false := hi.2.2.2.2.2.2.2.2.2.2.2.2.2.2.2.2.2.2.1
  have hroom : NonceRoom hs0 := by
    have := nonceRoom_tables _ _ _ hi.2.2.2.1
    simp only at this
    unfold NonceRoom
    omega
  have hsmall : NonceSmall hs0 := by
    intro hk; rw [hk0] at hk; cases hk
  obtain ⟨a, b⟩ := nonceSmall_run S hP hs0 ops (C10.inv_build S av c hs0 hP hc hb) hroom hsmall np
  exact nonceSmall_nonceOk _ a b hp

/-- **Headline (read).** From any state returned by `Builder::build` (any table pattern, any
    accepted modifiers, any keys), after any history of handshake calls (arbitrary arguments,
    failed calls and retries included): `read_message` returns `Ok(pl)` EXACTLY when the
    specification accepts the message with payload `pl` in the abstract state, it is this
    party's turn to read, the message is at most 65535 bytes and the payload fits the buffer.
    No hypothesis on the state is left, and the nonce guard has disappeared. -/
theorem read_ok_iff_reachable (S : Suite) (hL : S.HashLen) (hS : S.Sizes) (hT : S.DecTag) (hP : S.PubLen)
    (av : Avail) (c : BuildCfg) (hs0 : HS) (hc : c.psks.length = 10) (hb : build S av c = .ok hs0)
    (ops : List C11.Op)
    (np : ∀ (pre : List C11.Op) (op : C11.Op) (post : List C11.Op), ops = pre ++ op :: post →
      C11.NoPanic S (C11.run S hs0 pre) op)
    (m : Bytes) (cap : Nat) (pl : Bytes) :
    ((C11.run S hs0 ops).readMessage S m cap).1 = .ok pl ↔
      ((∃ sp' spl, Spec.HandshakeState.readMessage S (absHS (C11.run S hs0 ops)) m = some (pl, sp', spl)) ∧
       (C11.run S hs0 ops).myTurn = false ∧ m.length ≤ 65535 ∧ pl.length ≤ cap) := by
  obtain ⟨hside, hrel⟩ := Theorems.C01.sideOk_reachable S hL av c hs0 hb ops np
  have hi := C10.inv_run S hs0 ops hP (C10.inv_build S av c hs0 hP hc hb)
  rw [read_ok_iff S hL hS hT _ _ hrel hside hi.sym (by rw [hi.psks]; exact Nat.le_refl _) m cap pl]
  constructor
  · rintro ⟨a, b, c', d, _⟩
    exact ⟨a, b, c', d⟩
  · rintro ⟨⟨sp', spl, hsp⟩, b, c', d⟩
    exact ⟨⟨sp', spl, hsp⟩, b, c', d,
      nonceOk_reachable S hP av c hs0 hc hb ops np (spec_read_implies S _ m pl sp' spl hsp).1⟩

/-- **Headline (write).** Likewise: in every reachable state `write_message` returns `Ok(n)`
    EXACTLY when the specification's `WriteMessage` (with the ephemeral snow is about to use) is
    defined and produces `n` bytes, it is this party's turn to write, `n ≤ 65535`, the buffer
    holds the fixed fields, the payload and 16 more bytes, and `Dh::generate` accepts its draw
    if the pattern has an `e` (always, for 25519). -/
theorem write_ok_iff_reachable (S : Suite) (hL : S.HashLen) (hS : S.Sizes) (hE : S.EncLen) (hP : S.PubLen)
    (av : Avail) (c : BuildCfg) (hs0 : HS) (hc : c.psks.length = 10) (hb : build S av c = .ok hs0)
    (ops : List C11.Op)
    (np : ∀ (pre : List C11.Op) (op : C11.Op) (post : List C11.Op), ops = pre ++ op :: post →
      C11.NoPanic S (C11.run S hs0 pre) op)
    (p : Bytes) (cap : Nat) (n : Nat) :
    ((C11.run S hs0 ops).writeMessage S p cap).1 = .ok n ↔
      ((∃ buf sp' spl, Spec.HandshakeState.writeMessage S (absHS (C11.run S hs0 ops)) p
            (ephOf S (C11.run S hs0 ops)) = some (buf, sp', spl) ∧ buf.length = n) ∧
       (C11.run S hs0 ops).myTurn = true ∧ n ≤ 65535 ∧
       (fieldsLen S (C11.run S hs0 ops).isPsk ((C11.run S hs0 ops).msgs.getD (C11.run S hs0 ops).pos [])
         (C11.run S hs0 ops).sym.hasKey).1 + p.length + 16 ≤ cap ∧
       (Tok.e ∈ (C11.run S hs0 ops).msgs.getD (C11.run S hs0 ops).pos [] → GenOk S (C11.run S hs0 ops))) := by
  obtain ⟨hside, hrel⟩ := Theorems.C01.sideOk_reachable S hL av c hs0 hb ops np
  have hi := C10.inv_run S hs0 ops hP (C10.inv_build S av c hs0 hP hc hb)
  rw [write_ok_iff S hL hS hE hP _ _ hrel hside hi.sym (by rw [hi.psks]; exact Nat.le_refl _)
    ⟨hi.sPub, fun _ => hi.ePub⟩ p cap n]
  constructor
  · rintro ⟨a, b, c', d, _, e⟩
    exact ⟨a, b, c', d, e⟩
  · rintro ⟨⟨buf, sp', spl, hsp, hn⟩, b, c', d, e⟩
    exact ⟨⟨buf, sp', spl, hsp, hn⟩, b, c', d,
      nonceOk_reachable S hP av c hs0 hc hb ops np (spec_write_implies S _ p _ buf sp' spl hsp).1, e⟩

/-! ## 6. Non-vacuity: concrete instances with the toy suite -/

namespace Ex
open SnowVerif.Theorems.C14.Ex SnowVerif.Theorems.C01.Ex

theorem toyL : S0.HashLen := C18.toy_suite_hashLen 0 0 0
theorem toyS : S0.Sizes := C18.toy_suite_sizes 0 0 0
theorem toyE : S0.EncLen := C18.toy_suite_encLen 0 0 0
theorem toyP : S0.PubLen := C18.toy_suite_pubLen 0 0 0
theorem toyT : S0.DecTag := S0.decTag_of_sound (C18.toy_suite_decSound 0 0 0) toyE

/-- The invariant of C10 holds of `i0`, the state `Builder::build` returns for the XX initiator
    (`C01.Ex.build_i0`). -/
theorem inv_i0 : Lemmas.C10.Inv S0 i0 := C10.inv_build S0 _ cfgI i0 toyP (by decide) build_i0

/-- `write_complete` applied to the built initiator `i0` and message 1 of XX (`-> e`, payload
    `[1,2,3]`, a 1000-byte buffer): every hypothesis holds (the specification's `WriteMessage`
    with the ephemeral `ephOf` names yields the 35 bytes `xw1.2.2.1`), hence snow returns
    `Ok(35)` having written those bytes. -/
example : (i0.writeMessage S0 [1, 2, 3] 1000).1 = .ok 35 ∧ (i0.writeMessage S0 [1, 2, 3] 1000).2.2.1 = xw1.2.2.1 := by
  have h := write_complete S0 toyL toyS toyE toyP i0 (absHS i0)
    ⟨rfl, by show i0.sym.ck.length = S0.hashLen; decide +kernel⟩ ⟨by decide +kernel, by decide +kernel⟩
    inv_i0.sym (by decide +kernel) ⟨inv_i0.sPub, fun _ => inv_i0.ePub⟩
    [1, 2, 3] 1000 xw1.2.2.1 (absHS xw1.2.1) none (by decide +kernel) (by decide +kernel) (by decide +kernel)
    (by decide +kernel) (by decide +kernel) (fun _ => Or.inr (by decide +kernel))
  have hl : xw1.2.2.1.length = 35 := by decide +kernel
  rw [hl] at h
  exact ⟨h.1, h.2.1⟩

/-- The responder `r0` is what `Builder::build` returns for the XX responder. -/
def cfgR : BuildCfg :=
  { pattern := .pXX, mods := [], name := [78, 111, 105, 115, 101], initiator := false,
    s := some (List.replicate 32 2), eFixed := none, rs := none, psks := List.replicate 10 none,
    prologue := [], rng := List.replicate 32 9 }

theorem build_r0 : build S0 ⟨true, true, true, true⟩ cfgR = .ok r0 := by decide +kernel

theorem inv_r0 : Lemmas.C10.Inv S0 r0 := C10.inv_build S0 _ cfgR r0 toyP (by decide) build_r0

/-- `read_complete` applied to the built responder `r0` reading that message: the
    specification accepts it with payload `[1,2,3]`, the four checks pass, hence snow returns
    `Ok([1,2,3])`. -/
example : (r0.readMessage S0 xw1.2.2.1 1000).1 = .ok [1, 2, 3] :=
  (read_complete S0 toyL toyS toyT r0 (absHS r0)
    ⟨rfl, by show r0.sym.ck.length = S0.hashLen; decide +kernel⟩ ⟨by decide +kernel, by decide +kernel⟩
    inv_r0.sym (by decide +kernel) xw1.2.2.1 1000 [1, 2, 3] (absHS xr1.2.1) none (by decide +kernel)
    (by decide +kernel) (by decide +kernel) (by decide +kernel) (by decide +kernel)).1

/-- The same through `read_ok_iff_reachable` (no hypothesis on the state: `r0` is a built state
    with the empty history). -/
example : (r0.readMessage S0 xw1.2.2.1 1000).1 = .ok [1, 2, 3] :=
  (read_ok_iff_reachable S0 toyL toyS toyT toyP _ cfgR r0 (by decide) build_r0 []
    (by intro pre op post h; cases pre <;> simp at h) xw1.2.2.1 1000 [1, 2, 3]).mpr
    ⟨⟨absHS xr1.2.1, none, by decide +kernel⟩, by decide +kernel, by decide +kernel, by decide +kernel⟩

/-- `write_ok_iff_reachable` instantiated on the built initiator: the right-hand side holds
    (no nonce condition to check), hence snow returns `Ok(35)`. -/
example : (i0.writeMessage S0 [1, 2, 3] 1000).1 = .ok 35 :=
  (write_ok_iff_reachable S0 toyL toyS toyE toyP _ cfgI i0 (by decide) build_i0 []
    (by intro pre op post h; cases pre <;> simp at h) [1, 2, 3] 1000 35).mpr
    ⟨⟨xw1.2.2.1, absHS xw1.2.1, none, by decide +kernel, by decide +kernel⟩, by decide +kernel, by decide,
     by decide +kernel, fun _ => Or.inr (by decide +kernel)⟩

theorem symInv_mid : SymInv symMid :=
  ⟨fun key h => by simp [symMid] at h, fun h => by simp [symMid] at h⟩

/-- `read_complete` on a message with every kind of token but `psk` (XX message 2,
    `<- e, ee, s, es`: an encrypted static key and an encrypted payload, two AEAD operations):
    the initiator `iMid` accepts `m2` and returns `[4,5]`. -/
example : (iMid.readMessage S0 m2 1000).1 = .ok [4, 5] :=
  (read_complete S0 toyL toyS toyT iMid (absHS iMid)
    ⟨rfl, by show iMid.sym.ck.length = S0.hashLen; decide +kernel⟩ ⟨by decide +kernel, by decide +kernel⟩
    symInv_mid (by decide +kernel) m2 1000 [4, 5] (absHS xr2.2.1) none (by decide +kernel)
    (by decide +kernel) (by decide +kernel) (by decide +kernel) (by decide +kernel)).1

/-- `write_complete` on that message pattern: the responder `rMid` writes the 98 bytes `m2`. -/
example : (rMid.writeMessage S0 [4, 5] 1000).1 = .ok 98 ∧ (rMid.writeMessage S0 [4, 5] 1000).2.2.1 = m2 := by
  have h := write_complete S0 toyL toyS toyE toyP rMid (absHS rMid)
    ⟨rfl, by show rMid.sym.ck.length = S0.hashLen; decide +kernel⟩ ⟨by decide +kernel, by decide +kernel⟩
    symInv_mid (by decide +kernel) ⟨by decide +kernel, fun _ => by decide +kernel⟩
    [4, 5] 1000 m2 (absHS xw2.2.1) none (by decide +kernel) (by decide +kernel) (by decide +kernel)
    (by decide +kernel) (by decide +kernel) (fun _ => Or.inr (by decide +kernel))
  exact ⟨h.1, h.2.1⟩

/-- **The buffer condition of a write is sharp, and asks for more than the specification's
    message**: message 1 of XX with a 3-byte payload is 35 bytes (payload in clear), but snow
    demands 32 + 3 + 16 = 51 bytes of buffer: with 50 it answers `Input`. -/
example : (i0.writeMessage S0 [1, 2, 3] 51).1 = .ok 35 ∧ (i0.writeMessage S0 [1, 2, 3] 50).1 = .err .input ∧
    (fieldsLen S0 i0.isPsk (i0.msgs.getD i0.pos []) i0.sym.hasKey).1 + 3 + 16 = 51 := by decide +kernel

/-- **The buffer condition of a read is sharp**: `|pl| ≤ cap`. -/
example : (iMid.readMessage S0 m2 2).1 = .ok [4, 5] ∧ (iMid.readMessage S0 m2 1).1 = .err .decrypt := by
  decide +kernel

/-- **The nonce guard is a real additional condition**: with the handshake cipher's nonce at
    `2^64 - 1` the specification (whose `EncryptAndHash` has no error path) still defines the
    last message of XX, `NonceOk` is false, and snow answers `Exhausted`. -/
def iLastMax : HS :=
  { iLast with sym := { iLast.sym with cs := { iLast.sym.cs with n := 0xFFFFFFFFFFFFFFFF } } }

example : (Spec.HandshakeState.writeMessage S0 (absHS iLastMax) [6] (ephOf S0 iLastMax)).isSome = true ∧
    NonceOk iLastMax.isPsk (iLastMax.msgs.getD iLastMax.pos []) iLastMax.sym.hasKey iLastMax.sym.cs.n = false ∧
    (iLastMax.writeMessage S0 [6] 1000).1 = .err (.state .exhausted) := by decide +kernel

/-- The nonce guard discharged by the simple bound `nonceOk_of_bound` (the handshake cipher's
    nonce is 0 here, the pattern `e, ee, s, es` has one `s`). -/
example : NonceOk iMid.isPsk (iMid.msgs.getD iMid.pos []) iMid.sym.hasKey iMid.sym.cs.n = true :=
  nonceOk_of_bound _ _ _ _ (by decide +kernel)

/-- **`Dh::generate` rejecting its draw is a real additional condition**: over a suite whose DH
    rejects the all-zero private key (as P-256 does; `C10.badSuite`), with an exhausted random
    source, the specification defines message 1 of XX for the key pair snow would draw, `GenOk`
    fails, and snow panics. -/
def i0zero : HS := { i0 with rng := [] }

example : (Spec.HandshakeState.writeMessage C10.badSuite (absHS i0zero) [] (ephOf C10.badSuite i0zero)).isSome = true ∧
    ¬ (i0zero.fixedE = true ∨ C10.badSuite.validPriv (rngDraw i0zero.rng C10.badSuite.privLen).1 = true) ∧
    (i0zero.writeMessage C10.badSuite [] 1000).1 = .panic "Dh::generate: invalid private key" := by
  decide +kernel

end Ex

end SnowVerif.Theorems.C01Complete
