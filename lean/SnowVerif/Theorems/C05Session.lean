/-
  C05 (continued)  In order, exactly once, between the two endpoints of one session.

  `C05Hist` is about a receiver and an abstract stream of sender messages. This file closes the loop with the
  model of `TransportState::write_message`: endpoint `a` makes ANY finite sequence of write calls (any payloads,
  any output-buffer sizes: some are refused), the network delivers to its peer `b` ANY finite sequence of
  messages drawn from what `a` produced (any order, any multiplicity, any payload-buffer sizes) and

  * `session_in_order_exactly_once`: what `b` accepted is a PREFIX of the payloads `a` sent successfully, in
    `a`'s order -- no payload twice, none out of order, none invented;
  * `sender_history`: the k-th successful write of `a` is the encryption of its payload under `a`'s sending key
    and the counter `n + k` (no wrap), refused writes change nothing.

  Hypotheses: the two states are `Paired` (opposite roles, the same two direction keys: what `Split()` gives,
  C02), `b`'s receiving counter equals `a`'s sending counter (true after the conversion: both 0), a sound and
  correct AEAD (`DecSound`, `DecEnc`), and the explicit residue `NonceBinding`: under the session's key a
  ciphertext determines its counter (AEAD integrity; for the stream+MAC constructions a tag collision otherwise).
-/
import SnowVerif.Theorems.C05Hist
import SnowVerif.Theorems.C04

namespace SnowVerif.Theorems.C05
open SnowVerif SnowVerif.Model SnowVerif.Model.TS
set_option linter.unusedVariables false
set_option linter.unusedSimpArgs false

/-- A write history: payload and capacity of the output buffer of each call. -/
abbrev Writes := List (Bytes × Nat)

/-- One write call: the message if the call succeeded, with its payload; and the successor state. -/
def wStep (S : Suite) (a : TS) (w : Bytes × Nat) : Option (Bytes × Bytes) × TS :=
  match a.writeMessage S w.1 w.2 with
  | (.ok c, a', _) => (some (c, w.1), a')
  | (_, a', _) => (none, a')

/-- Running a write history: the (message, payload) pairs of the successful calls, in order, and the final state. -/
def sendRun (S : Suite) : TS → Writes → List (Bytes × Bytes) × TS
  | a, [] => ([], a)
  | a, w :: ws =>
    match (wStep S a w).1 with
    | some cp => (cp :: (sendRun S (wStep S a w).2 ws).1, (sendRun S (wStep S a w).2 ws).2)
    | none => ((sendRun S (wStep S a w).2 ws).1, (sendRun S (wStep S a w).2 ws).2)

/-- The messages are encryptions under consecutive counters from `n` on, none of them the reserved value. -/
def SentFrom (S : Suite) (key : Bytes) : UInt64 → List (Bytes × Bytes) → Prop
  | _, [] => True
  | n, (c, p) :: r => c = S.enc key n [] p ∧ n ≠ MAXN ∧ SentFrom S key (n + 1) r

theorem wStep_spec (S : Suite) (a : TS) (h : CanSend a) (w : Bytes × Nat) :
    (WGuards a w.1 w.2 ∧ wStep S a w =
        (some (S.enc a.sendCs.key a.sendCs.n [] w.1, w.1), a.withSend { a.sendCs with n := a.sendCs.n + 1 })) ∨
    (¬ WGuards a w.1 w.2 ∧ wStep S a w = (none, a)) := by
  by_cases g : WGuards a w.1 w.2
  · left; refine ⟨g, ?_⟩
    unfold wStep; rw [write_guards_ok S a w.1 w.2 h g]
  · right; refine ⟨g, ?_⟩
    obtain ⟨e, he⟩ := write_guards_fail S a w.1 w.2 h g
    unfold wStep; rw [he]

theorem canSend_withSend (a : TS) (cs : CipherState) (h : CanSend a) (hk : cs.hasKey = true) :
    CanSend (a.withSend cs) := by
  unfold CanSend at *
  rw [sendCs_withSend, initiator_withSend, oneway_withSend]
  exact ⟨hk, h.2⟩

/-- **The sender's history**: successful writes are the encryptions of their payloads under consecutive
    counters; refused writes leave the state as it was; the receiving half is never touched. -/
theorem sender_history (S : Suite) (ws : Writes) : ∀ a : TS, CanSend a →
    SentFrom S a.sendCs.key a.sendCs.n (sendRun S a ws).1 ∧ (sendRun S a ws).2.recvCs = a.recvCs := by
  induction ws with
  | nil => intro a _; simp [sendRun, SentFrom]
  | cons w ws ih =>
    intro a h
    rcases wStep_spec S a h w with ⟨g, hw⟩ | ⟨g, hw⟩
    · have h' : CanSend (a.withSend { a.sendCs with n := a.sendCs.n + 1 }) :=
        canSend_withSend a _ h (by simp [h.1])
      obtain ⟨i1, i2⟩ := ih _ h'
      simp only [sendRun, hw]
      simp only [sendCs_withSend, recvCs_withSend] at i1 i2
      exact ⟨⟨rfl, g.2.2, i1⟩, i2⟩
    · obtain ⟨i1, i2⟩ := ih a h
      simp only [sendRun, hw]
      exact ⟨i1, i2⟩

private theorem succ_toNat' (n : UInt64) (h : n ≠ MAXN) : (n + 1).toNat = n.toNat + 1 := by
  have : n.toNat < 2 ^ 64 - 1 := by
    have h1 : n.toNat < 2 ^ 64 := n.toNat_lt
    have h2 : n.toNat ≠ 2 ^ 64 - 1 := by
      intro hc; apply h; apply UInt64.toNat_inj.mp; simpa [MAXN, CipherState.nonceMax] using hc
    omega
  rw [UInt64.toNat_add]; simp; omega

/-- Position `k` of the sender's stream is an encryption under the counter `n + k` (as natural numbers). -/
theorem sentFrom_pos (S : Suite) (key : Bytes) (sent : List (Bytes × Bytes)) : ∀ (n : UInt64), SentFrom S key n sent →
    ∀ k c p, sent[k]? = some (c, p) → ∃ i : UInt64, c = S.enc key i [] p ∧ i.toNat = n.toNat + k := by
  induction sent with
  | nil => intro n _ k c p hk; simp at hk
  | cons x r ih =>
    intro n h k c p hk
    obtain ⟨c0, p0⟩ := x
    obtain ⟨h1, h2, h3⟩ := h
    cases k with
    | zero =>
      simp only [List.getElem?_cons_zero, Option.some.injEq, Prod.mk.injEq] at hk
      obtain ⟨rfl, rfl⟩ := hk
      exact ⟨n, h1, by simp⟩
    | succ k =>
      simp only [List.getElem?_cons_succ] at hk
      obtain ⟨i, hi1, hi2⟩ := ih (n + 1) h3 k c p hk
      exact ⟨i, hi1, by rw [hi2, succ_toNat' n h2]; omega⟩

/-- Under the session's key a ciphertext determines its counter. -/
def NonceBinding (S : Suite) (key : Bytes) : Prop :=
  ∀ i j p q, S.enc key i [] p = S.enc key j [] q → i = j

/-- The receiver side: deliveries drawn from the sender's stream; the receiver stands at position `j` of it. -/
theorem recv_prefix (S : Suite) (hs : S.DecSound) (hde : S.DecEnc) (key : Bytes) (n0 : UInt64)
    (sent : List (Bytes × Bytes)) (hsent : SentFrom S key n0 sent) (hnb : NonceBinding S key)
    (ds : Deliveries) (hsrc : ∀ d ∈ ds, d.1 ∈ sent.map Prod.fst) : ∀ (r : Recv) (j : Nat),
    r.key = key → r.next.toNat = n0.toNat + j → j ≤ sent.length →
    ∃ k, j + k ≤ sent.length ∧
      accepted (runRecv S r (toOps ds)).1 = ((sent.map Prod.snd).drop j).take k := by
  induction ds with
  | nil => intro r j _ _ hjl; exact ⟨0, by omega, by simp [toOps, runRecv, accepted]⟩
  | cons d ds ih =>
    intro r j hk hj hjl
    have hsrc' : ∀ x ∈ ds, x.1 ∈ sent.map Prod.fst := fun x hx => hsrc x (List.mem_cons_of_mem _ hx)
    simp only [toOps, List.map_cons, runRecv, Recv.step]
    cases hd : (r.deliver S d.1 d.2).1 with
    | none =>
      rw [deliver_none S r d.1 d.2 hd]
      obtain ⟨k, hk1, hk2⟩ := ih hsrc' r j hk hj hjl
      simp only [toOps] at hk2
      exact ⟨k, hk1, by simpa [accepted] using hk2⟩
    | some p =>
      obtain ⟨h1, h2, h3⟩ := accept_only_encryption S hs r d.1 d.2 p hd
      -- the delivery is one of the sender's messages: find its position
      have hm := hsrc d (List.mem_cons_self ..)
      obtain ⟨⟨c', p'⟩, hmem, hc'⟩ := List.mem_map.mp hm
      obtain ⟨k', hk'⟩ := List.getElem?_of_mem hmem
      obtain ⟨i, hi1, hi2⟩ := sentFrom_pos S key sent n0 hsent k' c' p' hk'
      simp only at hc'
      have hij : i = r.next := hnb i r.next p' p (by rw [← hi1, hc', h1, hk])
      have hkj : k' = j := by
        have : i.toNat = r.next.toNat := by rw [hij]
        omega
      subst hkj
      -- the payload returned is the sender's
      have hp : p = p' := by
        have e1 := hde r.key r.next [] p
        rw [← h1, ← hc', hi1, hij, ← hk, hde] at e1
        exact (Option.some.inj e1).symm
      have hlt : k' < sent.length := by
        have := List.getElem?_eq_some_iff.mp hk'
        exact this.1
      have hkey' : (r.deliver S d.1 d.2).2.key = key := by rw [deliver_key]; exact hk
      have hnext' : (r.deliver S d.1 d.2).2.next.toNat = n0.toNat + (k' + 1) := by
        rw [h2, succ_toNat' _ h3, hj]; omega
      obtain ⟨k, hk1, hk2⟩ := ih hsrc' _ (k' + 1) hkey' hnext' (by omega)
      simp only [toOps] at hk2
      refine ⟨k + 1, by omega, ?_⟩
      simp only [accepted, List.filterMap_cons, id] at hk2 ⊢
      rw [hk2]
      have hget : (sent.map Prod.snd)[k']? = some p' := by
        rw [List.getElem?_map, hk']; rfl
      have hdrop : (sent.map Prod.snd).drop k' = p' :: (sent.map Prod.snd).drop (k' + 1) := by
        have hl : k' < (sent.map Prod.snd).length := by simpa using hlt
        rw [List.drop_eq_getElem_cons hl]
        congr 1
        have := List.getElem?_eq_getElem hl
        rw [hget] at this
        exact (Option.some.inj this).symm
      rw [hdrop, hp]; rfl

/-- **In order, exactly once, between the endpoints of one session.** Whatever write calls `a` makes and however
    the network reorders, repeats and drops `a`'s messages on their way to `b`: the payloads `b` accepted are a
    prefix of the payloads `a` sent, in `a`'s order. -/
theorem session_in_order_exactly_once (S : Suite) (hs : S.DecSound) (hde : S.DecEnc)
    (a b : TS) (hp : C04.Paired a b) (ha : CanSend a) (hb : CanRecv b) (hn : b.recvCs.n = a.sendCs.n)
    (hnb : NonceBinding S a.sendCs.key) (ws : Writes) (ds : Deliveries)
    (hsrc : ∀ d ∈ ds, d.1 ∈ (sendRun S a ws).1.map Prod.fst) :
    ∃ k, k ≤ (sendRun S a ws).1.length ∧
      accepted (runReads S b ds).1 = ((sendRun S a ws).1.map Prod.snd).take k := by
  obtain ⟨hsent, _⟩ := sender_history S ws a ha
  obtain ⟨r1, _, _⟩ := t_read_refines_receiver S b (toOps ds) hb
  have hk := (C04.paired_keys a b hp).1
  obtain ⟨k, hk1, hk2⟩ := recv_prefix S hs hde a.sendCs.key a.sendCs.n _ hsent hnb ds hsrc (abs b) 0
    (by simp [abs, hk]) (by simp [abs, hn]) (by omega)
  refine ⟨k, by omega, ?_⟩
  unfold runReads; rw [r1]
  simpa using hk2

/-! ### Non-vacuity (toy suite): four write calls (one refused), deliveries reordered and repeated -/
namespace ExSession
def S0 : Suite := Toy.suite 0 0 0
def ta : TS := { cs1 := { key := List.replicate 32 1, n := 0, hasKey := true }, cs2 := { key := List.replicate 32 2, n := 0, hasKey := true },
                 oneway := false, pubLen := 32, rs := { val := [], on := false }, initiator := true }
def tb : TS := { ta with initiator := false }
def ws : Writes := [([1, 1], 64), ([2], 3), ([3, 3, 3], 19), ([], 16)]
def sent : List (Bytes × Bytes) := (sendRun S0 ta ws).1
def msg (k : Nat) : Bytes := (sent.map Prod.fst).getD k []
def ds : Deliveries := [(msg 1, 64), (msg 0, 64), (msg 0, 64), (msg 1, 2), (msg 1, 64), (msg 1, 64)]
/-- A test of the definitions: three of the four writes succeed; `b` accepts the first two payloads, in order. -/
example : sent.map Prod.snd = [[1, 1], [3, 3, 3], []] ∧ accepted (runReads S0 tb ds).1 = [[1, 1], [3, 3, 3]] := by
  decide +kernel
example : C04.Paired ta tb ∧ CanSend ta ∧ CanRecv tb ∧ tb.recvCs.n = ta.sendCs.n := by
  refine ⟨⟨by decide, rfl, rfl⟩, ⟨by decide, by decide⟩, ⟨by decide, by decide⟩, by decide⟩
example : ∀ d ∈ ds, d.1 ∈ (sendRun S0 ta ws).1.map Prod.fst := by decide +kernel
end ExSession

end SnowVerif.Theorems.C05
