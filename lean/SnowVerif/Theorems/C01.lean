/-
  C01 (state-machine part)  Wire-level conformance to the Noise specification, revision 34:
  "each handshake message and each transport message an endpoint produces is byte-for-byte the
  message that the specification defines for those inputs, and the handshake hash and
  payload-encrypted indication it reports are the specification's."

  The specification: `Spec/Crypto.lean` (sections 4, 5.1, 5.2) and `Spec/Handshake.lean`
  (section 5.3 `Initialize` / `WriteMessage` / `ReadMessage`, section 9.2 `psk`), pure functions
  over values. The theorems are a REFINEMENT ALONG ERROR-FREE CALLS (the specification defines
  no continuation after an error; C07 shows a failed call of snow is a no-op): whenever the
  model of snow returns `ok`, the specification's function on the abstract state returns exactly
  the same bytes and the abstraction of snow's successor state.

  Valid for EVERY suite with `HashLen` (the hash returns `hashLen` bytes) and `Sizes`
  (32 ≤ hashLen ≤ 64 ≤ blockLen ≤ 128), in particular the 24 real ones; `read_refines_spec`
  additionally uses `DecLen` (an accepted ciphertext is 16 bytes longer than its plaintext).

  The token table and the modifier code are compared with the specification in
  `Theorems/C01Patterns.lean`; HMAC/HKDF/REKEY and the nonce layouts in `Theorems/C18.lean`.

  ## The abstraction and the one deliberate wrinkle

  `absHS : Model.HS → Spec.HandshakeState` (`Lemmas/C01Write.lean`): `h`, `ck` as they are;
  the specification's `k` is `some key` iff snow's `has_key`; `n` is the cipher's nonce; a
  `Toggle`d key is present iff the toggle is on; `message_patterns` is `msgs.drop pos`.

  snow's `mix_key_and_hash` installs the cipher key but does NOT set `has_key`, unlike the
  specification's `MixKeyAndHash` (after which `k` is non-empty). The two differ observably iff
  something is encrypted after a `psk` token met un-keyed and before the next `MixKey`
  (`mixKeyAndHash_wrinkle`, and `Ex.wrinkle_is_real` exhibits different bytes on the non-table
  token list `psk, s`). The refinement tolerates exactly the transient state in between
  (`Transient`, ghost flag of `absSymG`), under the side condition `PskOk` of C14 on the current
  message pattern: every `psk` token is met keyed, or is followed through `psk` tokens only by an
  `e` token in psk mode (whose `MixKey(e.public_key)` sets `has_key` on both sides).
  `sideOk_reachable` shows the side condition holds in every state reachable from
  `Builder::build`, for all table patterns and all accepted modifier lists.
-/
import SnowVerif.Lemmas.C01Build
import SnowVerif.Theorems.C15
import SnowVerif.Theorems.C12

namespace SnowVerif.Theorems.C01
open SnowVerif SnowVerif.Model SnowVerif.Model.HS SnowVerif.Bytes SnowVerif.Framing SnowVerif.C01
set_option linter.unusedVariables false
set_option linter.unusedSimpArgs false

/-! ## 1. The abstraction -/

/-- The abstraction of the symmetric state, spelled out: `h` and `ck` unchanged, the
    specification's `k` is the installed cipher key iff `has_key`, `n` is the cipher's nonce. -/
theorem absSym_def (sym : Sym) :
    (absSym sym).h = sym.h ∧ (absSym sym).ck = sym.ck ∧ (absSym sym).cs.n = sym.cs.n ∧
    (absSym sym).cs.k = (if sym.hasKey then some sym.cs.key else none) := ⟨rfl, rfl, rfl, rfl⟩

/-- The abstraction of the handshake state, spelled out. -/
theorem absHS_def (hs : HS) :
    (absHS hs).ss = absSym hs.sym ∧
    (absHS hs).s = (if hs.s.on then some ⟨hs.s.val.priv, hs.s.val.pub⟩ else none) ∧
    (absHS hs).e = (if hs.e.on then some ⟨hs.e.val.priv, hs.e.val.pub⟩ else none) ∧
    (absHS hs).rs = (if hs.rs.on then some hs.rs.val else none) ∧
    (absHS hs).re = (if hs.re.on then some hs.re.val else none) ∧
    (absHS hs).initiator = hs.initiator ∧ (absHS hs).msgs = hs.msgs.drop hs.pos ∧
    (absHS hs).psks = hs.psks ∧ (absHS hs).isPsk = hs.isPsk :=
  ⟨rfl, rfl, rfl, rfl, rfl, rfl, rfl, rfl, rfl⟩

/-- What snow reports through its getters is read off the abstract state: the handshake hash is
    the specification's `h`, `was_write_payload_encrypted` is the specification's `HasKey()`,
    `is_handshake_finished` is "no message patterns left" (for `pos ≤ #messages`, an invariant,
    see C11). -/
theorem getters_abs (hs : HS) (hp : hs.pos ≤ hs.msgs.length) :
    hs.getHandshakeHash = (absHS hs).ss.h ∧
    hs.wasWritePayloadEncrypted = (absHS hs).hasKey ∧
    (hs.isHandshakeFinished = true ↔ (absHS hs).msgs = []) := by
  refine ⟨rfl, (absHS_hasKey hs).symm, ?_⟩
  unfold HS.isHandshakeFinished absHS
  simp only [beq_iff_eq, List.drop_eq_nil_iff]
  omega

/-- **The refinement relation** between a state of snow and a state of the specification. -/
theorem refines_def (S : Suite) (hs : HS) (sp : Spec.HandshakeState) :
    Refines S hs sp ↔ (sp = absHS hs ∧ hs.sym.ck.length = S.hashLen) := Iff.rfl

/-! ## 2. Step lemmas: every SymmetricState operation of snow is the specification's -/

/-- `SymmetricState::initialize(name)` is `InitializeSymmetric(protocol_name)`: the name padded
    with zeros to `HASHLEN` if it fits, hashed otherwise; `ck = h`; no key; and the chaining key
    has `hash_len` bytes. -/
theorem initialize_eq_spec (S : Suite) (hL : S.HashLen) (name : Bytes) :
    absSym (Sym.init S name) = Spec.SymmetricState.init S name ∧ (Sym.init S name).ck.length = S.hashLen :=
  ⟨rfl, init_ck S hL name⟩

/-- `mix_hash(data)` is `MixHash(data)`. -/
theorem mixHash_eq_spec (S : Suite) (sym : Sym) (d : Bytes) :
    absSym (sym.mixHash S d) = (absSym sym).mixHash S d ∧ (sym.mixHash S d).ck = sym.ck := ⟨rfl, rfl⟩

/-- `mix_key(ikm)` is `MixKey(input_key_material)`: `ck, temp_k = HKDF(ck, ikm, 2)`, the key
    truncated to 32 bytes, `n = 0`; the new chaining key again has `hash_len` bytes. -/
theorem mixKey_eq_spec (S : Suite) (hL : S.HashLen) (hS : S.Sizes) (sym : Sym) (d : Bytes)
    (hck : sym.ck.length = S.hashLen) :
    absSym (sym.mixKey S d) = (absSym sym).mixKey S d ∧ (sym.mixKey S d).ck.length = S.hashLen :=
  ⟨mixKey_abs S hL hS false false sym d hck, mixKey_ck S hL sym d⟩

/-- `mix_key_and_hash(ikm)` is `MixKeyAndHash(input_key_material)` when `has_key` is already
    set: `ck, temp_h, temp_k = HKDF(ck, ikm, 3)`, `MixHash(temp_h)`, key truncated to 32 bytes,
    `n = 0`. -/
theorem mixKeyAndHash_eq_spec (S : Suite) (hL : S.HashLen) (hS : S.Sizes) (sym : Sym) (d : Bytes)
    (hck : sym.ck.length = S.hashLen) (hk : sym.hasKey = true) :
    absSym (sym.mixKeyAndHash S d) = (absSym sym).mixKeyAndHash S d ∧
    (sym.mixKeyAndHash S d).ck.length = S.hashLen :=
  ⟨mixKeyAndHash_abs S hL hS false false sym d hck (by simp [hk]), mixKeyAndHash_ck S hL sym d⟩

/-- **The wrinkle.** When `has_key` is NOT set, `mix_key_and_hash` computes the specification's
    `h`, `ck`, nonce and key (the key is installed in the cipher: `k = some key`, `cs.key = key`),
    but leaves `has_key` false where the specification's `k` becomes non-empty: the abstraction
    of snow's state has an empty `k`. Read with the ghost flag set (`absSymG true`), the states
    coincide. -/
theorem mixKeyAndHash_wrinkle (S : Suite) (hL : S.HashLen) (hS : S.Sizes) (sym : Sym) (d : Bytes)
    (hck : sym.ck.length = S.hashLen) (hk : sym.hasKey = false) :
    absSymG true (sym.mixKeyAndHash S d) = (absSym sym).mixKeyAndHash S d ∧
    (absSym (sym.mixKeyAndHash S d)).cs.k = none ∧
    ((absSym sym).mixKeyAndHash S d).cs.k = some (sym.mixKeyAndHash S d).cs.key ∧
    (sym.mixKeyAndHash S d).k = some (sym.mixKeyAndHash S d).cs.key ∧
    (sym.mixKeyAndHash S d).hasKey = false := by
  have h1 := mixKeyAndHash_abs S hL hS false true sym d hck rfl
  refine ⟨h1, ?_, ?_, rfl, hk⟩
  · simp only [absSym, Sym.mixKeyAndHash, Sym.mixHash, hk, Bool.false_eq_true, ↓reduceIte]
  · rw [absSymG_false] at h1
    rw [← h1]
    rfl

/-- A successful `encrypt_and_mix_hash(plaintext)` returns exactly `EncryptAndHash(plaintext)`
    (`ENCRYPT(k, n++, h, plaintext)` if `k` is non-empty, else the plaintext; then `MixHash` of
    what was returned) and the specification's successor state. -/
theorem encryptAndHash_eq_spec (S : Suite) (sym : Sym) (pt : Bytes) (cap : Nat) (c : Bytes) (sym' : Sym)
    (ev : List Event) (h : sym.encryptAndMixHash S pt cap = (.ok c, sym', ev)) :
    (absSym sym).encryptAndHash S pt = (c, absSym sym') ∧ sym'.ck = sym.ck := by
  have h1 : (sym.encryptAndMixHash S pt cap).1 = .ok c := by rw [h]
  have h2 : (sym.encryptAndMixHash S pt cap).2.1 = sym' := by rw [h]
  have := encrypt_abs S sym pt cap c h1
  rw [h2] at this
  refine ⟨this, ?_⟩
  rw [← h2]
  unfold Sym.encryptAndMixHash
  simp only
  repeat' split
  all_goals rfl

/-- A successful `decrypt_and_mix_hash(ciphertext)` returns exactly `DecryptAndHash(ciphertext)`
    and the specification's successor state. -/
theorem decryptAndHash_eq_spec (S : Suite) (sym : Sym) (ct : Bytes) (cap : Nat) (p : Bytes) (sym' : Sym)
    (buf : Bytes) (ev : List Event) (h : sym.decryptAndMixHash S ct cap = (.ok p, sym', buf, ev)) :
    (absSym sym).decryptAndHash S ct = some (p, absSym sym') ∧ sym'.ck = sym.ck := by
  have h1 : (sym.decryptAndMixHash S ct cap).1 = .ok p := by rw [h]
  have h2 : (sym.decryptAndMixHash S ct cap).2.1 = sym' := by rw [h]
  have := decrypt_abs S sym ct cap p h1
  rw [h2] at this
  refine ⟨this, ?_⟩
  rw [← h2]
  unfold Sym.decryptAndMixHash
  simp only
  repeat' split
  all_goals rfl

/-- `split()` is `Split()`: `temp_k1, temp_k2 = HKDF(ck, zerolen, 2)` truncated to 32 bytes, as
    the keys of two fresh CipherStates with `n = 0`, in this order. -/
theorem split_eq_spec (S : Suite) (hL : S.HashLen) (hS : S.Sizes) (sym : Sym)
    (hck : sym.ck.length = S.hashLen) :
    (absCS (sym.split S).1, absCS (sym.split S).2) = (absSym sym).split S :=
  split_abs S hL hS false sym hck

/-! ## 3. The side condition, and that table instances satisfy it -/

/-- The side condition of the message theorems, on the state at the moment of the call:
    `PskOk` for the current message pattern in the current keyedness, and at most one `e` token
    in it. -/
theorem sideOk_def (hs : HS) :
    SideOk hs ↔ (PskOk hs.isPsk (hs.msgs.getD hs.pos []) hs.sym.hasKey = true ∧
      (hs.msgs.getD hs.pos []).count .e ≤ 1) := Iff.rfl

/-- A message pattern without `psk` tokens and with at most one `e` satisfies the side
    condition in every state (this is the `is_psk = false` case of the theorems below). -/
theorem sideOk_of_noPsk (hs : HS) (h : ∀ n, Tok.psk n ∉ hs.msgs.getD hs.pos [])
    (h1 : (hs.msgs.getD hs.pos []).count .e ≤ 1) : SideOk hs :=
  ⟨pskOk_noPsk _ _ _ h, h1⟩

/-- The side conditions on the token lists hold for every pattern of the generated table under
    every modifier list `HandshakeTokens::try_from` accepts (`pskOk_tables` of C14, `oneE_tables`). -/
theorem side_tables (p : Generated.Pattern) (mods : List Modifier) (inst : Inst)
    (h : handshakeTokens p mods = .ok inst) :
    PskOkMsgs (isPskMods mods) inst.msgs false = true ∧ oneE inst.msgs = true :=
  ⟨pskOk_tables p mods inst h, oneE_tables p mods inst h⟩

theorem run_static (S : Suite) (hs : HS) (ops : List C11.Op)
    (np : ∀ (pre : List C11.Op) (op : C11.Op) (post : List C11.Op), ops = pre ++ op :: post →
      C11.NoPanic S (C11.run S hs pre) op) :
    (C11.run S hs ops).msgs = hs.msgs ∧ (C11.run S hs ops).isPsk = hs.isPsk := by
  induction ops generalizing hs with
  | nil => exact ⟨rfl, rfl⟩
  | cons op ops ih =>
    simp only [C11.run]
    obtain ⟨a, b⟩ := ih (C11.step S hs op) (by
      intro pre o post hpost
      have := np (op :: pre) o post (by simp [hpost])
      simpa [C11.run] using this)
    obtain ⟨_, c, d⟩ := C14.static_step S hs op (np [] op ops rfl)
    exact ⟨a.trans d, b.trans c⟩

/-- **The side condition and the relation's invariant hold in every reachable state**: from any
    state returned by `Builder::build` (any table pattern, any accepted modifiers, any keys),
    after any history of handshake calls with arbitrary arguments (failed calls and retries
    included, panic-free by C10), the state satisfies `SideOk` and its chaining key has
    `hash_len` bytes: the hypotheses of `write_refines_spec` / `read_refines_spec`. -/
theorem sideOk_reachable (S : Suite) (hL : S.HashLen) (av : Avail) (c : BuildCfg) (hs0 : HS)
    (hb : build S av c = .ok hs0) (ops : List C11.Op)
    (np : ∀ (pre : List C11.Op) (op : C11.Op) (post : List C11.Op), ops = pre ++ op :: post →
      C11.NoPanic S (C11.run S hs0 pre) op) :
    SideOk (C11.run S hs0 ops) ∧ Refines S (C11.run S hs0 ops) (absHS (C11.run S hs0 ops)) := by
  have hi := C12.build_initial_state S av c hs0 hb
  have htok := hi.2.2.2.1
  have hpsk0 : hs0.isPsk = isPskMods c.mods := by
    rw [Lemmas.C12.build_ok_state S av c hs0 hb]; rfl
  have hk0 : C14.KeyedInv hs0 := C14.keyedInv_initial hs0 hi.1 hi.2.2.2.2.2.2.2.2.2.2.2.2.2.2.2.2.2.2.1
  have r1 := C14.keyedInv_always S hs0 ops hk0 np
  obtain ⟨hm, hp⟩ := run_static S hs0 ops np
  have r2 : PskOkMsgs (C11.run S hs0 ops).isPsk (C11.run S hs0 ops).msgs false = true := by
    rw [hm, hp, hpsk0]
    exact pskOk_tables _ _ _ htok
  have ho : oneE hs0.msgs = true := oneE_tables _ _ _ htok
  have hck0 : CkLen S hs0.sym := built_ck S hL av c hs0 hb
  refine ⟨⟨?_, ?_⟩, rfl, ck_run S hL hs0 ops hck0⟩
  · by_cases hp : (C11.run S hs0 ops).pos < (C11.run S hs0 ops).msgs.length
    · have := (pskOkMsgs_keyed _ _ false (C11.run S hs0 ops).pos r2).2 hp
      unfold C14.KeyedInv keyedBefore at r1
      rw [r1]
      exact this
    · have : (C11.run S hs0 ops).msgs.getD (C11.run S hs0 ops).pos [] = [] := by
        rw [List.getD_eq_getElem?_getD, List.getElem?_eq_none (by omega)]
        rfl
      rw [this]
      rfl
  · rw [hm]
    exact oneE_getD _ _ ho

/-! ## 4. Handshake messages -/

/-- **write_refines_spec.** For every state `hs` of snow related to a specification state `sp`,
    every payload and every buffer capacity: if `write_message` succeeds, returning `n`, having
    written `acc`, then the specification's `WriteMessage(payload)` on `sp`, with
    `GENERATE_KEYPAIR()` returning the ephemeral snow drew (or had fixed), yields
    * exactly the bytes `acc` as the message (and `n` is their number),
    * a successor state related to snow's successor (so in particular the same handshake hash
      `h`, chaining key, cipher key and nonce, keys, and remaining message patterns),
    * `Split()`'s pair of CipherStates exactly when snow reports the handshake finished, and
      then snow's two transport cipher states are that pair, in that order;
    and `was_write_payload_encrypted` is true iff the specification's `k` was non-empty when the
    payload was processed. -/
theorem write_refines_spec (S : Suite) (hL : S.HashLen) (hS : S.Sizes) (hs : HS) (sp : Spec.HandshakeState)
    (hrel : Refines S hs sp) (hside : SideOk hs)
    (p : Bytes) (cap : Nat) (n : Nat) (hs' : HS) (acc : Bytes) (ev : List Event)
    (h : hs.writeMessage S p cap = (.ok n, hs', acc, ev)) :
    ∃ sp', Spec.HandshakeState.writeMessage S sp p ⟨hs'.e.val.priv, hs'.e.val.pub⟩ =
        some (acc, sp', if hs'.isHandshakeFinished then some (absCS hs'.cs1, absCS hs'.cs2) else none) ∧
      Refines S hs' sp' ∧ n = acc.length ∧ hs'.getHandshakeHash = sp'.ss.h ∧
      (hs'.wasWritePayloadEncrypted = true ↔
        Spec.HandshakeState.writePayloadEncrypted S sp ⟨hs'.e.val.priv, hs'.e.val.pub⟩ = some true) ∧
      (hs'.isHandshakeFinished = true ↔ sp'.msgs = []) := by
  obtain ⟨rfl, hck⟩ := hrel
  obtain ⟨a, b, c, d⟩ := writeMessage_refines S hL hS hs p cap n hs' acc ev hck hside.1 hside.2 h
  obtain ⟨_, hp, hp', _⟩ := C11.write_ok_ctl S hs p cap n hs' acc ev h
  have hpos : hs'.pos ≤ hs'.msgs.length := by
    have := (C11.write_ok_ctl S hs p cap n hs' acc ev h).2.2.2.2.2.1
    rw [hp', this]; omega
  refine ⟨absHS hs', a, ⟨rfl, b⟩, c, rfl, ?_, (getters_abs hs' hpos).2.2⟩
  have d' : Spec.HandshakeState.writePayloadEncrypted S (absHS hs) ⟨hs'.e.val.priv, hs'.e.val.pub⟩ =
      some hs'.wasWritePayloadEncrypted := d
  rw [d']
  simp only [Option.some.injEq]

/-- **read_refines_spec.** For every state `hs` of snow related to a specification state `sp`,
    every message and every buffer capacity: if `read_message` succeeds, returning the payload
    `pl`, then the specification's `ReadMessage(message)` on `sp` accepts the message, returns
    exactly `pl`, a successor state related to snow's successor (same `h`, `ck`, key, nonce,
    remote keys learnt, remaining patterns), and `Split()`'s pair exactly when snow reports the
    handshake finished, snow's transport cipher states being that pair in that order.
    (`DecLen`: where snow cuts the payload to "rest of the message minus the tag" nothing is
    lost.) -/
theorem read_refines_spec (S : Suite) (hL : S.HashLen) (hS : S.Sizes) (hD : S.DecLen) (hs : HS)
    (sp : Spec.HandshakeState) (hrel : Refines S hs sp) (hside : SideOk hs)
    (m : Bytes) (cap : Nat) (pl : Bytes) (hs' : HS) (buf : Bytes) (ev : List Event)
    (h : hs.readMessage S m cap = (.ok pl, hs', buf, ev)) :
    ∃ sp', Spec.HandshakeState.readMessage S sp m =
        some (pl, sp', if hs'.isHandshakeFinished then some (absCS hs'.cs1, absCS hs'.cs2) else none) ∧
      Refines S hs' sp' ∧ hs'.getHandshakeHash = sp'.ss.h ∧
      (hs'.isHandshakeFinished = true ↔ sp'.msgs = []) := by
  obtain ⟨rfl, hck⟩ := hrel
  obtain ⟨a, b⟩ := readMessage_refines S hL hS hD hs m cap pl hs' buf ev hck hside.1 h
  have hc := C11.read_ok_ctl S hs m cap pl hs' buf ev h
  have hpos : hs'.pos ≤ hs'.msgs.length := by
    obtain ⟨_, hp, _, hp', _, _, hm, _⟩ := hc
    rw [hp', hm]; omega
  exact ⟨absHS hs', a, ⟨rfl, b⟩, rfl, (getters_abs hs' hpos).2.2⟩

/-- The two theorems for handshakes without psk (`fallback` of DESIGN.md): when the current
    message pattern has no `psk` token (in particular whenever no `pskN` modifier was given) the
    psk side condition is vacuous. -/
theorem write_refines_spec_nopsk (S : Suite) (hL : S.HashLen) (hS : S.Sizes) (hs : HS)
    (hck : hs.sym.ck.length = S.hashLen)
    (hnp : ∀ k, Tok.psk k ∉ hs.msgs.getD hs.pos []) (h1 : (hs.msgs.getD hs.pos []).count .e ≤ 1)
    (p : Bytes) (cap : Nat) (n : Nat) (hs' : HS) (acc : Bytes) (ev : List Event)
    (h : hs.writeMessage S p cap = (.ok n, hs', acc, ev)) :
    Spec.HandshakeState.writeMessage S (absHS hs) p ⟨hs'.e.val.priv, hs'.e.val.pub⟩ =
      some (acc, absHS hs', if hs'.isHandshakeFinished then some (absCS hs'.cs1, absCS hs'.cs2) else none) := by
  obtain ⟨sp', a, ⟨rfl, _⟩, _⟩ := write_refines_spec S hL hS hs _ ⟨rfl, hck⟩ (sideOk_of_noPsk hs hnp h1)
    p cap n hs' acc ev h
  exact a

/-- **Headline (write).** From any state returned by `Builder::build`, after any history of
    handshake calls (arbitrary arguments, failed calls and retries included), a successful
    `write_message` produces byte for byte the message the specification's `WriteMessage` defines
    for the abstract state, the payload and the ephemeral used, with the abstraction of snow's
    new state as successor, and `Split()`'s pair as snow's transport cipher states exactly when
    the handshake is finished. No side condition is left: it holds for all table patterns with
    all accepted modifier lists. -/
theorem write_refines_spec_reachable (S : Suite) (hL : S.HashLen) (hS : S.Sizes) (av : Avail) (c : BuildCfg)
    (hs0 : HS) (hb : build S av c = .ok hs0) (ops : List C11.Op)
    (np : ∀ (pre : List C11.Op) (op : C11.Op) (post : List C11.Op), ops = pre ++ op :: post →
      C11.NoPanic S (C11.run S hs0 pre) op)
    (p : Bytes) (cap : Nat) (n : Nat) (hs' : HS) (acc : Bytes) (ev : List Event)
    (h : (C11.run S hs0 ops).writeMessage S p cap = (.ok n, hs', acc, ev)) :
    Spec.HandshakeState.writeMessage S (absHS (C11.run S hs0 ops)) p ⟨hs'.e.val.priv, hs'.e.val.pub⟩ =
      some (acc, absHS hs', if hs'.isHandshakeFinished then some (absCS hs'.cs1, absCS hs'.cs2) else none) ∧
    n = acc.length ∧
    (hs'.wasWritePayloadEncrypted = true ↔
      Spec.HandshakeState.writePayloadEncrypted S (absHS (C11.run S hs0 ops)) ⟨hs'.e.val.priv, hs'.e.val.pub⟩
        = some true) := by
  obtain ⟨hside, hrel⟩ := sideOk_reachable S hL av c hs0 hb ops np
  obtain ⟨sp', a, ⟨rfl, _⟩, b, _, d, _⟩ := write_refines_spec S hL hS _ _ hrel hside p cap n hs' acc ev h
  exact ⟨a, b, d⟩

/-- **Headline (read).** Likewise, a successful `read_message` in any reachable state accepted a
    message the specification's `ReadMessage` accepts in the abstract state, and returned the
    specification's payload. -/
theorem read_refines_spec_reachable (S : Suite) (hL : S.HashLen) (hS : S.Sizes) (hD : S.DecLen) (av : Avail)
    (c : BuildCfg) (hs0 : HS) (hb : build S av c = .ok hs0) (ops : List C11.Op)
    (np : ∀ (pre : List C11.Op) (op : C11.Op) (post : List C11.Op), ops = pre ++ op :: post →
      C11.NoPanic S (C11.run S hs0 pre) op)
    (m : Bytes) (cap : Nat) (pl : Bytes) (hs' : HS) (buf : Bytes) (ev : List Event)
    (h : (C11.run S hs0 ops).readMessage S m cap = (.ok pl, hs', buf, ev)) :
    Spec.HandshakeState.readMessage S (absHS (C11.run S hs0 ops)) m =
      some (pl, absHS hs', if hs'.isHandshakeFinished then some (absCS hs'.cs1, absCS hs'.cs2) else none) := by
  obtain ⟨hside, hrel⟩ := sideOk_reachable S hL av c hs0 hb ops np
  obtain ⟨sp', a, ⟨rfl, _⟩, _⟩ := read_refines_spec S hL hS hD _ _ hrel hside m cap pl hs' buf ev h
  exact a

/-! ## 5. Transport messages -/

/-- The specification's `WriteMessage` / `ReadMessage` return `Split()` of the final symmetric
    state, when they return a pair at all. -/
theorem spec_write_split (S : Suite) (sp sp' : Spec.HandshakeState) (p : Bytes) (eph : Spec.KeyPair)
    (m : Bytes) (pr : Spec.CipherState × Spec.CipherState)
    (h : Spec.HandshakeState.writeMessage S sp p eph = some (m, sp', some pr)) :
    pr = sp'.ss.split S ∧ sp'.msgs = [] := by
  unfold Spec.HandshakeState.writeMessage at h
  split at h
  · cases h
  · rename_i m0 rest hm
    split at h
    · cases h
    · simp only [Option.some.injEq, Prod.mk.injEq] at h
      obtain ⟨_, h2, h3⟩ := h
      subst h2
      cases hr : rest.isEmpty with
      | true =>
        simp only [hr, ↓reduceIte, Option.some.injEq] at h3
        exact ⟨h3.symm, by simpa using hr⟩
      | false => simp [hr] at h3

theorem spec_read_split (S : Suite) (sp sp' : Spec.HandshakeState) (m pl : Bytes)
    (pr : Spec.CipherState × Spec.CipherState)
    (h : Spec.HandshakeState.readMessage S sp m = some (pl, sp', some pr)) :
    pr = sp'.ss.split S ∧ sp'.msgs = [] := by
  unfold Spec.HandshakeState.readMessage at h
  split at h
  · cases h
  · rename_i m0 rest hm
    split at h
    · cases h
    · split at h
      · cases h
      · simp only [Option.some.injEq, Prod.mk.injEq] at h
        obtain ⟨_, h2, h3⟩ := h
        subst h2
        cases hr : rest.isEmpty with
        | true =>
          simp only [hr, ↓reduceIte, Option.some.injEq] at h3
          exact ⟨h3.symm, by simpa using hr⟩
        | false => simp [hr] at h3

/-- **The transport keys are the specification's `Split()` pair.** After the last handshake
    message was written by snow (`write_message` succeeded and the handshake is finished),
    `into_transport_mode` yields a transport state whose FIRST cipher state is the first
    CipherState of the specification's `Split()`, the SECOND the second, both with `n = 0` and a
    non-empty key. (`transport_keys_after_read`: same after a final `read_message`.) -/
theorem transport_keys_after_write (S : Suite) (hL : S.HashLen) (hS : S.Sizes) (hs : HS)
    (hck : hs.sym.ck.length = S.hashLen) (hside : SideOk hs)
    (p : Bytes) (cap : Nat) (n : Nat) (hs' : HS) (acc : Bytes) (ev : List Event)
    (h : hs.writeMessage S p cap = (.ok n, hs', acc, ev)) (ts : TS) (hts : TS.ofHandshake S hs' = .ok ts) :
    (absCS ts.cs1, absCS ts.cs2) = (absHS hs').ss.split S ∧
    ts.cs1.n = 0 ∧ ts.cs2.n = 0 ∧ ts.cs1.hasKey = true ∧ ts.cs2.hasKey = true ∧
    ts.initiator = hs.initiator := by
  obtain ⟨sp', a, ⟨rfl, _⟩, _⟩ := write_refines_spec S hL hS hs _ ⟨rfl, hck⟩ hside p cap n hs' acc ev h
  unfold TS.ofHandshake at hts
  cases hfin : hs'.isHandshakeFinished with
  | false => simp [hfin] at hts
  | true =>
    simp only [hfin, Bool.not_true, Bool.false_eq_true, ↓reduceIte, Res.ok.injEq] at hts a
    subst hts
    simp only
    have hsplit := (spec_write_split S _ _ _ _ _ _ a).1
    have hi := (C11.write_ok_ctl S hs p cap n hs' acc ev h).2.2.2.2.1
    have h1 : (absCS hs'.cs1).n = 0 := by rw [(Prod.mk.inj hsplit).1]
    have h2 : (absCS hs'.cs2).n = 0 := by rw [(Prod.mk.inj hsplit).2]
    have h3 : (absCS hs'.cs1).k.isSome = true := by rw [(Prod.mk.inj hsplit).1]; rfl
    have h4 : (absCS hs'.cs2).k.isSome = true := by rw [(Prod.mk.inj hsplit).2]; rfl
    refine ⟨hsplit, h1, h2, ?_, ?_, hi⟩
    · unfold absCS at h3; cases hk : hs'.cs1.hasKey <;> simp_all
    · unfold absCS at h4; cases hk : hs'.cs2.hasKey <;> simp_all

theorem transport_keys_after_read (S : Suite) (hL : S.HashLen) (hS : S.Sizes) (hD : S.DecLen) (hs : HS)
    (hck : hs.sym.ck.length = S.hashLen) (hside : SideOk hs)
    (m : Bytes) (cap : Nat) (pl : Bytes) (hs' : HS) (buf : Bytes) (ev : List Event)
    (h : hs.readMessage S m cap = (.ok pl, hs', buf, ev)) (ts : TS) (hts : TS.ofHandshake S hs' = .ok ts) :
    (absCS ts.cs1, absCS ts.cs2) = (absHS hs').ss.split S ∧
    ts.cs1.n = 0 ∧ ts.cs2.n = 0 ∧ ts.cs1.hasKey = true ∧ ts.cs2.hasKey = true ∧
    ts.initiator = hs.initiator := by
  obtain ⟨sp', a, ⟨rfl, _⟩, _⟩ := read_refines_spec S hL hS hD hs _ ⟨rfl, hck⟩ hside m cap pl hs' buf ev h
  unfold TS.ofHandshake at hts
  cases hfin : hs'.isHandshakeFinished with
  | false => simp [hfin] at hts
  | true =>
    simp only [hfin, Bool.not_true, Bool.false_eq_true, ↓reduceIte, Res.ok.injEq] at hts a
    subst hts
    simp only
    have hsplit := (spec_read_split S _ _ _ _ _ a).1
    have hi := (C11.read_ok_ctl S hs m cap pl hs' buf ev h).2.2.2.2.2.1
    have h1 : (absCS hs'.cs1).n = 0 := by rw [(Prod.mk.inj hsplit).1]
    have h2 : (absCS hs'.cs2).n = 0 := by rw [(Prod.mk.inj hsplit).2]
    have h3 : (absCS hs'.cs1).k.isSome = true := by rw [(Prod.mk.inj hsplit).1]; rfl
    have h4 : (absCS hs'.cs2).k.isSome = true := by rw [(Prod.mk.inj hsplit).2]; rfl
    refine ⟨hsplit, h1, h2, ?_, ?_, hi⟩
    · unfold absCS at h3; cases hk : hs'.cs1.hasKey <;> simp_all
    · unfold absCS at h4; cases hk : hs'.cs2.hasKey <;> simp_all

/-- **transport_refines_spec (write).** A successful `TransportState::write_message` of the
    initiator is `EncryptWithAd(zerolen, payload)` = `ENCRYPT(k, n++, "", payload)` on the FIRST
    cipher state, of the responder on the SECOND; the other cipher state is untouched; the key
    is non-empty (a real encryption, never the identity). With the previous theorem: `n` counts
    from 0 and the keys are `Split()`'s. -/
theorem transport_write_refines_spec (S : Suite) (ts : TS) (p : Bytes) (cap : Nat) (c : Bytes) (ts' : TS)
    (ev : List Event) (h : ts.writeMessage S p cap = (.ok c, ts', ev)) :
    (Spec.CipherState.encryptWithAd S (absCS (if ts.initiator then ts.cs1 else ts.cs2)) [] p =
      (c, absCS (if ts.initiator then ts'.cs1 else ts'.cs2))) ∧
    (absCS (if ts.initiator then ts.cs1 else ts.cs2)).k = some (if ts.initiator then ts.cs1 else ts.cs2).key ∧
    c = S.enc (if ts.initiator then ts.cs1 else ts.cs2).key (if ts.initiator then ts.cs1 else ts.cs2).n [] p ∧
    (if ts.initiator then ts'.cs1 else ts'.cs2).n = (if ts.initiator then ts.cs1 else ts.cs2).n + 1 ∧
    (if ts.initiator then ts'.cs2 else ts'.cs1) = (if ts.initiator then ts.cs2 else ts.cs1) ∧
    ts'.initiator = ts.initiator := by
  rw [TS.writeMessage_eq] at h
  by_cases h1 : (!ts.initiator && ts.oneway) = true
  · simp [h1] at h
  · by_cases h2 : (decide (p.length + 16 > 65535) || decide (p.length + 16 > cap)) = true
    · simp only [h1, h2, ↓reduceIte, Bool.false_eq_true, Prod.mk.injEq, reduceCtorEq, false_and] at h
    · simp only [h1, h2, ↓reduceIte, Bool.false_eq_true, Prod.mk.injEq] at h
      obtain ⟨hc, hts, _⟩ := h
      have hx : ts.sendCs.encryptAd S [] p cap = (.ok c, (ts.sendCs.encryptAd S [] p cap).2.1,
          (ts.sendCs.encryptAd S [] p cap).2.2) := by rw [← hc]
      obtain ⟨hk, _, _, hcc, hcs, _⟩ := CipherState.encryptAd_ok hx
      subst hts
      have e1 : (if ts.initiator then ts.cs1 else ts.cs2) = ts.sendCs := rfl
      have e2 : (if (ts.withSend (ts.sendCs.encryptAd S [] p cap).2.1).initiator then
            (ts.withSend (ts.sendCs.encryptAd S [] p cap).2.1).cs1
          else (ts.withSend (ts.sendCs.encryptAd S [] p cap).2.1).cs2) =
          (ts.withSend (ts.sendCs.encryptAd S [] p cap).2.1).sendCs := rfl
      have e3 : (if ts.initiator then (ts.withSend (ts.sendCs.encryptAd S [] p cap).2.1).cs1
          else (ts.withSend (ts.sendCs.encryptAd S [] p cap).2.1).cs2) = (ts.sendCs.encryptAd S [] p cap).2.1 := by
        rw [← TS.initiator_withSend ts (ts.sendCs.encryptAd S [] p cap).2.1, e2, TS.sendCs_withSend]
      have e4 : (if ts.initiator then (ts.withSend (ts.sendCs.encryptAd S [] p cap).2.1).cs2
          else (ts.withSend (ts.sendCs.encryptAd S [] p cap).2.1).cs1) = (if ts.initiator then ts.cs2 else ts.cs1) := by
        have := TS.recvCs_withSend ts (ts.sendCs.encryptAd S [] p cap).2.1
        unfold TS.recvCs at this
        rw [TS.initiator_withSend] at this
        exact this
      rw [e1, e3, e4, hcs]
      refine ⟨?_, ?_, hcc, rfl, rfl, TS.initiator_withSend _ _⟩
      · simp only [Spec.CipherState.encryptWithAd, absCS, hk, ↓reduceIte, hcc]
      · simp only [absCS, hk, ↓reduceIte]

/-- **transport_refines_spec (read).** A successful `TransportState::read_message` of the
    initiator is `DecryptWithAd(zerolen, message)` on the SECOND cipher state, of the responder
    on the FIRST; the other one is untouched. -/
theorem transport_read_refines_spec (S : Suite) (ts : TS) (m : Bytes) (cap : Nat) (pl : Bytes) (ts' : TS)
    (buf : Bytes) (ev : List Event) (h : ts.readMessage S m cap = (.ok pl, ts', buf, ev)) :
    (Spec.CipherState.decryptWithAd S (absCS (if ts.initiator then ts.cs2 else ts.cs1)) [] m =
      some (pl, absCS (if ts.initiator then ts'.cs2 else ts'.cs1))) ∧
    (absCS (if ts.initiator then ts.cs2 else ts.cs1)).k = some (if ts.initiator then ts.cs2 else ts.cs1).key ∧
    (if ts.initiator then ts'.cs1 else ts'.cs2) = (if ts.initiator then ts.cs1 else ts.cs2) ∧
    ts'.initiator = ts.initiator := by
  rw [TS.readMessage_eq] at h
  by_cases h0 : m.length > 65535
  · simp [h0] at h
  · by_cases h1 : (ts.initiator && ts.oneway) = true
    · simp [h0, h1] at h
    · simp only [h0, h1, ↓reduceIte, Bool.false_eq_true, Prod.mk.injEq] at h
      obtain ⟨hc, hts, _, _⟩ := h
      have hx : ts.recvCs.decryptAd S [] m cap = (.ok pl, (ts.recvCs.decryptAd S [] m cap).2.1,
          (ts.recvCs.decryptAd S [] m cap).2.2.1, (ts.recvCs.decryptAd S [] m cap).2.2.2) := by rw [← hc]
      obtain ⟨_, _, hk, _, hd, hcs, _, _⟩ := CipherState.decryptAd_ok hx
      subst hts
      have e1 : (if ts.initiator then ts.cs2 else ts.cs1) = ts.recvCs := rfl
      have e3 : (if ts.initiator then (ts.withRecv (ts.recvCs.decryptAd S [] m cap).2.1).cs2
          else (ts.withRecv (ts.recvCs.decryptAd S [] m cap).2.1).cs1) = (ts.recvCs.decryptAd S [] m cap).2.1 := by
        have := TS.recvCs_withRecv ts (ts.recvCs.decryptAd S [] m cap).2.1
        unfold TS.recvCs at this
        rw [TS.initiator_withRecv] at this
        exact this
      have e4 : (if ts.initiator then (ts.withRecv (ts.recvCs.decryptAd S [] m cap).2.1).cs1
          else (ts.withRecv (ts.recvCs.decryptAd S [] m cap).2.1).cs2) = (if ts.initiator then ts.cs1 else ts.cs2) := by
        have := TS.sendCs_withRecv ts (ts.recvCs.decryptAd S [] m cap).2.1
        unfold TS.sendCs at this
        rw [TS.initiator_withRecv] at this
        exact this
      rw [e1, e3, e4, hcs]
      refine ⟨?_, ?_, rfl, TS.initiator_withRecv _ _⟩
      · simp only [Spec.CipherState.decryptWithAd, absCS, hk, ↓reduceIte, hd]
      · simp only [absCS, hk, ↓reduceIte]

/-- **Stateless transport** uses the caller's nonce: a successful
    `StatelessTransportState::write_message(nonce, payload)` is `ENCRYPT(k, nonce, "", payload)`
    with the key of the first cipher state for the initiator, of the second for the responder
    (i.e. `EncryptWithAd` on that CipherState with `n` set to the caller's nonce); a successful
    `read_message(nonce, message)` is the corresponding `DECRYPT` with the other key. -/
theorem stateless_refines_spec (S : Suite) (ts : TS) (n : UInt64) :
    (∀ p cap c ev, ts.stWrite S n p cap = (.ok c, ev) →
      (Spec.CipherState.encryptWithAd S { absCS (if ts.initiator then ts.cs1 else ts.cs2) with n := n } [] p).1 = c ∧
      c = S.enc (if ts.initiator then ts.cs1 else ts.cs2).key n [] p) ∧
    (∀ m cap pl buf ev, ts.stRead S n m cap = (.ok pl, buf, ev) →
      (Spec.CipherState.decryptWithAd S { absCS (if ts.initiator then ts.cs2 else ts.cs1) with n := n } [] m).map (·.1)
        = some pl ∧
      S.dec (if ts.initiator then ts.cs2 else ts.cs1).key n [] m = some pl) := by
  constructor
  · intro p cap c ev h
    unfold TS.stWrite at h
    by_cases h1 : (!ts.initiator && ts.oneway) = true
    · simp [h1] at h
    · by_cases h2 : (decide (p.length + 16 > 65535) || decide (p.length + 16 > cap)) = true
      · simp only [h1, h2, ↓reduceIte, Bool.false_eq_true, Prod.mk.injEq, reduceCtorEq, false_and] at h
      · simp only [h1, h2, ↓reduceIte, Bool.false_eq_true] at h
        obtain ⟨_, hc⟩ := TS.stEncrypt_ok h
        refine ⟨?_, hc⟩
        cases hk : (if ts.initiator then ts.cs1 else ts.cs2).hasKey with
        | false => unfold TS.stEncrypt at h; simp [hk] at h
        | true => simp only [Spec.CipherState.encryptWithAd, absCS, hk, ↓reduceIte, hc]
  · intro m cap pl buf ev h
    unfold TS.stRead at h
    by_cases h0 : m.length > 65535
    · simp [h0] at h
    · by_cases h1 : (ts.initiator && ts.oneway) = true
      · simp [h0, h1] at h
      · simp only [h0, h1, ↓reduceIte, Bool.false_eq_true] at h
        unfold TS.stDecrypt at h
        by_cases g1 : (decide (m.length < 16) || decide (cap < m.length - 16)) = true
        · simp [g1] at h
        · simp only [g1, Bool.false_eq_true, ↓reduceIte] at h
          cases hk : (if ts.initiator then ts.cs2 else ts.cs1).hasKey with
          | false => simp [hk] at h
          | true =>
            simp only [hk, Bool.not_true, Bool.false_eq_true, ↓reduceIte] at h
            by_cases g2 : (n == CipherState.nonceMax) = true
            · simp [g2] at h
            · simp only [g2, Bool.false_eq_true, ↓reduceIte] at h
              cases hd : S.dec (if ts.initiator then ts.cs2 else ts.cs1).key n [] m with
              | none => simp [hd] at h
              | some q =>
                simp only [hd, Prod.mk.injEq, Res.ok.injEq] at h
                obtain ⟨rfl, _, _⟩ := h
                refine ⟨?_, rfl⟩
                simp only [Spec.CipherState.decryptWithAd, absCS, hk, ↓reduceIte, hd, Option.map_some]

/-- **Rekey** is the specification's `Rekey()`: `k = REKEY(k)` = the first 32 bytes of
    `ENCRYPT(k, 2^64-1, zerolen, zeros)` (C18 `rekey_eq_spec`), nonce untouched; at the transport
    level `rekey_outgoing` rekeys the sending CipherState, `rekey_incoming` the receiving one
    (C15), the other one is untouched. -/
theorem rekey_refines_spec (S : Suite) (cs : Model.CipherState) (ts : TS) :
    absCS (cs.rekey S).1 = (absCS cs).rekey S ∧
    absCS (ts.rekeyOutgoing S).1.sendCs = (absCS ts.sendCs).rekey S ∧
    (ts.rekeyOutgoing S).1.recvCs = ts.recvCs ∧
    absCS (ts.rekeyIncoming S).1.recvCs = (absCS ts.recvCs).rekey S ∧
    (ts.rekeyIncoming S).1.sendCs = ts.sendCs := by
  have key : ∀ cs : Model.CipherState, absCS (cs.rekey S).1 = (absCS cs).rekey S := by
    intro cs
    unfold absCS Spec.CipherState.rekey CipherState.rekey
    simp only
    cases cs.hasKey <;> simp [C18.rekey_eq_spec]
  have k2 : ∀ a b : Model.CipherState, a.key = Spec.rekey S b.key → a.n = b.n → a.hasKey = b.hasKey →
      absCS a = (absCS b).rekey S := by
    intro a b h1 h2 h3
    unfold absCS Spec.CipherState.rekey
    simp only [h1, h2, h3]
    cases b.hasKey <;> simp
  obtain ⟨o1, o2, o3, _, _, o6⟩ := C15.rekey_outgoing_spec S ts
  obtain ⟨i1, i2, i3, _, _, i6⟩ := C15.rekey_incoming_spec S ts
  exact ⟨key cs, k2 _ _ o1 o2 o6, o3, k2 _ _ i1 i2 i6, i3⟩

/-! ## 6. `Builder::build` is `Initialize` -/

/-- **build_refines_initialize.** The state a successful `Builder::build` returns is related to
    the specification's `Initialize(handshake_pattern, initiator, prologue, s, e, rs, re)` with:
    the protocol name as given, the prologue, the pattern instance `HandshakeTokens::try_from`
    computed for (pattern, modifiers) (which is the specification's pattern with the `pskN`
    modifiers placed: `C01Patterns.handshakeTokens_ok_iff`), `s` the configured static key pair,
    `e` and `re` empty, `rs` the configured remote static key, the configured psks:
    `InitializeSymmetric(name)`, `MixHash(prologue)`, then `MixHash` of each pre-message public
    key, initiator's first. In particular `pos = 0` and nothing is keyed. -/
theorem build_refines_initialize (S : Suite) (hL : S.HashLen) (av : Avail) (c : BuildCfg) (hs : HS)
    (h : build S av c = .ok hs) :
    ∃ inst sp, handshakeTokens c.pattern c.mods = .ok inst ∧
      Spec.HandshakeState.init S c.name c.prologue inst (isPskMods c.mods) c.initiator
        (c.s.map fun k => ({ priv := k, pub := S.pubOf k } : Spec.KeyPair)) none c.rs none c.psks = some sp ∧
      Refines S hs sp := by
  have hi := C12.build_initial_state S av c hs h
  have htok := hi.2.2.2.1
  have hb := builtState_abs S av c hs h
  have hpsk : hs.isPsk = isPskMods c.mods := by
    rw [Lemmas.C12.build_ok_state S av c hs h]; rfl
  rw [hpsk] at hb
  exact ⟨_, _, htok, hb, rfl, built_ck S hL av c hs h⟩

/-! ## 7. Non-vacuity: concrete runs with the toy suite -/

namespace Ex
open SnowVerif.Theorems.C14.Ex

/-- XX, message 1 (`-> e`) with a 3-byte payload, computed by the model (initiator `i0` of C14's
    examples: a state `Builder::build` returns) and by the specification: same bytes, related
    successor, no split yet. -/
def xw1 := i0.writeMessage S0 [1, 2, 3] 1000

example : xw1.1 = .ok 35 := by decide +kernel

example : Spec.HandshakeState.writeMessage S0 (absHS i0) [1, 2, 3] (absKP xw1.2.1.e.val) =
    some (xw1.2.2.1, absHS xw1.2.1, none) := by decide +kernel

/-- The hypotheses of `write_refines_spec` hold of `i0`. -/
example : Refines S0 i0 (absHS i0) ∧ SideOk i0 :=
  ⟨⟨rfl, by show i0.sym.ck.length = S0.hashLen; decide +kernel⟩, by decide +kernel, by decide +kernel⟩

/-- The responder reads it: the specification accepts the same message and returns the same
    payload. -/
def xr1 := r0.readMessage S0 xw1.2.2.1 1000

example : Spec.HandshakeState.readMessage S0 (absHS r0) xw1.2.2.1 = some ([1, 2, 3], absHS xr1.2.1, none) := by
  decide +kernel

/-- States in the middle of an XX handshake, written down directly (the theorems hold for all
    states, reachable or not; starting here keeps each evaluation short): the responder before
    message 2 and the initiator before reading it, with the same `h`/`ck` and matching keys. -/
def symMid : Sym :=
  { cs := CipherState.new, h := List.replicate 32 0x11, ck := List.replicate 32 0x22, hasKey := false, k := none }

def kp (b : UInt8) : Model.KeyPair := { priv := List.replicate 32 b, pub := S0.pubOf (List.replicate 32 b) }

def rMid : HS :=
  { r0 with sym := symMid, s := { val := kp 2, on := true }, re := { val := (kp 4).pub, on := true },
            myTurn := true, pos := 1 }

def iMid : HS :=
  { i0 with sym := symMid, s := { val := kp 1, on := true }, e := { val := kp 4, on := true },
            myTurn := false, pos := 1 }

/-- XX, message 2 (`<- e, ee, s, es`: every kind of token but `psk`, an encrypted static key and
    an encrypted payload), written by the responder: byte for byte the specification's (`m2`, 98
    bytes; written out so that the read below does not re-evaluate it). -/
def xw2 := rMid.writeMessage S0 [4, 5] 1000

def m2 : Bytes :=
  [37, 34, 43, 16, 25, 6, 15, 116, 125, 122, 99, 104, 81, 94, 71, 76, 181, 178, 187, 160, 169, 150, 159, 132,
   141, 138, 243, 248, 225, 238, 215, 220, 197, 236, 205, 165, 145, 88, 80, 180, 171, 111, 46, 197, 92, 130, 0,
   251, 70, 74, 214, 174, 241, 132, 125, 156, 181, 100, 226, 190, 213, 182, 172, 118, 225, 32, 112, 97, 64, 44,
   237, 42, 238, 131, 12, 121, 100, 141, 9, 174, 54, 15, 253, 216, 84, 155, 11, 34, 66, 9, 27, 37, 12, 141, 230,
   37, 8, 7]

example : xw2.1 = .ok 98 ∧ xw2.2.1.wasWritePayloadEncrypted = true := by decide +kernel

example : xw2.2.2.1 = m2 := by decide +kernel

example : (Spec.HandshakeState.writeMessage S0 (absHS rMid) [4, 5] (absKP xw2.2.1.e.val)).map (·.1) = some m2 := by
  decide +kernel

/-- The initiator reads it: the specification accepts the same message, decrypts the same static
    key and the same payload, and ends in the abstraction of snow's successor state. -/
def xr2 := iMid.readMessage S0 m2 1000

example : xr2.1 = .ok [4, 5] := by decide +kernel

example : Spec.HandshakeState.readMessage S0 (absHS iMid) m2 = some ([4, 5], absHS xr2.2.1, none) := by
  decide +kernel

/-- XX, message 3 (`-> s, se`), the last one, from a keyed initiator state: the specification
    returns `Split()`, and snow's two transport cipher states are that pair, in that order. -/
def iLast : HS :=
  { iMid with sym := { cs := { key := List.replicate 32 0x33, n := 0, hasKey := true }, h := List.replicate 32 0x11,
                       ck := List.replicate 32 0x22, hasKey := true, k := some (List.replicate 32 0x33) },
              rs := { val := (kp 2).pub, on := true }, re := { val := (kp 9).pub, on := true },
              myTurn := true, pos := 2 }

def xw3 := iLast.writeMessage S0 [6] 1000

example : xw3.1 = .ok 65 ∧ xw3.2.1.isHandshakeFinished = true := by decide +kernel

example : Spec.HandshakeState.writeMessage S0 (absHS iLast) [6] (absKP xw3.2.1.e.val) =
    some (xw3.2.2.1, absHS xw3.2.1, some (absCS xw3.2.1.cs1, absCS xw3.2.1.cs2)) := by decide +kernel

/-- The transport state of the initiator after the handshake, and its first transport message:
    `ENCRYPT(k1, 0, "", payload)` with `k1` the first key of the specification's `Split()`. -/
def tsI : TS :=
  { cs1 := xw3.2.1.cs1, cs2 := xw3.2.1.cs2, oneway := false, pubLen := 32, rs := xw3.2.1.rs, initiator := true }

example : TS.ofHandshake S0 xw3.2.1 = .ok tsI := by decide +kernel

example : (tsI.writeMessage S0 [7, 7, 7] 100).1 =
    .ok (S0.enc (((absHS xw3.2.1).ss.split S0).1.k.getD []) 0 [] [7, 7, 7]) := by decide +kernel

/-- `i0` is what `Builder::build` returns for this configuration, so `build_refines_initialize`,
    `sideOk_reachable` and the `_reachable` headlines apply to it with the toy suite (whose hash
    satisfies `HashLen` and `Sizes`, C18). -/
def cfgI : BuildCfg :=
  { pattern := .pXX, mods := [], name := [78, 111, 105, 115, 101], initiator := true,
    s := some (List.replicate 32 1), eFixed := none, rs := none, psks := List.replicate 10 none,
    prologue := [], rng := List.replicate 32 7 }

theorem build_i0 : build S0 ⟨true, true, true, true⟩ cfgI = .ok i0 := by decide +kernel

example : ∃ inst sp, handshakeTokens cfgI.pattern cfgI.mods = .ok inst ∧
    Spec.HandshakeState.init S0 cfgI.name cfgI.prologue inst (isPskMods cfgI.mods) cfgI.initiator
      (cfgI.s.map fun k => ({ priv := k, pub := S0.pubOf k } : Spec.KeyPair)) none cfgI.rs none cfgI.psks = some sp ∧
    Refines S0 i0 sp :=
  build_refines_initialize S0 (C18.toy_suite_hashLen 0 0 0) _ cfgI i0 build_i0

/-- `write_refines_spec_reachable` instantiated: the first message of the built initiator. -/
example : Spec.HandshakeState.writeMessage S0 (absHS i0) [1, 2, 3] ⟨xw1.2.1.e.val.priv, xw1.2.1.e.val.pub⟩ =
    some (xw1.2.2.1, absHS xw1.2.1,
      if xw1.2.1.isHandshakeFinished then some (absCS xw1.2.1.cs1, absCS xw1.2.1.cs2) else none) :=
  (write_refines_spec_reachable S0 (C18.toy_suite_hashLen 0 0 0) (C18.toy_suite_sizes 0 0 0) _ cfgI i0 build_i0 []
    (by intro pre op post h; cases pre <;> simp at h) [1, 2, 3] 1000 35 xw1.2.1 xw1.2.2.1 xw1.2.2.2
    (by decide +kernel)).1

/-- NNpsk0 (`-> psk, e`): the first message goes through the tolerated transient state (after
    `psk`, before `e`) and is byte for byte the specification's; the payload is encrypted on both
    sides. -/
def nnpsk0 : HS :=
  { i0 with isPsk := true, msgs := [[.psk 0, .e], [.e, .ee]],
            psks := (List.replicate 10 none).set 0 (some (List.replicate 32 5)) }

def wp := nnpsk0.writeMessage S0 [9, 9] 1000

example : wp.1 = .ok 50 ∧ wp.2.1.wasWritePayloadEncrypted = true := by decide +kernel

example : SideOk nnpsk0 := ⟨by decide, by decide⟩

example : Spec.HandshakeState.writeMessage S0 (absHS nnpsk0) [9, 9] (absKP wp.2.1.e.val) =
    some (wp.2.2.1, absHS wp.2.1, none) := by decide +kernel

/-- **The wrinkle is real, and `PskOk` is the condition that excludes it**: on the (non-table)
    message pattern `psk, s` in an un-keyed state, snow sends the static key in clear where the
    specification encrypts it; the side condition fails there. -/
def bad : HS := { nnpsk0 with msgs := [[.psk 0, .s]] }

theorem wrinkle_is_real :
    PskOk bad.isPsk (bad.msgs.getD bad.pos []) bad.sym.hasKey = false ∧
    (bad.writeMessage S0 [] 1000).1 = .ok 32 ∧
    (Spec.HandshakeState.writeMessage S0 (absHS bad) [] (absKP bad.e.val)).map (·.1.length) = some 64 := by
  decide +kernel

end Ex

end SnowVerif.Theorems.C01
