/-
  C12 / C10, the builder's public API (`Model/BuilderApi.lean`): setters and `generate_keypair`.

  * the setters never panic; a chain of setter calls fails exactly at the first call that sets a
    parameter a second time (`ParameterOverwrite`) or names a psk position above 9
    (`ValidatePskPosition`), and then nothing is built;
  * whatever the calls, the psk table keeps its ten slots — the well-formedness condition
    `c.psks.length = 10` that C10 / C01Complete / C07Reach assume of a `BuildCfg` holds for every
    configuration that can be produced through the API;
  * `generate_keypair` never fails once RNG and DH resolve, returns `priv_len` random bytes and the
    matching public key of `pub_len` bytes, and panics only where `Dh::generate` rejects the draw
    (P-256: known finding KF1; never for X25519).
-/
import SnowVerif.Model.BuilderApi
import SnowVerif.Theorems.C10

namespace SnowVerif.Theorems.C12Api
open SnowVerif SnowVerif.Model SnowVerif.Bytes
set_option linter.unusedVariables false
set_option linter.unusedSimpArgs false

theorem length_fit' (n : Nat) (b : Bytes) : (fit n b).length = n := by
  simp only [fit, zeros, List.length_take, List.length_append, List.length_replicate]; omega

/-- No setter panics. -/
theorem apply_total (b : BuilderSt) (x : Setter) : (b.apply x).isPanic = false := by
  cases x <;> simp only [BuilderSt.apply] <;> (repeat' split) <;> rfl

/-- A setter keeps the ten psk slots. -/
theorem apply_psks_length (b b' : BuilderSt) (x : Setter) (h : b.apply x = .ok b') (hl : b.psks.length = 10) :
    b'.psks.length = 10 := by
  cases x with
  | psk loc key =>
    simp only [BuilderSt.apply] at h
    split at h
    · cases h
    · split at h
      · cases h
      · cases h; simp [hl]
  | localPrivateKey k => simp only [BuilderSt.apply] at h; split at h <;> cases h; exact hl
  | fixedEphemeral k => simp only [BuilderSt.apply] at h; cases h; exact hl
  | prologue p => simp only [BuilderSt.apply] at h; split at h <;> cases h; exact hl
  | remotePublicKey k => simp only [BuilderSt.apply] at h; split at h <;> cases h; exact hl

/-- **No chain of setter calls panics.** -/
theorem configure_total (b : BuilderSt) (xs : List Setter) : (b.configure xs).isPanic = false := by
  induction xs generalizing b with
  | nil => rfl
  | cons x xs ih =>
    simp only [BuilderSt.configure]
    have := apply_total b x
    cases h : b.apply x with
    | ok b' => exact ih b'
    | err e => rfl
    | panic p => rw [h] at this; cases this

/-- **Every configuration produced through the API has ten psk slots.** -/
theorem configure_psks_length (b b' : BuilderSt) (xs : List Setter) (h : b.configure xs = .ok b')
    (hl : b.psks.length = 10) : b'.psks.length = 10 := by
  induction xs generalizing b with
  | nil => simp only [BuilderSt.configure] at h; cases h; exact hl
  | cons x xs ih =>
    simp only [BuilderSt.configure] at h
    cases hx : b.apply x with
    | ok b1 => rw [hx] at h; exact ih b1 h (apply_psks_length b b1 x hx hl)
    | err e => rw [hx] at h; cases h
    | panic p => rw [hx] at h; cases h

theorem new_psks_length : BuilderSt.new.psks.length = 10 := by simp [BuilderSt.new]

/-- The configuration handed to `build` after any successful chain of setter calls on a fresh
    builder satisfies `psks.length = 10`. -/
theorem cfg_psks_length (xs : List Setter) (b : BuilderSt) (h : BuilderSt.new.configure xs = .ok b)
    (pattern : Generated.Pattern) (mods : List Modifier) (name : Bytes) (initiator : Bool) (rng : Bytes) :
    (b.toCfg pattern mods name initiator rng).psks.length = 10 :=
  configure_psks_length _ _ xs h new_psks_length

/-- Which single setter calls fail, and how. -/
theorem apply_err_iff (b : BuilderSt) (x : Setter) (e : Err) :
    b.apply x = .err e ↔
      (match x with
       | .psk loc _ => (10 ≤ loc ∧ e = .init .validatePskPosition) ∨
                       (loc < 10 ∧ (b.psks.getD loc none).isSome = true ∧ e = .init .parameterOverwrite)
       | .localPrivateKey _ => b.s.isSome = true ∧ e = .init .parameterOverwrite
       | .fixedEphemeral _ => False
       | .prologue _ => b.plog.isSome = true ∧ e = .init .parameterOverwrite
       | .remotePublicKey _ => b.rs.isSome = true ∧ e = .init .parameterOverwrite) := by
  cases x with
  | psk loc key =>
    simp only [BuilderSt.apply]
    by_cases c1 : loc ≥ 10
    · rw [if_pos c1]
      constructor
      · intro h; cases h; exact Or.inl ⟨c1, rfl⟩
      · rintro (⟨_, h⟩ | ⟨h, _⟩)
        · rw [h]
        · omega
    · rw [if_neg c1]
      by_cases c2 : (b.psks.getD loc none).isSome = true
      · rw [if_pos c2]
        constructor
        · intro h; cases h; exact Or.inr ⟨by omega, c2, rfl⟩
        · rintro (⟨h, _⟩ | ⟨_, _, h⟩)
          · omega
          · rw [h]
      · rw [if_neg c2]
        constructor
        · intro h; cases h
        · rintro (⟨h, _⟩ | ⟨_, h, _⟩)
          · omega
          · exact absurd h c2
  | localPrivateKey k =>
    simp only [BuilderSt.apply]
    by_cases c : b.s.isSome = true
    · simp [c]; exact ⟨fun h => h.symm, fun h => h.symm⟩
    · simp [c]
  | fixedEphemeral k => simp [BuilderSt.apply]
  | prologue p =>
    simp only [BuilderSt.apply]
    by_cases c : b.plog.isSome = true
    · simp [c]; exact ⟨fun h => h.symm, fun h => h.symm⟩
    · simp [c]
  | remotePublicKey k =>
    simp only [BuilderSt.apply]
    by_cases c : b.rs.isSome = true
    · simp [c]; exact ⟨fun h => h.symm, fun h => h.symm⟩
    · simp [c]

/-! ### `generate_keypair` -/

/-- `generate_keypair` fails only because the RNG or the DH does not resolve (in that order). -/
theorem generateKeypair_err_iff (S : Suite) (av : Avail) (rng : Bytes) (e : Err) :
    generateKeypair S av rng = .err e ↔
      (av.rng = false ∧ e = .init .getRngImpl) ∨ (av.rng = true ∧ av.dh = false ∧ e = .init .getDhImpl) := by
  unfold generateKeypair
  cases h1 : av.rng <;> cases h2 : av.dh <;> simp <;> first | exact ⟨fun h => h.symm, fun h => h.symm⟩ | (split <;> simp)

/-- With RNG and DH resolved and a DH that accepts every draw (`PrivTotal`: X25519), it returns
    the first `priv_len` bytes of the random stream and their public key. -/
theorem generateKeypair_ok (S : Suite) (hpt : S.PrivTotal) (av : Avail) (rng : Bytes) (h1 : av.rng = true) (h2 : av.dh = true) :
    generateKeypair S av rng = .ok (fit S.privLen rng, S.pubOf (fit S.privLen rng)) := by
  unfold generateKeypair rngDraw
  simp [h1, h2, hpt _]

/-- Never a panic for a DH that accepts every draw. -/
theorem generateKeypair_total (S : Suite) (hpt : S.PrivTotal) (av : Avail) (rng : Bytes) :
    (generateKeypair S av rng).isPanic = false := by
  unfold generateKeypair
  simp only [hpt _, ↓reduceIte]
  repeat' split
  all_goals rfl

/-- The pair is consistent and has the DH's lengths: the private key has `priv_len` bytes, the
    public key is `pubOf` of it and has `pub_len` bytes. -/
theorem generateKeypair_consistent (S : Suite) (hpl : S.PubLen) (av : Avail) (rng priv pub : Bytes)
    (h : generateKeypair S av rng = .ok (priv, pub)) :
    pub = S.pubOf priv ∧ priv.length = S.privLen ∧ pub.length = S.pubLen ∧ priv = fit S.privLen rng ∧
    S.validPriv priv = true := by
  unfold generateKeypair rngDraw at h
  by_cases c1 : (!av.rng) = true
  · rw [if_pos c1] at h; cases h
  · rw [if_neg c1] at h
    by_cases c2 : (!av.dh) = true
    · rw [if_pos c2] at h; cases h
    · rw [if_neg c2] at h
      by_cases hv : S.validPriv (fit S.privLen rng) = true
      · simp only [hv, ↓reduceIte, Res.ok.injEq, Prod.mk.injEq] at h
        obtain ⟨rfl, rfl⟩ := h
        exact ⟨rfl, length_fit' _ _, hpl _, rfl, hv⟩
      · simp only [hv, Bool.false_eq_true, ↓reduceIte] at h
        cases h

/-- It panics exactly when `Dh::generate` rejects the draw (P-256 with a scalar outside [1, n-1]). -/
theorem generateKeypair_panic_iff (S : Suite) (av : Avail) (rng : Bytes) :
    (generateKeypair S av rng).isPanic = true ↔
      av.rng = true ∧ av.dh = true ∧ S.validPriv (fit S.privLen rng) = false := by
  unfold generateKeypair rngDraw
  cases h1 : av.rng <;> cases h2 : av.dh <;> simp [Res.isPanic]
  cases hv : S.validPriv (fit S.privLen rng) <;> simp

/-- A generated static key is accepted by `build` as a local private key: the key-length check and
    the validity check of `build` pass for it. -/
theorem generated_key_is_buildable (S : Suite) (hpl : S.PubLen) (av : Avail) (rng priv pub : Bytes)
    (h : generateKeypair S av rng = .ok (priv, pub)) :
    (priv.length != S.privLen) = false ∧ (!S.validPriv priv) = false := by
  obtain ⟨_, hl, _, _, hv⟩ := generateKeypair_consistent S hpl av rng priv pub h
  simp [hl, hv]

/-! ### Non-vacuity -/

example : BuilderSt.new.configure [.psk 3 [1], .localPrivateKey [2], .psk 3 [4]] = .err (.init .parameterOverwrite) := by
  decide
example : BuilderSt.new.configure [.psk 10 [1]] = .err (.init .validatePskPosition) := by decide
example : (BuilderSt.new.configure [.psk 9 [1], .prologue [], .remotePublicKey [5]]).isOk = true := by decide

end SnowVerif.Theorems.C12Api
