/-
  C01 (handshake-pattern part)  Wire-level conformance to Noise revision 34:
  snow's token table and its `psk` modifier code agree with the specification.

  * `Spec/Patterns.lean` is a transcription of sections 7.4, 7.5, 7.6 keyed by pattern
    name, together with a generator that derives every pattern from the meaning of the
    letters of its name; `Spec/Validity.lean` has the validity rules of sections 7.3 and
    9.3 and the `pskN` placement rule of section 9.4.
  * `Generated.Pattern.tokens` is regenerated from snow's code on every run: every theorem
    about it below is proved by complete case analysis over `Generated.Pattern`, so a
    changed, added or removed table row breaks the build.
  * `Model.applyModifiers` (the model of `apply_psk_modifier` and the modifier loop of
    `HandshakeTokens::try_from`) is compared with the specification for ALL instances and
    ALL modifier lists, by induction.
-/
import SnowVerif.Spec.Patterns
import SnowVerif.Lemmas.C01Patterns

namespace SnowVerif.Theorems.C01Patterns
open SnowVerif SnowVerif.Generated SnowVerif.Lemmas.C01Patterns
set_option linter.unusedVariables false
set_option linter.unusedSimpArgs false

/-! ## 1. snow's table is the specification's table -/

/-- `SUPPORTED_HANDSHAKE_PATTERNS` lists every pattern. -/
theorem all_mem : ∀ p : Pattern, p ∈ allPatterns := by
  intro p; cases p <;> decide

/-- For each of snow's patterns, the specification defines a pattern of that name, and snow's
    initiator pre-message, responder pre-message and message token lists are exactly the
    specification's. -/
theorem tokens_eq_spec : ∀ p : Pattern, Spec.pattern p.name = some p.tokens := by
  intro p; cases p <;> rfl

/-- The three components separately (pre-messages and messages). -/
theorem premessages_eq_spec (p : Pattern) :
    (Spec.pattern p.name).map (·.preI) = some p.tokens.preI ∧
    (Spec.pattern p.name).map (·.preR) = some p.tokens.preR ∧
    (Spec.pattern p.name).map (·.msgs) = some p.tokens.msgs := by
  rw [tokens_eq_spec]; exact ⟨rfl, rfl, rfl⟩

/-- Every pattern the specification defines (sections 7.4 to 7.6) is one of snow's patterns. -/
theorem names_cover : ∀ n ∈ Spec.names, ∃ p : Pattern, p.name = n := by
  have h : Spec.names.all (fun n => allPatterns.any fun p => p.name == n) = true := by decide
  intro n hn
  have := List.all_eq_true.mp h n hn
  obtain ⟨p, _, hp⟩ := List.any_eq_true.mp this
  exact ⟨p, by simpa using hp⟩

/-- 38 = 38, without repetition on either side: pattern names are in one-to-one correspondence. -/
theorem names_count :
    Spec.table.length = 38 ∧ allPatterns.length = 38 ∧ Spec.names.Nodup ∧
    (allPatterns.map Pattern.name).Nodup := by
  refine ⟨by decide, by decide, by decide, by decide⟩

/-- The specification's table has nothing but snow's rows: whatever the specification defines
    under a name is the token table of snow's pattern of that name. -/
theorem spec_eq_tokens (name : String) (i : Inst) (h : Spec.pattern name = some i) :
    ∃ p : Pattern, p.name = name ∧ p.tokens = i := by
  have hall : Spec.table.all (fun r => allPatterns.any fun p => p.name == r.1 && p.tokens == r.2) = true := by
    decide
  have hmem : (name, i) ∈ Spec.table := by
    unfold Spec.pattern at h
    generalize Spec.table = t at h
    induction t with
    | nil => simp [List.lookup] at h
    | cons r t ih =>
      obtain ⟨a, b⟩ := r
      simp only [List.lookup] at h
      split at h
      · rename_i heq
        simp only [beq_iff_eq] at heq
        simp only [Option.some.injEq] at h
        subst heq; subst h
        exact List.mem_cons_self
      · exact List.mem_cons_of_mem _ (ih h)
  have := List.all_eq_true.mp hall _ hmem
  obtain ⟨p, _, hp⟩ := List.any_eq_true.mp this
  simp only [Bool.and_eq_true, beq_iff_eq] at hp
  exact ⟨p, hp.1, hp.2⟩

/-! ## 2. The transcribed table equals the table generated from the names -/

/-- Each typed-in row is what the generator produces for that name ... -/
theorem spec_table_eq_generated_from_names :
    (∀ r ∈ Spec.table, Spec.genTable.lookup r.1 = some r.2) ∧
    (∀ r ∈ Spec.genTable, Spec.pattern r.1 = some r.2) ∧
    Spec.table.length = Spec.genTable.length := by
  refine ⟨by decide, by decide, by decide⟩

/-- ... in particular: for every interactive pattern name `a[1]b[1]` (12 fundamental, 23 deferred)
    the specification's listing is the one derived from the meaning of the letters and the
    deferral rule. -/
theorem spec_interactive_eq_gen (s : Spec.Shape) (h : s.wellNamed = true) :
    Spec.pattern s.name = some (Spec.gen s) := by
  obtain ⟨a, da, b, db⟩ := s
  cases a <;> cases da <;> cases b <;> cases db <;> first | rfl | (exact absurd h (by decide))

/-- The one-way patterns `N`, `K`, `X`. -/
theorem spec_oneway_eq_gen (a : Spec.OStatic) : Spec.pattern a.name = some (Spec.genOneway a) := by
  cases a <;> rfl

/-- snow's table row for the pattern named like the shape is the derived one. -/
theorem tokens_eq_gen (p : Pattern) (s : Spec.Shape) (h : s.wellNamed = true)
    (hn : p.name = s.name) : p.tokens = Spec.gen s := by
  have h1 := tokens_eq_spec p
  rw [hn, spec_interactive_eq_gen s h] at h1
  exact (Option.some.inj h1).symm

/-- Section 7.6 cross-check: every pattern performs the same DHs `ee, es, se` and transmits the same
    public keys in the same order as its fundamental counterpart (the name without the `1`s). -/
theorem deferred_same_dh_as_fundamental :
    ∀ r ∈ Spec.table, ∃ b, Spec.pattern (Spec.fundamentalName r.1) = some b ∧
      Spec.dhSetNoSs b = Spec.dhSetNoSs r.2 ∧ Spec.keysSent b = Spec.keysSent r.2 := by
  decide

/-! ## 3. Validity (sections 7.3 and 9.3) -/

/-- Every pattern of snow's table satisfies the validity rules of section 7.3 (and has between
    one and four messages). -/
theorem valid_all : ∀ p : Pattern, Spec.valid p.tokens = true := by
  intro p; cases p <;> decide

/-- In every pattern of snow's table the first message, and the second if there is one,
    starts with the sender's `e`. -/
theorem startsWithE_all : ∀ p : Pattern, Spec.startsWithE p.tokens = true := by
  intro p; cases p <;> decide

/-- The unmodified table contains no `psk` token. -/
theorem noPsk_all : ∀ p : Pattern, Spec.noPsk p.tokens = true := by
  intro p; cases p <;> decide

/-- Whatever token lists snow computes for a pattern and a modifier list (any length, repetitions
    allowed) satisfy the validity rules of section 7.3 and the psk rule of section 9.3. -/
theorem valid_psk (p : Pattern) (mods : List Modifier) (inst : Inst)
    (h : Model.handshakeTokens p mods = .ok inst) : Spec.valid inst = true := by
  unfold Model.handshakeTokens at h
  rw [model_applyModifiers_eq, spec_applyModifiers_eq] at h
  split at h
  · rename_i i' heq
    split at heq
    · simp only [Option.some.injEq] at heq
      simp only [Res.ok.injEq] at h
      subst h; subst heq
      exact valid_placed _ _ (valid_all p) (startsWithE_all p)
    · cases heq
  · cases h

/-- The validity predicate is not trivially true: it rejects patterns breaking each rule. -/
example : Spec.valid { preI := [], preR := [], msgs := [[.e, .es]] } = false := by decide        -- rule 1
example : Spec.valid { preI := [.s], preR := [], msgs := [[.e, .s], [.e, .ee]] } = false := by decide -- rule 2
example : Spec.valid { preI := [], preR := [], msgs := [[.e], [.e, .ee, .ee]] } = false := by decide  -- rule 3
example : Spec.valid { preI := [.s], preR := [.s], msgs := [[.e, .ss], [.e, .ee]] } = false := by decide -- rule 4
example : Spec.valid { preI := [], preR := [.s], msgs := [[.e, .es], [.e]] } = false := by decide   -- rule 4, responder
example : Spec.valid { preI := [], preR := [], msgs := [[.psk 0, .s]] } = false := by decide        -- 9.3
example : Spec.valid { preI := [], preR := [], msgs := [[.psk 0, .e], [.s]] } = false := by decide   -- 9.3, responder
example : Spec.valid { preI := [], preR := [], msgs := [] } = false := by decide

/-! ## 4. One-way patterns -/

/-- snow's `is_oneway` flag is set exactly for the patterns with a single message
    (section 7.4: `N`, `K`, `X`). -/
theorem oneway_eq_spec : ∀ p : Pattern, p.isOneway = (p.tokens.msgs.length == 1) := by
  intro p; cases p <;> rfl

/-- ... and these are the patterns the generator of one-way patterns produces. -/
theorem oneway_names (p : Pattern) :
    p.isOneway = ([Spec.OStatic.N, .K, .X].map Spec.OStatic.name).contains p.name := by
  cases p <;> decide

/-! ## 5. The modifier code, for all instances and all modifier lists -/

/-- snow's modifier loop, on any token lists and any list of modifiers, computes exactly the
    specification's `pskN` placement (section 9.4) whenever that is defined; where it is not, snow
    returns the pattern error of the first modifier that has no place (`InvalidPsk` for a `pskN`
    beyond the last message, `UnsupportedModifier` for `fallback`). It never panics. -/
theorem applyModifiers_eq_spec (inst : Inst) (mods : List Modifier) :
    Model.applyModifiers inst mods =
      match Spec.applyModifiers inst mods with
      | some i => .ok i
      | none => .err (.pattern (modProblem inst.msgs.length mods)) :=
  model_applyModifiers_eq mods inst

/-- The specification's placement is defined exactly when every modifier is a `pskN` with
    `N ≤ #messages` (and there is a message at all). -/
theorem spec_applyModifiers_defined (inst : Inst) (mods : List Modifier) :
    (Spec.applyModifiers inst mods).isSome = true ↔
      ∀ m ∈ mods, ∃ n, m = .psk n ∧ 1 ≤ inst.msgs.length ∧ n ≤ inst.msgs.length := by
  rw [spec_applyModifiers_eq]
  have : Spec.allFit inst.msgs.length mods = true ↔
      ∀ m ∈ mods, ∃ n, m = .psk n ∧ 1 ≤ inst.msgs.length ∧ n ≤ inst.msgs.length := by
    simp only [Spec.allFit, List.all_eq_true]
    constructor
    · intro h m hm
      have := h m hm
      cases m with
      | psk n => exact ⟨n, rfl, by simpa [Spec.fits] using this⟩
      | fallback => cases this
    · intro h m hm
      obtain ⟨n, rfl, h1, h2⟩ := h m hm
      simp [Spec.fits, h1, h2]
  rw [← this]
  split <;> simp [*]

/-- The sequential placement of the specification (and hence snow's) does not depend on the order
    of the modifiers: message `k` gets one `psk0` in front per `psk0` modifier (message 1 only)
    and one `psk(k)` at its end per `psk(k)` modifier; nothing else changes. -/
theorem applyModifiers_ok (inst : Inst) (mods : List Modifier)
    (h : ∀ m ∈ mods, ∃ n, m = .psk n ∧ 1 ≤ inst.msgs.length ∧ n ≤ inst.msgs.length) :
    Model.applyModifiers inst mods = .ok (Spec.placed inst mods) ∧
    Spec.applyModifiers inst mods = some (Spec.placed inst mods) := by
  have hs := (spec_applyModifiers_defined inst mods).mpr h
  rw [spec_applyModifiers_eq] at hs
  have hf : Spec.allFit inst.msgs.length mods = true := by
    cases hc : Spec.allFit inst.msgs.length mods <;> simp [hc] at hs ⊢
  rw [applyModifiers_eq_spec, spec_applyModifiers_eq, hf]
  exact ⟨rfl, rfl⟩

/-- The pattern error snow reports for a modifier that has no place. -/
def modErr : Modifier → PatternProblem
  | .fallback => .unsupportedModifier
  | .psk _ => .invalidPsk

theorem modProblem_first (len : Nat) (m : Modifier) (post : List Modifier) :
    ∀ pre : List Modifier, Spec.allFit len pre = true → Spec.allFit len [m] = false →
      modProblem len (pre ++ m :: post) = modErr m
  | [], _, hm => by
    cases m with
    | fallback => rfl
    | psk n =>
      have : Spec.fits len n = false := by simpa [Spec.allFit] using hm
      simp [modProblem, this, modErr]
  | .fallback :: pre, hp, _ => by simp [Spec.allFit] at hp
  | .psk n :: pre, hp, hm => by
    simp only [Spec.allFit, List.all_cons, Bool.and_eq_true] at hp
    simp only [List.cons_append, modProblem, hp.1, ↓reduceIte]
    exact modProblem_first len m post pre (by simpa [Spec.allFit] using hp.2) hm

/-- If some modifier has no place, snow fails with the error of the FIRST such modifier:
    `Pattern(InvalidPsk)` for `pskN` with `N > #messages`, `Pattern(UnsupportedModifier)` for
    `fallback`; and the specification defines no pattern either. -/
theorem applyModifiers_err (inst : Inst) (pre post : List Modifier) (m : Modifier)
    (hpre : ∀ x ∈ pre, ∃ n, x = .psk n ∧ 1 ≤ inst.msgs.length ∧ n ≤ inst.msgs.length)
    (hm : ¬ ∃ n, m = .psk n ∧ 1 ≤ inst.msgs.length ∧ n ≤ inst.msgs.length) :
    Model.applyModifiers inst (pre ++ m :: post) =
      .err (.pattern (modErr m)) ∧
    Spec.applyModifiers inst (pre ++ m :: post) = none := by
  have hnone : Spec.applyModifiers inst (pre ++ m :: post) = none := by
    cases hc : Spec.applyModifiers inst (pre ++ m :: post) with
    | none => rfl
    | some i =>
      have := (spec_applyModifiers_defined inst (pre ++ m :: post)).mp (by simp [hc]) m (by simp)
      exact absurd this hm
  have hpre' : Spec.allFit inst.msgs.length pre = true := by
    have := (spec_applyModifiers_defined inst pre).mpr hpre
    rw [spec_applyModifiers_eq] at this
    cases hc : Spec.allFit inst.msgs.length pre <;> simp [hc] at this ⊢
  have hm' : Spec.allFit inst.msgs.length [m] = false := by
    cases hc : Spec.allFit inst.msgs.length [m] with
    | false => rfl
    | true =>
      exfalso; apply hm
      cases m with
      | fallback => simp [Spec.allFit] at hc
      | psk n => exact ⟨n, rfl, by simpa [Spec.allFit, Spec.fits] using hc⟩
  rw [applyModifiers_eq_spec, hnone]
  simp only [modProblem_first _ m post pre hpre' hm', and_self]

/-- snow's `is_psk` is true exactly when some modifier is a `pskN`. -/
theorem isPskMods_iff (mods : List Modifier) :
    Model.isPskMods mods = true ↔ ∃ n, Modifier.psk n ∈ mods := by
  simp only [Model.isPskMods, List.any_eq_true]
  constructor
  · rintro ⟨m, hm, h⟩
    cases m with
    | psk n => exact ⟨n, hm⟩
    | fallback => cases h
  · rintro ⟨n, hn⟩
    exact ⟨_, hn, rfl⟩

/-- For a table pattern: `HandshakeTokens::try_from` succeeds exactly for lists of `pskN`
    modifiers with `N ≤ #messages`, and then yields the closed-form placement on the
    specification's pattern. -/
theorem handshakeTokens_ok_iff (p : Pattern) (mods : List Modifier) (inst : Inst) :
    Model.handshakeTokens p mods = .ok inst ↔
      (∀ m ∈ mods, ∃ n, m = .psk n ∧ n ≤ p.tokens.msgs.length) ∧
      inst = Spec.placed p.tokens mods := by
  have h1 : 1 ≤ p.tokens.msgs.length := by
    have := valid_all p
    simp only [Spec.valid, Bool.and_eq_true, decide_eq_true_eq] at this
    exact this.1.1.1
  unfold Model.handshakeTokens
  constructor
  · intro h
    have hd : (Spec.applyModifiers p.tokens mods).isSome = true := by
      rw [applyModifiers_eq_spec] at h
      cases hc : Spec.applyModifiers p.tokens mods with
      | none => rw [hc] at h; cases h
      | some i => rfl
    have hfit := (spec_applyModifiers_defined _ _).mp hd
    have := (applyModifiers_ok _ _ hfit).1
    rw [this] at h
    refine ⟨fun m hm => ?_, (Res.ok.inj h).symm⟩
    obtain ⟨n, hn, _, h2⟩ := hfit m hm
    exact ⟨n, hn, h2⟩
  · rintro ⟨hfit, rfl⟩
    refine (applyModifiers_ok _ _ fun m hm => ?_).1
    obtain ⟨n, hn, h2⟩ := hfit m hm
    exact ⟨n, hn, h1, h2⟩

/-! ## 6. In psk mode the `e` token comes right at the start -/

/-- Where `applyModifiers` can insert tokens, for a table pattern: message 1 becomes
    `psk0 .. psk0, e, ..` (one `psk0` per `psk0` modifier), message 2 (if any) still starts with `e`. -/
theorem first_messages_shape (p : Pattern) (mods : List Modifier) (inst : Inst)
    (h : Model.handshakeTokens p mods = .ok inst) :
    ∃ r0 rest, inst.msgs =
        (List.replicate (mods.count (.psk 0)) (Tok.psk 0) ++ Tok.e :: r0) :: rest ∧
      (rest = [] ∨ ∃ r1 rest', rest = (Tok.e :: r1) :: rest') := by
  obtain ⟨_, rfl⟩ := (handshakeTokens_ok_iff p mods inst).mp h
  have h1 : 1 ≤ p.tokens.msgs.length := by
    have := valid_all p
    simp only [Spec.valid, Bool.and_eq_true, decide_eq_true_eq] at this
    exact this.1.1.1
  exact placed_shape p.tokens mods h1 (startsWithE_all p)

/-- For every table pattern and every modifier list snow accepts that names `psk0` at most once
    (the name parser rejects duplicate modifiers): the first token of message 1 is `e`, or it is
    `psk0` immediately followed by `e`. So in psk mode the `e` token (which then calls MixKey)
    is processed before anything is encrypted. Without the hypothesis on `psk0` the statement
    is false (`[psk0, psk0]` gives `psk0, psk0, e`); `first_messages_shape` is the general form. -/
theorem psk_then_keyed (p : Pattern) (mods : List Modifier) (inst : Inst)
    (h : Model.handshakeTokens p mods = .ok inst) (h0 : mods.count (.psk 0) ≤ 1) :
    ∃ r rest,
      (Modifier.psk 0 ∉ mods ∧ inst.msgs = (Tok.e :: r) :: rest) ∨
      (Modifier.psk 0 ∈ mods ∧ inst.msgs = (Tok.psk 0 :: Tok.e :: r) :: rest) := by
  obtain ⟨r0, rest, hs, _⟩ := first_messages_shape p mods inst h
  refine ⟨r0, rest, ?_⟩
  by_cases hm : Modifier.psk 0 ∈ mods
  · have : mods.count (.psk 0) = 1 := by
      have := List.count_pos_iff.mpr hm
      omega
    rw [this] at hs
    exact Or.inr ⟨hm, by simpa using hs⟩
  · have : mods.count (.psk 0) = 0 := List.count_eq_zero.mpr hm
    rw [this] at hs
    exact Or.inl ⟨hm, by simpa using hs⟩

/-- The same as a decidable property of the result. -/
def keyedStart : List (List Tok) → Bool
  | (.e :: _) :: _ => true
  | (.psk 0 :: .e :: _) :: _ => true
  | _ => false

theorem psk_then_keyed_bool (p : Pattern) (mods : List Modifier) (inst : Inst)
    (h : Model.handshakeTokens p mods = .ok inst) (h0 : mods.count (.psk 0) ≤ 1) :
    keyedStart inst.msgs = true := by
  obtain ⟨r, rest, ⟨_, hs⟩ | ⟨_, hs⟩⟩ := psk_then_keyed p mods inst h h0 <;> rw [hs] <;> rfl

/-- Every `psk` token snow inserts other than the leading `psk0`s comes after an `e` of the same
    message's sender: message `k ≥ 1` (0-based) is its table row followed by `psk(k+1)` tokens. -/
theorem later_messages_shape (p : Pattern) (mods : List Modifier) (inst : Inst)
    (h : Model.handshakeTokens p mods = .ok inst) (k : Nat) (hk : 1 ≤ k) (hlen : k < p.tokens.msgs.length) :
    inst.msgs[k]? = some (p.tokens.msgs[k]! ++
      List.replicate (mods.count (.psk (k + 1))) (Tok.psk (k + 1))) := by
  obtain ⟨_, rfl⟩ := (handshakeTokens_ok_iff p mods inst).mp h
  have key : ∀ (ms : List (List Tok)) (j i : Nat), i < ms.length →
      (Spec.placeFrom mods j ms)[i]? = some (Spec.placeMsg mods (j + i) ms[i]!) := by
    intro ms
    induction ms with
    | nil => intro j i hi; simp at hi
    | cons m ms ih =>
      intro j i hi
      cases i with
      | zero => simp [Spec.placeFrom]
      | succ i =>
        have := ih (j + 1) i (by simpa using hi)
        simp only [Spec.placeFrom, List.getElem?_cons_succ, this]
        have e : j + 1 + i = j + (i + 1) := by omega
        simp [e]
  have := key p.tokens.msgs 0 k hlen
  simp only [Spec.placed, this, Nat.zero_add, Spec.placeMsg]
  have hk0 : k ≠ 0 := by omega
  simp [hk0]

/-! ## 7. Non-vacuity: concrete instances -/

/-- `Noise_XXpsk0+psk3`: `-> psk, e  <- e, ee, s, es  -> s, se, psk`. -/
example : Model.handshakeTokens .pXX [.psk 0, .psk 3] =
    .ok { preI := [], preR := [],
          msgs := [[.psk 0, .e], [.e, .ee, .s, .es], [.s, .se, .psk 3]] } := by decide

/-- The order of the modifiers does not matter. -/
example : Model.handshakeTokens .pXX [.psk 3, .psk 0] = Model.handshakeTokens .pXX [.psk 0, .psk 3] := by
  decide

/-- Section 9.4 listings: `NNpsk0`, `NNpsk2`, `Xpsk1`, `IKpsk1`, `IKpsk2`, `XKpsk3`, `KKpsk0`. -/
example : Model.handshakeTokens .pNN [.psk 0] =
    .ok { preI := [], preR := [], msgs := [[.psk 0, .e], [.e, .ee]] } := by decide
example : Model.handshakeTokens .pNN [.psk 2] =
    .ok { preI := [], preR := [], msgs := [[.e], [.e, .ee, .psk 2]] } := by decide
example : Model.handshakeTokens .pX [.psk 1] =
    .ok { preI := [], preR := [.s], msgs := [[.e, .es, .s, .ss, .psk 1]] } := by decide
example : Model.handshakeTokens .pIK [.psk 1] =
    .ok { preI := [], preR := [.s], msgs := [[.e, .es, .s, .ss, .psk 1], [.e, .ee, .se]] } := by decide
example : Model.handshakeTokens .pIK [.psk 2] =
    .ok { preI := [], preR := [.s], msgs := [[.e, .es, .s, .ss], [.e, .ee, .se, .psk 2]] } := by decide
example : Model.handshakeTokens .pXK [.psk 3] =
    .ok { preI := [], preR := [.s], msgs := [[.e, .es], [.e, .ee], [.s, .se, .psk 3]] } := by decide
example : Model.handshakeTokens .pKK [.psk 0] =
    .ok { preI := [.s], preR := [.s], msgs := [[.psk 0, .e, .es, .ss], [.e, .ee, .se]] } := by decide

/-- A `pskN` beyond the last message, and `fallback`, are rejected with the stated errors. -/
example : Model.handshakeTokens .pXX [.psk 0, .psk 4] = .err (.pattern .invalidPsk) := by decide
example : Model.handshakeTokens .pN [.psk 2] = .err (.pattern .invalidPsk) := by decide
example : Model.handshakeTokens .pXX [.psk 1, .fallback, .psk 9] = .err (.pattern .unsupportedModifier) := by
  decide
example : Model.handshakeTokens .pX1X1 [.psk 4] =
    .ok { preI := [], preR := [], msgs := [[.e], [.e, .ee, .s], [.es, .s], [.se, .psk 4]] } := by decide

/-- The hypotheses of `psk_then_keyed` / `valid_psk` are satisfiable with a non-trivial list. -/
example : ∃ inst, Model.handshakeTokens .pXX [.psk 0, .psk 3] = .ok inst ∧
    ([Modifier.psk 0, .psk 3].count (.psk 0) ≤ 1) ∧ Spec.valid inst = true ∧
    keyedStart inst.msgs = true ∧ Model.isPskMods [.psk 0, .psk 3] = true :=
  ⟨_, rfl, by decide, by decide, by decide, by decide⟩

/-- The generator on a deferred pattern: `X1K1` is `<- s ... -> e  <- e, ee, es  -> s  <- se`. -/
example : Spec.gen ⟨.X, true, .K, true⟩ =
    { preI := [], preR := [.s], msgs := [[.e], [.e, .ee, .es], [.s], [.se]] } := by decide

end SnowVerif.Theorems.C01Patterns
