/-
  C14  Message framing: exact lengths, 65535-byte limit, no overrun.

  Handshake (`handshakestate.rs` `write_message` / `read_message`), transport and stateless
  transport (`transportstate.rs`, `stateless_transportstate.rs`).

  The length of a handshake message is `Framing.msgLen`: a pure function of the message's token
  list, the keyedness (`has_key`) at its start, psk mode and the payload length
  (Lemmas/C14Len.lean).  It is the CODE's length; `Framing.fieldsLen_eq_spec` shows it equals
  the Noise specification's (`Framing.Spec.msgLen`) whenever no `psk` token is met un-keyed
  without an `e` (in psk mode) following, and `pskOk_tables` shows that this holds for every
  pattern of the generated table with every modifier list the code accepts.

  What the code demands beyond the property (DESIGN.md, C14): the handshake write requires 16
  spare bytes after fields+payload even when the payload is not encrypted; so the guaranteed
  bound is `n + (if encrypted then 0 else 16) ≤ cap`, and "fits implies succeeds" is not claimed.
-/
import SnowVerif.Lemmas.C14Read
import SnowVerif.Lemmas.C14Spec
import SnowVerif.Lemmas.C14Build
import SnowVerif.Theorems.C11
import SnowVerif.Lemmas.Transport
import SnowVerif.Lemmas.C14Toy

namespace SnowVerif.Theorems.C14
open SnowVerif SnowVerif.Model SnowVerif.Model.HS SnowVerif.Framing
set_option linter.unusedVariables false
set_option linter.unusedSimpArgs false

/-! ### Handshake write -/

/-- **write_len.** A successful handshake `write_message` returns exactly the number of bytes it
    wrote, which is exactly the length predicted from the message's tokens (a public key per
    `e`/`s`, a 16-byte tag per encrypted `s`, the payload, a 16-byte tag when the payload is
    encrypted); it is at most 65535 and at most the buffer size (the code even keeps 16 spare
    bytes when the payload is not encrypted); and `was_write_payload_encrypted` afterwards is the
    keyedness predicted from the tokens. -/
theorem write_len (S : Suite) (hE : S.EncLen) (hP : S.PubLen) (hs : HS) (p : Bytes) (cap : Nat)
    (n : Nat) (hs' : HS) (acc : Bytes) (ev : List Event) (hw : KeysWf S hs)
    (h : hs.writeMessage S p cap = (.ok n, hs', acc, ev)) :
    n = acc.length ∧
    n = msgLen S hs.isPsk (hs.msgs.getD hs.pos []) hs.sym.hasKey p.length ∧
    n ≤ 65535 ∧ n ≤ cap ∧
    n + (if (fieldsLen S hs.isPsk (hs.msgs.getD hs.pos []) hs.sym.hasKey).2 then 0 else 16) ≤ cap ∧
    hs'.wasWritePayloadEncrypted = (fieldsLen S hs.isPsk (hs.msgs.getD hs.pos []) hs.sym.hasKey).2 := by
  unfold writeMessage at h
  simp only at h
  cases hr : (writeInner S hs p cap).1 with
  | ok k =>
    simp only [hr, Prod.mk.injEq, Res.ok.injEq] at h
    obtain ⟨rfl, rfl, rfl, rfl⟩ := h
    obtain ⟨a, b, c, d, e⟩ := writeInner_ok_len S hE hP hs p cap k hw hr
    refine ⟨a, b, c, ?_, ?_, ?_⟩
    · rw [b]; unfold msgLen; split <;> omega
    · rw [b]; unfold msgLen; split <;> omega
    · simp only [HS.wasWritePayloadEncrypted]; exact e
  | err e => simp [hr] at h
  | panic q => simp [hr] at h

/-- **write_too_big (never ok).** If the message the code would produce exceeds 65535 bytes or
    the output buffer, `write_message` does not succeed. -/
theorem write_too_big (S : Suite) (hE : S.EncLen) (hP : S.PubLen) (hs : HS) (p : Bytes) (cap : Nat) (hw : KeysWf S hs)
    (hbig : msgLen S hs.isPsk (hs.msgs.getD hs.pos []) hs.sym.hasKey p.length > 65535 ∨
            msgLen S hs.isPsk (hs.msgs.getD hs.pos []) hs.sym.hasKey p.length > cap) :
    ∀ n, (hs.writeMessage S p cap).1 ≠ .ok n := by
  intro n hn
  cases hr : hs.writeMessage S p cap with
  | mk r rest =>
    obtain ⟨hs', acc, ev⟩ := rest
    rw [hr] at hn
    simp only at hn
    subst hn
    obtain ⟨_, b, c, d, _⟩ := write_len S hE hP hs p cap n hs' acc ev hw hr
    omega

/-- "No earlier error intervenes": it is this party's turn, the handshake is not finished, and
    the token loop of this message succeeds when given enough room: no missing key or psk, no DH
    failure, no exhausted nonce (these do not depend on the buffer size, see `writeToks_cap`). -/
def TokensPass (S : Suite) (hs : HS) : Prop :=
  hs.myTurn = true ∧ hs.pos < hs.msgs.length ∧
  ∃ capM, (writeToks S capM (hs.msgs.getD hs.pos []) { hs := hs, acc := [], ev := [] }).1 = .ok ()

/-- **write_too_big (Input).** When no earlier error intervenes, a write whose message exceeds
    65535 bytes or does not fit the buffer (counting the 16 spare bytes the code demands; in
    particular whenever `msgLen > cap`) fails with `Input`. -/
theorem write_too_big_input (S : Suite) (hE : S.EncLen) (hP : S.PubLen) (hs : HS) (p : Bytes) (cap : Nat)
    (hw : KeysWf S hs) (hpass : TokensPass S hs)
    (hbig : msgLen S hs.isPsk (hs.msgs.getD hs.pos []) hs.sym.hasKey p.length > 65535 ∨
            msgLen S hs.isPsk (hs.msgs.getD hs.pos []) hs.sym.hasKey p.length > cap ∨
            (fieldsLen S hs.isPsk (hs.msgs.getD hs.pos []) hs.sym.hasKey).1 + p.length + 16 > cap) :
    (hs.writeMessage S p cap).1 = .err .input := by
  obtain ⟨ht, hp, capM, hM⟩ := hpass
  have hbig' : msgLen S hs.isPsk (hs.msgs.getD hs.pos []) hs.sym.hasKey p.length > 65535 ∨
      (fieldsLen S hs.isPsk (hs.msgs.getD hs.pos []) hs.sym.hasKey).1 + p.length + 16 > cap := by
    rcases hbig with hb | hb | hb
    · exact Or.inl hb
    · right; unfold msgLen at hb; split at hb <;> omega
    · exact Or.inr hb
  have hi := writeInner_too_big S hE hP hs p cap capM hw ht hp hM hbig'
  unfold writeMessage
  simp only [hi]

/-- **write_never_overruns.** Whatever the outcome (success, any error, even a panic site), the
    bytes `write_message` has written never extend past the buffer it was given. -/
theorem write_never_overruns (S : Suite) (hE : S.EncLen) (hP : S.PubLen) (hs : HS) (p : Bytes) (cap : Nat)
    (hfe : hs.fixedE = true → hs.e.val.pub.length = S.pubLen) :
    (hs.writeMessage S p cap).2.2.1.length ≤ cap := by
  have := writeInner_fit S hE hP hs p cap hfe
  unfold writeMessage
  simp only
  split <;> exact this

/-! ### Handshake read -/

/-- **read_len (oversize).** A message longer than 65535 bytes is refused with `Input`, in any
    state, before anything is decrypted or written. -/
theorem read_oversize (S : Suite) (hs : HS) (m : Bytes) (cap : Nat) (hl : m.length > 65535) :
    (hs.readMessage S m cap).1 = .err .input ∧ (hs.readMessage S m cap).2.2 = ([], []) := by
  have hi : readInner S hs m cap = (.err .input, hs, [], []) := by
    unfold readInner; simp [hl]
  unfold readMessage
  simp only [hi, and_self]

/-- **read_len.** A successful handshake `read_message` was given a message of at most 65535
    bytes, at least as long as the pattern's fixed fields plus the payload tag; the payload it
    returns is no longer than message length minus that overhead and fits the output buffer;
    under `DecLen` (a consequence of `DecSound` and `EncLen`) it is exactly message length minus
    the overhead; and `has_key` afterwards is the keyedness predicted from the tokens. -/
theorem read_len (S : Suite) (hs : HS) (m : Bytes) (cap : Nat) (pl : Bytes) (hs' : HS) (buf : Bytes) (ev : List Event)
    (h : hs.readMessage S m cap = (.ok pl, hs', buf, ev)) :
    m.length ≤ 65535 ∧
    (fieldsLen S hs.isPsk (hs.msgs.getD hs.pos []) hs.sym.hasKey).1 +
      (if (fieldsLen S hs.isPsk (hs.msgs.getD hs.pos []) hs.sym.hasKey).2 then 16 else 0) ≤ m.length ∧
    pl.length ≤ m.length - ((fieldsLen S hs.isPsk (hs.msgs.getD hs.pos []) hs.sym.hasKey).1 +
      (if (fieldsLen S hs.isPsk (hs.msgs.getD hs.pos []) hs.sym.hasKey).2 then 16 else 0)) ∧
    pl.length ≤ cap ∧
    (S.DecLen → m.length = msgLen S hs.isPsk (hs.msgs.getD hs.pos []) hs.sym.hasKey pl.length ∧
      pl.length = m.length - ((fieldsLen S hs.isPsk (hs.msgs.getD hs.pos []) hs.sym.hasKey).1 +
        (if (fieldsLen S hs.isPsk (hs.msgs.getD hs.pos []) hs.sym.hasKey).2 then 16 else 0))) ∧
    hs'.sym.hasKey = (fieldsLen S hs.isPsk (hs.msgs.getD hs.pos []) hs.sym.hasKey).2 := by
  unfold readMessage at h
  simp only at h
  cases hr : (readInner S hs m cap).1 with
  | ok k =>
    simp only [hr, Prod.mk.injEq, Res.ok.injEq] at h
    obtain ⟨rfl, rfl, rfl, rfl⟩ := h
    obtain ⟨a, b, c, d, e⟩ := readInner_ok S hs m cap k hr
    obtain ⟨h0, _, _⟩ := readInner_turn S hs m cap k hr
    refine ⟨h0, a, by omega, c, ?_, e⟩
    intro hD
    have := d hD
    unfold msgLen
    omega
  | err e => simp [hr] at h
  | panic q => simp [hr] at h

/-- **read_len (short).** A message shorter than the pattern's fixed fields (plus the payload's
    tag when the payload is encrypted) is not accepted. -/
theorem read_short (S : Suite) (hs : HS) (m : Bytes) (cap : Nat)
    (hshort : m.length < (fieldsLen S hs.isPsk (hs.msgs.getD hs.pos []) hs.sym.hasKey).1 +
      (if (fieldsLen S hs.isPsk (hs.msgs.getD hs.pos []) hs.sym.hasKey).2 then 16 else 0)) :
    ∀ pl, (hs.readMessage S m cap).1 ≠ .ok pl := by
  intro pl hn
  cases hr : hs.readMessage S m cap with
  | mk r rest =>
    obtain ⟨hs', buf, ev⟩ := rest
    rw [hr] at hn
    simp only at hn
    subst hn
    obtain ⟨_, b, _⟩ := read_len S hs m cap pl hs' buf ev hr
    omega

/-- **read_len (short, Input).** If the message ends inside the field of token `t` and all
    earlier tokens `a` of the message are processed successfully (no earlier failure: missing
    key or psk, DH failure, rejected static key), `read_message` fails with `Input`. -/
theorem read_short_input (S : Suite) (hs : HS) (m : Bytes) (cap : Nat) (a b : List Tok) (t : Tok)
    (h0 : m.length ≤ 65535) (ht : hs.myTurn = false) (hp : hs.pos < hs.msgs.length)
    (htoks : hs.msgs.getD hs.pos [] = a ++ t :: b)
    (ha : (readToks S a { hs := hs, ptr := m, ev := [] }).1 = .ok ())
    (hshort : m.length < (fieldsLen S hs.isPsk (a ++ [t]) hs.sym.hasKey).1) :
    (hs.readMessage S m cap).1 = .err .input := by
  have hi := readInner_runs_out S hs m cap a b t h0 ht hp htoks ha hshort
  unfold readMessage
  simp only [hi]

/-! ### `has_key` over the whole handshake, and the tie to the specification -/

/-- The handshake-long invariant: `has_key` is the keyedness the token lists of the messages
    processed so far produce (starting un-keyed). -/
def KeyedInv (hs : HS) : Prop := hs.sym.hasKey = keyedBefore hs.isPsk hs.msgs hs.pos

/-- A freshly built state (position 0, no key yet) satisfies the invariant. -/
theorem keyedInv_initial (hs : HS) (h0 : hs.pos = 0) (hk : hs.sym.hasKey = false) : KeyedInv hs := by
  unfold KeyedInv keyedBefore; rw [h0, hk]; rfl

/-- Every state returned by `Builder::build` meets the standing hypotheses of the framing
    theorems: `KeyedInv`, the agreement condition `PskOkMsgs`, and the key-length conditions. -/
theorem build_ready (S : Suite) (hP : S.PubLen) (av : Avail) (c : BuildCfg) (hs : HS) (h : build S av c = .ok hs) :
    KeyedInv hs ∧ PskOkMsgs hs.isPsk hs.msgs false = true ∧ KeysWf S hs := by
  obtain ⟨a, b, c', d⟩ := build_facts S hP av c hs h
  exact ⟨keyedInv_initial hs b c', a, d⟩

/-- Every handshake operation (any arguments, failures included) preserves `KeyedInv`. -/
theorem keyedInv_step (S : Suite) (hs : HS) (op : C11.Op) (h : KeyedInv hs) (np : C11.NoPanic S hs op) :
    KeyedInv (C11.step S hs op) := by
  unfold KeyedInv at h ⊢
  cases op with
  | write p cap =>
    simp only [C11.step]
    have hf := writeInner_frame S hs p cap
    simp only at hf
    obtain ⟨_, fpsk, _, _, _, fmsgs, fpos, _⟩ := hf
    unfold writeMessage
    simp only
    cases hr : (writeInner S hs p cap).1 with
    | ok n =>
      simp only
      obtain ⟨_, hp⟩ := writeInner_turn S hs p cap n hr
      rw [writeInner_keyed S hs p cap n hr, fpsk, fmsgs, fpos, keyedBefore_succ _ _ _ hp, h]
    | err e =>
      simp only
      split <;> simp only [Sym.restore, Sym.checkpoint, fpsk, fmsgs, fpos, h]
    | panic q =>
      simp only [C11.NoPanic, writeMessage, hr, Res.isPanic] at np
      exact absurd np (by simp)
  | read m cap =>
    simp only [C11.step]
    have hf := readInner_frame S hs m cap
    simp only at hf
    obtain ⟨_, fpsk, _, _, _, fmsgs, fpos, _⟩ := hf
    unfold readMessage
    simp only
    cases hr : (readInner S hs m cap).1 with
    | ok pl =>
      simp only
      obtain ⟨_, _, hp⟩ := readInner_turn S hs m cap pl hr
      rw [(readInner_ok S hs m cap pl hr).2.2.2.2, fieldsLen_snd, fpsk, fmsgs, fpos, keyedBefore_succ _ _ _ hp, h]
    | err e =>
      simp only [Sym.restore, Sym.checkpoint, fpsk, fmsgs, fpos, h]
    | panic q =>
      simp only [C11.NoPanic, readMessage, hr, Res.isPanic] at np
      exact absurd np (by simp)
  | setPsk loc key =>
    simp only [C11.step, HS.setPsk]
    split <;> exact h

/-- For every history of operations from a state satisfying `KeyedInv` (any arguments, failed
    calls and retries included), `has_key` is the keyedness determined by the tokens of the
    messages processed so far. -/
theorem keyedInv_always (S : Suite) (hs : HS) (ops : List C11.Op) (h : KeyedInv hs)
    (np : ∀ (pre : List C11.Op) (op : C11.Op) (post : List C11.Op), ops = pre ++ op :: post →
      C11.NoPanic S (C11.run S hs pre) op) :
    KeyedInv (C11.run S hs ops) := by
  induction ops generalizing hs with
  | nil => exact h
  | cons op ops ih =>
    simp only [C11.run]
    apply ih
    · exact keyedInv_step S hs op h (np [] op ops rfl)
    · intro pre o post hpost
      have := np (op :: pre) o post (by simp [hpost])
      simpa [C11.run] using this

/-- The standing hypotheses of the framing theorems, as one invariant. -/
def Ready (S : Suite) (hs : HS) : Prop :=
  KeyedInv hs ∧ PskOkMsgs hs.isPsk hs.msgs false = true ∧ KeysWf S hs

/-- Every handshake operation preserves the key-length conditions, psk mode and the token lists. -/
theorem static_step (S : Suite) (hs : HS) (op : C11.Op) (np : C11.NoPanic S hs op) :
    (KeysWf S hs → KeysWf S (C11.step S hs op)) ∧ (C11.step S hs op).isPsk = hs.isPsk ∧
    (C11.step S hs op).msgs = hs.msgs := by
  cases op with
  | write p cap =>
    simp only [C11.step]
    have hf := writeInner_frame S hs p cap
    simp only at hf
    obtain ⟨_, fpsk, _, _, _, fmsgs, _⟩ := hf
    have hwf := writeInner_wf S hs p cap
    unfold writeMessage
    simp only
    cases hr : (writeInner S hs p cap).1 with
    | ok n => exact ⟨fun hw => hwf hw, fpsk, fmsgs⟩
    | err e =>
      simp only
      split
      · exact ⟨fun hw => hwf hw, fpsk, fmsgs⟩
      · exact ⟨fun hw => hwf hw, fpsk, fmsgs⟩
    | panic q =>
      simp only [C11.NoPanic, writeMessage, hr, Res.isPanic] at np
      exact absurd np (by simp)
  | read m cap =>
    simp only [C11.step]
    have hf := readInner_frame S hs m cap
    simp only at hf
    obtain ⟨_, fpsk, _, _, _, fmsgs, _, ffix, fs, fe, _⟩ := hf
    have hwf : KeysWf S hs → KeysWf S (readInner S hs m cap).2.1 := by
      intro hw; unfold KeysWf; rw [fs, ffix, fe]; exact hw
    unfold readMessage
    simp only
    cases hr : (readInner S hs m cap).1 with
    | ok pl => exact ⟨fun hw => hwf hw, fpsk, fmsgs⟩
    | err e => exact ⟨fun hw => hwf hw, fpsk, fmsgs⟩
    | panic q =>
      simp only [C11.NoPanic, readMessage, hr, Res.isPanic] at np
      exact absurd np (by simp)
  | setPsk loc key =>
    simp only [C11.step, HS.setPsk]
    split <;> exact ⟨fun hw => hw, rfl, rfl⟩

/-- `Ready` is preserved by every operation, hence holds along every history from a built state:
    the hypotheses of `write_len`, `write_len_spec`, `read_len_spec` hold wherever they are used. -/
theorem ready_step (S : Suite) (hs : HS) (op : C11.Op) (h : Ready S hs) (np : C11.NoPanic S hs op) :
    Ready S (C11.step S hs op) := by
  obtain ⟨a, b, c⟩ := static_step S hs op np
  refine ⟨keyedInv_step S hs op h.1 np, ?_, a h.2.2⟩
  rw [b, c]; exact h.2.1

/-- `Ready` along every (panic-free) history of operations with arbitrary arguments. -/
theorem ready_always (S : Suite) (hs : HS) (ops : List C11.Op) (h : Ready S hs)
    (np : ∀ (pre : List C11.Op) (op : C11.Op) (post : List C11.Op), ops = pre ++ op :: post →
      C11.NoPanic S (C11.run S hs pre) op) :
    Ready S (C11.run S hs ops) := by
  induction ops generalizing hs with
  | nil => exact h
  | cons op ops ih =>
    simp only [C11.run]
    apply ih
    · exact ready_step S hs op h (np [] op ops rfl)
    · intro pre o post hpost
      have := np (op :: pre) o post (by simp [hpost])
      simpa [C11.run] using this

/-- **The length the specification predicts.** In a state satisfying `KeyedInv` whose message
    token lists satisfy the agreement condition `PskOkMsgs` (true of every table pattern with
    every accepted modifier list: `pskOk_tables`), a successful `write_message` returns exactly
    the Noise specification's length for that message, with the specification's own keyedness. -/
theorem write_len_spec (S : Suite) (hE : S.EncLen) (hP : S.PubLen) (hs : HS) (p : Bytes) (cap : Nat)
    (n : Nat) (hs' : HS) (acc : Bytes) (ev : List Event) (hw : KeysWf S hs)
    (hk : KeyedInv hs) (hok : PskOkMsgs hs.isPsk hs.msgs false = true)
    (h : hs.writeMessage S p cap = (.ok n, hs', acc, ev)) :
    n = Spec.msgLen S hs.isPsk (hs.msgs.getD hs.pos []) (Spec.keyedBefore hs.isPsk hs.msgs hs.pos) p.length := by
  obtain ⟨_, b, _⟩ := write_len S hE hP hs p cap n hs' acc ev hw h
  obtain ⟨_, hp, _⟩ := C11.write_ok_ctl S hs p cap n hs' acc ev h
  rw [b, hk]
  exact msgLen_eq_spec_handshake S hs.isPsk hs.msgs hs.pos p.length hok hp

/-- **Headline.** From any state returned by `Builder::build`, after any history of handshake
    operations (arbitrary arguments, failed calls and retries included), a successful
    `write_message` returns exactly the length the Noise specification predicts for the current
    message and payload. -/
theorem write_len_spec_reachable (S : Suite) (hE : S.EncLen) (hP : S.PubLen) (av : Avail) (c : BuildCfg) (hs0 : HS)
    (hb : build S av c = .ok hs0) (ops : List C11.Op)
    (np : ∀ (pre : List C11.Op) (op : C11.Op) (post : List C11.Op), ops = pre ++ op :: post →
      C11.NoPanic S (C11.run S hs0 pre) op)
    (p : Bytes) (cap : Nat) (n : Nat) (hs' : HS) (acc : Bytes) (ev : List Event)
    (h : (C11.run S hs0 ops).writeMessage S p cap = (.ok n, hs', acc, ev)) :
    n = Spec.msgLen S (C11.run S hs0 ops).isPsk ((C11.run S hs0 ops).msgs.getD (C11.run S hs0 ops).pos [])
          (Spec.keyedBefore (C11.run S hs0 ops).isPsk (C11.run S hs0 ops).msgs (C11.run S hs0 ops).pos) p.length ∧
    n = acc.length ∧ n ≤ 65535 ∧ n ≤ cap := by
  obtain ⟨r1, r2, r3⟩ := ready_always S hs0 ops (build_ready S hP av c hs0 hb) np
  obtain ⟨a, _, c1, d, _⟩ := write_len S hE hP _ p cap n hs' acc ev r3 h
  exact ⟨write_len_spec S hE hP _ p cap n hs' acc ev r3 r1 r2 h, a, c1, d⟩

/-- The same for `read_message`: under `DecLen`, an accepted message has exactly the
    specification's length for the payload returned. -/
theorem read_len_spec (S : Suite) (hD : S.DecLen) (hs : HS) (m : Bytes) (cap : Nat) (pl : Bytes) (hs' : HS)
    (buf : Bytes) (ev : List Event) (hk : KeyedInv hs) (hok : PskOkMsgs hs.isPsk hs.msgs false = true)
    (h : hs.readMessage S m cap = (.ok pl, hs', buf, ev)) :
    m.length = Spec.msgLen S hs.isPsk (hs.msgs.getD hs.pos []) (Spec.keyedBefore hs.isPsk hs.msgs hs.pos) pl.length := by
  obtain ⟨_, _, _, _, d, _⟩ := read_len S hs m cap pl hs' buf ev h
  obtain ⟨_, hp, _⟩ := C11.read_ok_ctl S hs m cap pl hs' buf ev h
  rw [(d hD).1, hk]
  exact msgLen_eq_spec_handshake S hs.isPsk hs.msgs hs.pos pl.length hok hp

/-! ### Transport and stateless transport -/

open SnowVerif.Model.TS in
/-- **t_write_len.** A successful transport `write_message` returns the payload length plus the
    16-byte tag, at most 65535 and at most the buffer size. -/
theorem t_write_len (S : Suite) (hE : S.EncLen) (ts : TS) (p : Bytes) (cap : Nat) (c : Bytes) (ts' : TS) (ev : List Event)
    (h : ts.writeMessage S p cap = (.ok c, ts', ev)) :
    c.length = p.length + 16 ∧ c.length ≤ 65535 ∧ c.length ≤ cap := by
  rw [writeMessage_eq] at h
  by_cases h1 : (!ts.initiator && ts.oneway) = true
  · simp [h1] at h
  · by_cases h2 : (decide (p.length + 16 > 65535) || decide (p.length + 16 > cap)) = true
    · simp only [h1, h2, ↓reduceIte, Bool.false_eq_true, Prod.mk.injEq, reduceCtorEq, false_and] at h
    · simp only [h1, h2, ↓reduceIte, Bool.false_eq_true, Prod.mk.injEq] at h
      obtain ⟨hc, _, _⟩ := h
      have hx : ts.sendCs.encryptAd S [] p cap = (.ok c, (ts.sendCs.encryptAd S [] p cap).2.1, (ts.sendCs.encryptAd S [] p cap).2.2) := by
        rw [← hc]
      obtain ⟨_, _, _, rfl, _, _⟩ := CipherState.encryptAd_ok hx
      simp only [Bool.or_eq_true, decide_eq_true_eq, not_or] at h2
      rw [hE]
      omega

open SnowVerif.Model.TS in
/-- **t_write_too_big.** A transport write whose message (payload + 16) exceeds 65535 bytes or the
    buffer never succeeds; unless the caller is the responder of a one-way pattern (which gets
    the `OneWay` state error first) it fails with `Input`, state untouched, no cipher call. -/
theorem t_write_too_big (S : Suite) (ts : TS) (p : Bytes) (cap : Nat)
    (hbig : p.length + 16 > 65535 ∨ p.length + 16 > cap) :
    (∀ c, (ts.writeMessage S p cap).1 ≠ .ok c) ∧
    (¬ (ts.initiator = false ∧ ts.oneway = true) → ts.writeMessage S p cap = (.err .input, ts, [])) := by
  have h2 : (decide (p.length + 16 > 65535) || decide (p.length + 16 > cap)) = true := by simpa using hbig
  rw [writeMessage_eq]
  by_cases h1 : (!ts.initiator && ts.oneway) = true
  · simp only [h1, ↓reduceIte]
    refine ⟨fun c hc => by simp at hc, fun hn => ?_⟩
    exfalso; apply hn
    cases hi : ts.initiator <;> cases ho : ts.oneway <;> simp_all
  · simp only [h1, h2, ↓reduceIte, Bool.false_eq_true]
    exact ⟨fun c hc => by simp at hc, fun _ => trivial⟩

open SnowVerif.Model.TS in
/-- **t_read_len.** Transport `read_message`: a message longer than 65535 bytes is refused with
    `Input` (state untouched); a message shorter than the 16-byte tag is never accepted; a
    successful read was given 16..65535 bytes whose plaintext room fits the buffer and, under
    `DecLen`, returns exactly message length minus 16. -/
theorem t_read_len (S : Suite) (ts : TS) (m : Bytes) (cap : Nat) :
    (m.length > 65535 → ts.readMessage S m cap = (.err .input, ts, [], [])) ∧
    (m.length < 16 → ∀ pl, (ts.readMessage S m cap).1 ≠ .ok pl) ∧
    (∀ pl ts' buf ev, ts.readMessage S m cap = (.ok pl, ts', buf, ev) →
      16 ≤ m.length ∧ m.length ≤ 65535 ∧ m.length - 16 ≤ cap ∧
      (S.DecLen → pl.length = m.length - 16 ∧ pl.length ≤ cap)) := by
  have key : ∀ pl ts' buf ev, ts.readMessage S m cap = (.ok pl, ts', buf, ev) →
      16 ≤ m.length ∧ m.length ≤ 65535 ∧ m.length - 16 ≤ cap ∧
      (S.DecLen → pl.length = m.length - 16 ∧ pl.length ≤ cap) := by
    intro pl ts' buf ev h
    rw [readMessage_eq] at h
    by_cases h0 : m.length > 65535
    · simp [h0] at h
    · by_cases h1 : (ts.initiator && ts.oneway) = true
      · simp [h0, h1] at h
      · simp only [h0, h1, ↓reduceIte, Bool.false_eq_true, Prod.mk.injEq] at h
        obtain ⟨hc, _, _, _⟩ := h
        have hx : ts.recvCs.decryptAd S [] m cap = (.ok pl, (ts.recvCs.decryptAd S [] m cap).2.1,
            (ts.recvCs.decryptAd S [] m cap).2.2.1, (ts.recvCs.decryptAd S [] m cap).2.2.2) := by
          rw [← hc]
        obtain ⟨a, b, _, _, d, _⟩ := CipherState.decryptAd_ok hx
        refine ⟨a, by omega, b, fun hD => ?_⟩
        have := hD _ _ _ _ _ d
        omega
  refine ⟨?_, ?_, key⟩
  · intro h0
    rw [readMessage_eq]; simp only [h0, ↓reduceIte]
  · intro hs pl hn
    cases hr : ts.readMessage S m cap with
    | mk r rest =>
      obtain ⟨ts', buf, ev⟩ := rest
      rw [hr] at hn
      simp only at hn
      subst hn
      have := (key pl ts' buf ev hr).1
      omega

/-- **Stateless transport write**: same lengths and limits as the stateful one. -/
theorem st_write_len (S : Suite) (hE : S.EncLen) (ts : TS) (n : UInt64) (p : Bytes) (cap : Nat) :
    (∀ c ev, ts.stWrite S n p cap = (.ok c, ev) → c.length = p.length + 16 ∧ c.length ≤ 65535 ∧ c.length ≤ cap) ∧
    (p.length + 16 > 65535 ∨ p.length + 16 > cap →
      (∀ c, (ts.stWrite S n p cap).1 ≠ .ok c) ∧
      (¬ (ts.initiator = false ∧ ts.oneway = true) → ts.stWrite S n p cap = (.err .input, []))) := by
  constructor
  · intro c ev h
    unfold TS.stWrite at h
    by_cases h1 : (!ts.initiator && ts.oneway) = true
    · simp [h1] at h
    · by_cases h2 : (decide (p.length + 16 > 65535) || decide (p.length + 16 > cap)) = true
      · simp only [h1, h2, ↓reduceIte, Bool.false_eq_true, Prod.mk.injEq, reduceCtorEq, false_and] at h
      · simp only [h1, h2, ↓reduceIte, Bool.false_eq_true] at h
        simp only [Bool.or_eq_true, decide_eq_true_eq, not_or] at h2
        obtain ⟨_, rfl⟩ := TS.stEncrypt_ok h
        rw [hE]
        omega
  · intro hbig
    have h2 : (decide (p.length + 16 > 65535) || decide (p.length + 16 > cap)) = true := by simpa using hbig
    unfold TS.stWrite
    by_cases h1 : (!ts.initiator && ts.oneway) = true
    · simp only [h1, ↓reduceIte]
      refine ⟨fun c hc => by simp at hc, fun hn => ?_⟩
      exfalso; apply hn
      cases hi : ts.initiator <;> cases ho : ts.oneway <;> simp_all
    · simp only [h1, h2, ↓reduceIte, Bool.false_eq_true]
      exact ⟨fun c hc => by simp at hc, fun _ => trivial⟩

/-- **Stateless transport read**: same lengths and limits as the stateful one. -/
theorem st_read_len (S : Suite) (ts : TS) (n : UInt64) (m : Bytes) (cap : Nat) :
    (m.length > 65535 → ts.stRead S n m cap = (.err .input, [], [])) ∧
    (m.length < 16 → ∀ pl, (ts.stRead S n m cap).1 ≠ .ok pl) ∧
    (∀ pl buf ev, ts.stRead S n m cap = (.ok pl, buf, ev) →
      16 ≤ m.length ∧ m.length ≤ 65535 ∧ m.length - 16 ≤ cap ∧
      (S.DecLen → pl.length = m.length - 16 ∧ pl.length ≤ cap)) := by
  have key : ∀ pl buf ev, ts.stRead S n m cap = (.ok pl, buf, ev) →
      16 ≤ m.length ∧ m.length ≤ 65535 ∧ m.length - 16 ≤ cap ∧
      (S.DecLen → pl.length = m.length - 16 ∧ pl.length ≤ cap) := by
    intro pl buf ev h
    unfold TS.stRead at h
    by_cases h0 : m.length > 65535
    · simp [h0] at h
    · by_cases h1 : (ts.initiator && ts.oneway) = true
      · simp [h0, h1] at h
      · simp only [h0, h1, ↓reduceIte, Bool.false_eq_true] at h
        obtain ⟨a, b, hq⟩ := TS.stDecrypt_ok h
        refine ⟨a, by omega, b, fun hD => ?_⟩
        have := hD _ _ _ _ _ hq
        omega
  refine ⟨?_, ?_, key⟩
  · intro h0
    unfold TS.stRead; simp only [h0, ↓reduceIte]
  · intro hs pl hn
    cases hr : ts.stRead S n m cap with
    | mk r rest =>
      obtain ⟨buf, ev⟩ := rest
      rw [hr] at hn
      simp only at hn
      subst hn
      have := (key pl buf ev hr).1
      omega

/-! ### Non-vacuity: concrete runs with the toy suite -/

namespace Ex
open SnowVerif.C14Toy

def S0 : Suite := Toy.suite 0 0 0

/-- An XX handshake state over the toy suite (name and prologue are irrelevant to framing). -/
def mkHS (init : Bool) (spriv rng : Bytes) : HS :=
  { sym := (Sym.init S0 [78, 111, 105, 115, 101]).mixHash S0 [], cs1 := CipherState.new, cs2 := CipherState.new,
    s := { val := { priv := spriv, pub := S0.pubOf spriv }, on := true },
    e := { val := { priv := Bytes.zeros 32, pub := Bytes.zeros 32 }, on := false }, fixedE := false,
    rs := { val := Bytes.zeros 32, on := false }, re := { val := Bytes.zeros 32, on := false },
    initiator := init, isPsk := false, oneway := false, psks := List.replicate 10 none, myTurn := init,
    msgs := Generated.Pattern.pXX.tokens.msgs, pos := 0, rng := rng }

def i0 : HS := mkHS true (List.replicate 32 1) (List.replicate 32 7)
def r0 : HS := mkHS false (List.replicate 32 2) (List.replicate 32 9)
/-- Message 1 (`-> e`), written by the initiator and read by the responder. -/
def w1 := i0.writeMessage S0 [] 1000
def r1 := r0.readMessage S0 w1.2.2.1 1000
/-- Message 2 (`<- e, ee, s, es`) with a 3-byte payload into a buffer of `cap` bytes. -/
def w2 (cap : Nat) := r1.2.1.writeMessage S0 [0xAA, 0xBB, 0xCC] cap
/-- The initiator reads (a prefix of) message 2. -/
def i1 : HS := w1.2.1
def rd2 (k : Nat) := i1.readMessage S0 ((w2 1000).2.2.1.take k) 1000

/-- `i0` is what `Builder::build` returns for the XX initiator with these keys (so `build_ready`
    and `write_len_spec_reachable` are not vacuous). -/
example : build S0 ⟨true, true, true, true⟩
    { pattern := .pXX, mods := [], name := [78, 111, 105, 115, 101], initiator := true,
      s := some (List.replicate 32 1), eFixed := none, rs := none, psks := List.replicate 10 none,
      prologue := [], rng := List.replicate 32 7 } = .ok i0 := by decide +kernel

/-- XX message 2: `e` (32) + encrypted `s` (32+16) + payload (3) + tag (16) = 99, both as the
    pure length function and as what the model of the code returns. -/
example : msgLen S0 false [.e, .ee, .s, .es] false 3 = 32 + 48 + 3 + 16 := by decide
example : (w2 1000).1 = .ok (32 + 48 + 3 + 16) := by decide +kernel
example : (w2 1000).2.2.1.length = 99 := by decide +kernel

/-- The hypotheses of `write_len` / `write_too_big_input` hold of the responder before message 2. -/
theorem r1_wf : KeysWf S0 r1.2.1 := ⟨by decide +kernel, by decide +kernel⟩
/-- No earlier error intervenes for the responder's message 2 (witness: a 1000-byte buffer). -/
theorem r1_pass : TokensPass S0 r1.2.1 := ⟨by decide +kernel, by decide +kernel, 1000, by decide +kernel⟩
example : KeyedInv r1.2.1 := by unfold KeyedInv; decide +kernel
example : PskOkMsgs r1.2.1.isPsk r1.2.1.msgs false = true := by decide +kernel

/-- The exact boundary: a 99-byte buffer suffices, 98 bytes give `Input`; the latter also as an
    instance of `write_too_big_input`. -/
example : (w2 99).1 = .ok 99 ∧ (w2 98).1 = .err .input ∧ (w2 70).1 = .err .input ∧ (w2 0).1 = .err .input := by
  decide +kernel
example : (w2 98).1 = .err .input :=
  write_too_big_input S0 (toy_encLen 0 0 0) (toy_pubLen 0 0 0) r1.2.1 _ 98 r1_wf r1_pass
    (Or.inr (Or.inl (by decide +kernel)))

/-- The 16 bytes of slack the code demands when the payload is NOT encrypted: XX message 1 with
    an empty payload is 32 bytes long but needs a 48-byte buffer. -/
example : (i0.writeMessage S0 [] 48).1 = .ok 32 ∧ (i0.writeMessage S0 [] 47).1 = .err .input := by
  decide +kernel

/-- Reading message 2: the payload is message length minus the overhead 96; one byte short of the
    fixed fields + tag is rejected; a message ending inside the `s` field gives `Input`. -/
example : (rd2 99).1 = .ok [0xAA, 0xBB, 0xCC] := by decide +kernel
example : (rd2 95).1 = .err .decrypt := by decide +kernel
example : (rd2 79).1 = .err .input ∧ (rd2 31).1 = .err .input := by decide +kernel

/-- psk patterns: for NNpsk0 (`-> psk, e`, `<- e, ee`) and NNpsk2 the agreement condition holds
    (instances of `pskOk_tables`), and the code's first-message length is the specification's. -/
example : PskOkMsgs true [[.psk 0, .e], [.e, .ee]] false = true := by decide
example : msgLen S0 true [.psk 0, .e] false 5 = Spec.msgLen S0 true [.psk 0, .e] false 5 := by decide
example : ∃ inst, handshakeTokens .pNN [.psk 2] = .ok inst ∧ PskOkMsgs true inst.msgs false = true := by
  refine ⟨_, rfl, by decide⟩

/-- The agreement condition is needed: on the (non-table) token list `psk, s` in an un-keyed state
    the code sends the static key in clear (32 bytes) where the specification encrypts it (48). -/
example : PskOk true [.psk 0, .s] false = false ∧
    (fieldsLen S0 true [.psk 0, .s] false).1 = 32 ∧ (Spec.fieldsLen S0 true [.psk 0, .s] false).1 = 48 := by decide

/-- Transport: a state that may send; 3-byte payload gives a 19-byte message, an 18-byte buffer
    or a 65520-byte payload gives `Input`. -/
def ts0 : TS :=
  { cs1 := { key := Bytes.zeros 32, n := 5, hasKey := true }, cs2 := { key := Bytes.zeros 32, n := 0, hasKey := true },
    oneway := false, pubLen := 32, rs := { val := [], on := false }, initiator := true }
example : (ts0.writeMessage S0 [1, 2, 3] 19).1.isOk = true ∧ (ts0.writeMessage S0 [1, 2, 3] 18).1 = .err .input := by
  decide +kernel
example : ∃ c ts' ev, ts0.writeMessage S0 [1, 2, 3] 19 = (.ok c, ts', ev) ∧ c.length = 19 := by
  refine ⟨_, _, _, rfl, by decide +kernel⟩

end Ex

end SnowVerif.Theorems.C14
