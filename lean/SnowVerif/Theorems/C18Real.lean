/-
  C18Real  The `Suite` laws for the suites built from the Lean reference implementations of
  the REAL primitives (`SnowVerif/Crypto/Real.lean`: `cipherImpl`, `hashImpl`, `dhImpl`,
  `mkSuite`), i.e. for the very suites the differential test runs against the Rust crates.

  The laws hold by construction of the wrappers, for ALL inputs, without reasoning about the
  bodies of sha2 / blake2 / chacha20poly1305 / aes-gcm / x25519 / p256:

  * hashes: `hash d = fit hashLen (reference d)`                       ⟹ `HashLen`, `Sizes`;
  * AEADs:  `enc = smEnc ks mac`, `dec = smDec ks mac` with `ks` = the reference stream cipher
            on zeros (fitted to the requested length) and `mac` = the reference tag function
            (fitted to 16 bytes)            ⟹ `EncLen`, `DecEnc`, `DecSound`, `DecLen`, `DecTag`;
  * DH:     outputs fitted to `pubLen` / `dhLen`   ⟹ `PubLen`, `DhLen`; X25519 is total and
            accepts every private key              ⟹ `DhTotal`, `PrivTotal`;
  * `okBuf` starts with the plaintext                                  ⟹ `OkBufPrefix`.

  That these wrappers compute the same bytes as the Rust crates (and as the references' own
  one-piece `aeadEncrypt` / `gcmEncrypt` / ...) is NOT proved here: it is checked by the
  known-answer tests (`Real.selfTest`, including `Real.wrapperSelfTest`) and byte for byte by
  the differential test on every check run.

  STILL ASSUMED after this file (and nothing else):
  * `DhComm` for X25519 and for P-256 (commutativity of the Montgomery ladder / of scalar
    multiplication on the curve: a theorem about the reference arithmetic, out of scope here);
  * for P-256 `DhTotal` and `PrivTotal` are not assumed but FALSE (`p256_not_privTotal`,
    `p256_not_dhTotal`): theorems that need them do not apply to P-256 suites.

  All statements are for every backend value (`toy`, `default`, `ring`) and every selector
  value; for the `toy` backend (and the selector/backend combinations `dhImpl` maps to the toy
  DH) they restate `Theorems/C18.lean`.
-/
import SnowVerif.Lemmas.C18Real
import SnowVerif.Lemmas.C01CompleteSym
import SnowVerif.Theorems.C18
import SnowVerif.Theorems.C01
import SnowVerif.Theorems.C03Main

namespace SnowVerif.Theorems.C18Real
open SnowVerif SnowVerif.Bytes SnowVerif.C18 SnowVerif.C18Real
set_option linter.unusedVariables false
set_option linter.unusedSimpArgs false

/-! ## 1. AEADs -/

/-- **AEAD laws for the real ciphers.** For every DH and hash component, every backend `cb` used
    for the buffer conventions and every backend `b` / selector `sel` of the cipher (ChaChaPoly,
    XChaChaPoly, AESGCM on `default` and `ring`; the toy AEADs on `toy`), the suite satisfies:
    ciphertext = plaintext length + 16; decryption inverts encryption for all keys, nonces, AD
    and plaintexts; only encryptions are accepted (so each `(k, n, ad, c)` has at most one
    plaintext and the tag is checked over everything); accepted ciphertexts are exactly 16 bytes
    longer than the plaintext returned. -/
theorem real_cipher_laws (d : Real.DhImpl) (cb b : Real.Backend) (sel : Nat) (h : Real.HashImpl) :
    (Real.mkSuite d cb (Real.cipherImpl b sel) h).EncLen
      ∧ (Real.mkSuite d cb (Real.cipherImpl b sel) h).DecEnc
      ∧ (Real.mkSuite d cb (Real.cipherImpl b sel) h).DecSound
      ∧ (Real.mkSuite d cb (Real.cipherImpl b sel) h).DecLen
      ∧ (Real.mkSuite d cb (Real.cipherImpl b sel) h).DecTag := by
  have hc := cipherImpl_isStreamMac b sel
  have hE := mkSuite_encLen d cb _ h hc
  have hS := mkSuite_decSound d cb _ h hc
  exact ⟨hE, mkSuite_decEnc d cb _ h hc, hS, Suite.decLen_of_sound _ hS hE, Suite.decTag_of_sound _ hS hE⟩

/-- The same on the `CipherImpl` itself (what `snowdrv` calls for primitive-level operations):
    every real AEAD wrapper is a stream+MAC AEAD in the sense of `Theorems/C18.lean`. -/
theorem real_cipher_streamMac (b : Real.Backend) (sel : Nat) :
    ∃ A : C18.StreamMac, (Real.cipherImpl b sel).enc = A.enc ∧ (Real.cipherImpl b sel).dec = A.dec := by
  obtain ⟨ks, mac, hk, hm, he, hd⟩ := cipherImpl_isStreamMac b sel
  exact ⟨⟨ks, mac, hk, hm⟩, he, hd⟩

/-- For fixed key, nonce and AD the real AEADs are injective in the plaintext. -/
theorem real_cipher_enc_injective (b : Real.Backend) (sel : Nat) (k : Bytes) (n : UInt64) (ad p q : Bytes)
    (h : (Real.cipherImpl b sel).enc k n ad p = (Real.cipherImpl b sel).enc k n ad q) : p = q := by
  obtain ⟨A, he, hd⟩ := real_cipher_streamMac b sel
  rw [he] at h
  exact C18.streamMac_enc_injective A k n ad p q h

/-- The output-buffer convention of every backend leaves the plaintext at the start of the buffer
    after a successful decrypt. -/
theorem real_okBufPrefix (d : Real.DhImpl) (cb : Real.Backend) (c : Real.CipherImpl) (h : Real.HashImpl) :
    (Real.mkSuite d cb c h).OkBufPrefix :=
  mkSuite_okBufPrefix d cb c h

/-! ## 2. Hashes -/

/-- **Hash laws for the real hashes.** SHA-256, SHA-512, BLAKE2s, BLAKE2b (selectors 0-3 on
    `default` / `ring`; every other selector value is BLAKE2b) and the toy hashes return exactly
    `hashLen` bytes on every input, and their sizes satisfy snow's array constraints
    `32 ≤ hashLen ≤ 64 ≤ blockLen ≤ 128`. -/
theorem real_hash_laws (d : Real.DhImpl) (cb : Real.Backend) (c : Real.CipherImpl) (b : Real.Backend) (sel : Nat) :
    (Real.mkSuite d cb c (Real.hashImpl b sel)).HashLen ∧ (Real.mkSuite d cb c (Real.hashImpl b sel)).Sizes :=
  ⟨mkSuite_hashLen d cb c b sel, mkSuite_sizes d cb c b sel⟩

/-- The same on the `HashImpl` itself. -/
theorem real_hash_length (b : Real.Backend) (sel : Nat) (data : Bytes) :
    ((Real.hashImpl b sel).hash data).length = (Real.hashImpl b sel).hashLen :=
  hashImpl_hashLen b sel data

/-! ## 3. DH -/

/-- **X25519.** Public keys have 32 bytes, shared secrets have 32 bytes, `dh` never fails and every
    private key is accepted (`Dh::set` / `Dh::generate` never panic), for all inputs. -/
theorem real_dh25519_laws (cb : Real.Backend) (c : Real.CipherImpl) (h : Real.HashImpl) :
    (Real.mkSuite (Real.dhImpl .default 0) cb c h).PubLen
      ∧ (Real.mkSuite (Real.dhImpl .default 0) cb c h).DhLen
      ∧ (Real.mkSuite (Real.dhImpl .default 0) cb c h).DhTotal
      ∧ (Real.mkSuite (Real.dhImpl .default 0) cb c h).PrivTotal :=
  ⟨fun a => x25519_pubLen a, fun a p r hr => x25519_dhLen a p r hr,
    fun a b => x25519_dh_isSome a _, fun a => x25519_validPriv a⟩

/-- **P-256.** Public keys have 65 bytes and shared secrets, when `dh` succeeds, 32 bytes. -/
theorem real_p256_laws (cb : Real.Backend) (c : Real.CipherImpl) (h : Real.HashImpl) :
    (Real.mkSuite (Real.dhImpl .default 2) cb c h).PubLen
      ∧ (Real.mkSuite (Real.dhImpl .default 2) cb c h).DhLen :=
  ⟨fun a => p256_pubLen a, fun a p r hr => p256_dhLen a p r hr⟩

/-- The DH laws of a `mkSuite` only talk about its `DhImpl` (stated with a variable `d`, so that
    no closed term is reduced by the elaborator). -/
theorem privTotal_apply (d : Real.DhImpl) (cb : Real.Backend) (c : Real.CipherImpl) (h : Real.HashImpl)
    (hp : (Real.mkSuite d cb c h).PrivTotal) (a : Bytes) : d.validPriv a = true := hp a

theorem dhTotal_apply (d : Real.DhImpl) (cb : Real.Backend) (c : Real.CipherImpl) (h : Real.HashImpl)
    (hp : (Real.mkSuite d cb c h).DhTotal) (a b : Bytes) : (d.dh a (d.pubOf b)).isSome = true := hp a b

/-- `PrivTotal` is false for P-256: the all-zero scalar is rejected (`Dh::set` panics on it). -/
theorem p256_not_privTotal (cb : Real.Backend) (c : Real.CipherImpl) (h : Real.HashImpl) :
    ¬ (Real.mkSuite (Real.dhImpl .default 2) cb c h).PrivTotal := by
  intro hp
  have h1 := privTotal_apply _ cb c h hp (zeros 32)
  rw [p256_zero_invalid] at h1
  exact Bool.noConfusion h1

/-- `DhTotal` is false for P-256 (in the total model): `dh` with the all-zero scalar fails. -/
theorem p256_not_dhTotal (cb : Real.Backend) (c : Real.CipherImpl) (h : Real.HashImpl) :
    ¬ (Real.mkSuite (Real.dhImpl .default 2) cb c h).DhTotal := by
  intro hp
  have h1 := dhTotal_apply _ cb c h hp (zeros 32) []
  rw [p256_zero_dh] at h1
  exact Bool.noConfusion h1

/-- `PubLen` and `DhLen` for EVERY `dhImpl` (X25519, P-256, and the toy DH that all other
    backend / selector combinations map to). -/
theorem real_dh_len_laws (b : Real.Backend) (sel : Nat) (cb : Real.Backend) (c : Real.CipherImpl)
    (h : Real.HashImpl) :
    (Real.mkSuite (Real.dhImpl b sel) cb c h).PubLen ∧ (Real.mkSuite (Real.dhImpl b sel) cb c h).DhLen := by
  by_cases hx : b = .default ∧ (sel = 0 ∨ sel = 2)
  · obtain ⟨rfl, rfl | rfl⟩ := hx
    · exact ⟨(real_dh25519_laws cb c h).1, (real_dh25519_laws cb c h).2.1⟩
    · exact real_p256_laws cb c h
  · refine ⟨fun a => ?_, fun a p r hr => ?_⟩
    · show ((Real.dhImpl b sel).pubOf a).length = (Real.dhImpl b sel).pubLen
      rw [dhImpl_toy b sel hx]
      exact C18.toy_suite_pubLen sel 0 0 a
    · have hr' : (Real.dhImpl b sel).dh a p = some r := hr
      show r.length = (Real.dhImpl b sel).dhLen
      rw [dhImpl_toy b sel hx] at hr' ⊢
      exact C18.toy_suite_dhLen sel 0 0 a p r hr'

/-- `DhTotal` and `PrivTotal` for every `dhImpl` except P-256. -/
theorem real_dh_total_laws (b : Real.Backend) (sel : Nat) (hne : ¬ (b = .default ∧ sel = 2))
    (cb : Real.Backend) (c : Real.CipherImpl) (h : Real.HashImpl) :
    (Real.mkSuite (Real.dhImpl b sel) cb c h).DhTotal ∧ (Real.mkSuite (Real.dhImpl b sel) cb c h).PrivTotal := by
  by_cases hx : b = .default ∧ (sel = 0 ∨ sel = 2)
  · obtain ⟨rfl, rfl | rfl⟩ := hx
    · exact ⟨(real_dh25519_laws cb c h).2.2.1, (real_dh25519_laws cb c h).2.2.2⟩
    · exact absurd ⟨rfl, rfl⟩ hne
  · refine ⟨fun a b' => ?_, fun a => ?_⟩
    · show ((Real.dhImpl b sel).dh a ((Real.dhImpl b sel).pubOf b')).isSome = true
      rw [dhImpl_toy b sel hx]
      exact C18.toy_suite_dhTotal sel 0 0 a b'
    · show (Real.dhImpl b sel).validPriv a = true
      rw [dhImpl_toy b sel hx]
      rfl

/-- `DhComm` for the `dhImpl`s that are the toy DH (everything except X25519 and P-256 on
    `default`). For X25519 and P-256 it stays an assumption. -/
theorem toy_dh_comm (b : Real.Backend) (sel : Nat) (hx : ¬ (b = .default ∧ (sel = 0 ∨ sel = 2)))
    (cb : Real.Backend) (c : Real.CipherImpl) (h : Real.HashImpl) :
    (Real.mkSuite (Real.dhImpl b sel) cb c h).DhComm := by
  intro a b'
  show (Real.dhImpl b sel).dh a ((Real.dhImpl b sel).pubOf b') = (Real.dhImpl b sel).dh b' ((Real.dhImpl b sel).pubOf a)
  rw [dhImpl_toy b sel hx]
  exact C18.toy_suite_dhComm sel 0 0 a b'

/-! ## 4. Whole suites -/

/-- The suite `snowdrv` assembles for DH backend / selector `db dsel`, cipher backend / selector
    `cb csel` and hash backend / selector `hb hsel`. -/
def realSuite (db : Real.Backend) (dsel : Nat) (cb : Real.Backend) (csel : Nat) (hb : Real.Backend) (hsel : Nat) : Suite :=
  Real.mkSuite (Real.dhImpl db dsel) cb (Real.cipherImpl cb csel) (Real.hashImpl hb hsel)

/-- **All laws of a whole real suite.** For every choice of backends and selectors:
    `HashLen`, `Sizes`, `EncLen`, `DecEnc`, `DecSound`, `DecLen`, `DecTag`, `OkBufPrefix`, `PubLen`,
    `DhLen` hold outright; `DhTotal` and `PrivTotal` hold unless the DH is P-256 (for which they
    are false); `DhComm` holds for the toy DH.
    What remains ASSUMED when a theorem is applied to a real suite is therefore exactly:
    `DhComm` for X25519 (`default`, 0) and P-256 (`default`, 2). Theorems that need `DhTotal` or
    `PrivTotal` do not apply to P-256 suites. -/
theorem real_suite_laws (db : Real.Backend) (dsel : Nat) (cb : Real.Backend) (csel : Nat)
    (hb : Real.Backend) (hsel : Nat) :
    (realSuite db dsel cb csel hb hsel).HashLen ∧ (realSuite db dsel cb csel hb hsel).Sizes
      ∧ (realSuite db dsel cb csel hb hsel).EncLen ∧ (realSuite db dsel cb csel hb hsel).DecEnc
      ∧ (realSuite db dsel cb csel hb hsel).DecSound ∧ (realSuite db dsel cb csel hb hsel).DecLen
      ∧ (realSuite db dsel cb csel hb hsel).DecTag ∧ (realSuite db dsel cb csel hb hsel).OkBufPrefix
      ∧ (realSuite db dsel cb csel hb hsel).PubLen ∧ (realSuite db dsel cb csel hb hsel).DhLen
      ∧ (¬ (db = .default ∧ dsel = 2) →
          (realSuite db dsel cb csel hb hsel).DhTotal ∧ (realSuite db dsel cb csel hb hsel).PrivTotal)
      ∧ (¬ (db = .default ∧ (dsel = 0 ∨ dsel = 2)) → (realSuite db dsel cb csel hb hsel).DhComm) := by
  obtain ⟨c1, c2, c3, c4, c5⟩ := real_cipher_laws (Real.dhImpl db dsel) cb cb csel (Real.hashImpl hb hsel)
  obtain ⟨h1, h2⟩ := real_hash_laws (Real.dhImpl db dsel) cb (Real.cipherImpl cb csel) hb hsel
  obtain ⟨d1, d2⟩ := real_dh_len_laws db dsel cb (Real.cipherImpl cb csel) (Real.hashImpl hb hsel)
  exact ⟨h1, h2, c1, c2, c3, c4, c5, real_okBufPrefix _ _ _ _, d1, d2,
    fun hne => real_dh_total_laws db dsel hne cb _ _, fun hx => toy_dh_comm db dsel hx cb _ _⟩

/-- The standard real suite `Noise_*_25519_ChaChaPoly_SHA256` on the default backend: every law
    of `Suite` except `DhComm`. -/
theorem real_default_suite_laws :
    let S := realSuite .default 0 .default 0 .default 0
    S.HashLen ∧ S.Sizes ∧ S.EncLen ∧ S.DecEnc ∧ S.DecSound ∧ S.DecLen ∧ S.DecTag ∧ S.OkBufPrefix
      ∧ S.PubLen ∧ S.DhLen ∧ S.DhTotal ∧ S.PrivTotal := by
  intro S
  obtain ⟨a1, a2, a3, a4, a5, a6, a7, a8, a9, a10, a11, _⟩ := real_suite_laws .default 0 .default 0 .default 0
  have := a11 (by decide)
  exact ⟨a1, a2, a3, a4, a5, a6, a7, a8, a9, a10, this.1, this.2⟩

/-! ## 5. Payoff: theorems about snow instantiated for the real suites, with no assumed law -/

open SnowVerif.Model SnowVerif.Model.HS SnowVerif.C01 in
/-- **C01 (write) for the real suites, unconditionally.** With X25519 / P-256, ChaChaPoly /
    XChaChaPoly / AESGCM, SHA-256 / SHA-512 / BLAKE2s / BLAKE2b computed by the reference
    implementations (any backend and selector values): from any state returned by
    `Builder::build`, after any history of handshake calls, a successful `write_message`
    produces byte for byte the message the Noise specification's `WriteMessage` defines.
    No law of the suite is left as a hypothesis. -/
theorem real_write_refines_spec (db : Real.Backend) (dsel : Nat) (cb : Real.Backend) (csel : Nat)
    (hb : Real.Backend) (hsel : Nat) (av : Avail) (c : BuildCfg)
    (hs0 : HS) (hbd : build (realSuite db dsel cb csel hb hsel) av c = .ok hs0) (ops : List C11.Op)
    (np : ∀ (pre : List C11.Op) (op : C11.Op) (post : List C11.Op), ops = pre ++ op :: post →
      C11.NoPanic (realSuite db dsel cb csel hb hsel) (C11.run (realSuite db dsel cb csel hb hsel) hs0 pre) op)
    (p : Bytes) (cap : Nat) (n : Nat) (hs' : HS) (acc : Bytes) (ev : List Event)
    (h : (C11.run (realSuite db dsel cb csel hb hsel) hs0 ops).writeMessage (realSuite db dsel cb csel hb hsel) p cap
      = (.ok n, hs', acc, ev)) :
    Spec.HandshakeState.writeMessage (realSuite db dsel cb csel hb hsel)
        (absHS (C11.run (realSuite db dsel cb csel hb hsel) hs0 ops)) p ⟨hs'.e.val.priv, hs'.e.val.pub⟩ =
      some (acc, absHS hs', if hs'.isHandshakeFinished then some (absCS hs'.cs1, absCS hs'.cs2) else none) ∧
    n = acc.length :=
  have L := real_suite_laws db dsel cb csel hb hsel
  have R := C01.write_refines_spec_reachable _ L.1 L.2.1 av c hs0 hbd ops np p cap n hs' acc ev h
  ⟨R.1, R.2.1⟩

open SnowVerif.Model SnowVerif.Model.HS SnowVerif.C01 SnowVerif.C03Run SnowVerif.Spec.Integrity in
/-- **C03_main for the real suites, unconditionally.** For every real suite, every table pattern
    and accepted modifier list and every pair of sessions built for it: if every call of both
    parties returned `ok` although some handshake message other than the last was altered in
    transit (and the last was delivered as sent), then the run exhibits a hash collision / KDF
    coincidence or an AEAD ciphertext valid in two contexts -- of SHA-2 / BLAKE2 / ChaChaPoly /
    AES-GCM as computed by the references. No law of the suite is left as a hypothesis. -/
theorem real_C03_main (db : Real.Backend) (dsel : Nat) (cb : Real.Backend) (csel : Nat)
    (hb : Real.Backend) (hsel : Nat)
    (av : Avail) (cI cR : BuildCfg) (A B : HS)
    (hA : build (realSuite db dsel cb csel hb hsel) av cI = .ok A)
    (hB : build (realSuite db dsel cb csel hb hsel) av cR = .ok B)
    (hi : cI.initiator = true) (hr : cR.initiator = false)
    (hp : cI.pattern = cR.pattern) (hm : cI.mods = cR.mods)
    (steps : List MStep) (hlen : steps.length = A.msgs.length)
    (A' B' : HS) (tr : List Sent)
    (h : altRun (realSuite db dsel cb csel hb hsel) true A B steps = some (A', B', tr))
    (halt : ∃ i x, i + 1 < tr.length ∧ tr[i]? = some x ∧ x.altered)
    (hlast : ∀ x, tr.getLast? = some x → ¬ x.altered) :
    Coll (realSuite db dsel cb csel hb hsel) ∨ AeadCollision (realSuite db dsel cb csel hb hsel) :=
  have L := real_suite_laws db dsel cb csel hb hsel
  C03Main.C03_main _ L.1 L.2.1 L.2.2.1 L.2.2.2.2.1 L.2.2.2.2.2.2.2.2.1 av cI cR A B hA hB hi hr hp hm steps hlen
    A' B' tr h halt hlast

/-! ## 6. Non-vacuity: the laws on concrete values of the real primitives (kernel evaluation) -/

/-- Real ChaCha20-Poly1305 (default backend) on a concrete input: the ciphertext (19 bytes =
    3 + 16), the round trip, and rejection after flipping one body byte or changing the AD: so
    `DecSound`'s hypothesis is neither always true nor always false for the real cipher. -/
example :
    (Real.cipherImpl .default 0).enc (zeros 32) 7 [1] [10, 20, 30]
      = [50, 44, 230, 56, 96, 68, 133, 192, 166, 177, 222, 105, 132, 63, 84, 217, 19, 181, 83]
    ∧ (Real.cipherImpl .default 0).dec (zeros 32) 7 [1]
        [50, 44, 230, 56, 96, 68, 133, 192, 166, 177, 222, 105, 132, 63, 84, 217, 19, 181, 83] = some [10, 20, 30]
    ∧ (Real.cipherImpl .default 0).dec (zeros 32) 7 [1]
        [51, 44, 230, 56, 96, 68, 133, 192, 166, 177, 222, 105, 132, 63, 84, 217, 19, 181, 83] = none
    ∧ (Real.cipherImpl .default 0).dec (zeros 32) 7 [2]
        [50, 44, 230, 56, 96, 68, 133, 192, 166, 177, 222, 105, 132, 63, 84, 217, 19, 181, 83] = none := by
  decide +kernel

/-- Real SHA-256 through the wrapper: the digest of `01 02 03` (the `fit` is the identity here). -/
example : (Real.hashImpl .default 0).hash [1, 2, 3]
    = [3, 144, 88, 198, 242, 192, 203, 73, 44, 83, 59, 10, 77, 20, 239, 119, 204, 15, 120, 171, 204, 206, 213,
       40, 125, 132, 161, 162, 1, 28, 251, 129]
    ∧ (Real.hashImpl .default 0).hash [1, 2, 3] = Crypto.Sha2.sha256 [1, 2, 3] := by
  decide +kernel

/-- The one law left assumed, `DhComm`, on concrete keys: real X25519 and real P-256 agree on
    both sides, succeed, and depend on the peer key. -/
example :
    (Real.dhImpl .default 0).dh [1, 2, 3] ((Real.dhImpl .default 0).pubOf [4, 5, 6])
      = (Real.dhImpl .default 0).dh [4, 5, 6] ((Real.dhImpl .default 0).pubOf [1, 2, 3])
    ∧ (Real.dhImpl .default 0).dh [1, 2, 3] ((Real.dhImpl .default 0).pubOf [4, 5, 6])
      ≠ (Real.dhImpl .default 0).dh [1, 2, 3] ((Real.dhImpl .default 0).pubOf [4, 5, 7])
    ∧ (Real.dhImpl .default 2).dh [1, 2, 3] ((Real.dhImpl .default 2).pubOf [4, 5, 6])
      = (Real.dhImpl .default 2).dh [4, 5, 6] ((Real.dhImpl .default 2).pubOf [1, 2, 3])
    ∧ ((Real.dhImpl .default 2).dh [1, 2, 3] ((Real.dhImpl .default 2).pubOf [4, 5, 6])).isSome = true := by
  decide +kernel

/-- `realSuite` is what it says: names of the standard suite. -/
example : (realSuite .default 0 .default 0 .default 0).dhName = "25519"
    ∧ (realSuite .default 0 .default 0 .default 0).cipherName = "ChaChaPoly"
    ∧ (realSuite .default 0 .default 0 .default 0).hashName = "SHA256" := ⟨rfl, rfl, rfl⟩

end SnowVerif.Theorems.C18Real
