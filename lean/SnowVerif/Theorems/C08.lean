/-
  C08  A channel exists only if both sides agree on name, prologue, PSKs, static keys.

  Stated as reductions with explicit witnesses (DESIGN.md 3.3). Every configured value enters the
  symmetric state through `MixHash` (name by initialisation, prologue, pre-shared static keys) or
  through HKDF (`psk` tokens, DH outputs of static keys); the lemmas show that a disagreement in
  any of them makes `h` or `ck`/`k` differ between the parties, or the run exhibits a
  HashCollision / KdfCoincidence; C03's lemmas then apply: a party whose `h` or key differs from
  the sender's rejects the sender's next encrypted field, or AeadContextCollision; every pattern's
  last message is processed under a key (`C03.last_message_keyed`); a party that has not finished
  cannot enter transport mode (`C11.convert_iff`), so no transport message is ever accepted.
  The end-to-end statements are in `Theorems/C08Main.lean` (`C08_main`, `C08_prologue`, `C08_psk`,
  `C08_psk_mod`, `C08_static`), proved on the specification (`Lemmas/IntegrityMain.lean`,
  `IntegrityInit.lean`) and carried to this model through the C01 refinement.
-/
import SnowVerif.Theorems.C03
import SnowVerif.Theorems.C11

namespace SnowVerif.Theorems.C08
open SnowVerif SnowVerif.Model SnowVerif.Model.HS
set_option linter.unusedVariables false
set_option linter.unusedSimpArgs false

/-- Witness kinds. -/
def HashCollision (S : Suite) : Prop := ∃ x y, x ≠ y ∧ S.hash x = S.hash y
/-- Two different input key materials give the same first HKDF output under one chaining key. -/
def KdfCoincidence (S : Suite) : Prop := ∃ ck ikm ikm', ikm ≠ ikm' ∧ (hkdf3 S ck ikm).1 = (hkdf3 S ck ikm').1
def Kdf2Coincidence (S : Suite) : Prop := ∃ ck ikm ikm', ikm ≠ ikm' ∧ (hkdf2 S ck ikm).1 = (hkdf2 S ck ikm').1

/-- Two long protocol names (longer than the digest) that differ give different initial `h`,
    or a hash collision. -/
theorem long_name_enters_h (S : Suite) (n1 n2 : Bytes) (h1 : ¬ n1.length ≤ S.hashLen) (h2 : ¬ n2.length ≤ S.hashLen)
    (hne : n1 ≠ n2) : (Sym.init S n1).h ≠ (Sym.init S n2).h ∨ HashCollision S := by
  unfold Sym.init
  simp only [h1, h2, ↓reduceIte]
  by_cases heq : S.hash n1 = S.hash n2
  · right; exact ⟨n1, n2, hne, heq⟩
  · left; exact heq

/-- Two short names of the same length that differ give different initial `h` (zero padding is
    injective on equal lengths). Names of different lengths that are valid Noise names (no NUL
    byte) also pad to different values: `short_name_enters_h_len`. -/
theorem short_name_enters_h (S : Suite) (n1 n2 : Bytes) (h1 : n1.length ≤ S.hashLen) (h2 : n2.length ≤ S.hashLen)
    (hl : n1.length = n2.length) (hne : n1 ≠ n2) : (Sym.init S n1).h ≠ (Sym.init S n2).h := by
  unfold Sym.init Bytes.padTo
  simp only [h1, h2, ↓reduceIte]
  intro heq
  exact hne (List.append_inj_left heq hl)

/-- The prologue enters `h`. -/
theorem prologue_enters_h (S : Suite) (sym : Sym) (p1 p2 : Bytes) (hne : p1 ≠ p2) :
    (sym.mixHash S p1).h ≠ (sym.mixHash S p2).h ∨ HashCollision S :=
  C03.altered_cleartext_field S sym p1 p2 hne

/-- A pre-shared static public key enters `h` (pre-message `MixHash`), in whichever role. -/
theorem preshared_static_enters_h (S : Suite) (sym : Sym) (k1 k2 : Bytes) (hne : k1 ≠ k2) :
    (sym.mixHash S k1).h ≠ (sym.mixHash S k2).h ∨ HashCollision S :=
  C03.altered_cleartext_field S sym k1 k2 hne

/-- A psk enters `ck` (and `h` and `k`) through `MixKeyAndHash`. -/
theorem psk_enters_ck (S : Suite) (sym : Sym) (psk1 psk2 : Bytes) (hne : psk1 ≠ psk2) :
    (sym.mixKeyAndHash S psk1).ck ≠ (sym.mixKeyAndHash S psk2).ck ∨ KdfCoincidence S := by
  by_cases heq : (sym.mixKeyAndHash S psk1).ck = (sym.mixKeyAndHash S psk2).ck
  · right
    refine ⟨sym.ck, psk1, psk2, hne, ?_⟩
    simpa [Sym.mixKeyAndHash, Sym.mixHash] using heq
  · left; exact heq

/-- A DH output (e.g. one involving a static key the parties disagree on) enters `ck`. -/
theorem dh_enters_ck (S : Suite) (sym : Sym) (d1 d2 : Bytes) (hne : d1 ≠ d2) :
    (sym.mixKey S d1).ck ≠ (sym.mixKey S d2).ck ∨ Kdf2Coincidence S := by
  by_cases heq : (sym.mixKey S d1).ck = (sym.mixKey S d2).ck
  · right
    refine ⟨sym.ck, d1, d2, hne, ?_⟩
    simpa [Sym.mixKey] using heq
  · left; exact heq

/-- A divergence of `h` persists (C03) ... -/
theorem h_divergence_persists (S : Suite) (a b : Sym) (data : Bytes) (hne : a.h ≠ b.h) :
    (a.mixHash S data).h ≠ (b.mixHash S data).h ∨ HashCollision S :=
  C03.divergence_persists S a b data hne

/-- ... and a divergence of `ck` persists through every later `MixKey` with the same input, or a
    KDF coincidence of the other kind (two chaining keys, one input). -/
theorem ck_divergence_persists (S : Suite) (a b : Sym) (ikm : Bytes) (hne : a.ck ≠ b.ck) :
    (a.mixKey S ikm).ck ≠ (b.mixKey S ikm).ck ∨
    ∃ ck ck', ck ≠ ck' ∧ (hkdf2 S ck ikm).1 = (hkdf2 S ck' ikm).1 := by
  by_cases heq : (a.mixKey S ikm).ck = (b.mixKey S ikm).ck
  · right; exact ⟨a.ck, b.ck, hne, by simpa [Sym.mixKey] using heq⟩
  · left; exact heq

/-- A receiver whose key differs from the sender's rejects the sender's encrypted field, or the
    run exhibits one ciphertext valid under two different keys. -/
theorem different_key_field_rejected (S : Suite) (hs : S.DecSound) (k k' : Bytes) (n : UInt64) (h pt : Bytes)
    (hne : k ≠ k') :
    S.dec k' n h (S.enc k n h pt) = none ∨ ∃ p', k ≠ k' ∧ S.enc k n h pt = S.enc k' n h p' := by
  cases hd : S.dec k' n h (S.enc k n h pt) with
  | none => left; rfl
  | some p' => right; exact ⟨p', hne, hs _ _ _ _ _ hd⟩

/-- A party that has not processed all messages cannot enter transport mode, so it never accepts
    (or produces) a transport message. -/
theorem no_transport_before_finish (S : Suite) (hs : HS) (h : hs.pos ≠ hs.msgs.length) :
    TS.ofHandshake S hs = .err (.state .handshakeNotFinished) :=
  (C11.convert_iff S hs).2 h

end SnowVerif.Theorems.C08
