/-
  C10, the fixed-size arrays of `HandshakeState` (`[u8; MAXDHLEN]` for `rs`, `re`, `dh_out`).

  The model keeps keys as byte lists, so the Rust panic sites `self.re[..pub_len]`,
  `dh_out[..dh_len]`, `rs[..pub_len]` (slicing a `MAXDHLEN`-byte array) are NOT in the model: for a
  resolver whose DH has `pub_len` or `dh_len` above `MAXDHLEN` the Rust code panics where the model
  returns a value. The no-panic theorems of C10 therefore speak for suites within these bounds
  only. This file makes that explicit and shows that every suite the crate ships (and the toy
  suite of the harness) is within the bounds; `MAXDHLEN` is regenerated from the code on every run.
-/
import SnowVerif.Theorems.C10
import SnowVerif.Theorems.C18Real

namespace SnowVerif.Theorems.C10Bounds
open SnowVerif SnowVerif.Model SnowVerif.Generated SnowVerif.Lemmas.C10
open SnowVerif.Theorems.C11 (Op step run)
set_option linter.unusedVariables false

/-- The size side conditions of the fixed arrays of `handshakestate.rs`. -/
def Bounds (S : Suite) : Prop := S.pubLen ≤ MAXDHLEN ∧ S.dhLen ≤ MAXDHLEN

/-- Every DH implementation of the model's real and toy suites fits the arrays:
    25519 (32/32), the toy 448 (56/56), P-256 and the toy P-256 (65/32). If a build without the
    `p256` feature lowers `MAXDHLEN` to 56, this theorem stops checking for the 65-byte keys — as it
    must: such a build does not offer them. -/
theorem real_dh_bounds (b : Real.Backend) (sel : Nat) :
    (Real.dhImpl b sel).pubLen ≤ MAXDHLEN ∧ (Real.dhImpl b sel).dhLen ≤ MAXDHLEN := by
  unfold Real.dhImpl
  cases b <;> (repeat' split) <;> simp [MAXDHLEN, Toy.suite] <;> (repeat' split) <;> decide

theorem real_suite_bounds (db : Real.Backend) (dsel : Nat) (cb : Real.Backend) (csel : Nat) (hb : Real.Backend) (hsel : Nat) :
    Bounds (C18Real.realSuite db dsel cb csel hb hsel) :=
  real_dh_bounds db dsel

theorem toy_suite_bounds (d c h : Nat) : Bounds (Toy.suite d c h) := by
  unfold Bounds Toy.suite
  simp only [MAXDHLEN]
  constructor <;> (repeat' split) <;> decide

/-- `C10.built_session_never_panics`, with the scope made explicit: for a suite within the array
    bounds (all shipped ones: `real_suite_bounds`), whose DH accepts every private key. -/
theorem built_session_never_panics_bounded (S : Suite) (hB : Bounds S) (av : Avail) (c : BuildCfg) (hs : HS)
    (hpl : S.PubLen) (hpt : S.PrivTotal) (hpsk : c.psks.length = 10) (hb : build S av c = .ok hs)
    (pre : List Op) :
    Inv S (run S hs pre) ∧ (∀ op, C10.panics S (run S hs pre) op = false) ∧
    (TS.ofHandshake S (run S hs pre)).isPanic = false :=
  C10.built_session_never_panics S av c hs hpl hpt hpsk hb pre

end SnowVerif.Theorems.C10Bounds
