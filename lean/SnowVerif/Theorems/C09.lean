/-
  C09  Nonces count up by one and the reserved value 2^64-1 is never used.

  Nonces are `UInt64` in the model, so a missing guard would wrap exactly as the
  Rust code would.  Every statement is for an arbitrary transport state (any
  keys, any counters, either role), hence for every reachable one.
-/
import SnowVerif.Lemmas.Transport

namespace SnowVerif.Theorems.C09
open SnowVerif SnowVerif.Model SnowVerif.Model.TS
set_option linter.unusedVariables false
set_option linter.unusedSimpArgs false

abbrev MAXN : UInt64 := CipherState.nonceMax

/-- A ghost event made by a read or write never carries the reserved nonce. -/
def EventNonceOk : Event → Prop
  | .enc _ n _ _ => n ≠ MAXN
  | .dec _ n _ _ _ => n ≠ MAXN
  | .rng _ => True

/-- `split` starts both transport counters at 0. -/
theorem nonces_start_zero (S : Suite) (st : Sym) :
    (st.split S).1.n = 0 ∧ (st.split S).2.n = 0 := by
  simp [Sym.split, CipherState.set]

/-- A successful stateful write: the sending nonce was not 2^64-1, it advances by exactly one
    (no wrap), the receiving side and both keys are untouched, and the one cipher call made used
    the old sending nonce. -/
theorem t_write_ok (S : Suite) (ts : TS) (p : Bytes) (cap : Nat) (c : Bytes) (ts' : TS) (ev : List Event)
    (h : ts.writeMessage S p cap = (.ok c, ts', ev)) :
    ts.sendingNonce ≠ MAXN ∧ ts'.sendingNonce = ts.sendingNonce + 1 ∧
    ts'.receivingNonce = ts.receivingNonce ∧ ts'.recvCs = ts.recvCs ∧ ts'.sendCs.key = ts.sendCs.key ∧
    ev = [.enc ts.sendCs.key ts.sendingNonce [] p] := by
  rw [writeMessage_eq] at h
  repeat' split at h
  all_goals (simp only [Prod.mk.injEq, reduceCtorEq, false_and] at h)
  obtain ⟨h1, rfl, rfl⟩ := h
  have h2 := CipherState.encryptAd_ok (S := S) (cs := ts.sendCs) (ad := []) (pt := p) (cap := cap)
    (c := c) (cs' := (ts.sendCs.encryptAd S [] p cap).2.1) (ev := (ts.sendCs.encryptAd S [] p cap).2.2)
    (by rw [← h1])
  obtain ⟨_, hn, _, _, hcs, hev⟩ := h2
  simp [hcs, hev, hn, MAXN]

/-- A failed stateful write changes nothing at all and makes no cipher call. -/
theorem t_write_err (S : Suite) (ts : TS) (p : Bytes) (cap : Nat) (e : Err) (ts' : TS) (ev : List Event)
    (h : ts.writeMessage S p cap = (.err e, ts', ev)) : ts' = ts ∧ ev = [] := by
  rw [writeMessage_eq] at h
  repeat' split at h
  all_goals (simp only [Prod.mk.injEq, reduceCtorEq, false_and] at h)
  · obtain ⟨_, rfl, rfl⟩ := h; simp
  · obtain ⟨_, rfl, rfl⟩ := h; simp
  · obtain ⟨h1, rfl, rfl⟩ := h
    have h2 := CipherState.encryptAd_err (S := S) (cs := ts.sendCs) (ad := []) (pt := p) (cap := cap)
      (e := e) (cs' := (ts.sendCs.encryptAd S [] p cap).2.1) (ev := (ts.sendCs.encryptAd S [] p cap).2.2)
      (by rw [← h1])
    obtain ⟨hcs, hev, _⟩ := h2
    rw [hcs, hev, withSend_self]; simp

/-- A write at sending nonce 2^64-1 fails with the exhaustion error (when no earlier guard
    rejects the call), produces no bytes, makes no cipher call, and the counter does not move. -/
theorem t_write_exhausted (S : Suite) (ts : TS) (p : Bytes) (cap : Nat)
    (hn : ts.sendingNonce = MAXN) (hk : ts.sendCs.hasKey = true)
    (hw : ¬ (ts.initiator = false ∧ ts.oneway = true)) (hl : p.length + 16 ≤ 65535) (hc : p.length + 16 ≤ cap) :
    ts.writeMessage S p cap = (.err (.state .exhausted), ts, []) := by
  rw [writeMessage_eq]
  have h1 : (!ts.initiator && ts.oneway) = false := by
    cases hi : ts.initiator <;> cases ho : ts.oneway <;> simp_all
  have h2 : (decide (p.length + 16 > 65535) || decide (p.length + 16 > cap)) = false := by
    simp; omega
  simp only [h1, h2, Bool.false_eq_true, ↓reduceIte]
  simp only [sendingNonce_eq] at hn
  unfold CipherState.encryptAd
  simp [hk, hn, MAXN, withSend_self]

/-- A successful stateful read: the receiving nonce was not 2^64-1, advances by exactly one, the
    sending side is untouched, and the one cipher call used the old receiving nonce. -/
theorem t_read_ok (S : Suite) (ts : TS) (m : Bytes) (cap : Nat) (p : Bytes) (ts' : TS) (buf : Bytes) (ev : List Event)
    (h : ts.readMessage S m cap = (.ok p, ts', buf, ev)) :
    ts.receivingNonce ≠ MAXN ∧ ts'.receivingNonce = ts.receivingNonce + 1 ∧
    ts'.sendingNonce = ts.sendingNonce ∧ ts'.sendCs = ts.sendCs ∧ ts'.recvCs.key = ts.recvCs.key ∧
    ev = [.dec ts.recvCs.key ts.receivingNonce [] m true] := by
  rw [readMessage_eq] at h
  repeat' split at h
  all_goals (simp only [Prod.mk.injEq, reduceCtorEq, false_and] at h)
  obtain ⟨h1, rfl, rfl, rfl⟩ := h
  have h2 := CipherState.decryptAd_ok (S := S) (cs := ts.recvCs) (ad := []) (ct := m) (cap := cap)
    (p := p) (cs' := (ts.recvCs.decryptAd S [] m cap).2.1) (buf := (ts.recvCs.decryptAd S [] m cap).2.2.1)
    (ev := (ts.recvCs.decryptAd S [] m cap).2.2.2) (by rw [← h1])
  obtain ⟨_, _, _, hn, _, hcs, _, hev⟩ := h2
  simp [hcs, hev, MAXN]
  exact hn

/-- A failed stateful read leaves the whole transport state as it was: the receiving nonce
    does not advance. -/
theorem t_read_err (S : Suite) (ts : TS) (m : Bytes) (cap : Nat) (e : Err) (ts' : TS) (buf : Bytes) (ev : List Event)
    (h : ts.readMessage S m cap = (.err e, ts', buf, ev)) : ts' = ts := by
  rw [readMessage_eq] at h
  repeat' split at h
  all_goals (simp only [Prod.mk.injEq, reduceCtorEq, false_and] at h)
  · exact h.2.1.symm
  · exact h.2.1.symm
  · obtain ⟨h1, rfl, _, _⟩ := h
    have h2 := CipherState.decryptAd_err (S := S) (cs := ts.recvCs) (ad := []) (ct := m) (cap := cap)
      (e := e) (cs' := (ts.recvCs.decryptAd S [] m cap).2.1) (buf := (ts.recvCs.decryptAd S [] m cap).2.2.1)
      (ev := (ts.recvCs.decryptAd S [] m cap).2.2.2) (by rw [← h1])
    rw [h2.1, withRecv_self]

/-- A read at receiving nonce 2^64-1 fails with the exhaustion error and makes no cipher call. -/
theorem t_read_exhausted (S : Suite) (ts : TS) (m : Bytes) (cap : Nat)
    (hn : ts.receivingNonce = MAXN) (hk : ts.recvCs.hasKey = true)
    (hw : ¬ (ts.initiator = true ∧ ts.oneway = true)) (hl : m.length ≤ 65535)
    (h16 : 16 ≤ m.length) (hc : m.length - 16 ≤ cap) :
    ts.readMessage S m cap = (.err (.state .exhausted), ts, [], []) := by
  rw [readMessage_eq]
  have h0 : ¬ m.length > 65535 := by omega
  have h1 : (ts.initiator && ts.oneway) = false := by
    cases hi : ts.initiator <;> cases ho : ts.oneway <;> simp_all
  simp only [h0, h1, Bool.false_eq_true, ↓reduceIte]
  simp only [receivingNonce_eq] at hn
  unfold CipherState.decryptAd
  have h3 : ¬ m.length < 16 := by omega
  have h4 : ¬ cap < m.length - 16 := by omega
  simp [hk, hn, MAXN, withRecv_self, h3, h4]

/-- `set_receiving_nonce v` sets exactly the receiving counter. -/
theorem set_receiving_nonce (ts : TS) (v : UInt64) :
    (ts.setReceivingNonce v).receivingNonce = v ∧ (ts.setReceivingNonce v).sendCs = ts.sendCs ∧
    (ts.setReceivingNonce v).recvCs.key = ts.recvCs.key := by
  rw [setReceivingNonce_eq]; simp

/-- Every cipher call made by a stateful or stateless read or write uses a nonce ≠ 2^64-1. -/
theorem reserved_never_used_write (S : Suite) (ts : TS) (p : Bytes) (cap : Nat) :
    ∀ e ∈ (ts.writeMessage S p cap).2.2, EventNonceOk e := by
  rw [writeMessage_eq]
  repeat' split
  all_goals simp
  unfold CipherState.encryptAd
  repeat' split
  all_goals simp_all [EventNonceOk, MAXN]

theorem reserved_never_used_read (S : Suite) (ts : TS) (m : Bytes) (cap : Nat) :
    ∀ e ∈ (ts.readMessage S m cap).2.2.2, EventNonceOk e := by
  rw [readMessage_eq]
  repeat' split
  all_goals simp
  unfold CipherState.decryptAd
  repeat' split
  all_goals simp_all [EventNonceOk, MAXN]

theorem reserved_never_used_stateless_write (S : Suite) (ts : TS) (n : UInt64) (p : Bytes) (cap : Nat) :
    ∀ e ∈ (ts.stWrite S n p cap).2, EventNonceOk e := by
  unfold stWrite stEncrypt
  repeat' split
  all_goals simp_all [EventNonceOk, MAXN]

theorem reserved_never_used_stateless_read (S : Suite) (ts : TS) (n : UInt64) (m : Bytes) (cap : Nat) :
    ∀ e ∈ (ts.stRead S n m cap).2.2, EventNonceOk e := by
  unfold stRead stDecrypt
  repeat' split
  all_goals simp_all [EventNonceOk, MAXN]

/-- Stateless mode: the reserved nonce supplied explicitly is refused with the exhaustion error,
    produces no message and makes no cipher call. -/
theorem stateless_reserved_refused (S : Suite) (ts : TS) (p : Bytes) (cap : Nat) :
    ¬ (ts.stWrite S MAXN p cap).1.isOk ∧ (ts.stWrite S MAXN p cap).2 = [] ∧
    ¬ (ts.stRead S MAXN p cap).1.isOk ∧ (ts.stRead S MAXN p cap).2.2 = [] := by
  unfold stWrite stRead stEncrypt stDecrypt
  refine ⟨?_, ?_, ?_, ?_⟩ <;> (repeat' split) <;> simp_all [MAXN, Res.isOk]

/-- The only user of nonce 2^64-1 is rekey: one encryption of 32 zero bytes with empty
    associated data; counters are untouched. -/
theorem rekey_only_user (S : Suite) (cs : CipherState) :
    (cs.rekey S).2 = [.enc cs.key MAXN [] (Bytes.zeros 32)] ∧ (cs.rekey S).1.n = cs.n := by
  simp [CipherState.rekey, MAXN]

/-- Non-vacuity: a concrete state at the boundary meets the hypotheses of `t_write_exhausted`. -/
example : ∃ ts : TS, ts.sendingNonce = MAXN ∧ ts.sendCs.hasKey = true ∧ ¬ (ts.initiator = false ∧ ts.oneway = true) :=
  ⟨{ cs1 := { key := Bytes.zeros 32, n := MAXN, hasKey := true }, cs2 := CipherState.new, oneway := false,
     pubLen := 32, rs := { val := [], on := false }, initiator := true }, by decide⟩

end SnowVerif.Theorems.C09
