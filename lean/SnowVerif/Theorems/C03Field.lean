/-
  C03, second sentence, on the model of snow: "An alteration that touches an encrypted field
  (static key, payload, tag) is rejected by the receiving read itself, with an error and without
  returning a payload."

  `Spec.Integrity.keyed_payload_alteration` / `keyed_field_alteration` (on the specification) carried
  to the model through the C01 refinement: a `read_message` call of snow that returns `ok` is the
  specification's `ReadMessage` on the abstract state, so if the specification rejects the altered
  message, snow does not return `ok` — and a call that does not return `ok` returns no payload
  (`Res.err`/`Res.panic` carry none) and, by C07, leaves the session as it was.
  Witness: `Forgery S c` — besides the genuine field `c`, a different ciphertext is accepted under
  the same key, nonce and associated data.

  "Position of the field" is expressed as in `Lemmas/IntegrityField.lean`: the message is split
  into what the tokens before the field consume and the field itself.
-/
import SnowVerif.Lemmas.C03Run
import SnowVerif.Lemmas.IntegrityField

namespace SnowVerif.Theorems.C03Field
open SnowVerif SnowVerif.Model SnowVerif.Model.HS SnowVerif.Bytes SnowVerif.C01 SnowVerif.C03Run
open SnowVerif.Spec.Integrity
set_option linter.unusedVariables false
set_option linter.unusedSimpArgs false

/-- **An altered keyed payload is rejected by that very read, or is a forgery.** `hs` is any state
    reached from a built session (`Good`); it accepts the genuine message `m` (some buffer `cap`);
    the message pattern to be read is `ts`, its payload is processed under a key; `m = c ++ rem`
    with `rem` the payload field (ciphertext and tag), and `m' = c ++ rem'` agrees with `m` before
    the payload and differs within it (bit flips, truncation, extension, substitution of the
    payload part). Then `read_message(m')` does not return `ok`, whatever the buffer — or `rem'` and
    the genuine `rem` are both accepted under one key, nonce and associated data. -/
theorem C03_keyed_payload (S : Suite) (hL : S.HashLen) (hS : S.Sizes) (hD : S.DecLen) {hs : HS} (g : Good S hs)
    (m m' c rem rem' : Bytes) (cap cap' : Nat) (ts : List Tok) (rest : List (List Tok)) (R1 : Spec.HandshakeState)
    (hmsgs : (absHS hs).msgs = ts :: rest)
    (hacc : (hs.readMessage S m cap).1.isOk = true)
    (hkeyed : keyedAfter (absHS hs).isPsk ts (absHS hs).hasKey = true)
    (hr : Spec.HandshakeState.readToks S ts (absHS hs) m = some (R1, rem))
    (hm : m = c ++ rem) (hm' : m' = c ++ rem') (hne : rem' ≠ rem) :
    (hs.readMessage S m' cap').1.isOk = false ∨ Forgery S rem := by
  obtain ⟨pl, cs, hspec⟩ := read_spec S hL hS hD g m cap hacc
  rcases keyed_payload_alteration hmsgs hspec hkeyed hr hm hm' hne with h | h
  · left
    cases hok : (hs.readMessage S m' cap').1.isOk with
    | false => rfl
    | true =>
      obtain ⟨pl', cs', hspec'⟩ := read_spec S hL hS hD g m' cap' hok
      rw [h] at hspec'
      cases hspec'
  · exact Or.inr h

/-- **An altered keyed static-key field is rejected by that very read, or is a forgery.** The
    message pattern is `t1 ++ s :: t2`; `hs` accepts the genuine `m = c1 ++ c ++ rest0` where `c1`
    is what the tokens `t1` consume and `c` is the `s` field, processed under a key (so it is
    `DHLEN + 16` bytes); `m' = c1 ++ c' ++ rest0'` agrees with `m` before the field and differs
    within it (anything may follow). Then `read_message(m')` does not return `ok`, or a forgery. -/
theorem C03_keyed_static (S : Suite) (hL : S.HashLen) (hS : S.Sizes) (hD : S.DecLen) {hs : HS} (g : Good S hs)
    (m m' c1 c c' rest0 rest0' : Bytes) (cap cap' : Nat) (t1 t2 : List Tok) (rest : List (List Tok))
    (Ra : Spec.HandshakeState)
    (hmsgs : (absHS hs).msgs = (t1 ++ Tok.s :: t2) :: rest)
    (hacc : (hs.readMessage S m cap).1.isOk = true)
    (hkeyed : keyedAfter (absHS hs).isPsk t1 (absHS hs).hasKey = true)
    (hm : m = c1 ++ (c ++ rest0))
    (hr : Spec.HandshakeState.readToks S t1 (absHS hs) m = some (Ra, c ++ rest0))
    (hc : c.length = S.pubLen + 16)
    (hm' : m' = c1 ++ (c' ++ rest0')) (hc' : c'.length = c.length) (hne : c' ≠ c) :
    (hs.readMessage S m' cap').1.isOk = false ∨ Forgery S c := by
  obtain ⟨pl, cs, hspec⟩ := read_spec S hL hS hD g m cap hacc
  rcases keyed_field_alteration hmsgs hspec hkeyed hm hr hc hm' hc' hne with h | h
  · left
    cases hok : (hs.readMessage S m' cap').1.isOk with
    | false => rfl
    | true =>
      obtain ⟨pl', cs', hspec'⟩ := read_spec S hL hS hD g m' cap' hok
      rw [h] at hspec'
      cases hspec'
  · exact Or.inr h

/-- A call that does not return `ok` returns no payload. -/
theorem not_ok_no_payload {α} (r : Res α) (h : r.isOk = false) : ∀ a, r ≠ .ok a := by
  intro a e; rw [e] at h; simp [Res.isOk] at h

end SnowVerif.Theorems.C03Field
