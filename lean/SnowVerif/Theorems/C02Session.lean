/-
  C02 (continued)  A whole honest session, from `Builder::build` to any transport history.

  `honest_session_built`: for every suite with the stated laws, every pair of matching
  configurations `Builder::build` accepts, every fitting handshake plan and EVERY finite transport
  history afterwards -- messages in both directions and synchronised rekeys of either direction, in
  any interleaving -- the handshake completes on both sides, both convert to transport mode, and the
  transport phase behaves as the specification's channel over the two split keys: every message is
  `ENCRYPT(REKEY^j(k), n, "", p)` and is delivered with exactly the payload written
  (two-way patterns; for one-way patterns the same for initiator-to-responder histories).
  Obtained by chaining `C02Build.honest_handshake_of_build` with `C15.sync_history` /
  `C15.oneway_history`.
-/
import SnowVerif.Theorems.C02Build
import SnowVerif.Theorems.C15Hist

namespace SnowVerif.Theorems.C02Session
open SnowVerif SnowVerif.Model SnowVerif.Model.TS SnowVerif.Model.HS SnowVerif.Theorems.C04 SnowVerif.Theorems.C15
open SnowVerif.Theorems.C02 SnowVerif.Theorems.C02Build SnowVerif.Lemmas.C12 SnowVerif.Lemmas.C02Build
set_option linter.unusedVariables false
set_option linter.unusedSimpArgs false

theorem honest_session_built (S : Suite) (hEL : S.EncLen) (hDE : S.DecEnc) (hPL : S.PubLen)
    (hPT : S.PrivTotal) (hDC : S.DhComm) (hDT : S.DhTotal)
    (av : Avail) (cI cR : BuildCfg) (hm : Matching S cI cR)
    (A B : HS) (hA : build S av cI = .ok A) (hB : build S av cR = .ok B)
    (hmods : cI.mods.length < 2 ^ 64 - 29)
    (plan : List (Bytes × Nat × Nat)) (hplan : PlanOk S A.msgs plan)
    (ops : List Op) (hleg : Legal ops)
    (hcA : countAB ops ≤ 2 ^ 64 - 1) (hcB : countBA ops ≤ 2 ^ 64 - 1) :
    ∃ A' B' ta tb, exchange S true A B plan = some (A', B') ∧
      A'.isHandshakeFinished = true ∧ B'.isHandshakeFinished = true ∧
      A'.getHandshakeHash = B'.getHandshakeHash ∧
      TS.ofHandshake S A' = .ok ta ∧ TS.ofHandshake S B' = .ok tb ∧
      -- two-way patterns: any interleaving of messages and synchronised rekeys in both directions
      ((ta.oneway = false ∧ tb.oneway = false) →
        sysRun S ta tb ops = Chan.run S { kAB := ta.sendCs.key, nAB := 0, kBA := tb.sendCs.key, nBA := 0 } ops) ∧
      -- one-way patterns (and two-way ones as well): initiator-to-responder histories
      (OnlyAB ops →
        sysRun S ta tb ops = Chan.run S { kAB := ta.sendCs.key, nAB := 0, kBA := tb.sendCs.key, nBA := 0 } ops) := by
  obtain ⟨A', B', kf, hex, _, hfA, hfB, hhh, ta, tb, hta, htb, hp, k1, k2, k3, k4, n1, n2, n3, n4, ia, ib⟩ :=
    honest_handshake_of_build S hEL hDE hPL hPT hDC hDT av cI cR hm A B hA hB hmods plan hplan
  refine ⟨A', B', ta, tb, hex, hfA, hfB, hhh, hta, htb, ?_, ?_⟩
  · rintro ⟨oa, ob⟩
    have hrel : Rel ta tb { kAB := ta.sendCs.key, nAB := 0, kBA := tb.sendCs.key, nBA := 0 } := by
      apply rel_of_paired ta tb hp
      · exact ⟨⟨k1, by simp [oa]⟩, ⟨k2, by simp [oa]⟩⟩
      · exact ⟨⟨k3, by simp [ob]⟩, ⟨k4, by simp [ob]⟩⟩
      · exact ⟨n1, n2, n3, n4⟩
    exact sync_history S hDE hEL ops ta tb _ hrel hleg (by simpa using hcA) (by simpa using hcB)
  · intro honly
    obtain ⟨kk1, _⟩ := paired_keys ta tb hp
    have hd : DirRel ta tb ta.sendCs.key 0 := by
      refine ⟨rfl, kk1.symm, n1, n4, ⟨k1, by simp [ia]⟩, ⟨k4, by simp [ib]⟩⟩
    exact oneway_history S hDE hEL ops ta tb { kAB := ta.sendCs.key, nAB := 0, kBA := tb.sendCs.key, nBA := 0 }
      hd honly hleg (by simpa using hcA)

/-- Non-vacuity: the theorem instantiated for the built `XX` pair of `C02Build` (toy suite), a
    three-message handshake plan and a transport history with messages in both directions and
    rekeys of both directions; the hypotheses hold and the conclusion is obtained. -/
example : ∃ A B A' B' ta tb, build exSuite exAv xxI = .ok A ∧ build exSuite exAv xxR = .ok B ∧
    exchange exSuite true A B [([1], 100, 10), ([], 300, 0), ([2, 3], 200, 5)] = some (A', B') ∧
    TS.ofHandshake exSuite A' = .ok ta ∧ TS.ofHandshake exSuite B' = .ok tb ∧
    ((ta.oneway = false ∧ tb.oneway = false) →
      sysRun exSuite ta tb [.sendAB [1], .rekeyAB, .sendBA [2, 3], .rekeyBA, .sendAB []] =
        Chan.run exSuite { kAB := ta.sendCs.key, nAB := 0, kBA := tb.sendCs.key, nBA := 0 }
          [.sendAB [1], .rekeyAB, .sendBA [2, 3], .rekeyBA, .sendAB []]) := by
  obtain ⟨A, hA⟩ := ok_of_isOk xxI_builds
  obtain ⟨B, hB⟩ := ok_of_isOk xxR_builds
  have hmsgs : A.msgs = [[.e], [.e, .ee, .s, .es], [.s, .se]] := by
    obtain ⟨inst, hi, hm⟩ := built_inst exSuite exAv xxI A hA
    rw [← hm]
    have : handshakeTokens xxI.pattern xxI.mods = .ok { preI := [], preR := [], msgs := [[.e], [.e, .ee, .s, .es], [.s, .se]] } := by decide
    rw [this] at hi
    cases hi; rfl
  obtain ⟨A', B', ta, tb, hex, _, _, _, hta, htb, h2, _⟩ :=
    honest_session_built exSuite (C18.toy_suite_encLen 0 0 0) (C18.toy_suite_decEnc 0 0 0)
      (C18.toy_suite_pubLen 0 0 0) (C18.toy_suite_privTotal 0 0 0) (C18.toy_suite_dhComm 0 0 0)
      (C18.toy_suite_dhTotal 0 0 0) exAv xxI xxR xx_matching A B hA hB (by decide)
      [([1], 100, 10), ([], 300, 0), ([2, 3], 200, 5)] (by rw [hmsgs]; simp only [PlanOk]; decide)
      [.sendAB [1], .rekeyAB, .sendBA [2, 3], .rekeyBA, .sendAB []] (by simp [Legal]) (by simp [countAB]) (by simp [countBA])
  exact ⟨A, B, A', B', ta, tb, hA, hB, hex, hta, htb, h2⟩

end SnowVerif.Theorems.C02Session
