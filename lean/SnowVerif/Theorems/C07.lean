/-
  C07  Failed calls are no-ops: an error leaves the session exactly as it was.

  `Equiv` (Lemmas/Equiv.lean) is equality of every field of the handshake state except
  three that can no longer influence any behaviour: the read position of the random source,
  the contents of a *disabled, non-fixed* ephemeral key pair (it is regenerated before use), and
  the handshake cipher's key/nonce while no key has been installed (`has_key` false: never read).
  * `hs_write_err_noop` / `hs_read_err_noop`: a call that returns an error leaves an `Equiv` state.
  * `writeMessage_equiv` / `readMessage_equiv` / `setPsk_equiv` (Lemmas/Equiv2.lean): `Equiv` is a
    bisimulation: `Equiv` states give identical results, bytes, events and `Equiv` successors.
  * `failed_calls_deletable`: for every history, deleting the failed calls yields the same
    results for all remaining calls and an `Equiv` final state: the retry succeeds and the rest
    of the handshake and the transport keys are exactly those of the fault-free run.
  The unrepaired upstream code violated this (D1, D2 in DESIGN.md): the cipher key and nonce were
  not checkpointed; the model follows the repaired code and these theorems now hold.
-/
import SnowVerif.Lemmas.Equiv2
import SnowVerif.Theorems.C09

namespace SnowVerif.Theorems.C07
open SnowVerif SnowVerif.Model SnowVerif.Model.HS
set_option linter.unusedVariables false
set_option linter.unusedSimpArgs false

/-- Side condition on the state: an ephemeral that is already in use is not generated a second
    time by the current message (Noise validity rule "no party sends `e` twice"; it holds in every
    reachable state of a valid pattern, see C02). Without it a failed write of a message containing
    a second `e` would have replaced a live ephemeral. -/
def NoReE (hs : HS) : Prop :=
  hs.e.on = true → hs.fixedE = true ∨ Tok.e ∉ hs.msgs.getD hs.pos []

/-- **A failed handshake write is a no-op.** -/
theorem hs_write_err_noop (S : Suite) (hs : HS) (inv : SymInv hs.sym) (hne : NoReE hs)
    (p : Bytes) (cap : Nat) (e : Err) (hs' : HS) (acc : Bytes) (ev : List Event)
    (h : hs.writeMessage S p cap = (.err e, hs', acc, ev)) : Equiv hs hs' := by
  have hf := writeInner_frame S hs p cap
  have hec := writeInner_e_cs S hs p cap
  simp only at hf hec
  unfold writeMessage at h
  simp only at h
  cases hr : (writeInner S hs p cap).1 with
  | ok n => simp [hr] at h
  | panic q => simp [hr] at h
  | err e' =>
    simp only [hr, Prod.mk.injEq] at h
    obtain ⟨_, rfl, _, _⟩ := h
    have hcs := hec.2.2 (by intro n; rw [hr]; simp)
    have hsym : SymEq hs.sym ((writeInner S hs p cap).2.hs.sym.restore hs.sym.checkpoint) :=
      SymEq.restore _ hs.sym inv
    obtain ⟨f1, f2, f3, f4, f5, f6, f7, f8, f9, f10, f11⟩ := hf
    cases hon : hs.e.on with
    | true =>
      simp only [Bool.not_true, Bool.false_eq_true, ↓reduceIte]
      have hval : (writeInner S hs p cap).2.hs.e.val = hs.e.val := by
        rcases hne hon with hfix | hno
        · exact hec.2.1 (Or.inl hfix)
        · exact hec.2.1 (Or.inr hno)
      exact ⟨hsym, hcs.1.symm, hcs.2.symm, f9.symm, hon.trans (hec.1 hon).symm, fun _ => hval.symm, f8.symm, f10.symm,
             f11.symm, f1.symm, f2.symm, f3.symm, f4.symm, f5.symm, f6.symm, f7.symm⟩
    | false =>
      simp only [Bool.not_false, ↓reduceIte]
      refine ⟨hsym, hcs.1.symm, hcs.2.symm, f9.symm, hon, ?_, f8.symm, f10.symm,
             f11.symm, f1.symm, f2.symm, f3.symm, f4.symm, f5.symm, f6.symm, f7.symm⟩
      intro hh
      rcases hh with hh | hh
      · rw [hon] at hh; exact absurd hh (by simp)
      · exact (hec.2.1 (Or.inl hh)).symm

/-- **A failed handshake read is a no-op**; it does not even touch the random source or the
    local ephemeral, and `rs`/`re` are restored bit for bit. -/
theorem hs_read_err_noop (S : Suite) (hs : HS) (inv : SymInv hs.sym)
    (m : Bytes) (cap : Nat) (e : Err) (hs' : HS) (buf : Bytes) (ev : List Event)
    (h : hs.readMessage S m cap = (.err e, hs', buf, ev)) :
    Equiv hs hs' ∧ hs'.rng = hs.rng ∧ hs'.e = hs.e ∧ hs'.rs = hs.rs ∧ hs'.re = hs.re := by
  have hf := readInner_frame S hs m cap
  have hcs := readInner_cs S hs m cap
  simp only at hf
  unfold readMessage at h
  simp only at h
  cases hr : (readInner S hs m cap).1 with
  | ok n => simp [hr] at h
  | panic q => simp [hr] at h
  | err e' =>
    simp only [hr, Prod.mk.injEq] at h
    obtain ⟨_, rfl, _, _⟩ := h
    have hc := hcs (by intro n; rw [hr]; simp)
    have hsym : SymEq hs.sym ((readInner S hs m cap).2.1.sym.restore hs.sym.checkpoint) :=
      SymEq.restore _ hs.sym inv
    obtain ⟨f1, f2, f3, f4, f5, f6, f7, f8, f9, f10, f11⟩ := hf
    refine ⟨?_, f11, f10, rfl, rfl⟩
    exact ⟨hsym, hc.1.symm, hc.2.symm, f9.symm, by simp only [f10], fun _ => by simp only [f10], f8.symm, rfl,
           rfl, f1.symm, f2.symm, f3.symm, f4.symm, f5.symm, f6.symm, f7.symm⟩

/-- `Equiv` states are indistinguishable through every getter and convert to the same
    transport state. -/
theorem equiv_observables (S : Suite) {a b : HS} (h : Equiv a b) :
    a.isMyTurn = b.isMyTurn ∧ a.isHandshakeFinished = b.isHandshakeFinished ∧ a.isInitiator = b.isInitiator ∧
    a.wasWritePayloadEncrypted = b.wasWritePayloadEncrypted ∧ a.getHandshakeHash = b.getHandshakeHash ∧
    a.getRemoteStatic S = b.getRemoteStatic S ∧ TS.ofHandshake S a = TS.ofHandshake S b := by
  unfold isMyTurn isHandshakeFinished isInitiator wasWritePayloadEncrypted getHandshakeHash getRemoteStatic
    TS.ofHandshake isHandshakeFinished
  rw [h.myTurn, h.pos, h.msgs, h.initiator, h.sym.2.2.1, h.sym.1, h.rs, h.cs1, h.cs2, h.oneway]
  exact ⟨rfl, rfl, rfl, rfl, rfl, rfl, rfl⟩

theorem Equiv_withRng {a b : HS} (h : Equiv a b) (R : Bytes) : Equiv { a with rng := R } { b with rng := R } :=
  ⟨h.sym, h.cs1, h.cs2, h.s, h.eon, h.eval, h.fixedE, h.rs, h.re, h.initiator, h.isPsk, h.oneway, h.psks,
   h.myTurn, h.msgs, h.pos⟩

/-- **The retried step behaves as if the failed call had never been made**: after a failed write,
    for every later write (any arguments, any future random stream `R`) the outcome, the bytes and
    the ghost events are those the original state would have produced, and the successors are
    again `Equiv`. With the fixed test ephemeral no randomness is drawn at all. -/
theorem retry_after_failed_write (S : Suite) (hs : HS) (inv : SymInv hs.sym) (hne : NoReE hs)
    (p : Bytes) (cap : Nat) (e : Err) (hs' : HS) (acc : Bytes) (ev : List Event)
    (h : hs.writeMessage S p cap = (.err e, hs', acc, ev)) (inv' : SymInv hs'.sym)
    (R p2 : Bytes) (cap2 : Nat) :
    (({ hs with rng := R } : HS).writeMessage S p2 cap2).1 = (({ hs' with rng := R } : HS).writeMessage S p2 cap2).1 ∧
    (({ hs with rng := R } : HS).writeMessage S p2 cap2).2.2 = (({ hs' with rng := R } : HS).writeMessage S p2 cap2).2.2 ∧
    Equiv (({ hs with rng := R } : HS).writeMessage S p2 cap2).2.1 (({ hs' with rng := R } : HS).writeMessage S p2 cap2).2.1 := by
  have hE := Equiv_withRng (hs_write_err_noop S hs inv hne p cap e hs' acc ev h) R
  have := writeMessage_equiv S hE rfl inv inv' p2 cap2
  exact ⟨this.1, this.2.2.2, this.2.1⟩

/-- After a failed read the genuine message is processed exactly as it would have been. -/
theorem retry_after_failed_read (S : Suite) (hs : HS) (inv : SymInv hs.sym)
    (m : Bytes) (cap : Nat) (e : Err) (hs' : HS) (buf : Bytes) (ev : List Event)
    (h : hs.readMessage S m cap = (.err e, hs', buf, ev)) (inv' : SymInv hs'.sym)
    (m2 : Bytes) (cap2 : Nat) :
    (hs.readMessage S m2 cap2).1 = (hs'.readMessage S m2 cap2).1 ∧
    (hs.readMessage S m2 cap2).2.2 = (hs'.readMessage S m2 cap2).2.2 ∧
    Equiv (hs.readMessage S m2 cap2).2.1 (hs'.readMessage S m2 cap2).2.1 := by
  have hn := hs_read_err_noop S hs inv m cap e hs' buf ev h
  have := readMessage_equiv S hn.1 inv inv' m2 cap2
  exact ⟨this.1, this.2.2, this.2.1⟩

/-- Failed transport reads and writes change nothing at all (full state equality). -/
theorem t_write_err_noop (S : Suite) (ts : TS) (p : Bytes) (cap : Nat) (e : Err) (ts' : TS) (ev : List Event)
    (h : ts.writeMessage S p cap = (.err e, ts', ev)) : ts' = ts :=
  (C09.t_write_err S ts p cap e ts' ev h).1

theorem t_read_err_noop (S : Suite) (ts : TS) (m : Bytes) (cap : Nat) (e : Err) (ts' : TS) (buf : Bytes)
    (ev : List Event) (h : ts.readMessage S m cap = (.err e, ts', buf, ev)) : ts' = ts :=
  C09.t_read_err S ts m cap e ts' buf ev h

/-! ### Histories: deleting the failed calls changes nothing -/

/-- A handshake API call with all its arguments. A write carries the random stream `R` the
    resolver's RNG will deliver during that call (so that runs with and without earlier failed
    calls can be compared on "the same future draws"). -/
inductive Op
  | write (R p : Bytes) (cap : Nat)
  | read (m : Bytes) (cap : Nat)
  | setPsk (loc : Nat) (key : Bytes)

/-- Everything a caller can observe from one call: outcome, output-buffer bytes, and (ghost) the
    cipher calls and random draws it made. -/
inductive Obs
  | w (r : Res Nat) (acc : Bytes) (ev : List Event)
  | r (r : Res Bytes) (buf : Bytes) (ev : List Event)
  | p (r : Res Unit)
  deriving DecidableEq

def Obs.failed : Obs → Bool
  | .w (.err _) _ _ => true
  | .r (.err _) _ _ => true
  | .p (.err _) => true
  | _ => false

def exec (S : Suite) (hs : HS) : Op → Obs × HS
  | .write R p cap =>
    let x := ({ hs with rng := R } : HS).writeMessage S p cap
    (.w x.1 x.2.2.1 x.2.2.2, x.2.1)
  | .read m cap =>
    let x := hs.readMessage S m cap
    (.r x.1 x.2.2.1 x.2.2.2, x.2.1)
  | .setPsk loc key => (.p (hs.setPsk loc key).1, (hs.setPsk loc key).2)

def run (S : Suite) : HS → List Op → List Obs × HS
  | hs, [] => ([], hs)
  | hs, op :: ops => ((exec S hs op).1 :: (run S (exec S hs op).2 ops).1, (run S (exec S hs op).2 ops).2)

/-- The calls of a history that did not return an error. -/
def survivors (S : Suite) : HS → List Op → List Op
  | _, [] => []
  | hs, op :: ops =>
    if (exec S hs op).1.failed then survivors S (exec S hs op).2 ops
    else op :: survivors S (exec S hs op).2 ops

/-- `P` holds in every state a history passes through. -/
def Along (P : HS → Prop) (S : Suite) : HS → List Op → Prop
  | hs, [] => P hs
  | hs, op :: ops => P hs ∧ Along P S (exec S hs op).2 ops

theorem exec_inv (S : Suite) (hs : HS) (op : Op) (h : SymInv hs.sym) : SymInv (exec S hs op).2.sym := by
  cases op with
  | write R p cap => exact writeMessage_inv S { hs with rng := R } p cap h
  | read m cap => exact readMessage_inv S hs m cap h
  | setPsk loc key => exact setPsk_inv hs loc key h

theorem Equiv_setRng (a : HS) (R : Bytes) : Equiv a { a with rng := R } :=
  ⟨SymEq.refl _, rfl, rfl, rfl, rfl, fun _ => rfl, rfl, rfl, rfl, rfl, rfl, rfl, rfl, rfl, rfl, rfl⟩

/-- A failed call leaves an equivalent state. -/
theorem exec_failed_noop (S : Suite) (hs : HS) (op : Op) (inv : SymInv hs.sym) (hne : NoReE hs)
    (hf : (exec S hs op).1.failed = true) : Equiv hs (exec S hs op).2 := by
  cases op with
  | write R p cap =>
    simp only [exec] at hf ⊢
    cases hr : (({ hs with rng := R } : HS).writeMessage S p cap).1 with
    | err e =>
      have := hs_write_err_noop S { hs with rng := R } inv hne p cap e
        (({ hs with rng := R } : HS).writeMessage S p cap).2.1
        (({ hs with rng := R } : HS).writeMessage S p cap).2.2.1
        (({ hs with rng := R } : HS).writeMessage S p cap).2.2.2 (by rw [← hr])
      exact (Equiv_setRng hs R).trans this
    | ok n => rw [hr] at hf; simp [Obs.failed] at hf
    | panic q => rw [hr] at hf; simp [Obs.failed] at hf
  | read m cap =>
    simp only [exec] at hf ⊢
    cases hr : (hs.readMessage S m cap).1 with
    | err e =>
      exact (hs_read_err_noop S hs inv m cap e (hs.readMessage S m cap).2.1 (hs.readMessage S m cap).2.2.1
        (hs.readMessage S m cap).2.2.2 (by rw [← hr])).1
    | ok n => rw [hr] at hf; simp [Obs.failed] at hf
    | panic q => rw [hr] at hf; simp [Obs.failed] at hf
  | setPsk loc key =>
    simp only [exec, HS.setPsk] at hf ⊢
    split
    · exact Equiv.refl _
    · rename_i hc; simp [hc, Obs.failed] at hf

/-- `Equiv` states execute every call identically. -/
theorem exec_equiv (S : Suite) {a b : HS} (h : Equiv a b) (ia : SymInv a.sym) (ib : SymInv b.sym) (op : Op) :
    (exec S a op).1 = (exec S b op).1 ∧ Equiv (exec S a op).2 (exec S b op).2 := by
  cases op with
  | write R p cap =>
    have := writeMessage_equiv S (Equiv_withRng h R) rfl ia ib p cap
    simp only [exec]
    rw [this.1, this.2.2.2]
    exact ⟨rfl, this.2.1⟩
  | read m cap =>
    have := readMessage_equiv S h ia ib m cap
    simp only [exec]
    rw [this.1, this.2.2]
    exact ⟨rfl, this.2.1⟩
  | setPsk loc key =>
    have := setPsk_equiv h loc key
    simp only [exec]
    rw [this.1]
    exact ⟨rfl, this.2.1⟩

/-- **For every history, deleting the failed calls changes nothing**: starting from equivalent
    states, running the whole history and running only the calls that did not fail give the same
    results for the surviving calls (outcomes, output bytes, cipher calls and random draws) and
    equivalent final states — so the same handshake hash and the same transport keys.
    Hypotheses: the reachable-state invariant `SymInv` at the start, and `NoReE` along the
    history (true for valid patterns). -/
theorem failed_calls_deletable (S : Suite) (ops : List Op) (a b : HS) (h : Equiv a b)
    (ia : SymInv a.sym) (ib : SymInv b.sym) (hne : Along NoReE S a ops) :
    (run S b (survivors S a ops)).1 = ((run S a ops).1.filter fun o => !o.failed) ∧
    Equiv (run S a ops).2 (run S b (survivors S a ops)).2 := by
  induction ops generalizing a b with
  | nil => exact ⟨rfl, h⟩
  | cons op ops ih =>
    obtain ⟨hne0, hne1⟩ := hne
    have ia' := exec_inv S a op ia
    simp only [run, survivors]
    cases hf : (exec S a op).1.failed with
    | true =>
      have hE := exec_failed_noop S a op ia hne0 hf
      have := ih (exec S a op).2 b (hE.symm.trans h) ia' ib hne1
      simp only [List.filter, hf, Bool.not_true, ↓reduceIte]
      exact this
    | false =>
      have he := exec_equiv S h ia ib op
      have ib' := exec_inv S b op ib
      have := ih (exec S a op).2 (exec S b op).2 he.2 ia' ib' hne1
      simp only [Bool.false_eq_true, ↓reduceIte, run, List.filter, hf, Bool.not_false]
      rw [← he.1]
      exact ⟨by rw [this.1], this.2⟩

end SnowVerif.Theorems.C07
