/-
  C16  Stateless transport is a pure function of keys, nonce and input.

  Purity is in the types: `TS.stWrite` / `TS.stRead` return no state.  Thread
  interleavings cannot be exhibited by a pure model; what carries the claim for
  threads is (i) both Rust methods take `&self` and the crate forbids `unsafe`,
  (ii) the `threads` stream of the correspondence check (exploration, labelled so).
-/
import SnowVerif.Lemmas.Transport
import SnowVerif.Theorems.C04

namespace SnowVerif.Theorems.C16
open SnowVerif SnowVerif.Model SnowVerif.Model.TS SnowVerif.Theorems.C04
set_option linter.unusedVariables false
set_option linter.unusedSimpArgs false

/-- Stateless write, evaluated: for every nonce below 2^64-1 and legal sizes the result is the
    encryption under the sending key and the *caller's* nonce. -/
theorem st_write_eval (S : Suite) (ts : TS) (h : CanSend ts) (n : UInt64) (p : Bytes) (cap : Nat)
    (hn : n ≠ MAXN) (hl : p.length + 16 ≤ 65535) (hc : p.length + 16 ≤ cap) :
    ts.stWrite S n p cap = (.ok (S.enc ts.sendCs.key n [] p), [.enc ts.sendCs.key n [] p]) := by
  obtain ⟨hk, hw⟩ := h
  have h1 : (!ts.initiator && ts.oneway) = false := by
    cases hi : ts.initiator <;> cases ho : ts.oneway <;> simp_all
  have h2 : (decide (p.length + 16 > 65535) || decide (p.length + 16 > cap)) = false := by simp; omega
  have hcs : (if ts.initiator then ts.cs1 else ts.cs2) = ts.sendCs := by unfold sendCs; rfl
  have h3 : ¬ cap < p.length + 16 := by omega
  unfold stWrite stEncrypt
  rw [hcs]
  simp [h1, h2, hk, hn, h3, MAXN]
  omega

/-- The message written under nonce `n` is byte-identical to the message a stateful sender of
    the same session produces when its counter stands at `n` (its `n`-th message). -/
theorem st_eq_stateful (S : Suite) (ts : TS) (h : CanSend ts) (n : UInt64) (p : Bytes) (cap : Nat)
    (hn : n ≠ MAXN) (hl : p.length + 16 ≤ 65535) (hc : p.length + 16 ≤ cap) :
    (ts.stWrite S n p cap).1 = ((ts.setSendingNonce n).writeMessage S p cap).1 := by
  rw [st_write_eval S ts h n p cap hn hl hc, setSendingNonce_eq]
  have h' : CanSend (ts.withSend { ts.sendCs with n := n }) := by
    unfold CanSend at *; rw [sendCs_withSend, initiator_withSend, oneway_withSend]; exact ⟨h.1, h.2⟩
  have g : WGuards (ts.withSend { ts.sendCs with n := n }) p cap := by
    unfold WGuards; rw [sendCs_withSend]; exact ⟨hl, hc, hn⟩
  rw [write_guards_ok S _ p cap h' g]
  simp

/-- Round trip (`DecEnc`, `EncLen`): what one side writes under `n` the peer reads back under `n`
    to the original payload — for any order and any repetition, because neither function has
    any state to change. -/
theorem st_roundtrip (S : Suite) (hde : S.DecEnc) (hel : S.EncLen) (a b : TS) (hp : Paired a b)
    (ha : CanSend a) (hb : CanRecv b) (n : UInt64) (p : Bytes) (cap capr : Nat)
    (hn : n ≠ MAXN) (hl : p.length + 16 ≤ 65535) (hc : p.length + 16 ≤ cap) (hcr : p.length ≤ capr) :
    ∃ c ev, a.stWrite S n p cap = (.ok c, ev) ∧ ∃ buf ev', b.stRead S n c capr = (.ok p, buf, ev') := by
  refine ⟨_, _, st_write_eval S a ha n p cap hn hl hc, ?_⟩
  have hk := (paired_keys a b hp).1
  have hlen := hel a.sendCs.key n [] p
  apply (st_read_ok_iff S b hb n _ capr p).mpr
  rw [hlen, hk]
  exact ⟨hl, by omega, by omega, hn, hde _ _ _ _⟩

/-- Repetition: a sequence of stateless reads of the same message gives the same result each time
    (trivially, `stRead` is a function; stated for the record). -/
theorem st_read_repeat (S : Suite) (ts : TS) (n : UInt64) (m : Bytes) (cap : Nat) (k : Nat) :
    (List.replicate k ()).map (fun _ => ts.stRead S n m cap) = List.replicate k (ts.stRead S n m cap) := by
  simp

end SnowVerif.Theorems.C16
