/-
  C02, closing the gap between `Builder::build` and the honest-run theorem `C02.honest_handshake`.

  `honest_handshake` is stated for two parties that are `C02.Consistent`.  Here:

  * `Matching S cI cR`: what it means for an initiator's and a responder's `Builder` configuration
    to belong to the same session (same pattern, modifiers, name, prologue, psks; pre-shared static
    keys really are the peer's; no remote static key supplied that the pattern does not pre-share;
    a psk supplied for every `psk` token);
  * `build_consistent`: the two states `build` returns for matching configurations are `Consistent`
    (with the key record of the pre-messages) -- no further hypothesis on the states;
  * `honest_handshake_built`: hence for every table pattern, every modifier list `build` accepts,
    every pair of matching configurations that build, every suite with the stated laws and every
    payload/buffer plan that fits, the handshake completes: every write and read is `ok`, each read
    returns the written payload, both sides finish, report the same handshake hash and convert to
    transport states holding the same keys with counters 0.
-/
import SnowVerif.Lemmas.C02Build
import SnowVerif.Theorems.C18

namespace SnowVerif.Theorems.C02Build
open SnowVerif SnowVerif.Model SnowVerif.Model.HS SnowVerif.Model.TS SnowVerif.Generated SnowVerif.Bytes
open SnowVerif.Lemmas.C12 SnowVerif.Lemmas.C02Build SnowVerif.Theorems.C04
set_option linter.unusedVariables false
set_option linter.unusedSimpArgs false

/-- The initiator's configuration `cI` and the responder's configuration `cR` describe the same
    session. -/
structure Matching (S : Suite) (cI cR : BuildCfg) : Prop where
  /-- same protocol name: pattern, modifiers, and the name bytes that are hashed -/
  pattern : cR.pattern = cI.pattern
  mods : cR.mods = cI.mods
  name : cR.name = cI.name
  prologue : cR.prologue = cI.prologue
  /-- all 10 psk slots agree -/
  psks : cR.psks = cI.psks
  roleI : cI.initiator = true
  roleR : cR.initiator = false
  /-- if the pattern pre-shares the responder's static key (`s` in the responder's pre-message,
      equivalently `need_known_remote_pubkey(initiator)`), the initiator was given the public key
      of the static key the responder was built with -/
  rsI : needKnownRemote cI.pattern true = true → ∃ sR, cR.s = some sR ∧ cI.rs = some (S.pubOf sR)
  /-- symmetrically for the initiator's static key -/
  rsR : needKnownRemote cI.pattern false = true → ∃ sI, cI.s = some sI ∧ cR.rs = some (S.pubOf sI)
  /-- a remote static key the pattern does not pre-share is not supplied (snow would report it
      from `get_remote_static()` before the peer has sent anything) -/
  noRsI : needKnownRemote cI.pattern true = false → cI.rs = none
  noRsR : needKnownRemote cI.pattern false = false → cR.rs = none
  /-- every `psk n` token of the pattern instance has its slot filled -/
  pskFilled : ∀ inst, handshakeTokens cI.pattern cI.mods = .ok inst →
    ∀ n m, m ∈ inst.msgs → Tok.psk n ∈ m → ∃ key, cI.psks.getD n none = some key

/-- For the last clause of `Matching` it suffices that the slot of every `psk n` *modifier* is
    filled: the modifier loop is the only source of `psk` tokens. -/
theorem pskFilled_of_mods (cI : BuildCfg)
    (h : ∀ n, Modifier.psk n ∈ cI.mods → ∃ key, cI.psks.getD n none = some key) :
    ∀ inst, handshakeTokens cI.pattern cI.mods = .ok inst →
      ∀ n m, m ∈ inst.msgs → Tok.psk n ∈ m → ∃ key, cI.psks.getD n none = some key :=
  fun inst hi n m hm hn => h n (psk_tok_from_mod _ _ inst hi m hm n hn)

/-- **Built pairs are consistent.**  For every suite whose public keys have the stated length,
    every resolver answer, and every two matching configurations: if `build` succeeds on both
    sides, the two handshake states satisfy `C02.Consistent` for the instance `handshakeTokens`
    computes and the key record `k0` of its pre-messages (which exists).  In particular: both
    symmetric states are equal (same `h` after name, prologue and pre-message keys), pre-shared
    static keys are the peer's real keys, nothing is reported as remote static key that was not
    pre-shared, each party has a static key wherever it must send one, and every `psk` token finds
    its key. -/
theorem build_consistent (S : Suite) (hPL : S.PubLen) (av : Avail) (cI cR : BuildCfg)
    (hm : Matching S cI cR) (inst : Inst) (hi : handshakeTokens cI.pattern cI.mods = .ok inst)
    (A B : HS) (hA : build S av cI = .ok A) (hB : build S av cR = .ok B) :
    ∃ k0, C02.preKeys inst = some k0 ∧ C02.Consistent S inst k0 A B := by
  obtain ⟨rfl, hlA, _⟩ := build_ok_facts S av cI _ hA
  obtain ⟨rfl, hlB, _⟩ := build_ok_facts S av cR _ hB
  obtain ⟨hw, _, _, _⟩ := inst_forms _ _ inst hi
  refine ⟨_, preKeys_inst _ _ inst hi, ?_⟩
  -- pre-shared keys
  have kI : needKnownRemote cI.pattern false = true → KeyOk S (builtS S cI) (builtRs S cR) := by
    intro h; obtain ⟨s, h1, h2⟩ := hm.rsR h; exact keyOk_built S cI cR s h1 h2
  have kR : needKnownRemote cI.pattern true = true → KeyOk S (builtS S cR) (builtRs S cI) := by
    intro h; obtain ⟨s, h1, h2⟩ := hm.rsI h; exact keyOk_built S cR cI s h1 h2
  have hpre := pre_nonempty_table cI.pattern
  -- the symmetric states
  have hsym : (builtState S cI).sym = (builtState S cR).sym := by
    show premixBoth S cI _ _ = premixBoth S cR _ _
    unfold premixBoth
    simp only [hm.roleI, hm.roleR, hm.pattern, hm.name, hm.prologue, ↓reduceIte, Bool.false_eq_true]
    rw [premix_congr S (builtS S cI).val.pub ((builtRs S cR).val.take S.pubLen) cI.pattern.tokens.preI _
      (fun hne => (take_of_keyOk S hPL _ _ (kI (hpre.2 hne))).symm)]
    exact premix_congr S _ _ _ _ (fun hne => take_of_keyOk S hPL _ _ (kR (hpre.1 hne)))
  have hsync : Sync S { iS := needKnownRemote cI.pattern false, rS := needKnownRemote cI.pattern true }
      (builtState S cI) (builtState S cR) := by
    refine ⟨hm.roleI, hm.roleR, hsym, ?_, hm.psks.symm, (fun h => by cases h), kI, (fun h => by cases h), kR, ?_, ?_⟩
    · show isPskMods cI.mods = isPskMods cR.mods
      rw [hm.mods]
    · intro h
      show (builtRs S cR).on = false
      unfold builtRs; rw [hm.noRsR h]
    · intro h
      show (builtRs S cI).on = false
      unfold builtRs; rw [hm.noRsI h]
  have hmsgs : (builtState S cI).msgs = inst.msgs := by rw [hw]; rfl
  refine ⟨hsync, ⟨?_, rfl, rfl, rfl⟩, partyOk_built S cI, partyOk_built S cR, rfl, hmsgs, hm.roleI, hm.roleR, ?_, ?_, ?_⟩
  · show (withPsks cI.pattern.tokens cI.mods).msgs = (withPsks cR.pattern.tokens cR.mods).msgs
    rw [hm.pattern, hm.mods]
  · have := (premixBoth_fields S cI (builtS S cI).val.pub ((builtRs S cI).val.take S.pubLen)).1
    show (premixBoth S cI _ _).cs.n = 0
    rw [this]; rfl
  · refine staticsOk_inst _ _ inst hi _ _ (fun h => ?_) (fun h => ?_)
    · show (builtS S cI).on = true
      have := hlA (by rw [hm.roleI]; exact h)
      unfold builtS; cases hs : cI.s <;> simp_all
    · show (builtS S cR).on = true
      have := hlB (by rw [hm.roleR, hm.pattern]; exact h)
      unfold builtS; cases hs : cR.s <;> simp_all
  · intro n m hmem hn
    have hb := (C12.psk_tokens_bounded _ _ inst hi).2.2.2 m hmem n hn
    exact ⟨hb.2, hm.pskFilled inst hi n m hmem hn⟩

/-- **Honest sessions built by the `Builder` complete.**  For every suite with the stated laws,
    every table pattern and modifier list, every pair of matching configurations on which `build`
    succeeds, and every payload/buffer plan that fits the messages (`inst` is whatever token
    lists snow computes for the pattern): the honest exchange of all handshake messages succeeds
    (each write returns the message length, each read returns the written payload), both parties
    then report the handshake finished and the same handshake hash, and both convert to transport
    states that hold the same pair of keys with all four counters 0.
    The only side condition left is that the modifier list is not astronomically long
    (fewer than 2^64 - 29 modifiers), which keeps the handshake nonce from reaching 2^64 - 1. -/
theorem honest_handshake_built (S : Suite) (hEL : S.EncLen) (hDE : S.DecEnc) (hPL : S.PubLen)
    (hPT : S.PrivTotal) (hDC : S.DhComm) (hDT : S.DhTotal)
    (av : Avail) (cI cR : BuildCfg) (hm : Matching S cI cR)
    (A B : HS) (hA : build S av cI = .ok A) (hB : build S av cR = .ok B)
    (hmods : cI.mods.length < 2 ^ 64 - 29)
    (inst : Inst) (hi : handshakeTokens cI.pattern cI.mods = .ok inst)
    (plan : List (Bytes × Nat × Nat)) (hplan : PlanOk S inst.msgs plan) :
    ∃ A' B' kf, exchange S true A B plan = some (A', B') ∧ Sync S kf A' B' ∧
      A'.isHandshakeFinished = true ∧ B'.isHandshakeFinished = true ∧
      A'.getHandshakeHash = B'.getHandshakeHash ∧
      ∃ ta tb, TS.ofHandshake S A' = .ok ta ∧ TS.ofHandshake S B' = .ok tb ∧ Paired ta tb ∧
        ta.sendCs.hasKey = true ∧ ta.recvCs.hasKey = true ∧ tb.sendCs.hasKey = true ∧ tb.recvCs.hasKey = true ∧
        ta.sendCs.n = 0 ∧ ta.recvCs.n = 0 ∧ tb.sendCs.n = 0 ∧ tb.recvCs.n = 0 ∧
        ta.initiator = true ∧ tb.initiator = false := by
  obtain ⟨k0, hk0, hc⟩ := build_consistent S hPL av cI cR hm inst hi A B hA hB
  have hv := C01Patterns.valid_psk _ _ inst hi
  have hsmall : totalFields inst.msgs < 2 ^ 64 - 1 := by
    have := (totalFields_inst _ _ inst hi).2
    omega
  exact C02.honest_handshake S hEL hDE hPL hPT hDC hDT inst hv k0 hk0 A B hc hsmall plan hplan

/-- A successful `build` means `handshakeTokens` succeeded, so the instance of the previous
    theorem exists (and its messages are the built state's). -/
theorem built_inst (S : Suite) (av : Avail) (c : BuildCfg) (hs : HS) (h : build S av c = .ok hs) :
    ∃ inst, handshakeTokens c.pattern c.mods = .ok inst ∧ inst.msgs = hs.msgs :=
  ⟨_, (C12.build_initial_state S av c hs h).2.2.2.1, rfl⟩

/-- The same with the instance eliminated: everything is stated on the two configurations and the
    two built states (the plan has to fit the built state's message patterns). -/
theorem honest_handshake_of_build (S : Suite) (hEL : S.EncLen) (hDE : S.DecEnc) (hPL : S.PubLen)
    (hPT : S.PrivTotal) (hDC : S.DhComm) (hDT : S.DhTotal)
    (av : Avail) (cI cR : BuildCfg) (hm : Matching S cI cR)
    (A B : HS) (hA : build S av cI = .ok A) (hB : build S av cR = .ok B)
    (hmods : cI.mods.length < 2 ^ 64 - 29)
    (plan : List (Bytes × Nat × Nat)) (hplan : PlanOk S A.msgs plan) :
    ∃ A' B' kf, exchange S true A B plan = some (A', B') ∧ Sync S kf A' B' ∧
      A'.isHandshakeFinished = true ∧ B'.isHandshakeFinished = true ∧
      A'.getHandshakeHash = B'.getHandshakeHash ∧
      ∃ ta tb, TS.ofHandshake S A' = .ok ta ∧ TS.ofHandshake S B' = .ok tb ∧ Paired ta tb ∧
        ta.sendCs.hasKey = true ∧ ta.recvCs.hasKey = true ∧ tb.sendCs.hasKey = true ∧ tb.recvCs.hasKey = true ∧
        ta.sendCs.n = 0 ∧ ta.recvCs.n = 0 ∧ tb.sendCs.n = 0 ∧ tb.recvCs.n = 0 ∧
        ta.initiator = true ∧ tb.initiator = false := by
  obtain ⟨inst, hi, hmsgs⟩ := built_inst S av cI A hA
  exact honest_handshake_built S hEL hDE hPL hPT hDC hDT av cI cR hm A B hA hB hmods inst hi plan
    (by rw [hmsgs]; exact hplan)

/-! ## Non-vacuity: concrete matching configurations (toy suite `Toy.suite 0 0 0`) -/

section Examples

def exAv : Avail := { rng := true, dh := true, cipher := true, hash := true }
def exSuite : Suite := Toy.suite 0 0 0
def exKey (b : UInt8) : Bytes := List.replicate 32 b

/-- `XX`: nothing pre-shared, both parties have a static key, different random streams. -/
def xxI : BuildCfg :=
  { pattern := .pXX, mods := [], name := [1, 2, 3], initiator := true, s := some (exKey 7),
    eFixed := none, rs := none, psks := List.replicate 10 none, prologue := [9], rng := [1, 2, 3] }
def xxR : BuildCfg := { xxI with initiator := false, s := some (exKey 8), rng := [4] }

/-- `IKpsk2`: the responder's static key is pre-shared, psk slot 2 is filled. -/
def ikI : BuildCfg :=
  { pattern := .pIK, mods := [.psk 2], name := [4, 5], initiator := true, s := some (exKey 7),
    eFixed := none, rs := some (exSuite.pubOf (exKey 8)),
    psks := (List.replicate 10 none).set 2 (some (exKey 5)), prologue := [], rng := [] }
def ikR : BuildCfg := { ikI with initiator := false, s := some (exKey 8), rs := none, eFixed := some (exKey 3) }

/-- `NKpsk0`: the initiator has no static key at all (its built `s` is switched off). -/
def nkI : BuildCfg :=
  { pattern := .pNK, mods := [.psk 0], name := [6], initiator := true, s := none,
    eFixed := none, rs := some (exSuite.pubOf (exKey 8)),
    psks := (List.replicate 10 none).set 0 (some (exKey 5)), prologue := [1], rng := [7, 7] }
def nkR : BuildCfg := { nkI with initiator := false, s := some (exKey 8), rs := none }

theorem xx_matching : Matching exSuite xxI xxR :=
  { pattern := rfl, mods := rfl, name := rfl, prologue := rfl, psks := rfl, roleI := rfl, roleR := rfl,
    rsI := fun h => absurd h (by decide), rsR := fun h => absurd h (by decide),
    noRsI := fun _ => rfl, noRsR := fun _ => rfl,
    pskFilled := pskFilled_of_mods xxI (fun n hn => by simp [xxI] at hn) }

theorem ik_matching : Matching exSuite ikI ikR :=
  { pattern := rfl, mods := rfl, name := rfl, prologue := rfl, psks := rfl, roleI := rfl, roleR := rfl,
    rsI := fun _ => ⟨exKey 8, rfl, rfl⟩, rsR := fun h => absurd h (by decide),
    noRsI := fun h => absurd h (by decide), noRsR := fun _ => rfl,
    pskFilled := pskFilled_of_mods ikI (fun n hn => by
      simp only [ikI, List.mem_singleton, Modifier.psk.injEq] at hn; subst hn; exact ⟨exKey 5, by decide⟩) }

theorem nk_matching : Matching exSuite nkI nkR :=
  { pattern := rfl, mods := rfl, name := rfl, prologue := rfl, psks := rfl, roleI := rfl, roleR := rfl,
    rsI := fun _ => ⟨exKey 8, rfl, rfl⟩, rsR := fun h => absurd h (by decide),
    noRsI := fun h => absurd h (by decide), noRsR := fun _ => rfl,
    pskFilled := pskFilled_of_mods nkI (fun n hn => by
      simp only [nkI, List.mem_singleton, Modifier.psk.injEq] at hn; subst hn; exact ⟨exKey 5, by decide⟩) }

theorem ok_of_isOk {α} {r : Res α} (h : r.isOk = true) : ∃ a, r = .ok a := by
  cases r <;> simp [Res.isOk] at h ⊢

-- `build` succeeds on all six configurations (evaluated on the model)
theorem xxI_builds : (build exSuite exAv xxI).isOk = true := by decide +kernel
theorem xxR_builds : (build exSuite exAv xxR).isOk = true := by decide +kernel
theorem ikI_builds : (build exSuite exAv ikI).isOk = true := by decide +kernel
theorem ikR_builds : (build exSuite exAv ikR).isOk = true := by decide +kernel
theorem nkI_builds : (build exSuite exAv nkI).isOk = true := by decide +kernel
theorem nkR_builds : (build exSuite exAv nkR).isOk = true := by decide +kernel

/-- `build_consistent` applies to the built `IKpsk2` pair; the key record says that exactly the
    responder's static key is known beforehand. -/
example : ∃ A B, build exSuite exAv ikI = .ok A ∧ build exSuite exAv ikR = .ok B ∧
    C02.Consistent exSuite { preI := [], preR := [.s], msgs := [[.e, .es, .s, .ss], [.e, .ee, .se, .psk 2]] }
      { rS := true } A B := by
  obtain ⟨A, hA⟩ := ok_of_isOk ikI_builds
  obtain ⟨B, hB⟩ := ok_of_isOk ikR_builds
  obtain ⟨k0, hk, hc⟩ := build_consistent exSuite (C18.toy_suite_pubLen 0 0 0) exAv ikI ikR ik_matching
    { preI := [], preR := [.s], msgs := [[.e, .es, .s, .ss], [.e, .ee, .se, .psk 2]] } (by decide) A B hA hB
  have : k0 = { rS := true } := by
    have h2 : C02.preKeys { preI := [], preR := [.s], msgs := [[.e, .es, .s, .ss], [.e, .ee, .se, .psk 2]] }
        = some { rS := true } := by decide
    rw [h2] at hk; exact (Option.some.inj hk).symm
  subst this
  exact ⟨A, B, hA, hB, hc⟩

/-- The corollary instantiated: the built `XX` pair completes the three-message handshake with the
    given payloads and buffer sizes. -/
example : ∃ A B A' B', build exSuite exAv xxI = .ok A ∧ build exSuite exAv xxR = .ok B ∧
    exchange exSuite true A B [([1], 100, 10), ([], 300, 0), ([2, 3], 200, 5)] = some (A', B') ∧
    A'.isHandshakeFinished = true ∧ B'.isHandshakeFinished = true ∧
    A'.getHandshakeHash = B'.getHandshakeHash := by
  obtain ⟨A, hA⟩ := ok_of_isOk xxI_builds
  obtain ⟨B, hB⟩ := ok_of_isOk xxR_builds
  obtain ⟨A', B', _, hex, _, h1, h2, h3, _⟩ :=
    honest_handshake_built exSuite (C18.toy_suite_encLen 0 0 0) (C18.toy_suite_decEnc 0 0 0)
      (C18.toy_suite_pubLen 0 0 0) (C18.toy_suite_privTotal 0 0 0) (C18.toy_suite_dhComm 0 0 0)
      (C18.toy_suite_dhTotal 0 0 0) exAv xxI xxR xx_matching A B hA hB (by decide)
      { preI := [], preR := [], msgs := [[.e], [.e, .ee, .s, .es], [.s, .se]] } (by decide)
      [([1], 100, 10), ([], 300, 0), ([2, 3], 200, 5)] (by simp only [PlanOk]; decide)
  exact ⟨A, B, A', B', hA, hB, hex, h1, h2, h3⟩

/-- ... the built `IKpsk2` pair (pre-shared static key, psk, a fixed ephemeral on one side) ... -/
example : ∃ A B A' B', build exSuite exAv ikI = .ok A ∧ build exSuite exAv ikR = .ok B ∧
    exchange exSuite true A B [([1, 2], 300, 10), ([], 300, 0)] = some (A', B') ∧
    A'.isHandshakeFinished = true ∧ B'.isHandshakeFinished = true ∧
    A'.getHandshakeHash = B'.getHandshakeHash := by
  obtain ⟨A, hA⟩ := ok_of_isOk ikI_builds
  obtain ⟨B, hB⟩ := ok_of_isOk ikR_builds
  obtain ⟨A', B', _, hex, _, h1, h2, h3, _⟩ :=
    honest_handshake_built exSuite (C18.toy_suite_encLen 0 0 0) (C18.toy_suite_decEnc 0 0 0)
      (C18.toy_suite_pubLen 0 0 0) (C18.toy_suite_privTotal 0 0 0) (C18.toy_suite_dhComm 0 0 0)
      (C18.toy_suite_dhTotal 0 0 0) exAv ikI ikR ik_matching A B hA hB (by decide)
      { preI := [], preR := [.s], msgs := [[.e, .es, .s, .ss], [.e, .ee, .se, .psk 2]] } (by decide)
      [([1, 2], 300, 10), ([], 300, 0)] (by simp only [PlanOk]; decide)
  exact ⟨A, B, A', B', hA, hB, hex, h1, h2, h3⟩

/-- ... and the built `NKpsk0` pair, whose initiator was given no static key. -/
example : ∃ A B A' B', build exSuite exAv nkI = .ok A ∧ build exSuite exAv nkR = .ok B ∧
    A.s.on = false ∧
    exchange exSuite true A B [([1, 2], 300, 10), ([], 300, 0)] = some (A', B') ∧
    A'.isHandshakeFinished = true ∧ B'.isHandshakeFinished = true ∧
    A'.getHandshakeHash = B'.getHandshakeHash := by
  obtain ⟨A, hA⟩ := ok_of_isOk nkI_builds
  obtain ⟨B, hB⟩ := ok_of_isOk nkR_builds
  obtain ⟨A', B', _, hex, _, h1, h2, h3, _⟩ :=
    honest_handshake_built exSuite (C18.toy_suite_encLen 0 0 0) (C18.toy_suite_decEnc 0 0 0)
      (C18.toy_suite_pubLen 0 0 0) (C18.toy_suite_privTotal 0 0 0) (C18.toy_suite_dhComm 0 0 0)
      (C18.toy_suite_dhTotal 0 0 0) exAv nkI nkR nk_matching A B hA hB (by decide)
      { preI := [], preR := [.s], msgs := [[.psk 0, .e, .es], [.e, .ee]] } (by decide)
      [([1, 2], 300, 10), ([], 300, 0)] (by simp only [PlanOk]; decide)
  have hs : A.s.on = false := by
    rw [(C12.build_initial_state _ _ _ A hA).2.2.2.2.2.2.2.2.2.2.1]; rfl
  exact ⟨A, B, A', B', hA, hB, hs, hex, h1, h2, h3⟩

/-- `Matching` is not trivially true: a responder built with another static key than the one the
    initiator was told does not match. -/
example : ¬ Matching exSuite ikI { ikR with s := some (exKey 1) } := by
  intro h
  obtain ⟨sR, h1, h2⟩ := h.rsI (by decide)
  simp only [Option.some.injEq] at h1
  subst h1
  revert h2
  decide

/-- Why `Matching` forbids a remote static key the pattern does not pre-share: `build` accepts it
    (`XX` initiator with an `rs`), and the built state then reports a remote static key before the
    peer has sent anything, which contradicts `Sync.nrS` (and the C17 property). -/
example : ∃ A, build exSuite exAv { xxI with rs := some (exSuite.pubOf (exKey 8)) } = .ok A ∧
    A.rs.on = true ∧ needKnownRemote .pXX true = false := by
  obtain ⟨A, hA⟩ := ok_of_isOk (r := build exSuite exAv { xxI with rs := some (exSuite.pubOf (exKey 8)) })
    (by decide +kernel)
  refine ⟨A, hA, ?_, by decide⟩
  rw [(C12.build_initial_state _ _ _ A hA).2.2.2.2.2.2.2.2.2.2.2.1]; rfl

end Examples

end SnowVerif.Theorems.C02Build
