/-
  C02  Honest sessions complete, agree, and deliver every payload intact.

  `honest_handshake`: for EVERY pattern instance the Noise validity rules accept (this includes all
  38 table patterns with every fitting psk modifier list: `C01Patterns.valid_psk`), every suite
  with the stated laws, consistent parties, every random stream on each side (the state carries it),
  and every payload/buffer plan that fits: every write and read of the honest exchange returns `ok`,
  each read returns exactly the written payload, both sides finish after exactly `#messages`
  messages (not before: `finished_only_at_end`), report the same handshake hash, convert to
  transport mode and hold the same pair of direction keys with counters at 0.
  `honest_transport`: after that, any number of payloads sent in either allowed direction are
  delivered in order and intact (stateful), or under any nonces below 2^64-1 (stateless: C16).
  Laws used: EncLen, DecEnc, PubLen, PrivTotal, DhComm, DhTotal (for P-256 PrivTotal/DhTotal hold
  for valid scalars only: see the known finding KF1).
-/
import SnowVerif.Lemmas.Honest3
import SnowVerif.Theorems.C04
import SnowVerif.Theorems.C01Patterns

namespace SnowVerif.Theorems.C02
open SnowVerif SnowVerif.Model SnowVerif.Model.HS SnowVerif.Model.TS SnowVerif.Theorems.C04
set_option linter.unusedVariables false
set_option linter.unusedSimpArgs false

/-- The specification's key record after both pre-messages. -/
def preKeys (inst : Inst) : Option Spec.Keys :=
  (Spec.Keys.runToks true {} inst.preI).bind fun k => Spec.Keys.runToks false k inst.preR

/-- Two parties built from the same protocol name with consistent keys, psks and prologue
    (what `Builder::build_initiator` / `build_responder` produce for such configurations). -/
structure Consistent (S : Suite) (inst : Inst) (k0 : Spec.Keys) (A B : HS) : Prop where
  sync : Sync S k0 A B
  ctl : Ctl A B
  okA : PartyOk S A
  okB : PartyOk S B
  pos0 : A.pos = 0
  msgs : A.msgs = inst.msgs
  turnA : A.myTurn = true
  turnB : B.myTurn = false
  n0 : A.sym.cs.n = 0
  statics : StaticsOk true inst.msgs A.s.on B.s.on
  psks : ∀ n m, m ∈ inst.msgs → Tok.psk n ∈ m → n < 10 ∧ ∃ key, A.psks.getD n none = some key

theorem valid_runMsgs (inst : Inst) (hv : Spec.valid inst = true) (k0 : Spec.Keys) (hk0 : preKeys inst = some k0) :
    ∃ kf, Spec.Keys.runMsgs true k0 inst.msgs = some kf ∧ 1 ≤ inst.msgs.length := by
  unfold Spec.valid at hv
  simp only [Bool.and_eq_true, decide_eq_true_eq] at hv
  obtain ⟨⟨⟨h1, _⟩, hd⟩, _⟩ := hv
  unfold Spec.dhRules at hd
  unfold preKeys at hk0
  simp only [Bool.and_eq_true] at hd
  obtain ⟨_, hm⟩ := hd
  rw [hk0] at hm
  simp only [Option.bind_some] at hm
  cases hr : Spec.Keys.runMsgs true k0 inst.msgs with
  | none => rw [hr] at hm; simp at hm
  | some kf => exact ⟨kf, rfl, h1⟩

theorem split_installed (S : Suite) (sym : Sym) :
    (sym.split S).1.hasKey = true ∧ (sym.split S).2.hasKey = true ∧ (sym.split S).1.n = 0 ∧ (sym.split S).2.n = 0 := by
  simp [Sym.split, CipherState.set]

/-- **Honest handshake.** -/
theorem honest_handshake (S : Suite) (hEL : S.EncLen) (hDE : S.DecEnc) (hPL : S.PubLen) (hPT : S.PrivTotal)
    (hDC : S.DhComm) (hDT : S.DhTotal)
    (inst : Inst) (hv : Spec.valid inst = true) (k0 : Spec.Keys) (hk0 : preKeys inst = some k0)
    (A B : HS) (hc : Consistent S inst k0 A B) (hsmall : totalFields inst.msgs < 2 ^ 64 - 1)
    (plan : List (Bytes × Nat × Nat)) (hplan : PlanOk S inst.msgs plan) :
    ∃ A' B' kf, exchange S true A B plan = some (A', B') ∧ Sync S kf A' B' ∧
      A'.isHandshakeFinished = true ∧ B'.isHandshakeFinished = true ∧
      A'.getHandshakeHash = B'.getHandshakeHash ∧
      ∃ ta tb, TS.ofHandshake S A' = .ok ta ∧ TS.ofHandshake S B' = .ok tb ∧ Paired ta tb ∧
        ta.sendCs.hasKey = true ∧ ta.recvCs.hasKey = true ∧ tb.sendCs.hasKey = true ∧ tb.recvCs.hasKey = true ∧
        ta.sendCs.n = 0 ∧ ta.recvCs.n = 0 ∧ tb.sendCs.n = 0 ∧ tb.recvCs.n = 0 ∧
        ta.initiator = true ∧ tb.initiator = false := by
  obtain ⟨kf, hkf, hlen⟩ := valid_runMsgs inst hv k0 hk0
  have hdrop : A.msgs.drop A.pos = inst.msgs := by rw [hc.pos0, hc.msgs]; rfl
  have hn0 : A.sym.cs.n.toNat + totalFields inst.msgs < 2 ^ 64 - 1 := by rw [hc.n0]; simpa using hsmall
  obtain ⟨A', B', hex, hs', hc', hp', hm', hoA, hoB, _, _, hcs⟩ :=
    honest_exchange S hEL hDE hPL hPT hDC hDT inst.msgs true k0 kf A B plan hc.sync hc.ctl hc.okA hc.okB
      hc.turnA (by rw [hc.turnB]; rfl) (by rw [hc.pos0]; omega) hdrop hkf hc.statics hc.psks hn0 hplan
  have hne : inst.msgs ≠ [] := by intro h; rw [h] at hlen; simp at hlen
  obtain ⟨hcs1, hcs2⟩ := hcs hne
  have hfinA : A'.isHandshakeFinished = true := by simp [HS.isHandshakeFinished, hp', hm']
  have hfinB : B'.isHandshakeFinished = true := by
    simp [HS.isHandshakeFinished, ← hc'.pos, ← hc'.msgs, hp', hm']
  have hsp := split_installed S A'.sym
  refine ⟨A', B', kf, hex, hs', hfinA, hfinB, by simp [HS.getHandshakeHash, hs'.sym], ?_⟩
  refine ⟨{ cs1 := A'.cs1, cs2 := A'.cs2, oneway := A'.oneway, pubLen := S.pubLen, rs := A'.rs, initiator := A'.initiator },
          { cs1 := B'.cs1, cs2 := B'.cs2, oneway := B'.oneway, pubLen := S.pubLen, rs := B'.rs, initiator := B'.initiator },
          by simp [TS.ofHandshake, hfinA], by simp [TS.ofHandshake, hfinB], ?_, ?_⟩
  · exact ⟨by simp [hs'.ia, hs'.ib], by simp [hc'.cs1], by simp [hc'.cs2]⟩
  · simp only [sendCs, recvCs, hs'.ia, hs'.ib, ↓reduceIte, Bool.false_eq_true, ← hc'.cs1, ← hc'.cs2, hcs1, hcs2]
    exact ⟨hsp.1, hsp.2.1, hsp.2.1, hsp.1, hsp.2.2.1, hsp.2.2.2, hsp.2.2.2, hsp.2.2.1, trivial, trivial⟩

/-- Not before: while messages remain, neither party reports the handshake finished. -/
theorem finished_only_at_end (hs : HS) (h : hs.pos < hs.msgs.length) : hs.isHandshakeFinished = false := by
  simp [HS.isHandshakeFinished]; omega

/-- Sending a list of payloads in one direction, delivering each to the peer. -/
def sendAll (S : Suite) : TS → TS → List Bytes → Option (TS × TS)
  | a, b, [] => some (a, b)
  | a, b, p :: ps =>
    match (a.writeMessage S p (p.length + 16)).1 with
    | .ok c =>
      if ((b.readMessage S c p.length).1 = .ok p) then
        sendAll S (a.writeMessage S p (p.length + 16)).2.1 (b.readMessage S c p.length).2.1 ps
      else none
    | _ => none

/-- **Honest stateful transport**: every payload of legal size written by one side is accepted by
    the other, in order, with the payload intact, for any number of messages (as long as the
    counter does not reach 2^64-1). -/
theorem honest_transport (S : Suite) (hDE : S.DecEnc) (hEL : S.EncLen) (ps : List Bytes) :
    ∀ (a b : TS), Paired a b → CanSend a → CanRecv b → b.recvCs.n = a.sendCs.n →
      a.sendCs.n.toNat + ps.length < 2 ^ 64 - 1 → (∀ p ∈ ps, p.length + 16 ≤ 65535) →
      ∃ a' b', sendAll S a b ps = some (a', b') ∧ Paired a' b' ∧ b'.recvCs.n = a'.sendCs.n := by
  induction ps with
  | nil => intro a b hp _ _ hn _ _; exact ⟨a, b, rfl, hp, hn⟩
  | cons p ps ih =>
    intro a b hp ha hb hn hbound hsz
    have hne : a.sendCs.n ≠ MAXN := HS.nonce_ne_max_of_lt _ (by simp at hbound; omega)
    have g : WGuards a p (p.length + 16) := ⟨hsz p List.mem_cons_self, Nat.le_refl _, hne⟩
    have hw := write_guards_ok S a p (p.length + 16) ha g
    obtain ⟨b1, buf, ev, hr⟩ := genuine_accepted S hDE hEL a b hp ha hb p (p.length + 16)
      (S.enc a.sendCs.key a.sendCs.n [] p) _ _ hw hn p.length (Nat.le_refl _)
    have hkeys := paired_keys a b hp
    have hlen := hEL a.sendCs.key a.sendCs.n [] p
    have gg : Guards b (S.enc a.sendCs.key a.sendCs.n [] p) p.length := by
      unfold Guards; rw [hlen, hn]; exact ⟨g.1, by omega, by omega, g.2.2⟩
    have hrd := read_guards_ok S b _ p.length hb gg
    rw [← hkeys.1, hn, hDE] at hrd
    simp only at hrd
    -- successor states
    have hp' : Paired (a.withSend { a.sendCs with n := a.sendCs.n + 1 }) (b.withRecv { b.recvCs with n := b.recvCs.n + 1 }) := by
      obtain ⟨p1, p2, p3⟩ := hp
      unfold Paired withSend withRecv
      cases hai : a.initiator <;> cases hbi : b.initiator <;> simp_all
    have ha' : CanSend (a.withSend { a.sendCs with n := a.sendCs.n + 1 }) := by
      unfold CanSend at *; rw [sendCs_withSend, initiator_withSend, oneway_withSend]; exact ⟨ha.1, ha.2⟩
    have hb' : CanRecv (b.withRecv { b.recvCs with n := b.recvCs.n + 1 }) := by
      unfold CanRecv at *; rw [recvCs_withRecv, initiator_withRecv, oneway_withRecv]; exact ⟨hb.1, hb.2⟩
    have hnn : (a.sendCs.n + 1).toNat = a.sendCs.n.toNat + 1 := HS.nonce_succ _ hne
    obtain ⟨a', b', hsend, hpp, hnn'⟩ := ih _ _ hp' ha' hb' (by simp [hn]) (by simp at hbound ⊢; omega)
      (fun q hq => hsz q (List.mem_cons_of_mem _ hq))
    refine ⟨a', b', ?_, hpp, hnn'⟩
    simp only [sendAll, hw, hrd, ↓reduceIte]
    rw [hn] at hsend
    exact hsend

end SnowVerif.Theorems.C02
