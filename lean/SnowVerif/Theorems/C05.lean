/-
  C05  Stateful transport delivers in order, exactly once; rejections change nothing.

  The receiving half of a `TransportState` refines the abstract receiver
  `(key, next)`; a rejected delivery leaves the whole state equal; a delivery is
  accepted at counter `next` iff it is the AEAD encryption under `(key, next)`
  of the payload returned.
-/
import SnowVerif.Lemmas.Transport

namespace SnowVerif.Theorems.C05
open SnowVerif SnowVerif.Model SnowVerif.Model.TS
set_option linter.unusedVariables false
set_option linter.unusedSimpArgs false

/-- The abstract receiver. -/
structure Recv where
  key  : Bytes
  next : UInt64
  deriving DecidableEq, Repr

def RGuards (r : Recv) (d : Bytes) (cap : Nat) : Prop :=
  d.length ≤ 65535 ∧ 16 ≤ d.length ∧ d.length - 16 ≤ cap ∧ r.next ≠ MAXN

instance (r : Recv) (d : Bytes) (cap : Nat) : Decidable (RGuards r d cap) := by
  unfold RGuards; infer_instance

/-- One delivery (any bytes, any payload-buffer capacity) to the abstract receiver. -/
def Recv.deliver (S : Suite) (r : Recv) (d : Bytes) (cap : Nat) : Option Bytes × Recv :=
  if RGuards r d cap then
    match S.dec r.key r.next [] d with
    | some p => (some p, { r with next := r.next + 1 })
    | none => (none, r)
  else (none, r)

/-- The operations of a delivery schedule: deliveries and explicit nonce settings. -/
inductive Op
  | deliver (d : Bytes) (cap : Nat)
  | setNonce (v : UInt64)

def Recv.step (S : Suite) (r : Recv) : Op → Option Bytes × Recv
  | .deliver d cap => r.deliver S d cap
  | .setNonce v => (none, { r with next := v })

/-- The same operation on the model of the implementation; the result is the payload if accepted. -/
def tsStep (S : Suite) (ts : TS) : Op → Option Bytes × TS
  | .deliver d cap =>
    match ts.readMessage S d cap with
    | (.ok p, ts', _, _) => (some p, ts')
    | (_, ts', _, _) => (none, ts')
  | .setNonce v => (none, ts.setReceivingNonce v)

def abs (ts : TS) : Recv := { key := ts.recvCs.key, next := ts.recvCs.n }

theorem canRecv_withRecv (ts : TS) (cs : CipherState) (h : CanRecv ts) (hk : cs.hasKey = true) :
    CanRecv (ts.withRecv cs) := by
  unfold CanRecv at *
  rw [recvCs_withRecv, initiator_withRecv, oneway_withRecv]
  exact ⟨hk, h.2⟩

/-- One step: the implementation's receiving half behaves exactly as the abstract receiver,
    for every delivery and every explicit nonce. -/
theorem step_refines (S : Suite) (ts : TS) (op : Op) (h : CanRecv ts) :
    (tsStep S ts op).1 = ((abs ts).step S op).1 ∧ abs (tsStep S ts op).2 = ((abs ts).step S op).2 ∧
    CanRecv (tsStep S ts op).2 ∧ (tsStep S ts op).2.sendCs = ts.sendCs := by
  cases op with
  | setNonce v =>
    simp only [tsStep, Recv.step, abs, setReceivingNonce_eq]
    refine ⟨trivial, by simp, ?_, by simp⟩
    exact canRecv_withRecv ts _ h (by simp [h.1])
  | deliver d cap =>
    by_cases g : Guards ts d cap
    · have g' : RGuards (abs ts) d cap := g
      simp only [tsStep, Recv.step, Recv.deliver, g', ↓reduceIte, read_guards_ok S ts d cap h g]
      cases hd : S.dec ts.recvCs.key ts.recvCs.n [] d with
      | none => simp [abs, hd, h]
      | some p =>
        simp only [abs, hd, recvCs_withRecv, sendCs_withRecv, true_and, and_true]
        exact canRecv_withRecv ts _ h (by simp [h.1])
    · have g' : ¬ RGuards (abs ts) d cap := g
      obtain ⟨e, he⟩ := read_guards_fail S ts d cap h g
      simp [tsStep, Recv.step, Recv.deliver, g', he, h]

/-- Running a whole schedule. -/
def runTs (S : Suite) : TS → List Op → List (Option Bytes) × TS
  | ts, [] => ([], ts)
  | ts, op :: ops =>
    ((tsStep S ts op).1 :: (runTs S (tsStep S ts op).2 ops).1, (runTs S (tsStep S ts op).2 ops).2)

def runRecv (S : Suite) : Recv → List Op → List (Option Bytes) × Recv
  | r, [] => ([], r)
  | r, op :: ops =>
    ((r.step S op).1 :: (runRecv S (r.step S op).2 ops).1, (runRecv S (r.step S op).2 ops).2)

/-- **Refinement for every delivery schedule** (reordering, loss, duplication, garbage,
    undersized buffers, explicit nonces; unbounded length): the sequence of accept/reject
    results with the returned payloads, and the final receiver state, are those of the
    abstract receiver. The sending half is never touched by deliveries. -/
theorem t_read_refines_receiver (S : Suite) (ts : TS) (ops : List Op) (h : CanRecv ts) :
    (runTs S ts ops).1 = (runRecv S (abs ts) ops).1 ∧
    abs (runTs S ts ops).2 = (runRecv S (abs ts) ops).2 ∧
    (runTs S ts ops).2.sendCs = ts.sendCs := by
  induction ops generalizing ts with
  | nil => simp [runTs, runRecv]
  | cons op ops ih =>
    obtain ⟨h1, h2, h3, h4⟩ := step_refines S ts op h
    obtain ⟨i1, i2, i3⟩ := ih (tsStep S ts op).2 h3
    simp only [runTs, runRecv]
    rw [h2] at i1 i2
    exact ⟨by rw [h1, i1], i2, by rw [i3, h4]⟩

/-- A rejected delivery has no effect on the whole transport state. -/
theorem t_read_err_noop (S : Suite) (ts : TS) (d : Bytes) (cap : Nat) (e : Err) (ts' : TS) (buf : Bytes)
    (ev : List Event) (h : ts.readMessage S d cap = (.err e, ts', buf, ev)) : ts' = ts := by
  rw [readMessage_eq] at h
  repeat' split at h
  all_goals (simp only [Prod.mk.injEq, reduceCtorEq, false_and] at h)
  · exact h.2.1.symm
  · exact h.2.1.symm
  · obtain ⟨h1, rfl, _, _⟩ := h
    have h2 := CipherState.decryptAd_err (S := S) (cs := ts.recvCs) (ad := []) (ct := d) (cap := cap)
      (e := e) (cs' := (ts.recvCs.decryptAd S [] d cap).2.1) (buf := (ts.recvCs.decryptAd S [] d cap).2.2.1)
      (ev := (ts.recvCs.decryptAd S [] d cap).2.2.2) (by rw [← h1])
    rw [h2.1, withRecv_self]

/-- With a sound AEAD (`DecSound`), the abstract receiver at counter `next` accepts `d` only if
    `d` is the encryption under `(key, next)` of the payload it returns; the counter then moves
    by exactly one. -/
theorem accept_only_encryption (S : Suite) (hs : S.DecSound) (r : Recv) (d : Bytes) (cap : Nat) (p : Bytes)
    (h : (r.deliver S d cap).1 = some p) :
    d = S.enc r.key r.next [] p ∧ (r.deliver S d cap).2.next = r.next + 1 ∧ r.next ≠ MAXN := by
  unfold Recv.deliver at h ⊢
  by_cases g : RGuards r d cap
  · simp only [g, ↓reduceIte] at h ⊢
    cases hd : S.dec r.key r.next [] d with
    | none => simp [hd] at h
    | some q =>
      simp only [hd, Option.some.injEq] at h ⊢
      subst h
      exact ⟨hs _ _ _ _ _ hd, trivial, g.2.2.2⟩
  · simp [g] at h

/-- (`DecEnc`, `EncLen`) The receiver does accept the sender's message number `next`, returning
    the payload exactly, whenever the message is of legal size and the buffer is large enough. -/
theorem accept_next_message (S : Suite) (hde : S.DecEnc) (hel : S.EncLen) (r : Recv) (p : Bytes) (cap : Nat)
    (hn : r.next ≠ MAXN) (hl : p.length + 16 ≤ 65535) (hc : p.length ≤ cap) :
    r.deliver S (S.enc r.key r.next [] p) cap = (some p, { r with next := r.next + 1 }) := by
  unfold Recv.deliver
  have hlen := hel r.key r.next [] p
  have g : RGuards r (S.enc r.key r.next [] p) cap := by
    unfold RGuards; rw [hlen]; exact ⟨hl, by omega, by omega, hn⟩
  simp only [g, ↓reduceIte, hde r.key r.next [] p]

/-- In-order, exactly once: let the sender's `j`-th message be `m j = enc key j [] (pl j)`.
    A delivery of `m i` to a receiver at counter `j` is accepted iff it is the next message
    (`i = j`), unless the run exhibits an *AEAD context collision*: one ciphertext valid under
    two different nonces of the same key (the residual cryptographic assumption). -/
theorem sender_message_accepted_iff_next (S : Suite) (hs : S.DecSound) (hde : S.DecEnc) (hel : S.EncLen)
    (key : Bytes) (pl : UInt64 → Bytes) (i j : UInt64) (cap : Nat)
    (hl : (pl j).length + 16 ≤ 65535) (hc : (pl j).length ≤ cap) (hj : j ≠ MAXN) :
    ((({ key := key, next := j } : Recv).deliver S (S.enc key i [] (pl i)) cap).1.isSome ↔ i = j) ∨
    (i ≠ j ∧ ∃ q, S.enc key i [] (pl i) = S.enc key j [] q) := by
  by_cases hij : i = j
  · left
    subst hij
    have := accept_next_message S hde hel { key := key, next := i } (pl i) cap hj hl hc
    simp only at this
    simp [this]
  · cases hacc : (({ key := key, next := j } : Recv).deliver S (S.enc key i [] (pl i)) cap).1 with
    | none => left; simp [hij]
    | some q =>
      right
      have := accept_only_encryption S hs { key := key, next := j } (S.enc key i [] (pl i)) cap q hacc
      exact ⟨hij, q, this.1⟩

/-- Non-vacuity: an initial responder transport state satisfies `CanRecv`. -/
example : CanRecv { cs1 := { key := Bytes.zeros 32, n := 0, hasKey := true },
                    cs2 := { key := Bytes.zeros 32, n := 0, hasKey := true }, oneway := true,
                    pubLen := 32, rs := { val := [], on := false }, initiator := false } := by
  simp [CanRecv, recvCs]

end SnowVerif.Theorems.C05
