/-
  C06 over whole call histories: no (key, nonce) pair is used to encrypt two different inputs
  across any sequence of handshake API calls of one endpoint — failing calls, retries after
  errors, reads and `set_psk` in between included — and merged over both endpoints.

  `Theorems/C06.lean` proves the discipline per cipher state, per call, for one failed call and
  its retry, and for transport histories.  This file composes them.

  Definitions (Lemmas/C06Hist*.lean):
  * `histG S hs ops : List HEv`, the *history log* of the calls `ops : List C11.Op` made from the
    state `hs`: per call a `callStart` mark, the call's ghost log (`writeG` of Lemmas/C06Write.lean,
    `readG` of Lemmas/C06HistRead.lean: the events, and `GEv.install key 0` after every `mix_key` /
    `mix_key_and_hash` a token performed), and a `restore key n` mark when the call returned an
    error (the repaired code put the checkpointed key and nonce back).  A `restore` is a
    different constructor from a KDF installation, so the two cannot be confused.
  * `histEv S hs ops`: the events the calls really returned, concatenated.
  * `encAfterE` / `EncAfterEOk` (Lemmas/C06HistTable.lean): the Stage 2 scan of a message / an instance.
  * `InstOk hs`: the session's message list passes the scan and `has_key` is the keyedness of the
    messages processed so far (true of every built state).

  1. `hist_erase`, `hist_disciplined`, `hist_restore_is_checkpoint`, `hist_installs_are_kdf`.
  2. `table_enc_after_e`, `instance_enc_after_e` (all patterns, all modifier lists).
  3. `history_no_reuse_log`, `history_no_reuse`, `history_no_reuse_without_reinstall`,
     `history_no_reuse_built`, `history_no_reuse_built_total`, `endpoint_no_reuse` (handshake
     history, then conversion to transport mode and a transport history with rekeys).
  4. `chain_disciplined`, `chain_no_reuse` (both endpoints, handshake, for any chain of writers).
     That the writers of an honest lockstep exchange form such a chain
     (`C06.honest_exchange_chain`) and the joined statements `C06.exchange_log_disciplined`,
     `C06.exchange_no_reuse`, `C06.built_exchange_no_reuse` are in Lemmas/C06HistExchHonest.lean and
     Lemmas/C06HistExchFull.lean: they need Lemmas/Honest3.lean, which cannot be imported into this
     file (it declares `HS.readInner_ok`, as does Lemmas/C14Read.lean, imported via Theorems/C06.lean).
     `transport_cross_no_reuse` (both endpoints, transport).
  5. Non-vacuity: the XX initiator, built by `Builder::build`, message 1, message 2, a failing
     message 3 and its retry.
-/
import SnowVerif.Lemmas.C06HistInst
import SnowVerif.Lemmas.C06HistExch
import SnowVerif.Lemmas.C10Build
import SnowVerif.Lemmas.C14Build
import SnowVerif.Theorems.C10

namespace SnowVerif.Theorems.C06Hist
open SnowVerif SnowVerif.Model SnowVerif.Model.HS SnowVerif.C06 SnowVerif.Generated
open SnowVerif.Theorems.C11 (Op step run NoPanic)
set_option linter.unusedVariables false
set_option linter.unusedSimpArgs false

/-! ## 1. The history log and its discipline -/

/-- **The history log is the real log plus marks**: erasing the marks (call starts, KDF
    installations, restores) of the history log gives exactly the concatenation of the event lists
    the calls of the history returned, failed calls included. -/
theorem hist_erase (S : Suite) (hs : HS) (ops : List Op) : herase (histG S hs ops) = histEv S hs ops :=
  C06.hist_erase S hs ops

/-- **Every history of handshake calls is disciplined.** For every state (no invariant needed),
    every list of calls with arbitrary arguments and outcomes: reading a `restore k n` as an
    installation, the history log is what one counter-mode cipher produces — every `enc` event uses
    the key installed or restored last, with a nonce not below the counter set then and above all
    nonces used since — from the handshake cipher's (key, nonce) before the first call to its
    (key, nonce) after the last. -/
theorem hist_disciplined (S : Suite) (hs : HS) (ops : List Op) :
    Discipline hs.sym.cs.key hs.sym.cs.n.toNat (flat (histG S hs ops))
      (run S hs ops).sym.cs.key (run S hs ops).sym.cs.n.toNat :=
  C06.hist_disciplined S hs ops

/-- **A failed call ends in the (key, nonce) it started with.** From a state satisfying the
    reachable-state invariant, a call whose log carries a `restore` mark leaves the tracked key,
    `has_key`, hash and chaining key it found, and — when a key was installed — exactly the cipher
    state (key and nonce) it found. -/
theorem hist_restore_is_checkpoint (S : Suite) (hs : HS) (inv : SymInv hs.sym) (op : Op)
    (hf : ∃ key n, HEv.restore key n ∈ callG S hs op) :
    (step S hs op).sym.h = hs.sym.h ∧ (step S hs op).sym.ck = hs.sym.ck ∧
    (step S hs op).sym.hasKey = hs.sym.hasKey ∧ (step S hs op).sym.k = hs.sym.k ∧
    (∀ key, hs.sym.k = some key → (step S hs op).sym.cs = hs.sym.cs) :=
  C06.restore_is_checkpoint S hs inv op hf

/-- Every installation marker of the history log (as opposed to a `restore`) stands for a real
    `mix_key` / `mix_key_and_hash` of a write or a read: an HKDF output installed with nonce 0. -/
theorem hist_installs_are_kdf (S : Suite) (hs : HS) (ops : List Op) (key : Bytes) (nn : UInt64)
    (h : HEv.g (GEv.install key nn) ∈ histG S hs ops) : nn = 0 ∧ ∃ ck, IsKdfKey S ck key :=
  histG_install S hs ops key nn h

/-- Reads contribute no encryption to the history: an `enc` entry of a call's log comes from a
    `write_message`. -/
theorem hist_enc_from_write (S : Suite) (hs : HS) (op : Op) (j : Nat) (k : Bytes) (n : UInt64) (a p : Bytes)
    (h : (callG S hs op)[j]? = some (HEv.g (.ev (.enc k n a p)))) : ∃ pl cap, op = .write pl cap := by
  obtain ⟨_, pl, cap, _, h2, _⟩ := callG_enc S hs op j k n a p h
  exact ⟨pl, cap, h2⟩

/-! ## 2. The table fact -/

/-- **No table pattern encrypts under an old key after a fresh `e`.** For every pattern of
    `SUPPORTED_HANDSHAKE_PATTERNS` (decided over all constructors of `Generated.Pattern`), without
    modifiers (non-psk mode): in every message, once an `e` token was processed, no `s` token is met
    while a key is installed and no keyed payload follows before a key-installing token. -/
theorem table_enc_after_e : ∀ p : Pattern, EncAfterEOk false p.tokens.msgs false = true :=
  fun p => table_encAfterE p (allPatterns_mem p)

/-- **The same for every instance `HandshakeTokens::try_from` returns**: any table pattern with
    any modifier list, in the mode (`is_psk()`) it runs in. (With a psk modifier every `e`
    installs a key, so the scan passes for every token list; without one the modifier list is
    empty.) -/
theorem instance_enc_after_e (p : Pattern) (mods : List Modifier) (inst : Inst)
    (h : handshakeTokens p mods = .ok inst) : EncAfterEOk (isPskMods mods) inst.msgs false = true :=
  handshakeTokens_encAfterE p mods inst h

/-- The scan is not trivially true: `e, s` written in a keyed state in non-psk mode fails it (a
    failed write and its retry would encrypt `s` under one (key, nonce) with different hashes),
    and so does `e` followed by a keyed payload. -/
example : encAfterE false [.e, .s] true false = false ∧ encAfterE false [.e] true false = false ∧
    encAfterE false [.e, .ee, .s, .es] true false = true ∧ encAfterE false [.s, .se] true false = true := by decide

/-! ## 3. The history theorem, one endpoint -/

/-- **No (key, nonce) reuse on different data over a whole history (history-log form).**
    From any state satisfying the reachable-state invariant, along any history of calls (any
    arguments, any outcomes but a panic) in whose states the current message passes the Stage 2
    scan (`HistOk`): if two `enc` entries of the history log at positions `i < j` carry the same key
    and nonce, then they encrypt the same (associated data, plaintext), OR a KDF installation of
    that very key (`install k 0`, an HKDF output) occurs in the log at a position `m` with
    `c ≤ m < j`, where `c` is the `callStart` of the call containing `i`.  A `restore` does not
    count: restoring the key and nonce after a failed call never leads to different data being
    encrypted under a (key, nonce) pair already used. -/
theorem history_no_reuse_log (S : Suite) (hs0 : HS) (inv : SymInv hs0.sym) (ops : List Op) (hok : HistOk S hs0 ops)
    (i j : Nat) (hij : i < j) (k : Bytes) (n : UInt64) (a1 p1 a2 p2 : Bytes)
    (hi : (histG S hs0 ops)[i]? = some (HEv.g (.ev (.enc k n a1 p1))))
    (hj : (histG S hs0 ops)[j]? = some (HEv.g (.ev (.enc k n a2 p2)))) :
    (a1 = a2 ∧ p1 = p2) ∨
    ∃ (c m : Nat) (ck : Bytes), c ≤ i ∧ (histG S hs0 ops)[c]? = some HEv.callStart ∧
      (∀ c' : Nat, c < c' → c' ≤ i → (histG S hs0 ops)[c']? ≠ some HEv.callStart) ∧
      c ≤ m ∧ m < j ∧ (histG S hs0 ops)[m]? = some (HEv.g (.install k 0)) ∧ IsKdfKey S ck k := by
  rcases hist_no_reuse_log S ops hs0 inv hok i j hij k n a1 p1 a2 p2 hi hj with hl | ⟨c, m, h1, h2, h3, h4, h5, h6⟩
  · exact Or.inl hl
  · obtain ⟨_, ck, hck⟩ := histG_install S hs0 ops k 0 (List.mem_of_getElem? h6)
    exact Or.inr ⟨c, m, ck, h1, h2, h3, h4, h5, h6, hck⟩

/-- **No (key, nonce) reuse on different data over a whole history (on the real logs).**
    For every state `hs0` satisfying the reachable-state invariant whose instance passes the Stage 2
    scan (`InstOk`; true of all built states, `history_no_reuse_built`), every history `ops` of
    `write_message` / `read_message` / `set_psk` calls with any arguments and any outcomes except a
    panic (C10: there are none): if the concatenated event lists of the calls contain, at positions
    `i < j`, two encryptions under the same key with the same nonce, then they encrypt the same
    (associated data, plaintext), or the history log exhibits a KDF installation of that very key
    at or after the start of the call that made the first encryption and before the second one. -/
theorem history_no_reuse (S : Suite) (hs0 : HS) (inv : SymInv hs0.sym) (hinst : InstOk hs0) (ops : List Op)
    (np : ∀ (pre : List Op) (op : Op) (post : List Op), ops = pre ++ op :: post → NoPanic S (run S hs0 pre) op)
    (i j : Nat) (hij : i < j) (k : Bytes) (n : UInt64) (a1 p1 a2 p2 : Bytes)
    (hi : (histEv S hs0 ops)[i]? = some (.enc k n a1 p1)) (hj : (histEv S hs0 ops)[j]? = some (.enc k n a2 p2)) :
    (a1 = a2 ∧ p1 = p2) ∨
    ∃ (i' j' c m : Nat) (ck : Bytes), i' < j' ∧
      (histG S hs0 ops)[i']? = some (HEv.g (.ev (.enc k n a1 p1))) ∧
      (histG S hs0 ops)[j']? = some (HEv.g (.ev (.enc k n a2 p2))) ∧
      c ≤ i' ∧ (histG S hs0 ops)[c]? = some HEv.callStart ∧
      (∀ c' : Nat, c < c' → c' ≤ i' → (histG S hs0 ops)[c']? ≠ some HEv.callStart) ∧
      c ≤ m ∧ m < j' ∧ (histG S hs0 ops)[m]? = some (HEv.g (.install k 0)) ∧ IsKdfKey S ck k := by
  have hok := histOk_of_inst S ops hs0 inv hinst np
  rw [← C06.hist_erase] at hi hj
  obtain ⟨i', j', hij', h1, h2⟩ := herase_index2 _ i j hij _ _ hi hj
  rcases history_no_reuse_log S hs0 inv ops hok i' j' hij' k n a1 p1 a2 p2 h1 h2 with hl | ⟨c, m, ck, g1, g2, g3, g4, g5, g6, g7⟩
  · exact Or.inl hl
  · exact Or.inr ⟨i', j', c, m, ck, hij', h1, h2, g1, g2, g3, g4, g5, g6, g7⟩

/-- **Restores alone never cause a reuse.** Same hypotheses; if the key of two encryptions of the
    history with equal (key, nonce) is never installed by a KDF anywhere in the history (it was
    installed before the history began, and came back only through `restore`s), the two encrypt
    the same data. -/
theorem history_no_reuse_without_reinstall (S : Suite) (hs0 : HS) (inv : SymInv hs0.sym) (hinst : InstOk hs0)
    (ops : List Op)
    (np : ∀ (pre : List Op) (op : Op) (post : List Op), ops = pre ++ op :: post → NoPanic S (run S hs0 pre) op)
    (i j : Nat) (hij : i < j) (k : Bytes) (n : UInt64) (a1 p1 a2 p2 : Bytes)
    (hi : (histEv S hs0 ops)[i]? = some (.enc k n a1 p1)) (hj : (histEv S hs0 ops)[j]? = some (.enc k n a2 p2))
    (hno : ∀ nn, HEv.g (GEv.install k nn) ∉ histG S hs0 ops) : a1 = a2 ∧ p1 = p2 := by
  rcases history_no_reuse S hs0 inv hinst ops np i j hij k n a1 p1 a2 p2 hi hj with hl | ⟨_, _, _, m, _, _, _, _, _, _, _, _, _, h6, _⟩
  · exact hl
  · exact absurd (List.mem_of_getElem? h6) (hno 0)

/-- Every state `Builder::build` returns satisfies the hypotheses of `history_no_reuse`
    (`PubLen`: derived public keys have the advertised length; `c.psks.length = 10` is the array type
    of the builder). -/
theorem built_instOk (S : Suite) (hpl : S.PubLen) (av : Avail) (c : BuildCfg) (hs : HS) (hpsk : c.psks.length = 10)
    (h : build S av c = .ok hs) : SymInv hs.sym ∧ InstOk hs := by
  have hinv := (Lemmas.C10.inv_build hpl hpsk h).sym
  obtain ⟨_, hpos, hkey, _⟩ := Framing.build_facts S hpl av c hs h
  obtain ⟨inst, sym, hinst, _, heq⟩ := Lemmas.C10.build_ok h
  have hpskm : hs.isPsk = isPskMods c.mods := by rw [heq]
  have hmsgs : hs.msgs = inst.msgs := by rw [heq]
  refine ⟨hinv, ?_, ?_⟩
  · rw [hpskm, hmsgs]; exact handshakeTokens_encAfterE _ _ _ hinst
  · rw [hkey, hpos]; rfl

/-- **The history theorem for built sessions.** For every handshake state `Builder::build`
    returns (any pattern of the table, any modifier list, any keys) and every panic-free history of
    API calls on it: two encryptions under the same (key, nonce) encrypt the same data, or a KDF
    installed that very key again in between (from the start of the first one's call on). -/
theorem history_no_reuse_built (S : Suite) (hpl : S.PubLen) (av : Avail) (c : BuildCfg) (hs0 : HS)
    (hpsk : c.psks.length = 10) (hb : build S av c = .ok hs0) (ops : List Op)
    (np : ∀ (pre : List Op) (op : Op) (post : List Op), ops = pre ++ op :: post → NoPanic S (run S hs0 pre) op)
    (i j : Nat) (hij : i < j) (k : Bytes) (n : UInt64) (a1 p1 a2 p2 : Bytes)
    (hi : (histEv S hs0 ops)[i]? = some (.enc k n a1 p1)) (hj : (histEv S hs0 ops)[j]? = some (.enc k n a2 p2)) :
    (a1 = a2 ∧ p1 = p2) ∨
    ∃ (i' j' c m : Nat) (ck : Bytes), i' < j' ∧
      (histG S hs0 ops)[i']? = some (HEv.g (.ev (.enc k n a1 p1))) ∧
      (histG S hs0 ops)[j']? = some (HEv.g (.ev (.enc k n a2 p2))) ∧
      c ≤ i' ∧ (histG S hs0 ops)[c]? = some HEv.callStart ∧
      (∀ c' : Nat, c < c' → c' ≤ i' → (histG S hs0 ops)[c']? ≠ some HEv.callStart) ∧
      c ≤ m ∧ m < j' ∧ (histG S hs0 ops)[m]? = some (HEv.g (.install k 0)) ∧ IsKdfKey S ck k := by
  obtain ⟨inv, hinst⟩ := built_instOk S hpl av c hs0 hpsk hb
  exact history_no_reuse S hs0 inv hinst ops np i j hij k n a1 p1 a2 p2 hi hj

/-- **The same without any side condition on outcomes**, for suites whose DH implementation accepts
    every private key it draws (`PrivTotal`: true for 25519; for P-256 see the known finding): by C10
    no call of any history on a built state panics. For every state `Builder::build` returns and
    EVERY history of `write_message` / `read_message` / `set_psk` calls with arbitrary arguments:
    two encryptions of the concatenated real logs under the same (key, nonce) encrypt the same
    data, or a KDF installed that very key again (from the start of the first one's call on). -/
theorem history_no_reuse_built_total (S : Suite) (hpl : S.PubLen) (hpt : S.PrivTotal) (av : Avail) (c : BuildCfg)
    (hs0 : HS) (hpsk : c.psks.length = 10) (hb : build S av c = .ok hs0) (ops : List Op)
    (i j : Nat) (hij : i < j) (k : Bytes) (n : UInt64) (a1 p1 a2 p2 : Bytes)
    (hi : (histEv S hs0 ops)[i]? = some (.enc k n a1 p1)) (hj : (histEv S hs0 ops)[j]? = some (.enc k n a2 p2)) :
    (a1 = a2 ∧ p1 = p2) ∨
    ∃ (i' j' c m : Nat) (ck : Bytes), i' < j' ∧
      (histG S hs0 ops)[i']? = some (HEv.g (.ev (.enc k n a1 p1))) ∧
      (histG S hs0 ops)[j']? = some (HEv.g (.ev (.enc k n a2 p2))) ∧
      c ≤ i' ∧ (histG S hs0 ops)[c]? = some HEv.callStart ∧
      (∀ c' : Nat, c < c' → c' ≤ i' → (histG S hs0 ops)[c']? ≠ some HEv.callStart) ∧
      c ≤ m ∧ m < j' ∧ (histG S hs0 ops)[m]? = some (HEv.g (.install k 0)) ∧ IsKdfKey S ck k :=
  history_no_reuse_built S hpl av c hs0 hpsk hb ops
    (fun pre op post _ => Theorems.C10.c11_noPanic S hs0 (Lemmas.C10.inv_build hpl hpsk hb) hpt hpl pre op)
    i j hij k n a1 p1 a2 p2 hi hj

/-- The witness of `history_no_reuse`: the history log shows the two encryptions and, from the start
    of the first one's call on and before the second one, a KDF installation of their key. -/
def ReinstallWitness (S : Suite) (hs0 : HS) (ops : List Op) (k : Bytes) (n : UInt64) (a1 p1 a2 p2 : Bytes) : Prop :=
  ∃ (i' j' c m : Nat) (ck : Bytes), i' < j' ∧
    (histG S hs0 ops)[i']? = some (HEv.g (.ev (.enc k n a1 p1))) ∧
    (histG S hs0 ops)[j']? = some (HEv.g (.ev (.enc k n a2 p2))) ∧
    c ≤ i' ∧ (histG S hs0 ops)[c]? = some HEv.callStart ∧
    (∀ c' : Nat, c < c' → c' ≤ i' → (histG S hs0 ops)[c']? ≠ some HEv.callStart) ∧
    c ≤ m ∧ m < j' ∧ (histG S hs0 ops)[m]? = some (HEv.g (.install k 0)) ∧ IsKdfKey S ck k

/-- **One endpoint, handshake history followed by conversion to transport mode and a transport
    history** (writes, reads, rekeys, manual rekeys, `set_receiving_nonce`, failing calls). In the
    whole log — the events of all handshake calls, then the events of all transport calls — two
    encryptions under the same key with the same nonce encrypt the same data, or
    * both are handshake encryptions and a KDF installed that key again in between
      (`ReinstallWitness`, as in `history_no_reuse`), or
    * the first is a handshake encryption, the second a transport message, and the handshake key
      equals the transport sending key (an earlier handshake key coincides with an output of
      `Split`), or
    * the transport history re-keyed its sending direction.
    (Two transport encryptions never share a nonce, and the reserved nonce 2^64-1 only ever
    encrypts the fixed rekey input.)  `ts` is any transport state, in particular the one
    `TS.ofHandshake S (run S hs0 ops)` returns once the handshake is finished. -/
theorem endpoint_no_reuse (S : Suite) (hs0 : HS) (inv : SymInv hs0.sym) (hinst : InstOk hs0) (ops : List Op)
    (np : ∀ (pre : List Op) (op : Op) (post : List Op), ops = pre ++ op :: post → NoPanic S (run S hs0 pre) op)
    (ts : TS) (tops : List TOp)
    (i j : Nat) (hij : i < j) (k : Bytes) (n : UInt64) (a1 p1 a2 p2 : Bytes)
    (hi : (histEv S hs0 ops ++ (trun S ts tops).2)[i]? = some (.enc k n a1 p1))
    (hj : (histEv S hs0 ops ++ (trun S ts tops).2)[j]? = some (.enc k n a2 p2)) :
    (a1 = a2 ∧ p1 = p2) ∨ ReinstallWitness S hs0 ops k n a1 p1 a2 p2 ∨
    (i < (histEv S hs0 ops).length ∧ (histEv S hs0 ops).length ≤ j ∧ k = ts.sendCs.key) ∨
    (∃ op ∈ tops, op.rekeysSend ts.initiator = true) := by
  by_cases hjl : j < (histEv S hs0 ops).length
  · -- both in the handshake part
    rw [List.getElem?_append_left (by omega)] at hi
    rw [List.getElem?_append_left hjl] at hj
    rcases history_no_reuse S hs0 inv hinst ops np i j hij k n a1 p1 a2 p2 hi hj with hl | hw
    · exact Or.inl hl
    · exact Or.inr (Or.inl hw)
  · rw [List.getElem?_append_right (by omega)] at hj
    by_cases hil : i < (histEv S hs0 ops).length
    · rw [List.getElem?_append_left hil] at hi
      by_cases hn : n = MAXN
      · -- the reserved nonce: both encrypt the fixed rekey input
        left
        subst hn
        rw [← C06.hist_erase] at hi
        obtain ⟨i', _, hg⟩ := erase_index1 _ i _ hi
        have d1 := (C06.hist_disciplined S hs0 ops).max_data i' k a1 p1 hg
        rcases (trun_mono S ts tops).2.lower _ k _ a2 p2 hj with d2 | d2
        · exact ⟨d1.1.trans d2.2.1.symm, d1.2.trans d2.2.2.symm⟩
        · exact absurd rfl d2.1
      · by_cases hr : ∃ op ∈ tops, op.rekeysSend ts.initiator = true
        · exact Or.inr (Or.inr (Or.inr hr))
        · right; right; left
          have hno : ∀ op ∈ tops, op.rekeysSend ts.initiator = false := by
            intro op hop
            cases hc : op.rekeysSend ts.initiator with
            | false => rfl
            | true => exact absurd ⟨op, hop, hc⟩ hr
          exact ⟨hil, by omega, (trun_key S ts tops hno).2 k n a2 p2 (List.mem_of_getElem? hj) hn⟩
    · -- both in the transport part: a nonce is never used twice
      rw [List.getElem?_append_right (by omega)] at hi
      exact Or.inl ((trun_mono S ts tops).2.no_reuse _ _ (by omega) k k n a1 p1 a2 p2 hi hj)

/-! ## 4. Both endpoints -/

/-- **Handshake, both endpoints: the merged log of a chain of writers is disciplined.** For a
    sequence of successful `write_message` calls in which every writer starts from the symmetric
    state the previous writer ended with (`WChain`; the writers of an honest lockstep exchange —
    message 1 by the initiator, message 2 by the responder, ... — form one:
    `C06.honest_exchange_chain`, Lemmas/C06HistExchHonest.lean; joined in
    `C06.exchange_log_disciplined`, Lemmas/C06HistExchFull.lean), the concatenation of the writers'
    ghost logs erases to the concatenation of the logs they returned and is disciplined from the
    (key, nonce) the first writer started with to the (key, nonce) the last one left. -/
theorem chain_disciplined (S : Suite) (ws : List (HS × Bytes × Nat)) (s0 s1 : Sym) (h : WChain S s0 ws s1) :
    erase (chainG S ws) = chainEv S ws ∧
    Discipline s0.cs.key s0.cs.n.toNat (chainG S ws) s1.cs.key s1.cs.n.toNat :=
  ⟨chainG_erase S ws, wchain_disciplined S ws s0 s1 h⟩

/-- **Handshake, merged over both endpoints: no (key, nonce) pair is used on two different
    inputs, up to a KDF coincidence.** In the merged log of a chain of writers, two encryptions
    under the same key with the same nonce encrypt the same data, or the merged ghost log shows
    that very key being installed again by an HKDF application between the two. -/
theorem chain_no_reuse (S : Suite) (ws : List (HS × Bytes × Nat)) (s0 s1 : Sym) (h : WChain S s0 ws s1)
    (i j : Nat) (hij : i < j) (k : Bytes) (n : UInt64) (a1 p1 a2 p2 : Bytes)
    (hi : (chainEv S ws)[i]? = some (.enc k n a1 p1)) (hj : (chainEv S ws)[j]? = some (.enc k n a2 p2)) :
    (a1 = a2 ∧ p1 = p2) ∨
    ∃ (i' m j' : Nat) (ck : Bytes), i' < m ∧ m < j' ∧
      (chainG S ws)[i']? = some (GEv.ev (.enc k n a1 p1)) ∧
      (chainG S ws)[m]? = some (GEv.install k 0) ∧ IsKdfKey S ck k ∧
      (chainG S ws)[j']? = some (GEv.ev (.enc k n a2 p2)) := by
  obtain ⟨he, hd⟩ := chain_disciplined S ws s0 s1 h
  rw [← he] at hi hj
  rcases hd.no_reuse_events i j hij k n a1 p1 a2 p2 hi hj with hl | ⟨i', m, j', nn, h1, h2, g1, g2, g3⟩
  · exact Or.inl hl
  · obtain ⟨hz, ck, hk⟩ := chainG_install S ws k nn (List.mem_of_getElem? g2)
    subst hz
    exact Or.inr ⟨i', m, j', ck, h1, h2, g1, g2, hk, g3⟩

/-- **Transport, merged over both endpoints.** After `Split` the initiator encrypts under
    `cs1` (first HKDF output), the responder under `cs2` (second output).  Take any transport
    history of the initiator's endpoint and any of the responder's (writes, reads, rekeys, manual
    rekeys, `set_receiving_nonce`, failing calls included).  If an encryption in the one and an
    encryption in the other use the same key and nonce, then they encrypt the same data (both are
    rekey encryptions of the fixed input), or the two truncated HKDF outputs of `Split` coincide,
    or one of the two histories re-keyed its sending direction.  (Within one endpoint no nonce is
    used twice at all: `C06.transport_no_reuse`.) -/
theorem transport_cross_no_reuse (S : Suite) (sym : Sym) (tsA tsB : TS)
    (hA : tsA.initiator = true) (hB : tsB.initiator = false)
    (hA1 : tsA.cs1 = (sym.split S).1) (hB2 : tsB.cs2 = (sym.split S).2)
    (opsA opsB : List TOp) (k : Bytes) (n : UInt64) (a1 p1 a2 p2 : Bytes)
    (h1 : Event.enc k n a1 p1 ∈ (trun S tsA opsA).2) (h2 : Event.enc k n a2 p2 ∈ (trun S tsB opsB).2) :
    (a1 = a2 ∧ p1 = p2) ∨
    key32 (hkdf2 S sym.ck []).1 = key32 (hkdf2 S sym.ck []).2 ∨
    (∃ op ∈ opsA, op.rekeysSend true = true) ∨ (∃ op ∈ opsB, op.rekeysSend false = true) := by
  obtain ⟨i, hi⟩ := List.getElem?_of_mem h1
  obtain ⟨j, hj⟩ := List.getElem?_of_mem h2
  by_cases hn : n = MAXN
  · left
    subst hn
    rcases (trun_mono S tsA opsA).2.lower i k _ a1 p1 hi with d1 | d1
    · rcases (trun_mono S tsB opsB).2.lower j k _ a2 p2 hj with d2 | d2
      · exact ⟨d1.2.1.trans d2.2.1.symm, d1.2.2.trans d2.2.2.symm⟩
      · exact absurd rfl d2.1
    · exact absurd rfl d1.1
  · by_cases ha : ∃ op ∈ opsA, op.rekeysSend true = true
    · exact Or.inr (Or.inr (Or.inl ha))
    · by_cases hb : ∃ op ∈ opsB, op.rekeysSend false = true
      · exact Or.inr (Or.inr (Or.inr hb))
      · right; left
        have hnoA : ∀ op ∈ opsA, op.rekeysSend tsA.initiator = false := by
          intro op hop
          rw [hA]
          cases hc : op.rekeysSend true with
          | false => rfl
          | true => exact absurd ⟨op, hop, hc⟩ ha
        have hnoB : ∀ op ∈ opsB, op.rekeysSend tsB.initiator = false := by
          intro op hop
          rw [hB]
          cases hc : op.rekeysSend false with
          | false => rfl
          | true => exact absurd ⟨op, hop, hc⟩ hb
        have kA := (trun_key S tsA opsA hnoA).2 k n a1 p1 h1 hn
        have kB := (trun_key S tsB opsB hnoB).2 k n a2 p2 h2 hn
        have eA : tsA.sendCs.key = key32 (hkdf2 S sym.ck []).1 := by
          simp only [TS.sendCs, hA, ↓reduceIte, hA1, Sym.split, CipherState.set]
        have eB : tsB.sendCs.key = key32 (hkdf2 S sym.ck []).2 := by
          simp only [TS.sendCs, hB, Bool.false_eq_true, ↓reduceIte, hB2, Sym.split, CipherState.set]
        rw [← eA, ← eB, ← kA, ← kB]

/-! ## 5. Non-vacuity: a built XX initiator, message 1, message 2, a failing message 3, its retry -/

namespace Ex
open SnowVerif.Theorems.C14.Ex SnowVerif.C14Toy

/-- Executable check of `NoPanic`. -/
def noPanicB (S : Suite) (hs : HS) : Op → Bool
  | .write p cap => !(hs.writeMessage S p cap).1.isPanic
  | .read m cap => !(hs.readMessage S m cap).1.isPanic
  | .setPsk _ _ => true

def noPanicAllB (S : Suite) : HS → List Op → Bool
  | _, [] => true
  | hs, op :: ops => noPanicB S hs op && noPanicAllB S (step S hs op) ops

theorem noPanic_of_check (S : Suite) (hs : HS) (op : Op) (h : noPanicB S hs op = true) : NoPanic S hs op := by
  cases op with
  | write p cap => simpa [noPanicB, NoPanic] using h
  | read m cap => simpa [noPanicB, NoPanic] using h
  | setPsk loc key => trivial

theorem np_of_check (S : Suite) (ops : List Op) : ∀ hs : HS, noPanicAllB S hs ops = true →
    ∀ (pre : List Op) (op : Op) (post : List Op), ops = pre ++ op :: post → NoPanic S (run S hs pre) op := by
  induction ops with
  | nil => intro hs _ pre op post h; simp at h
  | cons o ops ih =>
    intro hs h pre op post heq
    simp only [noPanicAllB, Bool.and_eq_true] at h
    cases pre with
    | nil =>
      simp only [List.nil_append, List.cons.injEq] at heq
      rw [← heq.1]
      exact noPanic_of_check S hs o h.1
    | cons q pre =>
      simp only [List.cons_append, List.cons.injEq] at heq
      rw [← heq.1]
      exact ih _ h.2 pre op post heq.2

/-- Shape of a history log: 1 call start, 100+n KDF installation at nonce n, 200+n encryption at
    nonce n, 300+n restore to nonce n, 400+n decryption at nonce n, 0 other. -/
def hshape : HEv → Nat
  | .callStart => 1
  | .restore _ n => 300 + n.toNat
  | .g (.install _ n) => 100 + n.toNat
  | .g (.ev (.enc _ n _ _)) => 200 + n.toNat
  | .g (.ev (.dec _ n _ _ _)) => 400 + n.toNat
  | .g (.ev _) => 0

/-- "Is a KDF installation of `k`". -/
def installsKey (k : Bytes) : HEv → Bool
  | .g (.install k' _) => k' == k
  | _ => false

theorem not_installed_of_check (l : List HEv) (k : Bytes) (h : l.any (installsKey k) = false) :
    ∀ nn, HEv.g (GEv.install k nn) ∉ l := by
  intro nn hm
  have := List.any_eq_false.mp h _ hm
  simp [installsKey] at this

/-- The parts of an `enc` event. -/
def encParts : Option Event → Bytes × UInt64 × Bytes × Bytes
  | some (.enc k n a p) => (k, n, a, p)
  | _ => ([], 0, [], [])

/-- Message 2 as the responder wrote it. -/
def msg2 : Bytes := (w2 1000).2.2.1

/-- The history of the XX initiator `i0` (built by `Builder::build`): message 1; read message 2
    (`e, ee, s, es`: two KDF installations); message 3 (`s, se`) into a 60-byte buffer, which fails
    with `Input` *after* encrypting `s` and installing the `se` key; a read attempted out of turn;
    a `set_psk` with a bad key; the retry of message 3. -/
def ops6 : List Op :=
  [.write [] 1000, .read msg2 1000, .write [1, 2, 3] 60, .read [] 5, .setPsk 0 [], .write [9, 9] 1000]

theorem build_i0 : build S0 ⟨true, true, true, true⟩
    { pattern := .pXX, mods := [], name := [78, 111, 105, 115, 101], initiator := true,
      s := some (List.replicate 32 1), eFixed := none, rs := none, psks := List.replicate 10 none,
      prologue := [], rng := List.replicate 32 7 } = .ok i0 := by decide +kernel

/-- One evaluation of the scenario (about 10 s in the kernel: it runs the toy handshake):
    * the shape of the history log: the failed message 3 logs `enc` at nonce 1, a KDF installation
      (the `se` key), then `restore` to nonce 1; the out-of-turn read restores again; the retry
      logs `enc` at nonce 1 again, installs, and encrypts the payload at nonce 0 under the new key;
    * the entries at positions 8 and 15 are the same `enc` event: same key, nonce 1, same data;
    * no KDF installation of that key lies between them (the one at position 9 is of another key);
    * on the real logs these are positions 3 and 4; no call of the history panics. -/
theorem scenario :
    (histG S0 i0 ops6).map hshape = [1, 0, 1, 100, 400, 100, 400, 1, 201, 100, 301, 1, 301, 1, 1, 201, 100, 200] ∧
    (histG S0 i0 ops6)[8]? = (histG S0 i0 ops6)[15]? ∧
    (((histG S0 i0 ops6).take 15).drop 8).any
      (installsKey (encParts ((histEv S0 i0 ops6)[3]?)).1) = false ∧
    (histEv S0 i0 ops6)[3]? = (histEv S0 i0 ops6)[4]? ∧
    (histEv S0 i0 ops6)[3]? = some (.enc (encParts ((histEv S0 i0 ops6)[3]?)).1 1
      (encParts ((histEv S0 i0 ops6)[3]?)).2.2.1 (encParts ((histEv S0 i0 ops6)[3]?)).2.2.2) ∧
    noPanicAllB S0 i0 ops6 = true := by decide +kernel

/-- `history_no_reuse_built` applies to this history (its hypotheses hold: a built state, no
    panic) at the two encryptions of the `s` field, positions 3 and 4 of the real log. -/
example (k : Bytes) (n : UInt64) (a1 p1 a2 p2 : Bytes)
    (hi : (histEv S0 i0 ops6)[3]? = some (.enc k n a1 p1)) (hj : (histEv S0 i0 ops6)[4]? = some (.enc k n a2 p2)) :
    (a1 = a2 ∧ p1 = p2) ∨
    ∃ (i' j' c m : Nat) (ck : Bytes), i' < j' ∧
      (histG S0 i0 ops6)[i']? = some (HEv.g (.ev (.enc k n a1 p1))) ∧
      (histG S0 i0 ops6)[j']? = some (HEv.g (.ev (.enc k n a2 p2))) ∧
      c ≤ i' ∧ (histG S0 i0 ops6)[c]? = some HEv.callStart ∧
      (∀ c' : Nat, c < c' → c' ≤ i' → (histG S0 i0 ops6)[c']? ≠ some HEv.callStart) ∧
      c ≤ m ∧ m < j' ∧ (histG S0 i0 ops6)[m]? = some (HEv.g (.install k 0)) ∧ IsKdfKey S0 ck k :=
  history_no_reuse_built S0 (toy_pubLen 0 0 0) _ _ i0 (by decide) build_i0 ops6
    (np_of_check S0 ops6 i0 scenario.2.2.2.2.2) 3 4 (by omega) k n a1 p1 a2 p2 hi hj

/-- The state after message 2 was read, and the rest of the history from there. -/
def i2 : HS := run S0 i0 (ops6.take 2)
def ops4 : List Op := ops6.drop 2

theorem scenario2 :
    Theorems.C06.Ex.symInvB i2.sym = true ∧ EncAfterEOk i2.isPsk i2.msgs false = true ∧
    i2.sym.hasKey = keyedMsgs i2.isPsk (i2.msgs.take i2.pos) false ∧
    (histEv S0 i2 ops4)[0]? = some (.enc (encParts ((histEv S0 i2 ops4)[0]?)).1 1
      (encParts ((histEv S0 i2 ops4)[0]?)).2.2.1 (encParts ((histEv S0 i2 ops4)[0]?)).2.2.2) ∧
    (histEv S0 i2 ops4)[1]? = (histEv S0 i2 ops4)[0]? ∧
    (histG S0 i2 ops4).any (installsKey (encParts ((histEv S0 i2 ops4)[0]?)).1) = false ∧
    noPanicAllB S0 i2 ops4 = true := by decide +kernel

/-- `history_no_reuse_without_reinstall` applies to the history from `i2` (failing message 3, the
    out-of-turn read, `set_psk`, the retry): the key the `s` field is encrypted under was installed
    before (by the read of message 2) and comes back only through `restore`s; the two encryptions
    under (that key, nonce 1) are positions 0 and 1 of the real log. -/
example (a2 p2 : Bytes)
    (hj : (histEv S0 i2 ops4)[1]? = some (.enc (encParts ((histEv S0 i2 ops4)[0]?)).1 1 a2 p2)) :
    (encParts ((histEv S0 i2 ops4)[0]?)).2.2.1 = a2 ∧ (encParts ((histEv S0 i2 ops4)[0]?)).2.2.2 = p2 :=
  history_no_reuse_without_reinstall S0 i2 (Theorems.C06.Ex.symInv_of_check _ scenario2.1)
    ⟨scenario2.2.1, scenario2.2.2.1⟩ ops4 (np_of_check S0 ops4 i2 scenario2.2.2.2.2.2.2) 0 1 (by omega) _ 1 _ _ a2 p2
    scenario2.2.2.2.1 hj (not_installed_of_check _ _ scenario2.2.2.2.2.2.1)

end Ex

end SnowVerif.Theorems.C06Hist
