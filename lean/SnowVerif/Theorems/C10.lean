/-
  C10  Total API: no public operation panics on any input or buffer size.

  In the model every Rust panic site (out-of-range slice, `copy_from_slice` length mismatch,
  `unwrap`, failed `assert!`, `unreachable!`) is an explicit outcome `Res.panic site`:

    Symmetric.lean  `encryptAd`           cap < |pt| + 16 (the slices in `Cipher::encrypt`)
                    `encryptAndMixHash`   unkeyed and cap < |pt| (`copy_slices!(plaintext, out)`)
    Handshake.lean  `pskStep`             `self.psks[n]` with n >= 10
                    `dh`                  a non-DH token (impossible by Rust typing: `DhToken`)
                    `writeTok .e`         `Dh::generate` on a private key that is not `validPriv`
    Transport.lean  `stEncrypt`           as `encryptAd`
    Params.lean     `parse`               `split('_')` yielding no piece (impossible)
    Builder.lean    `build`               `Dh::set` on an invalid private key; `rs_buf[..v.len()]`
                    `mixPremsg`           `unreachable!()` pre-message token
    (`applyPsk`, `decryptAd`, `decryptAndMixHash`, `setPsk`, `ofHandshake`, the getters and the
     rekey functions contain no `panic` outcome at all.)

  The theorems below show that none of them is reachable from any state `Builder::build` returns,
  by any sequence of public calls with any arguments, under the suite laws `PubLen` (a public key
  has the advertised length) and `PrivTotal` (every private key is accepted: true for 25519, FALSE
  for P-256, which is the known finding), and characterise exactly what remains without
  `PrivTotal`.  "Does not fail to terminate": every model function is structurally recursive
  (accepted by Lean's termination checker without `partial`/`decreasing_by`).

  `Op`, `step`, `run` (histories of public handshake calls with arbitrary arguments) are the
  definitions of `Theorems/C11.lean`, so that the `NoPanic` hypothesis of
  `C11.indicators_always` is discharged here (`indicators_always_total`).
-/
import SnowVerif.Lemmas.C10
import SnowVerif.Lemmas.C10Build
import SnowVerif.Lemmas.C10Parse
import SnowVerif.Lemmas.Transport
import SnowVerif.Theorems.C11
import SnowVerif.Crypto.Toy

namespace SnowVerif.Theorems.C10
open SnowVerif SnowVerif.Model SnowVerif.Model.HS SnowVerif.Generated SnowVerif.Lemmas.C10
open SnowVerif.Theorems.C11 (Op step run)
set_option autoImplicit false
set_option linter.unusedVariables false
set_option linter.unusedSimpArgs false

/-! ## 1. The state invariant (`HS.Inv`, defined in `Lemmas/C10.lean`)

  `Inv S hs`:  `hs.psks.length = 10`;  every `Tok.psk n` in `hs.msgs` has `n < 10`;
  `hs.s.val.pub.length = S.pubLen`;  `hs.e.val.pub.length = S.pubLen`;  `SymInv hs.sym`. -/

/-- Every `HandshakeState` that `Builder::build` returns satisfies the invariant (`PubLen`: derived
    public keys have the advertised length; `c.psks.length = 10` is the array type of the builder).
    Uses the table facts `tables_ok` (every base pattern has at most 4 messages and no out-of-range
    psk token; `decide` over all patterns) and `applyPsk_ok` (`apply_psk_modifier n` only succeeds
    when `n - 1` indexes a message, so every inserted index is at most 4). -/
theorem inv_build (S : Suite) (av : Avail) (c : BuildCfg) (hs : HS) (hpl : S.PubLen)
    (hpsk : c.psks.length = 10) (h : build S av c = .ok hs) : Inv S hs :=
  Lemmas.C10.inv_build hpl hpsk h

/-- Every psk token of every instance `HandshakeTokens::try_from` produces has index at most 4. -/
theorem psk_index_le_4 (p : Pattern) (mods : List Modifier) (inst : Inst)
    (h : handshakeTokens p mods = .ok inst) : ∀ m ∈ inst.msgs, ∀ n, Tok.psk n ∈ m → n ≤ 4 :=
  handshakeTokens_psk_le h

/-- `write_message` preserves the invariant on every outcome (any payload, any buffer size). -/
theorem inv_write (S : Suite) (hs : HS) (p : Bytes) (cap : Nat) (hpl : S.PubLen) (hi : Inv S hs) :
    Inv S (hs.writeMessage S p cap).2.1 :=
  Lemmas.C10.inv_write S hs p cap hpl hi

/-- `read_message` preserves the invariant on every outcome (any message, any buffer size). -/
theorem inv_read (S : Suite) (hs : HS) (m : Bytes) (cap : Nat) (hi : Inv S hs) :
    Inv S (hs.readMessage S m cap).2.1 :=
  Lemmas.C10.inv_read S hs m cap hi

/-- `set_psk` preserves the invariant on every outcome (any location, any key length). -/
theorem inv_setPsk (S : Suite) (hs : HS) (loc : Nat) (key : Bytes) (hi : Inv S hs) :
    Inv S (hs.setPsk loc key).2 :=
  Lemmas.C10.inv_setPsk S hs loc key hi

/-! ## 2. `HandshakeState::write_message` -/

/-- Without any law about the DH implementation: under the invariant, for every payload and every
    output buffer length, the ONLY way `write_message` can panic is `Dh::generate` rejecting the
    private key it drew (`derive_pubkey().unwrap()`, P-256): then the ephemeral was not fixed, and
    the state left behind has the rejected key as the next draw of its random stream.  Every buffer
    index computation is in range: in particular `Cipher::encrypt` is only reached with
    `out.len() >= plaintext.len() + 16`, both for the static key (guard
    `byte_index + pub_len + tag_len <= message.len()`, using `s.pubkey().len() = pub_len`) and for
    the payload (guard `byte_index + payload.len() + TAGLEN <= message.len()`). -/
theorem hs_write_panic_only_generate (S : Suite) (hs : HS) (p : Bytes) (cap : Nat) (hi : Inv S hs)
    (hp : (hs.writeMessage S p cap).1.isPanic = true) :
    hs.fixedE = false ∧
    (hs.writeMessage S p cap).2.1.fixedE = false ∧
    S.validPriv (rngDraw (hs.writeMessage S p cap).2.1.rng S.privLen).1 = false := by
  have h := writeMessage_isPanic S hs p cap hi hp
  have hp' := hp
  rw [writeMessage_isPanic_eq] at hp'
  have hst := writeMessage_panic_state S hs p cap hp'
  have hf := writeInner_frame S hs p cap
  simp only at hf
  refine ⟨?_, h.1, h.2⟩
  rw [← hf.2.2.2.2.2.2.2.1, ← hst]; exact h.1

/-- `write_message` never panics: for every state satisfying the invariant, every payload and
    every output buffer length (0, too small by any amount, larger than 65535, ...), the result is
    `Ok` or `Err`; needs only that the DH implementation accepts every private key it draws
    (`PrivTotal`; true for 25519, false for P-256). -/
theorem hs_write_total (S : Suite) (hs : HS) (p : Bytes) (cap : Nat) (hi : Inv S hs)
    (hpt : S.PrivTotal) (hpl : S.PubLen) : (hs.writeMessage S p cap).1.isPanic = false := by
  cases hp : (hs.writeMessage S p cap).1.isPanic with
  | false => rfl
  | true =>
    have h := (hs_write_panic_only_generate S hs p cap hi hp).2.2
    rw [hpt _] at h; cases h

/-- With a fixed ephemeral (`fixed_ephemeral_key_for_testing_only`) no law is needed at all. -/
theorem hs_write_total_fixed (S : Suite) (hs : HS) (p : Bytes) (cap : Nat) (hi : Inv S hs)
    (hf : hs.fixedE = true) : (hs.writeMessage S p cap).1.isPanic = false := by
  cases hp : (hs.writeMessage S p cap).1.isPanic with
  | false => rfl
  | true =>
    have h := (hs_write_panic_only_generate S hs p cap hi hp).1
    rw [hf] at h; cases h

/-- Everything `write_message` writes (on every outcome) lies inside the caller's buffer.  This
    covers the one copy of `_write_message` that is NOT a `panic` outcome of the model,
    `message[byte_index..byte_index + pubkey.len()].copy_from_slice(pubkey)` for the `e` token
    (its guard uses `pub_len()`, the copy uses `pubkey().len()`: equal by `PubLen` and the
    invariant's `hs.e.val.pub.length = S.pubLen`).  `EncLen`: the cipher returns `|pt| + 16` bytes. -/
theorem hs_write_fits (S : Suite) (hs : HS) (p : Bytes) (cap : Nat) (hi : Inv S hs)
    (hpl : S.PubLen) (hel : S.EncLen) : (hs.writeMessage S p cap).2.2.1.length ≤ cap :=
  writeMessage_fits S hs p cap hpl hel hi

/-- The buffer arithmetic is tight: `encrypt_and_mix_hash` panics EXACTLY when the buffer it is
    given is shorter than plaintext (+ tag when keyed, with a usable cipher).  A guard that forgets
    the tag (the unfixed upstream `Token::S` guard) therefore leaves a 16-byte window of panics. -/
theorem encrypt_and_mix_hash_panics_iff (S : Suite) (st : Sym) (pt : Bytes) (cap : Nat) :
    (st.encryptAndMixHash S pt cap).1.isPanic = true ↔
      ((st.hasKey = true ∧ st.cs.hasKey = true ∧ st.cs.n ≠ CipherState.nonceMax ∧ cap < pt.length + 16) ∨
       (st.hasKey = false ∧ cap < pt.length)) :=
  Sym.encryptAndMixHash_isPanic_iff S st pt cap

/-! ## 3. `HandshakeState::read_message` -/

/-- `read_message` never panics: for every state satisfying the invariant, every message (any
    bytes, any length including empty and > 65535) and every payload buffer length.  No law about
    the suite is needed (`decrypt_ad` checks both lengths before calling the cipher). -/
theorem hs_read_total (S : Suite) (hs : HS) (m : Bytes) (cap : Nat) (hi : Inv S hs) :
    (hs.readMessage S m cap).1.isPanic = false := by
  rw [readMessage_isPanic_eq]; exact readInner_isPanic S hs m cap hi

/-- The subtraction `ptr.len() - TAGLEN` at the end of `_read_message` (not a panic site of the
    model, which uses truncated subtraction) cannot underflow: a keyed `decrypt_and_mix_hash` that
    succeeds was given at least 16 bytes. -/
theorem read_payload_len_no_underflow (S : Suite) (st : Sym) (d p : Bytes) (cap : Nat)
    (h : (st.decryptAndMixHash S d cap).1 = .ok p) (hk : st.hasKey = true) : 16 ≤ d.length := by
  unfold Sym.decryptAndMixHash at h
  simp only [hk, ↓reduceIte] at h
  unfold CipherState.decryptAd at h
  split at h
  · cases h
  · rename_i hc; simp only [Bool.or_eq_true, decide_eq_true_eq, not_or, Nat.not_lt] at hc; exact hc.1

/-! ## 4. `set_psk`, mode conversion, getters -/

/-- `set_psk(location, key)` for ANY location and ANY key length returns `Ok(())` or `Err(Input)`. -/
theorem set_psk_total (hs : HS) (loc : Nat) (key : Bytes) :
    ((hs.setPsk loc key).1 = .ok () ∨ (hs.setPsk loc key).1 = .err .input) ∧
    (hs.setPsk loc key).1.isPanic = false := by
  have h := setPsk_outcome hs loc key
  refine ⟨h, ?_⟩
  rcases h with h | h <;> rw [h] <;> rfl

/-- `into_transport_mode` / `into_stateless_transport_mode` at any time: `Ok` or
    `Err(State(HandshakeNotFinished))`, never a panic. -/
theorem convert_total (S : Suite) (hs : HS) : (TS.ofHandshake S hs).isPanic = false := by
  unfold TS.ofHandshake; split <;> rfl

/- Getters (`get_remote_static`, `get_handshake_hash`, `is_initiator`, `is_handshake_finished`,
   `is_my_turn`, `was_write_payload_encrypted`, `TS.getRemoteStatic`, the nonce getters/setters,
   `rekey_manually`): the model functions return plain values (no `Res`), i.e. they are total by
   construction.  The one slice among them, `rs[..pub_len]` in `get_remote_static`, is in range
   because `pub_len <= MAXDHLEN` (`lengths_bounded` below). -/

/-! ## 5. Transport mode (stateful and stateless) -/

/-- `TransportState::write_message` never panics, for EVERY transport state, payload and buffer
    length: the guard `payload.len() + TAGLEN > message.len()` returns `Input` before
    `Cipher::encrypt` could index past the buffer. -/
theorem t_write_total (S : Suite) (ts : TS) (p : Bytes) (cap : Nat) :
    (ts.writeMessage S p cap).1.isPanic = false := by
  rw [TS.writeMessage_eq]
  by_cases h1 : (!ts.initiator && ts.oneway) = true
  · simp only [h1, ↓reduceIte]; rfl
  · by_cases h2 : (decide (p.length + 16 > 65535) || decide (p.length + 16 > cap)) = true
    · simp only [h1, h2, ↓reduceIte, Bool.false_eq_true]; rfl
    · simp only [h1, h2, ↓reduceIte, Bool.false_eq_true]
      cases hp : (ts.sendCs.encryptAd S [] p cap).1.isPanic with
      | false => rfl
      | true =>
        rw [CipherState.encryptAd_isPanic_iff] at hp
        simp only [Bool.or_eq_true, decide_eq_true_eq, not_or] at h2
        omega

/-- `TransportState::read_message` never panics, for every state, message and buffer length. -/
theorem t_read_total (S : Suite) (ts : TS) (m : Bytes) (cap : Nat) :
    (ts.readMessage S m cap).1.isPanic = false := by
  rw [TS.readMessage_eq]
  repeat' split
  all_goals first | rfl | exact CipherState.decryptAd_isPanic S _ _ _ _

/-- `StatelessTransportState::write_message` never panics, for every state, nonce, payload and
    buffer length. -/
theorem st_write_total (S : Suite) (ts : TS) (n : UInt64) (p : Bytes) (cap : Nat) :
    (ts.stWrite S n p cap).1.isPanic = false := by
  unfold TS.stWrite
  by_cases h1 : (!ts.initiator && ts.oneway) = true
  · simp only [h1, ↓reduceIte]; rfl
  · by_cases h2 : (decide (p.length + 16 > 65535) || decide (p.length + 16 > cap)) = true
    · simp only [h1, h2, ↓reduceIte, Bool.false_eq_true]; rfl
    · simp only [h1, h2, ↓reduceIte, Bool.false_eq_true]
      simp only [Bool.or_eq_true, decide_eq_true_eq, not_or] at h2
      have h3 : ¬ cap < p.length + 16 := by omega
      unfold TS.stEncrypt
      simp only [h3, ↓reduceIte]
      repeat' split
      all_goals rfl

/-- `StatelessTransportState::read_message` never panics, for every state, nonce, message and
    buffer length. -/
theorem st_read_total (S : Suite) (ts : TS) (n : UInt64) (m : Bytes) (cap : Nat) :
    (ts.stRead S n m cap).1.isPanic = false := by
  unfold TS.stRead TS.stDecrypt
  repeat' split
  all_goals rfl

/-- Rekeying.  The model's `rekey*` functions return plain values (total by construction), BUT the
    default `Cipher::rekey` contains `assert_eq!(ciphertext_len, 48)` and
    `key.copy_from_slice(&ciphertext[..32])`, a panic site that is NOT in the model.  This theorem
    states the law under which it cannot fire: if the cipher's `encrypt` returns
    `plaintext.len() + 16` bytes (`EncLen`), the ciphertext of the 32 zero bytes is 48 bytes long
    and the new key (its first 32 bytes) is 32 bytes long, for every key. -/
theorem rekey_total (S : Suite) (hel : S.EncLen) (key : Bytes) :
    (S.enc key CipherState.nonceMax [] (Bytes.zeros 32)).length = 48 ∧
    (rekeyKey S key).length = 32 := by
  have h : (S.enc key 0xFFFFFFFFFFFFFFFF [] (Bytes.zeros 32)).length = 48 := by
    rw [hel]; simp [Bytes.zeros]
  refine ⟨h, ?_⟩
  unfold rekeyKey
  rw [List.length_take, h]; rfl

/-! ## 6. Parsing -/

/-- Parsing ANY byte string (in particular any UTF-8 string, ASCII or not) as a protocol name
    returns `Ok` or `Err`: the only `panic` in `Model/Params.lean` is `split('_')` yielding no
    piece, and `split` always yields at least one (`splitBy_ne_nil`). -/
theorem parse_total (f : Features) (bytes : Bytes) : (Model.parse f bytes).isPanic = false :=
  parse_isPanic f bytes

/-! ## 7. `Builder::build` -/

/-- `build_initiator` / `build_responder` never panic: for keys and prologues of ANY length, any
    psk slots, any name, both roles, any resolver availability, any pattern and modifier list,
    provided the DH implementation accepts every private key (`PrivTotal`) and its public keys fit
    the `[u8; MAXDHLEN]` arrays (see `lengths_bounded`). -/
theorem build_total (S : Suite) (av : Avail) (c : BuildCfg) (hpt : S.PrivTotal)
    (hml : S.pubLen ≤ MAXDHLEN) : (Model.build S av c).isPanic = false := by
  cases hp : (build S av c).isPanic with
  | false => rfl
  | true =>
    rcases build_isPanic hp with ⟨k, _, _, hv⟩ | ⟨v, _, _, hgt⟩
    · rw [hpt k] at hv; cases hv
    · omega

/-- Without `PrivTotal`: the only remaining panic of `build` is a configured private key
    (`local_private_key` or `fixed_ephemeral_key_for_testing_only`) of the RIGHT length that the DH
    implementation rejects: the known P-256 finding (`derive_pubkey().unwrap()`). -/
theorem build_panic_only_invalid_key (S : Suite) (av : Avail) (c : BuildCfg)
    (hml : S.pubLen ≤ MAXDHLEN) (hp : (Model.build S av c).isPanic = true) :
    ∃ k, (c.s = some k ∨ c.eFixed = some k) ∧ k.length = S.privLen ∧ S.validPriv k = false := by
  rcases build_isPanic hp with h | ⟨v, _, _, hgt⟩
  · exact h
  · omega

/-- ... and that panic does occur (sharpness): with everything available, a static key of the
    right length that the DH implementation rejects makes `build` panic. -/
theorem build_panics_on_invalid_static (S : Suite) (c : BuildCfg) (k : Bytes)
    (hs : c.s = some k) (he : c.eFixed = none) (hr : c.rs = none)
    (hneed : needKnownRemote c.pattern c.initiator = false)
    (hk : k.length = S.privLen) (hv : S.validPriv k = false) :
    build S ⟨true, true, true, true⟩ c = .panic "Dh::set: invalid private key" :=
  build_panics_of_bad_static S c k hs he hr hneed hk hv

/-! ## 8. Histories -/

/-- The outcome of one public handshake call is a panic. -/
def panics (S : Suite) (hs : HS) : Op → Bool
  | .write p cap => (hs.writeMessage S p cap).1.isPanic
  | .read m cap => (hs.readMessage S m cap).1.isPanic
  | .setPsk loc key => (hs.setPsk loc key).1.isPanic

/-- Every operation preserves the invariant (every outcome, any arguments). -/
theorem inv_step (S : Suite) (hs : HS) (op : Op) (hpl : S.PubLen) (hi : Inv S hs) :
    Inv S (step S hs op) := by
  cases op with
  | write p cap => exact inv_write S hs p cap hpl hi
  | read m cap => exact inv_read S hs m cap hi
  | setPsk loc key => exact inv_setPsk S hs loc key hi

/-- The invariant holds after every history of public calls (write/read/set_psk in any order, with
    any arguments, failed calls and retries included). -/
theorem inv_run (S : Suite) (hs : HS) (ops : List Op) (hpl : S.PubLen) (hi : Inv S hs) :
    Inv S (run S hs ops) := by
  induction ops generalizing hs with
  | nil => exact hi
  | cons op ops ih => exact ih _ (inv_step S hs op hpl hi)

/-- No single operation panics on a state satisfying the invariant. -/
theorem step_total (S : Suite) (hs : HS) (op : Op) (hi : Inv S hs) (hpt : S.PrivTotal) (hpl : S.PubLen) :
    panics S hs op = false := by
  cases op with
  | write p cap => exact hs_write_total S hs p cap hi hpt hpl
  | read m cap => exact hs_read_total S hs m cap hi
  | setPsk loc key => exact (set_psk_total hs loc key).2

/-- No operation in any history panics: whatever calls were made before (`pre`), the next call
    (`op`, any arguments) returns `Ok` or `Err`. -/
theorem history_total (S : Suite) (hs : HS) (hi : Inv S hs) (hpt : S.PrivTotal) (hpl : S.PubLen)
    (pre : List Op) (op : Op) : panics S (run S hs pre) op = false :=
  step_total S _ op (inv_run S hs pre hpl hi) hpt hpl

/-- Without `PrivTotal`: in any history the only call that can panic is a `write_message` whose
    `Dh::generate` rejects the drawn private key. -/
theorem history_panic_only_generate (S : Suite) (hs : HS) (hi : Inv S hs) (hpl : S.PubLen)
    (pre : List Op) (op : Op) (hp : panics S (run S hs pre) op = true) :
    ∃ p cap, op = .write p cap ∧ (run S hs pre).fixedE = false ∧
      S.validPriv (rngDraw (step S (run S hs pre) op).rng S.privLen).1 = false := by
  have hi' := inv_run S hs pre hpl hi
  cases op with
  | write p cap =>
    have h := hs_write_panic_only_generate S _ p cap hi' hp
    exact ⟨p, cap, rfl, h.1, h.2.2⟩
  | read m cap =>
    have := hs_read_total S _ m cap hi'
    simp only [panics] at hp; rw [this] at hp; cases hp
  | setPsk loc key =>
    have := (set_psk_total (run S hs pre) loc key).2
    simp only [panics] at hp; rw [this] at hp; cases hp

/-- MAIN THEOREM (handshake phase).  Starting from ANY state `Builder::build` returns (any
    pattern, modifiers, keys, prologue, role), after ANY sequence of `write_message` /
    `read_message` / `set_psk` calls with ANY arguments, the invariant holds and the next call,
    with ANY arguments, returns `Ok` or `Err`; and so does converting to transport mode. -/
theorem built_session_never_panics (S : Suite) (av : Avail) (c : BuildCfg) (hs : HS)
    (hpl : S.PubLen) (hpt : S.PrivTotal) (hpsk : c.psks.length = 10) (hb : build S av c = .ok hs)
    (pre : List Op) :
    Inv S (run S hs pre) ∧ (∀ op, panics S (run S hs pre) op = false) ∧
    (TS.ofHandshake S (run S hs pre)).isPanic = false :=
  have hi := inv_build S av c hs hpl hpsk hb
  ⟨inv_run S hs pre hpl hi, fun op => history_total S hs hi hpt hpl pre op, convert_total S _⟩

/-- The `NoPanic` side condition of `C11.indicators_always` holds in every history. -/
theorem c11_noPanic (S : Suite) (hs : HS) (hi : Inv S hs) (hpt : S.PrivTotal) (hpl : S.PubLen)
    (pre : List Op) (op : Op) : C11.NoPanic S (run S hs pre) op := by
  have h := history_total S hs hi hpt hpl pre op
  cases op with
  | write p cap => exact h
  | read m cap => exact h
  | setPsk loc key => trivial

/-- C11's indicator theorem without its no-panic hypothesis. -/
theorem indicators_always_total (S : Suite) (hs : HS) (ops : List Op) (hi : Inv S hs)
    (hpt : S.PrivTotal) (hpl : S.PubLen) (ht : C11.TurnInv hs) : C11.TurnInv (run S hs ops) :=
  C11.indicators_always S hs ops ht (fun pre op post _ => c11_noPanic S hs hi hpt hpl pre op)

/-! ## 9. Lengths of the resolvable primitives (regenerated table) -/

/-- Every DH the built-in resolvers can return has `pub_len <= MAXDHLEN` and `dh_len <= MAXDHLEN`
    (they fit the `rs`/`re`/`dh_out` arrays); every hash has `32 <= hash_len <= MAXHASHLEN` and
    `64 <= block_len <= MAXBLOCKLEN` (the `h`/`ck`/`temp_key`/`ipad` arrays and the
    `assert!(key.len() <= block_len)` of `hmac`).  By evaluation over the generated table. -/
theorem lengths_bounded :
    (∀ r ∈ resolverRows, r.kind = "dh" → r.available = true → r.a ≤ MAXDHLEN ∧ r.c ≤ MAXDHLEN) ∧
    (∀ r ∈ resolverRows, r.kind = "hash" → r.available = true →
      32 ≤ r.a ∧ r.a ≤ MAXHASHLEN ∧ 64 ≤ r.b ∧ r.b ≤ MAXBLOCKLEN) := by
  decide

/-! ## 10. Non-vacuity: concrete states and histories (toy suite `Toy.suite 0 0 0`) -/

section Examples

def exSuite : Suite := Toy.suite 0 0 0
def exAv : Avail := ⟨true, true, true, true⟩
def exKey (b : UInt8) : Bytes := List.replicate 32 b

/-- The toy suite (like 25519) satisfies the two laws the theorems assume. -/
theorem toy_pubLen : exSuite.PubLen := by
  intro a
  show (Toy.pubOf _ 32 a).length = 32
  simp [Toy.pubOf, Bytes.xor, Bytes.fit, Toy.dhConst, Toy.dhTail, Bytes.zeros]

theorem toy_privTotal : exSuite.PrivTotal := fun _ => rfl

/-- `XXpsk3`, responder, with a local static key. -/
def exXXr : BuildCfg :=
  { pattern := .pXX, mods := [.psk 3], name := [1, 2, 3], initiator := false, s := some (exKey 7),
    eFixed := none, rs := none, psks := List.replicate 10 none, prologue := [9, 9], rng := exKey 5 }

theorem isOk_exists {α} {r : Res α} (h : r.isOk = true) : ∃ a, r = .ok a := by
  cases r <;> simp [Res.isOk] at h ⊢

/-- A concrete built state satisfies the invariant (so every theorem above applies to it). -/
example : ∃ hs, build exSuite exAv exXXr = .ok hs ∧ Inv exSuite hs ∧ hs.msgs.length = 3 := by
  obtain ⟨hs, h⟩ := isOk_exists (r := build exSuite exAv exXXr) (by decide +kernel)
  refine ⟨hs, h, inv_build exSuite exAv exXXr hs toy_pubLen (by decide) h, ?_⟩
  have : (build exSuite exAv exXXr).map (·.msgs.length) = .ok 3 := by decide +kernel
  rw [h] at this; simpa [Res.map] using this

/-- ... and so does every state reachable from it, and no call on any of them panics. -/
example (hs : HS) (h : build exSuite exAv exXXr = .ok hs) (pre : List Op) (op : Op) :
    Inv exSuite (run exSuite hs pre) ∧ panics exSuite (run exSuite hs pre) op = false :=
  have t := built_session_never_panics exSuite exAv exXXr hs toy_pubLen toy_privTotal (by decide) h pre
  ⟨t.1, t.2.1 op⟩

/-- Outcome of `op` after the calls `pre` on the state `build` returns (for evaluation). -/
def outcomeAfter (S : Suite) (av : Avail) (c : BuildCfg) (pre : List Op) (op : Op) : Res Unit :=
  match build S av c with
  | .ok hs =>
    (match op with
     | .write p cap => ((run S hs pre).writeMessage S p cap).1.toUnit
     | .read m cap => ((run S hs pre).readMessage S m cap).1.toUnit
     | .setPsk l k => ((run S hs pre).setPsk l k).1)
  | .err e => .err e
  | .panic p => .panic p

/-- The window of defect D4 (XX responder writing message 2, whose encrypted static key needs
    32 + 48 bytes, then a 16-byte payload tag): every buffer shorter than 96 bytes gives
    `Err(Input)` (the unfixed code panicked for 64..=79), 96 bytes succeed. -/
example : ∀ cap ∈ List.range 96,
    outcomeAfter exSuite exAv { exXXr with mods := [] } [.read (exKey 3) 0] (.write [] cap) = .err .input := by
  set_option maxRecDepth 100000 in decide +kernel

example : outcomeAfter exSuite exAv { exXXr with mods := [] } [.read (exKey 3) 0] (.write [] 96) = .ok () := by
  decide +kernel

/-- A suite whose DH rejects the all-zero private key (as P-256 does): `PrivTotal` fails, and both
    remaining panics (`hs_write_panic_only_generate`, `build_panic_only_invalid_key`) do occur. -/
def badSuite : Suite := { exSuite with validPriv := fun k => k != Bytes.zeros 32 }

def exNN : BuildCfg :=
  { pattern := .pNN, mods := [], name := [1, 2, 3], initiator := true, s := none,
    eFixed := none, rs := none, psks := List.replicate 10 none, prologue := [], rng := [] }

example : outcomeAfter badSuite exAv exNN [] (.write [] 100) = .panic "Dh::generate: invalid private key" := by
  decide +kernel

example : build badSuite exAv { exNN with s := some (Bytes.zeros 32) } = .panic "Dh::set: invalid private key" := by
  decide +kernel

end Examples

end SnowVerif.Theorems.C10
