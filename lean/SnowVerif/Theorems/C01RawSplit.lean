/-
  C01 / C02 for `HandshakeState::dangerously_get_raw_split` (cargo feature `risky-raw-split`):
  the raw key material it returns is the specification's `Split()` of the current chaining key,
  and it is exactly the pair of keys the transport states use when it is called on a finished
  handshake.

  1. `rawSplit_eq_split`: the two values are the keys of `SymmetricState::split` (snow's own
     `Split()`), for every handshake state.
  2. `rawSplit_eq_spec`: they are the keys of the specification's `Split()` on the abstract state.
  3. `rawSplit_after_write` / `rawSplit_after_read`: after the call that finishes the handshake,
     `dangerously_get_raw_split` returns (key of the initiator-to-responder cipher state, key of the
     responder-to-initiator cipher state) of `into_transport_mode` / `into_stateless_transport_mode`.
  4. `rawSplit_lengths`: both have exactly 32 bytes, for every suite (no law needed).
-/
import SnowVerif.Theorems.C01

namespace SnowVerif.Theorems.C01RawSplit
open SnowVerif SnowVerif.Model SnowVerif.Model.HS SnowVerif.Bytes SnowVerif.C01 SnowVerif.Theorems.C01
set_option linter.unusedVariables false

/-! ## Helpers: the call that finishes the handshake installs `split()` of the final `sym` -/

section Helpers

theorem fit_length (n : Nat) (b : Bytes) : (fit n b).length = n := by
  simp only [fit, zeros, List.length_take, List.length_append, List.length_replicate]; omega

/-- A successful `write_message` that leaves the handshake finished was the last message: the two
    cipher states of the returned session are `split()` of its final symmetric state. -/
theorem write_last_split (S : Suite) (hs : HS) (p : Bytes) (cap : Nat) (n : Nat) (hs' : HS) (acc : Bytes)
    (ev : List Event) (h : hs.writeMessage S p cap = (.ok n, hs', acc, ev))
    (hfin : hs'.isHandshakeFinished = true) :
    hs'.cs1 = (hs'.sym.split S).1 ∧ hs'.cs2 = (hs'.sym.split S).2 := by
  unfold writeMessage at h
  simp only at h
  cases hr : (writeInner S hs p cap).1 with
  | err e => simp [hr] at h
  | panic q => simp [hr] at h
  | ok k =>
    simp only [hr, Prod.mk.injEq, Res.ok.injEq] at h
    obtain ⟨hn, hhs', hacc', hev'⟩ := h
    obtain ⟨hW, ct, hct, hk, hacc, hhs⟩ := writeInner_ok_shape S hs p cap k hr
    generalize (writeToks S cap (hs.msgs.getD hs.pos []) { hs := hs, acc := [], ev := [] }).2 = w at hhs
    have hfr := writeFinish_frame S w p cap
    rw [hhs] at hhs'
    have hpos : w.hs.pos + 1 = w.hs.msgs.length := by
      have : ((writeFinish S w p cap).pos + 1 == (writeFinish S w p cap).msgs.length) = true := by
        rw [← hhs'] at hfin; exact hfin
      rw [hfr.2.1, hfr.2.2.1] at this
      simpa using this
    have hsp := writeFinish_split S w p cap hpos
    rw [← hhs']
    show (writeFinish S w p cap).cs1 = ((writeFinish S w p cap).sym.split S).1 ∧
      (writeFinish S w p cap).cs2 = ((writeFinish S w p cap).sym.split S).2
    rw [hfr.2.2.2]
    exact hsp

/-- The same for `read_message`. -/
theorem read_last_split (S : Suite) (hs : HS) (m : Bytes) (cap : Nat) (pl : Bytes) (hs' : HS) (buf : Bytes)
    (ev : List Event) (h : hs.readMessage S m cap = (.ok pl, hs', buf, ev))
    (hfin : hs'.isHandshakeFinished = true) :
    hs'.cs1 = (hs'.sym.split S).1 ∧ hs'.cs2 = (hs'.sym.split S).2 := by
  unfold readMessage at h
  simp only at h
  cases hr : (readInner S hs m cap).1 with
  | err e => simp [hr] at h
  | panic q => simp [hr] at h
  | ok k =>
    simp only [hr, Prod.mk.injEq, Res.ok.injEq] at h
    obtain ⟨hn, hhs', hbuf', hev'⟩ := h
    obtain ⟨hW, p0, hp0, hk, hhs⟩ := readInner_ok_shape S hs m cap k hr
    have hf := readToks_frame S (hs.msgs.getD hs.pos []) { hs := hs, ptr := m, ev := [] }
    generalize (readToks S (hs.msgs.getD hs.pos []) { hs := hs, ptr := m, ev := [] }).2 = r at hhs hf
    have hfr := readFinish_frame S hs r cap
    rw [hhs] at hhs'
    have hpos : hs.pos + 1 = hs.msgs.length := by
      have : ((readFinish S hs r cap).pos + 1 == (readFinish S hs r cap).msgs.length) = true := by
        rw [← hhs'] at hfin; exact hfin
      rw [hfr.1, hfr.2.1, hf.pos, hf.msgs] at this
      simpa using this
    have hsp := readFinish_split S hs r cap hpos
    rw [← hhs']
    show (readFinish S hs r cap).cs1 = ((readFinish S hs r cap).sym.split S).1 ∧
      (readFinish S hs r cap).cs2 = ((readFinish S hs r cap).sym.split S).2
    rw [hfr.2.2]
    exact hsp

end Helpers

/-- `dangerously_get_raw_split` returns the keys `split()` installs in the two transport cipher states. -/
theorem rawSplit_eq_split (S : Suite) (hs : HS) :
    (hs.rawSplit S).1 = (hs.sym.split S).1.key ∧ (hs.rawSplit S).2 = (hs.sym.split S).2.key := by
  simp [HS.rawSplit, Sym.split, CipherState.set]

/-- Both halves of the raw split are exactly `CIPHERKEYLEN = 32` bytes long, whatever the suite. -/
theorem rawSplit_lengths (S : Suite) (hs : HS) :
    (hs.rawSplit S).1.length = 32 ∧ (hs.rawSplit S).2.length = 32 := by
  simp [HS.rawSplit, key32, fit_length]

/-- **The raw split is the specification's `Split()`.** For every handshake state whose chaining key
    has `HASHLEN` bytes (every reachable state), the pair returned by `dangerously_get_raw_split` is
    the pair of keys of the two CipherStates the specification's `Split()` returns for the abstract
    SymmetricState. -/
theorem rawSplit_eq_spec (S : Suite) (hL : S.HashLen) (hS : S.Sizes) (hs : HS)
    (hck : hs.sym.ck.length = S.hashLen) :
    (some (hs.rawSplit S).1, some (hs.rawSplit S).2) =
      (((absSym hs.sym).split S).1.k, ((absSym hs.sym).split S).2.k) := by
  have h := split_eq_spec S hL hS hs.sym hck
  have h1 := congrArg (fun x => x.1.k) h
  have h2 := congrArg (fun x => x.2.k) h
  simp only at h1 h2
  rw [← h1, ← h2]
  simp [absCS, HS.rawSplit, Sym.split, CipherState.set]

/-- After the `write_message` that finishes the handshake, `dangerously_get_raw_split` returns the
    keys of the two cipher states `into_transport_mode` hands over. -/
theorem rawSplit_after_write (S : Suite) (hs : HS) (p : Bytes) (cap : Nat) (n : Nat) (hs' : HS) (acc : Bytes)
    (ev : List Event) (h : hs.writeMessage S p cap = (.ok n, hs', acc, ev)) (ts : TS)
    (hts : TS.ofHandshake S hs' = .ok ts) :
    (hs'.rawSplit S).1 = ts.cs1.key ∧ (hs'.rawSplit S).2 = ts.cs2.key := by
  have hcs := write_last_split S hs p cap n hs' acc ev h
  unfold TS.ofHandshake at hts
  cases hfin : hs'.isHandshakeFinished with
  | false => simp [hfin] at hts
  | true =>
    simp only [hfin, Bool.not_true, Bool.false_eq_true, ↓reduceIte, Res.ok.injEq] at hts
    subst hts
    obtain ⟨h1, h2⟩ := hcs hfin
    simp only [h1, h2]
    exact rawSplit_eq_split S hs'

/-- The same after the `read_message` that finishes the handshake. -/
theorem rawSplit_after_read (S : Suite) (hs : HS) (m : Bytes) (cap : Nat) (pl : Bytes) (hs' : HS) (buf : Bytes)
    (ev : List Event) (h : hs.readMessage S m cap = (.ok pl, hs', buf, ev)) (ts : TS)
    (hts : TS.ofHandshake S hs' = .ok ts) :
    (hs'.rawSplit S).1 = ts.cs1.key ∧ (hs'.rawSplit S).2 = ts.cs2.key := by
  have hcs := read_last_split S hs m cap pl hs' buf ev h
  unfold TS.ofHandshake at hts
  cases hfin : hs'.isHandshakeFinished with
  | false => simp [hfin] at hts
  | true =>
    simp only [hfin, Bool.not_true, Bool.false_eq_true, ↓reduceIte, Res.ok.injEq] at hts
    subst hts
    obtain ⟨h1, h2⟩ := hcs hfin
    simp only [h1, h2]
    exact rawSplit_eq_split S hs'

/-! ## Non-vacuity: the last XX message with the toy suite, both ends -/

namespace Ex
open SnowVerif.Theorems.C14.Ex SnowVerif.Theorems.C01.Ex

/-- The initiator writes XX message 3 (`xw3` of C01's examples: `iLast.writeMessage S0 [6] 1000`),
    which finishes its handshake; `tsI` is the transport state `into_transport_mode` returns. -/
example : xw3.1 = .ok 65 ∧ TS.ofHandshake S0 xw3.2.1 = .ok tsI ∧
    (xw3.2.1.rawSplit S0).1 = tsI.cs1.key ∧ (xw3.2.1.rawSplit S0).2 = tsI.cs2.key ∧
    (xw3.2.1.rawSplit S0).1 ≠ (xw3.2.1.rawSplit S0).2 := by decide +kernel

/-- The responder before reading that message: same symmetric state, matching keys. -/
def rLast : HS :=
  { r0 with sym := iLast.sym, s := { val := kp 2, on := true }, e := { val := kp 9, on := true },
            re := { val := (kp 4).pub, on := true }, myTurn := false, pos := 2 }

def xr3 := rLast.readMessage S0 xw3.2.2.1 1000

/-- The responder's transport state. -/
def tsR : TS :=
  { cs1 := xr3.2.1.cs1, cs2 := xr3.2.1.cs2, oneway := false, pubLen := 32, rs := xr3.2.1.rs, initiator := false }

/-- The responder reads it, finishes, and its raw split is the pair of keys of its transport state,
    and the same pair the initiator gets. -/
example : xr3.1 = .ok [6] ∧ TS.ofHandshake S0 xr3.2.1 = .ok tsR ∧
    (xr3.2.1.rawSplit S0).1 = tsR.cs1.key ∧ (xr3.2.1.rawSplit S0).2 = tsR.cs2.key ∧
    xr3.2.1.rawSplit S0 = xw3.2.1.rawSplit S0 := by decide +kernel

/-- The hypotheses of `rawSplit_after_write` / `rawSplit_after_read` are met by these runs. -/
example : (xw3.2.1.rawSplit S0).1 = tsI.cs1.key ∧ (xw3.2.1.rawSplit S0).2 = tsI.cs2.key :=
  rawSplit_after_write S0 iLast [6] 1000 65 xw3.2.1 xw3.2.2.1 xw3.2.2.2 (by decide +kernel) tsI (by decide +kernel)

example : (xr3.2.1.rawSplit S0).1 = tsR.cs1.key ∧ (xr3.2.1.rawSplit S0).2 = tsR.cs2.key :=
  rawSplit_after_read S0 rLast xw3.2.2.1 1000 [6] xr3.2.1 xr3.2.2.1 xr3.2.2.2 (by decide +kernel) tsR (by decide +kernel)

/-- Before the last message the handshake state has no transport keys yet, but the raw split can
    already be taken (it is `Split()` of the chaining key at that moment, another pair). -/
example : (TS.ofHandshake S0 iLast).isOk = false ∧ iLast.rawSplit S0 ≠ xw3.2.1.rawSplit S0 := by decide +kernel

end Ex

end SnowVerif.Theorems.C01RawSplit
