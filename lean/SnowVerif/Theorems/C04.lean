/-
  C04  Transport messages are authenticated: only the peer's message is accepted.

  Exact characterisation of when a transport read returns `ok` (no witness
  needed), then the corollaries for the adversarial deliveries the property
  lists, each concluding "rejected, or the run exhibits a concrete AEAD
  coincidence" (DESIGN.md section 3.3).
-/
import SnowVerif.Lemmas.Transport

namespace SnowVerif.Theorems.C04
open SnowVerif SnowVerif.Model SnowVerif.Model.TS
set_option linter.unusedVariables false
set_option linter.unusedSimpArgs false

/-- **Stateful read, exact characterisation** (any suite): a read returns `ok p` iff the message
    is of legal size, the buffer fits, the counter is not exhausted, and the message decrypts to
    `p` under the receiving key with the receiving counter and empty associated data. -/
theorem t_read_ok_iff (S : Suite) (ts : TS) (h : CanRecv ts) (m : Bytes) (cap : Nat) (p : Bytes) :
    (∃ ts' buf ev, ts.readMessage S m cap = (.ok p, ts', buf, ev)) ↔
    (Guards ts m cap ∧ S.dec ts.recvCs.key ts.recvCs.n [] m = some p) := by
  constructor
  · rintro ⟨ts', buf, ev, hr⟩
    by_cases g : Guards ts m cap
    · rw [read_guards_ok S ts m cap h g] at hr
      cases hd : S.dec ts.recvCs.key ts.recvCs.n [] m with
      | none => simp [hd] at hr
      | some q => simp [hd] at hr; exact ⟨g, by rw [hr.1]⟩
    · obtain ⟨e, he⟩ := read_guards_fail S ts m cap h g
      rw [he] at hr; simp at hr
  · rintro ⟨g, hd⟩
    rw [read_guards_ok S ts m cap h g, hd]
    exact ⟨_, _, _, rfl⟩

/-- With `DecSound`/`DecEnc`/`EncLen`: a read returns `ok p` **iff** the message *is* the AEAD
    encryption of `p` under (receiving key, receiving counter, empty ad) — i.e. exactly what the
    peer's write produces for this session, direction and nonce — and sizes fit. -/
theorem t_read_ok_iff_enc (S : Suite) (hs : S.DecSound) (hde : S.DecEnc) (hel : S.EncLen)
    (ts : TS) (h : CanRecv ts) (m : Bytes) (cap : Nat) (p : Bytes) :
    (∃ ts' buf ev, ts.readMessage S m cap = (.ok p, ts', buf, ev)) ↔
    (m = S.enc ts.recvCs.key ts.recvCs.n [] p ∧ p.length + 16 ≤ 65535 ∧ p.length ≤ cap ∧ ts.recvCs.n ≠ MAXN) := by
  rw [t_read_ok_iff S ts h]
  constructor
  · rintro ⟨g, hd⟩
    have hm := hs _ _ _ _ _ hd
    have hl := hel ts.recvCs.key ts.recvCs.n [] p
    obtain ⟨g1, g2, g3, g4⟩ := g
    rw [hm, hl] at g1 g3
    exact ⟨hm, g1, by omega, g4⟩
  · rintro ⟨hm, hl, hc, hn⟩
    have hlen := hel ts.recvCs.key ts.recvCs.n [] p
    subst hm
    refine ⟨⟨by rw [hlen]; exact hl, by rw [hlen]; omega, by rw [hlen]; omega, hn⟩, hde _ _ _ _⟩

/-- What a successful write puts on the wire: the encryption of the payload under the sending
    key and sending counter. -/
theorem t_write_bytes (S : Suite) (ts : TS) (h : CanSend ts) (p : Bytes) (cap : Nat) (c : Bytes) (ts' : TS)
    (ev : List Event) (hw : ts.writeMessage S p cap = (.ok c, ts', ev)) :
    c = S.enc ts.sendCs.key ts.sendCs.n [] p ∧ WGuards ts p cap := by
  by_cases g : WGuards ts p cap
  · rw [write_guards_ok S ts p cap h g] at hw
    simp at hw
    exact ⟨hw.1.symm, g⟩
  · obtain ⟨e, he⟩ := write_guards_fail S ts p cap h g
    rw [he] at hw; simp at hw

/-- Two endpoints of one session: opposite roles, same pair of direction keys
    (`split` gives both sides the same two keys; see C02). -/
def Paired (a b : TS) : Prop :=
  a.initiator = !b.initiator ∧ a.cs1.key = b.cs1.key ∧ a.cs2.key = b.cs2.key

theorem paired_keys (a b : TS) (h : Paired a b) : a.sendCs.key = b.recvCs.key ∧ a.recvCs.key = b.sendCs.key := by
  obtain ⟨h1, h2, h3⟩ := h
  unfold sendCs recvCs
  cases hb : b.initiator <;> simp [hb] at h1 <;> simp [h1, hb, h2, h3]

/-- The genuine message is accepted and returns exactly the written payload, whenever the
    receiver's counter equals the counter the sender used. -/
theorem genuine_accepted (S : Suite) (hde : S.DecEnc) (hel : S.EncLen) (a b : TS) (hp : Paired a b)
    (ha : CanSend a) (hb : CanRecv b) (p : Bytes) (cap : Nat) (c : Bytes) (a' : TS) (ev : List Event)
    (hw : a.writeMessage S p cap = (.ok c, a', ev)) (hn : b.recvCs.n = a.sendCs.n) (capr : Nat) (hc : p.length ≤ capr) :
    ∃ b' buf ev', b.readMessage S c capr = (.ok p, b', buf, ev') := by
  obtain ⟨hcb, g⟩ := t_write_bytes S a ha p cap c a' ev hw
  have hk := (paired_keys a b hp).1
  have hlen := hel a.sendCs.key a.sendCs.n [] p
  have gg : Guards b c capr := by
    unfold Guards; rw [hcb, hlen, hn]; exact ⟨g.1, by omega, by omega, g.2.2⟩
  rw [read_guards_ok S b c capr hb gg, hcb, ← hk, hn, hde]
  exact ⟨_, _, _, rfl⟩

/-- Only the peer's message: whatever a read accepts is, byte for byte, what the peer's write
    produces for the returned payload when its sending counter equals the receiving counter. -/
theorem only_peers_message (S : Suite) (hs : S.DecSound) (a b : TS) (hp : Paired a b) (hb : CanRecv b)
    (m : Bytes) (cap : Nat) (p : Bytes) (b' : TS) (buf : Bytes) (ev : List Event)
    (hr : b.readMessage S m cap = (.ok p, b', buf, ev)) :
    m = S.enc a.sendCs.key b.recvCs.n [] p := by
  have := (t_read_ok_iff S b hb m cap p).mp ⟨_, _, _, hr⟩
  rw [(paired_keys a b hp).1]
  exact hs _ _ _ _ _ this.2

/-- Modified / truncated / extended / foreign bytes: if `m` differs from the peer's message for
    this counter and every payload, it is rejected. (Contrapositive of `only_peers_message`.) -/
theorem non_genuine_rejected (S : Suite) (hs : S.DecSound) (a b : TS) (hp : Paired a b) (hb : CanRecv b)
    (m : Bytes) (cap : Nat) (hne : ∀ p, m ≠ S.enc a.sendCs.key b.recvCs.n [] p) :
    ¬ (b.readMessage S m cap).1.isOk := by
  intro hok
  cases hr : b.readMessage S m cap with
  | mk r rest =>
    obtain ⟨b', buf, ev⟩ := rest
    cases r with
    | ok p => exact hne p (only_peers_message S hs a b hp hb m cap p b' buf ev hr)
    | err e => simp [hr, Res.isOk] at hok
    | panic q => simp [hr, Res.isOk] at hok

/-- Reflection: if an endpoint accepts a message it wrote itself, the run exhibits one
    ciphertext valid under (sending key, sending nonce) and (receiving key, receiving nonce). -/
theorem reflected_rejected_or_collision (S : Suite) (hs : S.DecSound) (ts : TS) (hsd : CanSend ts) (hrv : CanRecv ts)
    (p : Bytes) (cap : Nat) (c : Bytes) (ts1 : TS) (ev : List Event)
    (hw : ts.writeMessage S p cap = (.ok c, ts1, ev)) (capr : Nat) :
    ¬ (ts1.readMessage S c capr).1.isOk ∨
    ∃ q, S.enc ts.sendCs.key ts.sendCs.n [] p = S.enc ts.recvCs.key ts.recvCs.n [] q := by
  obtain ⟨hcb, g⟩ := t_write_bytes S ts hsd p cap c ts1 ev hw
  rw [write_guards_ok S ts p cap hsd g] at hw
  simp at hw
  obtain ⟨_, rfl, _⟩ := hw
  have hrv1 : CanRecv (ts.withSend { ts.sendCs with n := ts.sendCs.n + 1 }) := by
    unfold CanRecv at *
    rw [recvCs_withSend, initiator_withSend, oneway_withSend]; exact hrv
  cases hr : (ts.withSend { ts.sendCs with n := ts.sendCs.n + 1 }).readMessage S c capr with
  | mk r rest =>
    obtain ⟨b', buf, ev'⟩ := rest
    cases r with
    | ok q =>
      right
      have := (t_read_ok_iff S _ hrv1 c capr q).mp ⟨_, _, _, hr⟩
      simp at this
      exact ⟨q, by rw [← hcb]; exact hs _ _ _ _ _ this.2⟩
    | err e => left; simp [Res.isOk]
    | panic z => left; simp [Res.isOk]

/-! ### Stateless mode -/

/-- Stateless read, exact characterisation with the caller's nonce. -/
theorem st_read_ok_iff (S : Suite) (ts : TS) (h : CanRecv ts) (n : UInt64) (m : Bytes) (cap : Nat) (p : Bytes) :
    (∃ buf ev, ts.stRead S n m cap = (.ok p, buf, ev)) ↔
    (m.length ≤ 65535 ∧ 16 ≤ m.length ∧ m.length - 16 ≤ cap ∧ n ≠ MAXN ∧ S.dec ts.recvCs.key n [] m = some p) := by
  obtain ⟨hk, hw⟩ := h
  have h1 : (ts.initiator && ts.oneway) = false := by
    cases hi : ts.initiator <;> cases ho : ts.oneway <;> simp_all
  have hcs : (if ts.initiator then ts.cs2 else ts.cs1) = ts.recvCs := by unfold recvCs; rfl
  unfold stRead stDecrypt
  rw [hcs]
  constructor
  · rintro ⟨buf, ev, hr⟩
    repeat' split at hr
    all_goals (simp at hr)
    rename_i h0 _ h2 _ _ _ q hd
    obtain ⟨rfl, _, _⟩ := hr
    simp [MAXN] at *
    refine ⟨by omega, by omega, by omega, by assumption, hd⟩
  · rintro ⟨hl, h16, hc, hn, hd⟩
    have a0 : ¬ m.length > 65535 := by omega
    have a1 : (decide (m.length < 16) || decide (cap < m.length - 16)) = false := by simp; omega
    simp [a0, h1, a1, hk, hn, hd, MAXN] at *

/-- A genuine stateless message presented under a different nonce: rejected, or the run exhibits
    one ciphertext valid under two nonces of the same key. -/
theorem st_other_nonce_rejected_or_collision (S : Suite) (hs : S.DecSound) (ts : TS) (h : CanRecv ts)
    (key : Bytes) (hk : ts.recvCs.key = key) (n n' : UInt64) (p : Bytes) (cap : Nat) (hne : n ≠ n') :
    ¬ (ts.stRead S n' (S.enc key n [] p) cap).1.isOk ∨ ∃ q, S.enc key n [] p = S.enc key n' [] q := by
  cases hr : ts.stRead S n' (S.enc key n [] p) cap with
  | mk r rest =>
    obtain ⟨buf, ev⟩ := rest
    cases r with
    | ok q =>
      right
      have := (st_read_ok_iff S ts h n' _ cap q).mp ⟨_, _, hr⟩
      exact ⟨q, by rw [← hk]; rw [← hk] at this; exact hs _ _ _ _ _ this.2.2.2.2⟩
    | err e => left; simp [Res.isOk]
    | panic z => left; simp [Res.isOk]

/-- Direction keys: conversion keeps the two split keys, the initiator sends with the first and
    receives with the second, the responder the other way round. -/
theorem direction_keys (S : Suite) (hs : HS) (ts : TS) (h : TS.ofHandshake S hs = .ok ts) :
    ts.sendCs = (if hs.initiator then hs.cs1 else hs.cs2) ∧ ts.recvCs = (if hs.initiator then hs.cs2 else hs.cs1) := by
  unfold TS.ofHandshake at h
  split at h
  · simp at h
  · simp at h; subst h; simp [sendCs, recvCs]

end SnowVerif.Theorems.C04
