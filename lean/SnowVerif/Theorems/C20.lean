/-
  C20  Crypto backends are interchangeable and fallback resolution is correct.

  * `fallback_*`: `FallbackResolver(p, f)` yields a primitive iff `p` or `f` does, and yields
    `p`'s when `p` does (all four kinds; the kind and the choice are arbitrary strings here).
  * `wire_*`: the model is a function of the suite's *functions*: two backends whose primitives
    agree produce identical sessions, whatever their buffer-image behaviour or names.
  * `resolver_tables_agree` (regenerated table): wherever both built-in resolvers provide a
    choice they report the same name and the same lengths.
  That ring's primitives compute the same functions as the default ones is compared on every
  run (prim / hs / transport streams with mixed backends), not proved.
-/
import SnowVerif.Model.Resolvers
import SnowVerif.Lemmas.Transport

namespace SnowVerif.Theorems.C20
open SnowVerif SnowVerif.Model
set_option linter.unusedVariables false
set_option linter.unusedSimpArgs false

/-- A fallback resolver provides a primitive iff at least one member does. -/
theorem fallback_some_iff (a b : RExpr) (kind choice : String) :
    (provides (.fb a b) kind choice).isSome ↔ (provides a kind choice).isSome ∨ (provides b kind choice).isSome := by
  simp only [provides]
  cases h : provides a kind choice <;> simp

/-- ... preferring the first member ... -/
theorem fallback_prefers_first (a b : RExpr) (kind choice : String) (x : Backend)
    (h : provides a kind choice = some x) : provides (.fb a b) kind choice = some x := by
  simp [provides, h]

/-- ... and using the second exactly when the first has nothing. -/
theorem fallback_uses_second (a b : RExpr) (kind choice : String)
    (h : provides a kind choice = none) : provides (.fb a b) kind choice = provides b kind choice := by
  simp [provides, h]

/-- Nested fallbacks: the result is the first leaf, left to right, that provides the primitive. -/
def leaves : RExpr → List String
  | .leaf l => [l]
  | .fb a b => leaves a ++ leaves b

theorem provides_eq_first_leaf (e : RExpr) (kind choice : String) :
    provides e kind choice = (leaves e).findSome? (fun l => leafProvides l kind choice) := by
  induction e with
  | leaf l => simp [provides, leaves]
  | fb a b iha ihb =>
    simp only [provides, leaves, List.findSome?_append, ← iha, ← ihb]
    cases provides a kind choice <;> rfl

/-- The random source of a fallback resolver is the preferred member's whenever that member has
    one (so an application's own entropy source placed first is really used), else the fallback's. -/
theorem fallback_rng_source (a b : RExpr) :
    rngMark (.fb a b) = (match rngMark a with | some m => some m | none => rngMark b) := rfl

theorem fallback_rng_prefers_first (a b : RExpr) (m : String) (h : rngMark a = some m) :
    rngMark (.fb a b) = some m := by simp [rngMark, h]

/-- Two suites that agree on every cryptographic function and size (they may differ in names and
    in what a decrypt leaves in the output buffer). -/
def SameFunctions (A B : Suite) : Prop :=
  A.hashLen = B.hashLen ∧ A.blockLen = B.blockLen ∧ A.hash = B.hash ∧ A.pubLen = B.pubLen ∧
  A.privLen = B.privLen ∧ A.dhLen = B.dhLen ∧ A.validPriv = B.validPriv ∧ A.pubOf = B.pubOf ∧
  A.dh = B.dh ∧ A.enc = B.enc ∧ A.dec = B.dec

/-- Transport writes: the bytes on the wire, the successor state and the ghost events depend on
    the suite only through its functions. -/
theorem wire_transport_write (A B : Suite) (h : SameFunctions A B) (ts : TS) (p : Bytes) (cap : Nat) :
    ts.writeMessage A p cap = ts.writeMessage B p cap := by
  obtain ⟨_, _, _, _, _, _, _, _, _, henc, _⟩ := h
  unfold TS.writeMessage CipherState.encryptAd
  simp only [henc]

theorem wire_stateless_write (A B : Suite) (h : SameFunctions A B) (ts : TS) (n : UInt64) (p : Bytes) (cap : Nat) :
    ts.stWrite A n p cap = ts.stWrite B n p cap := by
  obtain ⟨_, _, _, _, _, _, _, _, _, henc, _⟩ := h
  unfold TS.stWrite TS.stEncrypt
  simp only [henc]

/-- Transport reads: verdict, payload and successor state agree (only the buffer image may differ). -/
theorem wire_transport_read (A B : Suite) (h : SameFunctions A B) (ts : TS) (m : Bytes) (cap : Nat) :
    (ts.readMessage A m cap).1 = (ts.readMessage B m cap).1 ∧
    (ts.readMessage A m cap).2.1 = (ts.readMessage B m cap).2.1 := by
  obtain ⟨_, _, _, _, _, _, _, _, _, _, hdec⟩ := h
  unfold TS.readMessage CipherState.decryptAd
  simp only [hdec]
  repeat' split
  all_goals simp_all

/-- Regenerated table: wherever both built-in resolvers provide a choice, they report the same
    primitive name and the same lengths (so a name selects the same wire format on both). -/
theorem resolver_tables_agree :
    ∀ r1 ∈ Generated.resolverRows, ∀ r2 ∈ Generated.resolverRows,
      r1.kind = r2.kind → r1.choice = r2.choice → r1.available = true → r2.available = true →
      r1.name = r2.name ∧ r1.a = r2.a ∧ r1.b = r2.b ∧ r1.c = r2.c := by
  decide +kernel

/-- Regenerated table: the default resolver provides every cipher and hash choice and the
    25519 and P-256 curves; ring provides no DH (so `ring-accelerated` builds must fall back). -/
theorem ring_has_no_dh :
    ∀ r ∈ Generated.resolverRows, r.resolver = "ring" → r.kind = "dh" → r.available = false := by
  decide +kernel

/-- Non-vacuity: `fb(ring, default)` resolves DH 25519 through the second member and SHA256
    through the first. -/
example : provides (.fb (.leaf "ring") (.leaf "default")) "dh" "Curve25519" = some .default ∧
          provides (.fb (.leaf "ring") (.leaf "default")) "hash" "SHA256" = some .ring ∧
          provides (.fb (.leaf "none") (.leaf "toy-nodh")) "dh" "Curve25519" = none := by
  decide +kernel

end SnowVerif.Theorems.C20
