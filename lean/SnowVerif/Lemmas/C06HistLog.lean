/-
  C06 over histories, abstract part: more consequences of `Discipline` (Lemmas/C06Log.lean) and
  the *history log* `List HEv`: the ghost log of a whole history of API calls of one endpoint,
  in which every call starts with a `callStart` marker and every failed handshake call ends with a
  `restore key n` marker (the repaired `write_message` / `read_message` put the checkpointed
  key and nonce back into the handshake cipher).  A `restore` is told apart from a KDF
  installation (`HEv.g (GEv.install key 0)`).
-/
import SnowVerif.Lemmas.C06Cipher

namespace SnowVerif.C06
open SnowVerif SnowVerif.Model
set_option linter.unusedVariables false
set_option linter.unusedSimpArgs false

/-- Installation markers. -/
def GEv.isInst : GEv → Bool
  | .install _ _ => true
  | .ev _ => false

/-- No installation marker at all. -/
def NoInst (g : List GEv) : Prop := ∀ x ∈ g, GEv.isInst x = false

theorem NoInst.nil : NoInst [] := by intro x hx; cases hx

theorem NoInst.append {g1 g2 : List GEv} (h1 : NoInst g1) (h2 : NoInst g2) : NoInst (g1 ++ g2) := by
  intro x hx
  rcases List.mem_append.mp hx with h | h
  · exact h1 x h
  · exact h2 x h

theorem NoInst.left {g1 g2 : List GEv} (h : NoInst (g1 ++ g2)) : NoInst g1 :=
  fun x hx => h x (List.mem_append_left _ hx)

theorem NoInst.right {g1 g2 : List GEv} (h : NoInst (g1 ++ g2)) : NoInst g2 :=
  fun x hx => h x (List.mem_append_right _ hx)

theorem NoInst.map_ev (l : List Event) : NoInst (l.map .ev) := by
  intro x hx
  obtain ⟨e, _, rfl⟩ := List.mem_map.mp hx
  rfl

theorem NoInst.not_mem {g : List GEv} (h : NoInst g) (k : Bytes) (n : UInt64) : GEv.install k n ∉ g := by
  intro hm
  have := h _ hm
  simp [GEv.isInst] at this

namespace Discipline

/-- If the key a disciplined log ends with is never installed in it, nothing at all is installed in
    it: the key is the one it started with and the counter did not go down. -/
theorem no_install_end {k : Bytes} {n : Nat} {g : List GEv} {k' : Bytes} {n' : Nat}
    (h : Discipline k n g k' n') (hno : ∀ nn, GEv.install k' nn ∉ g) :
    NoInst g ∧ k = k' ∧ n ≤ n' := by
  induction g generalizing k n with
  | nil => exact ⟨NoInst.nil, h.1.symm, h.2⟩
  | cons x g ih =>
    have hno' : ∀ nn, GEv.install k' nn ∉ g := fun nn hm => hno nn (List.mem_cons_of_mem _ hm)
    cases x with
    | install kk nn =>
      have := (ih h hno').2.1
      subst this
      exact absurd List.mem_cons_self (hno nn)
    | ev e =>
      have cons_ok : NoInst g → NoInst (GEv.ev e :: g) := by
        intro hg x hx
        rcases List.mem_cons.mp hx with rfl | hx
        · rfl
        · exact hg x hx
      cases e with
      | dec a b c d f => have := ih h hno'; exact ⟨cons_ok this.1, this.2⟩
      | rng d => have := ih h hno'; exact ⟨cons_ok this.1, this.2⟩
      | enc kk nn ad pt =>
        simp only [Discipline] at h
        by_cases c : nn = MAXN
        · simp only [c, ↓reduceIte] at h
          have := ih h.2.2.2 hno'; exact ⟨cons_ok this.1, this.2⟩
        · simp only [c, ↓reduceIte] at h
          have := ih h.2.2 hno'
          exact ⟨cons_ok this.1, this.2.1, by omega⟩

/-- A disciplined log without installations keeps the key; the counter does not go down. -/
theorem noInst_end {k : Bytes} {n : Nat} {g : List GEv} {k' : Bytes} {n' : Nat}
    (h : Discipline k n g k' n') (hno : NoInst g) : k = k' ∧ n ≤ n' :=
  (no_install_end h (fun nn => hno.not_mem _ _)).2

/-- `key_at` with the information that nothing was installed before the event in the second case. -/
theorem key_at' {k : Bytes} {n : Nat} {g : List GEv} {k' : Bytes} {n' : Nat} (h : Discipline k n g k' n')
    (j : Nat) (k2 : Bytes) (n2 : UInt64) (a p : Bytes) (hj : g[j]? = some (GEv.ev (.enc k2 n2 a p))) :
    (∃ m nn, m < j ∧ g[m]? = some (GEv.install k2 nn)) ∨
    (NoInst (g.take j) ∧ k2 = k ∧ (n2 = MAXN ∨ n ≤ n2.toNat)) := by
  induction g generalizing k n j with
  | nil => simp at hj
  | cons x g ih =>
    cases j with
    | zero =>
      simp only [List.getElem?_cons_zero, Option.some.injEq] at hj
      subst hj
      simp only [Discipline] at h
      right
      refine ⟨by simpa using NoInst.nil, h.1, ?_⟩
      by_cases c : n2 = MAXN
      · exact Or.inl c
      · simp only [c, ↓reduceIte] at h; exact Or.inr h.2.1
    | succ j =>
      simp only [List.getElem?_cons_succ] at hj
      have shift : (∃ m nn, m < j ∧ g[m]? = some (GEv.install k2 nn)) →
          (∃ m nn, m < j + 1 ∧ (x :: g)[m]? = some (GEv.install k2 nn)) := by
        rintro ⟨m, nn, hm, hg⟩
        exact ⟨m + 1, nn, by omega, by simpa using hg⟩
      cases x with
      | install kk nn =>
        rcases ih h j hj with hl | ⟨_, hk, _⟩
        · exact Or.inl (shift hl)
        · left; exact ⟨0, nn, by omega, by simp [hk]⟩
      | ev e =>
        have cons_ok : NoInst (g.take j) → NoInst ((GEv.ev e :: g).take (j + 1)) := by
          intro hg x hx
          simp only [List.take_succ_cons] at hx
          rcases List.mem_cons.mp hx with rfl | hx
          · rfl
          · exact hg x hx
        cases e with
        | dec a1 b c d f =>
          rcases ih h j hj with hl | hr
          · exact Or.inl (shift hl)
          · exact Or.inr ⟨cons_ok hr.1, hr.2⟩
        | rng d =>
          rcases ih h j hj with hl | hr
          · exact Or.inl (shift hl)
          · exact Or.inr ⟨cons_ok hr.1, hr.2⟩
        | enc kk nn ad pt =>
          simp only [Discipline] at h
          by_cases c : nn = MAXN
          · simp only [c, ↓reduceIte] at h
            rcases ih h.2.2.2 j hj with hl | hr
            · exact Or.inl (shift hl)
            · exact Or.inr ⟨cons_ok hr.1, hr.2⟩
          · simp only [c, ↓reduceIte] at h
            rcases ih h.2.2 j hj with hl | ⟨hn, hk, hr⟩
            · exact Or.inl (shift hl)
            · right; refine ⟨cons_ok hn, hk, ?_⟩
              rcases hr with hr | hr
              · exact Or.inl hr
              · right; omega

/-- After an encryption under `(k1, n1)`, if `k1` is not installed again, a log that ends with key
    `k1` ends with a counter above `n1`. -/
theorem end_after {k : Bytes} {n : Nat} {g : List GEv} {k' : Bytes} {n' : Nat} (h : Discipline k n g k' n')
    (i : Nat) (k1 : Bytes) (n1 : UInt64) (a p : Bytes) (hi : g[i]? = some (GEv.ev (.enc k1 n1 a p)))
    (hmax : n1 ≠ MAXN) (hno : ∀ nn, GEv.install k1 nn ∉ g.drop (i + 1)) (hk : k' = k1) : n1.toNat < n' := by
  induction g generalizing k n i with
  | nil => simp at hi
  | cons x g ih =>
    cases i with
    | zero =>
      simp only [List.getElem?_cons_zero, Option.some.injEq] at hi
      subst hi
      simp only [Discipline, hmax, ↓reduceIte] at h
      simp only [Nat.zero_add, List.drop_succ_cons, List.drop_zero] at hno
      subst hk
      have := (no_install_end h.2.2 hno).2.2
      omega
    | succ i =>
      simp only [List.getElem?_cons_succ] at hi
      simp only [List.drop_succ_cons] at hno
      cases x with
      | install kk nn => exact ih h i hi hno
      | ev e =>
        cases e with
        | dec a1 b c d f => exact ih h i hi hno
        | rng d => exact ih h i hi hno
        | enc kk nn ad pt =>
          simp only [Discipline] at h
          by_cases c : nn = MAXN
          · simp only [c, ↓reduceIte] at h; exact ih h.2.2.2 i hi hno
          · simp only [c, ↓reduceIte] at h; exact ih h.2.2 i hi hno

end Discipline

/-! ### The history log -/

/-- Entry of a history log: an entry of a call's ghost log (event or KDF installation), the
    restoration of the checkpointed key and nonce at the end of a failed handshake call, or the
    mark where an API call begins. -/
inductive HEv
  | g (x : GEv)
  | restore (key : Bytes) (n : UInt64)
  | callStart
  deriving DecidableEq, Repr

/-- A history log read as a ghost log: a restoration counts as an installation, call marks vanish. -/
def flat : List HEv → List GEv
  | [] => []
  | .g x :: l => x :: flat l
  | .restore k n :: l => .install k n :: flat l
  | .callStart :: l => flat l

theorem flat_append (l1 l2 : List HEv) : flat (l1 ++ l2) = flat l1 ++ flat l2 := by
  induction l1 with
  | nil => rfl
  | cons x l ih => cases x <;> simp [flat, ih]

theorem flat_map_g (g : List GEv) : flat (g.map .g) = g := by
  induction g with
  | nil => rfl
  | cons x g ih => simp [flat, ih]

/-- The events of a history log. -/
def herase (l : List HEv) : List Event := erase (flat l)

theorem herase_append (l1 l2 : List HEv) : herase (l1 ++ l2) = herase l1 ++ herase l2 := by
  simp only [herase, flat_append, erase_append]

/-- Positions of the `GEv` entries of a history log inside its flattening: order preserving. -/
theorem flat_index1 (l : List HEv) (j : Nat) (x : GEv) (h : l[j]? = some (HEv.g x)) :
    ∃ j', j' ≤ j ∧ (flat l)[j']? = some x ∧ (flat l).take j' = flat (l.take j) := by
  induction l generalizing j with
  | nil => simp at h
  | cons y l ih =>
    cases j with
    | zero =>
      simp only [List.getElem?_cons_zero, Option.some.injEq] at h
      subst h
      exact ⟨0, Nat.le_refl _, by simp [flat], by simp [flat]⟩
    | succ j =>
      simp only [List.getElem?_cons_succ] at h
      obtain ⟨j', h1, h2, h3⟩ := ih j h
      cases y with
      | g z => exact ⟨j' + 1, by omega, by simpa [flat] using h2, by simp [flat, h3]⟩
      | restore k n => exact ⟨j' + 1, by omega, by simpa [flat] using h2, by simp [flat, h3]⟩
      | callStart => exact ⟨j', by omega, by simpa [flat] using h2, by simp [flat, h3]⟩

end SnowVerif.C06
