/-
  C07 (reachability), part 3: the invariant `EInv` that every state `Builder::build` returns
  satisfies, that every non-panicking call preserves, and that implies `NoReW` and `SymInv`.

    EInv hs :=  SymInv hs.sym
              ∧ no party writes `e` twice in the rest of the pattern (`onceE`, from the table)
              ∧ (e is on and not fixed → none of the messages this party still has to WRITE
                                           contains `e`)                      (`futE = false`)

  The ephemeral is switched on only by a write of a message that contains `e`; a successful one
  advances the position past that message, and the table fact says this party writes no second
  one; a failed one switches it off again (repaired `write_message`).
-/
import SnowVerif.Lemmas.C07ReachTable
import SnowVerif.Lemmas.C07ReachNoop
import SnowVerif.Lemmas.C10Build

namespace SnowVerif.Lemmas.C07Reach
open SnowVerif SnowVerif.Model SnowVerif.Model.HS SnowVerif.Generated
open SnowVerif.Theorems.C07
set_option autoImplicit false
set_option linter.unusedVariables false
set_option linter.unusedSimpArgs false

/-- The reachable-state invariant behind C07 (see the file header). -/
structure EInv (hs : HS) : Prop where
  sym : SymInv hs.sym
  once : onceE hs.myTurn ((eFlags hs.msgs).drop hs.pos) = true
  fut : hs.e.on = true → hs.fixedE = false → futE hs.myTurn ((eFlags hs.msgs).drop hs.pos) = false

theorem EInv.withRng {hs : HS} (h : EInv hs) (R : Bytes) : EInv { hs with rng := R } :=
  ⟨h.sym, h.once, h.fut⟩

/-- The invariant gives the side condition of the failed-call theorems. -/
theorem EInv.noReW {hs : HS} (h : EInv hs) : NoReW hs := by
  intro ht hon
  cases hfx : hs.fixedE with
  | true => exact Or.inl rfl
  | false =>
    right
    have hfut := h.fut hon hfx
    rw [ht] at hfut
    by_cases hlt : hs.pos < hs.msgs.length
    · rw [eFlags_drop_of_lt _ _ hlt] at hfut
      simp only [futE, Bool.true_and, Bool.or_eq_false_iff] at hfut
      intro hm
      have := List.contains_iff_mem.mpr hm
      rw [hfut.1] at this; cases this
    · rw [getD_of_ge _ _ (by omega)]; simp

/-- The invariant is insensitive to the fields `Equiv` ignores. -/
theorem EInv.of_equiv {a b : HS} (h : EInv a) (he : Equiv a b) (ib : SymInv b.sym) : EInv b := by
  refine ⟨ib, ?_, ?_⟩
  · rw [← he.myTurn, ← he.msgs, ← he.pos]; exact h.once
  · rw [← he.myTurn, ← he.msgs, ← he.pos, ← he.eon, ← he.fixedE]; exact h.fut

/-! ### What a write does to the ephemeral -/

theorem writeToks_e_same (S : Suite) (cap : Nat) (ts : List Tok) (w : WS) (hno : Tok.e ∉ ts) :
    (writeToks S cap ts w).2.hs.e = w.hs.e := by
  induction ts generalizing w with
  | nil => rfl
  | cons t ts ih =>
    have hne : t ≠ .e := by intro heq; exact hno (by rw [heq]; exact List.mem_cons_self)
    have h1 := (writeTok_e_facts S cap w t).2.2 hne
    have h2 := ih (writeTok S cap w t).2 (fun hm => hno (List.mem_cons_of_mem _ hm))
    unfold writeToks
    split
    · exact h2.trans h1
    · exact h1

/-- `_write_message` of a message without an `e` token leaves the local ephemeral alone. -/
theorem writeInner_e_same (S : Suite) (hs : HS) (p : Bytes) (cap : Nat)
    (hno : Tok.e ∉ hs.msgs.getD hs.pos []) : (writeInner S hs p cap).2.hs.e = hs.e := by
  have he := writeToks_e_same S cap (hs.msgs.getD hs.pos []) { hs := hs, acc := [], ev := [] } hno
  unfold writeInner
  simp only
  repeat' split
  all_goals first
    | rfl
    | exact he

/-- A successful `write_message`: the fixed-ephemeral flag is untouched; an ephemeral that was on
    stays on; if the message has no `e` token the ephemeral is untouched. -/
theorem writeMessage_ok_e (S : Suite) (hs : HS) (p : Bytes) (cap : Nat) (n : Nat)
    (hr : (hs.writeMessage S p cap).1 = .ok n) :
    (hs.writeMessage S p cap).2.1.fixedE = hs.fixedE ∧
    (hs.e.on = true → (hs.writeMessage S p cap).2.1.e.on = true) ∧
    (Tok.e ∉ hs.msgs.getD hs.pos [] → (hs.writeMessage S p cap).2.1.e = hs.e) := by
  have hf := writeInner_frame S hs p cap
  have hec := writeInner_e_cs S hs p cap
  have hsame := writeInner_e_same S hs p cap
  simp only at hf hec
  unfold writeMessage at hr ⊢
  simp only at hr ⊢
  cases hw : (writeInner S hs p cap).1 with
  | ok k => exact ⟨hf.2.2.2.2.2.2.2.1, hec.1, hsame⟩
  | err e => simp [hw] at hr
  | panic q => simp [hw] at hr

/-- A successful `read_message` leaves the local ephemeral and the flag alone. -/
theorem readMessage_ok_e (S : Suite) (hs : HS) (m : Bytes) (cap : Nat) (pl : Bytes)
    (hr : (hs.readMessage S m cap).1 = .ok pl) :
    (hs.readMessage S m cap).2.1.fixedE = hs.fixedE ∧ (hs.readMessage S m cap).2.1.e = hs.e := by
  have hf := readInner_frame S hs m cap
  simp only at hf
  unfold readMessage at hr ⊢
  simp only at hr ⊢
  cases hw : (readInner S hs m cap).1 with
  | ok k => exact ⟨hf.2.2.2.2.2.2.2.1, hf.2.2.2.2.2.2.2.2.2.1⟩
  | err e => simp [hw] at hr
  | panic q => simp [hw] at hr

/-! ### Preservation -/

/-- A successful `write_message` preserves the invariant. -/
theorem einv_write_ok (S : Suite) (hs : HS) (h : EInv hs) (p : Bytes) (cap : Nat) (n : Nat)
    (hr : (hs.writeMessage S p cap).1 = .ok n) : EInv (hs.writeMessage S p cap).2.1 := by
  obtain ⟨t1, t2, t3, t4, _, t6, _⟩ := Theorems.C11.write_ok_ctl S hs p cap n
    (hs.writeMessage S p cap).2.1 (hs.writeMessage S p cap).2.2.1 (hs.writeMessage S p cap).2.2.2 (by rw [← hr])
  obtain ⟨e1, e2, e3⟩ := writeMessage_ok_e S hs p cap n hr
  have honce := h.once
  rw [t1, eFlags_drop_of_lt _ _ t2] at honce
  simp only [onceE, Bool.true_and, Bool.not_true, Bool.and_eq_true, Bool.or_eq_true,
    Bool.not_eq_true'] at honce
  refine ⟨writeMessage_inv S hs p cap h.sym, ?_, ?_⟩
  · rw [t3, t4, t6]; exact honce.2
  · intro hon hfx
    rw [t3, t4, t6]
    rw [e1] at hfx
    cases hon0 : hs.e.on with
    | true =>
      have hfut := h.fut hon0 hfx
      rw [t1, eFlags_drop_of_lt _ _ t2] at hfut
      simp only [futE, Bool.true_and, Bool.not_true, Bool.or_eq_false_iff] at hfut
      exact hfut.2
    | false =>
      rcases honce.1 with hc | hc
      · -- the message has no `e`: the ephemeral cannot have been switched on
        have hno : Tok.e ∉ hs.msgs.getD hs.pos [] := by
          intro hm
          have := List.contains_iff_mem.mpr hm
          rw [hc] at this; cases this
        rw [e3 hno, hon0] at hon; cases hon
      · exact hc

/-- A successful `read_message` preserves the invariant. -/
theorem einv_read_ok (S : Suite) (hs : HS) (h : EInv hs) (m : Bytes) (cap : Nat) (pl : Bytes)
    (hr : (hs.readMessage S m cap).1 = .ok pl) : EInv (hs.readMessage S m cap).2.1 := by
  obtain ⟨t1, t2, _, t3, t4, _, t6, _⟩ := Theorems.C11.read_ok_ctl S hs m cap pl
    (hs.readMessage S m cap).2.1 (hs.readMessage S m cap).2.2.1 (hs.readMessage S m cap).2.2.2 (by rw [← hr])
  obtain ⟨e1, e2⟩ := readMessage_ok_e S hs m cap pl hr
  have honce := h.once
  rw [t1, eFlags_drop_of_lt _ _ t2] at honce
  simp only [onceE, Bool.false_and, Bool.not_false, Bool.true_or, Bool.true_and] at honce
  refine ⟨readMessage_inv S hs m cap h.sym, ?_, ?_⟩
  · rw [t3, t4, t6]; exact honce
  · intro hon hfx
    rw [t3, t4, t6]
    rw [e1] at hfx
    rw [e2] at hon
    have hfut := h.fut hon hfx
    rw [t1, eFlags_drop_of_lt _ _ t2] at hfut
    simp only [futE, Bool.false_and, Bool.not_false, Bool.false_or] at hfut
    exact hfut

/-- The outcome of a call is a Rust panic. -/
def _root_.SnowVerif.Theorems.C07.Obs.panicked : Obs → Bool
  | .w r _ _ => r.isPanic
  | .r r _ _ => r.isPanic
  | .p r => r.isPanic

/-- Every call that does not panic (any arguments, success or error) preserves the invariant. -/
theorem einv_exec (S : Suite) (hs : HS) (op : Op) (h : EInv hs)
    (np : Obs.panicked (exec S hs op).1 = false) : EInv (exec S hs op).2 := by
  cases hf : (exec S hs op).1.failed with
  | true =>
    exact h.of_equiv (exec_failed_noop' S hs op h.sym h.noReW hf) (exec_inv S hs op h.sym)
  | false =>
    cases op with
    | write R p cap =>
      simp only [exec] at hf np ⊢
      cases hr : (({ hs with rng := R } : HS).writeMessage S p cap).1 with
      | ok n => exact einv_write_ok S _ (h.withRng R) p cap n hr
      | err e => rw [hr] at hf; simp [Obs.failed] at hf
      | panic q => rw [hr] at np; simp [Obs.panicked, Res.isPanic] at np
    | read m cap =>
      simp only [exec] at hf np ⊢
      cases hr : (hs.readMessage S m cap).1 with
      | ok pl => exact einv_read_ok S hs h m cap pl hr
      | err e => rw [hr] at hf; simp [Obs.failed] at hf
      | panic q => rw [hr] at np; simp [Obs.panicked, Res.isPanic] at np
    | setPsk loc key =>
      simp only [exec, HS.setPsk]
      split
      · exact h
      · exact ⟨h.sym, h.once, h.fut⟩

/-- No call of the history panics. -/
def NoPanics (S : Suite) (hs : HS) (ops : List Op) : Prop :=
  ∀ o ∈ (run S hs ops).1, Obs.panicked o = false

theorem NoPanics.head {S : Suite} {hs : HS} {op : Op} {ops : List Op} (h : NoPanics S hs (op :: ops)) :
    Obs.panicked (exec S hs op).1 = false := h _ (by simp [run])

theorem NoPanics.tail {S : Suite} {hs : HS} {op : Op} {ops : List Op} (h : NoPanics S hs (op :: ops)) :
    NoPanics S (exec S hs op).2 ops := fun o ho => h o (by simp [run, ho])

/-- The invariant holds in every state a panic-free history passes through, and so do the two
    side conditions of the failed-call theorems. -/
theorem einv_along (S : Suite) (ops : List Op) (hs : HS) (h : EInv hs) (np : NoPanics S hs ops) :
    Along EInv S hs ops := by
  induction ops generalizing hs with
  | nil => exact h
  | cons op ops ih => exact ⟨h, ih _ (einv_exec S hs op h np.head) np.tail⟩

theorem Along.mono {P Q : HS → Prop} (hPQ : ∀ hs, P hs → Q hs) (S : Suite) (ops : List Op) (hs : HS)
    (h : Along P S hs ops) : Along Q S hs ops := by
  induction ops generalizing hs with
  | nil => exact hPQ _ h
  | cons op ops ih => exact ⟨hPQ _ h.1, ih _ h.2⟩

theorem Along.last {P : HS → Prop} (S : Suite) (ops : List Op) (hs : HS)
    (h : Along P S hs ops) : P (run S hs ops).2 := by
  induction ops generalizing hs with
  | nil => exact h
  | cons op ops ih => exact ih _ h.2

/-! ### Every built state satisfies the invariant -/

/-- Every `HandshakeState` that `Builder::build` returns (any suite, any resolver availability, any
    configuration: pattern, modifiers, role, keys, fixed ephemeral or not) satisfies the invariant:
    the ephemeral is off, the position is 0, and the message patterns are an instance of a table
    row with psk tokens added. -/
theorem einv_build {S : Suite} {av : Avail} {c : BuildCfg} {hs : HS} (h : build S av c = .ok hs) :
    EInv hs := by
  obtain ⟨inst, sym, hinst, hsym, rfl⟩ := Lemmas.C10.build_ok h
  refine ⟨Lemmas.C10.cfgPre_inv S c inst sym hsym, ?_, ?_⟩
  · exact handshakeTokens_once hinst c.initiator
  · intro hon
    simp only [Lemmas.C10.cfgE] at hon
    cases he : c.eFixed <;> simp [he] at hon

end SnowVerif.Lemmas.C07Reach
