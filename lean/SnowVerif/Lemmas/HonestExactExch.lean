/-
  Honest-run lemmas with the EXACT size conditions (audit finding F3), part 3:
  `PlanOkExact` (the size conditions snow checks, message by message, with the keyedness threaded
  through the handshake as in C14), `honest_exchange_exact`, and `PlanOk → PlanOkExact`.
-/
import SnowVerif.Lemmas.HonestExactMsg

open SnowVerif SnowVerif.Model SnowVerif.Model.HS SnowVerif.Framing
set_option linter.unusedVariables false
set_option linter.unusedSimpArgs false

namespace SnowVerif.Model.HS
open Bytes

/-- **The exact size conditions of a plan.**  `isPsk` is `params.handshake.is_psk()`, `k` the
    `has_key` flag when the first of the messages `msgs` is processed.  For each message `m` with
    payload `p`, writer's buffer `cap` and reader's buffer `capr`:
    the message snow produces (`Framing.msgLen`: public keys, a 16-byte tag per encrypted field,
    nothing for `ee/es/se/ss/psk`) is at most 65535 bytes; the writer's buffer holds the fixed
    fields, the payload and 16 more bytes (the check snow makes, keyed or not); the reader's buffer
    holds the payload.  These are exactly the size checks of `write_message` / `read_message`
    (`C14.write_len`, `C14.write_too_big`, `C01Complete.write_ok_iff`, `read_ok_iff`). -/
def PlanOkExact (S : Suite) (isPsk : Bool) : Bool → List (List Tok) → List (Bytes × Nat × Nat) → Prop
  | _, [], [] => True
  | k, m :: ms, (p, cap, capr) :: rest =>
    msgLen S isPsk m k p.length ≤ 65535 ∧ (fieldsLen S isPsk m k).1 + p.length + 16 ≤ cap ∧
    p.length ≤ capr ∧ PlanOkExact S isPsk (keyedAfter isPsk m k) ms rest
  | _, _, _ => False

theorem tokLen_le (S : Suite) (t : Tok) (k : Bool) : tokLen S t k ≤ S.pubLen + 16 := by
  cases t <;> cases k <;> simp [tokLen]

/-- The fixed fields never need more than the `pubLen + 16` bytes per token that `PlanOk` charges. -/
theorem fieldsLen_le (S : Suite) (isPsk : Bool) (ts : List Tok) (k : Bool) :
    (fieldsLen S isPsk ts k).1 ≤ ts.length * (S.pubLen + 16) := by
  induction ts generalizing k with
  | nil => simp [fieldsLen]
  | cons t ts ih =>
    have h1 := tokLen_le S t k
    have h2 := ih (tokKeyed isPsk t k)
    simp only [fieldsLen, List.length_cons, Nat.add_mul, Nat.one_mul]
    omega

theorem msgLen_le (S : Suite) (isPsk : Bool) (ts : List Tok) (k : Bool) (n : Nat) :
    msgLen S isPsk ts k n ≤ ts.length * (S.pubLen + 16) + n + 16 := by
  have h := fieldsLen_le S isPsk ts k
  unfold msgLen
  split <;> omega

/-- **The old condition is an instance of the exact one**: a plan that fits when every token is
    charged `pubLen + 16` bytes (`PlanOk`) satisfies the exact conditions, whatever the psk mode and
    the keyedness at the start. -/
theorem planOkExact_of_planOk (S : Suite) (isPsk : Bool) (msgs : List (List Tok)) :
    ∀ (k : Bool) (plan : List (Bytes × Nat × Nat)), PlanOk S msgs plan → PlanOkExact S isPsk k msgs plan := by
  induction msgs with
  | nil =>
    intro k plan h
    cases plan with
    | nil => trivial
    | cons x xs => simp [PlanOk] at h
  | cons m ms ih =>
    intro k plan h
    cases plan with
    | nil => simp [PlanOk] at h
    | cons x xs =>
      obtain ⟨p, cap, capr⟩ := x
      simp only [PlanOk] at h
      obtain ⟨h1, h2, h3, h4⟩ := h
      have a := msgLen_le S isPsk m k p.length
      have b := fieldsLen_le S isPsk m k
      exact ⟨by omega, by omega, h3, ih _ xs h4⟩

/-- **The honest exchange of all remaining handshake messages succeeds** and keeps the two parties
    in lockstep, for every suite with the stated laws, every instance whose remaining messages the
    validity rules accept (`Spec.Keys.runMsgs`), every payload/buffer plan that satisfies the EXACT size
    conditions snow checks (`PlanOkExact`, threaded from the initiator's current `has_key`): in particular
    every payload length up to the one that makes the message exactly 65535 bytes long. -/
theorem honest_exchange_exact (S : Suite) (hEL : S.EncLen) (hDE : S.DecEnc) (hPL : S.PubLen) (hPT : S.PrivTotal)
    (hDC : S.DhComm) (hDT : S.DhTotal) (rem : List (List Tok)) :
    ∀ (ini : Bool) (k kf : Spec.Keys) (A B : HS) (plan : List (Bytes × Nat × Nat)),
      Sync S k A B → Ctl A B → PartyOk S A → PartyOk S B →
      A.myTurn = ini → B.myTurn = !ini → A.pos ≤ A.msgs.length →
      A.msgs.drop A.pos = rem →
      Spec.Keys.runMsgs ini k rem = some kf →
      StaticsOk ini rem A.s.on B.s.on →
      (∀ n m, m ∈ rem → Tok.psk n ∈ m → n < 10 ∧ ∃ key, A.psks.getD n none = some key) →
      A.sym.cs.n.toNat + totalFields rem < 2 ^ 64 - 1 →
      PlanOkExact S A.isPsk A.sym.hasKey rem plan →
      ∃ A' B', exchange S ini A B plan = some (A', B') ∧ Sync S kf A' B' ∧ Ctl A' B' ∧
        A'.pos = A.msgs.length ∧ A'.msgs = A.msgs ∧ PartyOk S A' ∧ PartyOk S B' ∧
        A'.s = A.s ∧ B'.s = B.s ∧
        (rem ≠ [] → A'.cs1 = (A'.sym.split S).1 ∧ A'.cs2 = (A'.sym.split S).2) := by
  induction rem with
  | nil =>
    intro ini k kf A B plan h c okA okB ht1 ht2 hple hrem hk hst hpsk hn hplan
    cases plan with
    | cons x xs => simp [PlanOkExact] at hplan
    | nil =>
      simp only [Spec.Keys.runMsgs, Option.some.injEq] at hk
      subst hk
      have hpos : A.pos ≥ A.msgs.length := by
        apply Classical.byContradiction
        intro hlt
        have : A.pos < A.msgs.length := by omega
        have h1 := List.drop_eq_getElem_cons this
        rw [h1] at hrem; simp at hrem
        omega
      exact ⟨A, B, rfl, h, c, by omega, rfl, okA, okB, rfl, rfl, fun hne => absurd rfl hne⟩
  | cons m rest ih =>
    intro ini k kf A B plan h c okA okB ht1 ht2 hple hrem hk hst hpsk hn hplan
    obtain ⟨hlt, hget, hdrop⟩ := drop_cons_facts A.msgs A.pos m rest [] hrem
    cases plan with
    | nil => simp [PlanOkExact] at hplan
    | cons x xs =>
      obtain ⟨p, cap, capr⟩ := x
      simp only [PlanOkExact] at hplan
      obtain ⟨hmax, hcap, hcapr, hplan'⟩ := hplan
      simp only [Spec.Keys.runMsgs] at hk
      cases hk1 : k.runMsg ini m with
      | none => rw [hk1] at hk; simp at hk
      | some k1 =>
        rw [hk1] at hk
        simp only [Option.bind_some] at hk
        simp only [totalFields] at hn
        cases ini with
        | true =>
          simp only [StaticsOk] at hst
          obtain ⟨hsA, hst'⟩ := hst
          have hM := msgA_exact S hEL hDE hPL hPT hDC hDT h c okA okB ht1 (by simpa using ht2) hlt
            (by rw [hget]; exact hk1) (by rw [hget]; exact hsA)
            (fun n hm => by rw [hget] at hm; exact hpsk n m List.mem_cons_self hm)
            (by rw [hget]; omega) p cap capr (by rw [hget]; exact hcap) (by rw [hget]; exact hmax) hcapr
          obtain ⟨m1, m2, m3, m4, m5, m6, m7, m8, m9, m10, m11, m12, m13, m14, m15⟩ := hM
          -- keyedness and psk mode of the writer's successor: what `PlanOkExact` threads
          have hkA := writeMessage_ok_keyed S A p cap _ m1
          rw [hget] at hkA
          obtain ⟨A', B', hex, hs', hc', hp', hm', hoA, hoB, hsA', hsB', hcs⟩ :=
            ih false k1 kf _ _ xs m3 m4 m5 m6 m7 (by rw [m8]; rfl) (by rw [m9, m10]; omega)
              (by rw [m10, m9]; exact hdrop) hk
              (by rw [m11, m12]; exact hst')
              (fun n mm hmm hn' => by rw [m13]; exact hpsk n mm (List.mem_cons_of_mem _ hmm) hn')
              (by rw [hget] at m14; omega) (by rw [hkA.1, hkA.2]; exact hplan')
          refine ⟨A', B', ?_, hs', hc', by rw [hp', m10], by rw [hm', m10], hoA, hoB, by rw [hsA', m11],
            by rw [hsB', m12], fun _ => ?_⟩
          · simp only [exchange, m1, m2, and_self, ↓reduceIte]; exact hex
          · cases rest with
            | cons r rs => exact hcs (by simp)
            | nil =>
              -- this was the last message: the exchange of nothing more leaves the states as they are
              have hxs : xs = [] := by cases xs with | nil => rfl | cons y ys => simp [PlanOkExact] at hplan'
              subst hxs
              simp only [exchange, Option.some.injEq, Prod.mk.injEq] at hex
              have hlast : A.pos = A.msgs.length - 1 := by
                have : A.msgs.drop (A.pos + 1) = [] := hdrop
                have := List.drop_eq_nil_iff.mp this
                omega
              rw [← hex.1]
              exact m15 hlast
        | false =>
          simp only [StaticsOk] at hst
          obtain ⟨hsB, hst'⟩ := hst
          have hltB : B.pos < B.msgs.length := by rw [← c.pos, ← c.msgs]; exact hlt
          have hgetB : B.msgs.getD B.pos [] = m := by rw [← c.pos, ← c.msgs]; exact hget
          have hnB : B.sym.cs.n.toNat = A.sym.cs.n.toNat := by rw [h.sym]
          have hM := msgB_exact S hEL hDE hPL hPT hDC hDT h c okA okB (by simpa using ht2) ht1 hltB
            (by rw [hgetB]; exact hk1) (by rw [hgetB]; exact hsB)
            (fun n hm => by rw [hgetB] at hm; exact hpsk n m List.mem_cons_self hm)
            (by rw [hgetB, hnB]; omega) p cap capr
            (by rw [hgetB, ← h.isPsk, ← h.sym]; exact hcap) (by rw [hgetB, ← h.isPsk, ← h.sym]; exact hmax) hcapr
          obtain ⟨m1, m2, m3, m4, m5, m6, m7, m8, m9, m10, m11, m12, m13, m14, m15⟩ := hM
          have hkB := writeMessage_ok_keyed S B p cap _ m1
          rw [hgetB, ← h.isPsk, ← h.sym] at hkB
          -- new A is the reader's successor
          have hAmsgs : (A.readMessage S (B.writeMessage S p cap).2.2.1 capr).2.1.msgs = A.msgs := by
            rw [m4.msgs, m10, c.msgs]
          have hApos : (A.readMessage S (B.writeMessage S p cap).2.2.1 capr).2.1.pos = A.pos + 1 := by
            rw [m4.pos, m9, c.pos]
          have hApsks : (A.readMessage S (B.writeMessage S p cap).2.2.1 capr).2.1.psks = A.psks := by
            rw [m3.psks, m13, h.psks]
          have hAn : (A.readMessage S (B.writeMessage S p cap).2.2.1 capr).2.1.sym.cs.n.toNat ≤
              A.sym.cs.n.toNat + m.length + 1 := by
            rw [m3.sym, ← hnB]; rw [hgetB] at m14; exact m14
          obtain ⟨A', B', hex, hs', hc', hp', hm', hoA, hoB, hsA', hsB', hcs⟩ :=
            ih true k1 kf _ _ xs m3 m4 m6 m5 m8 (by rw [m7]; rfl) (by rw [hApos, hAmsgs]; omega)
              (by rw [hAmsgs, hApos]; exact hdrop) hk
              (by rw [m12, m11]; exact hst')
              (fun n mm hmm hn' => by rw [hApsks]; exact hpsk n mm (List.mem_cons_of_mem _ hmm) hn')
              (by omega) (by rw [m3.sym, m3.isPsk, hkB.1, hkB.2]; exact hplan')
          refine ⟨A', B', ?_, hs', hc', by rw [hp', hAmsgs], by rw [hm', hAmsgs], hoA, hoB, by rw [hsA', m12],
            by rw [hsB', m11], fun _ => ?_⟩
          · simp only [exchange, m1, m2, and_self, ↓reduceIte]; exact hex
          · cases rest with
            | cons r rs => exact hcs (by simp)
            | nil =>
              have hxs : xs = [] := by cases xs with | nil => rfl | cons y ys => simp [PlanOkExact] at hplan'
              subst hxs
              simp only [exchange, Option.some.injEq, Prod.mk.injEq] at hex
              have hlast : B.pos = B.msgs.length - 1 := by
                have : A.msgs.drop (A.pos + 1) = [] := hdrop
                have := List.drop_eq_nil_iff.mp this
                rw [← c.pos, ← c.msgs]; omega
              have hB := m15 hlast
              rw [← hex.1, m4.cs1, m4.cs2, m3.sym]
              exact hB


end SnowVerif.Model.HS
