/-
  C14: the length invariant of `_write_message` (handshakestate.rs): after each token the
  running `byte_index` (`acc.length`) is the length `Framing.fieldsLen` predicts, `has_key`
  is the keyedness it predicts, and the bytes written never exceed the buffer.
-/
import SnowVerif.Lemmas.Handshake
import SnowVerif.Lemmas.C14Len

open SnowVerif SnowVerif.Model SnowVerif.Framing
set_option linter.unusedVariables false
set_option linter.unusedSimpArgs false

namespace SnowVerif.Model.Sym

/-- `encrypt_and_mix_hash` never changes `has_key`. -/
theorem encrypt_hasKey (S : Suite) (st : Sym) (pt : Bytes) (cap : Nat) :
    (st.encryptAndMixHash S pt cap).2.1.hasKey = st.hasKey := by
  unfold encryptAndMixHash
  simp only
  repeat' split
  all_goals rfl

/-- A successful `encrypt_and_mix_hash` wrote the plaintext length plus a tag when keyed, and
    that many bytes fit the output slice. -/
theorem encrypt_ok_len (S : Suite) (hE : S.EncLen) (st : Sym) (pt : Bytes) (cap : Nat) (c : Bytes)
    (h : (st.encryptAndMixHash S pt cap).1 = .ok c) :
    c.length = pt.length + (if st.hasKey then 16 else 0) ∧ c.length ≤ cap := by
  unfold encryptAndMixHash at h
  cases hk : st.hasKey with
  | true =>
    simp only [hk, ↓reduceIte] at h
    cases hr : st.cs.encryptAd S st.h pt cap with
    | mk r rest =>
      obtain ⟨cs', ev⟩ := rest
      rw [hr] at h
      simp only at h
      subst h
      obtain ⟨_, _, hc, rfl, _, _⟩ := CipherState.encryptAd_ok hr
      rw [hE]
      simp only [↓reduceIte]
      exact ⟨trivial, hc⟩
  | false =>
    simp only [hk, Bool.false_eq_true, ↓reduceIte] at h
    split at h
    · simp at h
    · simp only [Res.ok.injEq] at h
      subst h
      simp only [Bool.false_eq_true, ↓reduceIte]
      omega

/-- The bytes `encrypt_and_mix_hash` writes never exceed the output slice, whatever the outcome. -/
theorem okBytes_le (S : Suite) (hE : S.EncLen) (st : Sym) (pt : Bytes) (cap : Nat) :
    (okBytes (st.encryptAndMixHash S pt cap).1).length ≤ cap := by
  cases hr : (st.encryptAndMixHash S pt cap).1 with
  | ok c => exact (encrypt_ok_len S hE st pt cap c hr).2
  | err e => simp [okBytes]
  | panic q => simp [okBytes]

/-- With enough room `encrypt_and_mix_hash` does not depend on the size of the output slice. -/
theorem encrypt_cap_indep (S : Suite) (st : Sym) (pt : Bytes) (c1 c2 : Nat)
    (h1 : pt.length + (if st.hasKey then 16 else 0) ≤ c1)
    (h2 : pt.length + (if st.hasKey then 16 else 0) ≤ c2) :
    st.encryptAndMixHash S pt c1 = st.encryptAndMixHash S pt c2 := by
  unfold encryptAndMixHash
  cases hk : st.hasKey with
  | true =>
    simp only [hk, ↓reduceIte] at h1 h2 ⊢
    have : st.cs.encryptAd S st.h pt c1 = st.cs.encryptAd S st.h pt c2 := by
      unfold CipherState.encryptAd
      have a1 : ¬ c1 < pt.length + 16 := by omega
      have a2 : ¬ c2 < pt.length + 16 := by omega
      simp only [a1, a2, ↓reduceIte]
    rw [this]
  | false =>
    simp only [hk, Bool.false_eq_true, ↓reduceIte, Nat.add_zero] at h1 h2 ⊢
    have a1 : ¬ c1 < pt.length := by omega
    have a2 : ¬ c2 < pt.length := by omega
    simp only [a1, a2, ↓reduceIte]

/-- With enough room `encrypt_and_mix_hash` does not panic. -/
theorem encrypt_no_panic (S : Suite) (st : Sym) (pt : Bytes) (cap : Nat) (q : String)
    (h1 : pt.length + (if st.hasKey then 16 else 0) ≤ cap) :
    (st.encryptAndMixHash S pt cap).1 ≠ .panic q := by
  unfold encryptAndMixHash
  cases hk : st.hasKey with
  | true =>
    simp only [hk, ↓reduceIte] at h1 ⊢
    unfold CipherState.encryptAd
    have a1 : ¬ cap < pt.length + 16 := by omega
    simp only [a1, ↓reduceIte]
    repeat' split
    all_goals simp
  | false =>
    simp only [hk, Bool.false_eq_true, ↓reduceIte, Nat.add_zero] at h1 ⊢
    have a1 : ¬ cap < pt.length := by omega
    simp [a1]

/-- `decrypt_and_mix_hash` never changes `has_key`. -/
theorem decrypt_hasKey (S : Suite) (st : Sym) (d : Bytes) (cap : Nat) :
    (st.decryptAndMixHash S d cap).2.1.hasKey = st.hasKey := by
  unfold decryptAndMixHash
  simp only
  repeat' split
  all_goals rfl

end SnowVerif.Model.Sym

namespace SnowVerif.Model.HS

/-- Panic-freedom side conditions on the local keys (true of every built state): the static
    public key has `pub_len` bytes, and so has the ephemeral one when it is the fixed testing key
    (a generated one has by `PubLen`). -/
def KeysWf (S : Suite) (hs : HS) : Prop :=
  hs.s.val.pub.length = S.pubLen ∧ (hs.fixedE = true → hs.e.val.pub.length = S.pubLen)

theorem pskStep_hasKey (S : Suite) (hs : HS) (n : Nat) : (pskStep S hs n).2.sym.hasKey = hs.sym.hasKey := by
  unfold pskStep
  repeat' split
  all_goals rfl

theorem pskStep_e (S : Suite) (hs : HS) (n : Nat) : (pskStep S hs n).2.e = hs.e := by
  unfold pskStep
  repeat' split
  all_goals rfl

theorem dhStep_hasKey (S : Suite) (hs : HS) (t : Tok) (h : (dhStep S hs t).1 = .ok ()) :
    (dhStep S hs t).2.sym.hasKey = true := by
  unfold dhStep at h ⊢
  split at h
  · simp only [*]; rfl
  · simp at h
  · simp at h

theorem dhStep_e (S : Suite) (hs : HS) (t : Tok) : (dhStep S hs t).2.e = hs.e := by
  unfold dhStep
  repeat' split
  all_goals rfl

/-- The successor working state of the `Token::E` arm once the key pair is determined. -/
def eStep (S : Suite) (w : WS) (kp : KeyPair) (rng' : Bytes) (ev : List Event) : WS :=
  { hs := { w.hs with e := { val := kp, on := true }, rng := rng',
                      sym := (if w.hs.isPsk then (w.hs.sym.mixHash S kp.pub).mixKey S kp.pub
                              else w.hs.sym.mixHash S kp.pub) },
    acc := w.acc ++ kp.pub, ev := w.ev ++ ev }

theorem writeTok_e_eq (S : Suite) (cap : Nat) (w : WS) :
    writeTok S cap w .e =
      if w.acc.length + S.pubLen > cap then (.err .input, w)
      else if w.hs.fixedE then (.ok (), eStep S w w.hs.e.val w.hs.rng [])
      else if S.validPriv (rngDraw w.hs.rng S.privLen).1 then
        (.ok (), eStep S w { priv := (rngDraw w.hs.rng S.privLen).1, pub := S.pubOf (rngDraw w.hs.rng S.privLen).1 }
                   (rngDraw w.hs.rng S.privLen).2 [.rng (rngDraw w.hs.rng S.privLen).1])
      else (.panic "Dh::generate: invalid private key", w) := by
  unfold writeTok eStep
  by_cases h1 : w.acc.length + S.pubLen > cap
  · simp [h1]
  · cases h2 : w.hs.fixedE
    · cases h3 : S.validPriv (rngDraw w.hs.rng S.privLen).1 <;> simp [h1, h2, h3]
    · simp [h1, h2]

theorem writeTok_s_eq (S : Suite) (cap : Nat) (w : WS) :
    writeTok S cap w .s =
      if !w.hs.s.on then (.err (.state .missingKeyMaterial), w)
      else if w.acc.length + S.pubLen + (if w.hs.sym.hasKey then 16 else 0) > cap then (.err .input, w)
      else
        ((w.hs.sym.encryptAndMixHash S w.hs.s.val.pub (cap - w.acc.length)).1.toUnit,
         { hs := { w.hs with sym := (w.hs.sym.encryptAndMixHash S w.hs.s.val.pub (cap - w.acc.length)).2.1 },
           acc := w.acc ++ Sym.okBytes (w.hs.sym.encryptAndMixHash S w.hs.s.val.pub (cap - w.acc.length)).1,
           ev := w.ev ++ (w.hs.sym.encryptAndMixHash S w.hs.s.val.pub (cap - w.acc.length)).2.2 }) := by
  unfold writeTok
  rfl

theorem writeTok_psk_eq (S : Suite) (cap : Nat) (w : WS) (n : Nat) :
    writeTok S cap w (.psk n) = ((pskStep S w.hs n).1, { w with hs := (pskStep S w.hs n).2 }) := by
  unfold writeTok; rfl

theorem writeTok_dh_eq (S : Suite) (cap : Nat) (w : WS) (t : Tok)
    (ht : t = .ee ∨ t = .es ∨ t = .se ∨ t = .ss) :
    writeTok S cap w t = ((dhStep S w.hs t).1, { w with hs := (dhStep S w.hs t).2 }) := by
  rcases ht with rfl | rfl | rfl | rfl <;> (unfold writeTok; rfl)

/-- One token of `_write_message`, successful: bytes written and keyedness. -/
theorem writeTok_len (S : Suite) (hE : S.EncLen) (hP : S.PubLen) (cap : Nat) (w : WS) (t : Tok)
    (hw : KeysWf S w.hs) (h : (writeTok S cap w t).1 = .ok ()) :
    (writeTok S cap w t).2.acc.length = w.acc.length + tokLen S t w.hs.sym.hasKey ∧
    (writeTok S cap w t).2.hs.sym.hasKey = tokKeyed w.hs.isPsk t w.hs.sym.hasKey := by
  cases t with
  | e =>
    rw [writeTok_e_eq] at h ⊢
    by_cases hcap : w.acc.length + S.pubLen > cap
    · simp [hcap] at h
    · simp only [hcap, ↓reduceIte] at h ⊢
      cases hf : w.hs.fixedE with
      | true =>
        have hl := hw.2 hf
        simp only [↓reduceIte, eStep, List.length_append, hl, tokLen, tokKeyed]
        refine ⟨trivial, ?_⟩
        cases w.hs.isPsk <;> simp [Sym.mixKey, Sym.mixHash]
      | false =>
        simp only [hf, Bool.false_eq_true, ↓reduceIte] at h ⊢
        cases hv : S.validPriv (rngDraw w.hs.rng S.privLen).1 with
        | false => simp [hv] at h
        | true =>
          simp only [↓reduceIte, eStep, List.length_append, hP _, tokLen, tokKeyed]
          refine ⟨trivial, ?_⟩
          cases w.hs.isPsk <;> simp [Sym.mixKey, Sym.mixHash]
  | s =>
    rw [writeTok_s_eq] at h ⊢
    by_cases hon : (!w.hs.s.on) = true
    · simp [hon] at h
    · by_cases hcap : w.acc.length + S.pubLen + (if w.hs.sym.hasKey then 16 else 0) > cap
      · simp [hon, hcap] at h
      · simp only [hon, hcap, ↓reduceIte, Bool.false_eq_true] at h ⊢
        cases hr : (w.hs.sym.encryptAndMixHash S w.hs.s.val.pub (cap - w.acc.length)).1 with
        | ok c =>
          have hl := Sym.encrypt_ok_len S hE _ _ _ c hr
          have hs1 := hw.1
          simp only [Sym.okBytes, List.length_append, tokLen, tokKeyed, Sym.encrypt_hasKey]
          exact ⟨by omega, trivial⟩
        | err e => simp [hr, Res.toUnit] at h
        | panic q => simp [hr, Res.toUnit] at h
  | psk n =>
    rw [writeTok_psk_eq]
    simp only [pskStep_hasKey, tokLen, tokKeyed, Nat.add_zero, and_self]
  | ee =>
    rw [writeTok_dh_eq S cap w _ (by simp)] at h ⊢
    simp only [tokLen, tokKeyed, Nat.add_zero, true_and]
    exact dhStep_hasKey S w.hs _ h
  | es =>
    rw [writeTok_dh_eq S cap w _ (by simp)] at h ⊢
    simp only [tokLen, tokKeyed, Nat.add_zero, true_and]
    exact dhStep_hasKey S w.hs _ h
  | se =>
    rw [writeTok_dh_eq S cap w _ (by simp)] at h ⊢
    simp only [tokLen, tokKeyed, Nat.add_zero, true_and]
    exact dhStep_hasKey S w.hs _ h
  | ss =>
    rw [writeTok_dh_eq S cap w _ (by simp)] at h ⊢
    simp only [tokLen, tokKeyed, Nat.add_zero, true_and]
    exact dhStep_hasKey S w.hs _ h

/-- One token of `_write_message`, any outcome: the bytes written stay within the buffer. -/
theorem writeTok_fit (S : Suite) (hE : S.EncLen) (hP : S.PubLen) (cap : Nat) (w : WS) (t : Tok)
    (hfe : w.hs.fixedE = true → w.hs.e.val.pub.length = S.pubLen) (h0 : w.acc.length ≤ cap) :
    (writeTok S cap w t).2.acc.length ≤ cap := by
  cases t with
  | e =>
    rw [writeTok_e_eq]
    by_cases hcap : w.acc.length + S.pubLen > cap
    · simp [hcap, h0]
    · simp only [hcap, ↓reduceIte]
      cases hf : w.hs.fixedE with
      | true =>
        have hl := hfe hf
        simp only [↓reduceIte, eStep, List.length_append, hl]
        omega
      | false =>
        simp only [Bool.false_eq_true, ↓reduceIte]
        cases hv : S.validPriv (rngDraw w.hs.rng S.privLen).1 with
        | false => simp [h0]
        | true =>
          simp only [↓reduceIte, eStep, List.length_append, hP _]
          omega
  | s =>
    rw [writeTok_s_eq]
    by_cases hon : (!w.hs.s.on) = true
    · simp [hon, h0]
    · by_cases hcap : w.acc.length + S.pubLen + (if w.hs.sym.hasKey then 16 else 0) > cap
      · simp [hon, hcap, h0]
      · simp only [hon, hcap, ↓reduceIte, Bool.false_eq_true, List.length_append]
        have := Sym.okBytes_le S hE w.hs.sym w.hs.s.val.pub (cap - w.acc.length)
        omega
  | psk n => rw [writeTok_psk_eq]; exact h0
  | ee => rw [writeTok_dh_eq S cap w _ (by simp)]; exact h0
  | es => rw [writeTok_dh_eq S cap w _ (by simp)]; exact h0
  | se => rw [writeTok_dh_eq S cap w _ (by simp)]; exact h0
  | ss => rw [writeTok_dh_eq S cap w _ (by simp)]; exact h0

/-- The fixed testing ephemeral keeps its length; a generated one is irrelevant to the condition. -/
theorem writeTok_fixedE_len (S : Suite) (cap : Nat) (w : WS) (t : Tok)
    (hfe : w.hs.fixedE = true → w.hs.e.val.pub.length = S.pubLen) :
    (writeTok S cap w t).2.hs.fixedE = true → (writeTok S cap w t).2.hs.e.val.pub.length = S.pubLen := by
  have hfr := writeTok_frame S cap w t
  rw [hfr.fixedE]
  intro hf
  have hl := hfe hf
  cases t with
  | e =>
    rw [writeTok_e_eq]
    by_cases hcap : w.acc.length + S.pubLen > cap
    · simp [hcap, hl]
    · simp only [hcap, hf, ↓reduceIte, eStep, hl]
  | s =>
    rw [writeTok_s_eq]
    by_cases hon : (!w.hs.s.on) = true
    · simp [hon, hl]
    · by_cases hcap : w.acc.length + S.pubLen + (if w.hs.sym.hasKey then 16 else 0) > cap
      · simp [hon, hcap, hl]
      · simp only [hon, hcap, ↓reduceIte, Bool.false_eq_true, hl]
  | psk n => rw [writeTok_psk_eq]; simp only [pskStep_e, hl]
  | ee => rw [writeTok_dh_eq S cap w _ (by simp)]; simp only [dhStep_e, hl]
  | es => rw [writeTok_dh_eq S cap w _ (by simp)]; simp only [dhStep_e, hl]
  | se => rw [writeTok_dh_eq S cap w _ (by simp)]; simp only [dhStep_e, hl]
  | ss => rw [writeTok_dh_eq S cap w _ (by simp)]; simp only [dhStep_e, hl]

theorem writeTok_wf (S : Suite) (cap : Nat) (w : WS) (t : Tok) (hw : KeysWf S w.hs) :
    KeysWf S (writeTok S cap w t).2.hs := by
  refine ⟨?_, writeTok_fixedE_len S cap w t hw.2⟩
  rw [(writeTok_frame S cap w t).s]; exact hw.1

/-- **Loop invariant of `_write_message`.** When the token loop succeeds, the running byte index
    is the fixed-field length `fieldsLen` predicts and `has_key` is the keyedness it predicts. -/
theorem writeToks_len (S : Suite) (hE : S.EncLen) (hP : S.PubLen) (cap : Nat) (ts : List Tok) (w : WS)
    (hw : KeysWf S w.hs) (h : (writeToks S cap ts w).1 = .ok ()) :
    (writeToks S cap ts w).2.acc.length = w.acc.length + (fieldsLen S w.hs.isPsk ts w.hs.sym.hasKey).1 ∧
    (writeToks S cap ts w).2.hs.sym.hasKey = (fieldsLen S w.hs.isPsk ts w.hs.sym.hasKey).2 := by
  induction ts generalizing w with
  | nil => simp [writeToks, fieldsLen]
  | cons t ts ih =>
    unfold writeToks at h ⊢
    cases hr : (writeTok S cap w t).1 with
    | ok u =>
      simp only [hr] at h ⊢
      have h1 := writeTok_len S hE hP cap w t hw hr
      have h2 := ih (writeTok S cap w t).2 (writeTok_wf S cap w t hw) h
      rw [(writeTok_frame S cap w t).isPsk, h1.1, h1.2] at h2
      simp only [fieldsLen]
      exact ⟨by omega, h2.2⟩
    | err e => simp [hr] at h
    | panic q => simp [hr] at h

/-- **No overrun.** Whatever the outcome of the token loop, the bytes written fit the buffer. -/
theorem writeToks_fit (S : Suite) (hE : S.EncLen) (hP : S.PubLen) (cap : Nat) (ts : List Tok) (w : WS)
    (hfe : w.hs.fixedE = true → w.hs.e.val.pub.length = S.pubLen) (h0 : w.acc.length ≤ cap) :
    (writeToks S cap ts w).2.acc.length ≤ cap := by
  induction ts generalizing w with
  | nil => exact h0
  | cons t ts ih =>
    unfold writeToks
    have h1 := writeTok_fit S hE hP cap w t hfe h0
    split
    · exact ih _ (writeTok_fixedE_len S cap w t hfe) h1
    · exact h1

theorem writeToks_wf (S : Suite) (cap : Nat) (ts : List Tok) (w : WS) (hw : KeysWf S w.hs) :
    KeysWf S (writeToks S cap ts w).2.hs := by
  induction ts generalizing w with
  | nil => exact hw
  | cons t ts ih =>
    unfold writeToks
    have h1 := writeTok_wf S cap w t hw
    split
    · exact ih _ h1
    · exact h1

/-! ### Independence of the buffer size (used to say "no earlier error intervenes") -/

/-- A token that succeeds with one buffer size either behaves identically with another buffer
    size or fails there with `Input`. -/
theorem writeTok_cap (S : Suite) (c1 c2 : Nat) (w : WS) (t : Tok) (hw : KeysWf S w.hs)
    (h : (writeTok S c1 w t).1 = .ok ()) :
    writeTok S c2 w t = writeTok S c1 w t ∨ writeTok S c2 w t = (.err .input, w) := by
  cases t with
  | e =>
    rw [writeTok_e_eq] at h
    rw [writeTok_e_eq, writeTok_e_eq]
    by_cases hc1 : w.acc.length + S.pubLen > c1
    · simp [hc1] at h
    · by_cases hc2 : w.acc.length + S.pubLen > c2
      · right; simp [hc2]
      · left; simp only [hc1, hc2, ↓reduceIte]
  | s =>
    rw [writeTok_s_eq] at h
    rw [writeTok_s_eq, writeTok_s_eq]
    by_cases hon : (!w.hs.s.on) = true
    · simp [hon] at h
    · by_cases hc1 : w.acc.length + S.pubLen + (if w.hs.sym.hasKey then 16 else 0) > c1
      · simp [hon, hc1] at h
      · by_cases hc2 : w.acc.length + S.pubLen + (if w.hs.sym.hasKey then 16 else 0) > c2
        · right; simp [hon, hc2]
        · left
          have hs1 := hw.1
          have := Sym.encrypt_cap_indep S w.hs.sym w.hs.s.val.pub (c2 - w.acc.length) (c1 - w.acc.length)
            (by omega) (by omega)
          simp only [hon, hc1, hc2, ↓reduceIte, Bool.false_eq_true, this]
  | psk n => left; rw [writeTok_psk_eq, writeTok_psk_eq]
  | ee => left; rw [writeTok_dh_eq S c1 w _ (by simp), writeTok_dh_eq S c2 w _ (by simp)]
  | es => left; rw [writeTok_dh_eq S c1 w _ (by simp), writeTok_dh_eq S c2 w _ (by simp)]
  | se => left; rw [writeTok_dh_eq S c1 w _ (by simp), writeTok_dh_eq S c2 w _ (by simp)]
  | ss => left; rw [writeTok_dh_eq S c1 w _ (by simp), writeTok_dh_eq S c2 w _ (by simp)]

/-- If the token loop succeeds with one buffer size, then with any other buffer size it either
    does exactly the same or fails with `Input`. -/
theorem writeToks_cap (S : Suite) (c1 c2 : Nat) (ts : List Tok) (w : WS) (hw : KeysWf S w.hs)
    (h : (writeToks S c1 ts w).1 = .ok ()) :
    writeToks S c2 ts w = writeToks S c1 ts w ∨ (writeToks S c2 ts w).1 = .err .input := by
  induction ts generalizing w with
  | nil => left; rfl
  | cons t ts ih =>
    unfold writeToks at h
    cases hr : (writeTok S c1 w t).1 with
    | ok u =>
      simp only [hr] at h
      rcases writeTok_cap S c1 c2 w t hw hr with he | he
      · rcases ih _ (writeTok_wf S c1 w t hw) h with h2 | h2
        · left
          rw [writeToks, writeToks]
          simp only [he, hr, h2]
        · right
          rw [writeToks]
          simp only [he, hr, h2]
      · right
        rw [writeToks]
        simp only [he]
    | err e => simp [hr] at h
    | panic q => simp [hr] at h

/-! ### `_write_message` as a whole -/

theorem writeInner_turn (S : Suite) (hs : HS) (p : Bytes) (cap : Nat) (n : Nat)
    (h : (writeInner S hs p cap).1 = .ok n) : hs.myTurn = true ∧ hs.pos < hs.msgs.length := by
  have ht1 : hs.myTurn = true := by
    cases ht : hs.myTurn with
    | true => rfl
    | false => unfold writeInner at h; simp [ht] at h
  refine ⟨ht1, ?_⟩
  apply Classical.byContradiction
  intro hge
  have hge' : hs.pos ≥ hs.msgs.length := by omega
  unfold writeInner at h; simp [ht1, hge'] at h

/-- **Length of a successful `_write_message`.** -/
theorem writeInner_ok_len (S : Suite) (hE : S.EncLen) (hP : S.PubLen) (hs : HS) (p : Bytes) (cap : Nat) (n : Nat)
    (hw : KeysWf S hs) (h : (writeInner S hs p cap).1 = .ok n) :
    n = (writeInner S hs p cap).2.acc.length ∧
    n = msgLen S hs.isPsk (hs.msgs.getD hs.pos []) hs.sym.hasKey p.length ∧
    n ≤ 65535 ∧
    (fieldsLen S hs.isPsk (hs.msgs.getD hs.pos []) hs.sym.hasKey).1 + p.length + 16 ≤ cap ∧
    (writeInner S hs p cap).2.hs.sym.hasKey = (fieldsLen S hs.isPsk (hs.msgs.getD hs.pos []) hs.sym.hasKey).2 := by
  obtain ⟨ht, hp⟩ := writeInner_turn S hs p cap n h
  have hp' : ¬ hs.pos ≥ hs.msgs.length := by omega
  unfold writeInner at h ⊢
  simp only [ht, hp', Bool.not_true, Bool.false_eq_true, ↓reduceIte] at h ⊢
  generalize hW : writeToks S cap (hs.msgs.getD hs.pos []) { hs := hs, acc := [], ev := [] } = W at h ⊢
  have hl := writeToks_len S hE hP cap (hs.msgs.getD hs.pos []) { hs := hs, acc := [], ev := [] } hw
  rw [hW] at hl
  simp only [List.length_nil, Nat.zero_add] at hl
  obtain ⟨r, w⟩ := W
  simp only at h hl ⊢
  cases r with
  | err e => simp only [reduceCtorEq] at h
  | panic q => simp only [reduceCtorEq] at h
  | ok u =>
    have hl := hl rfl
    simp only at h ⊢
    by_cases g1 : w.acc.length + p.length + 16 > cap
    · simp only [g1, ↓reduceIte, reduceCtorEq] at h
    · by_cases g2 : w.acc.length + p.length + (if w.hs.sym.hasKey then 16 else 0) > 65535
      · simp only [g1, g2, ↓reduceIte, reduceCtorEq] at h
      · simp only [g1, g2, ↓reduceIte] at h ⊢
        cases he : (w.hs.sym.encryptAndMixHash S p (cap - w.acc.length)).1 with
        | err e => simp only [he, reduceCtorEq] at h
        | panic q => simp only [he, reduceCtorEq] at h
        | ok ct =>
          simp only [he, Res.ok.injEq] at h ⊢
          have hc := Sym.encrypt_ok_len S hE _ _ _ ct he
          rw [hl.1] at g1 g2 h
          rw [hl.2] at g2 hc
          refine ⟨by simp only [List.length_append, hl.1]; omega, by unfold msgLen; omega, by omega, by omega, ?_⟩
          split <;> simp only [Sym.encrypt_hasKey, hl.2]

/-- `has_key` after a successful token, with no assumption on the suite or the keys. -/
theorem writeTok_keyed (S : Suite) (cap : Nat) (w : WS) (t : Tok) (h : (writeTok S cap w t).1 = .ok ()) :
    (writeTok S cap w t).2.hs.sym.hasKey = tokKeyed w.hs.isPsk t w.hs.sym.hasKey := by
  cases t with
  | e =>
    rw [writeTok_e_eq] at h ⊢
    by_cases hcap : w.acc.length + S.pubLen > cap
    · simp [hcap] at h
    · simp only [hcap, ↓reduceIte] at h ⊢
      cases hf : w.hs.fixedE with
      | true =>
        simp only [↓reduceIte, eStep, tokKeyed]
        cases w.hs.isPsk <;> simp [Sym.mixKey, Sym.mixHash]
      | false =>
        simp only [hf, Bool.false_eq_true, ↓reduceIte] at h ⊢
        cases hv : S.validPriv (rngDraw w.hs.rng S.privLen).1 with
        | false => simp [hv] at h
        | true =>
          simp only [↓reduceIte, eStep, tokKeyed]
          cases w.hs.isPsk <;> simp [Sym.mixKey, Sym.mixHash]
  | s =>
    rw [writeTok_s_eq] at h ⊢
    by_cases hon : (!w.hs.s.on) = true
    · simp [hon] at h
    · by_cases hcap : w.acc.length + S.pubLen + (if w.hs.sym.hasKey then 16 else 0) > cap
      · simp [hon, hcap] at h
      · simp only [hon, hcap, ↓reduceIte, Bool.false_eq_true, Sym.encrypt_hasKey, tokKeyed]
  | psk n => rw [writeTok_psk_eq]; simp only [pskStep_hasKey, tokKeyed]
  | ee => rw [writeTok_dh_eq S cap w _ (by simp)] at h ⊢; exact dhStep_hasKey S w.hs _ h
  | es => rw [writeTok_dh_eq S cap w _ (by simp)] at h ⊢; exact dhStep_hasKey S w.hs _ h
  | se => rw [writeTok_dh_eq S cap w _ (by simp)] at h ⊢; exact dhStep_hasKey S w.hs _ h
  | ss => rw [writeTok_dh_eq S cap w _ (by simp)] at h ⊢; exact dhStep_hasKey S w.hs _ h

theorem writeToks_keyed (S : Suite) (cap : Nat) (ts : List Tok) (w : WS) (h : (writeToks S cap ts w).1 = .ok ()) :
    (writeToks S cap ts w).2.hs.sym.hasKey = keyedAfter w.hs.isPsk ts w.hs.sym.hasKey := by
  induction ts generalizing w with
  | nil => rfl
  | cons t ts ih =>
    unfold writeToks at h ⊢
    cases hr : (writeTok S cap w t).1 with
    | ok u =>
      simp only [hr] at h ⊢
      have h2 := ih (writeTok S cap w t).2 h
      rw [(writeTok_frame S cap w t).isPsk, writeTok_keyed S cap w t hr] at h2
      simp only [keyedAfter]
      exact h2
    | err e => simp [hr] at h
    | panic q => simp [hr] at h

/-- `has_key` after a successful `_write_message` (no assumptions). -/
theorem writeInner_keyed (S : Suite) (hs : HS) (p : Bytes) (cap : Nat) (n : Nat)
    (h : (writeInner S hs p cap).1 = .ok n) :
    (writeInner S hs p cap).2.hs.sym.hasKey = keyedAfter hs.isPsk (hs.msgs.getD hs.pos []) hs.sym.hasKey := by
  obtain ⟨ht, hp⟩ := writeInner_turn S hs p cap n h
  have hp' : ¬ hs.pos ≥ hs.msgs.length := by omega
  unfold writeInner at h ⊢
  simp only [ht, hp', Bool.not_true, Bool.false_eq_true, ↓reduceIte] at h ⊢
  have hl := writeToks_keyed S cap (hs.msgs.getD hs.pos []) { hs := hs, acc := [], ev := [] }
  generalize hW : writeToks S cap (hs.msgs.getD hs.pos []) { hs := hs, acc := [], ev := [] } = W at h hl ⊢
  obtain ⟨r, w⟩ := W
  simp only at h hl ⊢
  cases r with
  | err e => simp only [reduceCtorEq] at h
  | panic q => simp only [reduceCtorEq] at h
  | ok u =>
    have hl := hl rfl
    simp only at h ⊢
    by_cases g1 : w.acc.length + p.length + 16 > cap
    · simp only [g1, ↓reduceIte, reduceCtorEq] at h
    · by_cases g2 : w.acc.length + p.length + (if w.hs.sym.hasKey then 16 else 0) > 65535
      · simp only [g1, g2, ↓reduceIte, reduceCtorEq] at h
      · simp only [g1, g2, ↓reduceIte] at h ⊢
        cases he : (w.hs.sym.encryptAndMixHash S p (cap - w.acc.length)).1 with
        | err e => simp only [he, reduceCtorEq] at h
        | panic q => simp only [he, reduceCtorEq] at h
        | ok ct =>
          simp only
          split <;> simp only [Sym.encrypt_hasKey, hl]

/-- **Too big means `Input`.** If the token loop succeeds given enough room (`capM`): no missing
    key or psk, no DH failure, no exhausted nonce; and the message the code would produce exceeds
    65535 bytes or (with the 16 bytes of slack the code demands) the buffer, then `_write_message`
    fails with `Input`. -/
theorem writeInner_too_big (S : Suite) (hE : S.EncLen) (hP : S.PubLen) (hs : HS) (p : Bytes) (cap capM : Nat)
    (hw : KeysWf S hs) (ht : hs.myTurn = true) (hp : hs.pos < hs.msgs.length)
    (hpass : (writeToks S capM (hs.msgs.getD hs.pos []) { hs := hs, acc := [], ev := [] }).1 = .ok ())
    (hbig : msgLen S hs.isPsk (hs.msgs.getD hs.pos []) hs.sym.hasKey p.length > 65535 ∨
            (fieldsLen S hs.isPsk (hs.msgs.getD hs.pos []) hs.sym.hasKey).1 + p.length + 16 > cap) :
    (writeInner S hs p cap).1 = .err .input := by
  have hp' : ¬ hs.pos ≥ hs.msgs.length := by omega
  unfold writeInner
  simp only [ht, hp', Bool.not_true, Bool.false_eq_true, ↓reduceIte]
  rcases writeToks_cap S capM cap (hs.msgs.getD hs.pos []) { hs := hs, acc := [], ev := [] } hw hpass with he | he
  · have hr : (writeToks S cap (hs.msgs.getD hs.pos []) { hs := hs, acc := [], ev := [] }).1 = .ok () := by
      rw [he]; exact hpass
    have hl := writeToks_len S hE hP cap (hs.msgs.getD hs.pos []) { hs := hs, acc := [], ev := [] } hw hr
    simp only [List.length_nil, Nat.zero_add] at hl
    simp only [hr]
    unfold msgLen at hbig
    rw [← hl.1, ← hl.2] at hbig
    by_cases g1 : (writeToks S cap (hs.msgs.getD hs.pos []) { hs := hs, acc := [], ev := [] }).2.acc.length + p.length + 16 > cap
    · simp only [g1, ↓reduceIte]
    · have g2 : (writeToks S cap (hs.msgs.getD hs.pos []) { hs := hs, acc := [], ev := [] }).2.acc.length + p.length +
          (if (writeToks S cap (hs.msgs.getD hs.pos []) { hs := hs, acc := [], ev := [] }).2.hs.sym.hasKey then 16 else 0) > 65535 := by
        rcases hbig with hb | hb
        · exact hb
        · exact absurd hb g1
      simp only [g1, g2, ↓reduceIte]
  · simp only [he]

/-- **No overrun.** Whatever `_write_message` returns, the bytes it wrote fit the buffer. -/
theorem writeInner_fit (S : Suite) (hE : S.EncLen) (hP : S.PubLen) (hs : HS) (p : Bytes) (cap : Nat)
    (hfe : hs.fixedE = true → hs.e.val.pub.length = S.pubLen) :
    (writeInner S hs p cap).2.acc.length ≤ cap := by
  have hf := writeToks_fit S hE hP cap (hs.msgs.getD hs.pos []) { hs := hs, acc := [], ev := [] } hfe (Nat.zero_le _)
  unfold writeInner
  simp only
  generalize writeToks S cap (hs.msgs.getD hs.pos []) { hs := hs, acc := [], ev := [] } = W at hf ⊢
  obtain ⟨r, w⟩ := W
  simp only at hf ⊢
  repeat' split
  all_goals first
    | exact Nat.zero_le _
    | exact hf
    | (simp only [List.length_append]
       have := (Sym.encrypt_ok_len S hE _ _ _ _ (by assumption)).2
       omega)

/-- `_write_message` keeps the key-length side conditions (any outcome). -/
theorem writeInner_wf (S : Suite) (hs : HS) (p : Bytes) (cap : Nat) (hw : KeysWf S hs) :
    KeysWf S (writeInner S hs p cap).2.hs := by
  have hf := writeToks_wf S cap (hs.msgs.getD hs.pos []) { hs := hs, acc := [], ev := [] } hw
  unfold writeInner
  simp only
  generalize writeToks S cap (hs.msgs.getD hs.pos []) { hs := hs, acc := [], ev := [] } = W at hf ⊢
  obtain ⟨r, w⟩ := W
  simp only at hf ⊢
  repeat' split
  all_goals first
    | exact hw
    | exact hf

end SnowVerif.Model.HS
