/-
  Integrity, part 4: runs of alternating messages.  `run S false A B` is `run S true B A` with the
  roles exchanged (`run_swap`), so every statement is proved for `ini = true` by induction on the
  steps, exchanging the parties after each message.
-/
import SnowVerif.Lemmas.IntegrityMsg
set_option linter.unusedVariables false
set_option linter.unusedSimpArgs false

namespace SnowVerif.Spec.Integrity
open SnowVerif SnowVerif.Spec Bytes SymmetricState HandshakeState
variable {S : Suite}

/-- Exchange the two parties in the result of a run. -/
def swapR (r : HandshakeState × HandshakeState × List Sent) : HandshakeState × HandshakeState × List Sent :=
  (r.2.1, r.1, r.2.2)

theorem run_swap : ∀ (steps : List Step) (ini : Bool) (A B : HandshakeState),
    run S ini A B steps = (run S (!ini) B A steps).map swapR
  | [], ini, A, B => by cases ini <;> rfl
  | st :: rest, true, A, B => by
    simp only [run, Bool.not_true]
    cases h1 : A.writeMessage S st.payload st.eph with
    | none => rfl
    | some r1 =>
      obtain ⟨m, A1, sw⟩ := r1
      simp only
      cases h2 : B.readMessage S (st.deliver.getD m) with
      | none => rfl
      | some r2 =>
        obtain ⟨p', B1, sr⟩ := r2
        simp only
        rw [run_swap rest false A1 B1]
        simp only [Bool.not_false, Option.map_map]
        rfl
  | st :: rest, false, A, B => by
    simp only [run, Bool.not_false]
    cases h1 : B.writeMessage S st.payload st.eph with
    | none => rfl
    | some r1 =>
      obtain ⟨m, B1, sw⟩ := r1
      simp only
      cases h2 : A.readMessage S (st.deliver.getD m) with
      | none => rfl
      | some r2 =>
        obtain ⟨p', A1, sr⟩ := r2
        simp only
        rw [run_swap rest true A1 B1]
        simp only [Bool.not_true, Option.map_map]
        rfl

/-- A run in which the second party writes first is a run of the exchanged parties. -/
theorem run_false {A B A' B' : HandshakeState} {steps : List Step} {tr : List Sent}
    (h : run S false A B steps = some (A', B', tr)) : run S true B A steps = some (B', A', tr) := by
  rw [run_swap] at h
  simp only [Bool.not_false] at h
  cases hr : run S true B A steps with
  | none => rw [hr] at h; simp at h
  | some r =>
    rw [hr] at h
    simp only [Option.map_some, Option.some.injEq, swapR, Prod.mk.injEq] at h
    obtain ⟨r1, r2, r3⟩ := r
    simp only at h
    obtain ⟨rfl, rfl, rfl⟩ := h
    rfl

/-- The first message of a run (first party writes), the rest being a run of the exchanged parties. -/
theorem run_true_cons {A B A' B' : HandshakeState} {st : Step} {rest : List Step} {tr : List Sent}
    (h : run S true A B (st :: rest) = some (A', B', tr)) :
    ∃ m A1 sw p' B1 sr tr', A.writeMessage S st.payload st.eph = some (m, A1, sw) ∧
      B.readMessage S (st.deliver.getD m) = some (p', B1, sr) ∧
      run S true B1 A1 rest = some (B', A', tr') ∧ tr = ⟨m, st.deliver.getD m⟩ :: tr' := by
  simp only [run] at h
  cases h1 : A.writeMessage S st.payload st.eph with
  | none => rw [h1] at h; simp at h
  | some r1 =>
    obtain ⟨m, A1, sw⟩ := r1
    rw [h1] at h
    simp only at h
    cases h2 : B.readMessage S (st.deliver.getD m) with
    | none => rw [h2] at h; simp at h
    | some r2 =>
      obtain ⟨p', B1, sr⟩ := r2
      rw [h2] at h
      simp only at h
      cases h3 : run S false A1 B1 rest with
      | none => rw [h3] at h; simp at h
      | some r3 =>
        obtain ⟨A2, B2, tr'⟩ := r3
        rw [h3] at h
        simp only [Option.map_some, Option.some.injEq, Prod.mk.injEq] at h
        obtain ⟨rfl, rfl, rfl⟩ := h
        exact ⟨m, A1, sw, p', B1, sr, tr', rfl, h2, run_false h3, rfl⟩

/-! ### `Pre` along a run -/

theorem run_pre_true (hL : S.HashLen) : ∀ (steps : List Step) {A B A' B' : HandshakeState} {tr : List Sent},
    Pre S A B → run S true A B steps = some (A', B', tr) →
    Pre S A' B' ∧ tr.length = steps.length ∧ A'.msgs = A.msgs.drop steps.length ∧
      B'.msgs = B.msgs.drop steps.length
  | [], A, B, A', B', tr, hp, h => by
    simp only [run, Option.some.injEq, Prod.mk.injEq] at h
    obtain ⟨rfl, rfl, rfl⟩ := h
    exact ⟨hp, rfl, rfl, rfl⟩
  | st :: rest, A, B, A', B', tr, hp, h => by
    obtain ⟨m, A1, sw, p', B1, sr, tr', hw, hr, hrun, rfl⟩ := run_true_cons h
    obtain ⟨hp1, fA, fB, -⟩ := msg_step_pre hL hp hw hr
    obtain ⟨hp', hl, hB', hA'⟩ := run_pre_true hL rest hp1.symm hrun
    refine ⟨hp'.symm, by simp [hl], ?_, ?_⟩
    · rw [hA', fA.msgs, List.length_cons, List.drop_tail]
    · rw [hB', fB.msgs, List.length_cons, List.drop_tail]

/-! ### Any alteration shows in the handshake hash -/

theorem run_h_true (hL : S.HashLen) : ∀ (steps : List Step) {A B A' B' : HandshakeState} {tr : List Sent},
    Pre S A B → run S true A B steps = some (A', B', tr) →
    (A.ss.h ≠ B.ss.h ∨ ∃ x ∈ tr, x.altered) → A'.ss.h ≠ B'.ss.h ∨ HashCollision S
  | [], A, B, A', B', tr, hp, h, hd => by
    simp only [run, Option.some.injEq, Prod.mk.injEq] at h
    obtain ⟨rfl, rfl, rfl⟩ := h
    rcases hd with h | ⟨x, hx, _⟩
    · exact Or.inl h
    · cases hx
  | st :: rest, A, B, A', B', tr, hp, h, hd => by
    obtain ⟨m, A1, sw, p', B1, sr, tr', hw, hr, hrun, rfl⟩ := run_true_cons h
    obtain ⟨hp1, -, -, -⟩ := msg_step_pre hL hp hw hr
    have ih := run_h_true hL rest hp1.symm hrun
    have fin : (B1.ss.h ≠ A1.ss.h ∨ ∃ x ∈ tr', x.altered) → A'.ss.h ≠ B'.ss.h ∨ HashCollision S := by
      intro h
      rcases ih h with h | h
      · exact Or.inl (Ne.symm h)
      · exact Or.inr h
    have now : (st.deliver.getD m ≠ m ∨ A.ss.h ≠ B.ss.h) → A'.ss.h ≠ B'.ss.h ∨ HashCollision S := by
      intro h
      rcases msg_step_h hL hp hw hr h with h | h
      · exact fin (Or.inl (Ne.symm h))
      · exact Or.inr h
    rcases hd with h | ⟨x, hx, ha⟩
    · exact now (Or.inr h)
    · rcases List.mem_cons.1 hx with rfl | hx
      · exact now (Or.inl ha)
      · exact fin (Or.inr ⟨x, hx, ha⟩)

/-! ### Divergence cannot survive to the end of a handshake whose last payload is keyed -/

theorem PskMismatch.symm {A B : HandshakeState} (hm : A.msgs = B.msgs) (h : PskMismatch A B) :
    PskMismatch B A := by
  obtain ⟨m, hm1, n, hn, hne⟩ := h
  exact ⟨m, hm ▸ hm1, n, hn, Ne.symm hne⟩

theorem LastKeyed.of_pre {A B : HandshakeState} (hp : Pre S A B) (h : LastKeyed A) : LastKeyed B := by
  unfold LastKeyed at *
  rw [← hp.isPsk, ← hp.msgs, ← hp.hasKey]; exact h

theorem HeadPskMismatch.symm {A B : HandshakeState} (hm : A.msgs = B.msgs) (h : HeadPskMismatch A B) :
    HeadPskMismatch B A := by
  obtain ⟨n, hn, hne⟩ := h
  exact ⟨n, hm ▸ hn, Ne.symm hne⟩

/-- The core induction: the parties are diverged at the start (or disagree on a psk that is
    still to be used), or some message other than the last is altered; the last message is
    delivered unmodified and its payload is keyed; every call succeeds.  Then the run exhibits a
    collision. -/
theorem run_core_true (hL : S.HashLen) (hE : S.EncLen) (hD : S.DecSound) :
    ∀ (steps : List Step) {A B A' B' : HandshakeState} {tr : List Sent},
    Pre S A B → LastKeyed A → steps.length = A.msgs.length → steps ≠ [] →
    (∀ st ∈ steps, st.eph.pub.length = S.pubLen) →
    run S true A B steps = some (A', B', tr) →
    (∀ x, tr.getLast? = some x → ¬ x.altered) →
    ((Div A B ∨ PskMismatch A B) ∨ ∃ i x, i + 1 < tr.length ∧ tr[i]? = some x ∧ x.altered) →
    Coll S ∨ AeadCollision S
  | [], A, B, A', B', tr, hp, hk, hlen, hne, heph, h, hlast, hd => absurd rfl hne
  | st :: rest, A, B, A', B', tr, hp, hk, hlen, hne, heph, h, hlast, hd => by
    obtain ⟨m, A1, sw, p', B1, sr, tr', hw, hr, hrun, rfl⟩ := run_true_cons h
    obtain ⟨hp1, fA, fB, kA1⟩ := msg_step_pre hL hp hw hr
    obtain ⟨-, hl', -, -⟩ := run_pre_true hL rest hp1.symm hrun
    -- the message patterns of `A`
    obtain ⟨ts, ms, hms⟩ : ∃ ts ms, A.msgs = ts :: ms := by
      cases hA : A.msgs with
      | nil => rw [hA] at hlen; simp at hlen
      | cons ts ms => exact ⟨ts, ms, rfl⟩
    have hA1m : A1.msgs = ms := by rw [fA.msgs, hms]; rfl
    have hlen' : rest.length = ms.length := by rw [hms] at hlen; simpa using hlen
    have hk' : keyedAfter A.isPsk ms.flatten (keyedAfter A.isPsk ts A.hasKey) = true := by
      unfold LastKeyed at hk
      rw [hms, List.flatten_cons, keyedAfter_append] at hk; exact hk
    have hephst : st.eph.pub.length = S.pubLen := heph st (List.mem_cons_self ..)
    have hhead : A.msgs.headD [] = ts := by rw [hms]; rfl
    cases rest with
    | nil =>
      -- the last message: delivered unmodified, payload keyed
      have hms0 : ms = [] := by simpa using hlen'.symm
      subst hms0
      simp only [run, Option.some.injEq, Prod.mk.injEq] at hrun
      obtain ⟨-, -, rfl⟩ := hrun
      have hun : st.deliver.getD m = m := by
        have := hlast ⟨m, st.deliver.getD m⟩ rfl
        exact Classical.not_not.1 this
      have hd' : Div A B ∨ HeadPskMismatch A B := by
        rcases hd with (h | ⟨t, ht, n, hn, hne⟩) | ⟨i, x, hi, _⟩
        · exact Or.inl h
        · right
          rw [hms] at ht
          simp only [List.mem_singleton] at ht
          subst ht
          exact ⟨n, by rw [hhead]; exact hn, hne⟩
        · simp at hi
      refine msg_step_aead hL hE hD hp hephst hw hr hd' hun ?_
      unfold HeadKeyed
      rw [hhead]
      simpa [keyedAfter] using hk'
    | cons st2 rest2 =>
      have hlast' : ∀ x, tr'.getLast? = some x → ¬ x.altered := by
        intro x hx
        apply hlast x
        cases tr' with
        | nil => simp at hl'
        | cons y ys => rw [List.getLast?_cons_cons]; exact hx
      have hkB1 : LastKeyed B1 := by
        apply LastKeyed.of_pre hp1
        unfold LastKeyed
        rw [fA.isPsk, hA1m, kA1, hhead]; exact hk'
      have ih := run_core_true hL hE hD (st2 :: rest2) hp1.symm hkB1
        (by rw [← hp1.msgs, hA1m]; exact hlen') (by simp)
        (fun s hs => heph s (List.mem_cons_of_mem _ hs)) hrun hlast'
      -- what this message does to the disjunction
      have step : Div A B ∨ st.deliver.getD m ≠ m ∨ HeadPskMismatch A B → Coll S ∨ AeadCollision S := by
        intro h
        rcases msg_step_div hL hp hw hr h with h | h
        · exact ih (Or.inl (Or.inl h.symm))
        · exact Or.inl h
      rcases hd with (h | ⟨t, ht, n, hn, hne⟩) | ⟨i, x, hi, hx, ha⟩
      · exact step (Or.inl h)
      · rw [hms] at ht
        rcases List.mem_cons.1 ht with rfl | ht
        · exact step (Or.inr (Or.inr ⟨n, by rw [hhead]; exact hn, hne⟩))
        · apply ih
          left; right
          refine PskMismatch.symm hp1.msgs ⟨t, by rw [hA1m]; exact ht, n, hn, ?_⟩
          rw [fA.psks, fB.psks]; exact hne
      · cases i with
        | zero =>
          simp only [List.getElem?_cons_zero, Option.some.injEq] at hx
          subst hx
          exact step (Or.inr (Or.inl ha))
        | succ j =>
          apply ih
          right
          refine ⟨j, x, ?_, by simpa using hx, ha⟩
          simp only [List.length_cons] at hi ⊢
          omega

/-! ### Runs in which nothing is altered -/

theorem run_unaltered_true : ∀ (steps : List Step) {A B A' B' : HandshakeState} {tr : List Sent},
    (∀ st ∈ steps, st.deliver = none) → run S true A B steps = some (A', B', tr) →
    ∀ x ∈ tr, ¬ x.altered
  | [], A, B, A', B', tr, hun, h => by
    simp only [run, Option.some.injEq, Prod.mk.injEq] at h
    obtain ⟨-, -, rfl⟩ := h
    intro x hx; cases hx
  | st :: rest, A, B, A', B', tr, hun, h => by
    obtain ⟨m, A1, sw, p', B1, sr, tr', hw, hr, hrun, rfl⟩ := run_true_cons h
    intro x hx
    rcases List.mem_cons.1 hx with rfl | hx
    · have : st.deliver = none := hun st (List.mem_cons_self ..)
      simp [Sent.altered, this]
    · exact run_unaltered_true rest (fun s hs => hun s (List.mem_cons_of_mem _ hs)) hrun x hx

/-- If every step delivers the genuine message, no entry of the transcript is altered. -/
theorem run_unaltered (S : Suite) (ini : Bool) (A B A' B' : HandshakeState) (steps : List Step)
    (tr : List Sent) (hun : ∀ st ∈ steps, st.deliver = none)
    (h : run S ini A B steps = some (A', B', tr)) : ∀ x ∈ tr, ¬ x.altered := by
  cases ini with
  | true => exact run_unaltered_true steps hun h
  | false => exact run_unaltered_true steps hun (run_false h)

end SnowVerif.Spec.Integrity
