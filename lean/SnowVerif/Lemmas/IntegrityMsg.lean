/-
  Integrity, part 3: one message (`msg_step`): writer `W` calls `WriteMessage`, reader `R` calls
  `ReadMessage` on arbitrary delivered bytes, both succeed.
-/
import SnowVerif.Lemmas.IntegrityTok
set_option linter.unusedVariables false
set_option linter.unusedSimpArgs false

namespace SnowVerif.Spec.Integrity
open SnowVerif SnowVerif.Spec Bytes SymmetricState HandshakeState
variable {S : Suite}

/-- The parties hold different keys for a `psk` token of the next message pattern. -/
def HeadPskMismatch (W R : HandshakeState) : Prop :=
  ∃ n, Tok.psk n ∈ W.msgs.headD [] ∧ W.psks.getD n none ≠ R.psks.getD n none

/-- The payload of the next message is processed under a key (`HasKey()` after its tokens). -/
def HeadKeyed (W : HandshakeState) : Prop :=
  keyedAfter W.isPsk (W.msgs.headD []) W.hasKey = true

/-- What one message leaves unchanged / how it moves the bookkeeping, for one party. -/
structure MsgFrame (W W' : HandshakeState) : Prop where
  msgs : W'.msgs = W.msgs.tail
  isPsk : W'.isPsk = W.isPsk
  psks : W'.psks = W.psks
  s : W'.s = W.s
  initiator : W'.initiator = W.initiator

section
variable {W R W' R' : HandshakeState} {p p' m msg : Bytes} {eph : KeyPair}
  {sw sr : Option (CipherState × CipherState)}

/-- (a) `Pre` is preserved by a message, for any delivered bytes; bookkeeping of both parties. -/
theorem msg_step_pre (hL : S.HashLen) (hp : Pre S W R)
    (hw : W.writeMessage S p eph = some (m, W', sw)) (hr : R.readMessage S msg = some (p', R', sr)) :
    Pre S W' R' ∧ MsgFrame W W' ∧ MsgFrame R R' ∧
      W'.hasKey = keyedAfter W.isPsk (W.msgs.headD []) W.hasKey := by
  obtain ⟨ts, rest, buf, W1, R1, rem, hm1, hm2, hw1, hr1, rfl, sW, sR, _, fW, fR, mW, mR⟩ :=
    (msg_view hp.msgs hw hr).ex
  obtain ⟨inv1, fw, fr, kw, -, -, -⟩ := toks_pair hL ts hp.inv hw1 hr1
  have kW' : W'.hasKey = W1.hasKey := congrArg Option.isSome sW.k
  have kR' : R'.hasKey = R1.hasKey := congrArg Option.isSome sR.k
  have iW : W'.isPsk = W.isPsk := (fW.isPsk : W'.isPsk = W1.isPsk).trans fw.isPsk
  have iR : R'.isPsk = R.isPsk := (fR.isPsk : R'.isPsk = R1.isPsk).trans fr.isPsk
  have s_W : W'.s = W.s := (fW.s : W'.s = W1.s).trans fw.s
  have s_R : R'.s = R.s := (fR.s : R'.s = R1.s).trans fr.s
  refine ⟨⟨mW.trans mR.symm, ?_, ?_, ?_, ?_, ?_, ?_⟩, ⟨?_, iW, ?_, s_W, ?_⟩, ⟨?_, iR, ?_, s_R, ?_⟩, ?_⟩
  · rw [iW, iR]; exact hp.isPsk
  · rw [kW', kR']; exact inv1.hasKey
  · rw [sW.h]; exact hL _
  · rw [sR.h]; exact hL _
  · intro kp h; exact hp.sA kp (s_W ▸ h)
  · intro kp h; exact hp.sB kp (s_R ▸ h)
  · rw [mW, hm1]; rfl
  · exact (fW.psks : W'.psks = W1.psks).trans fw.psks
  · exact (fW.initiator : W'.initiator = W1.initiator).trans fw.initiator
  · rw [mR, hm2]; rfl
  · exact (fR.psks : R'.psks = R1.psks).trans fr.psks
  · exact (fR.initiator : R'.initiator = R1.initiator).trans fr.initiator
  · rw [kW', kw, hm1]; rfl

/-- (d) An altered message, or an earlier difference of `h`, shows in `h` after the message
    (needs no assumption on field widths). -/
theorem msg_step_h (hL : S.HashLen) (hp : Pre S W R)
    (hw : W.writeMessage S p eph = some (m, W', sw)) (hr : R.readMessage S msg = some (p', R', sr))
    (hne : msg ≠ m ∨ W.ss.h ≠ R.ss.h) : W'.ss.h ≠ R'.ss.h ∨ HashCollision S := by
  obtain ⟨ts, rest, buf, W1, R1, rem, hm1, hm2, hw1, hr1, rfl, sW, sR, _, fW, fR, mW, mR⟩ :=
    (msg_view hp.msgs hw hr).ex
  obtain ⟨inv1, fw, fr, kw, hne1, hf1, -⟩ := toks_pair hL ts hp.inv hw1 hr1
  have fin : (W1.ss.h ≠ R1.ss.h ∨ HashCollision S) → W'.ss.h ≠ R'.ss.h ∨ HashCollision S := by
    rintro (h | h)
    · exact hstep_h_ne inv1.hlen sW.h sR.h (Or.inl h)
    · exact Or.inr h
  rcases hne with h | h
  · rcases hf1 with h1 | h1
    · refine hstep_h_ne inv1.hlen sW.h sR.h (Or.inr ?_)
      intro e; apply h; rw [h1, e]
    · exact fin h1
  · exact fin (hne1 h)

/-- (b) Divergence persists through a message whatever bytes are delivered; an altered message
    or a `psk` token on which the parties hold different keys creates it. -/
theorem msg_step_div (hL : S.HashLen) (hp : Pre S W R)
    (hw : W.writeMessage S p eph = some (m, W', sw)) (hr : R.readMessage S msg = some (p', R', sr))
    (hd : Div W R ∨ msg ≠ m ∨ HeadPskMismatch W R) : Div W' R' ∨ Coll S := by
  rcases hd with hd | hd | hd
  rotate_left
  · rcases msg_step_h hL hp hw hr (Or.inl hd) with h | h
    · exact Or.inl (Or.inl h)
    · exact Or.inr h.coll
  all_goals
    obtain ⟨ts, rest, buf, W1, R1, rem, hm1, hm2, hw1, hr1, rfl, sW, sR, _, fW, fR, mW, mR⟩ :=
      (msg_view hp.msgs hw hr).ex
    obtain ⟨inv1, fw, fr, kw, -, -, hd1⟩ := toks_pair hL ts hp.inv hw1 hr1
    have fin : (Div W1 R1 ∨ Coll S) → Div W' R' ∨ Coll S := by
      rintro (h | h)
      · exact hstep_div inv1.hlen sW.h sR.h sW.ck sR.ck sW.k sR.k h
      · exact Or.inr h
  · obtain ⟨n, hn, hne⟩ := hd
    rw [hm1] at hn
    exact fin (hd1 (Or.inr ⟨n, hn, hne⟩))
  · exact fin (hd1 (Or.inl hd))

/-- (c) If the parties have diverged (or disagree on a psk of this message), the message is
    delivered unmodified and its payload is processed under a key, then the reader accepting it
    exhibits a collision: the payload ciphertext is an encryption under two different contexts. -/
theorem msg_step_aead (hL : S.HashLen) (hE : S.EncLen) (hD : S.DecSound) (hp : Pre S W R)
    (heph : eph.pub.length = S.pubLen)
    (hw : W.writeMessage S p eph = some (m, W', sw)) (hr : R.readMessage S msg = some (p', R', sr))
    (hd : Div W R ∨ HeadPskMismatch W R) (hmsg : msg = m) (hk : HeadKeyed W) :
    Coll S ∨ AeadCollision S := by
  obtain ⟨ts, rest, buf, W1, R1, rem, hm1, hm2, hw1, hr1, rfl, sW, sR, ⟨ss', hdec⟩, fW, fR, mW, mR⟩ :=
    (msg_view hp.msgs hw hr).ex
  obtain ⟨inv1, fw, fr, kw, -, -, hd1⟩ := toks_pair hL ts hp.inv hw1 hr1
  have hd' : Div W R ∨ ∃ n, Tok.psk n ∈ ts ∧ W.psks.getD n none ≠ R.psks.getD n none := by
    rcases hd with h | ⟨n, hn, hne⟩
    · exact Or.inl h
    · rw [hm1] at hn; exact Or.inr ⟨n, hn, hne⟩
  rcases hd1 hd' with hdiv | hc
  rotate_left
  · exact Or.inl hc
  right
  -- the reader's payload field is the writer's payload ciphertext
  have hlenW := writeToks_len hE heph ts hp.sA hw1
  obtain ⟨c, hc, hclen⟩ := readToks_len ts hr1
  have hrem : rem = (W1.ss.encryptAndHash S p).1 := by
    rw [hc] at hmsg
    refine (List.append_inj hmsg ?_).2
    rw [hclen, hlenW, hp.isPsk, hp.hasKey]
  -- both sides hold a key
  have kW1 : W1.hasKey = true := by
    rw [kw]; unfold HeadKeyed at hk; rw [hm1] at hk; exact hk
  have kR1 : R1.hasKey = true := inv1.hasKey ▸ kW1
  obtain ⟨kW, hkW⟩ := Option.isSome_iff_exists.1 kW1
  obtain ⟨kR, hkR⟩ := Option.isSome_iff_exists.1 kR1
  have hdec2 := decryptAndHash_keyed hkR hdec
  have henc := hD _ _ _ _ _ hdec2
  rw [hrem, encryptAndHash_out, hkW] at henc
  refine ⟨kW, W1.ss.cs.n, W1.ss.h, p, kR, R1.ss.cs.n, R1.ss.h, p', ?_, henc⟩
  intro e
  simp only [Prod.mk.injEq] at e
  rcases hdiv with h | ⟨_, h⟩
  · exact h e.2.2
  · rw [hkW, hkR] at h; exact h (by rw [e.1])

/-- **`msg_step`**: one message, writer `W`, reader `R`, any delivered bytes `msg`, both calls succeed.
    (a) `Pre` holds again; (b) divergence persists, and is created by any alteration and by a psk
    the parties disagree on; (c) a diverged pair cannot complete an unmodified message with a keyed
    payload without an AEAD collision; (d) alterations and earlier `h`-differences show in `h`. -/
theorem msg_step (hL : S.HashLen) (hE : S.EncLen) (hp : Pre S W R)
    (hw : W.writeMessage S p eph = some (m, W', sw)) (hr : R.readMessage S msg = some (p', R', sr))
    (heph : eph.pub.length = S.pubLen) :
    Pre S W' R' ∧
    ((Div W R ∨ msg ≠ m ∨ HeadPskMismatch W R) → Div W' R' ∨ Coll S) ∧
    (S.DecSound → (Div W R ∨ HeadPskMismatch W R) → msg = m → HeadKeyed W → Coll S ∨ AeadCollision S) ∧
    (msg ≠ m → W'.ss.h ≠ R'.ss.h ∨ HashCollision S) ∧
    (W.ss.h ≠ R.ss.h → W'.ss.h ≠ R'.ss.h ∨ HashCollision S) :=
  ⟨(msg_step_pre hL hp hw hr).1, msg_step_div hL hp hw hr,
   fun hD hd hm hk => msg_step_aead hL hE hD hp heph hw hr hd hm hk,
   fun h => msg_step_h hL hp hw hr (Or.inl h), fun h => msg_step_h hL hp hw hr (Or.inr h)⟩

end
end SnowVerif.Spec.Integrity
