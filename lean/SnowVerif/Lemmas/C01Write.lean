/-
  C01 (state-machine part): the abstraction of a handshake state, the token steps common to
  write and read (`psk`, DH), and the refinement of `_write_message`'s token loop.
-/
import SnowVerif.Lemmas.C01Sym

namespace SnowVerif.C01
open SnowVerif SnowVerif.Model SnowVerif.Model.HS SnowVerif.Bytes SnowVerif.Framing
set_option linter.unusedVariables false
set_option linter.unusedSimpArgs false

/-! ### The abstraction of a handshake state -/

def absKP (kp : Model.KeyPair) : Spec.KeyPair := { priv := kp.priv, pub := kp.pub }

/-- A `Toggle`d key pair is a key the party has iff the toggle is on. -/
def absTK (t : Toggle Model.KeyPair) : Option Spec.KeyPair := if t.on then some (absKP t.val) else none

def absTB (t : Toggle Bytes) : Option Bytes := if t.on then some t.val else none

/-- The abstraction with the ghost flag of `absSymG`. `message_patterns` of the specification is
    the part of snow's `message_patterns` from `pattern_position` on. -/
def absHSG (g : Bool) (hs : HS) : Spec.HandshakeState :=
  { ss := absSymG g hs.sym, s := absTK hs.s, e := absTK hs.e, rs := absTB hs.rs, re := absTB hs.re,
    initiator := hs.initiator, msgs := hs.msgs.drop hs.pos, psks := hs.psks, isPsk := hs.isPsk }

/-- **The abstraction** from snow's `HandshakeState` to the specification's. -/
def absHS (hs : HS) : Spec.HandshakeState :=
  { ss := absSym hs.sym, s := absTK hs.s, e := absTK hs.e, rs := absTB hs.rs, re := absTB hs.re,
    initiator := hs.initiator, msgs := hs.msgs.drop hs.pos, psks := hs.psks, isPsk := hs.isPsk }

theorem absHSG_false (hs : HS) : absHSG false hs = absHS hs := rfl

/-- The transient state the relation tolerates: the ghost flag may be set only while `has_key` is
    false, in psk mode, and the rest of the message reaches an `e` token through `psk` tokens
    only (that `e` calls `MixKey` and ends the transient). -/
def Transient (g : Bool) (hs : HS) (ts : List Tok) : Prop :=
  g = true → hs.sym.hasKey = false ∧ hs.isPsk = true ∧ reachesE ts = true

theorem transient_false (hs : HS) (ts : List Tok) : Transient false hs ts := by
  intro h; cases h

/-- No transient where the rest of the message does not start with `psk* e`. -/
theorem transient_off {g : Bool} {hs : HS} {ts : List Tok} (h : Transient g hs ts) (hr : reachesE ts = false) :
    g = false := by
  cases g with
  | false => rfl
  | true => have := (h rfl).2.2; rw [hr] at this; cases this

/-! ### DH tokens -/

theorem dh_core (S : Suite) (k : Toggle Model.KeyPair) (r : Toggle Bytes) (out : Bytes)
    (h : (if !(k.on && r.on) then (Res.err (.state .missingKeyMaterial) : Res Bytes)
          else match S.dh k.val.priv r.val with
            | none => .err .dh
            | some o => .ok o) = .ok out) :
    k.on = true ∧ r.on = true ∧ S.dh k.val.priv r.val = some out := by
  cases hk : k.on <;> cases hr : r.on <;> simp only [hk, hr, Bool.and_self, Bool.and_true, Bool.and_false,
    Bool.not_false, Bool.not_true, ↓reduceIte, reduceCtorEq, Bool.false_eq_true] at h
  cases hd : S.dh k.val.priv r.val with
  | none => simp [hd] at h
  | some o =>
    simp only [hd, Res.ok.injEq] at h
    subst h
    exact ⟨rfl, rfl, rfl⟩

/-- A successful `HandshakeState::dh(token)` is the specification's `DH` of the operands the
    specification names for that token and role. -/
theorem dh_abs (S : Suite) (g : Bool) (hs : HS) (t : Tok) (out : Bytes) (h : hs.dh S t = .ok out) :
    Spec.HandshakeState.dh S (absHSG g hs) t = some out := by
  unfold HS.dh at h
  unfold Spec.HandshakeState.dh Spec.HandshakeState.dhOperands
  cases t with
  | e => simp at h
  | s => simp at h
  | psk n => simp at h
  | ee =>
    simp only at h
    obtain ⟨a, b, c⟩ := dh_core S _ _ out h
    simp only [absHSG, absTK, absTB, a, b, ↓reduceIte, absKP, c]
  | ss =>
    simp only at h
    obtain ⟨a, b, c⟩ := dh_core S _ _ out h
    simp only [absHSG, absTK, absTB, a, b, ↓reduceIte, absKP, c]
  | es =>
    cases hi : hs.initiator <;> simp only [hi] at h <;> obtain ⟨a, b, c⟩ := dh_core S _ _ out h <;>
      simp only [absHSG, absTK, absTB, hi, a, b, ↓reduceIte, absKP, c, Bool.false_eq_true]
  | se =>
    cases hi : hs.initiator <;> simp only [hi] at h <;> obtain ⟨a, b, c⟩ := dh_core S _ _ out h <;>
      simp only [absHSG, absTK, absTB, hi, a, b, ↓reduceIte, absKP, c, Bool.false_eq_true]

theorem dhStep_abs (S : Suite) (hL : S.HashLen) (hS : S.Sizes) (g g' : Bool) (hs : HS) (t : Tok)
    (hck : CkLen S hs.sym) (h : (dhStep S hs t).1 = .ok ()) :
    Spec.HandshakeState.dhTok S (absHSG g hs) t = some (absHSG g' (dhStep S hs t).2) ∧
    CkLen S (dhStep S hs t).2.sym := by
  unfold dhStep at h ⊢
  cases hd : hs.dh S t with
  | ok out =>
    simp only [hd]
    unfold Spec.HandshakeState.dhTok
    rw [dh_abs S g hs t out hd]
    refine ⟨?_, mixKey_ck S hL _ _⟩
    simp only [absHSG, mixKey_abs S hL hS g g' hs.sym out hck]
  | err e => simp [hd] at h
  | panic p => simp [hd] at h

/-! ### `psk` tokens -/

theorem pskStep_abs (S : Suite) (hL : S.HashLen) (hS : S.Sizes) (g g' : Bool) (hs : HS) (n : Nat)
    (hck : CkLen S hs.sym) (hg : (g' || hs.sym.hasKey) = true) (h : (pskStep S hs n).1 = .ok ()) :
    Spec.HandshakeState.pskTok S (absHSG g hs) n = some (absHSG g' (pskStep S hs n).2) ∧
    CkLen S (pskStep S hs n).2.sym := by
  unfold pskStep at h ⊢
  by_cases hn : n < 10
  · simp only [hn, ↓reduceIte] at h ⊢
    cases hp : hs.psks.getD n none with
    | none => rw [hp] at h; simp at h
    | some psk =>
      simp only [hp]
      refine ⟨?_, mixKeyAndHash_ck S hL _ _⟩
      unfold Spec.HandshakeState.pskTok
      have : (absHSG g hs).psks.getD n none = some psk := hp
      rw [this]
      simp only [absHSG, mixKeyAndHash_abs S hL hS g g' hs.sym psk hck hg]
  · simp [hn] at h

/-! ### The `e` token of a write -/

theorem eStep_abs (S : Suite) (hL : S.HashLen) (hS : S.Sizes) (g : Bool) (w : WS) (kp : Model.KeyPair)
    (rng' : Bytes) (ev : List Event) (hck : CkLen S w.hs.sym) (hg : g = true → w.hs.isPsk = true) :
    Spec.HandshakeState.writeTok S (absKP kp) (absHSG g w.hs) .e =
      some (kp.pub, absHSG false (eStep S w kp rng' ev).hs) ∧
    CkLen S (eStep S w kp rng' ev).hs.sym := by
  unfold Spec.HandshakeState.writeTok Spec.HandshakeState.mixE eStep
  cases hp : w.hs.isPsk with
  | true =>
    refine ⟨?_, mixKey_ck S hL _ _⟩
    simp only [absHSG, hp, ↓reduceIte, absTK, absKP,
      mixKey_abs S hL hS g false (w.hs.sym.mixHash S kp.pub) kp.pub (mixHash_ck S _ _ hck), mixHash_abs]
  | false =>
    have g0 : g = false := by
      cases g with
      | false => rfl
      | true => have := hg rfl; rw [hp] at this; cases this
    subst g0
    refine ⟨?_, mixHash_ck S _ _ hck⟩
    simp only [absHSG, hp, Bool.false_eq_true, ↓reduceIte, absTK, absKP, mixHash_abs]

/-! ### One token of `_write_message` -/

/-- **One token of a write refines the specification**, along a successful step: the bytes
    appended are the specification's, and the successor states are related again (possibly in the
    tolerated transient state, after a `psk` token met un-keyed). The ephemeral key pair the
    specification is given is the one the model generated (or had fixed). -/
theorem writeTok_refines (S : Suite) (hL : S.HashLen) (hS : S.Sizes) (cap : Nat) (w : WS) (t : Tok)
    (ts : List Tok) (g : Bool) (eph : Spec.KeyPair)
    (hck : CkLen S w.hs.sym) (hg : Transient g w.hs (t :: ts))
    (hok : PskOk w.hs.isPsk (t :: ts) w.hs.sym.hasKey = true)
    (heph : t = .e → eph = absKP (writeTok S cap w t).2.hs.e.val)
    (h : (writeTok S cap w t).1 = .ok ()) :
    ∃ g' b, Spec.HandshakeState.writeTok S eph (absHSG g w.hs) t = some (b, absHSG g' (writeTok S cap w t).2.hs) ∧
      (writeTok S cap w t).2.acc = w.acc ++ b ∧
      Transient g' (writeTok S cap w t).2.hs ts ∧ CkLen S (writeTok S cap w t).2.hs.sym := by
  cases t with
  | e =>
    have heph := heph rfl
    rw [writeTok_e_eq] at h heph ⊢
    have hg' : g = true → w.hs.isPsk = true := fun x => (hg x).2.1
    by_cases hcap : w.acc.length + S.pubLen > cap
    · simp [hcap] at h
    · simp only [hcap, ↓reduceIte] at h heph ⊢
      cases hf : w.hs.fixedE with
      | true =>
        simp only [hf, ↓reduceIte] at heph ⊢
        have he : eph = absKP w.hs.e.val := heph
        subst he
        obtain ⟨a, b⟩ := eStep_abs S hL hS g w w.hs.e.val w.hs.rng [] hck hg'
        exact ⟨false, _, a, rfl, transient_false _ _, b⟩
      | false =>
        simp only [hf, Bool.false_eq_true, ↓reduceIte] at h heph ⊢
        cases hv : S.validPriv (rngDraw w.hs.rng S.privLen).1 with
        | false => simp [hv] at h
        | true =>
          simp only [hv, ↓reduceIte] at heph ⊢
          have he : eph = absKP { priv := (rngDraw w.hs.rng S.privLen).1, pub := S.pubOf (rngDraw w.hs.rng S.privLen).1 } := heph
          subst he
          obtain ⟨a, b⟩ := eStep_abs S hL hS g w { priv := (rngDraw w.hs.rng S.privLen).1, pub := S.pubOf (rngDraw w.hs.rng S.privLen).1 }
            (rngDraw w.hs.rng S.privLen).2 [.rng (rngDraw w.hs.rng S.privLen).1] hck hg'
          exact ⟨false, _, a, rfl, transient_false _ _, b⟩
  | s =>
    have g0 : g = false := transient_off hg rfl
    subst g0
    rw [writeTok_s_eq] at h ⊢
    by_cases hon : (!w.hs.s.on) = true
    · simp [hon] at h
    · by_cases hcap : w.acc.length + S.pubLen + (if w.hs.sym.hasKey then 16 else 0) > cap
      · simp [hon, hcap] at h
      · simp only [hon, hcap, ↓reduceIte, Bool.false_eq_true] at h ⊢
        have hon' : w.hs.s.on = true := by simpa using hon
        cases hr : (w.hs.sym.encryptAndMixHash S w.hs.s.val.pub (cap - w.acc.length)).1 with
        | ok c =>
          have ha := encrypt_abs S w.hs.sym w.hs.s.val.pub (cap - w.acc.length) c hr
          refine ⟨false, c, ?_, by simp only [Sym.okBytes], transient_false _ _, encrypt_ck S _ _ _ hck⟩
          unfold Spec.HandshakeState.writeTok
          simp only [absHSG, absTK, hon', ↓reduceIte, absKP, absSymG_false, ha]
        | err e => simp [hr, Res.toUnit] at h
        | panic q => simp [hr, Res.toUnit] at h
  | psk n =>
    rw [writeTok_psk_eq] at h ⊢
    simp only at h ⊢
    simp only [PskOk, Bool.and_eq_true, Bool.or_eq_true] at hok
    have hg2 : ((!w.hs.sym.hasKey) || w.hs.sym.hasKey) = true := by cases w.hs.sym.hasKey <;> rfl
    obtain ⟨a, b⟩ := pskStep_abs S hL hS g (!w.hs.sym.hasKey) w.hs n hck hg2 h
    refine ⟨!w.hs.sym.hasKey, [], ?_, by simp, ?_, b⟩
    · simp only [Spec.HandshakeState.writeTok, a, Option.map_some]
    · intro hk
      have hk' : w.hs.sym.hasKey = false := by simpa using hk
      rw [pskStep_hasKey, (pskStep_frame S w.hs n).isPsk]
      rcases hok.1 with h1 | h1
      · rw [hk'] at h1; cases h1
      · exact ⟨hk', h1.1, h1.2⟩
  | ee =>
    have g0 : g = false := transient_off hg rfl
    subst g0
    rw [writeTok_dh_eq S cap w _ (by simp)] at h ⊢
    obtain ⟨a, b⟩ := dhStep_abs S hL hS false false w.hs _ hck h
    refine ⟨false, [], ?_, by simp, transient_false _ _, b⟩
    simp only [Spec.HandshakeState.writeTok, a, Option.map_some]
  | es =>
    have g0 : g = false := transient_off hg rfl
    subst g0
    rw [writeTok_dh_eq S cap w _ (by simp)] at h ⊢
    obtain ⟨a, b⟩ := dhStep_abs S hL hS false false w.hs _ hck h
    refine ⟨false, [], ?_, by simp, transient_false _ _, b⟩
    simp only [Spec.HandshakeState.writeTok, a, Option.map_some]
  | se =>
    have g0 : g = false := transient_off hg rfl
    subst g0
    rw [writeTok_dh_eq S cap w _ (by simp)] at h ⊢
    obtain ⟨a, b⟩ := dhStep_abs S hL hS false false w.hs _ hck h
    refine ⟨false, [], ?_, by simp, transient_false _ _, b⟩
    simp only [Spec.HandshakeState.writeTok, a, Option.map_some]
  | ss =>
    have g0 : g = false := transient_off hg rfl
    subst g0
    rw [writeTok_dh_eq S cap w _ (by simp)] at h ⊢
    obtain ⟨a, b⟩ := dhStep_abs S hL hS false false w.hs _ hck h
    refine ⟨false, [], ?_, by simp, transient_false _ _, b⟩
    simp only [Spec.HandshakeState.writeTok, a, Option.map_some]

/-! ### The token loop -/

/-- Tokens other than `e` never touch the local ephemeral. -/
theorem writeTok_e_same (S : Suite) (cap : Nat) (w : WS) (t : Tok) (ht : t ≠ .e) :
    (writeTok S cap w t).2.hs.e = w.hs.e := by
  cases t with
  | e => exact absurd rfl ht
  | s => rw [writeTok_s_eq]; repeat' split
         all_goals rfl
  | psk n => rw [writeTok_psk_eq]; exact pskStep_e S w.hs n
  | ee => rw [writeTok_dh_eq S cap w _ (by simp)]; exact dhStep_e S w.hs _
  | es => rw [writeTok_dh_eq S cap w _ (by simp)]; exact dhStep_e S w.hs _
  | se => rw [writeTok_dh_eq S cap w _ (by simp)]; exact dhStep_e S w.hs _
  | ss => rw [writeTok_dh_eq S cap w _ (by simp)]; exact dhStep_e S w.hs _

theorem writeToks_e_same (S : Suite) (cap : Nat) (ts : List Tok) (w : WS) (ht : Tok.e ∉ ts) :
    (writeToks S cap ts w).2.hs.e = w.hs.e := by
  induction ts generalizing w with
  | nil => rfl
  | cons t ts ih =>
    have h1 : t ≠ .e := fun x => ht (by simp [x])
    have h2 : Tok.e ∉ ts := fun x => ht (by simp [x])
    unfold writeToks
    split
    · rw [ih _ h2, writeTok_e_same S cap w t h1]
    · exact writeTok_e_same S cap w t h1

/-- **The token loop of a write refines the specification's**: the bytes written are the
    specification's, and at the end of the message pattern the states are related by the plain
    abstraction (no transient is left: a `psk` token met un-keyed is always followed by `e`,
    by the side condition `PskOk`). -/
theorem writeToks_refines (S : Suite) (hL : S.HashLen) (hS : S.Sizes) (cap : Nat) (ts : List Tok) (w : WS)
    (g : Bool) (hck : CkLen S w.hs.sym) (hg : Transient g w.hs ts)
    (hok : PskOk w.hs.isPsk ts w.hs.sym.hasKey = true) (h1e : ts.count .e ≤ 1)
    (h : (writeToks S cap ts w).1 = .ok ()) :
    ∃ b, Spec.HandshakeState.writeToks S (absKP (writeToks S cap ts w).2.hs.e.val) ts (absHSG g w.hs) =
        some (b, absHS (writeToks S cap ts w).2.hs) ∧
      (writeToks S cap ts w).2.acc = w.acc ++ b ∧ CkLen S (writeToks S cap ts w).2.hs.sym := by
  induction ts generalizing w g with
  | nil =>
    have g0 : g = false := transient_off hg rfl
    subst g0
    exact ⟨[], rfl, by simp [writeToks], hck⟩
  | cons t ts ih =>
    unfold writeToks at h ⊢
    cases hr : (writeTok S cap w t).1 with
    | ok u =>
      simp only [hr] at h ⊢
      have heph : t = .e → absKP (writeToks S cap ts (writeTok S cap w t).2).2.hs.e.val =
          absKP (writeTok S cap w t).2.hs.e.val := by
        intro hte
        subst hte
        have : Tok.e ∉ ts := by
          intro hm
          have := List.count_pos_iff.mpr hm
          simp only [List.count_cons_self] at h1e
          omega
        rw [writeToks_e_same S cap ts _ this]
      obtain ⟨g', b, s1, s2, s3, s4⟩ := writeTok_refines S hL hS cap w t ts g _ hck hg hok heph hr
      have hok' : PskOk (writeTok S cap w t).2.hs.isPsk ts (writeTok S cap w t).2.hs.sym.hasKey = true := by
        rw [(writeTok_frame S cap w t).isPsk, writeTok_keyed S cap w t hr]
        simp only [PskOk, Bool.and_eq_true] at hok
        exact hok.2
      have h1e' : ts.count .e ≤ 1 := by
        have := List.count_le_count_cons (a := Tok.e) (b := t) (l := ts)
        omega
      obtain ⟨bs, r1, r2, r3⟩ := ih (writeTok S cap w t).2 g' s4 s3 hok' h1e' h
      refine ⟨b ++ bs, ?_, by rw [r2, s2, List.append_assoc], r3⟩
      simp only [Spec.HandshakeState.writeToks, s1, r1]
    | err e => simp [hr] at h
    | panic q => simp [hr] at h

end SnowVerif.C01
