/-
  Lemmas for C18 (in-repo logic of `types.rs`): snow's HMAC padding equals the
  RFC 2104 padding, zero-extension of HMAC keys, `fit`/`padTo` facts.
-/
import SnowVerif.Model.Symmetric
import SnowVerif.Spec.Crypto

namespace SnowVerif.C18
open SnowVerif Bytes
set_option linter.unusedVariables false
set_option linter.unusedSimpArgs false

/-! ### `zeros`, `padTo`, `fit` -/

@[simp] theorem length_zeros (n : Nat) : (zeros n).length = n := by
  simp [zeros]

theorem getD_zeros (n i : Nat) : (zeros n).getD i 0 = 0 := by
  simp only [zeros, List.getD_eq_getElem?_getD, List.getElem?_replicate]
  split <;> rfl

/-- Reading past the end of a key or into appended zeros gives the same byte:
    `getD` with default `0` does not see a zero extension. -/
theorem getD_append_zeros (b : Bytes) (k i : Nat) : (b ++ zeros k).getD i 0 = b.getD i 0 := by
  simp only [List.getD_eq_getElem?_getD]
  by_cases h : i < b.length
  · rw [List.getElem?_append_left h]
  · have h' : b.length ≤ i := by omega
    rw [List.getElem?_append_right h', List.getElem?_eq_none_iff.mpr h']
    simp only [zeros, List.getElem?_replicate, Option.getD_none]
    split <;> rfl

theorem length_padTo (n : Nat) (b : Bytes) (h : b.length ≤ n) : (padTo n b).length = n := by
  simp only [padTo, List.length_append, length_zeros]; omega

theorem length_fit (n : Nat) (b : Bytes) : (fit n b).length = n := by
  simp only [fit, List.length_take, List.length_append, length_zeros]; omega

/-- When the data fits, `arr[..n]` of the zeroed array it was copied into is the zero-padded data. -/
theorem fit_eq_padTo (n : Nat) (b : Bytes) (h : b.length ≤ n) : fit n b = padTo n b := by
  unfold fit padTo
  rw [List.take_append, List.take_of_length_le h]
  simp only [zeros, List.take_replicate]
  congr 2
  omega

/-- When the data is at least `n` long, `fit n` is just the first `n` bytes. -/
theorem fit_eq_take (n : Nat) (b : Bytes) (h : n ≤ b.length) : fit n b = b.take n := by
  unfold fit
  exact List.take_append_of_le_length h

/-! ### HMAC padding -/

theorem length_hmacPad (c : UInt8) (key : Bytes) (n : Nat) : (Model.hmacPad c key n).length = n := by
  simp [Model.hmacPad]

/-- snow's `ipad`/`opad` construction (`[c; 128]`, xor the key in, slice `[..block_len]`) is the
    RFC 2104 one (zero-pad the key to the block length, xor every byte with `c`). -/
theorem hmacPad_eq_rfc (c : UInt8) (key : Bytes) (n : Nat) (h : key.length ≤ n) :
    Model.hmacPad c key n = (padTo n key).map (· ^^^ c) := by
  apply List.ext_getElem
  · simp only [length_hmacPad, List.length_map, length_padTo n key h]
  · intro i h1 h2
    simp only [Model.hmacPad, List.getElem_map, List.getElem_range, padTo]
    rw [UInt8.xor_comm]
    congr 1
    rw [← getD_append_zeros key (n - key.length) i, List.getD_eq_getElem?_getD]
    have : i < (key ++ zeros (n - key.length)).length := by
      simp only [List.length_append, length_zeros]
      simp only [length_hmacPad] at h1
      omega
    rw [List.getElem?_eq_getElem this]
    rfl

/-- snow's padded block does not change when zeros are appended to the key (no size condition:
    the model reads the key with default `0`). -/
theorem hmacPad_append_zeros (c : UInt8) (key : Bytes) (k n : Nat) :
    Model.hmacPad c (key ++ zeros k) n = Model.hmacPad c key n := by
  unfold Model.hmacPad
  apply List.map_congr_left
  intro i _
  rw [getD_append_zeros]

theorem hmac_append_zeros (S : Suite) (key : Bytes) (k : Nat) (data : Bytes) :
    Model.hmac S (key ++ zeros k) data = Model.hmac S key data := by
  unfold Model.hmac
  rw [hmacPad_append_zeros, hmacPad_append_zeros]

theorem hmac_eq_rfc (S : Suite) (key data : Bytes) (h : key.length ≤ S.blockLen) :
    Model.hmac S key data = Spec.hmac S key data := by
  unfold Model.hmac Spec.hmac
  rw [hmacPad_eq_rfc _ _ _ h, hmacPad_eq_rfc _ _ _ h]

theorem length_hmac (S : Suite) (hL : S.HashLen) (key data : Bytes) :
    (Model.hmac S key data).length = S.hashLen := by
  unfold Model.hmac
  exact hL _

/-- The `temp_key` array handed to the second and third HMAC call is always 64 bytes long. -/
theorem length_hkdfTemp (S : Suite) (ck ikm : Bytes) : (Model.hkdfTemp S ck ikm).length = 64 :=
  length_fit 64 _

/-- ... and (when the hash output fits in it) it is the HMAC output followed by zeros. -/
theorem hkdfTemp_eq (S : Suite) (hL : S.HashLen) (h64 : S.hashLen ≤ 64) (ck ikm : Bytes) :
    Model.hkdfTemp S ck ikm = Model.hmac S ck ikm ++ zeros (64 - S.hashLen) := by
  unfold Model.hkdfTemp
  rw [fit_eq_padTo 64 _ (by rw [length_hmac S hL]; exact h64)]
  unfold padTo
  rw [length_hmac S hL]

/-- HMAC keyed with the whole `temp_key` array = RFC 2104 HMAC keyed with the `hash_len`-byte
    temporary key. Uses: hash output length, `hashLen ≤ 64` (the array holds the output) and
    `hashLen ≤ blockLen` (RFC 2104 without key hashing). -/
theorem hmac_hkdfTemp (S : Suite) (hL : S.HashLen) (h64 : S.hashLen ≤ 64) (hb : S.hashLen ≤ S.blockLen)
    (ck ikm data : Bytes) (hck : ck.length ≤ S.blockLen) :
    Model.hmac S (Model.hkdfTemp S ck ikm) data = Spec.hmac S (Spec.hmac S ck ikm) data := by
  rw [hkdfTemp_eq S hL h64, hmac_append_zeros, hmac_eq_rfc S _ _ (by rw [length_hmac S hL]; exact hb),
    hmac_eq_rfc S ck ikm hck]

end SnowVerif.C18
