/-
  C07 (reachability), part 1: "each party writes at most one message that contains an `e` token".

  * `eFlags msgs`: for every message of the pattern, whether it contains the token `e`.
  * `futE mine fl`: some message of `fl` that THIS party writes (the party whose turn it is at the
    head of `fl` iff `mine`) contains `e`.
  * `onceE mine fl`: after a message this party writes that contains `e`, no later message this
    party writes contains `e`.
  * `table_once`: `onceE` holds for both roles for every row of the generated pattern table
    (`cases p <;> decide` over all constructors of `Generated.Pattern`).
  * `handshakeTokens_eFlags`: psk modifiers add only `psk` tokens, so the `e` flags of the instance
    `HandshakeTokens::try_from` returns are those of the table row, for every modifier list.
-/
import SnowVerif.Model.Builder

namespace SnowVerif.Lemmas.C07Reach
open SnowVerif SnowVerif.Model SnowVerif.Generated
set_option autoImplicit false
set_option linter.unusedVariables false
set_option linter.unusedSimpArgs false

/-- For every message of the pattern: does it contain the token `e`? -/
def eFlags (msgs : List (List Tok)) : List Bool := msgs.map fun m => m.contains Tok.e

/-- Some message this party still has to WRITE contains `e` (`mine`: the head of the list is
    written by this party; the turn alternates). -/
def futE : Bool → List Bool → Bool
  | _, [] => false
  | mine, f :: fs => (mine && f) || futE (!mine) fs

/-- No party writes `e` twice: after a message of this party that contains `e`, none of its later
    messages does. -/
def onceE : Bool → List Bool → Bool
  | _, [] => true
  | mine, f :: fs => (!(mine && f) || !futE (!mine) fs) && onceE (!mine) fs

/-- Table fact, for every row of the generated table and both roles (the initiator writes the
    even-numbered messages, the responder the odd-numbered ones): a party writes at most one
    message containing `e`. -/
theorem table_once (p : Pattern) :
    onceE true (eFlags p.tokens.msgs) = true ∧ onceE false (eFlags p.tokens.msgs) = true := by
  cases p <;> decide

theorem map_modify_of_inv {α β} (g : α → β) (f : α → α) (hf : ∀ x, g (f x) = g x) :
    ∀ (l : List α) (i : Nat), (l.modify i f).map g = l.map g
  | [], i => by simp
  | a :: l, 0 => by simp [hf]
  | a :: l, i + 1 => by
    rw [List.modify_succ_cons, List.map_cons, List.map_cons, map_modify_of_inv g f hf l i]

/-- `apply_psk_modifier` only adds a `psk` token: the `e` flags are unchanged. -/
theorem applyPsk_eFlags {inst inst' : Inst} {n : Nat} (h : applyPsk inst n = .ok inst') :
    eFlags inst'.msgs = eFlags inst.msgs := by
  unfold applyPsk at h
  simp only at h
  split at h
  · injection h with h
    subst h
    unfold eFlags
    apply map_modify_of_inv
    intro m
    split
    · simp [List.contains_cons]
    · simp [List.contains_append]
  · cases h

theorem applyModifiers_eFlags (mods : List Modifier) (inst inst' : Inst)
    (h : applyModifiers inst mods = .ok inst') : eFlags inst'.msgs = eFlags inst.msgs := by
  induction mods generalizing inst with
  | nil => unfold applyModifiers at h; injection h with h; subst h; rfl
  | cons m ms ih =>
    cases m with
    | fallback => unfold applyModifiers at h; cases h
    | psk n =>
      unfold applyModifiers at h
      split at h
      · rename_i i1 heq; exact (ih _ h).trans (applyPsk_eFlags heq)
      · cases h
      · cases h

/-- For every pattern and every modifier list: the instance `HandshakeTokens::try_from` returns has
    an `e` token in exactly the messages in which the table row has one. -/
theorem handshakeTokens_eFlags {p : Pattern} {mods : List Modifier} {inst : Inst}
    (h : handshakeTokens p mods = .ok inst) : eFlags inst.msgs = eFlags p.tokens.msgs :=
  applyModifiers_eFlags mods p.tokens inst h

/-- ... hence no party writes `e` twice in it. -/
theorem handshakeTokens_once {p : Pattern} {mods : List Modifier} {inst : Inst}
    (h : handshakeTokens p mods = .ok inst) (mine : Bool) : onceE mine (eFlags inst.msgs) = true := by
  rw [handshakeTokens_eFlags h]
  cases mine
  · exact (table_once p).2
  · exact (table_once p).1

/-! ### Reading the flags at a position -/

theorem eFlags_drop_of_lt (msgs : List (List Tok)) (i : Nat) (h : i < msgs.length) :
    (eFlags msgs).drop i = (msgs.getD i []).contains Tok.e :: (eFlags msgs).drop (i + 1) := by
  unfold eFlags
  rw [← List.map_drop, ← List.map_drop, List.drop_eq_getElem_cons h, List.map_cons]
  congr 2
  rw [List.getD_eq_getElem?_getD, List.getElem?_eq_getElem h]; rfl

theorem getD_of_ge (msgs : List (List Tok)) (i : Nat) (h : msgs.length ≤ i) : msgs.getD i [] = [] := by
  rw [List.getD_eq_getElem?_getD, List.getElem?_eq_none h]; rfl

end SnowVerif.Lemmas.C07Reach
