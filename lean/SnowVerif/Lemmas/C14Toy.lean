/-
  C14: the toy suite satisfies the length laws the framing theorems assume (`EncLen`, `PubLen`,
  `DecLen`), so the theorems apply to the concrete toy-suite examples (non-vacuity).
-/
import SnowVerif.Crypto.Toy
import SnowVerif.Lemmas.C14Len

namespace SnowVerif.C14Toy
open SnowVerif SnowVerif.Bytes
set_option linter.unusedSimpArgs false

theorem le64_len (n : UInt64) : (le64 n).length = 8 := by simp [le64]

theorem hash32_len (tag : UInt8) (d : Bytes) : (Toy.hash tag 32 d).length = 32 := by
  unfold Toy.hash
  simp only [List.length_flatMap, le64_len]
  decide

theorem fit_len (n : Nat) (b : Bytes) : (fit n b).length = n := by
  unfold fit zeros; simp

theorem keystream_len (tag : UInt8) (key : Bytes) (n : UInt64) (len : Nat) :
    (Toy.keystream tag key n len).length = len := by
  unfold Toy.keystream
  simp only [List.length_take, List.length_flatMap, Toy.ksBlock, hash32_len]
  simp only [List.map_const', List.length_range, List.sum_replicate_nat]
  omega

theorem enc_len (tag : UInt8) (key : Bytes) (n : UInt64) (ad pt : Bytes) :
    (Toy.enc tag key n ad pt).length = pt.length + 16 := by
  unfold Toy.enc Toy.mac Bytes.xor
  simp [keystream_len, hash32_len]

/-- The toy AEAD adds exactly 16 bytes. -/
theorem toy_encLen (a b c : Nat) : (Toy.suite a b c).EncLen := by
  intro k n ad p; exact enc_len _ _ _ _ _

/-- The toy AEAD returns a plaintext 16 bytes shorter than an accepted ciphertext. -/
theorem toy_decLen (a b c : Nat) : (Toy.suite a b c).DecLen := by
  intro k n ad ct p h
  change Toy.dec _ k n ad ct = some p at h
  unfold Toy.dec at h
  split at h
  · simp at h
  · simp only at h
    split at h
    · simp only [Option.some.injEq] at h
      subst h
      unfold Bytes.xor
      simp [keystream_len]
    · simp at h

/-- Toy public keys have `pub_len` bytes (all three toy DH sizes). -/
theorem toy_pubLen (a b c : Nat) : (Toy.suite a b c).PubLen := by
  intro x
  have h : ∀ pl, 32 ≤ pl → (Toy.pubOf (UInt8.ofNat (0x10 + a)) pl x).length = pl := by
    intro pl hpl
    unfold Toy.pubOf Bytes.xor Toy.dhTail Toy.dhConst
    simp [fit_len]
    omega
  rcases a with _ | _ | a
  · exact h 32 (by omega)
  · exact h 56 (by omega)
  · exact h 65 (by omega)

end SnowVerif.C14Toy
