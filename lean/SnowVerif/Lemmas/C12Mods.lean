/-
  C12, modifier part: exact behaviour of `applyPsk` / `applyModifiers`
  (`apply_psk_modifier` and the modifier loop of `HandshakeTokens::try_from`).
-/
import SnowVerif.Lemmas.C12Tables

namespace SnowVerif.Lemmas.C12
open SnowVerif SnowVerif.Model SnowVerif.Generated
set_option linter.unusedVariables false
set_option linter.unusedSimpArgs false

/-- A modifier the loop accepts for a pattern with `len` messages: `psk n` with
    `n.saturating_sub(1) < len`.  (`fallback` is never accepted.) -/
def modFits (len : Nat) : Modifier → Bool
  | .psk n => decide (n - 1 < len)
  | .fallback => false

/-- For a pattern with at least one message, `psk n` fits iff `n ≤ #messages`. -/
theorem modFits_psk_iff (len n : Nat) (h : 0 < len) : modFits len (.psk n) = true ↔ n ≤ len := by
  simp only [modFits, decide_eq_true_eq]; omega

theorem modFits_iff (len : Nat) (m : Modifier) (h : 0 < len) :
    modFits len m = true ↔ ∃ n, m = .psk n ∧ n ≤ len := by
  cases m with
  | psk n => simp [modFits_psk_iff len n h]
  | fallback => simp [modFits]

/-- The error the loop returns at the first modifier that does not fit. -/
def modsError : Modifier → Err
  | .psk _ => .pattern .invalidPsk
  | .fallback => .pattern .unsupportedModifier

/-- Tokens the modifiers put in front of message `i` (0-based): one `psk0` per `psk0`
    modifier, in front of the first message only. -/
def frontToks (mods : List Modifier) (i : Nat) : List Tok :=
  if i = 0 then List.replicate (mods.count (.psk 0)) (Tok.psk 0) else []

/-- Tokens the modifiers append to message `i` (0-based): one `psk(i+1)` per `psk(i+1)` modifier. -/
def backToks (mods : List Modifier) (i : Nat) : List Tok :=
  List.replicate (mods.count (.psk (i + 1))) (Tok.psk (i + 1))

/-- The instance after all (fitting) modifiers were applied. -/
def withPsks (inst : Inst) (mods : List Modifier) : Inst :=
  { inst with msgs := inst.msgs.mapIdx fun i m => frontToks mods i ++ m ++ backToks mods i }

@[simp] theorem withPsks_preI (inst : Inst) (mods) : (withPsks inst mods).preI = inst.preI := rfl
@[simp] theorem withPsks_preR (inst : Inst) (mods) : (withPsks inst mods).preR = inst.preR := rfl
@[simp] theorem withPsks_length (inst : Inst) (mods) :
    (withPsks inst mods).msgs.length = inst.msgs.length := by simp [withPsks]

theorem withPsks_getElem (inst : Inst) (mods) (i : Nat) (h : i < inst.msgs.length) :
    (withPsks inst mods).msgs[i]'(by simpa using h) =
      frontToks mods i ++ inst.msgs[i] ++ backToks mods i := by
  simp [withPsks]

theorem withPsks_nil (inst : Inst) : withPsks inst [] = inst := by
  cases inst with
  | mk a b msgs =>
    simp only [withPsks, Inst.mk.injEq, true_and]
    apply List.ext_getElem
    · simp
    · intro i h1 h2; simp [frontToks, backToks]

theorem applyPsk_eq (inst : Inst) (n : Nat) :
    applyPsk inst n =
      if n - 1 < inst.msgs.length then
        .ok { inst with msgs := inst.msgs.modify (n - 1) fun toks =>
                if n = 0 then Tok.psk 0 :: toks else toks ++ [Tok.psk n] }
      else .err (.pattern .invalidPsk) := by
  unfold applyPsk
  cases n <;> simp

/-- One modifier applied first, then the rest = all of them applied. -/
theorem withPsks_cons (inst : Inst) (n : Nat) (rest : List Modifier) :
    withPsks { inst with msgs := inst.msgs.modify (n - 1) fun toks =>
                 if n = 0 then Tok.psk 0 :: toks else toks ++ [Tok.psk n] } rest =
    withPsks inst (.psk n :: rest) := by
  cases inst with
  | mk a b msgs =>
    simp only [withPsks, Inst.mk.injEq, true_and]
    apply List.ext_getElem
    · simp
    · intro j h1 h2
      simp only [List.getElem_mapIdx, List.getElem_modify]
      cases n with
      | zero =>
        by_cases hj : j = 0
        · subst hj
          simp [frontToks, backToks, List.count_cons, List.replicate_succ']
        · have : ¬ (0 = j) := fun h => hj h.symm
          simp [frontToks, backToks, List.count_cons, hj, this]
      | succ k =>
        by_cases hj : k = j
        · subst hj
          simp [frontToks, backToks, List.count_cons, List.replicate_succ]
        · have : ¬ (j = k) := fun h => hj h.symm
          simp [frontToks, backToks, List.count_cons, hj, this]

/-- **Exact outcome of the modifier loop** for every instance and every modifier list:
    the first modifier that does not fit decides the error; if all fit the result is
    `withPsks inst mods`. -/
theorem applyModifiers_eq (inst : Inst) (mods : List Modifier) :
    applyModifiers inst mods =
      match mods.find? (fun m => !modFits inst.msgs.length m) with
      | none => .ok (withPsks inst mods)
      | some m => .err (modsError m) := by
  induction mods generalizing inst with
  | nil => simp [applyModifiers, withPsks_nil]
  | cons m rest ih =>
    cases m with
    | fallback => simp [applyModifiers, modFits, modsError]
    | psk n =>
      have hm : modFits inst.msgs.length (.psk n) = decide (n - 1 < inst.msgs.length) := rfl
      simp only [applyModifiers, applyPsk_eq, List.find?_cons, hm]
      by_cases h : n - 1 < inst.msgs.length
      · simp only [h, ↓reduceIte, decide_true, Bool.not_true]
        rw [ih]
        simp only [List.length_modify, withPsks_cons]
      · simp [h, modsError]

/-- Every `psk n` token of the result is either one the instance already had, or was put
    there by a modifier and then `n ≤ #messages`. -/
theorem psk_mem_withPsks (inst : Inst) (mods : List Modifier)
    (hbase : ∀ m ∈ inst.msgs, ∀ n, Tok.psk n ∈ m → n ≤ inst.msgs.length) :
    ∀ m ∈ (withPsks inst mods).msgs, ∀ n, Tok.psk n ∈ m → n ≤ inst.msgs.length := by
  intro m hm n hn
  obtain ⟨i, hi, rfl⟩ := List.mem_iff_getElem.mp hm
  have hi' : i < inst.msgs.length := by simpa using hi
  rw [withPsks_getElem inst mods i hi'] at hn
  simp only [List.mem_append] at hn
  rcases hn with (hn | hn) | hn
  · unfold frontToks at hn
    split at hn
    · simp only [List.mem_replicate, Tok.psk.injEq] at hn; omega
    · simp at hn
  · exact hbase _ (List.getElem_mem hi') n hn
  · simp only [backToks, List.mem_replicate, Tok.psk.injEq] at hn; omega

/-- `HandshakeChoice::is_psk`: some modifier is a `psk`. -/
theorem isPskMods_iff (mods : List Modifier) : isPskMods mods = true ↔ ∃ n, Modifier.psk n ∈ mods := by
  unfold isPskMods
  simp only [List.any_eq_true]
  constructor
  · rintro ⟨m, hm, h⟩
    cases m with
    | psk n => exact ⟨n, hm⟩
    | fallback => simp at h
  · rintro ⟨n, hn⟩; exact ⟨_, hn, rfl⟩

end SnowVerif.Lemmas.C12
