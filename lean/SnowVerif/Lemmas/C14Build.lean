/-
  C14: what `Builder::build` guarantees for the framing theorems: the agreement condition
  `PskOkMsgs`, the initial keyedness, and the key-length side conditions `KeysWf`.
-/
import SnowVerif.Lemmas.C14Write
import SnowVerif.Lemmas.C14Spec

namespace SnowVerif.Framing
open SnowVerif SnowVerif.Model SnowVerif.Model.HS
set_option linter.unusedVariables false
set_option linter.unusedSimpArgs false

/-- Mixing pre-message keys into the hash never sets `has_key`. -/
theorem mixPremsg_hasKey (S : Suite) (mine : Bool) (s e : Toggle KeyPair) (rs re : Toggle Bytes)
    (ts : List Tok) (sym sym' : Sym) (h : mixPremsg S mine s e rs re ts sym = .ok sym') :
    sym'.hasKey = sym.hasKey := by
  induction ts generalizing sym with
  | nil => simp only [mixPremsg, Res.ok.injEq] at h; rw [← h]
  | cons t ts ih =>
    simp only [mixPremsg] at h
    split at h
    · rw [ih _ h]; rfl
    · simp at h
    · simp at h

/-- Peel one `if .. then Err(..)` guard off a successful outcome. -/
theorem ite_err_ok {α : Type} {c : Prop} [Decidable c] {e : Err} {x : Res α} {a : α}
    (h : (if c then Res.err e else x) = .ok a) : x = .ok a := by
  split at h
  · cases h
  · exact h

/-- Peel one `if .. then panic` guard off a successful outcome. -/
theorem ite_panic_ok {α : Type} {c : Prop} [Decidable c] {e : String} {x : Res α} {a : α}
    (h : (if c then Res.panic e else x) = .ok a) : x = .ok a := by
  split at h
  · cases h
  · exact h

/-- **Built states.** A state returned by `Builder::build` carries the token lists of a table
    pattern with an accepted modifier list, hence satisfies the agreement condition `PskOkMsgs`;
    it is at position 0 and un-keyed; and (by `PubLen`) its local public keys have `pub_len` bytes. -/
theorem build_facts (S : Suite) (hP : S.PubLen) (av : Avail) (c : BuildCfg) (hs : HS) (h : build S av c = .ok hs) :
    PskOkMsgs hs.isPsk hs.msgs false = true ∧ hs.pos = 0 ∧ hs.sym.hasKey = false ∧ HS.KeysWf S hs := by
  unfold build at h
  replace h := ite_err_ok h
  replace h := ite_err_ok h
  replace h := ite_err_ok h
  replace h := ite_err_ok h
  replace h := ite_err_ok h
  replace h := ite_err_ok h
  replace h := ite_err_ok h
  replace h := ite_panic_ok h
  replace h := ite_panic_ok h
  extract_lets zkp s e rs re at h
  replace h := ite_err_ok h
  cases hi : handshakeTokens c.pattern c.mods with
  | err e => rw [hi] at h; cases h
  | panic q => rw [hi] at h; cases h
  | ok inst =>
    rw [hi] at h
    simp only at h
    split at h
    · cases h
    · cases h
    · rename_i sym hsym
      simp only [Res.ok.injEq] at h
      subst h
      simp only
      refine ⟨pskOk_tables _ _ _ hi, trivial, ?_, ?_⟩
      rotate_left
      · refine ⟨?_, ?_⟩
        · show s.val.pub.length = S.pubLen
          cases hcs : c.s with
          | none => simp [s, hcs, zkp, Bytes.zeros]
          | some k => simp [s, hcs, hP k]
        · show c.eFixed.isSome = true → e.val.pub.length = S.pubLen
          cases hce : c.eFixed with
          | none => simp
          | some k => simp [e, hce, hP k]
      have h0 : (Sym.mixHash S (Sym.init S c.name) c.prologue).hasKey = false := rfl
      split at hsym
      · split at hsym
        · rename_i sym1 h1
          rw [mixPremsg_hasKey _ _ _ _ _ _ _ _ _ hsym, mixPremsg_hasKey _ _ _ _ _ _ _ _ _ h1, h0]
        · rename_i x hx
          exact absurd hsym (hx sym)
      · split at hsym
        · rename_i sym1 h1
          rw [mixPremsg_hasKey _ _ _ _ _ _ _ _ _ hsym, mixPremsg_hasKey _ _ _ _ _ _ _ _ _ h1, h0]
        · rename_i x hx
          exact absurd hsym (hx sym)

end SnowVerif.Framing
