/-
  Lockstep of writer and reader over one whole handshake message (both role assignments).
  (The A/B pairs are instances of one template; see DESIGN.md.)
-/
import SnowVerif.Lemmas.Honest2

open SnowVerif SnowVerif.Model SnowVerif.Model.HS
set_option linter.unusedVariables false
set_option linter.unusedSimpArgs false

namespace SnowVerif.Model.HS
open Bytes

/-- What `_write_message` returns when the token loop and the payload encryption succeed. -/
theorem writeInner_ok_honest (S : Suite) (hs : HS) (p : Bytes) (cap : Nat) (w' : WS)
    (ht : hs.myTurn = true) (hp : hs.pos < hs.msgs.length)
    (hw : writeToks S cap (hs.msgs.getD hs.pos []) { hs := hs, acc := [], ev := [] } = (.ok (), w'))
    (hc1 : w'.acc.length + p.length + 16 ≤ cap)
    (hc2 : w'.acc.length + p.length + 16 ≤ 65535)
    (inv : SymInv w'.hs.sym) (hn : w'.hs.sym.hasKey = true → w'.hs.sym.cs.n ≠ CipherState.nonceMax) :
    writeInner S hs p cap =
      (.ok (w'.acc.length + (fieldBytes S w'.hs.sym p).length),
       { hs := (if w'.hs.pos == w'.hs.msgs.length - 1 then
                  { w'.hs with sym := symAfterField S w'.hs.sym p,
                               cs1 := ((symAfterField S w'.hs.sym p).split S).1,
                               cs2 := ((symAfterField S w'.hs.sym p).split S).2 }
                else { w'.hs with sym := symAfterField S w'.hs.sym p }),
         acc := w'.acc ++ fieldBytes S w'.hs.sym p,
         ev := w'.ev ++ (w'.hs.sym.encryptAndMixHash S p (cap - w'.acc.length)).2.2 }) := by
  have henc := encrypt_field S w'.hs.sym p (cap - w'.acc.length) inv hn (by omega)
  have g1 : ¬ hs.pos ≥ hs.msgs.length := by omega
  have g2 : ¬ w'.acc.length + p.length + 16 > cap := by omega
  have g3 : ¬ w'.acc.length + p.length + (if w'.hs.sym.hasKey = true then 16 else 0) > 65535 := by
    split <;> omega
  unfold writeInner
  simp only [ht, Bool.not_true, Bool.false_eq_true, ↓reduceIte, g1, hw, g2, g3, henc.1, henc.2]

end SnowVerif.Model.HS

namespace SnowVerif.Model.HS
open Bytes

/-- What `_read_message` returns when the token loop succeeds and the payload field is the honest
    encryption of `p` under the state reached. -/
theorem readInner_ok_honest (S : Suite) (hDE : S.DecEnc) (hEL : S.EncLen) (hs : HS) (f p : Bytes) (cap : Nat) (R' : HS) (evr : List Event)
    (ht : hs.myTurn = false) (hp : hs.pos < hs.msgs.length)
    (hr : readToks S (hs.msgs.getD hs.pos []) { hs := hs, ptr := f ++ fieldBytes S R'.sym p, ev := [] }
            = (.ok (), { hs := R', ptr := fieldBytes S R'.sym p, ev := [] ++ evr }))
    (hlen : (f ++ fieldBytes S R'.sym p).length ≤ 65535) (hcap : p.length ≤ cap)
    (inv : SymInv R'.sym) (hn : R'.sym.hasKey = true → R'.sym.cs.n ≠ CipherState.nonceMax) :
    (readInner S hs (f ++ fieldBytes S R'.sym p) cap).1 = .ok p ∧
    (readInner S hs (f ++ fieldBytes S R'.sym p) cap).2.1 =
      (if hs.pos == hs.msgs.length - 1 then
         { R' with sym := symAfterField S R'.sym p,
                   cs1 := ((symAfterField S R'.sym p).split S).1,
                   cs2 := ((symAfterField S R'.sym p).split S).2 }
       else { R' with sym := symAfterField S R'.sym p }) := by
  have hdec := decrypt_field S hDE hEL R'.sym p cap inv hn hcap
  have hfl := fieldBytes_length S hEL R'.sym p
  have hf := symAfterField_facts S R'.sym p inv hn
  have g0 : ¬ (f ++ fieldBytes S R'.sym p).length > 65535 := by omega
  have g1 : ¬ hs.pos ≥ hs.msgs.length := by omega
  unfold readInner
  simp only [g0, ↓reduceIte, ht, Bool.false_eq_true, g1, hr, hdec.1, hdec.2]
  have htake : p.take ((fieldBytes S R'.sym p).length -
      (if (symAfterField S R'.sym p).hasKey = true then 16 else 0)) = p := by
    rw [hfl, hf.1]
    have : p.length + (if R'.sym.hasKey = true then 16 else 0) - (if R'.sym.hasKey = true then 16 else 0) = p.length := by
      split <;> omega
    rw [this]; simp
  constructor
  · split <;> simp only [htake]
  · trivial

end SnowVerif.Model.HS

namespace SnowVerif.Model.HS
open Bytes

/-- Control fields the two honest parties share. -/
structure Ctl (A B : HS) : Prop where
  msgs : A.msgs = B.msgs
  pos : A.pos = B.pos
  cs1 : A.cs1 = B.cs1
  cs2 : A.cs2 = B.cs2

/-- One whole handshake message written by the initiator `A` and read by the responder `B`. -/
theorem msgA (S : Suite) (hEL : S.EncLen) (hDE : S.DecEnc) (hPL : S.PubLen) (hPT : S.PrivTotal)
    (hDC : S.DhComm) (hDT : S.DhTotal)
    {k k' : Spec.Keys} {A B : HS} (h : Sync S k A B) (c : Ctl A B) (okA : PartyOk S A) (okB : PartyOk S B)
    (hturnW : A.myTurn = true) (hturnR : B.myTurn = false) (hlt : A.pos < A.msgs.length)
    (hk : k.runMsg true (A.msgs.getD A.pos []) = some k')
    (hs_on : Tok.s ∈ A.msgs.getD A.pos [] → A.s.on = true)
    (hpsk : ∀ n, Tok.psk n ∈ A.msgs.getD A.pos [] → n < 10 ∧ ∃ key, A.psks.getD n none = some key)
    (hn : A.sym.cs.n.toNat + (A.msgs.getD A.pos []).length + 1 < 2 ^ 64 - 1)
    (p : Bytes) (cap capr : Nat)
    (hcap : (A.msgs.getD A.pos []).length * (S.pubLen + 16) + p.length + 16 ≤ cap)
    (hmax : (A.msgs.getD A.pos []).length * (S.pubLen + 16) + p.length + 16 ≤ 65535)
    (hcapr : p.length ≤ capr) :
    (A.writeMessage S p cap).1 = .ok (A.writeMessage S p cap).2.2.1.length ∧
    (B.readMessage S (A.writeMessage S p cap).2.2.1 capr).1 = .ok p ∧
    Sync S k' (A.writeMessage S p cap).2.1 (B.readMessage S (A.writeMessage S p cap).2.2.1 capr).2.1 ∧ Ctl (A.writeMessage S p cap).2.1 (B.readMessage S (A.writeMessage S p cap).2.2.1 capr).2.1 ∧
    PartyOk S (A.writeMessage S p cap).2.1 ∧ PartyOk S (B.readMessage S (A.writeMessage S p cap).2.2.1 capr).2.1 ∧
    (A.writeMessage S p cap).2.1.myTurn = false ∧ (B.readMessage S (A.writeMessage S p cap).2.2.1 capr).2.1.myTurn = true ∧
    (A.writeMessage S p cap).2.1.pos = A.pos + 1 ∧ (A.writeMessage S p cap).2.1.msgs = A.msgs ∧
    (A.writeMessage S p cap).2.1.s = A.s ∧ (B.readMessage S (A.writeMessage S p cap).2.2.1 capr).2.1.s = B.s ∧
    (A.writeMessage S p cap).2.1.psks = A.psks ∧
    (A.writeMessage S p cap).2.1.sym.cs.n.toNat ≤ A.sym.cs.n.toNat + (A.msgs.getD A.pos []).length + 1 ∧
    (A.pos = A.msgs.length - 1 →
      (A.writeMessage S p cap).2.1.cs1 = ((A.writeMessage S p cap).2.1.sym.split S).1 ∧
      (A.writeMessage S p cap).2.1.cs2 = ((A.writeMessage S p cap).2.1.sym.split S).2) := by
  -- the token loop
  simp only [Spec.Keys.runMsg] at hk
  cases hk1 : k.runToks true (A.msgs.getD A.pos []) with
  | none => rw [hk1] at hk; simp at hk
  | some k1 =>
    rw [hk1] at hk
    simp only [Option.bind_some] at hk
    have hkk : k1 = k' := by
      split at hk
      · exact Option.some.inj hk
      · simp at hk
    subst hkk
    obtain ⟨f, w', R1, evr1, hw', hacc, hfl, hnb, hs1, hrd⟩ :=
      toksA S hEL hDE hPL hPT hDC hDT (A.msgs.getD A.pos []) h okA hk1 hs_on hpsk (by omega)
        { hs := A, acc := [], ev := [] } rfl cap (by simp only [List.length_nil]; omega)
    simp only [List.nil_append] at hacc
    have hfrW := writeToks_frame S cap (A.msgs.getD A.pos []) { hs := A, acc := [], ev := [] }
    rw [hw'] at hfrW
    simp only at hfrW
    have invW' : SymInv w'.hs.sym := by
      have := writeToks_inv S cap (A.msgs.getD A.pos []) { hs := A, acc := [], ev := [] } okA.inv
      rw [hw'] at this; exact this
    have hnW' : w'.hs.sym.hasKey = true → w'.hs.sym.cs.n ≠ CipherState.nonceMax :=
      fun _ => nonce_ne_max_of_lt _ (by omega)
    have hWI := writeInner_ok_honest S A p cap w' hturnW hlt hw' (by rw [hacc]; omega) (by rw [hacc]; omega) invW' hnW'
    have hfb := fieldBytes_length S hEL w'.hs.sym p
    have hsf := symAfterField_facts S w'.hs.sym p invW' hnW'
    -- reader
    have hsymR1 : R1.sym = w'.hs.sym := hs1.sym.symm
    have hposR : B.pos = A.pos := c.pos.symm
    have hmsgsR : B.msgs = A.msgs := c.msgs.symm
    have hltR : B.pos < B.msgs.length := by rw [hposR, hmsgsR]; exact hlt
    have hrd0 := hrd { hs := B, ptr := f ++ fieldBytes S R1.sym p, ev := [] } (fieldBytes S R1.sym p) rfl rfl
    rw [← hposR, ← hmsgsR] at hrd0
    have hRI := readInner_ok_honest S hDE hEL B f p capr R1 evr1 hturnR hltR hrd0
      (by rw [List.length_append, hsymR1, hfb]; split <;> omega) hcapr (by rw [hsymR1]; exact invW')
      (by rw [hsymR1]; exact hnW')
    have hfrR := readToks_frame S (B.msgs.getD B.pos []) { hs := B, ptr := f ++ fieldBytes S R1.sym p, ev := [] }
    rw [hrd0] at hfrR
    simp only at hfrR
    have hwm1 : (A.writeMessage S p cap).1 = .ok (w'.acc.length + (fieldBytes S w'.hs.sym p).length) := by
      unfold writeMessage; simp only [hWI]
    have hwm3 : (A.writeMessage S p cap).2.2.1 = w'.acc ++ fieldBytes S w'.hs.sym p := by
      unfold writeMessage; simp only [hWI]
    have hwm2 : (A.writeMessage S p cap).2.1 =
        { (if w'.hs.pos == w'.hs.msgs.length - 1 then
            { w'.hs with sym := symAfterField S w'.hs.sym p,
                         cs1 := ((symAfterField S w'.hs.sym p).split S).1,
                         cs2 := ((symAfterField S w'.hs.sym p).split S).2 }
           else { w'.hs with sym := symAfterField S w'.hs.sym p }) with
          pos := (if w'.hs.pos == w'.hs.msgs.length - 1 then
            { w'.hs with sym := symAfterField S w'.hs.sym p,
                         cs1 := ((symAfterField S w'.hs.sym p).split S).1,
                         cs2 := ((symAfterField S w'.hs.sym p).split S).2 }
           else { w'.hs with sym := symAfterField S w'.hs.sym p }).pos + 1, myTurn := false } := by
      unfold writeMessage; simp only [hWI]
    have hmsgeq : (A.writeMessage S p cap).2.2.1 = f ++ fieldBytes S R1.sym p := by rw [hwm3, hacc, hsymR1]
    have hrm1 : (B.readMessage S (A.writeMessage S p cap).2.2.1 capr).1 = .ok p := by
      rw [hmsgeq]; unfold readMessage; simp only [hRI.1]
    have hrm2 : (B.readMessage S (A.writeMessage S p cap).2.2.1 capr).2.1 =
        { (if B.pos == B.msgs.length - 1 then
            { R1 with sym := symAfterField S R1.sym p,
                      cs1 := ((symAfterField S R1.sym p).split S).1,
                      cs2 := ((symAfterField S R1.sym p).split S).2 }
           else { R1 with sym := symAfterField S R1.sym p }) with
          pos := (if B.pos == B.msgs.length - 1 then
            { R1 with sym := symAfterField S R1.sym p,
                      cs1 := ((symAfterField S R1.sym p).split S).1,
                      cs2 := ((symAfterField S R1.sym p).split S).2 }
           else { R1 with sym := symAfterField S R1.sym p }).pos + 1, myTurn := true } := by
      rw [hmsgeq]; unfold readMessage; simp only [hRI.1, hRI.2]
    refine ⟨by rw [hwm1, hwm3, List.length_append], hrm1, ?_⟩
    rw [hwm2, hrm2]
    · have hlast : (w'.hs.pos == w'.hs.msgs.length - 1) = (B.pos == B.msgs.length - 1) := by
        rw [hfrW.pos, hfrW.msgs, hposR, hmsgsR]
      have hlastW : (w'.hs.pos == w'.hs.msgs.length - 1) = (A.pos == A.msgs.length - 1) := by
        rw [hfrW.pos, hfrW.msgs]
      rw [hlast]
      rw [hsymR1]
      have okW1 : PartyOk S w'.hs := by
        have := writeTok_partyOk
        exact ⟨invW', by rw [hfrW.s]; exact okA.sPub, fun hfix => by
          have he := writeToks_e_facts S cap (A.msgs.getD A.pos []) { hs := A, acc := [], ev := [] }
          rw [hw'] at he
          rw [hfrW.fixedE] at hfix
          rw [he.2 (Or.inl hfix)]; exact okA.ePub hfix⟩
      have okR1 : PartyOk S R1 :=
        ⟨by rw [hsymR1]; exact invW', by rw [hfrR.s]; exact okB.sPub,
         fun hfix => by rw [hfrR.fixedE] at hfix; rw [hfrR.e]; exact okB.ePub hfix⟩
      cases hl : (B.pos == B.msgs.length - 1) with
      | true =>
        simp only [↓reduceIte]
        refine ⟨⟨hs1.ia, hs1.ib, rfl, hs1.isPsk, hs1.psks, hs1.iE, hs1.iS, hs1.rE, hs1.rS, hs1.niS, hs1.nrS⟩, ⟨by simp only [hfrW.msgs, hfrR.msgs, c.msgs], by simp only [hfrW.pos, hfrR.pos, c.pos], by first | rfl | trivial, by first | rfl | trivial⟩,
          ⟨hsf.2.1, okW1.sPub, okW1.ePub⟩, ⟨hsf.2.1, okR1.sPub, okR1.ePub⟩, ?_, ?_, ?_, ?_, ?_, ?_, ?_, ?_, ?_⟩
        all_goals first
          | rfl | trivial | exact hfrW.msgs | exact hfrW.s | exact hfrR.s | exact hfrW.psks
          | (simp only [hfrW.pos]) | (intro _; exact ⟨rfl, rfl⟩) | (intro _; trivial)
          | (have := hsf.2.2.1; omega) | (have := hsf.2.2.1; simp only at this ⊢; omega)
      | false =>
        simp only [Bool.false_eq_true, ↓reduceIte]
        refine ⟨⟨hs1.ia, hs1.ib, rfl, hs1.isPsk, hs1.psks, hs1.iE, hs1.iS, hs1.rE, hs1.rS, hs1.niS, hs1.nrS⟩, ⟨by simp only [hfrW.msgs, hfrR.msgs, c.msgs], by simp only [hfrW.pos, hfrR.pos, c.pos], by simp only [hfrW.cs1, hfrR.cs1, c.cs1], by simp only [hfrW.cs2, hfrR.cs2, c.cs2]⟩,
          ⟨hsf.2.1, okW1.sPub, okW1.ePub⟩, ⟨hsf.2.1, okR1.sPub, okR1.ePub⟩, ?_, ?_, ?_, ?_, ?_, ?_, ?_, ?_, ?_⟩
        all_goals first
          | rfl | trivial | exact hfrW.msgs | exact hfrW.s | exact hfrR.s | exact hfrW.psks
          | (simp only [hfrW.pos])
          | (have := hsf.2.2.1; omega) | (have := hsf.2.2.1; simp only at this ⊢; omega)
          | (intro hpos; rw [← hposR, ← hmsgsR] at hpos; simp [hpos] at hl)


/-- One whole handshake message written by the responder `B` and read by the initiator `A`. -/
theorem msgB (S : Suite) (hEL : S.EncLen) (hDE : S.DecEnc) (hPL : S.PubLen) (hPT : S.PrivTotal)
    (hDC : S.DhComm) (hDT : S.DhTotal)
    {k k' : Spec.Keys} {A B : HS} (h : Sync S k A B) (c : Ctl A B) (okA : PartyOk S A) (okB : PartyOk S B)
    (hturnW : B.myTurn = true) (hturnR : A.myTurn = false) (hlt : B.pos < B.msgs.length)
    (hk : k.runMsg false (B.msgs.getD B.pos []) = some k')
    (hs_on : Tok.s ∈ B.msgs.getD B.pos [] → B.s.on = true)
    (hpsk : ∀ n, Tok.psk n ∈ B.msgs.getD B.pos [] → n < 10 ∧ ∃ key, A.psks.getD n none = some key)
    (hn : B.sym.cs.n.toNat + (B.msgs.getD B.pos []).length + 1 < 2 ^ 64 - 1)
    (p : Bytes) (cap capr : Nat)
    (hcap : (B.msgs.getD B.pos []).length * (S.pubLen + 16) + p.length + 16 ≤ cap)
    (hmax : (B.msgs.getD B.pos []).length * (S.pubLen + 16) + p.length + 16 ≤ 65535)
    (hcapr : p.length ≤ capr) :
    (B.writeMessage S p cap).1 = .ok (B.writeMessage S p cap).2.2.1.length ∧
    (A.readMessage S (B.writeMessage S p cap).2.2.1 capr).1 = .ok p ∧
    Sync S k' (A.readMessage S (B.writeMessage S p cap).2.2.1 capr).2.1 (B.writeMessage S p cap).2.1 ∧ Ctl (A.readMessage S (B.writeMessage S p cap).2.2.1 capr).2.1 (B.writeMessage S p cap).2.1 ∧
    PartyOk S (B.writeMessage S p cap).2.1 ∧ PartyOk S (A.readMessage S (B.writeMessage S p cap).2.2.1 capr).2.1 ∧
    (B.writeMessage S p cap).2.1.myTurn = false ∧ (A.readMessage S (B.writeMessage S p cap).2.2.1 capr).2.1.myTurn = true ∧
    (B.writeMessage S p cap).2.1.pos = B.pos + 1 ∧ (B.writeMessage S p cap).2.1.msgs = B.msgs ∧
    (B.writeMessage S p cap).2.1.s = B.s ∧ (A.readMessage S (B.writeMessage S p cap).2.2.1 capr).2.1.s = A.s ∧
    (B.writeMessage S p cap).2.1.psks = B.psks ∧
    (B.writeMessage S p cap).2.1.sym.cs.n.toNat ≤ B.sym.cs.n.toNat + (B.msgs.getD B.pos []).length + 1 ∧
    (B.pos = B.msgs.length - 1 →
      (B.writeMessage S p cap).2.1.cs1 = ((B.writeMessage S p cap).2.1.sym.split S).1 ∧
      (B.writeMessage S p cap).2.1.cs2 = ((B.writeMessage S p cap).2.1.sym.split S).2) := by
  -- the token loop
  simp only [Spec.Keys.runMsg] at hk
  cases hk1 : k.runToks false (B.msgs.getD B.pos []) with
  | none => rw [hk1] at hk; simp at hk
  | some k1 =>
    rw [hk1] at hk
    simp only [Option.bind_some] at hk
    have hkk : k1 = k' := by
      split at hk
      · exact Option.some.inj hk
      · simp at hk
    subst hkk
    obtain ⟨f, w', R1, evr1, hw', hacc, hfl, hnb, hs1, hrd⟩ :=
      toksB S hEL hDE hPL hPT hDC hDT (B.msgs.getD B.pos []) h okB hk1 hs_on hpsk (by omega)
        { hs := B, acc := [], ev := [] } rfl cap (by simp only [List.length_nil]; omega)
    simp only [List.nil_append] at hacc
    have hfrW := writeToks_frame S cap (B.msgs.getD B.pos []) { hs := B, acc := [], ev := [] }
    rw [hw'] at hfrW
    simp only at hfrW
    have invW' : SymInv w'.hs.sym := by
      have := writeToks_inv S cap (B.msgs.getD B.pos []) { hs := B, acc := [], ev := [] } okB.inv
      rw [hw'] at this; exact this
    have hnW' : w'.hs.sym.hasKey = true → w'.hs.sym.cs.n ≠ CipherState.nonceMax :=
      fun _ => nonce_ne_max_of_lt _ (by omega)
    have hWI := writeInner_ok_honest S B p cap w' hturnW hlt hw' (by rw [hacc]; omega) (by rw [hacc]; omega) invW' hnW'
    have hfb := fieldBytes_length S hEL w'.hs.sym p
    have hsf := symAfterField_facts S w'.hs.sym p invW' hnW'
    -- reader
    have hsymR1 : R1.sym = w'.hs.sym := hs1.sym
    have hposR : A.pos = B.pos := c.pos
    have hmsgsR : A.msgs = B.msgs := c.msgs
    have hltR : A.pos < A.msgs.length := by rw [hposR, hmsgsR]; exact hlt
    have hrd0 := hrd { hs := A, ptr := f ++ fieldBytes S R1.sym p, ev := [] } (fieldBytes S R1.sym p) rfl rfl
    rw [← hposR, ← hmsgsR] at hrd0
    have hRI := readInner_ok_honest S hDE hEL A f p capr R1 evr1 hturnR hltR hrd0
      (by rw [List.length_append, hsymR1, hfb]; split <;> omega) hcapr (by rw [hsymR1]; exact invW')
      (by rw [hsymR1]; exact hnW')
    have hfrR := readToks_frame S (A.msgs.getD A.pos []) { hs := A, ptr := f ++ fieldBytes S R1.sym p, ev := [] }
    rw [hrd0] at hfrR
    simp only at hfrR
    have hwm1 : (B.writeMessage S p cap).1 = .ok (w'.acc.length + (fieldBytes S w'.hs.sym p).length) := by
      unfold writeMessage; simp only [hWI]
    have hwm3 : (B.writeMessage S p cap).2.2.1 = w'.acc ++ fieldBytes S w'.hs.sym p := by
      unfold writeMessage; simp only [hWI]
    have hwm2 : (B.writeMessage S p cap).2.1 =
        { (if w'.hs.pos == w'.hs.msgs.length - 1 then
            { w'.hs with sym := symAfterField S w'.hs.sym p,
                         cs1 := ((symAfterField S w'.hs.sym p).split S).1,
                         cs2 := ((symAfterField S w'.hs.sym p).split S).2 }
           else { w'.hs with sym := symAfterField S w'.hs.sym p }) with
          pos := (if w'.hs.pos == w'.hs.msgs.length - 1 then
            { w'.hs with sym := symAfterField S w'.hs.sym p,
                         cs1 := ((symAfterField S w'.hs.sym p).split S).1,
                         cs2 := ((symAfterField S w'.hs.sym p).split S).2 }
           else { w'.hs with sym := symAfterField S w'.hs.sym p }).pos + 1, myTurn := false } := by
      unfold writeMessage; simp only [hWI]
    have hmsgeq : (B.writeMessage S p cap).2.2.1 = f ++ fieldBytes S R1.sym p := by rw [hwm3, hacc, hsymR1]
    have hrm1 : (A.readMessage S (B.writeMessage S p cap).2.2.1 capr).1 = .ok p := by
      rw [hmsgeq]; unfold readMessage; simp only [hRI.1]
    have hrm2 : (A.readMessage S (B.writeMessage S p cap).2.2.1 capr).2.1 =
        { (if A.pos == A.msgs.length - 1 then
            { R1 with sym := symAfterField S R1.sym p,
                      cs1 := ((symAfterField S R1.sym p).split S).1,
                      cs2 := ((symAfterField S R1.sym p).split S).2 }
           else { R1 with sym := symAfterField S R1.sym p }) with
          pos := (if A.pos == A.msgs.length - 1 then
            { R1 with sym := symAfterField S R1.sym p,
                      cs1 := ((symAfterField S R1.sym p).split S).1,
                      cs2 := ((symAfterField S R1.sym p).split S).2 }
           else { R1 with sym := symAfterField S R1.sym p }).pos + 1, myTurn := true } := by
      rw [hmsgeq]; unfold readMessage; simp only [hRI.1, hRI.2]
    refine ⟨by rw [hwm1, hwm3, List.length_append], hrm1, ?_⟩
    rw [hwm2, hrm2]
    · have hlast : (w'.hs.pos == w'.hs.msgs.length - 1) = (A.pos == A.msgs.length - 1) := by
        rw [hfrW.pos, hfrW.msgs, hposR, hmsgsR]
      have hlastW : (w'.hs.pos == w'.hs.msgs.length - 1) = (B.pos == B.msgs.length - 1) := by
        rw [hfrW.pos, hfrW.msgs]
      rw [hlast]
      rw [hsymR1]
      have okW1 : PartyOk S w'.hs := by
        have := writeTok_partyOk
        exact ⟨invW', by rw [hfrW.s]; exact okB.sPub, fun hfix => by
          have he := writeToks_e_facts S cap (B.msgs.getD B.pos []) { hs := B, acc := [], ev := [] }
          rw [hw'] at he
          rw [hfrW.fixedE] at hfix
          rw [he.2 (Or.inl hfix)]; exact okB.ePub hfix⟩
      have okR1 : PartyOk S R1 :=
        ⟨by rw [hsymR1]; exact invW', by rw [hfrR.s]; exact okA.sPub,
         fun hfix => by rw [hfrR.fixedE] at hfix; rw [hfrR.e]; exact okA.ePub hfix⟩
      cases hl : (A.pos == A.msgs.length - 1) with
      | true =>
        simp only [↓reduceIte]
        refine ⟨⟨hs1.ia, hs1.ib, rfl, hs1.isPsk, hs1.psks, hs1.iE, hs1.iS, hs1.rE, hs1.rS, hs1.niS, hs1.nrS⟩, ⟨by simp only [hfrW.msgs, hfrR.msgs, c.msgs], by simp only [hfrW.pos, hfrR.pos, c.pos], by first | rfl | trivial, by first | rfl | trivial⟩,
          ⟨hsf.2.1, okW1.sPub, okW1.ePub⟩, ⟨hsf.2.1, okR1.sPub, okR1.ePub⟩, ?_, ?_, ?_, ?_, ?_, ?_, ?_, ?_, ?_⟩
        all_goals first
          | rfl | trivial | exact hfrW.msgs | exact hfrW.s | exact hfrR.s | exact hfrW.psks
          | (simp only [hfrW.pos]) | (intro _; exact ⟨rfl, rfl⟩) | (intro _; trivial)
          | (have := hsf.2.2.1; omega) | (have := hsf.2.2.1; simp only at this ⊢; omega)
      | false =>
        simp only [Bool.false_eq_true, ↓reduceIte]
        refine ⟨⟨hs1.ia, hs1.ib, rfl, hs1.isPsk, hs1.psks, hs1.iE, hs1.iS, hs1.rE, hs1.rS, hs1.niS, hs1.nrS⟩, ⟨by simp only [hfrW.msgs, hfrR.msgs, c.msgs], by simp only [hfrW.pos, hfrR.pos, c.pos], by simp only [hfrW.cs1, hfrR.cs1, c.cs1], by simp only [hfrW.cs2, hfrR.cs2, c.cs2]⟩,
          ⟨hsf.2.1, okW1.sPub, okW1.ePub⟩, ⟨hsf.2.1, okR1.sPub, okR1.ePub⟩, ?_, ?_, ?_, ?_, ?_, ?_, ?_, ?_, ?_⟩
        all_goals first
          | rfl | trivial | exact hfrW.msgs | exact hfrW.s | exact hfrR.s | exact hfrW.psks
          | (simp only [hfrW.pos])
          | (have := hsf.2.2.1; omega) | (have := hsf.2.2.1; simp only at this ⊢; omega)
          | (intro hpos; rw [← hposR, ← hmsgsR] at hpos; simp [hpos] at hl)


end SnowVerif.Model.HS

namespace SnowVerif.Model.HS
open Bytes

theorem drop_cons_facts {α : Type} (l : List α) (i : Nat) (x : α) (xs : List α) (d : α) (h : l.drop i = x :: xs) :
    i < l.length ∧ l.getD i d = x ∧ l.drop (i + 1) = xs := by
  have hlt : i < l.length := by
    apply Classical.byContradiction
    intro hge
    have : l.drop i = [] := List.drop_eq_nil_of_le (by omega)
    rw [this] at h; simp at h
  have h1 := List.drop_eq_getElem_cons hlt
  rw [h1] at h
  simp only [List.cons.injEq] at h
  refine ⟨hlt, ?_, h.2⟩
  simp [List.getD, hlt, h.1]

/-- One step of an honest exchange: the party whose turn it is writes `p` into a `cap`-byte buffer,
    the message is delivered unmodified, the peer reads it into a `capr`-byte buffer. -/
def exchange (S : Suite) : Bool → HS → HS → List (Bytes × Nat × Nat) → Option (HS × HS)
  | _, A, B, [] => some (A, B)
  | true, A, B, (p, cap, capr) :: rest =>
    if (A.writeMessage S p cap).1 = .ok (A.writeMessage S p cap).2.2.1.length ∧
       (B.readMessage S (A.writeMessage S p cap).2.2.1 capr).1 = .ok p then
      exchange S false (A.writeMessage S p cap).2.1 (B.readMessage S (A.writeMessage S p cap).2.2.1 capr).2.1 rest
    else none
  | false, A, B, (p, cap, capr) :: rest =>
    if (B.writeMessage S p cap).1 = .ok (B.writeMessage S p cap).2.2.1.length ∧
       (A.readMessage S (B.writeMessage S p cap).2.2.1 capr).1 = .ok p then
      exchange S true (A.readMessage S (B.writeMessage S p cap).2.2.1 capr).2.1 (B.writeMessage S p cap).2.1 rest
    else none

/-- Sizes of the plan fit: every message with its payload fits its buffer and the 65535 limit,
    and every payload fits the reader's buffer. -/
def PlanOk (S : Suite) : List (List Tok) → List (Bytes × Nat × Nat) → Prop
  | [], [] => True
  | m :: ms, (p, cap, capr) :: rest =>
    m.length * (S.pubLen + 16) + p.length + 16 ≤ cap ∧ m.length * (S.pubLen + 16) + p.length + 16 ≤ 65535 ∧
    p.length ≤ capr ∧ PlanOk S ms rest
  | _, _ => False

/-- Static keys are supplied wherever the remaining messages make a party send `s`
    (`ini`: the initiator writes the first of the remaining messages). -/
def StaticsOk : Bool → List (List Tok) → Bool → Bool → Prop
  | _, [], _, _ => True
  | true, m :: ms, aOn, bOn => (Tok.s ∈ m → aOn = true) ∧ StaticsOk false ms aOn bOn
  | false, m :: ms, aOn, bOn => (Tok.s ∈ m → bOn = true) ∧ StaticsOk true ms aOn bOn

def totalFields : List (List Tok) → Nat
  | [] => 0
  | m :: ms => m.length + 1 + totalFields ms

end SnowVerif.Model.HS

namespace SnowVerif.Model.HS
open Bytes

/-- **The honest exchange of all remaining handshake messages succeeds** and keeps the two parties
    in lockstep, for every suite with the stated laws, every instance whose remaining messages the
    validity rules accept (`Spec.Keys.runMsgs`), every payload/buffer plan that fits. -/
theorem honest_exchange (S : Suite) (hEL : S.EncLen) (hDE : S.DecEnc) (hPL : S.PubLen) (hPT : S.PrivTotal)
    (hDC : S.DhComm) (hDT : S.DhTotal) (rem : List (List Tok)) :
    ∀ (ini : Bool) (k kf : Spec.Keys) (A B : HS) (plan : List (Bytes × Nat × Nat)),
      Sync S k A B → Ctl A B → PartyOk S A → PartyOk S B →
      A.myTurn = ini → B.myTurn = !ini → A.pos ≤ A.msgs.length →
      A.msgs.drop A.pos = rem →
      Spec.Keys.runMsgs ini k rem = some kf →
      StaticsOk ini rem A.s.on B.s.on →
      (∀ n m, m ∈ rem → Tok.psk n ∈ m → n < 10 ∧ ∃ key, A.psks.getD n none = some key) →
      A.sym.cs.n.toNat + totalFields rem < 2 ^ 64 - 1 →
      PlanOk S rem plan →
      ∃ A' B', exchange S ini A B plan = some (A', B') ∧ Sync S kf A' B' ∧ Ctl A' B' ∧
        A'.pos = A.msgs.length ∧ A'.msgs = A.msgs ∧ PartyOk S A' ∧ PartyOk S B' ∧
        A'.s = A.s ∧ B'.s = B.s ∧
        (rem ≠ [] → A'.cs1 = (A'.sym.split S).1 ∧ A'.cs2 = (A'.sym.split S).2) := by
  induction rem with
  | nil =>
    intro ini k kf A B plan h c okA okB ht1 ht2 hple hrem hk hst hpsk hn hplan
    cases plan with
    | cons x xs => simp [PlanOk] at hplan
    | nil =>
      simp only [Spec.Keys.runMsgs, Option.some.injEq] at hk
      subst hk
      have hpos : A.pos ≥ A.msgs.length := by
        apply Classical.byContradiction
        intro hlt
        have : A.pos < A.msgs.length := by omega
        have h1 := List.drop_eq_getElem_cons this
        rw [h1] at hrem; simp at hrem
        omega
      exact ⟨A, B, rfl, h, c, by omega, rfl, okA, okB, rfl, rfl, fun hne => absurd rfl hne⟩
  | cons m rest ih =>
    intro ini k kf A B plan h c okA okB ht1 ht2 hple hrem hk hst hpsk hn hplan
    obtain ⟨hlt, hget, hdrop⟩ := drop_cons_facts A.msgs A.pos m rest [] hrem
    cases plan with
    | nil => simp [PlanOk] at hplan
    | cons x xs =>
      obtain ⟨p, cap, capr⟩ := x
      simp only [PlanOk] at hplan
      obtain ⟨hcap, hmax, hcapr, hplan'⟩ := hplan
      simp only [Spec.Keys.runMsgs] at hk
      cases hk1 : k.runMsg ini m with
      | none => rw [hk1] at hk; simp at hk
      | some k1 =>
        rw [hk1] at hk
        simp only [Option.bind_some] at hk
        simp only [totalFields] at hn
        cases ini with
        | true =>
          simp only [StaticsOk] at hst
          obtain ⟨hsA, hst'⟩ := hst
          have hM := msgA S hEL hDE hPL hPT hDC hDT h c okA okB ht1 (by simpa using ht2) hlt
            (by rw [hget]; exact hk1) (by rw [hget]; exact hsA)
            (fun n hm => by rw [hget] at hm; exact hpsk n m List.mem_cons_self hm)
            (by rw [hget]; omega) p cap capr (by rw [hget]; exact hcap) (by rw [hget]; exact hmax) hcapr
          obtain ⟨m1, m2, m3, m4, m5, m6, m7, m8, m9, m10, m11, m12, m13, m14, m15⟩ := hM
          obtain ⟨A', B', hex, hs', hc', hp', hm', hoA, hoB, hsA', hsB', hcs⟩ :=
            ih false k1 kf _ _ xs m3 m4 m5 m6 m7 (by rw [m8]; rfl) (by rw [m9, m10]; omega)
              (by rw [m10, m9]; exact hdrop) hk
              (by rw [m11, m12]; exact hst')
              (fun n mm hmm hn' => by rw [m13]; exact hpsk n mm (List.mem_cons_of_mem _ hmm) hn')
              (by rw [hget] at m14; omega) hplan'
          refine ⟨A', B', ?_, hs', hc', by rw [hp', m10], by rw [hm', m10], hoA, hoB, by rw [hsA', m11],
            by rw [hsB', m12], fun _ => ?_⟩
          · simp only [exchange, m1, m2, and_self, ↓reduceIte]; exact hex
          · cases rest with
            | cons r rs => exact hcs (by simp)
            | nil =>
              -- this was the last message: the exchange of nothing more leaves the states as they are
              have hxs : xs = [] := by cases xs with | nil => rfl | cons y ys => simp [PlanOk] at hplan'
              subst hxs
              simp only [exchange, Option.some.injEq, Prod.mk.injEq] at hex
              have hlast : A.pos = A.msgs.length - 1 := by
                have : A.msgs.drop (A.pos + 1) = [] := hdrop
                have := List.drop_eq_nil_iff.mp this
                omega
              rw [← hex.1]
              exact m15 hlast
        | false =>
          simp only [StaticsOk] at hst
          obtain ⟨hsB, hst'⟩ := hst
          have hltB : B.pos < B.msgs.length := by rw [← c.pos, ← c.msgs]; exact hlt
          have hgetB : B.msgs.getD B.pos [] = m := by rw [← c.pos, ← c.msgs]; exact hget
          have hnB : B.sym.cs.n.toNat = A.sym.cs.n.toNat := by rw [h.sym]
          have hM := msgB S hEL hDE hPL hPT hDC hDT h c okA okB (by simpa using ht2) ht1 hltB
            (by rw [hgetB]; exact hk1) (by rw [hgetB]; exact hsB)
            (fun n hm => by rw [hgetB] at hm; exact hpsk n m List.mem_cons_self hm)
            (by rw [hgetB, hnB]; omega) p cap capr (by rw [hgetB]; exact hcap) (by rw [hgetB]; exact hmax) hcapr
          obtain ⟨m1, m2, m3, m4, m5, m6, m7, m8, m9, m10, m11, m12, m13, m14, m15⟩ := hM
          -- new A is the reader's successor
          have hAmsgs : (A.readMessage S (B.writeMessage S p cap).2.2.1 capr).2.1.msgs = A.msgs := by
            rw [m4.msgs, m10, c.msgs]
          have hApos : (A.readMessage S (B.writeMessage S p cap).2.2.1 capr).2.1.pos = A.pos + 1 := by
            rw [m4.pos, m9, c.pos]
          have hApsks : (A.readMessage S (B.writeMessage S p cap).2.2.1 capr).2.1.psks = A.psks := by
            rw [m3.psks, m13, h.psks]
          have hAn : (A.readMessage S (B.writeMessage S p cap).2.2.1 capr).2.1.sym.cs.n.toNat ≤
              A.sym.cs.n.toNat + m.length + 1 := by
            rw [m3.sym, ← hnB]; rw [hgetB] at m14; exact m14
          obtain ⟨A', B', hex, hs', hc', hp', hm', hoA, hoB, hsA', hsB', hcs⟩ :=
            ih true k1 kf _ _ xs m3 m4 m6 m5 m8 (by rw [m7]; rfl) (by rw [hApos, hAmsgs]; omega)
              (by rw [hAmsgs, hApos]; exact hdrop) hk
              (by rw [m12, m11]; exact hst')
              (fun n mm hmm hn' => by rw [hApsks]; exact hpsk n mm (List.mem_cons_of_mem _ hmm) hn')
              (by omega) hplan'
          refine ⟨A', B', ?_, hs', hc', by rw [hp', hAmsgs], by rw [hm', hAmsgs], hoA, hoB, by rw [hsA', m12],
            by rw [hsB', m11], fun _ => ?_⟩
          · simp only [exchange, m1, m2, and_self, ↓reduceIte]; exact hex
          · cases rest with
            | cons r rs => exact hcs (by simp)
            | nil =>
              have hxs : xs = [] := by cases xs with | nil => rfl | cons y ys => simp [PlanOk] at hplan'
              subst hxs
              simp only [exchange, Option.some.injEq, Prod.mk.injEq] at hex
              have hlast : B.pos = B.msgs.length - 1 := by
                have : A.msgs.drop (A.pos + 1) = [] := hdrop
                have := List.drop_eq_nil_iff.mp this
                rw [← c.pos, ← c.msgs]; omega
              have hB := m15 hlast
              rw [← hex.1, m4.cs1, m4.cs2, m3.sym]
              exact hB

end SnowVerif.Model.HS
