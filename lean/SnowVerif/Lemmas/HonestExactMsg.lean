/-
  Honest-run lemmas with the EXACT size conditions (audit finding F3), part 2:
  `msgA_exact` / `msgB_exact` are `msgA` / `msgB` of `Lemmas/Honest3.lean` with the size conditions
  the code really checks (`Framing.fieldsLen` / `Framing.msgLen`) instead of `pubLen + 16` bytes
  charged per token.  The proofs follow `Honest3.lean`; the token loop is run in a big buffer
  (`toksA`/`toksB`) and transferred to the real buffer with `writeToks_shrink`.
-/
import SnowVerif.Lemmas.HonestExact

open SnowVerif SnowVerif.Model SnowVerif.Model.HS SnowVerif.Framing
set_option linter.unusedVariables false
set_option linter.unusedSimpArgs false

namespace SnowVerif.Model.HS
open Bytes

/-- One whole handshake message written by the initiator `A` and read by the responder `B`, under the
    exact size conditions of the code (buffer: fixed fields + payload + 16; message at most 65535). -/
theorem msgA_exact (S : Suite) (hEL : S.EncLen) (hDE : S.DecEnc) (hPL : S.PubLen) (hPT : S.PrivTotal)
    (hDC : S.DhComm) (hDT : S.DhTotal)
    {k k' : Spec.Keys} {A B : HS} (h : Sync S k A B) (c : Ctl A B) (okA : PartyOk S A) (okB : PartyOk S B)
    (hturnW : A.myTurn = true) (hturnR : B.myTurn = false) (hlt : A.pos < A.msgs.length)
    (hk : k.runMsg true (A.msgs.getD A.pos []) = some k')
    (hs_on : Tok.s ∈ A.msgs.getD A.pos [] → A.s.on = true)
    (hpsk : ∀ n, Tok.psk n ∈ A.msgs.getD A.pos [] → n < 10 ∧ ∃ key, A.psks.getD n none = some key)
    (hn : A.sym.cs.n.toNat + (A.msgs.getD A.pos []).length + 1 < 2 ^ 64 - 1)
    (p : Bytes) (cap capr : Nat)
    (hcap : (fieldsLen S A.isPsk (A.msgs.getD A.pos []) A.sym.hasKey).1 + p.length + 16 ≤ cap)
    (hmax : msgLen S A.isPsk (A.msgs.getD A.pos []) A.sym.hasKey p.length ≤ 65535)
    (hcapr : p.length ≤ capr) :
    (A.writeMessage S p cap).1 = .ok (A.writeMessage S p cap).2.2.1.length ∧
    (B.readMessage S (A.writeMessage S p cap).2.2.1 capr).1 = .ok p ∧
    Sync S k' (A.writeMessage S p cap).2.1 (B.readMessage S (A.writeMessage S p cap).2.2.1 capr).2.1 ∧ Ctl (A.writeMessage S p cap).2.1 (B.readMessage S (A.writeMessage S p cap).2.2.1 capr).2.1 ∧
    PartyOk S (A.writeMessage S p cap).2.1 ∧ PartyOk S (B.readMessage S (A.writeMessage S p cap).2.2.1 capr).2.1 ∧
    (A.writeMessage S p cap).2.1.myTurn = false ∧ (B.readMessage S (A.writeMessage S p cap).2.2.1 capr).2.1.myTurn = true ∧
    (A.writeMessage S p cap).2.1.pos = A.pos + 1 ∧ (A.writeMessage S p cap).2.1.msgs = A.msgs ∧
    (A.writeMessage S p cap).2.1.s = A.s ∧ (B.readMessage S (A.writeMessage S p cap).2.2.1 capr).2.1.s = B.s ∧
    (A.writeMessage S p cap).2.1.psks = A.psks ∧
    (A.writeMessage S p cap).2.1.sym.cs.n.toNat ≤ A.sym.cs.n.toNat + (A.msgs.getD A.pos []).length + 1 ∧
    (A.pos = A.msgs.length - 1 →
      (A.writeMessage S p cap).2.1.cs1 = ((A.writeMessage S p cap).2.1.sym.split S).1 ∧
      (A.writeMessage S p cap).2.1.cs2 = ((A.writeMessage S p cap).2.1.sym.split S).2) := by
  -- the token loop
  simp only [Spec.Keys.runMsg] at hk
  cases hk1 : k.runToks true (A.msgs.getD A.pos []) with
  | none => rw [hk1] at hk; simp at hk
  | some k1 =>
    rw [hk1] at hk
    simp only [Option.bind_some] at hk
    have hkk : k1 = k' := by
      split at hk
      · exact Option.some.inj hk
      · simp at hk
    subst hkk
    obtain ⟨f, w', R1, evr1, hw'M, hacc, hfl, hnb, hs1, hrd⟩ :=
      toksA S hEL hDE hPL hPT hDC hDT (A.msgs.getD A.pos []) h okA hk1 hs_on hpsk (by omega)
        { hs := A, acc := [], ev := [] } rfl ((A.msgs.getD A.pos []).length * (S.pubLen + 16))
        (by simp only [List.length_nil]; omega)
    simp only [List.nil_append] at hacc
    -- the same token loop in the real buffer, with the exact number of bytes written
    obtain ⟨hw', haccl, hkeyW⟩ := writeToks_shrink S hEL hPL _ cap (A.msgs.getD A.pos [])
      { hs := A, acc := [], ev := [] } w' (pubWf_of_partyOk S hPL A okA) hw'M
      (by simp only [List.length_nil, Nat.zero_add]; omega)
    simp only [List.length_nil, Nat.zero_add] at haccl hkeyW
    have hmax' : w'.acc.length + p.length + (if w'.hs.sym.hasKey = true then 16 else 0) ≤ 65535 := by
      rw [hkeyW, haccl]; exact hmax
    have hfrW := writeToks_frame S cap (A.msgs.getD A.pos []) { hs := A, acc := [], ev := [] }
    rw [hw'] at hfrW
    simp only at hfrW
    have invW' : SymInv w'.hs.sym := by
      have := writeToks_inv S cap (A.msgs.getD A.pos []) { hs := A, acc := [], ev := [] } okA.inv
      rw [hw'] at this; exact this
    have hnW' : w'.hs.sym.hasKey = true → w'.hs.sym.cs.n ≠ CipherState.nonceMax :=
      fun _ => nonce_ne_max_of_lt _ (by omega)
    have hWI := writeInner_ok_honest_exact S A p cap w' hturnW hlt hw' (by rw [haccl]; omega) hmax' invW' hnW'
    have hfb := fieldBytes_length S hEL w'.hs.sym p
    have hsf := symAfterField_facts S w'.hs.sym p invW' hnW'
    -- reader
    have hsymR1 : R1.sym = w'.hs.sym := hs1.sym.symm
    have hposR : B.pos = A.pos := c.pos.symm
    have hmsgsR : B.msgs = A.msgs := c.msgs.symm
    have hltR : B.pos < B.msgs.length := by rw [hposR, hmsgsR]; exact hlt
    have hrd0 := hrd { hs := B, ptr := f ++ fieldBytes S R1.sym p, ev := [] } (fieldBytes S R1.sym p) rfl rfl
    rw [← hposR, ← hmsgsR] at hrd0
    have hRI := readInner_ok_honest S hDE hEL B f p capr R1 evr1 hturnR hltR hrd0
      (by rw [List.length_append, hsymR1, hfb, ← hacc]; omega) hcapr (by rw [hsymR1]; exact invW')
      (by rw [hsymR1]; exact hnW')
    have hfrR := readToks_frame S (B.msgs.getD B.pos []) { hs := B, ptr := f ++ fieldBytes S R1.sym p, ev := [] }
    rw [hrd0] at hfrR
    simp only at hfrR
    have hwm1 : (A.writeMessage S p cap).1 = .ok (w'.acc.length + (fieldBytes S w'.hs.sym p).length) := by
      unfold writeMessage; simp only [hWI]
    have hwm3 : (A.writeMessage S p cap).2.2.1 = w'.acc ++ fieldBytes S w'.hs.sym p := by
      unfold writeMessage; simp only [hWI]
    have hwm2 : (A.writeMessage S p cap).2.1 =
        { (if w'.hs.pos == w'.hs.msgs.length - 1 then
            { w'.hs with sym := symAfterField S w'.hs.sym p,
                         cs1 := ((symAfterField S w'.hs.sym p).split S).1,
                         cs2 := ((symAfterField S w'.hs.sym p).split S).2 }
           else { w'.hs with sym := symAfterField S w'.hs.sym p }) with
          pos := (if w'.hs.pos == w'.hs.msgs.length - 1 then
            { w'.hs with sym := symAfterField S w'.hs.sym p,
                         cs1 := ((symAfterField S w'.hs.sym p).split S).1,
                         cs2 := ((symAfterField S w'.hs.sym p).split S).2 }
           else { w'.hs with sym := symAfterField S w'.hs.sym p }).pos + 1, myTurn := false } := by
      unfold writeMessage; simp only [hWI]
    have hmsgeq : (A.writeMessage S p cap).2.2.1 = f ++ fieldBytes S R1.sym p := by rw [hwm3, hacc, hsymR1]
    have hrm1 : (B.readMessage S (A.writeMessage S p cap).2.2.1 capr).1 = .ok p := by
      rw [hmsgeq]; unfold readMessage; simp only [hRI.1]
    have hrm2 : (B.readMessage S (A.writeMessage S p cap).2.2.1 capr).2.1 =
        { (if B.pos == B.msgs.length - 1 then
            { R1 with sym := symAfterField S R1.sym p,
                      cs1 := ((symAfterField S R1.sym p).split S).1,
                      cs2 := ((symAfterField S R1.sym p).split S).2 }
           else { R1 with sym := symAfterField S R1.sym p }) with
          pos := (if B.pos == B.msgs.length - 1 then
            { R1 with sym := symAfterField S R1.sym p,
                      cs1 := ((symAfterField S R1.sym p).split S).1,
                      cs2 := ((symAfterField S R1.sym p).split S).2 }
           else { R1 with sym := symAfterField S R1.sym p }).pos + 1, myTurn := true } := by
      rw [hmsgeq]; unfold readMessage; simp only [hRI.1, hRI.2]
    refine ⟨by rw [hwm1, hwm3, List.length_append], hrm1, ?_⟩
    rw [hwm2, hrm2]
    · have hlast : (w'.hs.pos == w'.hs.msgs.length - 1) = (B.pos == B.msgs.length - 1) := by
        rw [hfrW.pos, hfrW.msgs, hposR, hmsgsR]
      have hlastW : (w'.hs.pos == w'.hs.msgs.length - 1) = (A.pos == A.msgs.length - 1) := by
        rw [hfrW.pos, hfrW.msgs]
      rw [hlast]
      rw [hsymR1]
      have okW1 : PartyOk S w'.hs := by
        have := writeTok_partyOk
        exact ⟨invW', by rw [hfrW.s]; exact okA.sPub, fun hfix => by
          have he := writeToks_e_facts S cap (A.msgs.getD A.pos []) { hs := A, acc := [], ev := [] }
          rw [hw'] at he
          rw [hfrW.fixedE] at hfix
          rw [he.2 (Or.inl hfix)]; exact okA.ePub hfix⟩
      have okR1 : PartyOk S R1 :=
        ⟨by rw [hsymR1]; exact invW', by rw [hfrR.s]; exact okB.sPub,
         fun hfix => by rw [hfrR.fixedE] at hfix; rw [hfrR.e]; exact okB.ePub hfix⟩
      cases hl : (B.pos == B.msgs.length - 1) with
      | true =>
        simp only [↓reduceIte]
        refine ⟨⟨hs1.ia, hs1.ib, rfl, hs1.isPsk, hs1.psks, hs1.iE, hs1.iS, hs1.rE, hs1.rS, hs1.niS, hs1.nrS⟩, ⟨by simp only [hfrW.msgs, hfrR.msgs, c.msgs], by simp only [hfrW.pos, hfrR.pos, c.pos], by first | rfl | trivial, by first | rfl | trivial⟩,
          ⟨hsf.2.1, okW1.sPub, okW1.ePub⟩, ⟨hsf.2.1, okR1.sPub, okR1.ePub⟩, ?_, ?_, ?_, ?_, ?_, ?_, ?_, ?_, ?_⟩
        all_goals first
          | rfl | trivial | exact hfrW.msgs | exact hfrW.s | exact hfrR.s | exact hfrW.psks
          | (simp only [hfrW.pos]) | (intro _; exact ⟨rfl, rfl⟩) | (intro _; trivial)
          | (have := hsf.2.2.1; omega) | (have := hsf.2.2.1; simp only at this ⊢; omega)
      | false =>
        simp only [Bool.false_eq_true, ↓reduceIte]
        refine ⟨⟨hs1.ia, hs1.ib, rfl, hs1.isPsk, hs1.psks, hs1.iE, hs1.iS, hs1.rE, hs1.rS, hs1.niS, hs1.nrS⟩, ⟨by simp only [hfrW.msgs, hfrR.msgs, c.msgs], by simp only [hfrW.pos, hfrR.pos, c.pos], by simp only [hfrW.cs1, hfrR.cs1, c.cs1], by simp only [hfrW.cs2, hfrR.cs2, c.cs2]⟩,
          ⟨hsf.2.1, okW1.sPub, okW1.ePub⟩, ⟨hsf.2.1, okR1.sPub, okR1.ePub⟩, ?_, ?_, ?_, ?_, ?_, ?_, ?_, ?_, ?_⟩
        all_goals first
          | rfl | trivial | exact hfrW.msgs | exact hfrW.s | exact hfrR.s | exact hfrW.psks
          | (simp only [hfrW.pos])
          | (have := hsf.2.2.1; omega) | (have := hsf.2.2.1; simp only at this ⊢; omega)
          | (intro hpos; rw [← hposR, ← hmsgsR] at hpos; simp [hpos] at hl)


/-- One whole handshake message written by the responder `B` and read by the initiator `A`, under the
    exact size conditions of the code (buffer: fixed fields + payload + 16; message at most 65535). -/
theorem msgB_exact (S : Suite) (hEL : S.EncLen) (hDE : S.DecEnc) (hPL : S.PubLen) (hPT : S.PrivTotal)
    (hDC : S.DhComm) (hDT : S.DhTotal)
    {k k' : Spec.Keys} {A B : HS} (h : Sync S k A B) (c : Ctl A B) (okA : PartyOk S A) (okB : PartyOk S B)
    (hturnW : B.myTurn = true) (hturnR : A.myTurn = false) (hlt : B.pos < B.msgs.length)
    (hk : k.runMsg false (B.msgs.getD B.pos []) = some k')
    (hs_on : Tok.s ∈ B.msgs.getD B.pos [] → B.s.on = true)
    (hpsk : ∀ n, Tok.psk n ∈ B.msgs.getD B.pos [] → n < 10 ∧ ∃ key, A.psks.getD n none = some key)
    (hn : B.sym.cs.n.toNat + (B.msgs.getD B.pos []).length + 1 < 2 ^ 64 - 1)
    (p : Bytes) (cap capr : Nat)
    (hcap : (fieldsLen S B.isPsk (B.msgs.getD B.pos []) B.sym.hasKey).1 + p.length + 16 ≤ cap)
    (hmax : msgLen S B.isPsk (B.msgs.getD B.pos []) B.sym.hasKey p.length ≤ 65535)
    (hcapr : p.length ≤ capr) :
    (B.writeMessage S p cap).1 = .ok (B.writeMessage S p cap).2.2.1.length ∧
    (A.readMessage S (B.writeMessage S p cap).2.2.1 capr).1 = .ok p ∧
    Sync S k' (A.readMessage S (B.writeMessage S p cap).2.2.1 capr).2.1 (B.writeMessage S p cap).2.1 ∧ Ctl (A.readMessage S (B.writeMessage S p cap).2.2.1 capr).2.1 (B.writeMessage S p cap).2.1 ∧
    PartyOk S (B.writeMessage S p cap).2.1 ∧ PartyOk S (A.readMessage S (B.writeMessage S p cap).2.2.1 capr).2.1 ∧
    (B.writeMessage S p cap).2.1.myTurn = false ∧ (A.readMessage S (B.writeMessage S p cap).2.2.1 capr).2.1.myTurn = true ∧
    (B.writeMessage S p cap).2.1.pos = B.pos + 1 ∧ (B.writeMessage S p cap).2.1.msgs = B.msgs ∧
    (B.writeMessage S p cap).2.1.s = B.s ∧ (A.readMessage S (B.writeMessage S p cap).2.2.1 capr).2.1.s = A.s ∧
    (B.writeMessage S p cap).2.1.psks = B.psks ∧
    (B.writeMessage S p cap).2.1.sym.cs.n.toNat ≤ B.sym.cs.n.toNat + (B.msgs.getD B.pos []).length + 1 ∧
    (B.pos = B.msgs.length - 1 →
      (B.writeMessage S p cap).2.1.cs1 = ((B.writeMessage S p cap).2.1.sym.split S).1 ∧
      (B.writeMessage S p cap).2.1.cs2 = ((B.writeMessage S p cap).2.1.sym.split S).2) := by
  -- the token loop
  simp only [Spec.Keys.runMsg] at hk
  cases hk1 : k.runToks false (B.msgs.getD B.pos []) with
  | none => rw [hk1] at hk; simp at hk
  | some k1 =>
    rw [hk1] at hk
    simp only [Option.bind_some] at hk
    have hkk : k1 = k' := by
      split at hk
      · exact Option.some.inj hk
      · simp at hk
    subst hkk
    obtain ⟨f, w', R1, evr1, hw'M, hacc, hfl, hnb, hs1, hrd⟩ :=
      toksB S hEL hDE hPL hPT hDC hDT (B.msgs.getD B.pos []) h okB hk1 hs_on hpsk (by omega)
        { hs := B, acc := [], ev := [] } rfl ((B.msgs.getD B.pos []).length * (S.pubLen + 16))
        (by simp only [List.length_nil]; omega)
    simp only [List.nil_append] at hacc
    -- the same token loop in the real buffer, with the exact number of bytes written
    obtain ⟨hw', haccl, hkeyW⟩ := writeToks_shrink S hEL hPL _ cap (B.msgs.getD B.pos [])
      { hs := B, acc := [], ev := [] } w' (pubWf_of_partyOk S hPL B okB) hw'M
      (by simp only [List.length_nil, Nat.zero_add]; omega)
    simp only [List.length_nil, Nat.zero_add] at haccl hkeyW
    have hmax' : w'.acc.length + p.length + (if w'.hs.sym.hasKey = true then 16 else 0) ≤ 65535 := by
      rw [hkeyW, haccl]; exact hmax
    have hfrW := writeToks_frame S cap (B.msgs.getD B.pos []) { hs := B, acc := [], ev := [] }
    rw [hw'] at hfrW
    simp only at hfrW
    have invW' : SymInv w'.hs.sym := by
      have := writeToks_inv S cap (B.msgs.getD B.pos []) { hs := B, acc := [], ev := [] } okB.inv
      rw [hw'] at this; exact this
    have hnW' : w'.hs.sym.hasKey = true → w'.hs.sym.cs.n ≠ CipherState.nonceMax :=
      fun _ => nonce_ne_max_of_lt _ (by omega)
    have hWI := writeInner_ok_honest_exact S B p cap w' hturnW hlt hw' (by rw [haccl]; omega) hmax' invW' hnW'
    have hfb := fieldBytes_length S hEL w'.hs.sym p
    have hsf := symAfterField_facts S w'.hs.sym p invW' hnW'
    -- reader
    have hsymR1 : R1.sym = w'.hs.sym := hs1.sym
    have hposR : A.pos = B.pos := c.pos
    have hmsgsR : A.msgs = B.msgs := c.msgs
    have hltR : A.pos < A.msgs.length := by rw [hposR, hmsgsR]; exact hlt
    have hrd0 := hrd { hs := A, ptr := f ++ fieldBytes S R1.sym p, ev := [] } (fieldBytes S R1.sym p) rfl rfl
    rw [← hposR, ← hmsgsR] at hrd0
    have hRI := readInner_ok_honest S hDE hEL A f p capr R1 evr1 hturnR hltR hrd0
      (by rw [List.length_append, hsymR1, hfb, ← hacc]; omega) hcapr (by rw [hsymR1]; exact invW')
      (by rw [hsymR1]; exact hnW')
    have hfrR := readToks_frame S (A.msgs.getD A.pos []) { hs := A, ptr := f ++ fieldBytes S R1.sym p, ev := [] }
    rw [hrd0] at hfrR
    simp only at hfrR
    have hwm1 : (B.writeMessage S p cap).1 = .ok (w'.acc.length + (fieldBytes S w'.hs.sym p).length) := by
      unfold writeMessage; simp only [hWI]
    have hwm3 : (B.writeMessage S p cap).2.2.1 = w'.acc ++ fieldBytes S w'.hs.sym p := by
      unfold writeMessage; simp only [hWI]
    have hwm2 : (B.writeMessage S p cap).2.1 =
        { (if w'.hs.pos == w'.hs.msgs.length - 1 then
            { w'.hs with sym := symAfterField S w'.hs.sym p,
                         cs1 := ((symAfterField S w'.hs.sym p).split S).1,
                         cs2 := ((symAfterField S w'.hs.sym p).split S).2 }
           else { w'.hs with sym := symAfterField S w'.hs.sym p }) with
          pos := (if w'.hs.pos == w'.hs.msgs.length - 1 then
            { w'.hs with sym := symAfterField S w'.hs.sym p,
                         cs1 := ((symAfterField S w'.hs.sym p).split S).1,
                         cs2 := ((symAfterField S w'.hs.sym p).split S).2 }
           else { w'.hs with sym := symAfterField S w'.hs.sym p }).pos + 1, myTurn := false } := by
      unfold writeMessage; simp only [hWI]
    have hmsgeq : (B.writeMessage S p cap).2.2.1 = f ++ fieldBytes S R1.sym p := by rw [hwm3, hacc, hsymR1]
    have hrm1 : (A.readMessage S (B.writeMessage S p cap).2.2.1 capr).1 = .ok p := by
      rw [hmsgeq]; unfold readMessage; simp only [hRI.1]
    have hrm2 : (A.readMessage S (B.writeMessage S p cap).2.2.1 capr).2.1 =
        { (if A.pos == A.msgs.length - 1 then
            { R1 with sym := symAfterField S R1.sym p,
                      cs1 := ((symAfterField S R1.sym p).split S).1,
                      cs2 := ((symAfterField S R1.sym p).split S).2 }
           else { R1 with sym := symAfterField S R1.sym p }) with
          pos := (if A.pos == A.msgs.length - 1 then
            { R1 with sym := symAfterField S R1.sym p,
                      cs1 := ((symAfterField S R1.sym p).split S).1,
                      cs2 := ((symAfterField S R1.sym p).split S).2 }
           else { R1 with sym := symAfterField S R1.sym p }).pos + 1, myTurn := true } := by
      rw [hmsgeq]; unfold readMessage; simp only [hRI.1, hRI.2]
    refine ⟨by rw [hwm1, hwm3, List.length_append], hrm1, ?_⟩
    rw [hwm2, hrm2]
    · have hlast : (w'.hs.pos == w'.hs.msgs.length - 1) = (A.pos == A.msgs.length - 1) := by
        rw [hfrW.pos, hfrW.msgs, hposR, hmsgsR]
      have hlastW : (w'.hs.pos == w'.hs.msgs.length - 1) = (B.pos == B.msgs.length - 1) := by
        rw [hfrW.pos, hfrW.msgs]
      rw [hlast]
      rw [hsymR1]
      have okW1 : PartyOk S w'.hs := by
        have := writeTok_partyOk
        exact ⟨invW', by rw [hfrW.s]; exact okB.sPub, fun hfix => by
          have he := writeToks_e_facts S cap (B.msgs.getD B.pos []) { hs := B, acc := [], ev := [] }
          rw [hw'] at he
          rw [hfrW.fixedE] at hfix
          rw [he.2 (Or.inl hfix)]; exact okB.ePub hfix⟩
      have okR1 : PartyOk S R1 :=
        ⟨by rw [hsymR1]; exact invW', by rw [hfrR.s]; exact okA.sPub,
         fun hfix => by rw [hfrR.fixedE] at hfix; rw [hfrR.e]; exact okA.ePub hfix⟩
      cases hl : (A.pos == A.msgs.length - 1) with
      | true =>
        simp only [↓reduceIte]
        refine ⟨⟨hs1.ia, hs1.ib, rfl, hs1.isPsk, hs1.psks, hs1.iE, hs1.iS, hs1.rE, hs1.rS, hs1.niS, hs1.nrS⟩, ⟨by simp only [hfrW.msgs, hfrR.msgs, c.msgs], by simp only [hfrW.pos, hfrR.pos, c.pos], by first | rfl | trivial, by first | rfl | trivial⟩,
          ⟨hsf.2.1, okW1.sPub, okW1.ePub⟩, ⟨hsf.2.1, okR1.sPub, okR1.ePub⟩, ?_, ?_, ?_, ?_, ?_, ?_, ?_, ?_, ?_⟩
        all_goals first
          | rfl | trivial | exact hfrW.msgs | exact hfrW.s | exact hfrR.s | exact hfrW.psks
          | (simp only [hfrW.pos]) | (intro _; exact ⟨rfl, rfl⟩) | (intro _; trivial)
          | (have := hsf.2.2.1; omega) | (have := hsf.2.2.1; simp only at this ⊢; omega)
      | false =>
        simp only [Bool.false_eq_true, ↓reduceIte]
        refine ⟨⟨hs1.ia, hs1.ib, rfl, hs1.isPsk, hs1.psks, hs1.iE, hs1.iS, hs1.rE, hs1.rS, hs1.niS, hs1.nrS⟩, ⟨by simp only [hfrW.msgs, hfrR.msgs, c.msgs], by simp only [hfrW.pos, hfrR.pos, c.pos], by simp only [hfrW.cs1, hfrR.cs1, c.cs1], by simp only [hfrW.cs2, hfrR.cs2, c.cs2]⟩,
          ⟨hsf.2.1, okW1.sPub, okW1.ePub⟩, ⟨hsf.2.1, okR1.sPub, okR1.ePub⟩, ?_, ?_, ?_, ?_, ?_, ?_, ?_, ?_, ?_⟩
        all_goals first
          | rfl | trivial | exact hfrW.msgs | exact hfrW.s | exact hfrR.s | exact hfrW.psks
          | (simp only [hfrW.pos])
          | (have := hsf.2.2.1; omega) | (have := hsf.2.2.1; simp only at this ⊢; omega)
          | (intro hpos; rw [← hposR, ← hmsgsR] at hpos; simp [hpos] at hl)


end SnowVerif.Model.HS
