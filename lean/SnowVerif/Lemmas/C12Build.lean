/-
  C12, builder part: `mixPremsg` cannot fail once the prerequisite checks passed,
  and `build` as an explicit decision list ending in an explicit state.
-/
import SnowVerif.Lemmas.C12Mods

namespace SnowVerif.Lemmas.C12
open SnowVerif SnowVerif.Model SnowVerif.Generated SnowVerif.Bytes
set_option linter.unusedVariables false
set_option linter.unusedSimpArgs false

/-! ### Pre-messages -/

/-- `mix_hash(key)` once per token of the pre-message. -/
def premix (S : Suite) (key : Bytes) : List Tok → Sym → Sym
  | [], sym => sym
  | _ :: ts, sym => premix S key ts (sym.mixHash S key)

theorem premix_fields (S : Suite) (key : Bytes) (toks : List Tok) (sym : Sym) :
    (premix S key toks sym).cs = sym.cs ∧ (premix S key toks sym).ck = sym.ck ∧
    (premix S key toks sym).hasKey = sym.hasKey ∧ (premix S key toks sym).k = sym.k := by
  induction toks generalizing sym with
  | nil => simp [premix]
  | cons t ts ih =>
    obtain ⟨h1, h2, h3, h4⟩ := ih (sym.mixHash S key)
    simp only [premix, h1, h2, h3, h4]
    simp only [Sym.mixHash, and_self]

/-- A pre-message of `s` tokens whose key is present is mixed without failure. -/
theorem mixPremsg_s_ok (S : Suite) (mine : Bool) (s e : Toggle KeyPair) (rs re : Toggle Bytes)
    (toks : List Tok) (sym : Sym) (hall : ∀ t ∈ toks, t = Tok.s)
    (hon : Tok.s ∈ toks → (if mine then s.on else rs.on) = true) :
    mixPremsg S mine s e rs re toks sym =
      .ok (premix S (if mine then s.val.pub else rs.val.take S.pubLen) toks sym) := by
  induction toks generalizing sym with
  | nil => simp [mixPremsg, premix]
  | cons t ts ih =>
    have ht : t = Tok.s := hall t (by simp)
    subst ht
    have hon' := hon (by simp)
    have ih' := fun sym => ih sym (fun t ht => hall t (by simp [ht])) (fun _ => hon')
    cases mine
    · simp only [Bool.false_eq_true, ↓reduceIte] at hon' ih' ⊢
      simp only [mixPremsg, hon', ↓reduceIte, ih', premix]
    · simp only [↓reduceIte] at hon' ih' ⊢
      simp only [mixPremsg, hon', ↓reduceIte, ih', premix]

/-- `mix_hash` of whatever pre-message never touches the key state. -/
theorem mixPremsg_fields (S : Suite) (mine : Bool) (s e : Toggle KeyPair) (rs re : Toggle Bytes)
    (toks : List Tok) (sym sym' : Sym) (h : mixPremsg S mine s e rs re toks sym = .ok sym') :
    sym'.cs = sym.cs ∧ sym'.ck = sym.ck ∧ sym'.hasKey = sym.hasKey ∧ sym'.k = sym.k := by
  induction toks generalizing sym with
  | nil => simp only [mixPremsg, Res.ok.injEq] at h; subst h; simp
  | cons t ts ih =>
    have key : ∃ k, mixPremsg S mine s e rs re ts (sym.mixHash S k) = .ok sym' := by
      cases t <;> cases mine <;> simp only [mixPremsg] at h <;>
        first
        | (exact absurd h (by simp))
        | (split at h <;> first | exact ⟨_, h⟩ | (exact absurd h (by simp)))
    obtain ⟨k, hk⟩ := key
    obtain ⟨h1, h2, h3, h4⟩ := ih _ hk
    simp only [h1, h2, h3, h4, Sym.mixHash, and_self]

/-- Own pre-message: the first prerequisite check guarantees the key. -/
theorem mix_own_ok (S : Suite) (p : Pattern) (ini : Bool) (cs : Option Bytes)
    (s e : Toggle KeyPair) (rs re : Toggle Bytes) (sym : Sym)
    (hchk : (cs.isNone && needsLocalStatic p ini) = false) (hs : s.on = cs.isSome) :
    mixPremsg S true s e rs re (ownPre p.tokens ini) sym =
      .ok (premix S s.val.pub (ownPre p.tokens ini) sym) := by
  have hsh := base_shape p
  have := mixPremsg_s_ok S true s e rs re (ownPre p.tokens ini) sym
    (by intro t ht; cases ini
        · exact hsh.2.1 t (by simpa [ownPre] using ht)
        · exact hsh.1 t (by simpa [ownPre] using ht))
    (by
      intro hmem
      have hd : derivedNeedsLocalStatic p ini = true :=
        (derivedNeedsLocalStatic_iff p ini).mpr (Or.inl hmem)
      rw [← (prereq_tables_eq_derived p ini).1] at hd
      cases cs <;> simp_all)
  simpa using this

/-- Peer's pre-message: the second prerequisite check guarantees the key. -/
theorem mix_peer_ok (S : Suite) (p : Pattern) (ini : Bool) (crs : Option Bytes)
    (s e : Toggle KeyPair) (rs re : Toggle Bytes) (sym : Sym)
    (hchk : (crs.isNone && needKnownRemote p ini) = false) (hrs : rs.on = crs.isSome) :
    mixPremsg S false s e rs re (peerPre p.tokens ini) sym =
      .ok (premix S (rs.val.take S.pubLen) (peerPre p.tokens ini) sym) := by
  have hsh := base_shape p
  have := mixPremsg_s_ok S false s e rs re (peerPre p.tokens ini) sym
    (by intro t ht; cases ini
        · exact hsh.1 t (by simpa [peerPre] using ht)
        · exact hsh.2.1 t (by simpa [peerPre] using ht))
    (by
      intro hmem
      have hd : derivedNeedKnownRemote p ini = true :=
        (derivedNeedKnownRemote_iff p ini).mpr hmem
      rw [← (prereq_tables_eq_derived p ini).2] at hd
      cases crs <;> simp_all)
  simpa using this

/-! ### `build` as a decision list -/

/-- The `ValidateKeyLengths` condition of `Builder::build`, verbatim. -/
def lensBad (S : Suite) (c : BuildCfg) : Bool :=
  (match c.s with | some k => k.length != S.privLen | none => false)
  || (match c.eFixed with | some k => k.length != S.privLen | none => false)
  || (match c.rs with | some k => k.length != S.pubLen | none => false)

/-- `Dh::set` is called with a private key the DH implementation rejects (panic). -/
def privBad (S : Suite) (c : BuildCfg) : Bool :=
  (match c.s with | some k => !S.validPriv k | none => false)
  || (match c.eFixed with | some k => !S.validPriv k | none => false)

/-- `rs_buf[..v.len()]` out of range. -/
def rsTooLong (c : BuildCfg) : Bool :=
  match c.rs with | some v => decide (v.length > MAXDHLEN) | none => false

def zkp (S : Suite) : KeyPair := { priv := zeros S.privLen, pub := zeros S.pubLen }

def builtS (S : Suite) (c : BuildCfg) : Toggle KeyPair :=
  match c.s with
  | some k => { val := { priv := k, pub := S.pubOf k }, on := true }
  | none => { val := zkp S, on := false }

def builtE (S : Suite) (c : BuildCfg) : Toggle KeyPair :=
  match c.eFixed with
  | some k => { val := { priv := k, pub := S.pubOf k }, on := false }
  | none => { val := zkp S, on := false }

def builtRs (S : Suite) (c : BuildCfg) : Toggle Bytes :=
  match c.rs with
  | some v => { val := v, on := true }
  | none => { val := zeros S.pubLen, on := false }

/-- `h` after `initialize(name)`, `mix_hash(prologue)` and the two pre-message loops,
    given the local static public key `own` and the remote one `peer`. -/
def premixBoth (S : Suite) (c : BuildCfg) (own peer : Bytes) : Sym :=
  let sym0 := (Sym.init S c.name).mixHash S c.prologue
  let inst := c.pattern.tokens
  if c.initiator then premix S peer inst.preR (premix S own inst.preI sym0)
  else premix S own inst.preR (premix S peer inst.preI sym0)

def builtSym (S : Suite) (c : BuildCfg) : Sym :=
  premixBoth S c (builtS S c).val.pub ((builtRs S c).val.take S.pubLen)

/-- `HandshakeState::new` with the toggles as parameters (verbatim tail of `Model.build`). -/
def hsNew (S : Suite) (c : BuildCfg) (s e : Toggle KeyPair) (rs re : Toggle Bytes) : Res HS :=
  if s.on && rs.on && S.pubLen > MAXDHLEN then .err (.init .validateKeyLengths)
  else match handshakeTokens c.pattern c.mods with
  | .err x => .err x
  | .panic p => .panic p
  | .ok inst =>
    let sym0 := (Sym.init S c.name).mixHash S c.prologue
    let pre : Res Sym :=
      if c.initiator then
        match mixPremsg S true s e rs re inst.preI sym0 with
        | .ok sym1 => mixPremsg S false s e rs re inst.preR sym1
        | x => x
      else
        match mixPremsg S false s e rs re inst.preI sym0 with
        | .ok sym1 => mixPremsg S true s e rs re inst.preR sym1
        | x => x
    match pre with
    | .err x => .err x
    | .panic p => .panic p
    | .ok sym =>
      .ok { sym := sym, cs1 := CipherState.new, cs2 := CipherState.new,
            s := s, e := e, fixedE := c.eFixed.isSome, rs := rs, re := re,
            initiator := c.initiator, isPsk := isPskMods c.mods,
            oneway := c.pattern.isOneway, psks := c.psks,
            myTurn := c.initiator, msgs := inst.msgs, pos := 0, rng := c.rng }

/-- The state `HandshakeState::new` returns, with the toggles as parameters. -/
def hsState (S : Suite) (c : BuildCfg) (s e : Toggle KeyPair) (rs re : Toggle Bytes) : HS :=
  { sym := premixBoth S c s.val.pub (rs.val.take S.pubLen),
    cs1 := CipherState.new, cs2 := CipherState.new,
    s := s, e := e, fixedE := c.eFixed.isSome, rs := rs, re := re,
    initiator := c.initiator, isPsk := isPskMods c.mods,
    oneway := c.pattern.isOneway, psks := c.psks,
    myTurn := c.initiator, msgs := (withPsks c.pattern.tokens c.mods).msgs, pos := 0, rng := c.rng }

/-- `HandshakeState::new` after the builder's checks: only the modifier loop can fail. -/
theorem hsNew_eq (S : Suite) (c : BuildCfg) (s e : Toggle KeyPair) (rs re : Toggle Bytes)
    (h1 : (c.s.isNone && needsLocalStatic c.pattern c.initiator) = false)
    (h2 : (c.rs.isNone && needKnownRemote c.pattern c.initiator) = false)
    (hs : s.on = c.s.isSome) (hrs : rs.on = c.rs.isSome)
    (hlen : (s.on && rs.on && decide (S.pubLen > MAXDHLEN)) = false) :
    hsNew S c s e rs re =
      match c.mods.find? (fun m => !modFits c.pattern.tokens.msgs.length m) with
      | some m => .err (modsError m)
      | none => .ok (hsState S c s e rs re) := by
  unfold hsNew
  rw [if_neg (by simp only [hlen, Bool.false_eq_true, not_false_eq_true])]
  simp only [handshakeTokens, applyModifiers_eq]
  cases hf : c.mods.find? (fun m => !modFits c.pattern.tokens.msgs.length m) with
  | some m => rfl
  | none =>
    have own := fun sym => mix_own_ok S c.pattern c.initiator c.s s e rs re sym h1 hs
    have peer := fun sym => mix_peer_ok S c.pattern c.initiator c.rs s e rs re sym h2 hrs
    simp only [withPsks_preI, withPsks_preR]
    cases hini : c.initiator
    · simp only [hini, ownPre, peerPre, Bool.false_eq_true, ↓reduceIte] at own peer
      simp only [Bool.false_eq_true, ↓reduceIte, own, peer, hsState, premixBoth, hini]
    · simp only [hini, ownPre, peerPre, ↓reduceIte] at own peer
      simp only [↓reduceIte, own, peer, hsState, premixBoth, hini]

/-- The `HandshakeState` a successful `build` returns. -/
def builtState (S : Suite) (c : BuildCfg) : HS :=
  hsState S c (builtS S c) (builtE S c) (builtRs S c) { val := zeros S.pubLen, on := false }

/-- The part of `build` after all the `Builder::build` checks: `HandshakeState::new`. -/
def buildTail (S : Suite) (c : BuildCfg) : Res HS :=
  match c.mods.find? (fun m => !modFits c.pattern.tokens.msgs.length m) with
  | some m => .err (modsError m)
  | none => .ok (builtState S c)

/-- **`build` as an explicit decision list**, for every suite, resolver and configuration
    (no assumption on the suite).  The checks are the code's, in the code's order; the
    tail (`HandshakeState::new`) is the modifier loop followed by an explicit state: the
    pre-message loops cannot fail because the prerequisite tables cover the token table. -/
theorem build_eq (S : Suite) (av : Avail) (c : BuildCfg) :
    build S av c =
      if c.s.isNone && needsLocalStatic c.pattern c.initiator then .err (.prereq .localPrivateKey)
      else if c.rs.isNone && needKnownRemote c.pattern c.initiator then .err (.prereq .remotePublicKey)
      else if !av.rng then .err (.init .getRngImpl)
      else if !av.cipher then .err (.init .getCipherImpl)
      else if !av.hash then .err (.init .getHashImpl)
      else if !av.dh then .err (.init .getDhImpl)
      else if lensBad S c then .err (.init .validateKeyLengths)
      else if privBad S c then .panic "Dh::set: invalid private key"
      else if rsTooLong c then .panic "rs_buf[..v.len()]"
      else buildTail S c := by
  unfold build
  by_cases h1 : (c.s.isNone && needsLocalStatic c.pattern c.initiator) = true
  · rw [if_pos h1, if_pos h1]
  rw [if_neg h1, if_neg h1]
  by_cases h2 : (c.rs.isNone && needKnownRemote c.pattern c.initiator) = true
  · rw [if_pos h2, if_pos h2]
  rw [if_neg h2, if_neg h2]
  by_cases h3 : (!av.rng) = true
  · rw [if_pos h3, if_pos h3]
  rw [if_neg h3, if_neg h3]
  by_cases h4 : (!av.cipher) = true
  · rw [if_pos h4, if_pos h4]
  rw [if_neg h4, if_neg h4]
  by_cases h5 : (!av.hash) = true
  · rw [if_pos h5, if_pos h5]
  rw [if_neg h5, if_neg h5]
  by_cases h6 : (!av.dh) = true
  · rw [if_pos h6, if_pos h6]
  rw [if_neg h6, if_neg h6]
  change (if lensBad S c = true then _ else if privBad S c = true then _
            else if rsTooLong c = true then _
            else hsNew S c (builtS S c) (builtE S c) (builtRs S c) { val := zeros S.pubLen, on := false }) = _
  by_cases h7 : lensBad S c = true
  · rw [if_pos h7, if_pos h7]
  rw [if_neg h7, if_neg h7]
  by_cases h8 : privBad S c = true
  · rw [if_pos h8, if_pos h8]
  rw [if_neg h8, if_neg h8]
  by_cases h9 : rsTooLong c = true
  · rw [if_pos h9, if_pos h9]
  rw [if_neg h9, if_neg h9]
  have hs_on : (builtS S c).on = c.s.isSome := by unfold builtS; cases c.s <;> rfl
  have hrs_on : (builtRs S c).on = c.rs.isSome := by unfold builtRs; cases c.rs <;> rfl
  -- the `s.on && rs.on && pub_len > MAXDHLEN` check of `HandshakeState::new` cannot fire
  have hlen : ((builtS S c).on && (builtRs S c).on && decide (S.pubLen > MAXDHLEN)) = false := by
    rw [hs_on, hrs_on]
    cases hrs : c.rs with
    | none => simp
    | some v =>
      simp only [rsTooLong, hrs, decide_eq_true_eq] at h9
      simp only [lensBad, hrs, Bool.or_eq_true, bne_iff_ne, not_or, Decidable.not_not] at h7
      have : ¬ S.pubLen > MAXDHLEN := by omega
      simp [this]
  rw [hsNew_eq S c _ _ _ _ (by simpa using h1) (by simpa using h2) hs_on hrs_on hlen]
  rfl

end SnowVerif.Lemmas.C12
