/-
  C12, table part: facts about the generated pattern tables, each proved by
  complete enumeration of `Generated.Pattern` (re-checked whenever
  `Generated/Tables.lean` is regenerated from the code).
-/
import SnowVerif.Model.Builder

namespace SnowVerif.Lemmas.C12
open SnowVerif SnowVerif.Model SnowVerif.Generated
set_option linter.unusedVariables false
set_option linter.unusedSimpArgs false

/-- `SUPPORTED_HANDSHAKE_PATTERNS` lists every pattern: facts proved over the list
    hold for every `Pattern`. -/
theorem allPatterns_complete : ∀ p : Pattern, p ∈ allPatterns := by
  intro p; cases p <;> decide

/-- Transfer from the list to the type. -/
theorem forall_pattern_of_all {P : Pattern → Bool} (h : allPatterns.all P = true) (p : Pattern) :
    P p = true :=
  List.all_eq_true.mp h p (allPatterns_complete p)

/-! ### The requirement derived from the token table alone -/

/-- Does the static-key token `s` occur in this token list? -/
def hasS (l : List Tok) : Bool := l.contains Tok.s

/-- Message `i` (0-based) is written by the initiator iff `i` is even. -/
def writes (initiator : Bool) (i : Nat) : Bool := (i % 2 == 0) == initiator

/-- Does `s` occur in some message of `msgs` (numbered from `i`) that the role writes? -/
def writesS (initiator : Bool) : Nat → List (List Tok) → Bool
  | _, [] => false
  | i, m :: ms => (writes initiator i && hasS m) || writesS initiator (i + 1) ms

/-- The role's own pre-message / the peer's pre-message. -/
def ownPre (inst : Inst) (initiator : Bool) : List Tok := if initiator then inst.preI else inst.preR
def peerPre (inst : Inst) (initiator : Bool) : List Tok := if initiator then inst.preR else inst.preI

/-- "The role's static key occurs in the pattern": `s` is in the role's own pre-message
    or in a message the role writes.  Computed from the token table only. -/
def derivedNeedsLocalStatic (p : Pattern) (initiator : Bool) : Bool :=
  hasS (ownPre p.tokens initiator) || writesS initiator 0 p.tokens.msgs

/-- "The pattern pre-shares the peer's static key": `s` is in the peer's pre-message. -/
def derivedNeedKnownRemote (p : Pattern) (initiator : Bool) : Bool :=
  hasS (peerPre p.tokens initiator)

theorem hasS_iff (l : List Tok) : hasS l = true ↔ Tok.s ∈ l := by
  simp [hasS]

theorem writes_iff (initiator : Bool) (i : Nat) :
    writes initiator i = true ↔ (i % 2 = 0 ↔ initiator = true) := by
  unfold writes; cases initiator <;> simp

theorem writesS_iff (initiator : Bool) (k : Nat) (msgs : List (List Tok)) :
    writesS initiator k msgs = true ↔
      ∃ i, ∃ h : i < msgs.length, ((k + i) % 2 = 0 ↔ initiator = true) ∧ Tok.s ∈ msgs[i] := by
  induction msgs generalizing k with
  | nil => simp [writesS]
  | cons m ms ih =>
    simp only [writesS, Bool.or_eq_true, Bool.and_eq_true, writes_iff, hasS_iff, ih]
    constructor
    · rintro (⟨h1, h2⟩ | ⟨i, h, h1, h2⟩)
      · exact ⟨0, by simp, by simpa using h1, by simpa using h2⟩
      · refine ⟨i + 1, by simpa using h, ?_, by simpa using h2⟩
        rw [show k + (i + 1) = k + 1 + i by omega]; exact h1
    · rintro ⟨i, h, h1, h2⟩
      cases i with
      | zero => left; exact ⟨by simpa using h1, by simpa using h2⟩
      | succ i =>
        right
        refine ⟨i, by simpa using h, ?_, by simpa using h2⟩
        rw [show k + 1 + i = k + (i + 1) by omega]; exact h1

/-- Plain reading of `derivedNeedsLocalStatic`. -/
theorem derivedNeedsLocalStatic_iff (p : Pattern) (initiator : Bool) :
    derivedNeedsLocalStatic p initiator = true ↔
      Tok.s ∈ ownPre p.tokens initiator ∨
      ∃ i, ∃ h : i < p.tokens.msgs.length, (i % 2 = 0 ↔ initiator = true) ∧ Tok.s ∈ p.tokens.msgs[i] := by
  simp only [derivedNeedsLocalStatic, Bool.or_eq_true, hasS_iff, writesS_iff, Nat.zero_add]

/-- Plain reading of `derivedNeedKnownRemote`. -/
theorem derivedNeedKnownRemote_iff (p : Pattern) (initiator : Bool) :
    derivedNeedKnownRemote p initiator = true ↔ Tok.s ∈ peerPre p.tokens initiator := by
  simp only [derivedNeedKnownRemote, hasS_iff]

/-- **The two hand-written prerequisite tables of `params/patterns.rs` agree with the token
    table**, for all patterns and both roles (complete enumeration). -/
theorem prereq_tables_eq_derived_list :
    allPatterns.all (fun p =>
      (needsLocalStatic p true == derivedNeedsLocalStatic p true) &&
      (needsLocalStatic p false == derivedNeedsLocalStatic p false) &&
      (needKnownRemote p true == derivedNeedKnownRemote p true) &&
      (needKnownRemote p false == derivedNeedKnownRemote p false)) = true := by
  decide

theorem prereq_tables_eq_derived (p : Pattern) (initiator : Bool) :
    needsLocalStatic p initiator = derivedNeedsLocalStatic p initiator ∧
    needKnownRemote p initiator = derivedNeedKnownRemote p initiator := by
  have h := forall_pattern_of_all prereq_tables_eq_derived_list p
  simp only [Bool.and_eq_true, beq_iff_eq] at h
  obtain ⟨⟨⟨h1, h2⟩, h3⟩, h4⟩ := h
  cases initiator
  · exact ⟨h2, h4⟩
  · exact ⟨h1, h3⟩

/-! ### Shape of the base token table -/

def isSTok : Tok → Bool
  | .s => true
  | _ => false

def isPskTok : Tok → Bool
  | .psk _ => true
  | _ => false

/-- Every pre-message consists of `s` tokens only; every base pattern has 1 to 4 messages,
    none containing a `psk` token. -/
theorem base_shape_list :
    allPatterns.all (fun p =>
      p.tokens.preI.all isSTok && p.tokens.preR.all isSTok &&
      decide (1 ≤ p.tokens.msgs.length) && decide (p.tokens.msgs.length ≤ 4) &&
      p.tokens.msgs.all (fun m => m.all fun t => !isPskTok t)) = true := by
  decide

theorem base_shape (p : Pattern) :
    (∀ t ∈ p.tokens.preI, t = Tok.s) ∧ (∀ t ∈ p.tokens.preR, t = Tok.s) ∧
    1 ≤ p.tokens.msgs.length ∧ p.tokens.msgs.length ≤ 4 ∧
    (∀ m ∈ p.tokens.msgs, ∀ n, Tok.psk n ∉ m) := by
  have h := forall_pattern_of_all base_shape_list p
  simp only [Bool.and_eq_true, List.all_eq_true, decide_eq_true_eq] at h
  obtain ⟨⟨⟨⟨h1, h2⟩, h3⟩, h4⟩, h5⟩ := h
  refine ⟨?_, ?_, h3, h4, ?_⟩
  · intro t ht; have := h1 t ht; cases t <;> simp_all [isSTok]
  · intro t ht; have := h2 t ht; cases t <;> simp_all [isSTok]
  · intro m hm n hn; have := h5 m hm _ hn; simp [isPskTok] at this

end SnowVerif.Lemmas.C12
