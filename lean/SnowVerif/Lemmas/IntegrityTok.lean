/-
  Integrity, part 2: tokens, token lists and the two calls that process one message.

  A token processed by the writer or the reader is viewed as a step `SStep` of the SymmetricState
  together with the field it puts on / takes from the wire; two such steps on the same token keep
  divergence (`SStep.div`), keep `h`-divergence (`SStep.h_ne`), and hash the field (`SStep.field_ne`).
-/
import SnowVerif.Lemmas.IntegritySym
set_option linter.unusedVariables false
set_option linter.unusedSimpArgs false
namespace SnowVerif.Spec.Integrity
open SnowVerif SnowVerif.Spec Bytes SymmetricState HandshakeState
variable {S : Suite}

def pskOf (hs : HandshakeState) : Tok → Option Bytes
  | .psk n => hs.psks.getD n none
  | _ => none

/-- `a'` is `a` after hashing `c` into `h` (`ck`, `k` unchanged; `n` may change). -/
structure HStep (S : Suite) (a : SymmetricState) (c : Bytes) (a' : SymmetricState) : Prop where
  h : a'.h = S.hash (a.h ++ c)
  ck : a'.ck = a.ck
  k : a'.cs.k = a.cs.k

inductive SStep (S : Suite) (isPsk : Bool) : Tok → SymmetricState → Bytes → Option Bytes → SymmetricState → Prop
  | e (a : SymmetricState) (pub : Bytes) :
      SStep S isPsk .e a pub none (if isPsk then (a.mixHash S pub).mixKey S pub else a.mixHash S pub)
  | s (a a' : SymmetricState) (c : Bytes) (hs : HStep S a c a') : SStep S isPsk .s a c none a'
  | ee (a : SymmetricState) (out : Bytes) : SStep S isPsk .ee a [] none (a.mixKey S out)
  | es (a : SymmetricState) (out : Bytes) : SStep S isPsk .es a [] none (a.mixKey S out)
  | se (a : SymmetricState) (out : Bytes) : SStep S isPsk .se a [] none (a.mixKey S out)
  | ss (a : SymmetricState) (out : Bytes) : SStep S isPsk .ss a [] none (a.mixKey S out)
  | psk (n : Nat) (a : SymmetricState) (key : Bytes) :
      SStep S isPsk (.psk n) a [] (some key) (a.mixKeyAndHash S key)

structure Frame (W W1 : HandshakeState) : Prop where
  isPsk : W1.isPsk = W.isPsk
  psks : W1.psks = W.psks
  s : W1.s = W.s
  msgs : W1.msgs = W.msgs
  initiator : W1.initiator = W.initiator

theorem writeTok_view {eph : KeyPair} {W W1 : HandshakeState} {t : Tok} {b : Bytes}
    (h : writeTok S eph W t = some (b, W1)) :
    SStep S W.isPsk t W.ss b (pskOf W t) W1.ss ∧ Frame W W1 := by
  cases t
  case e =>
    simp only [writeTok, Option.some.injEq, Prod.mk.injEq] at h
    obtain ⟨rfl, rfl⟩ := h
    exact ⟨SStep.e _ _, ⟨rfl, rfl, rfl, rfl, rfl⟩⟩
  case s =>
    simp only [writeTok] at h
    split at h
    · simp only [Option.some.injEq, Prod.mk.injEq] at h
      obtain ⟨rfl, rfl⟩ := h
      exact ⟨SStep.s _ _ _ ⟨encryptAndHash_h _ _, encryptAndHash_ck _ _, encryptAndHash_k _ _⟩, ⟨rfl, rfl, rfl, rfl, rfl⟩⟩
    · simp at h
  case psk n =>
    simp only [writeTok, pskTok] at h
    split at h
    · simp only [Option.map_some, Option.some.injEq, Prod.mk.injEq] at h
      obtain ⟨rfl, rfl⟩ := h
      rename_i key hk
      simp only [pskOf, hk]
      exact ⟨SStep.psk _ _ _, ⟨rfl, rfl, rfl, rfl, rfl⟩⟩
    · simp at h
  all_goals
    simp only [writeTok, dhTok] at h
    split at h
    · simp only [Option.map_some, Option.some.injEq, Prod.mk.injEq] at h
      obtain ⟨rfl, rfl⟩ := h
      exact ⟨by constructor, ⟨rfl, rfl, rfl, rfl, rfl⟩⟩
    · simp at h

/-- Width on the wire of the field of a token, given `HasKey()`. -/
def tokWidth (S : Suite) (t : Tok) (k : Bool) : Nat :=
  match t with
  | .e => S.pubLen
  | .s => S.pubLen + (if k then 16 else 0)
  | _ => 0

theorem readTok_view {R R1 : HandshakeState} {t : Tok} {msg rest : Bytes}
    (h : readTok S R msg t = some (R1, rest)) :
    ∃ c, msg = c ++ rest ∧ c.length = tokWidth S t R.hasKey ∧
      SStep S R.isPsk t R.ss c (pskOf R t) R1.ss ∧ Frame R R1 := by
  cases t
  case e =>
    simp only [readTok] at h
    split at h
    · simp at h
    · rename_i hlen
      simp only [Option.some.injEq, Prod.mk.injEq] at h
      obtain ⟨rfl, rfl⟩ := h
      refine ⟨msg.take S.pubLen, (List.take_append_drop _ _).symm, ?_, SStep.e _ _, ⟨rfl, rfl, rfl, rfl, rfl⟩⟩
      simp only [tokWidth, List.length_take]; omega
  case s =>
    simp only [readTok] at h
    have hw : S.pubLen + (if R.hasKey = true then 16 else 0) = tokWidth S .s R.hasKey := rfl
    rw [hw] at h
    split at h
    · simp at h
    · rename_i hlen
      split at h
      · rename_i pk ss' hd
        simp only [Option.some.injEq, Prod.mk.injEq] at h
        obtain ⟨rfl, rfl⟩ := h
        refine ⟨msg.take (tokWidth S .s R.hasKey), (List.take_append_drop _ _).symm, ?_,
          SStep.s _ _ _ ⟨decryptAndHash_h hd, decryptAndHash_ck hd, decryptAndHash_k hd⟩, ⟨rfl, rfl, rfl, rfl, rfl⟩⟩
        simp only [List.length_take]; omega
      · simp at h
  case psk n =>
    simp only [readTok, pskTok] at h
    split at h
    · simp only [Option.map_some, Option.some.injEq, Prod.mk.injEq] at h
      obtain ⟨rfl, rfl⟩ := h
      rename_i key hk
      simp only [pskOf, hk]
      exact ⟨[], rfl, rfl, SStep.psk _ _ _, ⟨rfl, rfl, rfl, rfl, rfl⟩⟩
    · simp at h
  all_goals
    simp only [readTok, dhTok] at h
    split at h
    · simp only [Option.map_some, Option.some.injEq, Prod.mk.injEq] at h
      obtain ⟨rfl, rfl⟩ := h
      exact ⟨[], rfl, rfl, by constructor, ⟨rfl, rfl, rfl, rfl, rfl⟩⟩
    · simp at h

/-! ### Pairs of steps on the same token -/

theorem SStep.hlen (hL : S.HashLen) {isPsk : Bool} {t : Tok} {a a' : SymmetricState} {c : Bytes} {u : Option Bytes}
    (h : SStep S isPsk t a c u a') (hl : a.h.length = S.hashLen) : a'.h.length = S.hashLen := by
  cases h
  case e => split <;> simp [hL _]
  case s hs => rw [hs.h]; exact hL _
  case psk => simp [hL _]
  all_goals simpa using hl

theorem SStep.keyed {isPsk : Bool} {t : Tok} {a a' : SymmetricState} {c : Bytes} {u : Option Bytes}
    (h : SStep S isPsk t a c u a') : a'.cs.k.isSome = tokKeyed isPsk t a.cs.k.isSome := by
  cases h
  case e => cases isPsk <;> simp [tokKeyed]
  case s hs => rw [hs.k]; rfl
  all_goals simp [tokKeyed]

/-- `h`-divergence persists through a token, whatever each side mixes. -/
theorem SStep.h_ne {p p' : Bool} {t : Tok} {a a' b b' : SymmetricState} {c c' : Bytes} {u u' : Option Bytes}
    (ha : SStep S p t a c u a') (hb : SStep S p' t b c' u' b') (hl : a.h.length = b.h.length)
    (hne : a.h ≠ b.h) : a'.h ≠ b'.h ∨ HashCollision S := by
  cases ha <;> cases hb
  case e.e =>
    have := mixHash_h_ne (S := S) c c' hl (Or.inl hne)
    cases p <;> cases p' <;> simpa using this
  case s.s h1 h2 => exact hstep_h_ne hl h1.h h2.h (Or.inl hne)
  case psk.psk => exact mixKeyAndHash_h_ne _ _ hl hne
  all_goals exact Or.inl (by simpa using hne)

/-- The field a token puts on / takes from the wire is hashed: different fields, different `h`. -/
theorem SStep.field_ne {p p' : Bool} {t : Tok} {a a' b b' : SymmetricState} {c c' : Bytes} {u u' : Option Bytes}
    (ha : SStep S p t a c u a') (hb : SStep S p' t b c' u' b') (hl : a.h.length = b.h.length)
    (hne : c ≠ c') : a'.h ≠ b'.h ∨ HashCollision S := by
  cases ha <;> cases hb
  case e.e =>
    have := mixHash_h_ne (S := S) c c' hl (Or.inr hne)
    cases p <;> cases p' <;> simpa using this
  case s.s h1 h2 => exact hstep_h_ne hl h1.h h2.h (Or.inr hne)
  all_goals exact absurd rfl hne

/-- Divergence persists through a token, and a `psk` token with different keys creates it. -/
theorem SStep.div {p : Bool} {t : Tok} {a a' b b' : SymmetricState} {c c' : Bytes} {u u' : Option Bytes}
    (ha : SStep S p t a c u a') (hb : SStep S p t b c' u' b') (hl : a.h.length = b.h.length)
    (hd : DivS a b ∨ u ≠ u') : DivS a' b' ∨ Coll S := by
  cases ha <;> cases hb
  case e.e =>
    have hd : DivS a b := by simpa using hd
    rcases mixHash_div (S := S) c c' hl hd with h1 | h1
    · cases p
      · exact Or.inl h1
      · exact mixKey_div _ _ h1
    · exact Or.inr h1
  case s.s h1 h2 => exact hstep_div hl h1.h h2.h h1.ck h2.ck h1.k h2.k (by simpa using hd)
  case psk.psk k k' =>
    refine mixKeyAndHash_div _ _ hl ?_
    rcases hd with h | h
    · exact Or.inl h
    · exact Or.inr (by simpa using h)
  all_goals exact mixKey_div _ _ (by simpa using hd)

/-! ### Token lists -/

theorem writeToks_cons {eph : KeyPair} {t : Tok} {ts : List Tok} {W W1 : HandshakeState} {buf : Bytes} :
    writeToks S eph (t :: ts) W = some (buf, W1) ↔
      ∃ b Wm bs, writeTok S eph W t = some (b, Wm) ∧ writeToks S eph ts Wm = some (bs, W1) ∧ buf = b ++ bs := by
  simp only [writeToks]
  constructor
  · intro h
    split at h
    · simp at h
    · rename_i b Wm h1
      split at h
      · simp at h
      · rename_i bs W2 h2
        simp only [Option.some.injEq, Prod.mk.injEq] at h
        exact ⟨b, Wm, bs, h1, by rw [h2, h.2], h.1.symm⟩
  · rintro ⟨b, Wm, bs, h1, h2, rfl⟩
    simp [h1, h2]

theorem readToks_cons {t : Tok} {ts : List Tok} {R R1 : HandshakeState} {msg rem : Bytes} :
    readToks S (t :: ts) R msg = some (R1, rem) ↔
      ∃ Rm rest, readTok S R msg t = some (Rm, rest) ∧ readToks S ts Rm rest = some (R1, rem) := by
  simp only [readToks]
  constructor
  · intro h
    split at h
    · simp at h
    · rename_i Rm rest h1
      exact ⟨Rm, rest, h1, h⟩
  · rintro ⟨Rm, rest, h1, h2⟩
    simp [h1, h2]

theorem Frame.refl (W : HandshakeState) : Frame W W := ⟨rfl, rfl, rfl, rfl, rfl⟩
theorem Frame.trans {A B C : HandshakeState} (h1 : Frame A B) (h2 : Frame B C) : Frame A C :=
  ⟨h2.isPsk.trans h1.isPsk, h2.psks.trans h1.psks, h2.s.trans h1.s, h2.msgs.trans h1.msgs,
   h2.initiator.trans h1.initiator⟩

/-- What holds of writer and reader inside a message. -/
structure Inv (S : Suite) (W R : HandshakeState) : Prop where
  isPsk : W.isPsk = R.isPsk
  hasKey : W.hasKey = R.hasKey
  hW : W.ss.h.length = S.hashLen
  hR : R.ss.h.length = S.hashLen

theorem Inv.hlen {W R : HandshakeState} (i : Inv S W R) : W.ss.h.length = R.ss.h.length :=
  i.hW.trans i.hR.symm

theorem Inv.symm {W R : HandshakeState} (i : Inv S W R) : Inv S R W :=
  ⟨i.isPsk.symm, i.hasKey.symm, i.hR, i.hW⟩

/-- Everything about one token processed by a writer and a reader. -/
theorem tok_pair (hL : S.HashLen) {eph : KeyPair} {t : Tok} {W R W1 R1 : HandshakeState} {msg b rest : Bytes}
    (inv : Inv S W R) (hw : writeTok S eph W t = some (b, W1)) (hr : readTok S R msg t = some (R1, rest)) :
    Inv S W1 R1 ∧ Frame W W1 ∧ Frame R R1 ∧
    W1.hasKey = tokKeyed W.isPsk t W.hasKey ∧
    (W.ss.h ≠ R.ss.h → W1.ss.h ≠ R1.ss.h ∨ HashCollision S) ∧
    (msg = b ++ rest ∨ W1.ss.h ≠ R1.ss.h ∨ HashCollision S) ∧
    ((Div W R ∨ pskOf W t ≠ pskOf R t) → Div W1 R1 ∨ Coll S) := by
  obtain ⟨sw, fw⟩ := writeTok_view hw
  obtain ⟨c, hmsg, hclen, sr, fr⟩ := readTok_view hr
  have kw : W1.hasKey = tokKeyed W.isPsk t W.hasKey := sw.keyed
  have kr : R1.hasKey = tokKeyed R.isPsk t R.hasKey := sr.keyed
  refine ⟨⟨?_, ?_, sw.hlen hL inv.hW, sr.hlen hL inv.hR⟩, fw, fr, kw, ?_, ?_, ?_⟩
  · rw [fw.isPsk, fr.isPsk]; exact inv.isPsk
  · rw [kw, kr, inv.isPsk, inv.hasKey]
  · exact sw.h_ne sr inv.hlen
  · by_cases hc : b = c
    · left; rw [hmsg, hc]
    · right; exact sw.field_ne sr inv.hlen hc
  · intro hd
    rw [← inv.isPsk] at sr
    exact sw.div sr inv.hlen hd

theorem keyedAfter_append (isPsk : Bool) (ts us : List Tok) (k : Bool) :
    keyedAfter isPsk (ts ++ us) k = keyedAfter isPsk us (keyedAfter isPsk ts k) := by
  induction ts generalizing k with
  | nil => rfl
  | cons t ts ih => simp only [List.cons_append, keyedAfter]; exact ih _

/-- Everything about the token list of one message processed by a writer and a reader. -/
theorem toks_pair (hL : S.HashLen) {eph : KeyPair} : ∀ (ts : List Tok) {W R W1 R1 : HandshakeState}
    {msg buf rem : Bytes}, Inv S W R → writeToks S eph ts W = some (buf, W1) →
    readToks S ts R msg = some (R1, rem) →
    Inv S W1 R1 ∧ Frame W W1 ∧ Frame R R1 ∧
    W1.hasKey = keyedAfter W.isPsk ts W.hasKey ∧
    (W.ss.h ≠ R.ss.h → W1.ss.h ≠ R1.ss.h ∨ HashCollision S) ∧
    (msg = buf ++ rem ∨ W1.ss.h ≠ R1.ss.h ∨ HashCollision S) ∧
    ((Div W R ∨ ∃ n, Tok.psk n ∈ ts ∧ W.psks.getD n none ≠ R.psks.getD n none) → Div W1 R1 ∨ Coll S)
  | [], W, R, W1, R1, msg, buf, rem, inv, hw, hr => by
    simp only [writeToks, Option.some.injEq, Prod.mk.injEq] at hw
    simp only [readToks, Option.some.injEq, Prod.mk.injEq] at hr
    obtain ⟨rfl, rfl⟩ := hw
    obtain ⟨rfl, rfl⟩ := hr
    refine ⟨inv, Frame.refl _, Frame.refl _, rfl, Or.inl, Or.inl rfl, ?_⟩
    rintro (h | ⟨n, hn, _⟩)
    · exact Or.inl h
    · cases hn
  | t :: ts, W, R, W1, R1, msg, buf, rem, inv, hw, hr => by
    obtain ⟨b, Wm, bs, hw1, hw2, rfl⟩ := writeToks_cons.1 hw
    obtain ⟨Rm, rest, hr1, hr2⟩ := readToks_cons.1 hr
    obtain ⟨invm, fw, fr, kw, hne1, hf1, hd1⟩ := tok_pair hL inv hw1 hr1
    obtain ⟨inv1, fw2, fr2, kw2, hne2, hf2, hd2⟩ := toks_pair hL ts invm hw2 hr2
    have hne : W.ss.h ≠ R.ss.h → W1.ss.h ≠ R1.ss.h ∨ HashCollision S := by
      intro h
      rcases hne1 h with h | h
      · exact hne2 h
      · exact Or.inr h
    refine ⟨inv1, fw.trans fw2, fr.trans fr2, ?_, hne, ?_, ?_⟩
    · rw [kw2, kw, fw.isPsk]; rfl
    · rcases hf1 with h | h | h
      · rcases hf2 with h2 | h2
        · left; rw [h, h2, List.append_assoc]
        · exact Or.inr h2
      · exact Or.inr (hne2 h)
      · exact Or.inr (Or.inr h)
    · intro hd
      have : Div Wm Rm ∨ (∃ n, Tok.psk n ∈ ts ∧ Wm.psks.getD n none ≠ Rm.psks.getD n none) ∨ Coll S := by
        rcases hd with h | ⟨n, hn, hp⟩
        · rcases hd1 (Or.inl h) with h | h
          · exact Or.inl h
          · exact Or.inr (Or.inr h)
        · rcases List.mem_cons.1 hn with h | h
          · subst h
            rcases hd1 (Or.inr hp) with h | h
            · exact Or.inl h
            · exact Or.inr (Or.inr h)
          · right; left
            exact ⟨n, h, by rw [fw.psks, fr.psks]; exact hp⟩
      rcases this with h | h | h
      · exact hd2 (Or.inl h)
      · exact hd2 (Or.inr h)
      · exact Or.inr h

/-! ### Field widths -/

theorem encryptAndHash_len (hE : S.EncLen) (a : SymmetricState) (p : Bytes) :
    (a.encryptAndHash S p).1.length = p.length + (if a.cs.k.isSome then 16 else 0) := by
  rw [encryptAndHash_out]
  cases a.cs.k with
  | none => simp
  | some k => simp [hE _ _ _ _]

/-- Total width of the fields of a token list, given `HasKey()` at its start. -/
def toksWidth (S : Suite) (isPsk : Bool) : List Tok → Bool → Nat
  | [], _ => 0
  | t :: ts, k => tokWidth S t k + toksWidth S isPsk ts (tokKeyed isPsk t k)

theorem writeTok_len (hE : S.EncLen) {eph : KeyPair} (heph : eph.pub.length = S.pubLen)
    {W W1 : HandshakeState} {t : Tok} {b : Bytes}
    (hs : ∀ kp, W.s = some kp → kp.pub.length = S.pubLen)
    (h : writeTok S eph W t = some (b, W1)) : b.length = tokWidth S t W.hasKey := by
  cases t
  case e =>
    simp only [writeTok, Option.some.injEq, Prod.mk.injEq] at h
    rw [← h.1]; exact heph
  case s =>
    simp only [writeTok] at h
    split at h
    · rename_i kp hkp
      simp only [Option.some.injEq, Prod.mk.injEq] at h
      rw [← h.1, encryptAndHash_len hE, hs kp hkp]; rfl
    · simp at h
  case psk n =>
    simp only [writeTok] at h
    cases hp : pskTok S W n <;> rw [hp] at h <;> simp at h
    rw [h.1]; rfl
  all_goals
    simp only [writeTok] at h
    cases hp : dhTok S W _ <;> rw [hp] at h <;> simp at h
    rw [h.1]; rfl

theorem writeToks_len (hE : S.EncLen) {eph : KeyPair} (heph : eph.pub.length = S.pubLen) :
    ∀ (ts : List Tok) {W W1 : HandshakeState} {buf : Bytes},
    (∀ kp, W.s = some kp → kp.pub.length = S.pubLen) →
    writeToks S eph ts W = some (buf, W1) → buf.length = toksWidth S W.isPsk ts W.hasKey
  | [], W, W1, buf, hs, h => by
    simp only [writeToks, Option.some.injEq, Prod.mk.injEq] at h
    rw [← h.1]; rfl
  | t :: ts, W, W1, buf, hs, h => by
    obtain ⟨b, Wm, bs, h1, h2, rfl⟩ := writeToks_cons.1 h
    obtain ⟨sw, fw⟩ := writeTok_view h1
    have kw : Wm.hasKey = tokKeyed W.isPsk t W.hasKey := sw.keyed
    have := writeToks_len hE heph ts (W := Wm) (by rw [fw.s]; exact hs) h2
    rw [List.length_append, writeTok_len hE heph hs h1, this, fw.isPsk, kw]; rfl

theorem readToks_len : ∀ (ts : List Tok) {R R1 : HandshakeState} {msg rem : Bytes},
    readToks S ts R msg = some (R1, rem) →
    ∃ c, msg = c ++ rem ∧ c.length = toksWidth S R.isPsk ts R.hasKey
  | [], R, R1, msg, rem, h => by
    simp only [readToks, Option.some.injEq, Prod.mk.injEq] at h
    exact ⟨[], by rw [h.2]; rfl, rfl⟩
  | t :: ts, R, R1, msg, rem, h => by
    obtain ⟨Rm, rest, h1, h2⟩ := readToks_cons.1 h
    obtain ⟨c, hmsg, hclen, sr, fr⟩ := readTok_view h1
    have kr : Rm.hasKey = tokKeyed R.isPsk t R.hasKey := sr.keyed
    obtain ⟨c2, hrest, hc2⟩ := readToks_len ts h2
    refine ⟨c ++ c2, by rw [hmsg, hrest, List.append_assoc], ?_⟩
    rw [List.length_append, hclen, hc2, fr.isPsk, kr]; rfl

/-! ### One message -/

theorem Pre.symm {A B : HandshakeState} (h : Pre S A B) : Pre S B A :=
  ⟨h.msgs.symm, h.isPsk.symm, h.hasKey.symm, h.hB, h.hA, h.sB, h.sA⟩

theorem Pre.inv {A B : HandshakeState} (h : Pre S A B) : Inv S A B := ⟨h.isPsk, h.hasKey, h.hA, h.hB⟩

theorem writeMessage_some {W W' : HandshakeState} {p m : Bytes} {eph : KeyPair}
    {sw : Option (CipherState × CipherState)} (h : W.writeMessage S p eph = some (m, W', sw)) :
    ∃ ts rest buf W1, W.msgs = ts :: rest ∧ writeToks S eph ts W = some (buf, W1) ∧
      m = buf ++ (W1.ss.encryptAndHash S p).1 ∧
      W' = { W1 with ss := (W1.ss.encryptAndHash S p).2, msgs := rest } := by
  unfold writeMessage at h
  split at h
  · simp at h
  · rename_i ts rest hm
    split at h
    · simp at h
    · rename_i buf W1 hw
      simp only [Option.some.injEq, Prod.mk.injEq] at h
      exact ⟨ts, rest, buf, W1, hm, hw, h.1.symm, h.2.1.symm⟩

theorem readMessage_some {R R' : HandshakeState} {p' msg : Bytes}
    {sr : Option (CipherState × CipherState)} (h : R.readMessage S msg = some (p', R', sr)) :
    ∃ ts rest R1 rem ss', R.msgs = ts :: rest ∧ readToks S ts R msg = some (R1, rem) ∧
      R1.ss.decryptAndHash S rem = some (p', ss') ∧
      R' = { R1 with ss := ss', msgs := rest } := by
  unfold readMessage at h
  split at h
  · simp at h
  · rename_i ts rest hm
    split at h
    · simp at h
    · rename_i R1 rem hr
      split at h
      · simp at h
      · rename_i pl ss' hd
        simp only [Option.some.injEq, Prod.mk.injEq] at h
        exact ⟨ts, rest, R1, rem, ss', hm, hr, by rw [hd, h.1], h.2.1.symm⟩

/-- The two calls that process one message, taken apart: the token lists, the states before the
    payload, the payload field on either side. -/
structure MsgView (S : Suite) (W R W' R' : HandshakeState) (p p' m msg : Bytes) (eph : KeyPair) : Prop where
  ex : ∃ ts rest buf W1 R1 rem,
    W.msgs = ts :: rest ∧ R.msgs = ts :: rest ∧
    writeToks S eph ts W = some (buf, W1) ∧ readToks S ts R msg = some (R1, rem) ∧
    m = buf ++ (W1.ss.encryptAndHash S p).1 ∧
    HStep S W1.ss (W1.ss.encryptAndHash S p).1 W'.ss ∧ HStep S R1.ss rem R'.ss ∧
    (∃ ss', R1.ss.decryptAndHash S rem = some (p', ss')) ∧
    Frame W1 { W' with msgs := W1.msgs } ∧ Frame R1 { R' with msgs := R1.msgs } ∧
    W'.msgs = rest ∧ R'.msgs = rest

theorem msg_view {W R W' R' : HandshakeState} {p p' m msg : Bytes} {eph : KeyPair}
    {sw sr : Option (CipherState × CipherState)} (hm : W.msgs = R.msgs)
    (hw : W.writeMessage S p eph = some (m, W', sw)) (hr : R.readMessage S msg = some (p', R', sr)) :
    MsgView S W R W' R' p p' m msg eph := by
  obtain ⟨ts, rest, buf, W1, hm1, hw1, rfl, rfl⟩ := writeMessage_some hw
  obtain ⟨ts', rest', R1, rem, ss', hm2, hr1, hd, rfl⟩ := readMessage_some hr
  rw [hm1, hm2] at hm
  simp only [List.cons.injEq] at hm
  obtain ⟨rfl, rfl⟩ := hm
  exact ⟨ts, rest, buf, W1, R1, rem, hm1, hm2, hw1, hr1, rfl,
    ⟨encryptAndHash_h _ _, encryptAndHash_ck _ _, encryptAndHash_k _ _⟩,
    ⟨decryptAndHash_h hd, decryptAndHash_ck hd, decryptAndHash_k hd⟩, ⟨ss', hd⟩,
    ⟨rfl, rfl, rfl, rfl, rfl⟩, ⟨rfl, rfl, rfl, rfl, rfl⟩, rfl, rfl⟩

end SnowVerif.Spec.Integrity
