/-
  C06 over histories, Stage 2: a fact about the pattern tables.

  In non-psk mode an `e` token only hashes the fresh ephemeral public key.  An `s` token (or the
  payload) that follows it in the same message while a key is installed, with no key-installing
  token in between, would be encrypted under the key and nonce current *before* the message with
  an associated data (`h`) that depends on the fresh ephemeral: a failed write and its retry
  would then encrypt different data under one (key, nonce).  `encAfterE` is the (decidable)
  statement that a message does not do that; it holds for every message of every table pattern
  (checked by evaluation over ALL constructors of `Generated.Pattern`), and in psk mode for every
  token list (there every `e` installs a key), hence for every instance `handshakeTokens` returns.
-/
import SnowVerif.Lemmas.C06Write
import SnowVerif.Lemmas.C14Len
import SnowVerif.Model.Builder

namespace SnowVerif.C06
open SnowVerif SnowVerif.Model SnowVerif.Framing SnowVerif.Generated
set_option linter.unusedVariables false
set_option linter.unusedSimpArgs false

/-- "An `e` token has been processed since the last key installation of this message", after `t`. -/
def seenAfter (isPsk : Bool) (t : Tok) (seen : Bool) : Bool :=
  match t with
  | .e => !isPsk
  | .s => seen
  | _ => false

/-- Scan of one message: `k` is `has_key` (`Framing.tokKeyed`), `seen` says an `e` was processed
    since the last installing token (`installsTok`). False iff an `s` token, or the payload (end of
    the list), is met with `seen` and `k` both true. -/
def encAfterE (isPsk : Bool) : List Tok → Bool → Bool → Bool
  | [], k, seen => !(seen && k)
  | t :: ts, k, seen =>
    (match t with
     | .s => !(seen && k)
     | _ => true) && encAfterE isPsk ts (tokKeyed isPsk t k) (seenAfter isPsk t seen)

/-- All messages of an instance, `k` the keyedness the first of them starts with. -/
def EncAfterEOk (isPsk : Bool) : List (List Tok) → Bool → Bool
  | [], _ => true
  | m :: ms, k => encAfterE isPsk m k false && EncAfterEOk isPsk ms (keyedAfter isPsk m k)

theorem seenAfter_installs (isPsk : Bool) (t : Tok) (seen : Bool) (h : installsTok isPsk t = true) :
    seenAfter isPsk t seen = false := by
  cases t <;> simp_all [installsTok, seenAfter]

/-- **Table fact**: every message of every pattern of the table (no modifiers, non-psk mode)
    passes the scan, starting un-keyed at the first message. -/
theorem table_encAfterE : ∀ p ∈ allPatterns, EncAfterEOk false p.tokens.msgs false = true := by decide

theorem allPatterns_mem (p : Pattern) : p ∈ allPatterns := by cases p <;> decide

/-- In psk mode every token list passes the scan: every `e` installs a key. -/
theorem encAfterE_psk (ts : List Tok) (k : Bool) : encAfterE true ts k false = true := by
  induction ts generalizing k with
  | nil => rfl
  | cons t ts ih =>
    have hs : seenAfter true t false = false := by cases t <;> rfl
    simp only [encAfterE, hs, ih, Bool.and_true]
    cases t <;> rfl

theorem EncAfterEOk_psk (ms : List (List Tok)) (k : Bool) : EncAfterEOk true ms k = true := by
  induction ms generalizing k with
  | nil => rfl
  | cons m ms ih => simp only [EncAfterEOk, encAfterE_psk, ih, Bool.and_self]

theorem applyModifiers_nopsk (inst inst' : Inst) (mods : List Modifier)
    (h : applyModifiers inst mods = .ok inst') (hp : isPskMods mods = false) : inst' = inst := by
  cases mods with
  | nil => simp only [applyModifiers, Res.ok.injEq] at h; exact h.symm
  | cons m ms =>
    cases m with
    | psk n => simp [isPskMods] at hp
    | fallback => simp [applyModifiers] at h

/-- **Every instance `HandshakeTokens::try_from` produces passes the scan** in the mode
    (`is_psk()`) it is run in: any table pattern with any modifier list. -/
theorem handshakeTokens_encAfterE (p : Pattern) (mods : List Modifier) (inst : Inst)
    (h : handshakeTokens p mods = .ok inst) : EncAfterEOk (isPskMods mods) inst.msgs false = true := by
  cases hp : isPskMods mods with
  | true => exact EncAfterEOk_psk _ _
  | false =>
    have := applyModifiers_nopsk p.tokens inst mods h hp
    rw [this]
    exact table_encAfterE p (allPatterns_mem p)

/-- Keyedness after a list of messages. -/
def keyedMsgs (isPsk : Bool) : List (List Tok) → Bool → Bool
  | [], k => k
  | m :: ms, k => keyedMsgs isPsk ms (keyedAfter isPsk m k)

theorem keyedMsgs_append (isPsk : Bool) (a b : List (List Tok)) (k : Bool) :
    keyedMsgs isPsk (a ++ b) k = keyedMsgs isPsk b (keyedMsgs isPsk a k) := by
  induction a generalizing k with
  | nil => rfl
  | cons m a ih => simp only [List.cons_append, keyedMsgs, ih]

/-- From the instance-level fact to the message at position `pos`: it passes the scan from the
    keyedness the earlier messages leave. -/
theorem EncAfterEOk_at (isPsk : Bool) (ms : List (List Tok)) (k : Bool) (h : EncAfterEOk isPsk ms k = true)
    (pos : Nat) : encAfterE isPsk (ms.getD pos []) (keyedMsgs isPsk (ms.take pos) k) false = true := by
  induction ms generalizing k pos with
  | nil => simp [encAfterE]
  | cons m ms ih =>
    simp only [EncAfterEOk, Bool.and_eq_true] at h
    cases pos with
    | zero => simpa [keyedMsgs] using h.1
    | succ pos =>
      have := ih _ h.2 pos
      simpa [keyedMsgs] using this

end SnowVerif.C06
