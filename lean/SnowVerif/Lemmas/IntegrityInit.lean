/-
  Integrity, part 6: the context enters the initial state.  `Initialize` hashes the protocol
  name, the prologue and the pre-message public keys into `h`; two parties that differ in any of
  them start diverged (`h` differ) unless a hash collision is exhibited, and two parties
  initialised on the same pattern satisfy `Pre`.
-/
import SnowVerif.Lemmas.IntegrityMain
set_option linter.unusedVariables false
set_option linter.unusedSimpArgs false

namespace SnowVerif.Spec.Integrity
open SnowVerif SnowVerif.Spec Bytes SymmetricState HandshakeState
variable {S : Suite}

/-! ### `InitializeSymmetric`, `mixPre`, `preKeys` -/

theorem symInit_hlen (hL : S.HashLen) (name : Bytes) : (SymmetricState.init S name).h.length = S.hashLen := by
  unfold SymmetricState.init
  simp only
  split
  · rename_i h
    simp only [padTo, zeros, List.length_append, List.length_replicate]; omega
  · exact hL _

theorem symInit_hasKey (name : Bytes) : (SymmetricState.init S name).cs.k = none := rfl

/-- One pre-message key: `MixHash`, and `MixKey` for an `e` in a PSK handshake. -/
theorem mixPre_cons (p : Bool) (ss : SymmetricState) (k : Bytes) (isE : Bool) (ks : List (Bytes × Bool)) :
    mixPre S p ss ((k, isE) :: ks) =
      mixPre S p (if isE && p then (ss.mixHash S k).mixKey S k else ss.mixHash S k) ks := rfl

theorem ite_mixKey_h (c : Bool) (ss : SymmetricState) (k : Bytes) :
    (if c then ss.mixKey S k else ss).h = ss.h := by
  cases c <;> rfl

theorem mixPre_hlen (hL : S.HashLen) (p : Bool) : ∀ (ks : List (Bytes × Bool)) (ss : SymmetricState),
    ss.h.length = S.hashLen → (mixPre S p ss ks).h.length = S.hashLen
  | [], ss, h => h
  | (k, isE) :: ks, ss, h => by
    rw [mixPre_cons]
    apply mixPre_hlen hL p ks
    rw [ite_mixKey_h]; exact hL _

/-- `HasKey()` after the pre-messages, from the `e` flags of the keys. -/
def preKeyed (p : Bool) : List Bool → Bool → Bool
  | [], k => k
  | isE :: fs, k => preKeyed p fs (k || (isE && p))

theorem mixPre_keyed (p : Bool) : ∀ (ks : List (Bytes × Bool)) (ss : SymmetricState),
    (mixPre S p ss ks).cs.k.isSome = preKeyed p (ks.map (·.2)) ss.cs.k.isSome
  | [], ss => rfl
  | (k, isE) :: ks, ss => by
    rw [mixPre_cons, mixPre_keyed p ks]
    simp only [List.map_cons, preKeyed]
    congr 1
    cases isE <;> cases p <;> simp

/-- Pre-message hashing keeps and creates `h`-divergence: two key lists of the same length mixed
    into chaining values of `HASHLEN` bytes; if the chaining values or the keys differ, the
    results differ or a hash collision is exhibited. -/
theorem mixPre_h_ne (hL : S.HashLen) (p p' : Bool) : ∀ (ks ks' : List (Bytes × Bool)) (ss ss' : SymmetricState),
    ss.h.length = S.hashLen → ss'.h.length = S.hashLen → ks.length = ks'.length →
    (ss.h ≠ ss'.h ∨ ks.map (·.1) ≠ ks'.map (·.1)) →
    (mixPre S p ss ks).h ≠ (mixPre S p' ss' ks').h ∨ HashCollision S
  | [], [], ss, ss', hl, hl', _, hd => by
    rcases hd with h | h
    · exact Or.inl h
    · exact absurd rfl h
  | [], _ :: _, _, _, _, _, hlen, _ => by simp at hlen
  | _ :: _, [], _, _, _, _, hlen, _ => by simp at hlen
  | (k, isE) :: ks, (k', isE') :: ks', ss, ss', hl, hl', hlen, hd => by
    rw [mixPre_cons, mixPre_cons]
    have hlen' : ks.length = ks'.length := by simpa using hlen
    have ih := mixPre_h_ne hL p p' ks ks'
      (if isE && p then (ss.mixHash S k).mixKey S k else ss.mixHash S k)
      (if isE' && p' then (ss'.mixHash S k').mixKey S k' else ss'.mixHash S k')
      (by rw [ite_mixKey_h]; exact hL _) (by rw [ite_mixKey_h]; exact hL _) hlen'
    rw [ite_mixKey_h, ite_mixKey_h] at ih
    by_cases hk : ss.h ≠ ss'.h ∨ k ≠ k'
    · rcases mixHash_h_ne (S := S) k k' (hl.trans hl'.symm) hk with h | h
      · exact ih (Or.inl h)
      · exact Or.inr h
    · have hkk : k = k' := Classical.byContradiction fun h => hk (Or.inr h)
      rcases hd with h | h
      · exact absurd (Or.inl h) hk
      · apply ih; right
        intro e; apply h
        simp only [List.map_cons, e, hkk]

/-- The same for the two pre-messages (initiator's first). -/
theorem mixPre2_h_ne (hL : S.HashLen) (p p' : Bool) {a a' b b' : List (Bytes × Bool)} {ss ss' : SymmetricState}
    (hl : ss.h.length = S.hashLen) (hl' : ss'.h.length = S.hashLen)
    (hla : a.length = a'.length) (hlb : b.length = b'.length)
    (hd : ss.h ≠ ss'.h ∨ a.map (·.1) ≠ a'.map (·.1) ∨ b.map (·.1) ≠ b'.map (·.1)) :
    (mixPre S p (mixPre S p ss a) b).h ≠ (mixPre S p' (mixPre S p' ss' a') b').h ∨ HashCollision S := by
  have l1 := mixPre_hlen hL p a ss hl
  have l1' := mixPre_hlen hL p' a' ss' hl'
  rcases hd with h | h | h
  · rcases mixPre_h_ne hL p p' a a' ss ss' hl hl' hla (Or.inl h) with h1 | h1
    · exact mixPre_h_ne hL p p' b b' _ _ l1 l1' hlb (Or.inl h1)
    · exact Or.inr h1
  · rcases mixPre_h_ne hL p p' a a' ss ss' hl hl' hla (Or.inr h) with h1 | h1
    · exact mixPre_h_ne hL p p' b b' _ _ l1 l1' hlb (Or.inl h1)
    · exact Or.inr h1
  · exact mixPre_h_ne hL p p' b b' _ _ l1 l1' hlb (Or.inr h)

theorem preKeys_cons {s e : Option Bytes} {t : Tok} {ts : List Tok} {a : List (Bytes × Bool)}
    (h : preKeys s e (t :: ts) = some a) :
    ∃ x xs, a = x :: xs ∧ preKeys s e ts = some xs ∧
      ((t = .s ∧ s = some x.1 ∧ x.2 = false) ∨ (t = .e ∧ e = some x.1 ∧ x.2 = true)) := by
  simp only [preKeys] at h
  split at h
  · rename_i x xs h1 h2
    simp only [Option.some.injEq] at h
    refine ⟨x, xs, h.symm, h2, ?_⟩
    cases t <;> simp only [reduceCtorEq] at h1
    · right
      cases e with
      | none => simp at h1
      | some v => simp only [Option.map_some, Option.some.injEq] at h1; subst h1; exact ⟨rfl, rfl, rfl⟩
    · left
      cases s with
      | none => simp at h1
      | some v => simp only [Option.map_some, Option.some.injEq] at h1; subst h1; exact ⟨rfl, rfl, rfl⟩
  · simp at h

theorem preKeys_length {s e : Option Bytes} : ∀ {ts : List Tok} {a : List (Bytes × Bool)},
    preKeys s e ts = some a → a.length = ts.length
  | [], a, h => by simp only [preKeys, Option.some.injEq] at h; rw [← h]; rfl
  | t :: ts, a, h => by
    obtain ⟨x, xs, rfl, h2, _⟩ := preKeys_cons h
    simp [preKeys_length h2]

/-- The `e` flags of the pre-message keys depend on the pattern only. -/
theorem preKeys_flags {s e s' e' : Option Bytes} : ∀ {ts : List Tok} {a a' : List (Bytes × Bool)},
    preKeys s e ts = some a → preKeys s' e' ts = some a' → a.map (·.2) = a'.map (·.2)
  | [], a, a', h, h' => by
    simp only [preKeys, Option.some.injEq] at h h'; rw [← h, ← h']
  | t :: ts, a, a', h, h' => by
    obtain ⟨x, xs, rfl, h2, hx⟩ := preKeys_cons h
    obtain ⟨x', xs', rfl, h2', hx'⟩ := preKeys_cons h'
    simp only [List.map_cons, List.cons.injEq]
    refine ⟨?_, preKeys_flags h2 h2'⟩
    rcases hx with ⟨rfl, _, h1⟩ | ⟨rfl, _, h1⟩ <;> rcases hx' with ⟨ht, _, h1'⟩ | ⟨ht, _, h1'⟩ <;>
      first | (cases ht; done) | (rw [h1, h1'])

/-- A pre-message key on which the two parties differ makes the key lists differ. -/
theorem preKeys_ne {s e s' e' : Option Bytes} : ∀ {ts : List Tok} {a a' : List (Bytes × Bool)},
    preKeys s e ts = some a → preKeys s' e' ts = some a' →
    ((Tok.s ∈ ts ∧ s ≠ s') ∨ (Tok.e ∈ ts ∧ e ≠ e')) → a.map (·.1) ≠ a'.map (·.1)
  | [], a, a', h, h', hd => by
    rcases hd with ⟨h, _⟩ | ⟨h, _⟩ <;> cases h
  | t :: ts, a, a', h, h', hd => by
    obtain ⟨x, xs, rfl, h2, hx⟩ := preKeys_cons h
    obtain ⟨x', xs', rfl, h2', hx'⟩ := preKeys_cons h'
    simp only [List.map_cons, ne_eq, List.cons.injEq, not_and]
    intro hxx
    have tl : (Tok.s ∈ ts ∧ s ≠ s') ∨ (Tok.e ∈ ts ∧ e ≠ e') → xs.map (·.1) ≠ xs'.map (·.1) :=
      preKeys_ne h2 h2'
    rcases hd with ⟨hm, hne⟩ | ⟨hm, hne⟩
    · rcases List.mem_cons.1 hm with rfl | hm
      · exfalso
        rcases hx with ⟨_, hs, _⟩ | ⟨ht, _, _⟩
        · rcases hx' with ⟨_, hs', _⟩ | ⟨ht, _, _⟩
          · exact hne (by rw [hs, hs', hxx])
          · cases ht
        · cases ht
      · exact tl (Or.inl ⟨hm, hne⟩)
    · rcases List.mem_cons.1 hm with rfl | hm
      · exfalso
        rcases hx with ⟨ht, _, _⟩ | ⟨_, hs, _⟩
        · cases ht
        · rcases hx' with ⟨ht, _, _⟩ | ⟨_, hs', _⟩
          · cases ht
          · exact hne (by rw [hs, hs', hxx])
      · exact tl (Or.inr ⟨hm, hne⟩)

/-! ### `Initialize` -/

/-- `Initialize` taken apart: the two pre-message key lists (initiator's, responder's) as this
    party knows them, and the resulting state. -/
theorem init_some {name prologue : Bytes} {pat : Inst} {isPsk initiator : Bool} {s e : Option KeyPair}
    {rs re : Option Bytes} {psks : List (Option Bytes)} {A : HandshakeState}
    (h : HandshakeState.init S name prologue pat isPsk initiator s e rs re psks = some A) :
    ∃ a b,
      preKeys (if initiator then s.map (·.pub) else rs) (if initiator then e.map (·.pub) else re) pat.preI = some a ∧
      preKeys (if initiator then rs else s.map (·.pub)) (if initiator then re else e.map (·.pub)) pat.preR = some b ∧
      A.ss = mixPre S isPsk (mixPre S isPsk ((SymmetricState.init S name).mixHash S prologue) a) b ∧
      A.msgs = pat.msgs ∧ A.isPsk = isPsk ∧ A.s = s ∧ A.psks = psks ∧ A.initiator = initiator := by
  unfold HandshakeState.init at h
  cases initiator <;> simp only [if_true, if_false, Bool.false_eq_true] at h ⊢
  all_goals
    split at h
    · rename_i a b ha hb
      simp only [Option.some.injEq] at h
      subst h
      exact ⟨a, b, ha, hb, rfl, rfl, rfl, rfl, rfl, rfl⟩
    · simp at h

theorem ss0_hlen (hL : S.HashLen) (name prologue : Bytes) :
    ((SymmetricState.init S name).mixHash S prologue).h.length = S.hashLen := hL _

section
variable {name name' prologue prologue' : Bytes} {pat : Inst} {isPsk isPsk' ini ini' : Bool}
  {s e s' e' : Option KeyPair} {rs re rs' re' : Option Bytes} {psks psks' : List (Option Bytes)}
  {A B : HandshakeState}

/-- Two `Initialize` calls on the same pattern: if the symmetric states after
    `MixHash(prologue)` differ in `h`, or the parties differ on a pre-message key list, the
    initial states differ in `h`, or a hash collision is exhibited. -/
theorem init_h_ne (hL : S.HashLen)
    (hA : HandshakeState.init S name prologue pat isPsk ini s e rs re psks = some A)
    (hB : HandshakeState.init S name' prologue' pat isPsk' ini' s' e' rs' re' psks' = some B) :
    ∃ a b a' b',
      preKeys (if ini then s.map (·.pub) else rs) (if ini then e.map (·.pub) else re) pat.preI = some a ∧
      preKeys (if ini then rs else s.map (·.pub)) (if ini then re else e.map (·.pub)) pat.preR = some b ∧
      preKeys (if ini' then s'.map (·.pub) else rs') (if ini' then e'.map (·.pub) else re') pat.preI = some a' ∧
      preKeys (if ini' then rs' else s'.map (·.pub)) (if ini' then re' else e'.map (·.pub)) pat.preR = some b' ∧
      ((((SymmetricState.init S name).mixHash S prologue).h ≠ ((SymmetricState.init S name').mixHash S prologue').h ∨
        a.map (·.1) ≠ a'.map (·.1) ∨ b.map (·.1) ≠ b'.map (·.1)) →
       A.ss.h ≠ B.ss.h ∨ HashCollision S) := by
  obtain ⟨a, b, ha, hb, hss, -⟩ := init_some hA
  obtain ⟨a', b', ha', hb', hss', -⟩ := init_some hB
  refine ⟨a, b, a', b', ha, hb, ha', hb', ?_⟩
  intro hd
  rw [hss, hss']
  exact mixPre2_h_ne hL isPsk isPsk' (ss0_hlen hL _ _) (ss0_hlen hL _ _)
    ((preKeys_length ha).trans (preKeys_length ha').symm)
    ((preKeys_length hb).trans (preKeys_length hb').symm) hd

/-- **The prologue enters the initial state**: two parties initialised with the same protocol
    name and pattern but different prologues (whatever their roles and keys) start with different
    `h`, or a hash collision is exhibited. -/
theorem init_prologue_div (hL : S.HashLen)
    (hA : HandshakeState.init S name prologue pat isPsk ini s e rs re psks = some A)
    (hB : HandshakeState.init S name prologue' pat isPsk' ini' s' e' rs' re' psks' = some B)
    (hne : prologue ≠ prologue') : A.ss.h ≠ B.ss.h ∨ HashCollision S := by
  obtain ⟨a, b, a', b', -, -, -, -, key⟩ := init_h_ne hL hA hB
  rcases mixHash_h_ne (S := S) (a := SymmetricState.init S name) (b := SymmetricState.init S name)
      prologue prologue' rfl (Or.inr hne) with h | h
  · exact key (Or.inl h)
  · exact Or.inr h

/-- The protocol names that `InitializeSymmetric` maps injectively (up to hash collisions): both
    longer than `HASHLEN` (hashed), or both at most `HASHLEN` and of equal length (zero-padded;
    names of different lengths can pad to the same block). -/
def NamesComparable (S : Suite) (n1 n2 : Bytes) : Prop :=
  (S.hashLen < n1.length ∧ S.hashLen < n2.length) ∨
  (n1.length ≤ S.hashLen ∧ n2.length ≤ S.hashLen ∧ n1.length = n2.length)

theorem symInit_h_ne (n1 n2 : Bytes) (hc : NamesComparable S n1 n2) (hne : n1 ≠ n2) :
    (SymmetricState.init S n1).h ≠ (SymmetricState.init S n2).h ∨ HashCollision S := by
  unfold SymmetricState.init
  rcases hc with ⟨h1, h2⟩ | ⟨h1, h2, h3⟩
  · simp only [Nat.not_le.2 h1, Nat.not_le.2 h2, if_false]
    by_cases e : S.hash n1 = S.hash n2
    · exact Or.inr ⟨n1, n2, hne, e⟩
    · exact Or.inl e
  · simp only [h1, h2, if_true]
    left
    intro e
    simp only [padTo] at e
    exact hne (List.append_inj e h3).1

/-- **The protocol name enters the initial state**: two parties initialised with different
    protocol names (both longer than `HASHLEN`, or both at most `HASHLEN` and of equal length), on
    the same pattern, whatever prologues, roles and keys, start with different `h`, or a hash
    collision is exhibited. -/
theorem init_name_div (hL : S.HashLen)
    (hA : HandshakeState.init S name prologue pat isPsk ini s e rs re psks = some A)
    (hB : HandshakeState.init S name' prologue' pat isPsk' ini' s' e' rs' re' psks' = some B)
    (hc : NamesComparable S name name') (hne : name ≠ name') : A.ss.h ≠ B.ss.h ∨ HashCollision S := by
  obtain ⟨a, b, a', b', -, -, -, -, key⟩ := init_h_ne hL hA hB
  rcases symInit_h_ne name name' hc hne with h | h
  · rcases mixHash_h_ne (S := S) prologue prologue'
        ((symInit_hlen hL name).trans (symInit_hlen hL name').symm) (Or.inl h) with h | h
    · exact key (Or.inl h)
    · exact Or.inr h
  · exact Or.inr h

/-- **The pre-message public keys enter the initial state**: an initiator and a responder
    initialised on the same pattern that differ on a public key the pattern lists in a pre-message
    (the responder's static key as the initiator holds it in `rs` vs the responder's own `s`, the
    initiator's static key vs what the responder holds in `rs`, likewise for pre-message `e`),
    start with different `h`, or a hash collision is exhibited. -/
theorem init_prekey_div (hL : S.HashLen)
    (hA : HandshakeState.init S name prologue pat isPsk true s e rs re psks = some A)
    (hB : HandshakeState.init S name' prologue' pat isPsk' false s' e' rs' re' psks' = some B)
    (hd : (Tok.s ∈ pat.preR ∧ rs ≠ s'.map (·.pub)) ∨ (Tok.e ∈ pat.preR ∧ re ≠ e'.map (·.pub)) ∨
          (Tok.s ∈ pat.preI ∧ s.map (·.pub) ≠ rs') ∨ (Tok.e ∈ pat.preI ∧ e.map (·.pub) ≠ re')) :
    A.ss.h ≠ B.ss.h ∨ HashCollision S := by
  obtain ⟨a, b, a', b', ha, hb, ha', hb', key⟩ := init_h_ne hL hA hB
  simp only [if_true, if_false, Bool.false_eq_true] at ha hb ha' hb'
  apply key
  right
  rcases hd with h | h | h | h
  · exact Or.inr (preKeys_ne hb hb' (Or.inl h))
  · exact Or.inr (preKeys_ne hb hb' (Or.inr h))
  · exact Or.inl (preKeys_ne ha ha' (Or.inl h))
  · exact Or.inl (preKeys_ne ha ha' (Or.inr h))

/-- Two parties initialised on the same pattern in the same psk mode (whatever names, prologues,
    roles, keys) satisfy `Pre`, provided their static public keys have `DHLEN` bytes. -/
theorem init_pre (hL : S.HashLen)
    (hA : HandshakeState.init S name prologue pat isPsk ini s e rs re psks = some A)
    (hB : HandshakeState.init S name' prologue' pat isPsk ini' s' e' rs' re' psks' = some B)
    (hs : ∀ kp, s = some kp → kp.pub.length = S.pubLen)
    (hs' : ∀ kp, s' = some kp → kp.pub.length = S.pubLen) : Pre S A B := by
  obtain ⟨a, b, ha, hb, hss, hm, hi, hsA, -⟩ := init_some hA
  obtain ⟨a', b', ha', hb', hss', hm', hi', hsB, -⟩ := init_some hB
  refine ⟨hm.trans hm'.symm, hi.trans hi'.symm, ?_, ?_, ?_, ?_, ?_⟩
  · unfold HandshakeState.hasKey
    rw [hss, hss', mixPre_keyed, mixPre_keyed, mixPre_keyed, mixPre_keyed,
      preKeys_flags ha ha', preKeys_flags hb hb']
    rfl
  · rw [hss]; exact mixPre_hlen hL _ _ _ (mixPre_hlen hL _ _ _ (ss0_hlen hL _ _))
  · rw [hss']; exact mixPre_hlen hL _ _ _ (mixPre_hlen hL _ _ _ (ss0_hlen hL _ _))
  · rw [hsA]; exact hs
  · rw [hsB]; exact hs'

/-- `psk` keys the parties were initialised with are the ones `PskMismatch` speaks about. -/
theorem init_pskMismatch
    (hA : HandshakeState.init S name prologue pat isPsk ini s e rs re psks = some A)
    (hB : HandshakeState.init S name' prologue' pat isPsk' ini' s' e' rs' re' psks' = some B)
    (hd : ∃ m ∈ pat.msgs, ∃ n, Tok.psk n ∈ m ∧ psks.getD n none ≠ psks'.getD n none) :
    PskMismatch A B := by
  obtain ⟨a, b, -, -, -, hm, -, -, hp, -⟩ := init_some hA
  obtain ⟨a', b', -, -, -, -, -, -, hp', -⟩ := init_some hB
  unfold PskMismatch
  rw [hm, hp, hp']; exact hd

end
end SnowVerif.Spec.Integrity
