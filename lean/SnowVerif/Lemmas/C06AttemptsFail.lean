/-
  C06 with attempts, part 2: failing calls.

  * `EndOk X`: the two reachable-state invariants of one endpoint that the argument needs: `EInv`
    (Lemmas/C07ReachInv.lean: `SymInv`, and "no second `e`" for the messages this party still has to
    write; gives the side condition of the C07 no-op theorems) and `InstOk` (Lemmas/C06HistInst.lean:
    the instance passes the Stage 2 scan).  Both hold of every state `Builder::build` returns and are
    preserved by every call that does not panic.
  * `fail_step`: a call that returns an error leaves an `Equiv` state (C07) satisfying `EndOk` again.
  * `fail_segment`: a list of failing calls on the two endpoints of a pair, in any interleaving,
    leaves an `Equiv` pair, keeps the leader, and satisfies the side conditions `MOk` of the merged
    history theorem (Lemmas/C06AttemptsLog.lean).
  * `Round`, `roundOps`, `attOps`: an exchange "with attempts": per message of the plan, any list of
    failing calls of both endpoints, the writer's successful `write_message`, any list of failing
    calls of both endpoints, the reader's `read_message` of the genuine message.
-/
import SnowVerif.Lemmas.C06AttemptsLog
import SnowVerif.Lemmas.C07ReachInv

namespace SnowVerif.C06
open SnowVerif SnowVerif.Model SnowVerif.Model.HS SnowVerif.Framing
open SnowVerif.Theorems.C11 (Op step run NoPanic)
open SnowVerif.Lemmas.C07Reach (EInv)
set_option linter.unusedVariables false
set_option linter.unusedSimpArgs false

/-- The reachable-state invariants of one endpoint used by the attempts theorem. -/
structure EndOk (X : HS) : Prop where
  einv : EInv X
  inst : InstOk X

/-- Both endpoints of a pair satisfy `EndOk`. -/
def PairOk (P : HS × HS) : Prop := ∀ s, EndOk (pget P s)

/-- Endpoint-wise `Equiv` of two pairs. -/
def PEq (C P : HS × HS) : Prop := ∀ s, Equiv (pget C s) (pget P s)

theorem PEq.refl (P : HS × HS) : PEq P P := fun _ => Equiv.refl _

theorem PEq.trans {A B C : HS × HS} (h : PEq A B) (g : PEq B C) : PEq A C := fun s => (h s).trans (g s)

theorem PairOk.pset {P : HS × HS} (h : PairOk P) (s : Bool) {x : HS} (hx : EndOk x) : PairOk (pset P s x) := by
  intro s'
  by_cases hs : s' = s
  · subst hs; rw [pget_pset_same]; exact hx
  · rw [pget_pset_other _ _ _ _ hs]; exact h s'

theorem PEq.pset_right {C P : HS × HS} (h : PEq C P) (s : Bool) {x : HS} (hx : Equiv (pget P s) x) :
    PEq C (pset P s x) := by
  intro s'
  by_cases hs : s' = s
  · subst hs; rw [pget_pset_same]; exact (h s').trans hx
  · rw [pget_pset_other _ _ _ _ hs]; exact h s'

theorem PEq.pset_both {C P : HS × HS} (h : PEq C P) (s : Bool) {c x : HS} (hx : Equiv c x) :
    PEq (pset C s c) (pset P s x) := by
  intro s'
  by_cases hs : s' = s
  · subst hs; rw [pget_pset_same, pget_pset_same]; exact hx
  · rw [pget_pset_other _ _ _ _ hs, pget_pset_other _ _ _ _ hs]; exact h s'

/-- **A call that returns an error is a no-op up to `Equiv`, and keeps the invariants.** -/
theorem fail_step (S : Suite) (X : HS) (op : Op) (ok : EndOk X) (hf : callErr S X op = true) :
    Equiv X (step S X op) ∧ EndOk (step S X op) := by
  have inv := ok.einv.sym
  have hE : Equiv X (step S X op) := by
    cases op with
    | write p cap =>
      simp only [callErr] at hf
      simp only [step]
      cases hr : (X.writeMessage S p cap).1 with
      | err e =>
        exact Lemmas.C07Reach.hs_write_err_noop' S X inv ok.einv.noReW p cap e (X.writeMessage S p cap).2.1
          (X.writeMessage S p cap).2.2.1 (X.writeMessage S p cap).2.2.2 (by rw [← hr])
      | ok n => rw [hr] at hf; simp [resIsErr] at hf
      | panic q => rw [hr] at hf; simp [resIsErr] at hf
    | read m cap =>
      simp only [callErr] at hf
      simp only [step]
      cases hr : (X.readMessage S m cap).1 with
      | err e =>
        exact (Theorems.C07.hs_read_err_noop S X inv m cap e (X.readMessage S m cap).2.1
          (X.readMessage S m cap).2.2.1 (X.readMessage S m cap).2.2.2 (by rw [← hr])).1
      | ok n => rw [hr] at hf; simp [resIsErr] at hf
      | panic q => rw [hr] at hf; simp [resIsErr] at hf
    | setPsk loc key =>
      simp only [callErr] at hf
      simp only [step]
      unfold setPsk at hf ⊢
      split
      · exact Equiv.refl _
      · rename_i hc; simp [hc, resIsErr] at hf
  exact ⟨hE, ⟨ok.einv.of_equiv hE (step_inv S X op inv),
    instOk_step S X op inv (callErr_noPanic S X op hf) ok.inst⟩⟩

/-- Every call of the list, made in turn on the endpoint it names, returns an error. -/
def AllFail (S : Suite) : HS × HS → List MOp → Prop
  | _, [] => True
  | P, o :: ops => callErr S (pget P o.1) o.2 = true ∧ AllFail S (mstep S P o) ops

/-- **A list of failing calls on the two endpoints.** With the follower off turn: the pair it leaves
    is endpoint-wise `Equiv` to the pair it started from, both invariants survive, the leader is
    the same, and the side conditions of the merged history theorem hold along it. -/
theorem fail_segment (S : Suite) (ops : List MOp) : ∀ (P : HS × HS) (l : Bool),
    PairOk P → (pget P (!l)).myTurn = false → AllFail S P ops →
    PEq P (mrun S P ops) ∧ PairOk (mrun S P ops) ∧ mleadRun S P l ops = l ∧ MOk S P l ops := by
  induction ops with
  | nil => intro P l ok _ _; exact ⟨PEq.refl _, ok, rfl, trivial⟩
  | cons o ops ih =>
    intro P l ok hfol hf
    obtain ⟨s, op⟩ := o
    obtain ⟨hf0, hf1⟩ := hf
    simp only at hf0
    obtain ⟨hE, hok'⟩ := fail_step S (pget P s) op (ok s) hf0
    have hPE : PEq P (mstep S P (s, op)) := (PEq.refl P).pset_right s hE
    have hok1 : PairOk (mstep S P (s, op)) := ok.pset s hok'
    have hfol' : (pget (mstep S P (s, op)) (!l)).myTurn = false := by rw [← (hPE (!l)).myTurn]; exact hfol
    have hl : mlead S P l (s, op) = l := mlead_notOk S P l s op (callErr_notOk _ _ _ hf0)
    obtain ⟨e1, e2, e3, e4⟩ := ih _ l hok1 hfol' hf1
    refine ⟨hPE.trans e1, e2, ?_, ?_⟩
    · simp only [mleadRun, hl]; exact e3
    · refine ⟨(ok s).inst.eae, callErr_noPanic S _ op hf0, hfol, ?_, ?_⟩
      · intro _ hc; rw [callErr_notOk S _ op hf0] at hc; cases hc
      · rw [hl]; exact e4

/-! ### Exchanges with attempts -/

/-- One message of an exchange with attempts: the calls made before the writer's successful
    `write_message` (`pre`), the payload and buffer size of that write, the calls made between it and
    the reader's successful `read_message` (`mid`), and the reader's buffer size.  The calls in `pre`
    and `mid` are calls on either endpoint (`(true, op)`: first endpoint, `(false, op)`: second) with
    arbitrary arguments; the attempts theorems assume that each of them returns an error
    (`AttFails`). -/
structure Round where
  pre : List MOp
  p : Bytes
  cap : Nat
  mid : List MOp
  capr : Nat

/-- The payload/buffer plan of the successful calls. -/
def planOf (rs : List Round) : List (Bytes × Nat × Nat) := rs.map fun r => (r.p, r.cap, r.capr)

/-- The message the writer `w` produces in round `r`. -/
def sendMsg (S : Suite) (w : Bool) (P : HS × HS) (r : Round) : Bytes :=
  ((pget (mrun S P r.pre) w).writeMessage S r.p r.cap).2.2.1

/-- The pair after the calls of `pre` and the writer's `write_message`. -/
def afterSend (S : Suite) (w : Bool) (P : HS × HS) (r : Round) : HS × HS :=
  mstep S (mrun S P r.pre) (w, .write r.p r.cap)

/-- The pair after the whole round. -/
def afterRound (S : Suite) (w : Bool) (P : HS × HS) (r : Round) : HS × HS :=
  mstep S (mrun S (afterSend S w P r) r.mid) (!w, .read (sendMsg S w P r) r.capr)

/-- The calls of one round, in order. -/
def roundOps (S : Suite) (w : Bool) (P : HS × HS) (r : Round) : List MOp :=
  r.pre ++ (w, Op.write r.p r.cap) :: (r.mid ++ [(!w, Op.read (sendMsg S w P r) r.capr)])

theorem mrun_roundOps (S : Suite) (w : Bool) (P : HS × HS) (r : Round) :
    mrun S P (roundOps S w P r) = afterRound S w P r := by
  simp only [roundOps, mrun_append, mrun, afterRound, afterSend]

/-- **The merged history of an exchange with attempts**: the calls of all rounds, in real-time
    order; `w` is the endpoint that writes the first message (`true`: the first of the pair), the
    writer alternates. -/
def attOps (S : Suite) : Bool → HS × HS → List Round → List MOp
  | _, _, [] => []
  | w, P, r :: rs => roundOps S w P r ++ attOps S (!w) (afterRound S w P r) rs

/-- Every call of every `pre` and `mid` list returns an error. -/
def AttFails (S : Suite) : Bool → HS × HS → List Round → Prop
  | _, _, [] => True
  | w, P, r :: rs =>
    AllFail S P r.pre ∧ AllFail S (afterSend S w P r) r.mid ∧ AttFails S (!w) (afterRound S w P r) rs

/-- Every `write_message` of the plan returned `Ok(len of the message)` and every `read_message`
    of the genuine message returned `Ok(the payload)`. -/
def AttDelivered (S : Suite) : Bool → HS × HS → List Round → Prop
  | _, _, [] => True
  | w, P, r :: rs =>
    ((pget (mrun S P r.pre) w).writeMessage S r.p r.cap).1 = .ok (sendMsg S w P r).length ∧
    ((pget (mrun S (afterSend S w P r) r.mid) (!w)).readMessage S (sendMsg S w P r) r.capr).1 = .ok r.p ∧
    AttDelivered S (!w) (afterRound S w P r) rs

end SnowVerif.C06
