/-
  Integrity, part 7: non-vacuity.

  (i)  On the toy suite (`Toy.suite 0 0 0`, which satisfies `HashLen`, `EncLen`, `DecSound`): the
       states `Initialize` produces for NN, XX and NNpsk0 satisfy `Pre` and `LastKeyed`; an honest
       NN run succeeds and an NN run whose first message is altered fails at the last message, an
       NNpsk0 run with different psks fails (evaluated by the kernel).
  (ii) On a deliberately degenerate suite (constant hash): a run whose first message is altered
       DOES succeed to the end, so all hypotheses of `integrity_main` hold together, and the
       collision in its conclusion is real; likewise `agreement_main` with different psks.
-/
import SnowVerif.Lemmas.IntegrityInit
import SnowVerif.Lemmas.IntegrityField
import SnowVerif.Theorems.C18
import SnowVerif.Spec.Patterns
set_option linter.unusedVariables false
set_option linter.unusedSimpArgs false

namespace SnowVerif.Spec.Integrity.Examples
open SnowVerif SnowVerif.Spec SnowVerif.Spec.Integrity Bytes

/-! ### The patterns -/

def nn : Inst := { preI := [], preR := [], msgs := [[.e], [.e, .ee]] }
def xx : Inst := { preI := [], preR := [], msgs := [[.e], [.e, .ee, .s, .es], [.s, .se]] }
def kk : Inst := { preI := [.s], preR := [.s], msgs := [[.e, .es, .ss], [.e, .ee, .se]] }
/-- NNpsk0 (section 9.4: `psk0` puts a `psk` token at the beginning of the first message). -/
def nnpsk0 : Inst := { preI := [], preR := [], msgs := [[.psk 0, .e], [.e, .ee]] }

example : Spec.pattern "NN" = some nn := by decide
example : Spec.pattern "XX" = some xx := by decide
example : Spec.pattern "KK" = some kk := by decide

/-! ### (i) The toy suite -/

def T : Suite := Toy.suite 0 0 0
def kp (priv : Bytes) : KeyPair := ⟨priv, T.pubOf priv⟩

theorem T_hashLen : T.HashLen := Theorems.C18.toy_suite_hashLen 0 0 0
theorem T_encLen : T.EncLen := Theorems.C18.toy_suite_encLen 0 0 0
theorem T_decSound : T.DecSound := Theorems.C18.toy_suite_decSound 0 0 0
theorem kp_len (priv : Bytes) : (kp priv).pub.length = T.pubLen := Theorems.C18.toy_suite_pubLen 0 0 0 priv

def nameNN : Bytes := "Noise_NN_25519_ChaChaPoly_SHA256".toUTF8.toList
def nameXX : Bytes := "Noise_XX_25519_ChaChaPoly_SHA256".toUTF8.toList
def nameKK : Bytes := "Noise_KK_25519_ChaChaPoly_SHA256".toUTF8.toList

def xxA := HandshakeState.init T nameXX [1, 2, 3] xx false true (some (kp [1])) none none none []
def xxB := HandshakeState.init T nameXX [1, 2, 3] xx false false (some (kp [2])) none none none []

/-- `Pre` and `LastKeyed` hold for what `Initialize` produces: XX on the toy suite, each party
    with its own static key. -/
example : ∃ A B, xxA = some A ∧ xxB = some B ∧ Pre T A B ∧ LastKeyed A ∧ A.msgs ≠ [] := by
  refine ⟨_, _, rfl, rfl, ?_, by unfold LastKeyed; decide, by decide⟩
  refine init_pre T_hashLen (rfl : xxA = some _) (rfl : xxB = some _) ?_ ?_
  · intro k h; cases h; exact kp_len _
  · intro k h; cases h; exact kp_len _

def kkA := HandshakeState.init T nameKK [] kk false true (some (kp [1])) none (some (kp [9]).pub) none []
def kkB := HandshakeState.init T nameKK [] kk false false (some (kp [2])) none (some (kp [1]).pub) none []

/-- The same for KK (pre-message static keys on both sides), with the initiator holding a WRONG
    static key for the responder: `Pre` holds (it says nothing about keys agreeing), and the
    parties start with different `h` (or the toy hash collides). -/
example : ∃ A B, kkA = some A ∧ kkB = some B ∧
    Pre T A B ∧ LastKeyed A ∧ (A.ss.h ≠ B.ss.h ∨ HashCollision T) := by
  refine ⟨_, _, rfl, rfl, ?_, by unfold LastKeyed; decide, ?_⟩
  · refine init_pre T_hashLen (rfl : kkA = some _) (rfl : kkB = some _) ?_ ?_
    · intro k h; cases h; exact kp_len _
    · intro k h; cases h; exact kp_len _
  · refine init_prekey_div T_hashLen (rfl : kkA = some _) (rfl : kkB = some _) (Or.inl ⟨by decide, ?_⟩)
    decide +kernel

def pskA (S : Suite) (name : Bytes) :=
  HandshakeState.init S name [] nnpsk0 true true none none none none [some [1]]
def pskB (S : Suite) (name : Bytes) (key : Bytes) :=
  HandshakeState.init S name [] nnpsk0 true false none none none none [some key]

theorem psk_pre (S : Suite) (hL : S.HashLen) (name : Bytes) (key : Bytes) {A B : HandshakeState}
    (hA : pskA S name = some A) (hB : pskB S name key = some B) : Pre S A B :=
  init_pre hL hA hB (by intro k h; cases h) (by intro k h; cases h)

theorem psk_mismatch (S : Suite) (name : Bytes) {A B : HandshakeState}
    (hA : pskA S name = some A) (hB : pskB S name [2] = some B) : PskMismatch A B :=
  init_pskMismatch hA hB ⟨[.psk 0, .e], List.mem_cons_self .., 0, List.mem_cons_self .., by decide⟩

/-- NNpsk0 with different pre-shared keys: `Pre`, `LastKeyed` and `PskMismatch` hold, i.e. the
    hypotheses of `agreement_main` on the states. -/
example : ∃ A B, pskA T nameNN = some A ∧ pskB T nameNN [2] = some B ∧
    Pre T A B ∧ LastKeyed A ∧ PskMismatch A B :=
  ⟨_, _, rfl, rfl, psk_pre T T_hashLen nameNN [2] rfl rfl, by unfold LastKeyed; decide,
    psk_mismatch T nameNN rfl rfl⟩

/-- Run from two `Initialize` results. -/
def runOpt (S : Suite) (a b : Option HandshakeState) (st : List Step) :=
  match a, b with
  | some a, some b => run S true a b st
  | _, _ => none

def tA := HandshakeState.init T nameNN [] nn false true none none none none []
def tB := HandshakeState.init T nameNN [] nn false false none none none none []

/-- An honest NN handshake on the toy suite succeeds. -/
example : (runOpt T tA tB [⟨[10], kp [3], none⟩, ⟨[11], kp [4], none⟩]).isSome = true := by
  decide +kernel

/-- The same handshake with one byte appended to the (cleartext) payload of the first message:
    the responder accepts message 1, the initiator rejects message 2, as `integrity_main` demands
    in the absence of collisions. -/
example : (runOpt T tA tB [⟨[10], kp [3], some ((kp [3]).pub ++ [10, 99])⟩]).isSome = true ∧
    (runOpt T tA tB [⟨[10], kp [3], some ((kp [3]).pub ++ [10, 99])⟩, ⟨[11], kp [4], none⟩]).isSome = false := by
  constructor <;> decide +kernel

/-- NNpsk0 on the toy suite with different psks fails (at the first message, whose payload is
    keyed), with equal psks it succeeds. -/
example :
    (runOpt T (pskA T nameNN) (pskB T nameNN [2]) [⟨[10], kp [3], none⟩, ⟨[11], kp [4], none⟩]).isSome = false ∧
    (runOpt T (pskA T nameNN) (pskB T nameNN [1]) [⟨[10], kp [3], none⟩, ⟨[11], kp [4], none⟩]).isSome = true := by
  constructor <;> decide +kernel

/-! ### (ii) A degenerate suite on which an altered run succeeds -/

/-- Constant hash; the AEAD appends a 16-byte tag made of key and associated data. -/
def D : Suite :=
  { hashLen := 1, blockLen := 1, hash := fun _ => [0], pubLen := 1, privLen := 1, dhLen := 1,
    validPriv := fun _ => true, pubOf := fun a => fit 1 a, dh := fun _ _ => some [0],
    enc := fun k _ ad p => p ++ fit 16 (k ++ ad),
    dec := fun k _ ad c =>
      if 16 ≤ c.length ∧ c.drop (c.length - 16) = fit 16 (k ++ ad) then some (c.take (c.length - 16)) else none,
    decFailBuf := fun _ _ => [], decOkBuf := fun _ p _ => p,
    dhName := "", cipherName := "", hashName := "" }

theorem fit_length (n : Nat) (b : Bytes) : (fit n b).length = n := by
  simp [fit, zeros]

theorem D_hashLen : D.HashLen := fun _ => rfl
theorem D_encLen : D.EncLen := fun k n ad p => by
  show (p ++ fit 16 (k ++ ad)).length = p.length + 16
  rw [List.length_append, fit_length]
theorem D_decSound : D.DecSound := fun k n ad c p h => by
  change (if 16 ≤ c.length ∧ c.drop (c.length - 16) = fit 16 (k ++ ad) then some (c.take (c.length - 16)) else none)
    = some p at h
  show c = p ++ fit 16 (k ++ ad)
  split at h
  · rename_i hc
    simp only [Option.some.injEq] at h
    rw [← h, ← hc.2, List.take_append_drop]
  · simp at h

/-- The collision in the conclusions is real on `D`. -/
example : HashCollision D := ⟨[0], [1], by decide, rfl⟩

def dkp (b : UInt8) : KeyPair := ⟨[b], [b]⟩
def dA := HandshakeState.init D [78] [] nn false true none none none none []
def dB := HandshakeState.init D [78] [] nn false false none none none none []

/-- Which messages of a run were altered. -/
def altFlags (r : Option (HandshakeState × HandshakeState × List Sent)) : Option (List Bool) :=
  r.map fun r => r.2.2.map fun x => decide (x.delivered ≠ x.genuine)

/-- The first NN message is delivered with a different payload, the second one unmodified. -/
def dsteps : List Step := [⟨[10], dkp 3, some [3, 99]⟩, ⟨[11], dkp 4, none⟩]

theorem dsteps_eph : ∀ st ∈ dsteps, st.eph.pub.length = D.pubLen := by decide

/-- **All hypotheses of `integrity_main` hold together** on the degenerate suite: the states come
    from `Initialize`, `Pre` and `LastKeyed` hold, the first message is altered, the last one is
    not, and every call succeeds; the theorem then yields the collision witness (which exists on
    `D`: its hash is constant). -/
example : ∃ A B A' B' tr, dA = some A ∧ dB = some B ∧ Pre D A B ∧ LastKeyed A ∧
    dsteps.length = A.msgs.length ∧
    run D true A B dsteps = some (A', B', tr) ∧
    (∃ i x, i + 1 < tr.length ∧ tr[i]? = some x ∧ x.altered) ∧
    (∀ x, tr.getLast? = some x → ¬ x.altered) ∧
    (Coll D ∨ AeadCollision D) := by
  have hfl : altFlags (runOpt D dA dB dsteps) = some [true, false] := by decide
  obtain ⟨A, hA⟩ : ∃ A, dA = some A := ⟨_, rfl⟩
  obtain ⟨B, hB⟩ : ∃ B, dB = some B := ⟨_, rfl⟩
  have hp : Pre D A B := init_pre D_hashLen hA hB (by intro k h; cases h) (by intro k h; cases h)
  have hm : A.msgs = nn.msgs := (init_some hA).choose_spec.choose_spec.2.2.2.1
  have hi : A.isPsk = false := (init_some hA).choose_spec.choose_spec.2.2.2.2.1
  have hk0 : A.hasKey = false := by
    unfold dA at hA; simp only [HandshakeState.init] at hA
    cases hA; rfl
  have hk : LastKeyed A := by
    unfold LastKeyed; rw [hm, hi, hk0]; decide
  rw [hA, hB] at hfl
  simp only [runOpt] at hfl
  cases hr : run D true A B dsteps with
  | none => rw [hr] at hfl; simp [altFlags] at hfl
  | some r =>
    obtain ⟨A', B', tr⟩ := r
    rw [hr] at hfl
    simp only [altFlags, Option.map_some, Option.some.injEq] at hfl
    rcases tr with _ | ⟨x, _ | ⟨y, _ | ⟨z, tr⟩⟩⟩ <;>
      simp only [List.map_cons, List.map_nil, List.cons.injEq, decide_eq_true_eq, decide_eq_false_iff_not,
        and_true, reduceCtorEq, and_false, false_and] at hfl
    have halt : ∃ i x', i + 1 < [x, y].length ∧ [x, y][i]? = some x' ∧ x'.altered :=
      ⟨0, x, by simp, rfl, hfl.1⟩
    have hlast : ∀ x', [x, y].getLast? = some x' → ¬ x'.altered := by
      intro x' hx'
      simp only [List.getLast?_cons_cons, List.getLast?_singleton, Option.some.injEq] at hx'
      subst hx'; exact hfl.2
    have hlen : dsteps.length = A.msgs.length := by rw [hm]; rfl
    exact ⟨A, B, A', B', [x, y], hA, hB, hp, hk, hlen, hr, halt, hlast,
      integrity_main D D_hashLen D_encLen D_decSound true A B A' B' dsteps [x, y] hp hk hlen dsteps_eph hr
        halt hlast⟩

def dpA : HandshakeState := (pskA D [78]).get rfl
def dpB : HandshakeState := (pskB D [78] [2]).get rfl
def dpsteps : List Step := [⟨[10], dkp 3, none⟩, ⟨[11], dkp 4, none⟩]

/-- **All hypotheses of `agreement_main` hold together** on the degenerate suite: NNpsk0 with
    different psks, nothing altered, every call succeeds. -/
example : ∃ r, pskA D [78] = some dpA ∧ pskB D [78] [2] = some dpB ∧
    Pre D dpA dpB ∧ LastKeyed dpA ∧ PskMismatch dpA dpB ∧
    run D true dpA dpB dpsteps = some r ∧ (Coll D ∨ AeadCollision D) := by
  have hs : (run D true dpA dpB dpsteps).isSome = true := by decide
  obtain ⟨r, hr⟩ := Option.isSome_iff_exists.1 hs
  have hp : Pre D dpA dpB := psk_pre D D_hashLen [78] [2] rfl rfl
  have hmm : PskMismatch dpA dpB := psk_mismatch D [78] rfl rfl
  have hk : LastKeyed dpA := by unfold LastKeyed; decide
  refine ⟨r, rfl, rfl, hp, hk, hmm, hr, ?_⟩
  exact agreement_main D D_hashLen D_encLen D_decSound true dpA dpB dpsteps r hp hk (by decide) rfl
    (by decide) (by decide) (Or.inr hmm) hr

/-! ### Alteration inside a keyed field: the hypotheses are satisfiable, both outcomes occur -/

/-- A receiver that already holds a key, about to read a message with pattern `s`. -/
def fR (S : Suite) : HandshakeState :=
  { ss := { cs := { k := some [1], n := 0 }, ck := [0], h := S.hash [] }, s := none, e := none, rs := none,
    re := none, initiator := true, msgs := [[.s]], psks := [], isPsk := false }

/-- The genuine message: the sender's static key `pk` encrypted, then the encrypted payload. -/
def fField (S : Suite) (pk : Bytes) : Bytes := S.enc [1] 0 (S.hash []) pk
def fPayload (S : Suite) (pk : Bytes) : Bytes := S.enc [1] 1 (S.hash (S.hash [] ++ fField S pk)) [9]

/-- On the degenerate suite `D` (tag independent of the plaintext) the hypotheses of
    `keyed_field_alteration` hold for an altered `s` field that IS accepted: the forgery in its
    conclusion is real. -/
example : (∃ p R' sp, (fR D).readMessage D (fField D [7] ++ fPayload D [7]) = some (p, R', sp)) ∧
    ((fR D).readMessage D (fField D [8] ++ fPayload D [7])).isSome = true ∧ Forgery D (fField D [7]) := by
  have hacc : ((fR D).readMessage D (fField D [7] ++ fPayload D [7])).isSome = true := by decide
  obtain ⟨⟨p, R', sp⟩, hacc⟩ := Option.isSome_iff_exists.1 hacc
  have hsome : ((fR D).readMessage D (fField D [8] ++ fPayload D [7])).isSome = true := by decide
  refine ⟨⟨p, R', sp, hacc⟩, hsome, ?_⟩
  have := keyed_field_alteration (S := D) (R := fR D) (Ra := fR D) (t1 := []) (t2 := []) (rest := [])
    (m := fField D [7] ++ fPayload D [7]) (m' := fField D [8] ++ fPayload D [7])
    (c1 := []) (c := fField D [7]) (c' := fField D [8]) (rest0 := fPayload D [7]) (rest0' := fPayload D [7])
    rfl hacc (by decide) rfl rfl (by decide) rfl (by decide) (by decide)
  rcases this with h | h
  · rw [h] at hsome; simp at hsome
  · exact h

/-- On the toy suite the same alteration (one bit of the encrypted static key flipped) is
    rejected, as is an altered keyed payload. -/
example : ((fR T).readMessage T (fField T (kp [7]).pub ++ fPayload T (kp [7]).pub)).isSome = true ∧
    (fR T).readMessage T ((fField T (kp [7]).pub).set 0 0 ++ fPayload T (kp [7]).pub) = none ∧
    (fR T).readMessage T (fField T (kp [7]).pub ++ (fPayload T (kp [7]).pub).set 0 0) = none := by
  refine ⟨?_, ?_, ?_⟩ <;> decide +kernel

/-- The hypotheses of `keyed_payload_alteration` hold on `D` for an altered payload that is
    accepted (forgery), with the tokens' result computed by the kernel. -/
example : Forgery D (fPayload D [7]) := by
  have hacc : ((fR D).readMessage D (fField D [7] ++ fPayload D [7])).isSome = true := by decide
  obtain ⟨⟨p, R', sp⟩, hacc⟩ := Option.isSome_iff_exists.1 hacc
  have hr : (HandshakeState.readToks D [.s] (fR D) (fField D [7] ++ fPayload D [7])).isSome = true := by decide
  obtain ⟨⟨R1, rem⟩, hr⟩ := Option.isSome_iff_exists.1 hr
  have hrem : rem = fPayload D [7] := by
    have h2 : (HandshakeState.readToks D [.s] (fR D) (fField D [7] ++ fPayload D [7])).map (·.2)
        = some (fPayload D [7]) := by decide
    rw [hr] at h2; simpa using h2
  subst hrem
  have hsome : ((fR D).readMessage D (fField D [7] ++ (fPayload D [7]).set 0 10)).isSome = true := by decide
  rcases keyed_payload_alteration (S := D) (R := fR D) (c := fField D [7])
      (rem' := (fPayload D [7]).set 0 10) (m' := fField D [7] ++ (fPayload D [7]).set 0 10)
      rfl hacc (by decide) hr rfl rfl (by decide) with h | h
  · rw [h] at hsome; simp at hsome
  · exact h

end SnowVerif.Spec.Integrity.Examples
