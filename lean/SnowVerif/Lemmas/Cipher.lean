/-
  Characterisation lemmas for `CipherState.encryptAd` / `decryptAd`
  (cipherstate.rs) used by the transport and handshake theorems.
-/
import SnowVerif.Model.Transport

namespace SnowVerif.Model
namespace CipherState

theorem encryptAd_ok {S : Suite} {cs : CipherState} {ad pt : Bytes} {cap : Nat} {c : Bytes}
    {cs' : CipherState} {ev : List Event}
    (h : cs.encryptAd S ad pt cap = (.ok c, cs', ev)) :
    cs.hasKey = true ∧ cs.n ≠ nonceMax ∧ pt.length + 16 ≤ cap ∧ c = S.enc cs.key cs.n ad pt
      ∧ cs' = { cs with n := cs.n + 1 } ∧ ev = [.enc cs.key cs.n ad pt] := by
  unfold CipherState.encryptAd at h
  repeat' split at h
  all_goals simp_all

theorem encryptAd_err {S : Suite} {cs : CipherState} {ad pt : Bytes} {cap : Nat} {e : Err}
    {cs' : CipherState} {ev : List Event}
    (h : cs.encryptAd S ad pt cap = (.err e, cs', ev)) :
    cs' = cs ∧ ev = [] ∧ ((cs.hasKey = false ∧ e = .state .missingKeyMaterial) ∨
      (cs.hasKey = true ∧ cs.n = nonceMax ∧ e = .state .exhausted)) := by
  unfold CipherState.encryptAd at h
  repeat' split at h
  all_goals simp_all

theorem encryptAd_panic {S : Suite} {cs : CipherState} {ad pt : Bytes} {cap : Nat} {p : String}
    {cs' : CipherState} {ev : List Event}
    (h : cs.encryptAd S ad pt cap = (.panic p, cs', ev)) : cap < pt.length + 16 := by
  unfold CipherState.encryptAd at h
  repeat' split at h
  all_goals simp_all

/-- Complete evaluation of `encryptAd` when the guards pass. -/
theorem encryptAd_eval {S : Suite} {cs : CipherState} {ad pt : Bytes} {cap : Nat}
    (hk : cs.hasKey = true) (hn : cs.n ≠ nonceMax) (hc : pt.length + 16 ≤ cap) :
    cs.encryptAd S ad pt cap =
      (.ok (S.enc cs.key cs.n ad pt), { cs with n := cs.n + 1 }, [.enc cs.key cs.n ad pt]) := by
  unfold CipherState.encryptAd
  have : ¬ cap < pt.length + 16 := by omega
  simp [hk, hn, this]

theorem decryptAd_ok {S : Suite} {cs : CipherState} {ad ct : Bytes} {cap : Nat} {p : Bytes}
    {cs' : CipherState} {buf : Bytes} {ev : List Event}
    (h : cs.decryptAd S ad ct cap = (.ok p, cs', buf, ev)) :
    16 ≤ ct.length ∧ ct.length - 16 ≤ cap ∧ cs.hasKey = true ∧ cs.n ≠ nonceMax
      ∧ S.dec cs.key cs.n ad ct = some p
      ∧ cs' = { cs with n := cs.n + 1 } ∧ buf = S.decOkBuf ct p cap
      ∧ ev = [.dec cs.key cs.n ad ct true] := by
  unfold CipherState.decryptAd at h
  repeat' split at h
  all_goals (simp at h)
  obtain ⟨rfl, rfl, rfl, rfl⟩ := h
  simp_all

theorem decryptAd_err {S : Suite} {cs : CipherState} {ad ct : Bytes} {cap : Nat} {e : Err}
    {cs' : CipherState} {buf : Bytes} {ev : List Event}
    (h : cs.decryptAd S ad ct cap = (.err e, cs', buf, ev)) :
    cs' = cs ∧
    ((e = .decrypt ∧ (ct.length < 16 ∨ cap < ct.length - 16) ∧ buf = [] ∧ ev = []) ∨
     (e = .state .missingKeyMaterial ∧ cs.hasKey = false ∧ buf = [] ∧ ev = []) ∨
     (e = .state .exhausted ∧ cs.n = nonceMax ∧ buf = [] ∧ ev = []) ∨
     (e = .decrypt ∧ 16 ≤ ct.length ∧ ct.length - 16 ≤ cap ∧ cs.hasKey = true ∧ cs.n ≠ nonceMax
        ∧ S.dec cs.key cs.n ad ct = none
        ∧ buf = S.decFailBuf ct cap ∧ ev = [.dec cs.key cs.n ad ct false])) := by
  unfold CipherState.decryptAd at h
  repeat' split at h
  all_goals (simp at h)
  all_goals (obtain ⟨rfl, rfl, rfl, rfl⟩ := h)
  all_goals simp_all
  all_goals omega

theorem decryptAd_not_panic {S : Suite} {cs : CipherState} {ad ct : Bytes} {cap : Nat} {q : String}
    {cs' : CipherState} {buf : Bytes} {ev : List Event} :
    cs.decryptAd S ad ct cap ≠ (.panic q, cs', buf, ev) := by
  unfold CipherState.decryptAd
  repeat' split
  all_goals simp_all

/-- Complete evaluation of `decryptAd` when the guards pass. -/
theorem decryptAd_eval {S : Suite} {cs : CipherState} {ad ct : Bytes} {cap : Nat}
    (hl : 16 ≤ ct.length) (hc : ct.length - 16 ≤ cap) (hk : cs.hasKey = true) (hn : cs.n ≠ nonceMax) :
    cs.decryptAd S ad ct cap =
      match S.dec cs.key cs.n ad ct with
      | none => (.err .decrypt, cs, S.decFailBuf ct cap, [.dec cs.key cs.n ad ct false])
      | some p => (.ok p, { cs with n := cs.n + 1 }, S.decOkBuf ct p cap, [.dec cs.key cs.n ad ct true]) := by
  unfold CipherState.decryptAd
  have h1 : ¬ ct.length < 16 := by omega
  have h2 : ¬ cap < ct.length - 16 := by omega
  simp only [h1, h2, hk, hn, decide_false, Bool.or_self, Bool.false_eq_true, ↓reduceIte, Bool.not_true,
    beq_iff_eq]
  cases S.dec cs.key cs.n ad ct <;> rfl

end CipherState
end SnowVerif.Model
